// C14 harness: time-range pruning never hides a document that lies in the requested range.
//
// Correspondence channels (implementation vs Lean model through drv_c14):
//
//	bitmask.hasbits   util.Bitmask.HasBitsIn on all bitmaps up to N bits (and sparse 3-byte bitmaps) x all (l, r)
//	bitmask.panic     HasBitsIn with indices outside the slice (Go's index panics)
//	bitmask.ops       NewBitmask / Set / Get sequences, negative and odd sizes
//	dist.small        seq.MIDsDistribution in a millisecond-sized world: all from/to/bucket, all small Add sets,
//	                  midToIndex of every probe and IsIntersecting of every probe pair (incl. MIDs >= 2^63)
//	dist.real         real-sized windows (<= 24 h, minute bucket and odd buckets), documents far in the past/future
//	dist.json         MarshalJSON image + does UnmarshalJSON restore it; UnmarshalJSON of crafted images
//	info.build        frac.Info{From,To,CreationTime,DocsTotal}.BuildDistribution + IsIntersecting + Save/Load
//	frac.info         Info() and IsIntersecting of REAL fractions (active, sealed, reloaded from .frac-cache and
//	                  from the index info block) vs the model of UpdateStats/BuildDistribution/persist
//
// System oracle (property on the implementation alone, real FracManager + GrpcV1 in a child process):
//
//	prune.search      Search(service:c14, [qf, qt]) returns exactly the ingested documents with qf <= MID <= qt
//	prune.fetch       Fetch(ids) returns every ingested document that is requested
package main

import (
	"bytes"
	"context"
	"encoding/hex"
	"encoding/json"
	"fmt"
	"math"
	"math/big"
	"os"
	"os/exec"
	"path/filepath"
	"sort"
	"strings"
	"sync/atomic"
	"time"

	"go.uber.org/zap"
	"google.golang.org/grpc"
	"google.golang.org/grpc/metadata"

	"github.com/ozontech/seq-db/consts"
	"github.com/ozontech/seq-db/disk"
	"github.com/ozontech/seq-db/frac"
	"github.com/ozontech/seq-db/frac/processor"
	"github.com/ozontech/seq-db/fracmanager"
	"github.com/ozontech/seq-db/logger"
	"github.com/ozontech/seq-db/mappingprovider"
	"github.com/ozontech/seq-db/parser"
	pb "github.com/ozontech/seq-db/pkg/storeapi"
	"github.com/ozontech/seq-db/seq"
	"github.com/ozontech/seq-db/storeapi"
	"github.com/ozontech/seq-db/util"
	"github.com/ozontech/seq-db/verifhook"

	"verifharness/internal/vh"
)

const (
	two63  = uint64(1) << 63
	maxU64 = math.MaxUint64
)

// ---------------------------------------------------------------- small helpers

func u64s(xs []uint64) string {
	if len(xs) == 0 {
		return "-"
	}
	ss := make([]string, len(xs))
	for i, x := range xs {
		ss[i] = fmt.Sprintf("%d", x)
	}
	return strings.Join(ss, ",")
}

var big1e9 = big.NewInt(1_000_000_000)

// mkTime builds a time.Time from nanoseconds since the epoch (any magnitude time.Time can hold).
func mkTime(ns *big.Int) time.Time {
	q, r := new(big.Int), new(big.Int)
	q.DivMod(ns, big1e9, r) // Euclidean: 0 <= r < 1e9
	return time.Unix(q.Int64(), r.Int64())
}

func nsOf(t time.Time) *big.Int {
	ns := new(big.Int).Mul(big.NewInt(t.Unix()), big1e9)
	return ns.Add(ns, big.NewInt(int64(t.Nanosecond())))
}

func msTime(ms int64) *big.Int { return new(big.Int).Mul(big.NewInt(ms), big.NewInt(1_000_000)) }

func cell(f func() bool) (c byte) {
	defer func() {
		if recover() != nil {
			c = 'p'
		}
	}()
	if f() {
		return '1'
	}
	return '0'
}

func matrixU(ps []uint64, f func(a, b uint64) bool) string {
	if len(ps) == 0 {
		return "-"
	}
	rows := make([]string, len(ps))
	for i, a := range ps {
		row := make([]byte, len(ps))
		for j, b := range ps {
			row[j] = cell(func() bool { return f(a, b) })
		}
		rows[i] = string(row)
	}
	return strings.Join(rows, ",")
}

// ---------------------------------------------------------------- bitmask channels

func mkBitmask(bin []byte) util.Bitmask {
	return util.LoadBitmask(len(bin)*8, bin)
}

func hasBitsMatrix(bin []byte, n int) string {
	bm := mkBitmask(bin)
	ps := make([]uint64, n)
	for i := range ps {
		ps[i] = uint64(i)
	}
	return matrixU(ps, func(a, b uint64) bool { return bm.HasBitsIn(int(a), int(b)) })
}

func bitmaskChannels(o vh.Opts, r *vh.RNG, rep *vh.Report) {
	ch := vh.NewChannel("bitmask.hasbits", "util.Bitmask.HasBitsIn(l, r) vs SV.Bitmask.hasBitsIn? for ALL l, r < n (also l > r) on every bitmap of n <= N bits, plus 17..24-bit bitmaps with few set bits (middle-byte loop); non-trivial = bitmap has a set bit")
	ch.Exhaustive = true
	maxBits := o.Pick(11, 14)
	for n := 1; n <= maxBits; n++ {
		nb := (n + 7) / 8
		for v := 0; v < 1<<n; v++ {
			bin := make([]byte, nb)
			for i := 0; i < nb; i++ {
				bin[i] = byte(v >> (8 * i))
			}
			ch.Add(fmt.Sprintf("hb %s %d", vh.Hex(bin), n), "ok "+hasBitsMatrix(bin, n), v != 0, fmt.Sprintf("bits=%d", n))
		}
	}
	// three and four bytes: all bitmaps with <= k set bits
	k := o.Pick(2, 3)
	for _, n := range []int{17, 20, 24, 32} {
		var rec func(start, left int, bin []byte)
		rec = func(start, left int, bin []byte) {
			ch.Add(fmt.Sprintf("hb %s %d", vh.Hex(bin), n), "ok "+hasBitsMatrix(bin, n), !bytes.Equal(bin, make([]byte, len(bin))), fmt.Sprintf("bits=%d", n))
			if left == 0 {
				return
			}
			for i := start; i < n; i++ {
				nb := append([]byte{}, bin...)
				nb[i/8] |= 1 << (i % 8)
				rec(i+1, left-1, nb)
			}
		}
		if n == 32 && !o.Thorough() {
			continue
		}
		rec(0, k, make([]byte, (n+7)/8))
	}
	// random dense bitmaps of 3..6 bytes
	for i := 0; i < o.Pick(60, 600); i++ {
		nb := r.Range(3, 6)
		bin := make([]byte, nb)
		for j := range bin {
			if r.Chance(1, 2) {
				bin[j] = byte(r.U64())
			}
		}
		ch.Add(fmt.Sprintf("hb %s %d", vh.Hex(bin), nb*8), "ok "+hasBitsMatrix(bin, nb*8), true, "random-dense")
	}
	rep.AddChannel(ch, o.Driver)

	cp := vh.NewChannel("bitmask.panic", "HasBitsIn with byte indices outside the slice: Go panics exactly when SV.Bitmask.hasBitsIn? is none; non-trivial = an index is outside")
	cp.Exhaustive = true
	for _, bin := range [][]byte{{}, {0}, {0x80}, {0x01}, {0, 0}, {0x10, 0}, {0, 0x02}, {0, 0, 0x80}} {
		lim := len(bin)*8 + 10
		bm := mkBitmask(bin)
		for l := 0; l < lim; l++ {
			for rr := 0; rr < lim; rr++ {
				c := cell(func() bool { return bm.HasBitsIn(l, rr) })
				impl := "panic"
				if c != 'p' {
					impl = "ok " + string(c)
				}
				cp.Add(fmt.Sprintf("hbp %s %d %d", vh.Hex(bin), l, rr), impl, l/8 >= len(bin) || rr/8 >= len(bin), "res="+impl)
			}
		}
	}
	rep.AddChannel(cp, o.Driver)

	co := vh.NewChannel("bitmask.ops", "NewBitmask(size) then Set/Get sequences vs SV.Bitmask.new?/set?/get? (panics included); non-trivial = at least one set and one clear")
	for i := 0; i < o.Pick(400, 4000); i++ {
		size := r.Range(-20, 40)
		nops := r.Range(1, 12)
		var ops []string
		sets, clears := 0, 0
		for j := 0; j < nops; j++ {
			pos := r.Range(0, 44)
			if size > 0 && r.Chance(4, 5) {
				pos = r.Intn(size)
			}
			switch r.Intn(3) {
			case 0:
				ops = append(ops, fmt.Sprintf("s%d", pos))
				sets++
			case 1:
				ops = append(ops, fmt.Sprintf("c%d", pos))
				clears++
			default:
				ops = append(ops, fmt.Sprintf("g%d", pos))
			}
		}
		impl := func() (res string) {
			defer func() {
				if recover() != nil {
					res = "panic"
				}
			}()
			bm := util.NewBitmask(size)
			var gets []string
			for _, op := range ops {
				var pos int
				fmt.Sscanf(op[1:], "%d", &pos)
				switch op[0] {
				case 's':
					bm.Set(pos, true)
				case 'c':
					bm.Set(pos, false)
				case 'g':
					gets = append(gets, vh.B(bm.Get(pos)))
				}
			}
			return fmt.Sprintf("ok %s %s", vh.Hex(bm.GetBitmaskBinary()), vh.JoinStrs(gets, ","))
		}()
		tag := "res=ok"
		if impl == "panic" {
			tag = "res=panic"
		}
		co.Add(fmt.Sprintf("bm %d %s", size, strings.Join(ops, ",")), impl, sets > 0 && clears > 0, tag)
	}
	rep.AddChannel(co, o.Driver)
}

// ---------------------------------------------------------------- distribution channels

type distCase struct {
	from, to *big.Int // ns
	bucket   int64    // ns
	adds     []uint64
	probes   []uint64
}

func (c distCase) req(op string) string {
	if op == "json" {
		return fmt.Sprintf("json %s %s %d %s", c.from, c.to, c.bucket, u64s(c.adds))
	}
	return fmt.Sprintf("dist %s %s %d %s %s", c.from, c.to, c.bucket, u64s(c.adds), u64s(c.probes))
}

func buildDist(c distCase) *seq.MIDsDistribution {
	d := seq.NewMIDsDistribution(mkTime(c.from), mkTime(c.to), time.Duration(c.bucket))
	for _, m := range c.adds {
		d.Add(seq.MID(m))
	}
	return d
}

func distImpl(c distCase) (res string) {
	defer func() {
		if recover() != nil {
			res = "panic"
		}
	}()
	d := buildDist(c)
	_, _, _, size, bin := d.VerifC14Fields()
	idx := make([]string, len(c.probes))
	for i, p := range c.probes {
		idx[i] = fmt.Sprintf("%d", d.VerifC14MidToIndex(seq.MID(p)))
	}
	return fmt.Sprintf("ok size=%d bin=%s idx=%s isect=%s", size, vh.Hex(bin), vh.JoinStrs(idx, ","),
		matrixU(c.probes, func(a, b uint64) bool { return d.IsIntersecting(seq.MID(a), seq.MID(b)) }))
}

type distJSON struct {
	From    uint64 `json:"from"`
	To      uint64 `json:"to"`
	Bucket  uint64 `json:"bucket"`
	Bitmask []byte `json:"bitmask"`
}

func sameDist(a, b *seq.MIDsDistribution) bool {
	af, at, ab, as, abin := a.VerifC14Fields()
	bf, bt, bb, bs, bbin := b.VerifC14Fields()
	return af.Equal(bf) && at.Equal(bt) && ab == bb && as == bs && bytes.Equal(abin, bbin)
}

func jsonImpl(c distCase) (res string) {
	defer func() {
		if recover() != nil {
			res = "panic"
		}
	}()
	d := buildDist(c)
	raw, err := d.MarshalJSON()
	if err != nil {
		return "err marshal"
	}
	if string(raw) == "null" {
		return "ok null"
	}
	var j distJSON
	if err := json.Unmarshal(raw, &j); err != nil {
		return "err image"
	}
	rt := func() (s string) {
		defer func() {
			if recover() != nil {
				s = "notsame"
			}
		}()
		var d2 seq.MIDsDistribution
		if err := d2.UnmarshalJSON(raw); err != nil {
			return "notsame"
		}
		if sameDist(d, &d2) {
			return "same"
		}
		return "notsame"
	}()
	return fmt.Sprintf("ok %d %d %d %s rt=%s", j.From, j.To, j.Bucket, vh.Hex(j.Bitmask), rt)
}

func unjsonImpl(j distJSON) (res string) {
	defer func() {
		if recover() != nil {
			res = "panic"
		}
	}()
	raw, _ := json.Marshal(j)
	var d seq.MIDsDistribution
	if err := d.UnmarshalJSON(raw); err != nil {
		return "err"
	}
	f, t, b, size, bin := d.VerifC14Fields()
	return fmt.Sprintf("ok %s %s %d %d %s", nsOf(f), nsOf(t), int64(b), size, vh.Hex(bin))
}

func subsets(univ []uint64, k int, f func([]uint64)) {
	var rec func(start int, cur []uint64)
	rec = func(start int, cur []uint64) {
		f(append([]uint64{}, cur...))
		if len(cur) == k {
			return
		}
		for i := start; i < len(univ); i++ {
			rec(i+1, append(cur, univ[i]))
		}
	}
	rec(0, nil)
}

func distChannels(o vh.Opts, r *vh.RNG, rep *vh.Report) {
	ms := int64(1_000_000)
	small := vh.NewChannel("dist.small", "seq.MIDsDistribution in a ms-sized world: every from in {-2,0,3} ms, to-from in -7..8 ms, bucket in {0,1,2,3} ms and a sub-ms one, every Add set of <= k MIDs out of 0..12 ms and 2^63, 2^64-1; compared: size, bitmap, midToIndex of all probes, IsIntersecting of ALL probe pairs, panics; non-trivial = no panic and a bit set")
	small.Exhaustive = true
	js := vh.NewChannel("dist.json", "MarshalJSON image (from/to ms, bucket s, bitmap) and whether UnmarshalJSON restores ends, bucket, size and bitmap; UnmarshalJSON of crafted images; non-trivial = image not null")
	k := o.Pick(2, 3)
	univ := []uint64{0, 1, 2, 3, 4, 5, 6, 7, 8, 9, 10, 11, 12, two63, maxU64}
	probes := append(append([]uint64{}, univ...), maxU64-1, two63-1, two63+1)
	for _, f := range []int64{-2, 0, 3} {
		for dt := int64(-7); dt <= 8; dt++ {
			for _, b := range []int64{0, ms, 2 * ms, 3 * ms, 1_500_000} {
				if !o.Thorough() && (dt < -4 || b == 1_500_000) && f != 0 {
					continue
				}
				subsets(univ, k, func(adds []uint64) {
					c := distCase{from: msTime(f), to: msTime(f + dt), bucket: b, adds: adds, probes: probes}
					impl := distImpl(c)
					tag := "res=ok"
					if impl == "panic" {
						tag = "res=panic"
					}
					small.Add(c.req("dist"), impl, impl != "panic" && len(adds) > 0, tag, fmt.Sprintf("bucket=%dns", b), fmt.Sprintf("adds=%d", len(adds)))
					if len(adds) <= 1 && b > 0 {
						ji := jsonImpl(c)
						js.Add(c.req("json"), ji, ji != "ok null" && ji != "panic", "scale=ms", "rt="+ji[strings.LastIndex(ji, "=")+1:])
					}
				})
			}
		}
	}
	rep.AddChannel(small, o.Driver)

	realc := vh.NewChannel("dist.real", "real-sized distributions: window 10 min .. 24 h (and degenerate ones), minute bucket and odd buckets, documents before/inside/after the window incl. 0, 2^63-1, 2^63, 2^64-1, probes on bucket borders +-1 ms and on documents +-1; non-trivial = a document inside the window")
	n := o.Pick(250, 4000)
	for i := 0; i < n; i++ {
		ctMs := int64(1_600_000_000_000) + int64(r.Intn(200_000_000_000))
		var winMs int64
		switch r.Intn(5) {
		case 0:
			winMs = 600_000
		case 1:
			winMs = 86_400_000
		case 2:
			winMs = int64(r.Range(0, 3_600_000))
		default:
			winMs = int64(r.Range(600_000, 86_400_000))
		}
		bucket := int64(60_000_000_000)
		btag := "bucket=1m"
		switch r.Intn(8) {
		case 0:
			bucket, btag = 1_000_000_000, "bucket=1s"
		case 1:
			bucket, btag = 1_500_000_000, "bucket=1.5s"
		case 2:
			bucket, btag = 3_600_000_000_000, "bucket=1h"
		case 3:
			bucket, btag = int64(r.Range(1, 999_999_999)), "bucket=sub-second"
		}
		if winMs*1_000_000/bucket > 200_000 {
			bucket, btag = 60_000_000_000, "bucket=1m"
		}
		from, to := msTime(ctMs-winMs), msTime(ctMs)
		if r.Chance(1, 6) { // ends that are not whole milliseconds
			from.Add(from, big.NewInt(int64(r.Intn(999_999))))
			btag += ",sub-ms-ends"
		}
		c := distCase{from: from, to: to, bucket: bucket}
		inside := false
		nd := r.Range(0, 6)
		for j := 0; j < nd; j++ {
			var m uint64
			switch r.Intn(9) {
			case 0:
				m = uint64(ctMs - winMs - int64(r.Range(1, 100_000_000)))
			case 1:
				m = uint64(ctMs + int64(r.Range(1, 100_000_000)))
			case 2:
				m = []uint64{0, 1, two63 - 1, two63, maxU64, maxU64 - 1}[r.Intn(6)]
			case 3:
				m = uint64(ctMs - winMs + (int64(r.Intn(int(winMs/60_000+1))))*60_000) // on a minute border of the window
				inside = true
			default:
				m = uint64(ctMs - int64(r.Intn(int(winMs+1))))
				inside = true
			}
			c.adds = append(c.adds, m)
		}
		ps := map[uint64]bool{0: true, two63 - 1: true, two63: true, maxU64: true, uint64(ctMs): true, uint64(ctMs + 1): true, uint64(ctMs - winMs): true, uint64(ctMs - winMs - 1): true}
		for _, m := range c.adds {
			ps[m], ps[m+1], ps[m-1] = true, true, true
			b := uint64(bucket / 1_000_000)
			if b > 0 && m >= uint64(ctMs-winMs) && m <= uint64(ctMs) {
				lo := uint64(ctMs-winMs) + (m-uint64(ctMs-winMs))/b*b
				ps[lo], ps[lo-1], ps[lo+b], ps[lo+b-1] = true, true, true, true
			}
		}
		for p := range ps {
			c.probes = append(c.probes, p)
		}
		sort.Slice(c.probes, func(a, b int) bool { return c.probes[a] < c.probes[b] })
		if len(c.probes) > 24 {
			c.probes = c.probes[:24]
		}
		realc.Add(c.req("dist"), distImpl(c), inside, btag, fmt.Sprintf("docs=%d", nd))
		if bucket >= 1_000_000_000 || r.Chance(1, 4) {
			ji := jsonImpl(c)
			js.Add(c.req("json"), ji, ji != "ok null" && ji != "panic", "scale=real", btag, "rt="+ji[strings.LastIndex(ji, "=")+1:])
		}
	}
	rep.AddChannel(realc, o.Driver)

	// crafted images: bitmap longer than needed, exactly as needed, or shorter by a whole number of 3-byte groups
	// (encoding/json gives the decoded slice a capacity rounded up to 3: only then the model's panic is Go's panic)
	for i := 0; i < o.Pick(150, 1500); i++ {
		fromMs := uint64(1_600_000_000_000 + r.Intn(1000))
		if r.Chance(1, 8) {
			fromMs = []uint64{0, two63 - 1, two63, maxU64}[r.Intn(4)]
		}
		bucketS := uint64(r.Range(0, 120))
		span := uint64(r.Range(0, 7200)) * 1000
		toMs := fromMs + span
		if r.Chance(1, 10) {
			toMs = fromMs - uint64(r.Range(1, 100))*1000
		}
		need := 0
		if bucketS > 0 && int64(toMs) >= int64(fromMs) {
			need = (int((int64(toMs)-int64(fromMs))/int64(bucketS*1000)) + 3 + 7) / 8
		}
		var l int
		switch r.Intn(4) {
		case 0:
			l = need
		case 1:
			l = need + r.Range(1, 5)
		case 2:
			l = need / 3 * 3
			if l == need && l >= 3 {
				l -= 3
			}
		default:
			l = (need + 2) / 3 * 3
		}
		bm := make([]byte, l)
		for j := range bm {
			bm[j] = byte(r.U64())
		}
		j := distJSON{From: fromMs, To: toMs, Bucket: bucketS, Bitmask: bm}
		impl := unjsonImpl(j)
		tag := "unjson=ok"
		if impl == "panic" {
			tag = "unjson=panic"
		}
		js.Add(fmt.Sprintf("unjson %d %d %d %s", j.From, j.To, j.Bucket, vh.Hex(j.Bitmask)), impl, bucketS > 0, tag)
	}
	rep.AddChannel(js, o.Driver)
}

// ---------------------------------------------------------------- frac.Info channel (constructed infos)

func fmtDistOf(d *seq.MIDsDistribution) string {
	if d == nil {
		return "null"
	}
	f, t, b, size, bin := d.VerifC14Fields()
	if b == 0 {
		return "null"
	}
	return fmt.Sprintf("%s/%s/%d/%d/%s", nsOf(f), nsOf(t), int64(b), size, vh.Hex(bin))
}

func persistOf(info *frac.Info) (res string) {
	defer func() {
		if recover() != nil {
			res = "notsame"
		}
	}()
	raw := info.Save()
	var l frac.Info
	l.Load(raw)
	switch {
	case info.Distribution == nil && l.Distribution == nil:
		return "same"
	case info.Distribution == nil || l.Distribution == nil:
		return "notsame"
	case sameDist(info.Distribution, l.Distribution) && l.From == info.From && l.To == info.To && l.DocsTotal == info.DocsTotal && l.CreationTime == info.CreationTime:
		return "same"
	}
	return "notsame"
}

func infoChannel(o vh.Opts, r *vh.RNG, rep *vh.Report) {
	ch := vh.NewChannel("info.build", "frac.Info{DocsTotal,From,To,CreationTime}.BuildDistribution(ids) then IsIntersecting on all probe pairs and Save/Load, vs SV.FracInfo.buildDistribution/isIntersecting?/persist?; spreads from 0 to > 24 h before creation, documents after creation, From = MaxUint64; non-trivial = a distribution was built")
	n := o.Pick(300, 5000)
	for i := 0; i < n; i++ {
		ct := uint64(1_600_000_000_000 + r.Intn(100_000_000_000))
		var spread int64
		switch r.Intn(6) {
		case 0:
			spread = int64(r.Range(0, 1_200_000)) // around the 10 min threshold
		case 1:
			spread = []int64{599_999, 600_000, 600_001, 86_399_999, 86_400_000, 86_400_001}[r.Intn(6)]
		case 2:
			spread = int64(r.Range(80_000_000, 200_000_000)) // around / beyond 24 h
		case 3:
			spread = -int64(r.Range(1, 10_000_000)) // all documents after creation
		default:
			spread = int64(r.Range(600_000, 90_000_000))
		}
		nd := r.Range(1, 7)
		var mids []uint64
		lo, hi := uint64(maxU64), uint64(0)
		for j := 0; j < nd; j++ {
			var m uint64
			if j == 0 {
				m = ct - uint64(spread)
			} else {
				switch r.Intn(6) {
				case 0:
					m = ct + uint64(r.Range(0, 50_000_000))
				case 1:
					m = ct - uint64(spread) + uint64(r.Intn(120_000))
				default:
					if spread > 0 {
						m = ct - uint64(r.Intn(int(spread)+1))
					} else {
						m = ct + uint64(r.Intn(1000))
					}
				}
			}
			mids = append(mids, m)
			lo, hi = min(lo, m), max(hi, m)
		}
		total := uint32(nd)
		tag := "shape=regular"
		if spread > 700_000 && r.Chance(1, 3) {
			// sparse late documents as sealing sees them (IDs sorted, newest first): pairs that share a calendar minute
			// but straddle a border of the distribution's buckets (aligned to the oldest, non minute-aligned MID), gaps
			tag = "shape=same-minute-adjacent-buckets"
			oldest := ct - uint64(spread)
			if oldest%60_000 == 0 {
				oldest += uint64(r.Range(1, 59_999))
			}
			mids = []uint64{oldest}
			nb := uint64(spread) / 60_000
			for j := 0; j < r.Range(1, 3); j++ {
				border := oldest + uint64(r.Range(1, int(min(nb, 1400))))*60_000
				mids = append(mids, border-uint64(r.Range(1, int(border%60_000))), border+uint64(r.Intn(int(60_000-border%60_000))))
			}
			sort.Slice(mids, func(a, b int) bool { return mids[a] > mids[b] })
			lo, hi = mids[len(mids)-1], mids[0]
			total = uint32(len(mids))
		}
		switch r.Intn(12) {
		case 0:
			total, tag = 0, tag+",docs-total-0"
		case 1:
			lo, hi, tag = maxU64, 0, tag+",empty-borders"
		case 2:
			mids = append(mids, two63+uint64(r.Intn(5)))
			hi, tag = mids[len(mids)-1], tag+",mid>=2^63"
		}
		ids := []seq.ID{{MID: seq.MID(maxU64), RID: seq.RID(maxU64)}}
		build := []uint64{maxU64}
		for j, m := range mids {
			ids = append(ids, seq.ID{MID: seq.MID(m), RID: seq.RID(j + 1)})
			build = append(build, m)
		}
		info := &frac.Info{DocsTotal: total, From: seq.MID(lo), To: seq.MID(hi), CreationTime: ct}
		buildS := u64s(build)
		if r.Chance(1, 10) {
			buildS, tag = "nobuild", tag+",nobuild"
		} else {
			info.BuildDistribution(ids)
		}
		ps := map[uint64]bool{0: true, maxU64: true, two63: true, two63 - 1: true, ct: true, ct - 86_400_000: true, ct - 86_400_001: true, lo: true, hi: true, lo - 1: true, hi + 1: true}
		for _, m := range mids {
			ps[m], ps[m+1], ps[m-1] = true, true, true
			ps[m/60_000*60_000], ps[m/60_000*60_000+59_999] = true, true
		}
		var probes []uint64
		for p := range ps {
			probes = append(probes, p)
		}
		sort.Slice(probes, func(a, b int) bool { return probes[a] < probes[b] })
		if len(probes) > 22 {
			keep := probes[:0:0]
			for j, p := range probes {
				if j%2 == 0 || p >= two63-1 {
					keep = append(keep, p)
				}
			}
			probes = keep
		}
		impl := fmt.Sprintf("ok dist=%s isect=%s persist=%s", fmtDistOf(info.Distribution),
			matrixU(probes, func(a, b uint64) bool { return info.IsIntersecting(seq.MID(a), seq.MID(b)) }), persistOf(info))
		hasDist := "dist=no"
		if info.Distribution != nil {
			hasDist = "dist=yes"
		}
		ch.Add(fmt.Sprintf("info %d %d %d %d %s %s", total, lo, hi, ct, buildS, u64s(probes)), impl, info.Distribution != nil, tag, hasDist)
	}
	rep.AddChannel(ch, o.Driver)
}

// ---------------------------------------------------------------- MID blocks of a sealed fraction (pure)

func midsBlockChannel(o vh.Opts, r *vh.RNG, rep *vh.Report) {
	ch := vh.NewChannel("ids.unpack", "one ID block: the sealer's DiskIDsBlock.packMIDs then UnpackCache.unpackMIDs (what getLIDsBorders of a sealed fraction reads) vs C03's codec model = the stored MIDs: descending MIDs whose neighbour deltas sit around 2^7k borders, 2^31, 2^32, 2^34, 2^35 ms (24.9 .. 398 days) and beyond, ascending and zero deltas; non-trivial = some delta >= 2^31 ms")
	add := func(mids []uint64, tag string) {
		n, got := frac.VerifC14PackUnpackMIDs(mids)
		big := false
		for i := 1; i < len(mids); i++ {
			d := mids[i-1] - mids[i]
			if mids[i] > mids[i-1] {
				d = mids[i] - mids[i-1]
			}
			big = big || d >= 1<<31
		}
		ch.Add("midsrt "+u64s(mids), fmt.Sprintf("ok %d %s", n, u64s(got)), big, tag)
	}
	base := uint64(1_790_000_000_000)
	var deltas []uint64
	for _, k := range []uint{6, 7, 13, 14, 20, 21, 27, 28, 30, 31, 32, 33, 34, 35, 36, 41, 42} {
		for _, e := range []int64{-2, -1, 0, 1, 2} {
			deltas = append(deltas, uint64(int64(1)<<k+e))
		}
	}
	for _, d := range deltas { // newest, one document d ms older, one more 1 ms older
		add([]uint64{base, base - d, base - d - 1}, "shape=single-gap")
		add([]uint64{base + 5, base, base - d, base - d - 1000, base - d - 1001}, "shape=gap-in-the-middle")
	}
	for _, days := range []uint64{20, 25, 30, 90, 190, 199, 400} {
		d := days * 86_400_000
		add([]uint64{base, base - 1, base - d, base - d - 7, base - 2*d}, fmt.Sprintf("shape=days-%d", days))
	}
	add([]uint64{maxU64, base, 1}, "shape=stub-first")               // the stub ID of LID 0 comes first in block 0
	add([]uint64{5, base, base, 3, maxU64, 0}, "shape=non-monotone") // the codec does not depend on the order
	for i := 0; i < o.Pick(300, 3000); i++ {
		m := base + uint64(r.Intn(1_000_000))
		mids := []uint64{m}
		for j := 0; j < r.Range(1, 12); j++ {
			d := deltas[r.Intn(len(deltas))]
			if r.Chance(1, 2) {
				d = uint64(r.Intn(100_000))
			}
			if d > m {
				d = m
			}
			m -= d
			mids = append(mids, m)
		}
		add(mids, "shape=random")
	}
	rep.AddChannel(ch, o.Driver)
}

// ---------------------------------------------------------------- calcEnsuredIDsCount (pure)

// infoFrac is a frac.Fraction that only has an Info (what calcEnsuredIDsCount reads of the next fraction)
type infoFrac struct{ info *frac.Info }

func (f infoFrac) Info() *frac.Info                                         { return f.info }
func (f infoFrac) IsIntersecting(from, to seq.MID) bool                     { return f.info.IsIntersecting(from, to) }
func (f infoFrac) Contains(mid seq.MID) bool                                { return f.info.IsIntersecting(mid, mid) }
func (f infoFrac) DataProvider(context.Context) (frac.DataProvider, func()) { return nil, func() {} }
func (f infoFrac) Suicide()                                                 {}

func ensuredChannel(o vh.Opts, r *vh.RNG, rep *vh.Report) {
	ch := vh.NewChannel("searcher.ensured", "real fracmanager.calcEnsuredIDsCount (export of C05) vs SV.Merge.calcEnsured: every ordered ID list over MIDs 1..3 x RIDs 1..2 (ties on MID), every border 0..4 of the next fraction, both orders, and no remaining fraction; plus random longer lists; non-trivial = some ID has MID equal to the border")
	ch.Exhaustive = true
	var univ []seq.ID
	for m := 1; m <= 3; m++ {
		for rid := 1; rid <= 2; rid++ {
			univ = append(univ, seq.ID{MID: seq.MID(m), RID: seq.RID(rid)})
		}
	}
	add := func(ids []seq.ID, desc bool, border int) {
		ids = append([]seq.ID{}, ids...)
		sort.Slice(ids, func(a, b int) bool {
			if desc {
				return seq.Less(ids[b], ids[a])
			}
			return seq.Less(ids[a], ids[b])
		})
		var src seq.IDSources
		var ss []string
		eq := false
		for _, id := range ids {
			src = append(src, seq.IDSource{ID: id})
			ss = append(ss, fmt.Sprintf("%d.%d", uint64(id.MID), uint64(id.RID)))
			eq = eq || int(id.MID) == border
		}
		order := seq.DocsOrderAsc
		if desc {
			order = seq.DocsOrderDesc
		}
		var rest fracmanager.List
		next := "none"
		if border >= 0 {
			rest = fracmanager.List{infoFrac{&frac.Info{DocsTotal: 1, From: seq.MID(border), To: seq.MID(border)}}}
			next = fmt.Sprintf("%d:%d", border, border)
		}
		n := fracmanager.VerifCalcEnsuredIDsCount(src, rest, order)
		ch.Add(fmt.Sprintf("ensured %s %s %s", vh.B(desc), vh.JoinStrs(ss, ","), next), fmt.Sprintf("ok %d", n), eq, "desc="+vh.B(desc), fmt.Sprintf("len=%d", len(ids)))
	}
	for mask := 0; mask < 1<<len(univ); mask++ {
		var ids []seq.ID
		for i, id := range univ {
			if mask>>i&1 == 1 {
				ids = append(ids, id)
			}
		}
		for _, desc := range []bool{true, false} {
			for border := -1; border <= 4; border++ {
				add(ids, desc, border)
			}
		}
	}
	for i := 0; i < o.Pick(200, 2000); i++ {
		base := uint64(1_700_000_000_000 + r.Intn(1000))
		seen := map[seq.ID]bool{}
		var ids []seq.ID
		for j := 0; j < r.Range(1, 30); j++ {
			id := seq.ID{MID: seq.MID(base + uint64(r.Intn(6))), RID: seq.RID(r.Intn(5))}
			if !seen[id] {
				seen[id] = true
				ids = append(ids, id)
			}
		}
		add(ids, r.Bool(), int(base)+r.Range(-1, 6))
	}
	rep.AddChannel(ch, o.Driver)
}

// ---------------------------------------------------------------- metaDataCollector borders (pure)

func collectorChannel(o vh.Opts, r *vh.RNG, rep *vh.Report) {
	ch := vh.NewChannel("collector.stats", "real frac.metaDataCollector (export of C17): AppendMeta of a bulk, then Filter(appended) as appendWorker does for a retried bulk; MinMID / MaxMID / surviving IDs vs SV.FracInfo.collectorStats / survivors: every order of up to 4 IDs over MIDs 1..4 and every subset as `appended`, plus random longer bulks; non-trivial = Filter ran and the first survivor carries the largest MID")
	ch.Exhaustive = true
	add := func(ids []seq.ID, keep []bool) {
		c := frac.VerifNewCollectorC17()
		c.Init(0)
		var idsS, appS []string
		var appended []seq.ID
		all := true
		for i, id := range ids {
			c.AppendMeta(frac.MetaData{ID: id, Size: 10, Tokens: []frac.MetaToken{{Key: []byte("service"), Value: []byte("c14")}}})
			idsS = append(idsS, fmt.Sprintf("%d.%d", uint64(id.MID), uint64(id.RID)))
			if keep[i] {
				appended = append(appended, id)
				appS = append(appS, idsS[i])
			} else {
				all = false
			}
		}
		app := "all"
		if !all {
			c.Filter(appended)
			app = vh.JoinStrs(appS, ",")
		}
		st := c.State()
		var sv []string
		for _, id := range st.IDs {
			sv = append(sv, fmt.Sprintf("%d.%d", uint64(id.MID), uint64(id.RID)))
		}
		nt := !all && len(appended) > 1
		if nt {
			for _, id := range appended[1:] {
				nt = nt && id.MID < appended[0].MID
			}
		}
		tag := "filter=no"
		if !all {
			tag = "filter=yes"
		}
		ch.Add(fmt.Sprintf("collect %s %s", vh.JoinStrs(idsS, ","), app), fmt.Sprintf("ok %d %d %s", uint64(st.MinMID), uint64(st.MaxMID), vh.JoinStrs(sv, ",")), nt, tag, fmt.Sprintf("survivors=%d", len(appended)))
	}
	// all sequences of 1..4 distinct IDs with MIDs from 1..4 (RID = position of first use), all keep masks
	var rec func(cur []seq.ID)
	rec = func(cur []seq.ID) {
		if len(cur) > 0 {
			for mask := 0; mask < 1<<len(cur); mask++ {
				keep := make([]bool, len(cur))
				for i := range keep {
					keep[i] = mask>>i&1 == 1
				}
				add(cur, keep)
			}
		}
		if len(cur) == 4 || (!o.Thorough() && len(cur) == 3) {
			return
		}
		for m := 1; m <= 4; m++ {
			rec(append(append([]seq.ID{}, cur...), seq.ID{MID: seq.MID(m), RID: seq.RID(len(cur) + 1)}))
		}
	}
	rec(nil)
	for i := 0; i < o.Pick(300, 3000); i++ {
		n := r.Range(1, 12)
		base := uint64(1_700_000_000_000)
		ids := make([]seq.ID, n)
		keep := make([]bool, n)
		for j := range ids {
			ids[j] = seq.ID{MID: seq.MID(base + uint64(r.Intn(1000))), RID: seq.RID(j + 1)}
			keep[j] = r.Chance(2, 3)
		}
		if r.Chance(1, 3) { // newest first
			sort.Slice(ids, func(a, b int) bool { return ids[a].MID > ids[b].MID })
		}
		add(ids, keep)
	}
	rep.AddChannel(ch, o.Driver)

	// whole histories: real collector + real DocsPositions.SetMultiple + Filter, as appendWorker drives them
	ci := vh.NewChannel("collector.ingest", "histories of bulks through the real metaDataCollector (AppendMeta, incl. NESTED metas: Size 0, same ID and position as the parent), the real DocsPositions.SetMultiple and Filter when it dropped something: per bulk MinMID/MaxMID/DocsCounter/collector IDs (what UpdateStats and AppendIDs receive) vs SV.FracInfo.setMultiple/survivors/collectorStats; retried IDs, IDs repeated in a bulk, nested metas; non-trivial = a nested meta and a dropped duplicate in the history")
	type meta struct {
		id     seq.ID
		nested bool
	}
	runHist := func(hist [][]meta, tags ...string) {
		dp := frac.NewSyncDocsPositions()
		var bulksS, steps []string
		nested, dropped := false, false
		for bi, b := range hist {
			c := frac.VerifNewCollectorC17()
			c.Init(uint32(bi))
			for _, m := range b {
				size := uint32(10)
				if m.nested {
					size, nested = 0, true
				}
				c.AppendMeta(frac.MetaData{ID: m.id, Size: size, Tokens: []frac.MetaToken{{Key: []byte("service"), Value: []byte("c14")}}})
			}
			st := c.State()
			var es []string
			for i, id := range st.IDs {
				es = append(es, fmt.Sprintf("%d.%d@%d", uint64(id.MID), uint64(id.RID), uint64(st.Positions[i])))
			}
			bulksS = append(bulksS, vh.JoinStrs(es, ","))
			appended := dp.SetMultiple(st.IDs, st.Positions)
			if len(appended) != len(st.IDs) {
				c.Filter(appended)
				dropped = true
			}
			st = c.State()
			var sv []string
			for _, id := range st.IDs {
				sv = append(sv, fmt.Sprintf("%d.%d", uint64(id.MID), uint64(id.RID)))
			}
			steps = append(steps, fmt.Sprintf("%d/%d/%d/%s", uint64(st.MinMID), uint64(st.MaxMID), st.DocsCounter, vh.JoinStrs(sv, ",")))
		}
		ci.Add("ingeststeps "+strings.Join(bulksS, ";"), "ok "+strings.Join(steps, ";"), nested && dropped, tags...)
	}
	A, B, C := seq.ID{MID: 5, RID: 1}, seq.ID{MID: 7, RID: 2}, seq.ID{MID: 3, RID: 3}
	// small exhaustive: bulk 1 over {A, A-nested, B}, bulk 2 = any sequence of <= 3 metas over {A, B, C, nested-of-previous}
	for _, b1 := range [][]meta{{{A, false}}, {{A, false}, {A, true}}, {{A, false}, {B, false}}, {{A, false}, {A, true}, {B, false}}, {{A, false}, {A, false}}} {
		var rec func(cur []meta)
		rec = func(cur []meta) {
			if len(cur) > 0 {
				runHist([][]meta{b1, cur}, "shape=small-exhaustive")
			}
			if len(cur) == 3 {
				return
			}
			for _, id := range []seq.ID{A, B, C} {
				rec(append(append([]meta{}, cur...), meta{id, false}))
			}
			if len(cur) > 0 {
				rec(append(append([]meta{}, cur...), meta{cur[len(cur)-1].id, true}))
			}
		}
		rec(nil)
	}
	for i := 0; i < o.Pick(200, 2000); i++ {
		var hist [][]meta
		var known []seq.ID
		for b := 0; b < r.Range(1, 4); b++ {
			var bulk []meta
			for j := 0; j < r.Range(1, 6); j++ {
				switch {
				case len(bulk) > 0 && r.Chance(1, 5):
					bulk = append(bulk, meta{bulk[len(bulk)-1].id, true})
				case len(known) > 0 && r.Chance(1, 3):
					bulk = append(bulk, meta{known[r.Intn(len(known))], false})
				default:
					id := seq.ID{MID: seq.MID(1_700_000_000_000 + uint64(r.Intn(500))), RID: seq.RID(len(known) + 1)}
					known = append(known, id)
					bulk = append(bulk, meta{id, false})
				}
			}
			hist = append(hist, bulk)
		}
		runHist(hist, "shape=random")
	}
	rep.AddChannel(ci, o.Driver)
}

// ---------------------------------------------------------------- system: real fractions in a child process

type docSpec struct {
	Off int64  `json:"off,omitempty"` // MID = creation time of the fraction + Off (ms)
	Abs uint64 `json:"abs,omitempty"` // absolute MID when non-zero (MID 0 means "no ID" to DocProvider: not used)
	R0  bool   `json:"r0,omitempty"`  // Off is relative to the creation time of fraction 0 (shared milliseconds across fractions)
	Dup int    `json:"dup,omitempty"` // > 0: not a new document but the Dup-th document ingested into this fraction again (same ID): a retried bulk
}

type fracSpec struct {
	Bulks  [][]docSpec `json:"bulks"`
	Sealed bool        `json:"sealed"`
	// Dense > 0: additionally Dense documents with MIDs ct-DenseSpread+i (i = 0..Dense-1), ingested in bulks of 5000.
	// With Dense > consts.LIDBlockCap the posting list of the token service:c14 spans several LID blocks.
	Dense       int   `json:"dense,omitempty"`
	DenseSpread int64 `json:"dense_spread,omitempty"`
	// SearchBetween: after every bulk wait for the indexer and read the fraction (a full search and the sorted LID list
	// of all documents), so that the token LID lists are MERGED before the next bulk is queued
	SearchBetween bool `json:"search_between,omitempty"`
	// Late (last fraction only): bulks that are written while the index workers are held, so that they are still
	// queued when the sealing of the fraction begins (readonly set); the workers are released then, the sealer is held
	// before it builds the sealed fraction and the stage "sealing" is checked in that state
	Late [][]docSpec `json:"late,omitempty"`
}

type scenario struct {
	Name    string     `json:"name"`
	Seed    int64      `json:"seed"`
	Fracs   []fracSpec `json:"fracs"`
	Queries int        `json:"queries"`
	Fetches int        `json:"fetches"`
	Wrap    bool       `json:"wrap"` // also issue requests whose ends lie on different sides of 2^63
	// Limited: run Searcher.SearchDocs with FractionsPerIteration 1..3, limits 1..n, both orders, no total, and compare
	// with the first `limit` documents of the union in (MID, RID) order
	Limited bool `json:"limited,omitempty"`
}

type realDoc struct{ mid, rid uint64 }

type realFrac struct {
	name   string
	ct     uint64
	bulks  [][]realDoc
	sealed bool
	dense  int
	base   uint64 // MID of the oldest dense document
}

type fakeStream struct {
	grpc.ServerStream
	ctx    context.Context
	blocks [][]byte
}

func (s *fakeStream) Context() context.Context     { return s.ctx }
func (s *fakeStream) SetHeader(metadata.MD) error  { return nil }
func (s *fakeStream) SendHeader(metadata.MD) error { return nil }
func (s *fakeStream) SetTrailer(metadata.MD)       {}
func (s *fakeStream) Send(d *pb.BinaryData) error {
	s.blocks = append(s.blocks, append([]byte{}, d.Data...))
	return nil
}

type store struct {
	dir string
	fm  *fracmanager.FracManager
	g   *storeapi.GrpcV1
}

func openStore(dir string) (*store, error) {
	fm := fracmanager.NewFracManager(&fracmanager.Config{FracSize: 1 << 40, TotalSize: 1 << 42, ShouldReplay: false, DataDir: dir, MaintenanceDelay: 20 * time.Millisecond})
	if err := fm.Load(context.Background()); err != nil {
		return nil, err
	}
	fm.Start()
	mp, err := mappingprovider.New("", mappingprovider.WithMapping(seq.TestMapping))
	if err != nil {
		return nil, err
	}
	g := storeapi.NewGrpcV1(storeapi.APIConfig{
		Bulk:   storeapi.BulkConfig{RequestsLimit: consts.DefaultBulkRequestsLimit},
		Search: storeapi.SearchConfig{WorkersCount: 2, FractionsPerIteration: 2, RequestsLimit: consts.DefaultSearchRequestsLimit, Async: fracmanager.AsyncSearcherConfig{DataDir: filepath.Join(dir, "async")}},
	}, fm, mp)
	return &store{dir: dir, fm: fm, g: g}, nil
}

func docBody(mid, rid uint64) []byte {
	return []byte(fmt.Sprintf(`{"service":"c14","m":"%d","r":"%d"}`, mid, rid))
}

func fracLine(f realFrac, stage string, fr frac.Fraction, probes []uint64) string {
	kind := "active"
	if f.sealed {
		kind = "sealed"
	}
	if f.sealed && stage == "reloaded-legacy-cache" {
		kind = "legacy" // the cached info has no distribution: it must stay nil (occupancy unknown, borders only)
	}
	var bs []string
	for _, b := range f.bulks {
		ms := make([]uint64, len(b))
		for i, d := range b {
			ms[i] = d.mid
		}
		bs = append(bs, u64s(ms))
	}
	info := fr.Info()
	impl := fmt.Sprintf("ok from=%d to=%d total=%d dist=%s isect=%s", uint64(info.From), uint64(info.To), info.DocsTotal, fmtDistOf(info.Distribution),
		matrixU(probes, func(a, b uint64) bool { return fr.IsIntersecting(seq.MID(a), seq.MID(b)) }))
	hasDist := "dist=no"
	if info.Distribution != nil {
		hasDist = "dist=yes"
	}
	return fmt.Sprintf("C\t%s,%s,%s\tfrac %s %d %s %s\t%s", stage, kind, hasDist, kind, f.ct, strings.Join(bs, ";"), u64s(probes), impl)
}

// activeOrder checks the invariant every reader of an active fraction relies on (getLIDsBorders' binary searches,
// the merge nodes): the LIDs of all documents, as the fraction hands them out, are sorted by (MID, RID) descending
func activeOrder(fm *fracmanager.FracManager) string {
	a := fracmanager.VerifC07ActiveOf(fm)
	if a == nil {
		return "none"
	}
	lids := a.GetAllDocuments()
	mids, rids := a.MIDs.GetVals(), a.RIDs.GetVals()
	for i := 1; i < len(lids); i++ {
		p, c := lids[i-1], lids[i]
		if mids[p] < mids[c] || (mids[p] == mids[c] && rids[p] < rids[c]) {
			return fmt.Sprintf("unsorted position %d of %d", i, len(lids))
		}
	}
	return fmt.Sprintf("sorted %d", len(lids))
}

func childMain(path string) {
	logger.SetLevel(zap.FatalLevel)
	raw, err := os.ReadFile(path)
	if err != nil {
		fmt.Println("child-error", err)
		os.Exit(3)
	}
	var sc scenario
	if err := json.Unmarshal(raw, &sc); err != nil {
		fmt.Println("child-error", err)
		os.Exit(3)
	}
	dir, err := os.MkdirTemp("", "verif-c14-")
	if err != nil {
		fmt.Println("child-error", err)
		os.Exit(3)
	}
	defer os.RemoveAll(dir)
	st, err := openStore(dir)
	if err != nil {
		fmt.Println("child-error store:", err)
		os.Exit(3)
	}
	ctx := context.Background()
	var fracs []realFrac
	rid := uint64(1)
	var holdIdx, holdSeal atomic.Bool
	idxReached, sealBegun, sealIdle := make(chan struct{}, 1), make(chan struct{}, 1), make(chan struct{}, 1)
	releaseIdx, releaseSeal, sealDone := make(chan struct{}), make(chan struct{}), make(chan struct{})
	raceHeld := false
	waitFor := func(ch chan struct{}, what string) {
		select {
		case <-ch:
		case <-time.After(20 * time.Second):
			fmt.Println("child-error interleaving: timeout waiting for", what)
			os.Exit(3)
		}
	}
	for k, fs := range sc.Fracs {
		act := st.fm.Active()
		rf := realFrac{name: act.Info().Name(), ct: act.Info().CreationTime}
		type specDoc struct {
			mid uint64
			dup int
		}
		resolve := func(bs [][]docSpec) [][]specDoc {
			var res [][]specDoc
			for _, b := range bs {
				var ds []specDoc
				for _, d := range b {
					mid := uint64(int64(rf.ct) + d.Off)
					if d.R0 && len(fracs) > 0 {
						mid = uint64(int64(fracs[0].ct) + d.Off)
					}
					if d.Abs != 0 {
						mid = d.Abs
					}
					ds = append(ds, specDoc{mid, d.Dup})
				}
				res = append(res, ds)
			}
			return res
		}
		specBulks := resolve(fs.Bulks)
		hasDup := false
		for _, b := range fs.Bulks {
			for _, d := range b {
				hasDup = hasDup || d.Dup > 0
			}
		}
		if fs.Dense > 0 {
			rf.dense, rf.base = fs.Dense, uint64(int64(rf.ct)-fs.DenseSpread)
			for i := 0; i < fs.Dense; i += 5000 {
				var ds []specDoc
				for j := i; j < min(i+5000, fs.Dense); j++ {
					ds = append(ds, specDoc{rf.base + uint64(j), 0})
				}
				specBulks = append(specBulks, ds)
			}
		}
		var ingested []realDoc // the distinct documents of this fraction, ingestion order
		sendBulk := func(ds []specDoc) []realDoc {
			dp := frac.NewDocProvider()
			var rb []realDoc
			for _, d := range ds {
				if d.dup > 0 && d.dup <= len(ingested) { // the same ID (and body) again
					o := ingested[d.dup-1]
					dp.Append(docBody(o.mid, o.rid), nil, seq.ID{MID: seq.MID(o.mid), RID: seq.RID(o.rid)}, seq.Tokens("_all_:", "service:c14"))
					continue
				}
				dp.Append(docBody(d.mid, rid), nil, seq.ID{MID: seq.MID(d.mid), RID: seq.RID(rid)}, seq.Tokens("_all_:", "service:c14"))
				rb = append(rb, realDoc{d.mid, rid})
				ingested = append(ingested, realDoc{d.mid, rid})
				rid++
			}
			req := &pb.BulkRequest{Count: int64(dp.DocCount)}
			req.Docs, req.Metas = dp.Provide()
			if _, err := st.g.Bulk(ctx, req); err != nil {
				fmt.Println("child-error bulk:", err)
				os.Exit(3)
			}
			return rb
		}
		for bi, ds := range specBulks {
			rf.bulks = append(rf.bulks, sendBulk(ds)) // for the model a bulk is its new documents (survivors of the duplicate filter)
			if hasDup || fs.SearchBetween {
				st.fm.WaitIdle() // a retry comes after the first attempt was indexed
			}
			if fs.SearchBetween {
				if _, err := st.g.Search(ctx, &pb.SearchRequest{Query: "service:c14", From: 1, To: int64(two63 - 1), Size: 10, Order: pb.Order_ORDER_DESC}); err != nil {
					fmt.Println("child-error search-between:", err)
					os.Exit(3)
				}
				fmt.Printf("I\tingest\tf%d.b%d\t%s\n", k, bi, activeOrder(st.fm))
			}
		}
		st.fm.WaitIdle()
		if k == len(sc.Fracs)-1 && len(fs.Late) > 0 {
			// ---- sealing starts while bulks of the fraction are still queued in the index workers
			verifhook.Set(func(name, _ string, _ []int64) {
				switch name {
				case "c07.aidx.start":
					if holdIdx.Load() {
						select {
						case idxReached <- struct{}{}:
						default:
						}
						<-releaseIdx
					}
				case "c07.pf.seal.begin":
					select {
					case sealBegun <- struct{}{}:
					default:
					}
				case "c07.pf.seal.idle":
					if holdSeal.Load() {
						select {
						case sealIdle <- struct{}{}:
						default:
						}
						<-releaseSeal
					}
				}
			})
			holdIdx.Store(true)
			for _, ds := range resolve(fs.Late) {
				rf.bulks = append(rf.bulks, sendBulk(ds))
			}
			waitFor(idxReached, "index worker reached c07.aidx.start")
			holdSeal.Store(true)
			go func() {
				st.fm.SealForcedForTests()
				close(sealDone)
			}()
			waitFor(sealBegun, "c07.pf.seal.begin")
			holdIdx.Store(false)
			close(releaseIdx)
			waitFor(sealIdle, "c07.pf.seal.idle") // everything is indexed, the sealed fraction is not built yet
			raceHeld = true
			fracs = append(fracs, rf)
			continue
		}
		st.fm.WaitIdle()
		if fs.Sealed || k < len(sc.Fracs)-1 {
			st.fm.SealForcedForTests()
			st.fm.WaitIdle()
			rf.sealed = true
		}
		fracs = append(fracs, rf)
	}

	// probes and requests are derived from the actual creation times with the scenario's own PRNG
	r := vh.NewRNG(sc.Seed)
	var all []realDoc
	owner := map[realDoc]string{}
	pset := map[uint64]bool{0: true, two63 - 1: true, maxU64: true}
	for _, f := range fracs {
		pset[f.ct], pset[f.ct-86_400_000], pset[f.ct-86_400_001], pset[f.ct-600_000] = true, true, true, true
		nth := 0
		for _, b := range f.bulks {
			for _, d := range b {
				all = append(all, d)
				owner[d] = f.name
				nth++
				if f.dense > 0 && nth > 40 && nth%9973 != 0 { // a dense fraction contributes only a sample of probes
					continue
				}
				pset[d.mid], pset[d.mid+1], pset[d.mid-1] = true, true, true
				pset[d.mid/60_000*60_000], pset[d.mid/60_000*60_000+59_999] = true, true
			}
		}
	}
	if sc.Wrap {
		pset[two63], pset[two63+1] = true, true
	}
	var probes []uint64
	for p := range pset {
		probes = append(probes, p)
	}
	sort.Slice(probes, func(a, b int) bool { return probes[a] < probes[b] })
	pick := func(n int) []uint64 {
		if len(probes) <= n {
			return probes
		}
		idx := r.Perm(len(probes))[:n]
		sort.Ints(idx)
		res := make([]uint64, n)
		for i, j := range idx {
			res[i] = probes[j]
		}
		return res
	}

	// rel renders a MID relative to the creation time of the nearest fraction (deterministic across runs)
	rel := func(x uint64) string {
		for k, f := range fracs {
			d := int64(x - f.ct)
			if d > -400_000_000 && d < 400_000_000 {
				return fmt.Sprintf("ct%d%+d", k, d)
			}
		}
		return fmt.Sprintf("%d", x)
	}
	byName := func() map[string]frac.Fraction {
		m := map[string]frac.Fraction{}
		for _, f := range st.fm.GetAllFracs() {
			m[f.Info().Name()] = f
		}
		return m
	}
	stageChecks := func(stage string) {
		m := byName()
		if stage == "live" || stage == "sealing" {
			fmt.Printf("I\t%s\tactive\t%s\n", stage, activeOrder(st.fm))
		}
		for _, f := range fracs {
			fr, ok := m[f.name]
			if !ok {
				fmt.Printf("N\tfraction %s missing at stage %s\n", f.name, stage)
				continue
			}
			fmt.Println(fracLine(f, stage, fr, pick(14)))
		}
		// searches
		fracIdx := map[string]int{}
		for k, f := range fracs {
			fracIdx[f.name] = k
		}
		clip5 := func(xs []string) string {
			if len(xs) > 5 {
				xs = xs[:5]
			}
			return vh.JoinStrs(xs, ",")
		}
		query := "service:c14" // every document carries it; the negated forms below match every document as well
		doSearch := func(label string, qf, qt uint64, order pb.Order) {
			resp, err := st.g.Search(ctx, &pb.SearchRequest{Query: query, From: int64(qf), To: int64(qt), Size: 200000, WithTotal: true, Order: order})
			var want []realDoc
			for _, d := range all {
				if qf <= d.mid && d.mid <= qt {
					want = append(want, d)
				}
			}
			got := map[realDoc]bool{}
			status := "ok"
			if err != nil {
				status = "error"
			} else if resp.Code != pb.SearchErrorCode_NO_ERROR {
				status = "code"
			} else {
				for _, s := range resp.IdSources {
					got[realDoc{s.Id.Mid, s.Id.Rid}] = true
				}
			}
			// which fractions did FilterInRange keep?
			kept := ""
			for _, f := range fracs {
				if fr, ok := m[f.name]; ok {
					kept += string(cell(func() bool { return fr.IsIntersecting(seq.MID(qf), seq.MID(qt)) }))
				} else {
					kept += "-"
				}
			}
			var missing, extra []string
			lost := "none"
			for _, d := range want {
				if !got[d] {
					missing = append(missing, fmt.Sprintf("%d.%d", d.mid, d.rid))
					if k, ok := fracIdx[owner[d]]; ok && kept[k] == '0' {
						lost = "pruned"
					} else if lost == "none" {
						lost = "kept"
					}
				}
				delete(got, d)
			}
			for d := range got {
				extra = append(extra, fmt.Sprintf("%d.%d", d.mid, d.rid))
			}
			sort.Strings(extra)
			fmt.Printf("S\t%s\t%s\t%d\t%d\t%s\t%s\twant=%d\tmissing=%s\textra=%s\t[%s,%s]\t%d\t%d\t%s\t%s\n", stage, label, qf, qt, status, kept, len(want),
				clip5(missing), clip5(extra), rel(qf), rel(qt), len(missing), len(extra), lost, order.String())
		}
		// directed: a token whose posting list spans several LID blocks, ranges that cover only the oldest / newest documents
		for k, f := range fracs {
			if f.dense == 0 {
				continue
			}
			n := uint64(f.dense)
			behind := n // number of documents behind the token's first LID block (LID 1 = newest document)
			if n > uint64(consts.LIDBlockCap) {
				behind = n - uint64(consts.LIDBlockCap)
			}
			ranges := [][2]uint64{{f.base, f.base + 49}, {f.base, f.base + behind - 1}, {f.base + 10, f.base + 10}, {f.base + behind - 1, f.base + behind + 1},
				{f.base + n - 100, f.base + n - 1}, {f.base, f.base + n - 1}, {f.base + n/2, f.base + n/2 + 999}}
			for j, rg := range ranges {
				doSearch(fmt.Sprintf("d%d.%d.desc", k, j), rg[0], rg[1], pb.Order_ORDER_DESC)
				doSearch(fmt.Sprintf("d%d.%d.asc", k, j), rg[0], rg[1], pb.Order_ORDER_ASC)
			}
		}
		// directed: a point query and a +-1 s query for every document of the small fractions (every occupied bucket
		// of every distribution is asked for)
		np := 0
		for k, f := range fracs {
			if f.dense > 0 {
				continue
			}
			for _, b := range f.bulks {
				for _, d := range b {
					if np >= 60 {
						break
					}
					order := pb.Order_ORDER_DESC
					if np%2 == 1 {
						order = pb.Order_ORDER_ASC
					}
					doSearch(fmt.Sprintf("p%d.%d", k, np), d.mid, d.mid, order)
					if d.mid > 1000 && d.mid < two63 {
						doSearch(fmt.Sprintf("p%d.%d.s", k, np), d.mid-1000, d.mid+1000, order)
					}
					// the same windows with a free-standing negation (evaluated through the range node over the narrowed
					// LID borders): NOT <absent token> and a OR NOT b match every document
					for qi, nq := range []string{"NOT service:c14absent", "service:c14absent OR NOT service:c14other"} {
						query = nq
						doSearch(fmt.Sprintf("p%d.%d.n%d", k, np, qi), d.mid, d.mid, order)
						if d.mid > 1000 && d.mid < two63 && np%3 == 0 {
							doSearch(fmt.Sprintf("p%d.%d.n%d.s", k, np, qi), d.mid-1000, d.mid+1000, order)
						}
					}
					query = "service:c14"
					np++
				}
			}
		}
		// directed: the older half of every small fraction (from its oldest document to its median one), both orders
		for k, f := range fracs {
			if f.dense > 0 {
				continue
			}
			var ms []uint64
			for _, b := range f.bulks {
				for _, d := range b {
					ms = append(ms, d.mid)
				}
			}
			if len(ms) < 2 {
				continue
			}
			sort.Slice(ms, func(a, b int) bool { return ms[a] < ms[b] })
			doSearch(fmt.Sprintf("h%d.desc", k), ms[0], ms[len(ms)/2], pb.Order_ORDER_DESC)
			doSearch(fmt.Sprintf("h%d.asc", k), ms[0], ms[len(ms)/2], pb.Order_ORDER_ASC)
		}
		for q := 0; q < sc.Queries; q++ {
			var qf, qt uint64
			for tries := 0; ; tries++ {
				qf, qt = probes[r.Intn(len(probes))], probes[r.Intn(len(probes))]
				if qf > qt {
					qf, qt = qt, qf
				}
				if r.Chance(1, 5) {
					qt = qf
				}
				cross := qf < two63 && qt >= two63
				if cross == (sc.Wrap && q%3 == 0) || tries > 50 {
					break
				}
			}
			order := pb.Order_ORDER_DESC
			if q%2 == 1 {
				order = pb.Order_ORDER_ASC
			}
			doSearch(fmt.Sprintf("%d", q), qf, qt, order)
		}
		if sc.Limited {
			ast, perr := parser.ParseSeqQL("service:c14", seq.TestMapping)
			if perr != nil {
				fmt.Println("child-error parse:", perr)
				os.Exit(3)
			}
			less := func(a, b realDoc) bool { return a.mid < b.mid || (a.mid == b.mid && a.rid < b.rid) }
			// ranges: everything, and the window of shared milliseconds around fraction 0's reference point
			ref := fracs[0].ct - 1_000_000
			for ri, rg := range [][2]uint64{{1, two63 - 1}, {ref - 3, ref + 3}, {ref, ref}} {
				var in []realDoc
				for _, d := range all {
					if rg[0] <= d.mid && d.mid <= rg[1] {
						in = append(in, d)
					}
				}
				for _, desc := range []bool{true, false} {
					sorted := append([]realDoc{}, in...)
					sort.Slice(sorted, func(a, b int) bool {
						if desc {
							return less(sorted[b], sorted[a])
						}
						return less(sorted[a], sorted[b])
					})
					order := seq.DocsOrderDesc
					if !desc {
						order = seq.DocsOrderAsc
					}
					for perIter := 1; perIter <= 3; perIter++ {
						searcher := fracmanager.NewSearcher(2, fracmanager.SearcherCfg{FractionsPerIteration: perIter})
						for limit := 1; limit <= len(sorted)+1 && limit <= 14; limit++ {
							qpr, err := searcher.SearchDocs(ctx, st.fm.GetAllFracs(), processor.SearchParams{AST: ast.Root, From: seq.MID(rg[0]), To: seq.MID(rg[1]), Limit: limit, Order: order})
							status, gotS := "ok", "-"
							if err != nil {
								status = "error"
							} else {
								var gs []string
								for _, id := range qpr.IDs {
									gs = append(gs, fmt.Sprintf("%s.%d", rel(uint64(id.ID.MID)), uint64(id.ID.RID)))
								}
								gotS = vh.JoinStrs(gs, ",")
							}
							var ws []string
							for i := 0; i < limit && i < len(sorted); i++ {
								ws = append(ws, fmt.Sprintf("%s.%d", rel(sorted[i].mid), sorted[i].rid))
							}
							fmt.Printf("L\t%s\tr%d.%s.p%d.l%d\t%s\t%s\t%s\n", stage, ri, map[bool]string{true: "desc", false: "asc"}[desc], perIter, limit, status, gotS, vh.JoinStrs(ws, ","))
						}
					}
				}
			}
		}
		doFetch := func(label, class string, ids []seq.ID, present []bool, hints bool) {
			req := &pb.FetchRequest{}
			var idsS, relS []string
			if hints { // the proxy's second phase: every ID carries the name of the fraction that reported it
				class += ",hints"
			}
			for _, id := range ids {
				if hints {
					req.IdsWithHints = append(req.IdsWithHints, &pb.IdWithHint{Id: id.String(), Hint: owner[realDoc{uint64(id.MID), uint64(id.RID)}]})
				} else {
					req.Ids = append(req.Ids, id.String())
				}
				idsS = append(idsS, fmt.Sprintf("%d.%d", uint64(id.MID), uint64(id.RID)))
				relS = append(relS, fmt.Sprintf("%s.%d", rel(uint64(id.MID)), uint64(id.RID)))
			}
			fs := &fakeStream{ctx: ctx}
			status := "ok"
			var missing []string
			if err := st.g.Fetch(req, fs); err != nil {
				status = "error"
			} else if len(fs.blocks) != len(ids) {
				status = "count"
			} else {
				for i, b := range fs.blocks {
					blk := disk.DocBlock(b)
					if present[i] && !bytes.Equal(blk.Payload(), docBody(uint64(ids[i].MID), uint64(ids[i].RID))) {
						missing = append(missing, fmt.Sprintf("#%d=%s", i, idsS[i]))
						// does the fraction that holds the document deny containing its MID?
						if fr, ok := byName()[owner[realDoc{uint64(ids[i].MID), uint64(ids[i].RID)}]]; ok && cell(func() bool { return fr.Contains(ids[i].MID) }) == '0' {
							class = "contains-false:" + class
						}
					}
				}
			}
			nmiss := len(missing)
			if len(idsS) > 8 {
				idsS, relS = append(idsS[:6], fmt.Sprintf("..(%d ids)", len(ids))), append(relS[:6], fmt.Sprintf("..(%d ids)", len(ids)))
			}
			if len(missing) > 5 {
				missing = missing[:5]
			}
			fmt.Printf("F\t%s\t%s\t%s\t%s\t%s\tmissing=%s\t%s missing %d\n", stage, label, class, strings.Join(idsS, ","), status, vh.JoinStrs(missing, ","), strings.Join(relS, ","), nmiss)
		}
		// fetches: a few present documents, optionally with unknown IDs
		for q := 0; q < sc.Fetches && len(all) > 0; q++ {
			nreq := r.Range(1, 4)
			var ids []seq.ID
			var present []bool
			for _, j := range r.Perm(len(all)) { // distinct documents: duplicate IDs in one request are C04's subject
				if len(ids) == nreq {
					break
				}
				d := all[j]
				ids = append(ids, seq.ID{MID: seq.MID(d.mid), RID: seq.RID(d.rid)})
				present = append(present, true)
			}
			class := "present-only"
			switch {
			case sc.Wrap && q%2 == 0:
				ids = append(ids, seq.ID{MID: seq.MID(two63 + uint64(r.Intn(1000))), RID: 77})
				present = append(present, false)
				class = "with-unknown-mid>=2^63"
			case q%3 == 1:
				ids = append(ids, seq.ID{MID: seq.MID(probes[r.Intn(len(probes))] % two63), RID: 78})
				present = append(present, false)
				class = "with-unknown-mid<2^63"
			}
			doFetch(fmt.Sprintf("%d", q), class, ids, present, q%4 == 3)
		}
		// directed multi-batch fetches: docsStream cuts a request into batches (1000 ids first) and groups every batch
		// against the SAME fraction list; batch 1 lies entirely inside the dense fraction, the later batches hold
		// the documents of all other fractions (pruned for batch 1) and more of the dense one
		for k, f := range fracs {
			if f.dense < 2500 {
				continue
			}
			var dense, others []realDoc
			for _, d := range all {
				if owner[d] == f.name && d.mid >= f.base && d.mid < f.base+uint64(f.dense) {
					dense = append(dense, d)
				} else if owner[d] != f.name {
					others = append(others, d)
				}
			}
			for v, order := range [][]realDoc{
				append(append(append([]realDoc{}, dense[200:1300]...), others...), dense[5000:5200]...),
				append(append(append([]realDoc{}, others...), dense[f.dense-1050:]...), dense[:300]...),
			} {
				var ids []seq.ID
				var present []bool
				for _, d := range order {
					ids = append(ids, seq.ID{MID: seq.MID(d.mid), RID: seq.RID(d.rid)})
					present = append(present, true)
				}
				doFetch(fmt.Sprintf("m%d.%d", k, v), "multi-batch", ids, present, false)
				doFetch(fmt.Sprintf("m%d.%d.h", k, v), "multi-batch", ids, present, true)
			}
		}
	}

	if raceHeld {
		stageChecks("sealing")
		holdSeal.Store(false)
		close(releaseSeal)
		waitFor(sealDone, "end of SealForcedForTests")
		verifhook.Set(nil)
		st.fm.WaitIdle()
		fracs[len(fracs)-1].sealed = true
	}
	stageChecks("live")
	// restart 1: whatever the store persisted (sealed infos come from .frac-cache when it was written, else from the index)
	if st.fm.Active().Info().DocsTotal > 0 {
		st.fm.SealForcedForTests()
		st.fm.WaitIdle()
		fracs[len(fracs)-1].sealed = true
	}
	// restart 1: WITH an up-to-date .frac-cache (the maintenance loop writes it): every sealed info comes from the cache
	cachePath := filepath.Join(dir, consts.FracCacheFileSuffix)
	waitCache := func() map[string]map[string]json.RawMessage {
		deadline := time.Now().Add(10 * time.Second)
		for {
			var m map[string]map[string]json.RawMessage
			if raw, err := os.ReadFile(cachePath); err == nil && json.Unmarshal(raw, &m) == nil {
				ok := true
				for _, f := range fracs {
					if _, has := m[f.name]; !has {
						ok = false
					}
				}
				if ok {
					return m
				}
			}
			if time.Now().After(deadline) {
				fmt.Println("child-error cache: .frac-cache was not written with all fractions")
				os.Exit(3)
			}
			time.Sleep(10 * time.Millisecond)
		}
	}
	cached := waitCache()
	withDist := 0
	for _, e := range cached {
		if d, ok := e["distribution"]; ok && string(d) != "null" {
			withDist++
		}
	}
	fmt.Printf("T\tcache-entries-with-distribution=%d\n", withDist)
	st.fm.Stop()
	cached = waitCache() // Stop does not write; what is on disk now is what the next start reads
	if st, err = openStore(dir); err != nil {
		fmt.Println("child-error reopen:", err)
		os.Exit(3)
	}
	stageChecks("reloaded-cache")
	// restart 2: a cache file in the older layout: entries without "distribution" and without "sealing_time"
	st.fm.Stop()
	cached = waitCache()
	for _, e := range cached {
		delete(e, "distribution")
		delete(e, "sealing_time")
	}
	legacy, _ := json.Marshal(cached)
	if err := os.WriteFile(cachePath, legacy, 0o660); err != nil {
		fmt.Println("child-error legacy cache:", err)
		os.Exit(3)
	}
	if st, err = openStore(dir); err != nil {
		fmt.Println("child-error reopen-legacy:", err)
		os.Exit(3)
	}
	stageChecks("reloaded-legacy-cache")
	// restart 3: without the cache file, every info is read from the info block of the index file
	st.fm.Stop()
	os.Remove(cachePath)
	if st, err = openStore(dir); err != nil {
		fmt.Println("child-error reopen2:", err)
		os.Exit(3)
	}
	stageChecks("reloaded-nocache")
	st.fm.Stop()
	fmt.Println("done")
	os.RemoveAll(dir)
	os.Exit(0)
}

func runChild(sc *scenario, timeout time.Duration) (lines []string, finished bool, stderr string) {
	f, err := os.CreateTemp("", "verif-c14-job-*.json")
	if err != nil {
		return nil, false, err.Error()
	}
	defer os.Remove(f.Name())
	json.NewEncoder(f).Encode(sc)
	f.Close()
	ctx, cancel := context.WithTimeout(context.Background(), timeout)
	defer cancel()
	cmd := exec.CommandContext(ctx, os.Args[0])
	cmd.Env = append(os.Environ(), "VERIF_C14_CHILD="+f.Name())
	var so, se bytes.Buffer
	cmd.Stdout, cmd.Stderr = &so, &se
	cmd.Run()
	for _, l := range strings.Split(so.String(), "\n") {
		if l == "done" {
			finished = true
		} else if l != "" {
			lines = append(lines, l)
		}
	}
	s := se.String()
	if len(s) > 2000 {
		s = s[len(s)-2000:]
	}
	return lines, finished, s
}

func genScenario(r *vh.RNG, name string, wrap bool, thorough bool) scenario {
	sc := scenario{Name: name, Seed: int64(r.U64() >> 1), Queries: 24, Fetches: 8, Wrap: wrap}
	if thorough {
		sc.Queries, sc.Fetches = 60, 16
	}
	nf := r.Range(2, 4)
	for k := 0; k < nf; k++ {
		fs := fracSpec{Sealed: k < nf-1 || r.Bool()}
		var spread int64 // how far before creation the oldest document lies (ms)
		switch r.Intn(6) {
		case 0:
			spread = int64(r.Range(0, 590_000)) // < 10 min: no distribution
		case 1:
			spread = int64(r.Range(601_000, 1_200_000)) // just over 10 min: the oldest document sits in the first buckets
		case 2:
			spread = int64(r.Range(86_500_000, 200_000_000)) // > 24 h: window cut, underflow bucket used
		default:
			spread = int64(r.Range(601_000, 86_000_000))
		}
		nb := r.Range(1, 3)
		first := true
		for b := 0; b < nb; b++ {
			var bulk []docSpec
			nd := r.Range(1, 6)
			for j := 0; j < nd; j++ {
				var d docSpec
				switch {
				case first:
					d.Off = -spread
					first = false
				case r.Chance(1, 8):
					d.Off = int64(r.Range(1, 100_000_000)) // after creation: overflow bucket
				case r.Chance(1, 10):
					d.Off = -spread + int64(r.Intn(60_000)) // same minute as the oldest
				case r.Chance(1, 25):
					d.Abs = uint64(r.Range(1, 3)) // 1970: far before any window
				default:
					d.Off = -int64(r.Intn(int(spread) + 1))
				}
				bulk = append(bulk, d)
			}
			fs.Bulks = append(fs.Bulks, bulk)
		}
		sc.Fracs = append(sc.Fracs, fs)
	}
	return sc
}

// regression scenario for the defect fixed by c7b3453 (Props/C14.c14_wrap_counterexample_before_fix): a sealed fraction whose
// oldest document sits in bucket 1 of its distribution, fetched together with an unknown ID whose MID is >= 2^63
func witnessScenario(seed int64) scenario {
	return scenario{Name: "witness-wrap", Seed: seed, Queries: 12, Fetches: 12, Wrap: true, Fracs: []fracSpec{
		{Sealed: true, Bulks: [][]docSpec{{{Off: -1_200_000}}, {{Off: -1}}}},
		{Sealed: true, Bulks: [][]docSpec{{{Off: -700_000}, {Off: -650_000}}}},
	}}
}

// a sealed fraction in which the token service:c14 is carried by more documents than one LID block holds
// (consts.LIDBlockCap): the narrowed scan has to walk into the token's later blocks for ranges over the oldest documents
func denseScenario(seed int64, thorough bool) scenario {
	n := consts.LIDBlockCap + 4500
	if thorough {
		n = 2*consts.LIDBlockCap + 3000
	}
	return scenario{Name: "dense-multi-block", Seed: seed, Queries: 10, Fetches: 4, Fracs: []fracSpec{
		{Sealed: true, Bulks: [][]docSpec{{{Off: -9_000_000}, {Off: -8_999_000}, {Off: -8_000_000}}, {{Off: -7_000_000}}}},
		{Sealed: true, Dense: n, DenseSpread: 1_500_000, Bulks: [][]docSpec{{{Off: -3_000_000}}, {{Off: 5}}}},
		{Sealed: false, Bulks: [][]docSpec{{{Off: -100}, {Off: -1}}}},
	}}
}

// sealed fractions with sparse late documents: the oldest MID is 10 min .. 24 h before creation and not minute
// aligned, so the buckets of the distribution (aligned to that MID) straddle calendar minutes; documents that share a
// calendar minute but fall into adjacent buckets, gaps of many buckets, neighbours in one bucket
func sparseLateScenario(seed int64) scenario {
	return scenario{Name: "sparse-late", Seed: seed, Queries: 16, Fetches: 8, Fracs: []fracSpec{
		{Sealed: true, Bulks: [][]docSpec{{{Off: -2_233_500}, {Off: -2_233_400}, {Off: -2_190_000}, {Off: -2_185_000}, {Off: -2_173_499}, {Off: -2_173_501}},
			{{Off: -1_500_250}, {Off: -1_480_250}, {Off: -1_460_250}, {Off: -700_007}, {Off: -660_007}}, {{Off: -3}, {Off: 40_000}}}},
		{Sealed: true, Bulks: [][]docSpec{{{Off: -80_000_123}, {Off: -79_990_123}, {Off: -79_970_123}, {Off: -40_000_000}, {Off: -39_999_000}, {Off: -39_961_000}},
			{{Off: -86_399_999}, {Off: -86_400_001}, {Off: -90_000_000}, {Off: -601_000}, {Off: -599_000}}}},
		{Sealed: false, Bulks: [][]docSpec{{{Off: -1_000_000}, {Off: -990_000}}}},
	}}
}

// fractions that touch and overlap in time around one reference millisecond t = ct0 - 1_000_000: To of one fraction
// equals MIDs stored in another, several RIDs per millisecond on both sides (RIDs grow with ingestion order, so a
// later fraction holds the larger RIDs of a shared millisecond)
func tiesScenario(r *vh.RNG, name string) scenario {
	sc := scenario{Name: name, Seed: int64(r.U64() >> 1), Queries: 6, Fetches: 2, Limited: true}
	t := int64(-1_000_000)
	nf := r.Range(3, 4)
	for k := 0; k < nf; k++ {
		fs := fracSpec{Sealed: k < nf-1 || r.Bool()}
		lo, hi := t+int64(r.Range(-2, 0)), t+int64(r.Range(0, 2)) // every fraction's range holds t
		if r.Chance(1, 3) {
			hi = t // To == t exactly
		}
		if r.Chance(1, 3) {
			lo = t // From == t exactly
		}
		var bulk []docSpec
		for m := lo; m <= hi; m++ {
			n := r.Range(0, 2)
			if m == t || m == lo || m == hi {
				n = r.Range(1, 3)
			}
			for j := 0; j < n; j++ {
				bulk = append(bulk, docSpec{Off: m, R0: true})
			}
		}
		fs.Bulks = [][]docSpec{bulk}
		sc.Fracs = append(sc.Fracs, fs)
	}
	return sc
}

// the fixed boundary witness: A = {t+5, t}, B = {t (larger RID), t-5} with B.To = t, and the ASC mirror image
func tiesWitness(seed int64) scenario {
	t := int64(-1_000_000)
	return scenario{Name: "ties-witness", Seed: seed, Queries: 4, Fetches: 2, Limited: true, Fracs: []fracSpec{
		{Sealed: true, Bulks: [][]docSpec{{{Off: t + 5, R0: true}, {Off: t, R0: true}}}},
		{Sealed: true, Bulks: [][]docSpec{{{Off: t, R0: true}, {Off: t - 5, R0: true}}}},
		{Sealed: false, Bulks: [][]docSpec{{{Off: t - 5, R0: true}, {Off: t - 9, R0: true}, {Off: t - 9, R0: true}}}},
	}}
}

// partially retried bulks: the retry repeats stored IDs and carries new documents that are not in ascending time
// order (newest first, single new document, new documents beyond the current From / To on both sides)
func retriedWitness(seed int64) scenario {
	return scenario{Name: "retried-witness", Seed: seed, Queries: 8, Fetches: 4, Fracs: []fracSpec{
		{Sealed: true, Bulks: [][]docSpec{{{Off: -2_000_000}, {Off: -1_999_000}}, {{Off: -1000}, {Dup: 1}, {Off: -3_000_000}}, {{Dup: 2}, {Off: -500}}}},
		{Sealed: true, Bulks: [][]docSpec{{{Off: -700_000}}, {{Dup: 1}, {Off: 5000}, {Off: -900_000}}}},
		{Sealed: false, Bulks: [][]docSpec{{{Off: -100}, {Off: -90}}, {{Off: -10}, {Dup: 1}}, {{Dup: 3}, {Dup: 2}}}},
	}}
}

func retriedScenario(r *vh.RNG, name string) scenario {
	sc := scenario{Name: name, Seed: int64(r.U64() >> 1), Queries: 10, Fetches: 4}
	nf := r.Range(2, 3)
	for k := 0; k < nf; k++ {
		fs := fracSpec{Sealed: k < nf-1 || r.Bool()}
		n := 0 // distinct documents so far
		lo, hi := int64(-1_500_000), int64(-1_400_000)
		first := []docSpec{{Off: lo}, {Off: hi}}
		fs.Bulks = append(fs.Bulks, first)
		n = 2
		for b := 0; b < r.Range(1, 3); b++ {
			var fresh []docSpec
			for j := 0; j < r.Range(1, 3); j++ {
				var off int64
				switch r.Intn(3) {
				case 0:
					hi += int64(r.Range(1, 400_000)) // beyond To
					off = hi
				case 1:
					lo -= int64(r.Range(1, 400_000)) // beyond From
					off = lo
				default:
					off = lo + int64(r.Intn(int(hi-lo)+1))
				}
				fresh = append(fresh, docSpec{Off: off})
			}
			sort.Slice(fresh, func(a, b int) bool { return fresh[a].Off > fresh[b].Off }) // newest first
			bulk := append([]docSpec{}, fresh...)
			for j := 0; j < r.Range(1, 2); j++ { // the retried part, somewhere in the bulk
				at := r.Intn(len(bulk) + 1)
				bulk = append(bulk[:at], append([]docSpec{{Dup: r.Range(1, n)}}, bulk[at:]...)...)
			}
			fs.Bulks = append(fs.Bulks, bulk)
			n += len(fresh)
		}
		sc.Fracs = append(sc.Fracs, fs)
	}
	return sc
}

// sealing begins while bulks of the fraction are still queued (see fracSpec.Late)
func sealRaceScenario(seed int64, variant int) scenario {
	late := [][]docSpec{{{Off: -5}}, {{Off: -2_000_000}}, {{Off: -650_000}, {Off: 70_000}}}
	if variant == 1 {
		late = [][]docSpec{{{Off: 1_000}, {Off: -3_000_000}, {Off: -750_000}}}
	}
	return scenario{Name: fmt.Sprintf("seal-race%d", variant), Seed: seed, Queries: 10, Fetches: 4, Fracs: []fracSpec{
		{Sealed: true, Bulks: [][]docSpec{{{Off: -900_000}, {Off: -100}}}},
		{Sealed: true, Bulks: [][]docSpec{{{Off: -800_000}, {Off: -700_000}}}, Late: late},
	}}
}

// a bulk that holds both a document newer than everything stored and a late document far in the past, arriving after
// the token lists were merged once (a search ran); on an active fraction (then sealed, reloaded) and on a sealed one
func newestLateWitness(seed int64) scenario {
	mk := func(sealed bool) fracSpec {
		return fracSpec{Sealed: sealed, SearchBetween: true, Bulks: [][]docSpec{
			{{Off: -900_000}, {Off: -800_000}, {Off: -700_000}},
			{{Off: -100}, {Off: -2_000_000}},               // newest + late in one bulk
			{{Off: -850_000}, {Off: -50}, {Off: -750_000}}, // late inside, newest, late inside
			{{Off: -3_000_000}, {Off: -10}},
		}}
	}
	return scenario{Name: "newest-late", Seed: seed, Queries: 12, Fetches: 4, Fracs: []fracSpec{mk(true), mk(false)}}
}

func newestLateScenario(r *vh.RNG, name string) scenario {
	sc := scenario{Name: name, Seed: int64(r.U64() >> 1), Queries: 10, Fetches: 2}
	for k := 0; k < 2; k++ {
		fs := fracSpec{Sealed: k == 0, SearchBetween: true}
		newest, oldest := int64(-1_000_000), int64(-1_100_000)
		fs.Bulks = append(fs.Bulks, []docSpec{{Off: oldest}, {Off: newest}})
		for b := 0; b < r.Range(2, 4); b++ {
			var bulk []docSpec
			for j := 0; j < r.Range(2, 4); j++ {
				switch r.Intn(3) {
				case 0:
					newest += int64(r.Range(1, 200_000))
					bulk = append(bulk, docSpec{Off: newest})
				case 1:
					oldest -= int64(r.Range(1, 400_000))
					bulk = append(bulk, docSpec{Off: oldest})
				default:
					bulk = append(bulk, docSpec{Off: oldest + int64(r.Intn(int(newest-oldest)))})
				}
			}
			fs.Bulks = append(fs.Bulks, bulk)
		}
		sc.Fracs = append(sc.Fracs, fs)
	}
	return sc
}

// sealed fractions that hold documents far older than their neighbours: 25, 30, 90, 190 days (MID deltas of
// 2^31 .. 2^34 ms inside one ID block), controls 20 days, 2^31 ms +- 1 s, 400 days
func farPastScenario(seed int64) scenario {
	day := int64(86_400_000)
	mk := func(gaps ...int64) fracSpec {
		fs := fracSpec{Sealed: true}
		var bulk []docSpec
		bulk = append(bulk, docSpec{Off: -1_000_000}, docSpec{Off: -1_000_500})
		off := int64(-1_000_500)
		for _, g := range gaps {
			off -= g
			bulk = append(bulk, docSpec{Off: off}, docSpec{Off: off - 3}, docSpec{Off: off - 70_000})
			off -= 70_000
		}
		fs.Bulks = [][]docSpec{bulk}
		return fs
	}
	return scenario{Name: "far-past", Seed: seed, Queries: 16, Fetches: 6, Fracs: []fracSpec{
		mk(25 * day), mk(30*day, 90*day), mk(190 * day), mk(20*day, 400*day),
		mk(int64(1)<<31-1000, int64(1)<<31+1000), mk(int64(1)<<32, int64(1)<<33+5),
		{Sealed: false, Bulks: [][]docSpec{{{Off: -100}, {Off: -30 * day}, {Off: -95 * day}}}},
	}}
}

func systemOracle(o vh.Opts, rep *vh.Report, scs []scenario) {
	fi := vh.NewChannel("frac.info", "REAL fractions (FracManager + GrpcV1.Bulk + seal + two restarts): Info().From/To/DocsTotal/Distribution and IsIntersecting on probe pairs vs SV.FracInfo (appendBulk per bulk, sealed = BuildDistribution over the stub and all MIDs); stages live / reloaded (.frac-cache) / reloaded-nocache (index info block); non-trivial = fraction has a distribution")
	so := vh.NewOracle("prune.search", "real GrpcV1.Search(service:c14, [qf,qt]) over active+sealed fractions, live and after restarts, returns exactly the ingested documents with qf <= MID <= qt (every document of every fraction examined by the harness); non-trivial = some fraction was pruned and some document was in range")
	lo := vh.NewOracle("search.toplimit", "real Searcher.SearchDocs over real active+sealed fractions that share boundary milliseconds (To of one = MIDs of another, several RIDs per millisecond on both sides), FractionsPerIteration 1..3, limits 1..n, both orders, no total: the IDs are exactly the first `limit` documents of the union in (MID,RID) order; non-trivial = limit > 1 and answer right")
	io := vh.NewOracle("active.order", "invariant behind narrowing: after every bulk (token lists merged in between by a search) and at the live/sealing stages the active fraction's LID list of all documents is sorted by (MID,RID) descending; non-trivial = sorted list of >= 2")
	fo := vh.NewOracle("prune.fetch", "real GrpcV1.Fetch(ids without hints) returns the ingested bytes of every requested document that exists, whatever other IDs are in the request; non-trivial = request mixes present and unknown IDs")
	reported := map[string]bool{}
	for i := range scs {
		sc := &scs[i]
		lines, finished, stderr := runChild(sc, time.Duration(o.Pick(120, 300))*time.Second)
		scJSON, _ := json.Marshal(sc)
		replay := "scenario " + string(scJSON)
		if !finished {
			// re-run alone once before reporting a death
			lines, finished, stderr = runChild(sc, time.Duration(o.Pick(120, 300))*time.Second)
		}
		if !finished {
			so.Error = "child did not finish: " + stderr
			rep.Violate(vh.Violation{Site: "fracmanager", Class: "store-died", What: "store process died or hung during scenario " + sc.Name + ": " + firstLines(stderr), Replay: []string{replay}})
		}
		for _, l := range lines {
			f := strings.Split(l, "\t")
			switch f[0] {
			case "C":
				tags := strings.Split(f[1], ",")
				fi.Add(f[2], f[3], strings.Contains(f[1], "dist=yes"), tags...)
			case "N":
				rep.Note("%s: %s", sc.Name, f[1])
			case "T":
				fi.Tag(f[1])
			case "I":
				// I stage label result
				io.Case(sc.Name+"/"+f[1]+"/"+f[2], strings.HasPrefix(f[3], "sorted") && f[3] != "sorted 0" && f[3] != "sorted 1", "stage="+f[1], "result="+strings.Fields(f[3])[0])
				if strings.HasPrefix(f[3], "unsorted") {
					site, class := "frac/active_lids.go:mergeSorted", "active-id-order-not-sorted"
					if !reported[site+class] {
						reported[site+class] = true
						rep.Violate(vh.Violation{Site: site, Class: class,
							What:   fmt.Sprintf("scenario %s stage %s at %s: the LIDs of all documents of the active fraction are not sorted by (MID,RID) descending (%s): binary searches over the ID order (getLIDsBorders) are unsound", sc.Name, f[1], f[2], f[3]),
							Replay: []string{replay, "order " + f[1] + " " + f[2]}})
					}
				}
			case "S":
				// S stage q qf qt status kept want= missing= extra=
				var qf, qt uint64
				fmt.Sscanf(f[3], "%d", &qf)
				fmt.Sscanf(f[4], "%d", &qt)
				cross := qf < two63 && qt >= two63
				pruned := strings.Contains(f[6], "0")
				nontriv := pruned && f[7] != "want=0"
				tags := []string{"stage=" + f[1], "status=" + f[5], "order=" + f[14]}
				if strings.HasPrefix(f[2], "d") {
					tags = append(tags, "directed-multi-block-token")
				}
				if strings.HasPrefix(f[2], "p") {
					tags = append(tags, "directed-per-document")
				}
				negated := strings.Contains(f[2], ".n0") || strings.Contains(f[2], ".n1")
				if negated {
					tags = append(tags, "negated-query")
				}
				if cross {
					tags = append(tags, "range=crosses-2^63")
				}
				if pruned {
					tags = append(tags, "pruned-some")
				}
				so.Case(sc.Name+"/"+f[1]+"/"+f[2]+"/"+f[3]+"-"+f[4], nontriv, tags...)
				if f[5] != "ok" {
					rep.Note("%s: search [%d,%d] stage %s answered %s", sc.Name, qf, qt, f[1], f[5])
					continue
				}
				if f[8] != "missing=-" || f[9] != "extra=-" {
					class := "document-in-range-not-returned"
					site := "fracmanager/searcher.go:prepareFracs"
					if f[8] == "missing=-" {
						class = "document-outside-range-returned"
					} else if f[13] == "kept" && negated {
						site, class = "frac/processor/search.go:narrowed-scan", "negated-query-loses-document-in-narrowed-range"
					} else if f[13] == "kept" {
						// the fraction survived FilterInRange, the document was lost inside it: narrowing to the LID borders
						site, class = "frac/processor/search.go:narrowed-scan", "document-in-range-not-returned-by-kept-fraction"
					} else if cross {
						class = "range-crosses-int64-boundary"
					} else if qf == qt {
						site, class = "frac/info.go:Info.IsIntersecting", "fraction-denies-containing-its-document"
					}
					key := site + class
					if !reported[key] {
						reported[key] = true
						rep.Violate(vh.Violation{Site: site, Class: class,
							What:   fmt.Sprintf("scenario %s stage %s query #%s order %s: Search over [qf,qt] kept fractions %s, %s in-range documents not returned, %s foreign (exact ends in the evidence notes)", sc.Name, f[1], f[2], f[14], f[6], f[11], f[12]),
							Replay: []string{replay, "search " + f[1] + " #" + f[2]}})
						rep.Note("%s/%s search #%s: ends %s (ctK = creation time of fraction K, ms) = [%d,%d] %s %s %s", sc.Name, f[1], f[2], f[10], qf, qt, f[7], f[8], f[9])
					}
				}
			case "L":
				// L stage label status got want
				tie := strings.Contains(f[5], ",") // more than one expected ID
				lo.Case(sc.Name+"/"+f[1]+"/"+f[2], tie && f[4] == f[5], "stage="+f[1], "status="+f[3], "order="+strings.Split(f[2], ".")[1], "perIter="+strings.Split(f[2], ".")[2])
				if f[3] != "ok" || f[4] != f[5] {
					site, class := "fracmanager/searcher.go:SearchDocs", "limited-result-not-top-of-union"
					if !reported[site+class] {
						reported[site+class] = true
						rep.Violate(vh.Violation{Site: site, Class: class,
							What:   fmt.Sprintf("scenario %s stage %s query %s (range.order.FractionsPerIteration.limit): Searcher.SearchDocs status=%s does not return the first `limit` documents of the union of all fractions in (MID,RID) order (lists in the evidence notes)", sc.Name, f[1], f[2], f[3]),
							Replay: []string{replay, "limited " + f[1] + " " + f[2]}})
						rep.Note("%s/%s limited %s: got %s want %s (ctK = creation time of fraction K, ms; id = mid.rid)", sc.Name, f[1], f[2], f[4], f[5])
					}
				}
			case "F":
				// F stage q class ids status missing=
				fo.Case(sc.Name+"/"+f[1]+"/"+f[2]+"/"+f[4], !strings.HasPrefix(f[3], "present-only"), "stage="+f[1], "class="+f[3], "status="+f[5])
				if f[5] != "ok" || f[6] != "missing=-" {
					class := "present-document-not-fetched"
					if strings.HasPrefix(f[3], "contains-false:") {
						// Fraction.Contains(mid) = Info.IsIntersecting(mid, mid) is false for a document the fraction holds
						class = "fraction-denies-containing-its-document"
					} else if strings.HasPrefix(f[3], "with-unknown-mid>=2^63") {
						class = "range-crosses-int64-boundary"
					} else if strings.HasPrefix(f[3], "multi-batch") {
						class = "present-document-not-fetched-in-multi-batch-request"
					}
					site := "fracmanager/fetcher.go:groupIDsByFraction"
					if class == "fraction-denies-containing-its-document" {
						site = "frac/info.go:Info.IsIntersecting"
					}
					key := site + class
					if !reported[key] {
						reported[key] = true
						rep.Violate(vh.Violation{Site: site, Class: class,
							What:   fmt.Sprintf("scenario %s stage %s request #%s (%s): Fetch status=%s, ingested documents not returned (exact ids in the evidence notes)", sc.Name, f[1], f[2], f[3], f[5]),
							Replay: []string{replay, "fetch " + f[1] + " #" + f[2]}})
						rep.Note("%s/%s fetch #%s: ids %s = %s %s", sc.Name, f[1], f[2], f[7], f[4], f[6])
					}
				}
			}
		}
	}
	rep.AddChannel(fi, o.Driver)
	rep.AddOracle(so)
	rep.AddOracle(lo)
	rep.AddOracle(io)
	rep.AddOracle(fo)
}

func countIDs(field string) int {
	v := field[strings.Index(field, "=")+1:]
	if v == "-" || v == "" {
		return 0
	}
	return len(strings.Split(v, ","))
}

func firstLines(s string) string {
	ls := strings.Split(strings.TrimSpace(s), "\n")
	if len(ls) > 3 {
		ls = ls[:3]
	}
	return strings.Join(ls, " | ")
}

func main() {
	if p := os.Getenv("VERIF_C14_CHILD"); p != "" {
		childMain(p)
		return
	}
	o := vh.ParseFlags()
	logger.SetLevel(zap.FatalLevel)
	rep := vh.NewReport("C14", o)
	rng := vh.NewRNG(o.Seed)
	_ = hex.EncodeToString

	if o.Replay != "" {
		lines, err := vh.ReadReplay(o.Replay)
		if err != nil {
			fmt.Fprintln(os.Stderr, err)
			os.Exit(3)
		}
		var scs []scenario
		ch := vh.NewChannel("replay", "replayed driver requests are re-sent only for the record (the implementation side needs the original generator)")
		for _, l := range lines {
			if strings.HasPrefix(l, "scenario ") {
				var sc scenario
				if err := json.Unmarshal([]byte(strings.TrimPrefix(l, "scenario ")), &sc); err == nil {
					scs = append(scs, sc)
				}
			}
		}
		_ = ch
		systemOracle(o, rep, scs)
		rep.Write(o.Out)
		return
	}

	run := func(name string) bool { return o.Only == "" || strings.HasPrefix(name, o.Only) }
	if run("bitmask") {
		bitmaskChannels(o, rng.Fork(), rep)
	}
	if run("dist") {
		distChannels(o, rng.Fork(), rep)
	}
	if run("info") {
		infoChannel(o, rng.Fork(), rep)
	}
	if run("searcher") {
		ensuredChannel(o, rng.Fork(), rep)
	}
	if run("collector") {
		collectorChannel(o, rng.Fork(), rep)
	}
	if run("ids") {
		midsBlockChannel(o, rng.Fork(), rep)
	}
	if run("prune") || run("frac") {
		r := rng.Fork()
		var scs []scenario
		scs = append(scs, witnessScenario(int64(r.U64()>>1)))
		scs = append(scs, denseScenario(int64(r.U64()>>1), o.Thorough()))
		scs = append(scs, sparseLateScenario(int64(r.U64()>>1)))
		scs = append(scs, tiesWitness(int64(r.U64()>>1)))
		scs = append(scs, retriedWitness(int64(r.U64()>>1)))
		scs = append(scs, newestLateWitness(int64(r.U64()>>1)))
		scs = append(scs, farPastScenario(int64(r.U64()>>1)))
		for i := 0; i < o.Pick(2, 8); i++ {
			scs = append(scs, newestLateScenario(r.Fork(), fmt.Sprintf("newest-late%d", i)))
		}
		scs = append(scs, sealRaceScenario(int64(r.U64()>>1), 0), sealRaceScenario(int64(r.U64()>>1), 1))
		for i := 0; i < o.Pick(2, 8); i++ {
			scs = append(scs, retriedScenario(r.Fork(), fmt.Sprintf("retried%d", i)))
		}
		for i := 0; i < o.Pick(3, 10); i++ {
			scs = append(scs, tiesScenario(r.Fork(), fmt.Sprintf("ties%d", i)))
		}
		n := o.Pick(4, 14)
		for i := 0; i < n; i++ {
			scs = append(scs, genScenario(r.Fork(), fmt.Sprintf("s%d", i), i%4 == 3, o.Thorough()))
		}
		systemOracle(o, rep, scs)
	}
	rep.Write(o.Out)
}
