// C08 harness: sealing is all-or-nothing under crashes and I/O errors.
//
// Channels (implementation vs the Lean model through the driver):
//
//	loader.startup  the real FracManager.Load (child process per case: Fatal/Panic is an outcome) on a directory
//	                holding every combination of the seven non-temporary files of one fraction, each absent / empty /
//	                valid, vs SV.FileSet.startup: what is loaded and which files are left
//	seal.trace      the file operations of proxyFrac.Seal observed through the fileop.* points vs SV.SealOps.sealTrace
//	seal.crash      the directory at every point (snapshot) and what a restart from it serves vs the model's states
//	seal.fault      writeSealedFraction on an io.WriteSeeker whose k-th call fails (k = 1..all, once or from k on) vs
//	                SV.SealOps.writeIndex with the extracted propagation facts: result, number of calls issued
//
// Oracles (the property itself on the real code):
//
//	crash.restart   restart from every snapshot (temporary files additionally truncated) serves every document
//	fault.restart   after a fault-injected seal (published exactly as frac.Seal does when no error came back, left alone
//	                otherwise) a restart serves every document
//	sdocs.fault     a failing write of the sorted-docs output makes writeDocsInOrder return an error
package main

import (
	"bytes"
	"context"
	"errors"
	"fmt"
	"io"
	"math"
	"os"
	"os/exec"
	"os/signal"
	"path/filepath"
	"sort"
	"strconv"
	"strings"
	"sync"
	"syscall"
	"time"

	"go.uber.org/zap/zapcore"

	"github.com/ozontech/seq-db/bytespool"
	"github.com/ozontech/seq-db/consts"
	"github.com/ozontech/seq-db/disk"
	"github.com/ozontech/seq-db/frac"
	"github.com/ozontech/seq-db/frac/processor"
	"github.com/ozontech/seq-db/fracmanager"
	"github.com/ozontech/seq-db/logger"
	"github.com/ozontech/seq-db/parser"
	"github.com/ozontech/seq-db/seq"
	"github.com/ozontech/seq-db/util"
	"github.com/ozontech/seq-db/verifhook"

	"verifharness/internal/vh"
)

// ---------------------------------------------------------------- corpus

type doc struct {
	id     seq.ID
	body   []byte
	tokens []string
}

const nGroups = 7

func corpus(seed int64, n int) []doc {
	r := vh.NewRNG(seed*7919 + int64(n))
	docs := make([]doc, n)
	for i := range docs {
		g := i % nGroups
		pad := strings.Repeat("x", r.Range(0, 60))
		if big := os.Getenv("VERIF_DOC_PAD"); big != "" { // incompressible padding for the real-size case
			k, _ := strconv.Atoi(big)
			b := make([]byte, k)
			for j := range b {
				b[j] = "0123456789abcdefghijklmnopqrstuvwxyzABCDEFGHIJKLMNOPQRSTUVWXYZ+-"[r.U64()&63]
			}
			pad = string(b)
		}
		docs[i] = doc{
			id:     seq.ID{MID: seq.MID(1_700_000_000_000 + uint64(i/3)), RID: seq.RID(r.U64()>>1 | 1)},
			body:   []byte(fmt.Sprintf(`{"service":"%s","k8s_pod":"%s","message":"m%d %s"}`, svcName(seed, g), podName(seed, i), i, pad)),
			tokens: []string{"_all_:", "service:" + svcName(seed, g), "k8s_pod:" + podName(seed, i)},
		}
		if os.Getenv("VERIF_WIDE") != "" { // many different field names of varying length: a token table of several blocks
			docs[i].tokens = append(docs[i].tokens, wideTokens(seed, i)...)
			if os.Getenv("VERIF_SKEW") != "" {
				for j := 0; j < 50; j++ {
					docs[i].tokens = append(docs[i].tokens, fmt.Sprintf("sk%d:s%06d", seed, i*50+j))
				}
			}
		}
	}
	return docs
}

// wideTokens: six fields that only document i carries, names and values of varying length
func wideTokens(seed int64, i int) []string {
	var res []string
	for j := 0; j < 6; j++ {
		name := fmt.Sprintf("f%d_%04d_%d%s", seed, i, j, strings.Repeat("n", (i*7+j*13)%23))
		res = append(res, name+":v"+strings.Repeat("w", (i+j*5)%11))
	}
	// one field shared by all documents whose values are longer than 32 bytes and share their first 36 bytes
	res = append(res, fmt.Sprintf("lid%d:%s%06d", seed, strings.Repeat("p", 36), i))
	if os.Getenv("VERIF_SKEW") != "" {
		res = append(res, skewLong(seed, i)...)
	}
	return res
}

// skewLong: with VERIF_SKEW every document adds, to ONE field, 50 short values and 8 values of 70 bytes that sort behind
// all the short ones: the field's token list ends in a long run of long values (a token block far beyond 64 KiB of payload
// when blocks are cut by token count).  Returned are the long ones (the short ones are added by corpus()).
func skewLong(seed int64, i int) []string {
	var res []string
	for j := 0; j < 8; j++ {
		res = append(res, fmt.Sprintf("sk%d:z%s%05d_%d", seed, strings.Repeat("q", 62), i, j))
	}
	return res
}

// podName is unique per document and long enough for the token blocks of a 1500-document fraction to exceed one block
func podName(seed int64, i int) string {
	return fmt.Sprintf("pod-%d-%d-%s", seed, i, strings.Repeat("k", 20))
}

// svcName: the tokens carry the corpus seed, so that two fractions in one store can be checked independently
func svcName(seed int64, g int) string { return fmt.Sprintf("svc%ds%d", g, seed) }

func bulks(docs []doc, per int) [][2][]byte {
	var res [][2][]byte
	dp := frac.NewDocProvider()
	for i := 0; i < len(docs); i += per {
		dp.TryReset()
		for _, d := range docs[i:min(i+per, len(docs))] {
			dp.Append(d.body, nil, d.id, seq.Tokens(d.tokens...))
		}
		dd, mm := dp.Provide()
		res = append(res, [2][]byte{append([]byte(nil), dd...), append([]byte(nil), mm...)})
	}
	return res
}

var sealParams = frac.SealParams{
	IDsZstdLevel: 1, LIDsZstdLevel: 1, TokenListZstdLevel: 1, DocsPositionsZstdLevel: 1, TokenTableZstdLevel: 1,
	DocBlocksZstdLevel: 1, DocBlockSize: 4 * 1024,
}

func fmConfig(dir string, skip, keep bool) *fracmanager.Config {
	return &fracmanager.Config{DataDir: dir, FracSize: 1 << 30, TotalSize: 1 << 40, CacheSize: 64 << 20, SealParams: sealParams,
		Fraction: frac.Config{SkipSortDocs: skip, KeepMetaFile: keep}}
}

// ---------------------------------------------------------------- child process: restart and look

const fracPrefix = "seq-db-"

// child <dir> <seed> <n> <skip> <keep> : Load, report fraction kinds, search and fetch the corpus (n = 0: only load)
func childMain(args []string) {
	logger.SetLevel(zapcore.FatalLevel)
	dir := args[0]
	seed, _ := strconv.ParseInt(args[1], 10, 64)
	n, _ := strconv.Atoi(args[2])
	skip, keep := args[3] == "1", args[4] == "1"
	say := func(f string, a ...any) { fmt.Printf(f+"\n", a...); os.Stdout.Sync() }
	fm := fracmanager.NewFracManager(fmConfig(dir, skip, keep))
	if err := fm.Load(context.Background()); err != nil {
		say("LOADERR %v", err)
		os.Exit(3)
	}
	say("UP %s", strings.Join(fracmanager.VerifC08FracKinds(fm), ","))
	if n == 0 {
		os.Exit(0)
	}
	if len(args) > 5 && args[5] == "reseal" {
		// rotate and seal whatever Load replayed as an active fraction (a sealing error is logger.Fatal)
		fm.SealForcedForTests()
		say("RESEALED %s", strings.Join(fracmanager.VerifC08FracKinds(fm), ","))
	}
	docs := corpus(seed, n)
	want := map[seq.ID]int{}
	for i, d := range docs {
		want[d.id] = i
	}
	searcher := fracmanager.NewSearcher(1, fracmanager.SearcherCfg{})
	fetcher := fracmanager.NewFetcher(1)
	ctx := context.Background()
	found := map[seq.ID]bool{}
	extra, searchErr := 0, ""
	query := func(q string) []seq.ID {
		ast, err := parser.ParseSeqQL(q, seq.TestMapping)
		if err != nil {
			panic(err)
		}
		qpr, err := searcher.SearchDocs(ctx, fm.GetAllFracs(), processor.SearchParams{AST: ast.Root, From: 0, To: math.MaxUint64, Limit: 10 * n, Order: seq.DocsOrderDesc})
		if err != nil {
			searchErr = "search-error"
			return nil
		}
		return qpr.IDs.IDs()
	}
	for g := 0; g < nGroups; g++ {
		for _, id := range query("service:" + svcName(seed, g)) {
			if i, ok := want[id]; ok && i%nGroups == g {
				found[id] = true
			} else {
				extra++
			}
		}
	}
	byToken, tokWant := 0, 0
	for i := 0; i < n; i += max(1, n/40) {
		tokWant++
		for _, id := range query("k8s_pod:" + podName(seed, i)) {
			if id == docs[i].id {
				byToken++
			} else {
				extra++
			}
		}
		if os.Getenv("VERIF_WIDE") != "" { // every field that only this document carries finds exactly it
			for _, t := range wideTokens(seed, i) {
				tokWant++
				ast, err := parser.ParseSeqQL(t, nil)
				if err != nil {
					panic(err)
				}
				qpr, err := searcher.SearchDocs(ctx, fm.GetAllFracs(), processor.SearchParams{AST: ast.Root, From: 0, To: math.MaxUint64, Limit: 10, Order: seq.DocsOrderDesc})
				if err != nil {
					searchErr = "search-error"
					continue
				}
				for _, id := range qpr.IDs.IDs() {
					if id == docs[i].id {
						byToken++
					} else {
						extra++
					}
				}
			}
		}
	}
	exact, missing, wrong, fetchErr := 0, 0, 0, ""
	const batch = 256
	for i := 0; i < n; i += batch {
		var ids []seq.IDSource
		for _, d := range docs[i:min(i+batch, n)] {
			ids = append(ids, seq.IDSource{ID: d.id})
		}
		res, err := fetcher.FetchDocs(ctx, fm.GetAllFracs(), ids)
		if err != nil {
			fetchErr = "fetch-error"
			wrong += len(ids)
			continue
		}
		for j := range ids {
			switch {
			case j >= len(res) || res[j] == nil:
				missing++
			case bytes.Equal(res[j], docs[i+j].body):
				exact++
			default:
				wrong++
			}
		}
	}
	say("OBS n=%d found=%d extra=%d bytoken=%d exact=%d missing=%d wrong=%d tokwant=%d %s %s", n, len(found), extra, byToken, exact, missing, wrong, tokWant, searchErr, fetchErr)
	os.Exit(0)
}

// sealchild <dir> <seed> <n> <skip> <keep> <limit> : ingest the corpus, lower RLIMIT_FSIZE to <limit> bytes (every write
// that would grow a file beyond it fails with EFBIG - a full disk), then rotate and seal through FracManager.
// Exit 0 = sealed, exit 1 = logger.Fatal("sealing error").
func sealChildMain(args []string) {
	logger.SetLevel(zapcore.FatalLevel)
	signal.Ignore(syscall.SIGXFSZ)
	dir := args[0]
	seed, _ := strconv.ParseInt(args[1], 10, 64)
	n, _ := strconv.Atoi(args[2])
	skip, keep := args[3] == "1", args[4] == "1"
	limit, _ := strconv.ParseUint(args[5], 10, 64)
	fm := fracmanager.NewFracManager(fmConfig(dir, skip, keep))
	if err := fm.Load(context.Background()); err != nil {
		fmt.Println("LOADERR", err)
		os.Exit(3)
	}
	for _, b := range bulks(corpus(seed, n), 200) {
		if err := fm.Append(context.Background(), b[0], b[1]); err != nil {
			fmt.Println("APPENDERR", err)
			os.Exit(4)
		}
	}
	fm.WaitIdle()
	fmt.Println("INGESTED")
	if limit > 0 {
		var rl syscall.Rlimit
		syscall.Getrlimit(syscall.RLIMIT_FSIZE, &rl)
		rl.Cur = limit
		if err := syscall.Setrlimit(syscall.RLIMIT_FSIZE, &rl); err != nil {
			fmt.Println("RLIMITERR", err)
			os.Exit(5)
		}
	}
	if len(args) > 6 && strings.HasPrefix(args[6], "nosync:") {
		// the seal output with this suffix cannot be fsynced: it is pre-created as a symlink to /dev/null, os.Create
		// follows it, every write "succeeds" and fsync returns EINVAL (what EIO at write-back time looks like)
		ents, _ := os.ReadDir(dir)
		for _, e := range ents {
			if b, suf := suffixOf(e.Name()); suf == consts.DocsFileSuffix {
				fmt.Println("BASE", b)
				if err := os.Symlink(os.DevNull, filepath.Join(dir, b+strings.TrimPrefix(args[6], "nosync:"))); err != nil {
					fmt.Println("SYMLINKERR", err)
					os.Exit(6)
				}
			}
		}
	}
	fmt.Println("SEALING")
	fm.SealForcedForTests()
	fmt.Println("SEALED")
	os.Exit(0)
}

type childResult struct {
	up     bool
	kinds  []string // "<base> <kind>"
	served string   // all | part | none | down
	detail string
}

func runChild(dir string, seed int64, n int, skip, keep bool, extra ...string) childResult {
	exe, _ := os.Executable()
	run := func() (string, error) {
		ctx, cancel := context.WithTimeout(context.Background(), 120*time.Second)
		defer cancel()
		cmd := exec.CommandContext(ctx, exe, append([]string{"child", dir, fmt.Sprint(seed), fmt.Sprint(n), vh.B(skip), vh.B(keep)}, extra...)...)
		cmd.Env = append(os.Environ(), "GOMEMLIMIT=2GiB")
		var out bytes.Buffer
		cmd.Stdout = &out
		cmd.Stderr = io.Discard
		err := cmd.Run()
		return out.String(), err
	}
	out, err := run()
	var res childResult
	for _, l := range strings.Split(out, "\n") {
		switch {
		case strings.HasPrefix(l, "UP"):
			res.up = true
			if f := strings.TrimSpace(strings.TrimPrefix(l, "UP")); f != "" {
				res.kinds = strings.Split(f, ",")
			}
		case strings.HasPrefix(l, "OBS "):
			res.detail = l
			var nn, found, extra, byTok, exact, missing, wrong, tokWant int
			fmt.Sscanf(l, "OBS n=%d found=%d extra=%d bytoken=%d exact=%d missing=%d wrong=%d tokwant=%d", &nn, &found, &extra, &byTok, &exact, &missing, &wrong, &tokWant)
			switch {
			case found == nn && exact == nn && extra == 0 && wrong == 0 && missing == 0 && byTok == tokWant && byTok > 0:
				res.served = "all"
			case found == 0 && exact == 0:
				res.served = "none"
			default:
				res.served = "part"
			}
		}
	}
	if !res.up {
		res.served = "down"
		res.detail = fmt.Sprintf("process ended before Load returned (%v)", err)
	} else if n > 0 && res.served == "" {
		res.served = "part"
		res.detail = fmt.Sprintf("process died while searching/fetching (%v)", err)
	}
	return res
}

// ---------------------------------------------------------------- directory helpers

var suffixes = []string{consts.DocsFileSuffix, consts.DocsDelFileSuffix, consts.SdocsFileSuffix, consts.SdocsTmpFileSuffix, consts.SdocsDelFileSuffix,
	consts.IndexFileSuffix, consts.IndexTmpFileSuffix, consts.IndexDelFileSuffix, consts.MetaFileSuffix}

func suffixOf(name string) (string, string) { // base, suffix (suffix starts at the first dot of the file name)
	b := filepath.Base(name)
	if i := strings.IndexByte(b, '.'); i >= 0 {
		return b[:i], b[i:]
	}
	return b, ""
}

// listing returns nine characters (a = absent, e = empty, f = non-empty) for the files of fraction `base` in dir.
func listing(dir, base string) string {
	var sb strings.Builder
	for _, s := range suffixes {
		st, err := os.Stat(filepath.Join(dir, base+s))
		switch {
		case err != nil:
			sb.WriteByte('a')
		case st.Size() == 0:
			sb.WriteByte('e')
		default:
			sb.WriteByte('f')
		}
	}
	return sb.String()
}

func copyFile(src, dst string) {
	b, err := os.ReadFile(src)
	if err != nil {
		panic(err)
	}
	if err := os.WriteFile(dst, b, 0o644); err != nil {
		panic(err)
	}
}

func copyFraction(srcDir, base, dstDir string) {
	os.MkdirAll(dstDir, 0o755)
	ents, _ := os.ReadDir(srcDir)
	for _, e := range ents {
		if b, _ := suffixOf(e.Name()); b == base {
			copyFile(filepath.Join(srcDir, e.Name()), filepath.Join(dstDir, e.Name()))
		}
	}
}

// ---------------------------------------------------------------- crash sweep

type snapshot struct {
	op      string // model operation name, e.g. "create:_index" ("begin" for the first)
	dir     string
	listing string
}

var sufName = map[string]string{consts.DocsFileSuffix: "docs", consts.DocsDelFileSuffix: "docs.del", consts.SdocsFileSuffix: "sdocs", consts.SdocsTmpFileSuffix: "_sdocs",
	consts.SdocsDelFileSuffix: "sdocs.del", consts.IndexFileSuffix: "index", consts.IndexTmpFileSuffix: "_index", consts.IndexDelFileSuffix: "index.del", consts.MetaFileSuffix: "meta"}

// sealWithSnapshots ingests the corpus into a fresh store, seals the fraction through FracManager (rotate + proxyFrac.Seal)
// and snapshots the fraction's files at every fileop point.
func sealWithSnapshots(work string, seed int64, n int, skip, keep bool) (base string, snaps []snapshot, err error) {
	dir := filepath.Join(work, "live")
	os.MkdirAll(dir, 0o755)
	fm := fracmanager.NewFracManager(fmConfig(dir, skip, keep))
	if err := fm.Load(context.Background()); err != nil {
		return "", nil, err
	}
	for _, b := range bulks(corpus(seed, n), 200) {
		if err := fm.Append(context.Background(), b[0], b[1]); err != nil {
			return "", nil, err
		}
	}
	fm.WaitIdle()
	take := func(op string) {
		sd := filepath.Join(work, fmt.Sprintf("snap%02d", len(snaps)))
		copyFraction(dir, base, sd)
		snaps = append(snaps, snapshot{op: op, dir: sd, listing: listing(sd, base)})
	}
	verifhook.Set(func(name, s string, _ []int64) {
		switch {
		case name == "seal.begin":
			base = filepath.Base(s)
			take("begin")
		case strings.HasPrefix(name, "fileop.") && base != "":
			op := strings.TrimPrefix(name, "fileop.")
			if op == "syncdir" {
				take("syncdir")
				return
			}
			b, suf := suffixOf(s)
			if b != base {
				return
			}
			switch op {
			case "written":
				take("write:" + sufName[suf])
			case "rename":
				take("rename:_" + sufName[suf] + ">" + sufName[suf])
			default:
				take(op + ":" + sufName[suf])
			}
		}
	})
	defer verifhook.Set(nil)
	fm.SealForcedForTests()
	if base == "" {
		return "", nil, errors.New("seal.begin point not reached")
	}
	return base, snaps, nil
}

// ---------------------------------------------------------------- fault injection on the index output

var errInjected = errors.New("injected write error")

type faultWS struct {
	f          *os.File
	calls      int
	failAt     int // 1-based; 0 = never
	persistent bool
	fired      bool
	marks      map[int64]int // section id -> calls issued before the section
}

func (w *faultWS) hit() bool {
	w.calls++
	if w.failAt > 0 && (w.calls == w.failAt || (w.persistent && w.calls > w.failAt)) {
		w.fired = true
		return true
	}
	return false
}
func (w *faultWS) Write(p []byte) (int, error) {
	if w.hit() {
		return 0, errInjected
	}
	return w.f.Write(p)
}
func (w *faultWS) Seek(off int64, whence int) (int64, error) {
	if w.hit() {
		return 0, errInjected
	}
	return w.f.Seek(off, whence)
}

type activeEnv struct {
	dir, base string
	active    *frac.Active
	indexer   *frac.ActiveIndexer
	stopCache func()
}

func newActive(work string, seed int64, n int, skip, keep bool) *activeEnv {
	dir := filepath.Join(work, "data")
	os.MkdirAll(dir, 0o755)
	done := make(chan struct{})
	cm := fracmanager.NewCacheMaintainer(32*consts.MB, 24*consts.MB, nil)
	wgc := cm.RunCleanLoop(done, time.Hour, time.Hour)
	ix := frac.NewActiveIndexer(2, 2)
	ix.Start()
	base := fracPrefix + "01C08FAULT" + fmt.Sprintf("%016d", seed)
	a := frac.NewActive(filepath.Join(dir, base), ix, disk.NewReadLimiter(1, nil), cm.CreateDocBlockCache(), cm.CreateSortDocsCache(),
		&frac.Config{SkipSortDocs: skip, KeepMetaFile: keep})
	var wg sync.WaitGroup
	for _, b := range bulks(corpus(seed, n), 200) {
		wg.Add(1)
		if err := a.Append(b[0], b[1], &wg); err != nil {
			panic(err)
		}
	}
	wg.Wait()
	a.GetAllDocuments()
	return &activeEnv{dir: dir, base: base, active: a, indexer: ix, stopCache: func() { close(done); wgc.Wait() }}
}

func (e *activeEnv) stop() { e.indexer.Stop(); e.stopCache() }

type faultRun struct {
	err    error
	calls  int
	fired  bool
	marks  map[int64]int
	idx    *os.File
	panicS string
}

// sealIndexWithFault does what frac.Seal does up to the point where the index is written: create ._index, skip the
// 16-byte header, writeSealedFraction - on an output whose failAt-th call fails.
func sealIndexWithFault(e *activeEnv, failAt int, persistent bool) (res faultRun) {
	idx, err := os.Create(filepath.Join(e.dir, e.base+consts.IndexTmpFileSuffix))
	if err != nil {
		panic(err)
	}
	if _, err := idx.Seek(16, io.SeekStart); err != nil {
		panic(err)
	}
	ws := &faultWS{f: idx, failAt: failAt, persistent: persistent, marks: map[int64]int{}}
	verifhook.Set(func(name, _ string, a []int64) {
		if name == "seal.sec" && len(a) == 1 {
			ws.marks[a[0]] = ws.calls
		}
	})
	defer verifhook.Set(nil)
	defer func() {
		if r := recover(); r != nil {
			res = faultRun{err: fmt.Errorf("panic"), calls: ws.calls, fired: ws.fired, marks: ws.marks, idx: idx, panicS: fmt.Sprint(r)}
		}
	}()
	err = frac.VerifC08WriteSealedFraction(e.active, sealParams, ws)
	return faultRun{err: err, calls: ws.calls, fired: ws.fired, marks: ws.marks, idx: idx}
}

// planOf turns the section marks of a fault-free run into the model's plan; ok = the fixed parts have the modelled size.
func planOf(r faultRun) (plan [7]int, ok bool) {
	m := r.marks
	for s := int64(1); s <= 9; s++ {
		if _, has := m[s]; !has {
			return plan, false
		}
	}
	plan = [7]int{1, m[3] - m[2], m[4] - m[3], m[5] - m[4], m[6] - m[5], m[8] - m[7], m[9] - m[8]}
	ok = m[1] == 0 && m[2]-m[1] == 2 && m[7]-m[6] == 2 && r.calls-m[9] == 4
	return plan, ok
}

func sectionOf(marks map[int64]int, k int) string {
	names := map[int64]string{1: "info", 2: "tokens", 3: "tokens-tail", 4: "token-table", 5: "token-table-tail", 6: "positions", 7: "ids", 8: "lids", 9: "registry"}
	best := int64(0)
	for s, c := range marks {
		if c < k && s > best {
			best = s
		}
	}
	return names[best]
}

func oracleBits(k int, persistent bool, total int) string {
	if k == 0 {
		return "-"
	}
	s := strings.Repeat("1", k-1) + "0"
	if persistent {
		s += strings.Repeat("0", total+8)
	}
	return s
}

func planStr(p [7]int) string { return vh.JoinInts(p[:]) }

// ---------------------------------------------------------------- main

type faultCase struct {
	skip, keep bool
	n          int
	seed       int64
	k          int
	persistent bool
}

func (c faultCase) String() string {
	return fmt.Sprintf("fault skip=%s keep=%s n=%d seed=%d k=%d persistent=%s", vh.B(c.skip), vh.B(c.keep), c.n, c.seed, c.k, vh.B(c.persistent))
}

type harness struct {
	o         vh.Opts
	rep       *vh.Report
	work      string
	chLoad    *vh.Channel
	chTrace   *vh.Channel
	chCrash   *vh.Channel
	chFault   *vh.Channel
	orCrash   *vh.Oracle
	orFault   *vh.Oracle
	orSdocs   *vh.Oracle
	orFull    *vh.Oracle
	orOverlap *vh.Oracle
	orSync    *vh.Oracle
	orReseal  *vh.Oracle
	orSys     *vh.Oracle
	chSys     *vh.Channel
	chWriter  *vh.Channel
	orOffsets *vh.Oracle
	orBig     *vh.Oracle
	orConc    *vh.Oracle
	tplDir    string // valid files of one fraction (docs, meta from the active fraction; sdocs, index from its sealed form)
	tplBase   string
}

func (h *harness) faultRestart(c faultCase) {
	work, _ := os.MkdirTemp(h.work, "fr")
	defer os.RemoveAll(work)
	e := newActive(work, c.seed, c.n, c.skip, c.keep)
	defer e.stop()
	r := sealIndexWithFault(e, c.k, c.persistent)
	published := false
	if r.err == nil {
		// frac.Seal: syncRename(indexFile, .index); MustSyncPath(dir); then proxyFrac.Seal releases the active fraction
		f, err := frac.VerifC08SyncRename(r.idx, filepath.Join(e.dir, e.base+consts.IndexFileSuffix))
		if err != nil {
			panic(err)
		}
		f.Close()
		util.MustSyncPath(e.dir)
		e.active.Release()
		published = true
	} else {
		r.idx.Close()
	}
	res := runChild(e.dir, c.seed, c.n, c.skip, c.keep)
	sec := sectionOf(r.marks, c.k)
	h.orFault.Case(c.String(), r.fired, "section="+sec, "published="+vh.B(published), "served="+res.served, "fired="+vh.B(r.fired))
	if res.served != "all" {
		site := "frac/active_sealer.go:writeSealedFraction"
		switch sec {
		case "ids":
			site = "frac/disk_blocks_producer.go:getIDsBlocksGenerator"
		case "lids":
			site = "frac/disk_blocks_producer.go:getLIDsBlockGenerator"
		case "tokens":
			site = "frac/disk_blocks_producer.go:getTokensBlocksGenerator"
		case "token-table":
			site = "frac/disk_blocks_producer.go:getTokenTableBlocksGenerator"
		case "registry":
			site = "disk/blocks_writer.go:WriteBlocksRegistry"
		}
		class := "write-error-swallowed-index-published"
		if !published { // the error was reported, yet what is on disk no longer serves the documents
			site, class = "frac/active_sealer.go:writeSealedFraction", "documents-lost-after-failed-seal"
		}
		h.rep.Violate(vh.Violation{Site: site, Class: class,
			What:   fmt.Sprintf("call %d (%s section) on the index output failed, writeSealedFraction returned err=%v, published=%v; after restart the fraction serves %q of its %d documents: %s", c.k, sec, r.err, published, res.served, c.n, res.detail),
			Replay: []string{c.String()}})
	}
}

// faultSweep: lidsOnly = a large fraction (a token with more postings than one LID block holds): only transient faults,
// only on the calls of the LID section, and restarts only for dropped errors.
func (h *harness) faultSweep(skip, keep bool, n int, seed int64, lidsOnly bool) {
	work, _ := os.MkdirTemp(h.work, "fs")
	defer os.RemoveAll(work)
	e := newActive(work, seed, n, skip, keep)
	defer e.stop()
	clean := sealIndexWithFault(e, 0, false)
	clean.idx.Close()
	plan, ok := planOf(clean)
	if clean.err != nil {
		h.chFault.Error = fmt.Sprintf("fault-free run of writeSealedFraction failed: %v", clean.err)
		return
	}
	total := clean.calls
	h.rep.Note("fault sweep skip=%v n=%d: %d calls on the index output, plan %s", skip, n, total, planStr(plan))
	var swallowed []faultCase
	perSection := map[string]int{}
	if !ok {
		// the call sequence no longer has the modelled shape (info 2, positions 2, registry 4 calls): the correspondence
		// is reported as broken, the property itself is still checked on every k below
		h.chFault.Error = fmt.Sprintf("the fault-free run does not have the modelled shape: marks=%v calls=%d", clean.marks, clean.calls)
	}
	for _, persistent := range []bool{false, true} {
		for k := 0; k <= total+1; k++ {
			if lidsOnly && (persistent || (k != 0 && (k <= clean.marks[8] || k > clean.marks[9]))) {
				continue
			}
			r := sealIndexWithFault(e, k, persistent)
			r.idx.Close()
			res := "1"
			if r.err != nil {
				res = "0"
			}
			lost := r.fired && r.err == nil
			sec := sectionOf(clean.marks, k)
			if k == 0 || k > total {
				sec = "none"
			}
			if ok {
				h.chFault.Add(fmt.Sprintf("writeidx src %s %s", planStr(plan), oracleBits(k, persistent, total)),
					fmt.Sprintf("ok %s calls=%d failed=%s", res, r.calls, vh.B(r.fired)),
					r.fired, "section="+sec, "persistent="+vh.B(persistent), "result="+res, "swallowed="+vh.B(lost))
			}
			c := faultCase{skip, keep, n, seed, k, persistent}
			if lost && (h.o.Thorough() || perSection[sec] < 2) { // quick tier: two restarts per section are enough to exhibit a dropped error
				perSection[sec]++
				swallowed = append(swallowed, c)
			}
		}
	}
	// property on the real code: restart after the fault
	var cases []faultCase
	cases = append(cases, swallowed...)
	step := h.o.Pick(5, 1)
	if lidsOnly {
		step = total + 1 // only k = 0 and the dropped ones
	}
	for k := 0; k <= total; k += step {
		cases = append(cases, faultCase{skip, keep, n, seed, k, false})
	}
	for k := max(1, total-5); k <= total && !lidsOnly; k++ { // every call of the registry block and of the header that is written last
		cases = append(cases, faultCase{skip, keep, n, seed, k, false})
	}
	if h.o.Thorough() && !lidsOnly {
		for k := 1; k <= total; k += 3 {
			cases = append(cases, faultCase{skip, keep, n, seed, k, true})
		}
	}
	seen := map[string]bool{}
	for _, c := range cases {
		if seen[c.String()] {
			continue
		}
		seen[c.String()] = true
		h.faultRestart(c)
	}
	// sorted-docs output: its only write fails
	if !skip {
		for _, k := range []int{1, 2} {
			w := &failingWriter{failAt: k}
			err, panicked := frac.VerifC08WriteDocsInOrder(e.active, sealParams, w)
			key := fmt.Sprintf("sdocsfault n=%d seed=%d k=%d", n, seed, k)
			h.orSdocs.Case(key, w.fired, "fired="+vh.B(w.fired), "err="+vh.B(err != nil), "panicked="+vh.B(panicked != ""))
			if w.fired && err == nil && panicked == "" {
				h.rep.Violate(vh.Violation{Site: "frac/active_sealer.go:writeDocsInOrder", Class: "sdocs-write-error-swallowed",
					What: fmt.Sprintf("write %d of the sorted-docs output failed but writeDocsInOrder returned nil", k), Replay: []string{key}})
			}
		}
	}
}

// diskFull runs the real rotate + proxyFrac.Seal in a child process whose file-size limit is `limit` bytes and then
// restarts from what is left.
func (h *harness) diskFull(skip, keep bool, n int, seed int64, limit uint64) (sealed bool) {
	work, _ := os.MkdirTemp(h.work, "df")
	defer os.RemoveAll(work)
	exe, _ := os.Executable()
	ctx, cancel := context.WithTimeout(context.Background(), 120*time.Second)
	defer cancel()
	cmd := exec.CommandContext(ctx, exe, "sealchild", work, fmt.Sprint(seed), fmt.Sprint(n), vh.B(skip), vh.B(keep), fmt.Sprint(limit))
	var out bytes.Buffer
	cmd.Stdout = &out
	cmd.Stderr = io.Discard
	err := cmd.Run()
	ingested := strings.Contains(out.String(), "INGESTED")
	sealed = strings.Contains(out.String(), "SEALED")
	key := fmt.Sprintf("diskfull skip=%s keep=%s n=%d seed=%d limit=%d", vh.B(skip), vh.B(keep), n, seed, limit)
	if !ingested {
		h.orFull.Error = fmt.Sprintf("%s: the child did not get to the seal: %v %s", key, err, out.String())
		return
	}
	res := runChild(work, seed, n, skip, keep)
	h.orFull.Case(key, !sealed, "sealed="+vh.B(sealed), "served="+res.served, fmt.Sprintf("skip=%s", vh.B(skip)))
	if res.served != "all" {
		h.rep.Violate(vh.Violation{Site: "frac/active_sealer.go:Seal", Class: "disk-full-during-seal-loses-documents",
			What: fmt.Sprintf("sealing with every write beyond byte %d of a file failing (EFBIG): sealed=%v (exit: %v); after restart the fraction serves %q of its %d documents: %s",
				limit, sealed, err, res.served, n, res.detail), Replay: []string{key}})
	}
	return sealed
}

func (h *harness) diskFullSweep(skip, keep bool, n int, seed int64, points int) {
	// find the size of the largest sealed file with an unlimited run
	work, _ := os.MkdirTemp(h.work, "dfp")
	defer os.RemoveAll(work)
	base, snaps, err := sealWithSnapshots(work, seed, n, skip, keep)
	if err != nil {
		h.orFull.Error = err.Error()
		return
	}
	last := snaps[len(snaps)-1].dir
	var maxSize int64
	for _, suf := range []string{consts.SdocsFileSuffix, consts.IndexFileSuffix} {
		if st, err := os.Stat(filepath.Join(last, base+suf)); err == nil && st.Size() > maxSize {
			maxSize = st.Size()
		}
	}
	for i := 0; i <= points; i++ {
		limit := uint64(16 + int64(i)*maxSize/int64(points)) // 16 = the index header that is written last at offset 0
		if i == points {
			limit = uint64(maxSize + 1)
		}
		h.diskFull(skip, keep, n, seed, limit)
	}
}

// overlap seals two fractions with the real frac.Seal such that the second seal runs completely while the first one
// is parked right after its writeSortedDocs returned (first "seal.sec" point = before the first index block is
// written) - what the maintenance loop's `go fm.seal(..)` does under load.  Then both are released and the store is
// restarted: every document of both fractions must be served.
func (h *harness) overlap(n int, seedA, seedB int64) {
	work, _ := os.MkdirTemp(h.work, "ov")
	defer os.RemoveAll(work)
	a := newActive(work, seedA, n, false, false)
	defer a.stop()
	b := newActive(work, seedB, n+n/2, false, false)
	defer b.stop()
	parked := false
	var errB error
	verifhook.Set(func(name, _ string, args []int64) {
		if name == "seal.sec" && len(args) == 1 && args[0] == 1 && !parked {
			parked = true
			_, errB = frac.Seal(b.active, sealParams)
		}
	})
	_, errA := frac.Seal(a.active, sealParams)
	verifhook.Set(nil)
	key := fmt.Sprintf("overlap n=%d seedA=%d seedB=%d", n, seedA, seedB)
	if errA != nil || errB != nil || !parked {
		h.orOverlap.Error = fmt.Sprintf("%s: seals did not run as planned: errA=%v errB=%v parked=%v", key, errA, errB, parked)
		return
	}
	a.active.Release()
	b.active.Release()
	ra := runChild(a.dir, seedA, n, false, false)
	rb := runChild(a.dir, seedB, n+n/2, false, false)
	h.orOverlap.Case(key, true, "servedA="+ra.served, "servedB="+rb.served)
	if ra.served != "all" || rb.served != "all" {
		h.rep.Violate(vh.Violation{Site: "frac/active_sealer.go:writeSortedDocs", Class: "overlapping-seals-corrupt-index",
			What: fmt.Sprintf("fraction B was sealed completely while the seal of fraction A was between writeSortedDocs and its first index block; after release and restart A serves %q (%s) and B serves %q (%s)",
				ra.served, ra.detail, rb.served, rb.detail), Replay: []string{key}})
	}
}

// bigSeal: one real-size case - more than 32 MiB of compressed sorted docs, so that the 32 MiB buffer of the
// bytespool.Writer under ._sdocs is flushed in the middle of a block - sealed through the real FracManager in a child,
// then restarted and fetched completely.
func (h *harness) bigSeal(n, pad int, seed int64) {
	work, _ := os.MkdirTemp(h.work, "big")
	defer os.RemoveAll(work)
	os.Setenv("VERIF_DOC_PAD", fmt.Sprint(pad))
	defer os.Unsetenv("VERIF_DOC_PAD")
	exe, _ := os.Executable()
	ctx, cancel := context.WithTimeout(context.Background(), 600*time.Second)
	defer cancel()
	cmd := exec.CommandContext(ctx, exe, "sealchild", work, fmt.Sprint(seed), fmt.Sprint(n), "0", "0", "0")
	var out bytes.Buffer
	cmd.Stdout = &out
	cmd.Stderr = io.Discard
	err := cmd.Run()
	key := fmt.Sprintf("bigseal n=%d pad=%d seed=%d", n, pad, seed)
	if !strings.Contains(out.String(), "SEALED") {
		h.orBig.Error = fmt.Sprintf("%s: the seal did not finish: %v %s", key, err, out.String())
		return
	}
	var sdocs int64
	ents, _ := os.ReadDir(work)
	for _, e := range ents {
		if _, suf := suffixOf(e.Name()); suf == consts.SdocsFileSuffix {
			if st, err := e.Info(); err == nil {
				sdocs = st.Size()
			}
		}
	}
	res := runChild(work, seed, n, false, false)
	h.orBig.Case(key, sdocs > 32<<20, fmt.Sprintf("sdocs>32MiB=%s", vh.B(sdocs > 32<<20)), "served="+res.served)
	if res.served != "all" {
		h.rep.Violate(vh.Violation{Site: "frac/active_sealer.go:writeSortedDocs", Class: "large-fraction-unfetchable-after-seal",
			What: fmt.Sprintf("fraction with %d documents, .sdocs of %d bytes (writer buffer 32 MiB): after seal and restart it serves %q: %s", n, sdocs, res.served, res.detail), Replay: []string{key}})
	}
}

// concurrentSeals: k differently shaped fractions are filled one after the other, each rotated out and handed to a
// sealing goroutine at once (the maintenance loop's `go fm.seal(active)`), so that the sealings overlap; then a restart
// must serve every document of every fraction.
func (h *harness) concurrentSeals(k, n int, seed int64) {
	work, _ := os.MkdirTemp(h.work, "cs")
	defer os.RemoveAll(work)
	os.Setenv("VERIF_WIDE", "1")
	defer os.Unsetenv("VERIF_WIDE")
	exe, _ := os.Executable()
	ctx, cancel := context.WithTimeout(context.Background(), 300*time.Second)
	defer cancel()
	cmd := exec.CommandContext(ctx, exe, "multisealchild", work, fmt.Sprint(seed), fmt.Sprint(n), fmt.Sprint(k))
	var out bytes.Buffer
	cmd.Stdout = &out
	cmd.Stderr = io.Discard
	err := cmd.Run()
	key := fmt.Sprintf("concurrent k=%d n=%d seed=%d", k, n, seed)
	if !strings.Contains(out.String(), "SEALED") {
		h.rep.Violate(vh.Violation{Site: "fracmanager/fracmanager.go:seal", Class: "concurrent-seals-fail",
			What: fmt.Sprintf("%d fractions sealed at the same time: the process did not finish: %v %s", k, err, out.String()), Replay: []string{key}})
		return
	}
	for i := 0; i < k; i++ {
		ni := n + i*n/3
		res := runChild(work, seed+int64(i), ni, false, false)
		h.orConc.Case(fmt.Sprintf("%s fraction=%d", key, i), true, "served="+res.served)
		if res.served != "all" {
			h.rep.Violate(vh.Violation{Site: "disk/blocks_writer.go:WriteBlock", Class: "concurrent-seals-corrupt-index",
				What: fmt.Sprintf("%d fractions sealed at the same time (goroutines as in the maintenance loop); after a restart fraction %d (%d documents) serves %q: %s", k, i, ni, res.served, res.detail), Replay: []string{key}})
			break
		}
	}
}

// multisealchild <dir> <seed> <n> <k>
func multiSealChildMain(args []string) {
	logger.SetLevel(zapcore.FatalLevel)
	dir := args[0]
	seed, _ := strconv.ParseInt(args[1], 10, 64)
	n, _ := strconv.Atoi(args[2])
	k, _ := strconv.Atoi(args[3])
	fm := fracmanager.NewFracManager(fmConfig(dir, false, false))
	if err := fm.Load(context.Background()); err != nil {
		fmt.Println("LOADERR", err)
		os.Exit(3)
	}
	var waits []func()
	for i := 0; i < k; i++ {
		for _, b := range bulks(corpus(seed+int64(i), n+i*n/3), 200) {
			if err := fm.Append(context.Background(), b[0], b[1]); err != nil {
				fmt.Println("APPENDERR", err)
				os.Exit(4)
			}
		}
		fm.WaitIdle()
		waits = append(waits, fracmanager.VerifC08RotateSealAsync(fm))
	}
	for _, w := range waits {
		w()
	}
	fmt.Println("SEALED")
	os.Exit(0)
}

// syncFault seals through the real FracManager while one seal output cannot be fsynced; the seal must fail without
// giving that output its final name, and a restart must serve everything.
func (h *harness) syncFault(skip bool, n int, seed int64, tmpSuffix string) {
	work, _ := os.MkdirTemp(h.work, "sf")
	defer os.RemoveAll(work)
	exe, _ := os.Executable()
	ctx, cancel := context.WithTimeout(context.Background(), 120*time.Second)
	defer cancel()
	cmd := exec.CommandContext(ctx, exe, "sealchild", work, fmt.Sprint(seed), fmt.Sprint(n), vh.B(skip), "0", "0", "nosync:"+tmpSuffix)
	var out bytes.Buffer
	cmd.Stdout = &out
	cmd.Stderr = io.Discard
	err := cmd.Run()
	key := fmt.Sprintf("syncfault skip=%s n=%d seed=%d suffix=%s", vh.B(skip), n, seed, tmpSuffix)
	base := ""
	for _, l := range strings.Split(out.String(), "\n") {
		if strings.HasPrefix(l, "BASE ") {
			base = strings.TrimPrefix(l, "BASE ")
		}
	}
	if !strings.Contains(out.String(), "SEALING") || base == "" {
		h.orSync.Error = fmt.Sprintf("%s: the child did not get to the seal: %v %s", key, err, out.String())
		return
	}
	sealed := strings.Contains(out.String(), "SEALED")
	final := strings.Replace(tmpSuffix, "._", ".", 1)
	_, lerr := os.Lstat(filepath.Join(work, base+final))
	published := lerr == nil
	res := runChild(work, seed, n, skip, false)
	h.orSync.Case(key, true, "sealed="+vh.B(sealed), "published="+vh.B(published), "served="+res.served, "suffix="+tmpSuffix)
	if published || sealed || res.served != "all" {
		h.rep.Violate(vh.Violation{Site: "frac/active_sealer.go:syncRename", Class: "unsynced-output-published",
			What: fmt.Sprintf("fsync of %s fails (EINVAL): seal reported success=%v, %s exists afterwards=%v; after restart the fraction serves %q of its %d documents: %s",
				tmpSuffix, sealed, final, published, res.served, n, res.detail), Replay: []string{key}})
	}
}

// syscalls runs rotate + seal in a child under strace and reads the file operations on the sealed fraction's files off
// the system calls themselves (independent of the verifhook points).
func (h *harness) syscalls(skip, keep bool, n int, seed int64) {
	work, _ := os.MkdirTemp(h.work, "sc")
	defer os.RemoveAll(work)
	strace, err := exec.LookPath("strace")
	if err != nil {
		h.rep.Note("strace not available: seal.syscalls skipped")
		return
	}
	exe, _ := os.Executable()
	dir := filepath.Join(work, "data")
	os.MkdirAll(dir, 0o755)
	trace := filepath.Join(work, "trace.txt")
	ctx, cancel := context.WithTimeout(context.Background(), 180*time.Second)
	defer cancel()
	cmd := exec.CommandContext(ctx, strace, "-f", "-y", "-s", "0", "-e", "trace=openat,write,pwrite64,fsync,fdatasync,rename,renameat,renameat2,unlink,unlinkat",
		"-o", trace, exe, "sealchild", dir, fmt.Sprint(seed), fmt.Sprint(n), vh.B(skip), vh.B(keep), "0")
	var out bytes.Buffer
	cmd.Stdout = &out
	cmd.Stderr = io.Discard
	rerr := cmd.Run()
	key := fmt.Sprintf("syscalls skip=%s keep=%s n=%d seed=%d", vh.B(skip), vh.B(keep), n, seed)
	if !strings.Contains(out.String(), "SEALED") {
		h.chSys.Error = fmt.Sprintf("%s: traced seal failed: %v %s", key, rerr, out.String())
		return
	}
	b, _ := os.ReadFile(trace)
	ops := parseStrace(string(b), dir)
	h.chSys.Add(fmt.Sprintf("seal src %s %s 1,2,2,2,2,6,2 - -", vh.B(skip), vh.B(keep)), "ok 1 trace="+strings.Join(ops, ";"), true, fmt.Sprintf("skip=%s,keep=%s", vh.B(skip), vh.B(keep)))
	// durable before visible, checked on the observed calls alone: a temporary file gets its final name only when the
	// last thing that happened to it was an fsync
	last := map[string]string{}
	for i, op := range ops {
		f := strings.SplitN(op, ":", 2)
		switch f[0] {
		case "create", "write", "sync":
			last[f[1]] = f[0]
		case "rename":
			ft := strings.SplitN(f[1], ">", 2)
			ok := last[ft[0]] == "sync"
			h.orSys.Case(fmt.Sprintf("%s op=%d %s", key, i, op), true, "synced-before-rename="+vh.B(ok))
			if !ok {
				h.rep.Violate(vh.Violation{Site: "frac/active_sealer.go:syncRename", Class: "renamed-before-fsync",
					What:   fmt.Sprintf("system calls of the seal: %s - %s is renamed to its final name while the last operation on it was %q, not fsync: a crash here leaves a final-named file whose contents are not durable", strings.Join(ops, ";"), ft[0], last[ft[0]]),
					Replay: []string{key}})
			}
			last[ft[1]] = last[ft[0]]
			delete(last, ft[0])
		}
	}
}

// parseStrace reduces an strace log to the model's operations on the first fraction whose ._index is created.
func parseStrace(log, dir string) []string {
	var ops []string
	base := ""
	add := func(op string) {
		if strings.HasPrefix(op, "write:") && len(ops) > 0 && ops[len(ops)-1] == op {
			return
		}
		ops = append(ops, op)
	}
	nameOf := func(path string) (string, bool) { // model name of a file of the traced fraction
		b, suf := suffixOf(path)
		if n, ok := sufName[suf]; ok && b == base {
			return n, true
		}
		return "", false
	}
	quoted := func(s string) []string { // the quoted strings of a call
		var res []string
		for {
			i := strings.IndexByte(s, '"')
			if i < 0 {
				return res
			}
			j := strings.IndexByte(s[i+1:], '"')
			if j < 0 {
				return res
			}
			res = append(res, s[i+1:i+1+j])
			s = s[i+j+2:]
		}
	}
	fdPath := func(s string) string { // fsync(7</path>) -> /path
		i, j := strings.IndexByte(s, '<'), strings.IndexByte(s, '>')
		if i < 0 || j < i {
			return ""
		}
		return s[i+1 : j]
	}
	for _, l := range strings.Split(log, "\n") {
		i := strings.IndexByte(l, ' ')
		if i < 0 {
			continue
		}
		call := strings.TrimSpace(l[i:])
		switch {
		case strings.HasPrefix(call, "openat("):
			q := quoted(call)
			if len(q) == 0 || !strings.Contains(call, "O_CREAT") || !strings.Contains(call, "O_TRUNC") {
				continue
			}
			b, suf := suffixOf(q[0])
			if base == "" && suf == consts.IndexTmpFileSuffix {
				base = b
			}
			if n, ok := nameOf(q[0]); ok {
				add("create:" + n)
			}
		case base == "":
			continue
		case strings.HasPrefix(call, "write(") || strings.HasPrefix(call, "pwrite64("):
			if n, ok := nameOf(fdPath(call)); ok {
				add("write:" + n)
			}
		case strings.HasPrefix(call, "fsync(") || strings.HasPrefix(call, "fdatasync("):
			p := fdPath(call)
			if p == dir {
				add("syncdir")
			} else if n, ok := nameOf(p); ok {
				add("sync:" + n)
			}
		case strings.HasPrefix(call, "rename"):
			if q := quoted(call); len(q) == 2 {
				a, ok1 := nameOf(q[0])
				b, ok2 := nameOf(q[1])
				if ok1 && ok2 {
					add("rename:" + a + ">" + b)
				}
			}
		case strings.HasPrefix(call, "unlink"):
			if q := quoted(call); len(q) == 1 {
				if n, ok := nameOf(q[0]); ok {
					add("remove:" + n)
				}
			}
		}
	}
	return ops
}

// ---------------------------------------------------------------- bytespool.Writer

// scriptedWriter is the downstream io.Writer of the writer.bytes channel: the i-th call is answered by script[i]
// (-1 = take everything; k >= 0 = take k bytes and fail; with short = true report the k bytes without an error).
type scriptedWriter struct {
	script []int
	short  bool
	calls  int
	out    []byte
	log    []string // what each call was answered, in the driver's notation
}

func (w *scriptedWriter) Write(p []byte) (int, error) {
	a := -1
	if w.calls < len(w.script) {
		a = w.script[w.calls]
	}
	w.calls++
	if a < 0 || (a >= len(p) && w.short) {
		w.out = append(w.out, p...)
		w.log = append(w.log, "k")
		return len(p), nil
	}
	k := min(a, len(p))
	w.out = append(w.out, p[:k]...)
	w.log = append(w.log, fmt.Sprintf("e%d", k))
	if w.short {
		return k, nil
	}
	return k, errInjected
}

// writerCase drives the real bytespool.Writer (buffer capacity c) through the commands (n >= 0: Write of the next n
// bytes of 0,1,2,.. mod 251; -1: Flush) and renders request and answer of the `bwriter` driver command.
func writerCase(c int, cmds []int, script []int, short bool) (req, impl string) {
	down := &scriptedWriter{script: script, short: short}
	w := bytespool.AcquireWriterSize(down, 1)
	bytespool.Release(w.Buf)
	w.Buf = &bytespool.Buffer{B: make([]byte, 0, c)} // exactly this capacity (the pool rounds up)
	var cs, rs, as []string
	pos := 0
	for _, n := range cmds {
		if n < 0 {
			cs = append(cs, "f")
			rs = append(rs, vh.B(w.Flush() == nil))
			continue
		}
		b := make([]byte, n)
		for i := range b {
			b[i] = byte((pos + i) % 251)
		}
		pos += n
		got, err := w.Write(b)
		cs = append(cs, fmt.Sprintf("w%d", n))
		rs = append(rs, fmt.Sprintf("%d:%s", got, vh.B(err == nil)))
	}
	as = down.log // the answers actually given (a scripted failure beyond the last call never happened)
	if len(as) == 0 {
		as = []string{"-"}
	}
	return fmt.Sprintf("bwriter %d %s %s", c, strings.Join(cs, ","), strings.Join(as, ",")),
		fmt.Sprintf("ok %s out=%s buf=%d", strings.Join(rs, ","), vh.Hex(down.out), len(w.Buf.B))
}

func (h *harness) writerChannel(rng *vh.RNG) {
	add := func(c int, cmds, script []int, short bool) {
		req, impl := writerCase(c, cmds, script, short)
		fails := 0
		for _, a := range script {
			if a >= 0 {
				fails++
			}
		}
		h.chWriter.Add(req, impl, len(cmds) > 1, fmt.Sprintf("cap=%d", min(c, 9)), fmt.Sprintf("failures=%d", min(fails, 2)), "short="+vh.B(short))
	}
	// small scope: capacities 1..4, every sequence of up to 3 commands over lengths {0,1,c-1,c,c+1,2c+1} and Flush, ending
	// in a Flush; downstream all ok, or failing its j-th call after 0 or 1 bytes
	for c := 1; c <= 4; c++ {
		lens := []int{-1, 0, 1, c - 1, c, c + 1, 2*c + 1}
		var rec func(cur []int)
		rec = func(cur []int) {
			if len(cur) > 0 {
				full := append(append([]int(nil), cur...), -1)
				add(c, full, nil, false)
				for j := 0; j < 3; j++ {
					for _, k := range []int{0, 1} {
						script := make([]int, j+1)
						for i := range script {
							script[i] = -1
						}
						script[j] = k
						add(c, full, script, false)
						if k == 1 && j == 0 {
							add(c, full, script, true)
						}
					}
				}
			}
			if len(cur) == 3 {
				return
			}
			for _, l := range lens {
				if l >= -1 {
					rec(append(cur, l))
				}
			}
		}
		rec(nil)
	}
	// random beyond: capacities up to 64, up to 14 commands, lengths up to 3c, several failures
	for i := 0; i < h.o.Pick(1500, 20000); i++ {
		c := rng.Range(1, 64)
		var cmds, script []int
		for j := rng.Range(2, 14); j > 0; j-- {
			switch {
			case rng.Chance(1, 6):
				cmds = append(cmds, -1)
			case rng.Chance(1, 3):
				cmds = append(cmds, rng.Range(max(0, c-2), c+2))
			default:
				cmds = append(cmds, rng.Range(0, 3*c))
			}
		}
		cmds = append(cmds, -1)
		for j := rng.Range(0, 8); j > 0; j-- {
			if rng.Chance(1, 4) {
				script = append(script, rng.Range(0, c))
			} else {
				script = append(script, -1)
			}
		}
		add(c, cmds, script, rng.Chance(1, 5))
	}
}

// sdocsSmallBuffer: the sorted-docs writer over a bytespool.Writer with a small buffer, so that document blocks straddle
// the buffer boundary: the recorded block offsets must be the positions of the blocks in the output, and a failing
// downstream write (every k) must surface as an error.
func (h *harness) sdocsSmallBuffer(n int, seed int64) {
	work, _ := os.MkdirTemp(h.work, "sb")
	defer os.RemoveAll(work)
	e := newActive(work, seed, n, false, false)
	defer e.stop()
	for _, bufSize := range []int{64, 257, 1000, 4096, 100000} {
		out := &scriptedWriter{}
		offsets, err, panicked := frac.VerifC08SortedDocsBlocks(e.active, sealParams, out, bufSize)
		key := fmt.Sprintf("sdocsbuf n=%d seed=%d buf=%d", n, seed, bufSize)
		if err != nil || panicked != "" {
			h.orOffsets.Error = fmt.Sprintf("%s: fault-free run failed: %v %s", key, err, panicked)
			return
		}
		bad := ""
		pos := uint64(0)
		for i, off := range offsets {
			if off != pos || off+disk.DocBlockHeaderLen > uint64(len(out.out)) {
				bad = fmt.Sprintf("block %d of %d is recorded at offset %d, it starts at byte %d of the output", i, len(offsets), off, pos)
				break
			}
			pos += disk.DocBlock(out.out[off:]).FullLen()
		}
		if bad == "" && pos != uint64(len(out.out)) {
			bad = fmt.Sprintf("the %d blocks cover %d bytes, the output has %d", len(offsets), pos, len(out.out))
		}
		h.orOffsets.Case(key, out.calls > 1, fmt.Sprintf("buf=%d", bufSize), "ok="+vh.B(bad == ""), fmt.Sprintf("downstream-writes>1=%s", vh.B(out.calls > 1)))
		if bad != "" {
			h.rep.Violate(vh.Violation{Site: "frac/active_sealer.go:flushBlock", Class: "block-offsets-differ-from-output",
				What: fmt.Sprintf("sorted-docs writer with a %d-byte writer buffer (%d downstream writes): %s", bufSize, out.calls, bad), Replay: []string{key}})
			continue
		}
		// a failure of any single downstream write must be reported
		total := out.calls
		step := max(1, total/h.o.Pick(12, 60))
		for k := 0; k < total; k += step {
			script := make([]int, k+1)
			for i := range script {
				script[i] = -1
			}
			script[k] = 0
			fw := &scriptedWriter{script: script}
			_, err, panicked := frac.VerifC08SortedDocsBlocks(e.active, sealParams, fw, bufSize)
			fk := fmt.Sprintf("sdocsbuf n=%d seed=%d buf=%d fail=%d", n, seed, bufSize, k+1)
			h.orSdocs.Case(fk, true, "fired=1", "err="+vh.B(err != nil), "panicked="+vh.B(panicked != ""))
			if err == nil && panicked == "" {
				h.rep.Violate(vh.Violation{Site: "bytespool/writer.go:Write", Class: "sdocs-write-error-swallowed",
					What: fmt.Sprintf("sorted-docs writer with a %d-byte writer buffer: downstream write %d of %d failed, writeDocsInOrder and the release of the writer reported nothing", bufSize, k+1, total), Replay: []string{fk}})
				break
			}
		}
	}
}

type failingWriter struct {
	calls, failAt int
	fired         bool
}

func (w *failingWriter) Write(p []byte) (int, error) {
	w.calls++
	if w.calls == w.failAt {
		w.fired = true
		return 0, errInjected
	}
	return len(p), nil
}

func (h *harness) crashSweep(skip, keep bool, n int, seed int64, rng *vh.RNG, keepTemplates bool) {
	work, _ := os.MkdirTemp(h.work, "cs")
	if !keepTemplates {
		defer os.RemoveAll(work)
	}
	base, snaps, err := sealWithSnapshots(work, seed, n, skip, keep)
	if err != nil {
		h.chTrace.Error = err.Error()
		return
	}
	var ops []string
	for _, s := range snaps[1:] {
		ops = append(ops, s.op)
	}
	cfgTag := fmt.Sprintf("skip=%s,keep=%s", vh.B(skip), vh.B(keep))
	plan := "1,2,2,2,2,6,2" // any fault-free plan gives the same file-level trace
	h.chTrace.Add(fmt.Sprintf("seal src %s %s %s - -", vh.B(skip), vh.B(keep), plan), "ok 1 trace="+strings.Join(ops, ";"), true, cfgTag)
	var states []string
	synced := map[string]bool{} // sealing outputs (model names) that were fsynced since their last write
	for i, s := range snaps {
		res := runChild(s.dir, seed, n, skip, keep)
		states = append(states, presence(s.listing)+":"+res.served)
		key := fmt.Sprintf("crash skip=%s keep=%s n=%d seed=%d point=%d(%s) torn=-", vh.B(skip), vh.B(keep), n, seed, i, s.op)
		h.orCrash.Case(key, i > 0 && i < len(snaps)-1, cfgTag, "served="+res.served, "after="+strings.SplitN(s.op, ":", 2)[0])
		if res.served != "all" {
			h.rep.Violate(vh.Violation{Site: "frac/active_sealer.go:Seal", Class: "crash-point-loses-documents",
				What:   fmt.Sprintf("restart from the directory as it is after %q (files %s) serves %q: %s", s.op, s.listing, res.served, res.detail),
				Replay: []string{key}})
		}
		// the restart is not the end of the story: the fraction (if it came back as an active one) is sealed again, over
		// whatever the interrupted seal left behind, and the store restarted once more
		{
			rd := s.dir + "-reseal"
			copyFraction(s.dir, base, rd)
			r1 := runChild(rd, seed, n, skip, keep, "reseal")
			r2 := childResult{served: "-"}
			if r1.served == "all" {
				r2 = runChild(rd, seed, n, skip, keep)
			}
			key := fmt.Sprintf("reseal skip=%s keep=%s n=%d seed=%d point=%d(%s)", vh.B(skip), vh.B(keep), n, seed, i, s.op)
			h.orReseal.Case(key, i > 0 && i < len(snaps)-1, cfgTag, "after="+strings.SplitN(s.op, ":", 2)[0], "served="+r1.served+"/"+r2.served)
			if r1.served != "all" || r2.served != "all" {
				h.rep.Violate(vh.Violation{Site: "frac/active_sealer.go:Seal", Class: "reseal-after-crash-fails",
					What: fmt.Sprintf("crash after %q (files %s), restart, then rotate + seal of the replayed fraction: the sealing process serves %q (%s); the restart after it serves %q (%s)",
						s.op, s.listing, r1.served, r1.detail, r2.served, r2.detail), Replay: []string{key}})
			}
			os.RemoveAll(rd)
		}
		// torn files: every sealing output that exists but was not fsynced since it was last written may be cut at any
		// length by the crash (on the unchanged code these are exactly the temporary files)
		switch f := strings.SplitN(s.op, ":", 2); f[0] {
		case "create", "write":
			synced[f[1]] = false
		case "sync":
			synced[f[1]] = true
		case "rename":
			ft := strings.SplitN(f[1], ">", 2)
			synced[ft[1]] = synced[ft[0]]
			delete(synced, ft[0])
		}
		for _, suf := range []string{consts.SdocsTmpFileSuffix, consts.IndexTmpFileSuffix, consts.SdocsFileSuffix, consts.IndexFileSuffix} {
			p := filepath.Join(s.dir, base+suf)
			st, err := os.Stat(p)
			if err != nil || st.Size() == 0 || synced[sufName[suf]] {
				continue
			}
			lens := []int64{0, st.Size() / 2, st.Size() - 1}
			if !h.o.Thorough() {
				lens = []int64{int64(rng.Intn(int(st.Size())))}
			}
			for _, l := range lens {
				td := s.dir + fmt.Sprintf("-torn%s-%d", suf, l)
				copyFraction(s.dir, base, td)
				os.Truncate(filepath.Join(td, base+suf), l)
				r2 := runChild(td, seed, n, skip, keep)
				key := fmt.Sprintf("crash skip=%s keep=%s n=%d seed=%d point=%d(%s) torn=%s@%d", vh.B(skip), vh.B(keep), n, seed, i, s.op, suf, l)
				h.orCrash.Case(key, true, cfgTag, "served="+r2.served, "torn="+suf)
				if r2.served != "all" {
					site, class := "fracmanager/loader.go:load", "torn-temporary-file-loses-documents"
					if suf == consts.SdocsFileSuffix || suf == consts.IndexFileSuffix {
						site, class = "frac/active_sealer.go:syncRename", "file-published-before-fsync"
					}
					h.rep.Violate(vh.Violation{Site: site, Class: class,
						What: fmt.Sprintf("restart after %q with the not yet fsynced %s cut to %d bytes serves %q: %s", s.op, suf, l, r2.served, r2.detail), Replay: []string{key}})
				}
				os.RemoveAll(td)
			}
		}
	}
	h.chCrash.Add(fmt.Sprintf("crash src %s %s %s - - faaaaaaaf", vh.B(skip), vh.B(keep), plan), "ok "+strings.Join(states, ";"), true, cfgTag)
	if keepTemplates {
		h.tplDir, h.tplBase = filepath.Join(work, "tpl"), base
		os.MkdirAll(h.tplDir, 0o755)
		first, last := snaps[0].dir, snaps[len(snaps)-1].dir
		copyFile(filepath.Join(first, base+consts.DocsFileSuffix), filepath.Join(h.tplDir, "docs"))
		copyFile(filepath.Join(first, base+consts.MetaFileSuffix), filepath.Join(h.tplDir, "meta"))
		copyFile(filepath.Join(last, base+consts.SdocsFileSuffix), filepath.Join(h.tplDir, "sdocs"))
		copyFile(filepath.Join(last, base+consts.IndexFileSuffix), filepath.Join(h.tplDir, "index"))
	}
}

// presence maps a listing (a/e/f per file) to the model's state rendering restricted to what can be observed:
// the model prints contents, the implementation only sees presence, so both sides are reduced to a / p.
func presence(l string) string {
	return strings.Map(func(r rune) rune {
		if r == 'a' {
			return 'a'
		}
		return 'p'
	}, l)
}

// ---------------------------------------------------------------- loader correspondence

// tplFor gives the template file that holds valid contents for a suffix index (order of `suffixes`).
var tplFor = []string{"docs", "docs", "sdocs", "sdocs", "sdocs", "index", "index", "index", "meta"}

type loadCase struct {
	fs   string // nine chars a/e/f
	impl string
}

func (h *harness) loadOne(fs string) string {
	d, _ := os.MkdirTemp(h.work, "ld")
	defer os.RemoveAll(d)
	base := fracPrefix + "01C08LOADER0000000000000000"
	for i, c := range fs {
		p := filepath.Join(d, base+suffixes[i])
		switch c {
		case 'e':
			os.WriteFile(p, nil, 0o644)
		case 'f':
			copyFile(filepath.Join(h.tplDir, tplFor[i]), p)
		}
	}
	res := runChild(d, 0, 0, false, false)
	loaded := "none"
	if !res.up {
		loaded = "down"
	}
	for _, k := range res.kinds {
		f := strings.Fields(k)
		if len(f) == 2 && f[0] == base {
			loaded = f[1]
		}
	}
	return fmt.Sprintf("ok %s left=%s", loaded, listing(d, base))
}

func (h *harness) loaderChannel(rng *vh.RNG) {
	var cases []string
	nonTmp := []int{0, 1, 2, 4, 5, 7, 8}
	gen := func(alpha string, tmp string) {
		k := len(alpha)
		total := 1
		for range nonTmp {
			total *= k
		}
		for m := 0; m < total; m++ {
			b := []byte("aaaaaaaaa")
			x := m
			for _, i := range nonTmp {
				b[i] = alpha[x%k]
				x /= k
			}
			b[3], b[6] = tmp[0], tmp[1]
			cases = append(cases, string(b))
		}
	}
	h.chLoad.Exhaustive = h.o.Thorough()
	if h.o.Thorough() {
		gen("aef", "aa") // all 3^7
		gen("af", "ff")  // all 2^7 with both temporary files present
		gen("af", "ee")
	} else {
		gen("af", "aa")           // all 2^7 with valid contents
		gen("ae", "aa")           // all 2^7 with empty files
		for i := 0; i < 40; i++ { // a sample of mixed contents with temporary files around
			b := []byte("aaaaaaaaa")
			for j := range b {
				b[j] = "aef"[rng.Intn(3)]
			}
			cases = append(cases, string(b))
		}
	}
	impl := make([]string, len(cases))
	var wg sync.WaitGroup
	sem := make(chan struct{}, 8)
	for i, c := range cases {
		wg.Add(1)
		sem <- struct{}{}
		go func(i int, c string) {
			defer wg.Done()
			defer func() { <-sem }()
			impl[i] = h.loadOne(c)
		}(i, c)
	}
	wg.Wait()
	for i, c := range cases {
		loaded := strings.Fields(impl[i])[1]
		h.chLoad.Add("load "+c, impl[i], strings.ContainsAny(c, "ef"), "loaded="+loaded)
	}
}

func parseKV(line string) map[string]string {
	m := map[string]string{}
	for _, f := range strings.Fields(line) {
		if i := strings.IndexByte(f, '='); i > 0 {
			m[f[:i]] = f[i+1:]
		}
	}
	return m
}

func main() {
	if len(os.Args) > 1 && os.Args[1] == "child" {
		childMain(os.Args[2:])
		return
	}
	if len(os.Args) > 1 && os.Args[1] == "multisealchild" {
		multiSealChildMain(os.Args[2:])
		return
	}
	if len(os.Args) > 1 && os.Args[1] == "sealchild" {
		sealChildMain(os.Args[2:])
		return
	}
	o := vh.ParseFlags()
	logger.SetLevel(zapcore.FatalLevel)
	rep := vh.NewReport("C08", o)
	work, err := os.MkdirTemp("", "verif-c08-")
	if err != nil {
		fmt.Fprintln(os.Stderr, err)
		os.Exit(3)
	}
	defer os.RemoveAll(work)
	h := &harness{o: o, rep: rep, work: work,
		chLoad:    vh.NewChannel("loader.startup", "real FracManager.Load in a child process on one fraction's directory vs SV.FileSet.startup: loaded kind (none/active/sealed/down) and the files left; quick: all 2^7 presence combinations of the non-temporary files with valid and with empty contents plus mixed samples, thorough: all 3^7 (absent/empty/valid) and all 2^7 with temporary files present; non-trivial = at least one file present"),
		chTrace:   vh.NewChannel("seal.trace", "file operations of proxyFrac.Seal (rotate + frac.Seal + Active.Release through FracManager) observed at the fileop.* points vs SV.SealOps.sealTrace, for the four SkipSortDocs x KeepMetaFile settings"),
		chCrash:   vh.NewChannel("seal.crash", "per point of the seal: which of the nine files exist in the snapshot and what a restart (child process: Load, search every group, fetch every document) serves vs the model state after the same prefix and SV.FileSet.served"),
		chFault:   vh.NewChannel("seal.fault", "writeSealedFraction on an io.WriteSeeker whose k-th Seek/Write fails (k = 0..all+1; once, and from k on) vs SV.SealOps.writeIndex with the extracted generator facts and the section sizes measured on the fault-free run: result, calls issued, whether an error was dropped; non-trivial = the fault fired"),
		orCrash:   vh.NewOracle("crash.restart", "restart from the directory as it is at every file-operation boundary of sealing and release must serve every document - also with every sealing output that exists but was not fsynced since its last write cut short (quick: one random length, thorough: 0 / half / all-but-one byte); non-trivial = a point strictly inside the seal or a torn variant"),
		orFault:   vh.NewOracle("fault.restart", "after writeSealedFraction ran on an output whose k-th call failed, the harness does what frac.Seal/proxyFrac.Seal do next (error: nothing; nil: syncRename, directory sync, Active.Release) and restarts: every document must be served; quick: every k whose error was dropped (up to 6) + every 5th k, thorough: every k, once and persistent; non-trivial = the fault fired"),
		orFull:    vh.NewOracle("seal.diskfull", "the real rotate + proxyFrac.Seal in a child process whose RLIMIT_FSIZE is lowered before the seal, so that every write growing a file beyond the limit fails (EFBIG) - limits spread from 16 bytes to the size of the largest sealed file; then a restart must serve every document; non-trivial = the seal failed"),
		orOverlap: vh.NewOracle("seal.overlap", "two fractions sealed with the real frac.Seal, the second completely inside the window in which the first has returned from writeSortedDocs but not yet written its first index block (forced at the seal.sec point); after Release of both and a restart every document of both must be searchable and fetchable"),
		orReseal:  vh.NewOracle("crash.reseal", "from the directory as it is at every file-operation boundary of sealing and release: restart, rotate and seal the fraction again if it was replayed as active (over the temporary files and the .sdocs the interrupted seal left), search and fetch everything, restart once more and search and fetch again - every document must be served both times and no process may die; non-trivial = a point strictly inside the seal"),
		chWriter:  vh.NewChannel("writer.bytes", "the real bytespool.Writer (buffer capacity set exactly) over a scripted downstream io.Writer (each call: everything taken / error after k bytes / short write of k bytes) vs SV.BufWriter.exec: result of every Write (n, error) and Flush, the bytes delivered downstream, the buffer fill; exhaustive for capacities 1..4 over all sequences of up to 3 commands with lengths {0,1,c-1,c,c+1,2c+1} and one downstream failure in each of the first 3 calls, random beyond (capacity <= 64, <= 14 commands, several failures); non-trivial = more than one command"),
		orOffsets: vh.NewOracle("sdocs.offsets", "the sorted-docs writer (real docBlocksWriter + bytespool.Writer) with writer buffers of 64 B .. 100 kB, so that blocks straddle the buffer boundary: every recorded block offset is the byte position at which that block starts in the output and the blocks cover the output exactly; non-trivial = more than one downstream write"),
		orBig:     vh.NewOracle("seal.big", "a fraction whose compressed sorted docs exceed the 32 MiB writer buffer (incompressible 4 KiB documents), sealed through the real FracManager in a child, restarted, every document searched and fetched; non-trivial = .sdocs larger than 32 MiB"),
		orConc:    vh.NewOracle("seal.concurrent", "k wide fractions of different sizes filled one after the other, each rotated out and sealed in its own goroutine immediately (as the maintenance loop does), so the sealings overlap; after they finished and a restart every document of every fraction is searched (by group, by unique token, by its own fields) and fetched"),
		orSync:    vh.NewOracle("seal.syncfault", "the real rotate + proxyFrac.Seal in a child process in which one seal output (._index, ._sdocs) cannot be fsynced (pre-created as a symlink to /dev/null: writes succeed, fsync returns EINVAL): the seal must fail, the output must not get its final name, and a restart must serve every document"),
		orSys:     vh.NewOracle("seal.syscalls.order", "durable before visible on the system calls of a real seal (child under strace, independent of the hook points): every rename of a temporary seal output to its final name is directly preceded - as far as that file is concerned - by its fsync"),
		chSys:     vh.NewChannel("seal.syscalls", "the open(O_CREAT|O_TRUNC)/write/fsync/rename/unlink system calls on the sealed fraction's files and the fsync of the data directory, read off an strace of a child that rotates and seals through FracManager, vs SV.SealOps.sealTrace"),
		orSdocs:   vh.NewOracle("sdocs.fault", "writeDocsInOrder on an io.Writer whose k-th write fails must return an error (or panic in the deferred release); non-trivial = the fault fired"),
	}
	rng := vh.NewRNG(o.Seed)
	if o.Replay != "" {
		lines, err := vh.ReadReplay(o.Replay)
		if err != nil {
			fmt.Fprintln(os.Stderr, err)
			os.Exit(3)
		}
		for _, l := range lines {
			kv := parseKV(l)
			atoi := func(k string) int { v, _ := strconv.Atoi(kv[k]); return v }
			seed, _ := strconv.ParseInt(kv["seed"], 10, 64)
			switch {
			case strings.HasPrefix(l, "fault "):
				h.faultRestart(faultCase{kv["skip"] == "1", kv["keep"] == "1", atoi("n"), seed, atoi("k"), kv["persistent"] == "1"})
			case strings.HasPrefix(l, "crash "), strings.HasPrefix(l, "reseal "):
				h.crashSweep(kv["skip"] == "1", kv["keep"] == "1", atoi("n"), seed, rng, false)
			case strings.HasPrefix(l, "concurrent "):
				h.concurrentSeals(atoi("k"), atoi("n"), seed)
			case strings.HasPrefix(l, "bigseal "):
				h.bigSeal(atoi("n"), atoi("pad"), seed)
			case strings.HasPrefix(l, "sdocsbuf "):
				h.sdocsSmallBuffer(atoi("n"), seed)
			case strings.HasPrefix(l, "bwriter "):
				h.chWriter.Add(l, "replay", true)
			case strings.HasPrefix(l, "syncfault "):
				h.syncFault(kv["skip"] == "1", atoi("n"), seed, kv["suffix"])
			case strings.HasPrefix(l, "syscalls "):
				h.syscalls(kv["skip"] == "1", kv["keep"] == "1", atoi("n"), seed)
			case strings.HasPrefix(l, "overlap "):
				sa, _ := strconv.ParseInt(kv["seedA"], 10, 64)
				sb, _ := strconv.ParseInt(kv["seedB"], 10, 64)
				h.overlap(atoi("n"), sa, sb)
			case strings.HasPrefix(l, "diskfull "):
				lim, _ := strconv.ParseUint(kv["limit"], 10, 64)
				h.diskFull(kv["skip"] == "1", kv["keep"] == "1", atoi("n"), seed, lim)
			case strings.HasPrefix(l, "sdocsfault "):
				h.faultSweep(false, false, atoi("n"), seed, false)
			case strings.HasPrefix(l, "load "):
				if h.tplDir == "" {
					h.crashSweep(false, false, 300, 1, rng, true)
				}
				f := strings.Fields(l)
				h.chLoad.Add("load "+f[1], h.loadOne(f[1]), true)
			}
		}
	} else {
		n := o.Pick(1500, 9000)
		seed := o.Seed
		only := func(name string) bool { return o.Only == "" || o.Only == name }
		if only("crash") || only("load") {
			h.crashSweep(false, false, n, seed, rng, true)
		}
		if only("crash") {
			h.crashSweep(false, true, o.Pick(400, 1500), seed+1, rng, false)
			h.crashSweep(true, false, o.Pick(400, 1500), seed+2, rng, false)
			h.crashSweep(true, true, o.Pick(400, 1500), seed+3, rng, false)
		}
		if only("crash") {
			// a wide fraction: thousands of field names, the token table spans several index blocks; every restart
			// searches by the fields of a sample of documents
			os.Setenv("VERIF_WIDE", "1")
			h.crashSweep(false, false, o.Pick(400, 1200), seed+9, rng, false)
			// the same with a skewed field: 20000 short values followed by a sorted run of 3200 values of 70 bytes
			os.Setenv("VERIF_SKEW", "1")
			h.crashSweep(true, false, 400, seed+11, rng, false)
			os.Unsetenv("VERIF_SKEW")
			os.Unsetenv("VERIF_WIDE")
		}
		if only("concurrent") {
			for i := 0; i < o.Pick(2, 6); i++ {
				h.concurrentSeals(o.Pick(5, 6), o.Pick(500, 1500), seed+80+int64(10*i))
			}
		}
		if only("load") {
			h.loaderChannel(rng)
		}
		if only("overlap") {
			for i := 0; i < o.Pick(2, 6); i++ {
				h.overlap(o.Pick(300, 1200)+97*i, seed+20+int64(2*i), seed+21+int64(2*i))
			}
		}
		if only("writer") {
			h.writerChannel(rng)
			h.sdocsSmallBuffer(o.Pick(400, 3000), seed+60)
		}
		if only("big") {
			h.bigSeal(14000, 4096, seed+70)
		}
		if only("syncfault") {
			h.syncFault(false, o.Pick(300, 900), seed+30, consts.IndexTmpFileSuffix)
			h.syncFault(false, o.Pick(300, 900), seed+31, consts.SdocsTmpFileSuffix)
			h.syncFault(true, o.Pick(300, 900), seed+32, consts.IndexTmpFileSuffix)
		}
		if only("syscalls") {
			h.syscalls(false, false, o.Pick(300, 1500), seed+40)
			h.syscalls(true, false, o.Pick(300, 1500), seed+41)
			if o.Thorough() {
				h.syscalls(false, true, 700, seed+42)
				h.syscalls(true, true, 700, seed+43)
			}
		}
		if only("diskfull") {
			h.diskFullSweep(false, false, o.Pick(800, 3000), seed+6, o.Pick(8, 40))
			h.diskFullSweep(true, false, o.Pick(800, 3000), seed+7, o.Pick(5, 25))
		}
		if only("fault") {
			h.faultSweep(false, false, n, seed+4, false)
			h.faultSweep(true, false, o.Pick(600, 5000), seed+5, false)
			// a fraction whose `_all_` token has more postings than consts.LIDBlockCap: its LID list spans two blocks
			h.faultSweep(true, false, consts.LIDBlockCap+o.Pick(4500, 70000), seed+8, true)
		}
	}
	for _, c := range []*vh.Channel{h.chLoad, h.chTrace, h.chCrash, h.chFault, h.chSys, h.chWriter} {
		rep.AddChannel(c, o.Driver)
	}
	rep.AddOracle(h.orCrash)
	rep.AddOracle(h.orFault)
	rep.AddOracle(h.orFull)
	rep.AddOracle(h.orOverlap)
	rep.AddOracle(h.orSync)
	rep.AddOracle(h.orReseal)
	rep.AddOracle(h.orOffsets)
	rep.AddOracle(h.orBig)
	rep.AddOracle(h.orConc)
	rep.AddOracle(h.orSys)
	rep.AddOracle(h.orSdocs)
	sort.SliceStable(rep.Violations, func(i, j int) bool { return rep.Violations[i].Site < rep.Violations[j].Site })
	rep.Write(o.Out)
}
