// C19 harness.
//
//	codec   : QPR -> json.Marshal -> zstd -> Decompress -> json.Unmarshal (the per-fraction result file of the
//	          async searcher) against the model's key codec (SV.Async.roundtrip): IDs, histogram, aggregation bins
//	          with tokens containing '|', MIDs up to 2^64-1 (channel qpr.codec)
//	fetch   : the real AsyncSearcher.FetchSearchResult over crafted result files against SV.Async.fetchFold
//	          (channel async.fetch); nil-map panics are observations
//	sys     : system oracle in child processes: a real FracManager + AsyncSearcher; the search is started, the
//	          process is killed by the verif hook after the k-th atomic write (or just before its rename), a second
//	          process restarts on the same directory and waits for Done; FetchSearchResult must equal the synchronous
//	          Searcher.SearchDocs over the same fractions with the same parameters (ids, histogram, count/sum aggs).
//
// Every case is one op line (driver request = replay format).
package main

import (
	"bufio"
	"context"
	"encoding/json"
	"fmt"
	"math"
	"os"
	"os/exec"
	"path/filepath"
	"runtime"
	"sort"
	"strconv"
	"strings"
	"time"
	"unicode/utf8"

	"go.uber.org/zap"

	"github.com/ozontech/seq-db/consts"
	"github.com/ozontech/seq-db/frac"
	"github.com/ozontech/seq-db/frac/processor"
	"github.com/ozontech/seq-db/fracmanager"
	"github.com/ozontech/seq-db/logger"
	"github.com/ozontech/seq-db/mappingprovider"
	"github.com/ozontech/seq-db/parser"
	pb "github.com/ozontech/seq-db/pkg/storeapi"
	"github.com/ozontech/seq-db/proxy/bulk"
	"github.com/ozontech/seq-db/seq"
	"github.com/ozontech/seq-db/storeapi"
	"github.com/ozontech/seq-db/verifhook"
	"github.com/ozontech/seq-db/zstd"

	"verifharness/internal/vh"
)

// ---------------------------------------------------------------- canonical text
// QPR text: <ids>/<total>/<hist>/<aggs>   ids = mid:rid,...   hist = nil | - | k=v,...
// aggs = nil | agg&agg&...   agg = <notExists>#<bin>+<bin>...   bin = <mid>~<hex token>~<total>~<notExists>

func fmtIDs(ids seq.IDSources) string {
	if len(ids) == 0 {
		return "-"
	}
	var sb strings.Builder
	for i, id := range ids {
		if i > 0 {
			sb.WriteByte(',')
		}
		fmt.Fprintf(&sb, "%d:%d", uint64(id.ID.MID), uint64(id.ID.RID))
	}
	return sb.String()
}

func fmtHist(h map[seq.MID]uint64) string {
	if h == nil {
		return "nil"
	}
	if len(h) == 0 {
		return "-"
	}
	ks := make([]uint64, 0, len(h))
	for k := range h {
		ks = append(ks, uint64(k))
	}
	sort.Slice(ks, func(i, j int) bool { return ks[i] < ks[j] })
	var parts []string
	for _, k := range ks {
		parts = append(parts, fmt.Sprintf("%d=%d", k, h[seq.MID(k)]))
	}
	return strings.Join(parts, ",")
}

func fmtAggs(aggs []seq.AggregatableSamples) string {
	if aggs == nil {
		return "nil"
	}
	var as []string
	for _, a := range aggs {
		var bins []string
		for bin, h := range a.SamplesByBin {
			bins = append(bins, fmt.Sprintf("%d~%s~%d~%d", uint64(bin.MID), vh.Hex([]byte(bin.Token)), h.Total, h.NotExists))
		}
		sort.Strings(bins)
		as = append(as, fmt.Sprintf("%d#%s", a.NotExists, vh.JoinStrs(bins, "+")))
	}
	return vh.JoinStrs(as, "&")
}

func fmtQPR(q *seq.QPR) string {
	return fmtIDs(q.IDs) + "/" + strconv.FormatUint(q.Total, 10) + "/" + fmtHist(q.Histogram) + "/" + fmtAggs(q.Aggs)
}

func splitList(s, sep string) []string {
	if s == "-" || s == "" {
		return nil
	}
	return strings.Split(s, sep)
}

func atou(s string) uint64 {
	v, err := strconv.ParseUint(s, 10, 64)
	if err != nil {
		panic("bad uint " + s)
	}
	return v
}

func atoi(s string) int {
	v, err := strconv.Atoi(s)
	if err != nil {
		panic("bad int " + s)
	}
	return v
}

func unhex(s string) string {
	if s == "-" {
		return ""
	}
	var b []byte
	for i := 0; i+1 < len(s); i += 2 {
		v, _ := strconv.ParseUint(s[i:i+2], 16, 8)
		b = append(b, byte(v))
	}
	return string(b)
}

func parseQPR(s string) *seq.QPR {
	p := strings.Split(s, "/")
	q := &seq.QPR{}
	for _, e := range splitList(p[0], ",") {
		mr := strings.Split(e, ":")
		q.IDs = append(q.IDs, seq.IDSource{ID: seq.ID{MID: seq.MID(atou(mr[0])), RID: seq.RID(atou(mr[1]))}})
	}
	q.Total = atou(p[1])
	if p[2] != "nil" {
		q.Histogram = map[seq.MID]uint64{}
		for _, e := range splitList(p[2], ",") {
			kv := strings.Split(e, "=")
			q.Histogram[seq.MID(atou(kv[0]))] = atou(kv[1])
		}
	}
	if len(p) > 3 && p[3] != "nil" {
		q.Aggs = []seq.AggregatableSamples{}
		for _, a := range splitList(p[3], "&") {
			nb := strings.SplitN(a, "#", 2)
			agg := seq.AggregatableSamples{SamplesByBin: map[seq.AggBin]*seq.SamplesContainer{}}
			ne, _ := strconv.ParseInt(nb[0], 10, 64)
			agg.NotExists = ne
			for _, b := range splitList(nb[1], "+") {
				f := strings.Split(b, "~")
				t, _ := strconv.ParseInt(f[2], 10, 64)
				n, _ := strconv.ParseInt(f[3], 10, 64)
				agg.SamplesByBin[seq.AggBin{MID: seq.MID(atou(f[0])), Token: unhex(f[1])}] = &seq.SamplesContainer{Total: t, NotExists: n}
			}
			q.Aggs = append(q.Aggs, agg)
		}
	}
	return q
}

func order(desc bool) seq.DocsOrder {
	if desc {
		return seq.DocsOrderDesc
	}
	return seq.DocsOrderAsc
}

// ---------------------------------------------------------------- codec channel

// the bytes processFrac writes and FetchSearchResult reads
func encodeFile(q *seq.QPR) ([]byte, error) {
	raw, err := json.Marshal(q)
	if err != nil {
		return nil, err
	}
	return zstd.CompressLevel(raw, nil, 3), nil
}

func decodeFile(b []byte) (*seq.QPR, error) {
	raw, err := zstd.Decompress(b, nil)
	if err != nil {
		return nil, err
	}
	var q seq.QPR
	if err := json.Unmarshal(raw, &q); err != nil {
		return nil, err
	}
	return &q, nil
}

func runCodec(line string) (res string) {
	defer func() {
		if r := recover(); r != nil {
			res = "panic " + strings.ReplaceAll(fmt.Sprint(r), " ", "_")
		}
	}()
	q := parseQPR(strings.Fields(line)[1])
	b, err := encodeFile(q)
	if err != nil {
		return "err encode"
	}
	q2, err := decodeFile(b)
	if err != nil {
		return "err decode"
	}
	return "ok " + fmtQPR(q2)
}

// ---------------------------------------------------------------- fetch channel

type mapping struct{}

func (mapping) GetMapping() seq.Mapping { return seq.TestMapping }

// fetch <desc> <histInterval of the request> <qpr;qpr;...> : files named a,b,c,... in this order (the glob order)
func runFetch(line string) (res string) {
	f := strings.Fields(line)
	dir, err := os.MkdirTemp("", "c19fetch")
	if err != nil {
		return "err tmp"
	}
	defer os.RemoveAll(dir)
	defer func() {
		if r := recover(); r != nil {
			if strings.Contains(fmt.Sprint(r), "nil map") {
				res = "panic nil-map"
			} else {
				res = "panic " + strings.ReplaceAll(fmt.Sprint(r), " ", "_")
			}
		}
	}()
	info := map[string]any{"Done": true, "Request": map[string]any{"ID": "req", "Query": "service:a",
		"Params": map[string]any{"Order": order(f[1] == "1"), "HistInterval": atou(f[2])}}, "Fractions": []any{}}
	ib, _ := json.Marshal(info)
	if err := os.WriteFile(filepath.Join(dir, "req.info"), ib, 0o644); err != nil {
		return "err write"
	}
	for i, qs := range splitList(f[3], ";") {
		b, err := encodeFile(parseQPR(qs))
		if err != nil {
			return "err encode"
		}
		name := fmt.Sprintf("req.frac-%c.qpr", 'a'+i)
		if err := os.WriteFile(filepath.Join(dir, name), b, 0o644); err != nil {
			return "err write"
		}
	}
	as := fracmanager.MustStartAsync(fracmanager.AsyncSearcherConfig{DataDir: dir, Parallelism: 1}, mapping{}, nil)
	resp, ok := as.FetchSearchResult(fracmanager.FetchSearchResultRequest{ID: "req"})
	if !ok {
		return "err not-found"
	}
	if resp.Order != order(f[1] == "1") || resp.HistInterval != atou(f[2]) {
		return "err order-or-interval"
	}
	return "ok " + fmtQPR(&resp.QPR)
}

// ---------------------------------------------------------------- generators

type gen struct{ r *vh.RNG }

func (g gen) token() string {
	alpha := []string{"a", "b", "|", "||", "x|y", "1|2", "", "é", "\"", "\\", " ", "-5", "0"}
	n := g.r.Intn(3)
	s := ""
	for i := 0; i <= n; i++ {
		s += alpha[g.r.Intn(len(alpha))]
	}
	return s
}

func (g gen) mid() uint64 {
	switch g.r.Intn(6) {
	case 0:
		return math.MaxUint64 - uint64(g.r.Intn(3))
	case 1:
		return 1<<63 + uint64(g.r.Intn(3)) - 1
	case 2:
		return 0
	default:
		return uint64(g.r.Intn(50))
	}
}

func (g gen) qprText(desc bool, withAggs bool, nIDs, maxMid int, histMode int) string {
	var ids seq.IDSources
	seen := map[seq.ID]bool{}
	for i := 0; i < nIDs; i++ {
		id := seq.ID{MID: seq.MID(g.r.Intn(maxMid + 1)), RID: seq.RID(g.r.Intn(2))}
		if !seen[id] {
			seen[id] = true
			ids = append(ids, seq.IDSource{ID: id})
		}
	}
	sort.Slice(ids, func(i, j int) bool {
		if desc {
			return seq.Less(ids[j].ID, ids[i].ID)
		}
		return seq.Less(ids[i].ID, ids[j].ID)
	})
	q := &seq.QPR{IDs: ids}
	switch histMode {
	case 1:
		q.Histogram = map[seq.MID]uint64{}
	case 2: // interval 1: one bucket per MID
		q.Histogram = map[seq.MID]uint64{}
		for _, id := range ids {
			q.Histogram[id.ID.MID]++
		}
	case 3: // interval 10
		q.Histogram = map[seq.MID]uint64{}
		for _, id := range ids {
			q.Histogram[id.ID.MID-id.ID.MID%10]++
		}
	}
	if withAggs {
		q.Aggs = []seq.AggregatableSamples{}
		for a := 0; a < g.r.Range(1, 2); a++ {
			agg := seq.AggregatableSamples{SamplesByBin: map[seq.AggBin]*seq.SamplesContainer{}, NotExists: int64(g.r.Intn(3))}
			for b := 0; b < g.r.Intn(4); b++ {
				agg.SamplesByBin[seq.AggBin{MID: seq.MID(g.mid()), Token: g.token()}] = &seq.SamplesContainer{Total: int64(g.r.Intn(9)), NotExists: int64(g.r.Intn(2))}
			}
			q.Aggs = append(q.Aggs, agg)
		}
	}
	return fmtQPR(q)
}

func b(v bool) string { return vh.B(v) }

// ---------------------------------------------------------------- main

func main() {
	if mode := os.Getenv("C19_CHILD"); mode != "" {
		if mode == "conc" {
			concChild()
		} else if mode == "apih" {
			apihChild()
		} else if strings.HasPrefix(mode, "api-") {
			apiChild(strings.TrimPrefix(mode, "api-"))
		} else {
			sysChild(mode)
		}
		return
	}
	o := vh.ParseFlags()
	logger.SetLevel(zap.FatalLevel)
	rep := vh.NewReport("C19", o)
	g := gen{vh.NewRNG(o.Seed)}
	chCodec := vh.NewChannel("qpr.codec", "QPR -> JSON -> zstd -> JSON -> QPR (per-fraction result file) vs SV.Async.roundtrip (AggBin key 'mid|token' codec); non-trivial = has an aggregation bin")
	chFetch := vh.NewChannel("async.fetch", "AsyncSearcher.FetchSearchResult over crafted result files vs SV.Async.fetchFold (MergeQPRs(.., MaxInt, 1, order) per file); non-trivial = an ID occurs in two files")
	chParams = vh.NewChannel("async.params", "the parameters GrpcV1.StartAsyncSearch(request) persists (<id>.info: From, To, Limit, HistInterval, WithTotal, Order, retention, expiry) vs SV.Async.asyncParams, requests at the integer edges; an undeclared Order panics")
	chPF := vh.NewChannel("proxy.async.fetch", "real search.Ingestor.FetchAsyncSearchResult over scripted stores (NotFound / Unavailable / other error / answer with done flag per replica) vs SV.ProxyAsync.proxyFetch; non-trivial = >1 shard answering")
	chPS := vh.NewChannel("proxy.async.start", "real search.Ingestor.StartAsyncSearch over scripted stores: replicas called and success vs SV.ProxyAsync.proxyStart")
	chPH := vh.NewChannel("api.async.handler", "real proxyapi gRPC handler FetchAsyncSearchResult(Size, Offset) over the real ingestor over scripted stores: done flag, one document entry per merged ID, histogram - or panic / error - vs SV.ProxyAsync.handlerFetch (at the re-extracted makeProtoDocsNilSafe / proxyAsyncPaginates); non-trivial = an answer with IDs")
	orcPD := vh.NewOracle("proxy.async.done", "every shard has one replica that accepted the search: an answer exists only if every such replica answered, Done only if all are done, and every shard's IDs are in the merged result; non-trivial = a shard's replica is unreachable")
	orcAPI := vh.NewOracle("async.api", "the proxy's gRPC handlers (StartAsyncSearch, FetchAsyncSearchResult with Size/Offset) over the real ingestor and a real store: the done result's ids (one document entry per id), histogram and aggregations equal ComplexSearch's for the same query; non-trivial = Size > 0")
	orcSys := vh.NewOracle("async.system", "real FracManager+AsyncSearcher, process killed after the k-th atomic write and restarted: fetched result == synchronous SearchDocs (ids, histogram, aggregations); non-trivial = a crash point inside the run and >1 fraction")

	var sysLines []string
	if o.Replay != "" {
		lines, err := vh.ReadReplay(o.Replay)
		if err != nil {
			fmt.Fprintln(os.Stderr, err)
			os.Exit(3)
		}
		for _, l := range lines {
			switch strings.Fields(l + " .")[0] {
			case "codec":
				chCodec.Add(l, runCodec(l), true, "replay")
			case "fetch":
				chFetch.Add(l, runFetch(l), true, "replay")
			case "pfetch":
				chPF.Add(l, runPFetch(l), true, "replay")
			case "pstart":
				chPS.Add(l, runPStart(l), true, "replay")
			case "hfetch":
				chPH.Add(l, runHFetch(l), true, "replay")
			case "async", "asyncconc", "asyncapi", "asyncapih":
				sysLines = append(sysLines, l)
			}
		}
	} else {
		for i := 0; i < o.Pick(1500, 20000); i++ {
			withAggs := g.r.Chance(3, 4)
			line := "codec " + g.qprText(g.r.Bool(), withAggs, g.r.Intn(5), 30, g.r.Intn(4))
			chCodec.Add(line, runCodec(line), withAggs && strings.Contains(line, "~"), "aggs="+b(withAggs))
		}
		for i := 0; i < o.Pick(300, 3000); i++ {
			desc := g.r.Bool()
			histMode := []int{0, 0, 2, 3}[g.r.Intn(4)]
			reqHi := map[int]int{0: 0, 2: 1, 3: 10}[histMode]
			maxMid := []int{4, 25}[g.r.Intn(2)]
			var qs []string
			for j := 0; j < g.r.Range(0, 4); j++ {
				qs = append(qs, g.qprText(desc, false, g.r.Intn(5), maxMid, histMode))
			}
			line := fmt.Sprintf("fetch %s %d %s", b(desc), reqHi, vh.JoinStrs(qs, ";"))
			dup := false
			seen := map[string]bool{}
			for _, q := range qs {
				for _, id := range splitList(strings.SplitN(q, "/", 2)[0], ",") {
					if seen[id] {
						dup = true
					}
					seen[id] = true
				}
			}
			chFetch.Add(line, runFetch(line), dup, fmt.Sprintf("histMode=%d", histMode), "dup="+b(dup), fmt.Sprintf("files=%d", len(qs)))
		}
		genProxyAsync(gen{vh.NewRNG(o.Seed + 99)}, chPF, chPS, chPH, orcPD, rep, o.Pick(400, 5000))
		sysLines = genSys(g, o)
	}
	var apihLines []string
	for _, l := range sysLines {
		if strings.HasPrefix(l, "asyncapih ") {
			apihLines = append(apihLines, l)
		}
	}
	if o.Replay == "" {
		apihLines = genAPIH(gen{vh.NewRNG(o.Seed + 55)}, o)
	}
	runAPIH(apihLines, orcAPI, rep)
	runSys(sysLines, orcSys, rep, o)
	rep.AddChannel(chCodec, o.Driver)
	rep.AddChannel(chFetch, o.Driver)
	rep.AddChannel(chParams, o.Driver)
	rep.AddChannel(chPF, o.Driver)
	rep.AddChannel(chPS, o.Driver)
	rep.AddChannel(chPH, o.Driver)
	rep.AddOracle(orcPD)
	rep.AddOracle(orcAPI)
	rep.AddOracle(orcSys)
	rep.Write(o.Out)
}

// ---------------------------------------------------------------- system oracle
// async docs=<mid:rid:svc:val,...> layout=<i,i;i;...> lastActive=<0|1> q=<a|b|*> desc=<0|1> hi=<n> agg=<none|count|sum>
//       from=<n> to=<n> crash=<k> at=<written|before-rename>       (crash=0: no crash)

type sdoc struct {
	id  seq.ID
	svc string
	val string
	msg int // index into messages
	uri int // index into uris
}

// text-typed (message) and path-typed (request_uri) values of seq.TestMapping: the parse of a filter on them depends
// on the mapping (a phrase on a text field is the AND of its tokens; with another mapping it is one literal)
var messages = []string{"", "hello world", "Hello there", "world of hello kitty", "goodbye", "hello", "error: disk full", "Disk is FULL"}
var uris = []string{"", "/api/v1/users", "/api/v1/orders/7", "/api/v2", "/health"}

var longPrefix = strings.Repeat("t", 72)

var queryPool = []string{
	`trace_id:"` + strings.Repeat("t", 72) + `a0"`, `trace_id:"` + strings.Repeat("t", 72) + `a1"`, `trace_id:"` + strings.Repeat("t", 72) + `b0"`,
	`trace_id:"` + strings.Repeat("t", 72) + `a*"`,
	`service:a`, `_all_:*`, `_all_:*`,
	`message:"hello world"`, `message:"world hello"`, `message:"Hello World"`, `message:hello`, `message:"disk full"`,
	`message:"hello there"`, `service:a and message:"hello world"`, `not message:"hello world"`, `message:"hello kitty" or message:goodbye`,
	`message:hel*`, `message:"error: disk"`,
	`request_uri:"/api/v1"`, `request_uri:"/api/v1/users"`, `request_uri:"/api"`, `request_uri:"/api/v1/*"`,
	`service:in(a, b)`, `service:in(b) or message:"is full"`, `message:in(hello, goodbye)`,
	`request_duration:[100 to 500]`,
}

func queryOf(m map[string]string) string {
	if qx := m["qx"]; qx != "" {
		return unhex(qx)
	}
	if m["q"] == "*" || m["q"] == "" {
		return seq.TokenAll + ":*"
	}
	return "service:" + m["q"]
}

func docTokens(d sdoc) ([]byte, []seq.Token) {
	body := fmt.Sprintf(`{"service":%q,"request_duration":%q`, d.svc, d.val)
	if d.msg > 0 {
		body += fmt.Sprintf(`,"message":%q`, messages[d.msg%len(messages)])
	}
	if d.uri > 0 {
		body += fmt.Sprintf(`,"request_uri":%q`, uris[d.uri%len(uris)])
	}
	// a keyword field whose values contain the AggBin key separator and other separators
	// ... and values with bytes that are not valid UTF-8 (upper-case letters make the tokenizer's lower-casing path run)
	pods := []string{"api|v1", "api|v2", "api", "|", "a|b|c", "x;y", "x:y", "api|", "plain", "Caf\xe9-A", "Caf\xe8-A", "Z\xff\xfeQ"}
	pod := pods[(d.msg*5+d.uri+int(d.id.RID))%len(pods)]
	if utf8.ValidString(pod) {
		body += fmt.Sprintf(`,"k8s_pod":%q`, pod)
	} else {
		body += `,"k8s_pod":"` + pod + `"` // raw bytes inside the JSON string
	}
	body += "}"
	metas, err := bulk.VerifIndexDoc(seq.TestMapping, consts.DefaultMaxTokenSize, false, false, []byte(body))
	if err != nil || len(metas) == 0 {
		panic(fmt.Sprintf("indexing %s: %v", body, err))
	}
	var toks []seq.Token
	hasAll := false
	for _, t := range metas[0] {
		toks = append(toks, seq.Token{Field: t.Key, Val: t.Value})
		if string(t.Key) == seq.TokenAll {
			hasAll = true
		}
	}
	if !hasAll {
		toks = append(toks, seq.Token{Field: []byte(seq.TokenAll), Val: []byte{}})
	}
	// a keyword value longer than the default token size (72 bytes), sharing its first 72 bytes with the others
	toks = append(toks, seq.Token{Field: []byte("trace_id"), Val: []byte(longPrefix + d.svc + fmt.Sprint(uint64(d.id.RID)%2))})
	return []byte(body), toks
}

func kv(f []string) map[string]string {
	m := map[string]string{}
	for _, e := range f {
		if i := strings.IndexByte(e, '='); i > 0 {
			m[e[:i]] = e[i+1:]
		}
	}
	return m
}

type sysOut struct {
	Phase  string `json:"phase"`
	Async  string `json:"async,omitempty"`
	Sync   string `json:"sync,omitempty"`
	Params string `json:"params,omitempty"`
	Writes int    `json:"writes"`
	Fracs  int    `json:"fracs"`
	Err    string `json:"err,omitempty"`
}

func aggQuery(kind string) []processor.AggQuery {
	all := []parser.Term{{Kind: parser.TermSymbol, Data: "*"}}
	switch kind {
	case "count":
		return []processor.AggQuery{{GroupBy: &parser.Literal{Field: "service", Terms: all}, Func: seq.AggFuncCount}}
	case "pods":
		return []processor.AggQuery{{GroupBy: &parser.Literal{Field: "k8s_pod", Terms: all}, Func: seq.AggFuncCount}}
	case "sum":
		return []processor.AggQuery{{GroupBy: &parser.Literal{Field: "service", Terms: all}, Field: &parser.Literal{Field: "request_duration", Terms: all}, Func: seq.AggFuncSum}}
	}
	return nil
}

func fmtAggResult(q *seq.QPR, kind string) string {
	if kind == "none" {
		return ""
	}
	if len(q.Aggs) == 0 { // no fraction in range: the async result carries no aggregation slot at all
		return " agg=[] ne=0"
	}
	var parts []string
	for bin, h := range q.Aggs[0].SamplesByBin {
		parts = append(parts, fmt.Sprintf("%s@%d:n=%d,ne=%d,sum=%s,min=%s,max=%s", bin.Token, uint64(bin.MID), h.Total, h.NotExists,
			strconv.FormatFloat(h.Sum, 'g', -1, 64), strconv.FormatFloat(h.Min, 'g', -1, 64), strconv.FormatFloat(h.Max, 'g', -1, 64)))
	}
	sort.Strings(parts)
	return fmt.Sprintf(" agg=[%s] ne=%d", strings.Join(parts, ";"), q.Aggs[0].NotExists)
}

func canon(q *seq.QPR, kind string) string {
	h := q.Histogram
	if h == nil {
		h = map[seq.MID]uint64{}
	}
	return fmtIDs(q.IDs) + "/" + strconv.FormatUint(q.Total, 10) + "/" + fmtHist(h) + fmtAggResult(q, kind)
}

// sysChild: phase "build" ingests, starts the search (and may be killed by the hook); phase "resume" reopens the
// directory, lets the async searcher resume, waits for Done and prints async vs sync.
func sysChild(phase string) {
	logger.SetLevel(zap.FatalLevel)
	out := sysOut{Phase: phase}
	emit := func() {
		bts, _ := json.Marshal(out)
		fmt.Println(string(bts))
	}
	line, _ := bufio.NewReader(os.Stdin).ReadString('\n')
	m := kv(strings.Fields(line)[1:])
	dir := os.Getenv("C19_DIR")
	crashAt, crashPoint := atoi(m["crash"]), "c19.atomic."+m["at"]
	writes := 0
	queued := m["queued"] == "1"
	blocked := make(chan struct{}, 1)
	verifhook.Set(func(name, s string, _ []int64) {
		if name == "c19.atomic.written" {
			writes++
		}
		if queued && phase == "build" && name == "c19.atomic.before-rename" && strings.Contains(s, "req0.") && strings.HasSuffix(s, ".qpr") {
			// the long search that occupies the only worker slot: it never gets past its first partial result
			select {
			case blocked <- struct{}{}:
			default:
			}
			select {}
		}
		if !queued && phase == "build" && crashAt > 0 && name == crashPoint {
			n := writes
			if m["at"] == "before-rename" {
				n = writes + 1
			}
			if n == crashAt {
				out.Writes = writes
				out.Err = "crashed"
				emit()
				os.Exit(7)
			}
		}
	})
	fm := fracmanager.NewFracManager(&fracmanager.Config{DataDir: filepath.Join(dir, "data"), FracSize: 1 << 30, TotalSize: 1 << 40,
		ShouldReplay: true, MaintenanceDelay: time.Hour})
	os.MkdirAll(filepath.Join(dir, "data"), 0o755)
	if err := fm.Load(context.Background()); err != nil {
		out.Err = "load: " + err.Error()
		emit()
		return
	}
	fm.Start()
	// rel=1: document times and the request window are given in MINUTES BEFORE the moment the case was built
	// (sealed fractions of such documents carry a per-minute MIDs distribution)
	relMID := func(x uint64) uint64 { return x }
	if m["rel"] == "1" {
		basePath := filepath.Join(dir, "base")
		var base uint64
		if raw, err := os.ReadFile(basePath); err == nil {
			base = atou(strings.TrimSpace(string(raw)))
		} else {
			base = uint64(time.Now().UnixMilli())
			os.WriteFile(basePath, []byte(fmt.Sprint(base)), 0o644)
		}
		relMID = func(x uint64) uint64 { return base - x*60000 }
	}
	if phase == "build" {
		var docs []sdoc
		for _, e := range splitList(m["docs"], ",") {
			p := strings.Split(e, ":")
			d := sdoc{id: seq.ID{MID: seq.MID(relMID(atou(p[0]))), RID: seq.RID(atou(p[1]))}, svc: p[2], val: p[3]}
			if len(p) >= 6 {
				d.msg, d.uri = atoi(p[4]), atoi(p[5])
			}
			docs = append(docs, d)
		}
		groups := strings.Split(m["layout"], ";")
		for gi, grp := range groups {
			dp := frac.NewDocProvider()
			for _, e := range splitList(grp, ",") {
				d := docs[atoi(e)]
				body, toks := docTokens(d)
				dp.Append(body, nil, d.id, toks)
			}
			if dp.DocCount > 0 {
				dm, mm := dp.Provide()
				if err := fm.Append(context.Background(), dm, mm); err != nil {
					out.Err = "append: " + err.Error()
					emit()
					return
				}
				fm.WaitIdle()
			}
			if gi < len(groups)-1 || m["lastActive"] != "1" {
				fm.SealForcedForTests()
			}
		}
	}
	// the fractions that exist now are the ones the search was (or is about to be) started on; `late=` documents
	// arrive in a NEW fraction between the start of the search and the restart: they must not show up in the result
	fracsAtStart := fm.GetAllFracs()
	if phase == "resume" && m["sealbefore"] == "1" {
		// the fraction that was active when the search started is sealed before the search gets to it
		// (rotation while the request waits for a worker, or the store sealing leftovers at start-up)
		fm.SealForcedForTests()
	}
	if phase == "resume" && m["late"] != "" && m["late"] != "-" {
		var docs []sdoc
		for _, e := range splitList(m["docs"], ",") {
			p := strings.Split(e, ":")
			d := sdoc{id: seq.ID{MID: seq.MID(atou(p[0])), RID: seq.RID(atou(p[1]))}, svc: p[2], val: p[3]}
			if len(p) >= 6 {
				d.msg, d.uri = atoi(p[4]), atoi(p[5])
			}
			docs = append(docs, d)
		}
		fm.SealForcedForTests() // whatever was active at start keeps its name; the late documents get a fraction of their own
		dp := frac.NewDocProvider()
		for _, e := range splitList(m["late"], ",") {
			d := docs[atoi(e)%len(docs)]
			d.id.RID += 7 // a different document with the same content
			body, toks := docTokens(d)
			dp.Append(body, nil, d.id, toks)
		}
		dm, mm := dp.Provide()
		if err := fm.Append(context.Background(), dm, mm); err != nil {
			out.Err = "append late: " + err.Error()
			emit()
			return
		}
		fm.WaitIdle()
	}
	query := queryOf(m)
	params := processor.SearchParams{AggQ: aggQuery(m["agg"]), HistInterval: atou(m["hi"]), From: seq.MID(min(relMID(atou(m["from"])), relMID(atou(m["to"])))), To: seq.MID(max(relMID(atou(m["from"])), relMID(atou(m["to"])))),
		Limit: math.MaxInt32, WithTotal: false, Order: order(m["desc"] == "1")}
	parallelism := 2
	if queued {
		parallelism = 1 // async-searches-concurrency=1
	}
	as := fracmanager.MustStartAsync(fracmanager.AsyncSearcherConfig{DataDir: filepath.Join(dir, "async"), Parallelism: parallelism}, mapping{}, fm)
	if phase == "build" && queued {
		p0 := params
		p0.From, p0.To, p0.AggQ = 0, seq.MID(1<<62), nil
		if err := as.StartSearch(fracmanager.AsyncSearchRequest{ID: "req0", Query: seq.TokenAll + ":*", Params: p0, Retention: time.Hour}); err != nil {
			out.Err = "start req0: " + err.Error()
			emit()
			return
		}
		select {
		case <-blocked:
		case <-time.After(3 * time.Second): // no fraction in range: the slot is free, the case is an ordinary one
		}
	}
	if phase == "build" {
		if err := as.StartSearch(fracmanager.AsyncSearchRequest{ID: "req1", Query: query, Params: params, Retention: time.Hour}); err != nil {
			out.Err = "start: " + err.Error()
			emit()
			return
		}
		if queued { // StartSearch returned nil: the search is accepted.  The store dies now, without any graceful stop.
			out.Err = "crashed"
			out.Writes = writes
			emit()
			os.Exit(7)
		}
	}
	deadline := time.Now().Add(8 * time.Second)
	var resp fracmanager.FetchSearchResultResponse
	fetch := func() (r fracmanager.FetchSearchResultResponse, ok bool, pan string) {
		defer func() {
			if x := recover(); x != nil {
				pan = fmt.Sprint(x)
			}
		}()
		r, ok = as.FetchSearchResult(fracmanager.FetchSearchResultRequest{ID: "req1"})
		return
	}
	for {
		var ok bool
		var pan string
		resp, ok, pan = fetch()
		if pan != "" {
			out.Err = "fetch-panic"
			if strings.Contains(pan, "nil map") {
				out.Err = "fetch-panic-nil-map"
			}
			out.Writes = writes
			emit()
			return
		}
		if !ok {
			out.Err = "not-found"
			out.Writes = writes
			emit()
			return
		}
		if resp.Done || time.Now().After(deadline) {
			break
		}
		time.Sleep(2 * time.Millisecond)
	}
	if !resp.Done {
		out.Err = "not-done"
		emit()
		return
	}
	out.Async = canon(&resp.QPR, m["agg"])
	ast, err := parser.ParseSeqQL(query, seq.TestMapping)
	if err != nil {
		out.Err = "query: " + err.Error()
		emit()
		return
	}
	params.AST = ast.Root
	fracs := fracsAtStart
	out.Fracs = len(fracs.FilterInRange(params.From, params.To))
	sq, err := fracmanager.NewSearcher(4, fracmanager.SearcherCfg{}).SearchDocs(context.Background(), fracs, params)
	if err != nil {
		out.Err = "sync: " + err.Error()
		emit()
		return
	}
	out.Sync = canon(sq, m["agg"])
	out.Writes = writes
	if queued && phase == "resume" && out.Async == out.Sync {
		// the OTHER persisted search (req0, loaded from its own .info file at the same start-up) is resumed too: it must
		// run with its own fractions and parameters, whatever else was loaded next to it
		p0 := params
		p0.From, p0.To, p0.AggQ = 0, seq.MID(1<<62), nil
		var r0 fracmanager.FetchSearchResultResponse
		ok0 := false
		d0 := time.Now().Add(8 * time.Second)
		for {
			r0, ok0 = as.FetchSearchResult(fracmanager.FetchSearchResultRequest{ID: "req0"})
			if !ok0 || r0.Done || time.Now().After(d0) {
				break
			}
			time.Sleep(2 * time.Millisecond)
		}
		if ok0 && r0.Done {
			ast0, err := parser.ParseSeqQL(seq.TokenAll+":*", seq.TestMapping)
			if err == nil {
				p0.AST = ast0.Root
				if s0, err := fracmanager.NewSearcher(4, fracmanager.SearcherCfg{}).SearchDocs(context.Background(), fracsAtStart, p0); err == nil {
					if a, b := canon(&r0.QPR, "none"), canon(s0, "none"); a != b {
						out.Async, out.Sync = "req0(the other persisted search): "+a, "req0(the other persisted search): "+b
					}
				}
			}
		}
	}
	emit()
}

// concChild: several async searches started together on one store, round after round (GOMAXPROCS(1) makes the reuse
// of pooled buffers between the goroutines of concurrently processed requests deterministic); every finished result
// must equal the synchronous search.  Line: asyncconc fracs=<n> per=<docs per fraction> services=<s> rounds=<r>
func concChild() {
	logger.SetLevel(zap.FatalLevel)
	runtime.GOMAXPROCS(1)
	out := sysOut{Phase: "conc"}
	emit := func() {
		bts, _ := json.Marshal(out)
		fmt.Println(string(bts))
	}
	line, _ := bufio.NewReader(os.Stdin).ReadString('\n')
	m := kv(strings.Fields(line)[1:])
	dir := os.Getenv("C19_DIR")
	nf, per, services, rounds := atoi(m["fracs"]), atoi(m["per"]), atoi(m["services"]), atoi(m["rounds"])
	os.MkdirAll(filepath.Join(dir, "data"), 0o755)
	fm := fracmanager.NewFracManager(&fracmanager.Config{DataDir: filepath.Join(dir, "data"), FracSize: 1 << 30, TotalSize: 1 << 40, MaintenanceDelay: time.Hour})
	if err := fm.Load(context.Background()); err != nil {
		out.Err = "load: " + err.Error()
		emit()
		return
	}
	fm.Start()
	n := 0
	for f := 0; f < nf; f++ {
		dp := frac.NewDocProvider()
		for i := 0; i < per; i++ {
			n++
			dp.Append([]byte("document"), nil, seq.ID{MID: seq.MID(n * 1000), RID: seq.RID(n % 3)},
				seq.Tokens("_all_:", fmt.Sprintf("service:svc%d", n%services), fmt.Sprintf("k8s_pod:pod%d", n%5)))
		}
		dm, mm := dp.Provide()
		if err := fm.Append(context.Background(), dm, mm); err != nil {
			out.Err = "append: " + err.Error()
			emit()
			return
		}
		fm.WaitIdle()
		if f < nf-1 {
			fm.SealForcedForTests()
		}
	}
	as := fracmanager.MustStartAsync(fracmanager.AsyncSearcherConfig{DataDir: filepath.Join(dir, "async"), Parallelism: services}, mapping{}, fm)
	params := func(query string) processor.SearchParams {
		ast, err := parser.ParseSeqQL(query, seq.TestMapping)
		if err != nil {
			panic(err)
		}
		return processor.SearchParams{AST: ast.Root,
			AggQ:         []processor.AggQuery{{GroupBy: &parser.Literal{Field: "k8s_pod", Terms: []parser.Term{{Kind: parser.TermSymbol, Data: "*"}}}, Func: seq.AggFuncCount}},
			HistInterval: 1000, From: 0, To: seq.MID(1 << 40), Limit: math.MaxInt32, Order: seq.DocsOrderDesc}
	}
	sync := make([]string, services)
	for sv := 0; sv < services; sv++ {
		sq, err := fracmanager.NewSearcher(1, fracmanager.SearcherCfg{}).SearchDocs(context.Background(), fm.GetAllFracs(), params(fmt.Sprintf("service:svc%d", sv)))
		if err != nil {
			out.Err = "sync: " + err.Error()
			emit()
			return
		}
		sync[sv] = canon(sq, "count")
	}
	for round := 0; round < rounds; round++ {
		ids := make([]string, services)
		for sv := 0; sv < services; sv++ {
			ids[sv] = fmt.Sprintf("r%03ds%d", round, sv)
			p := params(fmt.Sprintf("service:svc%d", sv))
			p.AST = nil
			if err := as.StartSearch(fracmanager.AsyncSearchRequest{ID: ids[sv], Query: fmt.Sprintf("service:svc%d", sv), Params: p, Retention: time.Hour}); err != nil {
				out.Err = "start: " + err.Error()
				emit()
				return
			}
		}
		for sv := 0; sv < services; sv++ {
			deadline := time.Now().Add(10 * time.Second)
			var got string
			for {
				var pan string
				func() {
					defer func() {
						if x := recover(); x != nil {
							pan = fmt.Sprint(x)
						}
					}()
					resp, ok := as.FetchSearchResult(fracmanager.FetchSearchResultRequest{ID: ids[sv]})
					if ok && resp.Done {
						got = canon(&resp.QPR, "count")
					}
				}()
				if pan != "" {
					got = "fetch-panic: " + pan
				}
				if got != "" || time.Now().After(deadline) {
					break
				}
				time.Sleep(time.Millisecond)
			}
			if got != sync[sv] {
				out.Async, out.Sync = got, sync[sv]
				out.Err = fmt.Sprintf("round %d request %s", round, ids[sv])
				emit()
				return
			}
		}
	}
	out.Writes = rounds * services
	emit()
}

// apiChild: the same kill-and-restart experiment through the public store API: GrpcV1.StartAsyncSearch(request) on a
// real storeapi.Store, restart = a new Store on the same directory, GrpcV1.FetchAsyncSearchResult; the reference is
// GrpcV1.Search with the same From/To/Interval/Order, Size = MaxInt32, Offset 0, no total.  Also compared: the echoed
// HistogramInterval / Order, the expiration (24 h after the start, also after the restart) and the persisted parameters
// (<id>.info) against SV.Async.asyncParams (returned in `Params` for the channel async.params).
// Line: asyncapi docs=.. layout=.. lastActive=.. qx=.. from=<i64> to=<i64> interval=<i64> order=<n> crash=<k> at=..
func apiChild(phase string) {
	logger.SetLevel(zap.FatalLevel)
	out := sysOut{Phase: phase}
	emit := func() {
		bts, _ := json.Marshal(out)
		fmt.Println(string(bts))
	}
	line, _ := bufio.NewReader(os.Stdin).ReadString('\n')
	m := kv(strings.Fields(line)[1:])
	dir := os.Getenv("C19_DIR")
	crashAt, crashPoint := atoi(m["crash"]), "c19.atomic."+m["at"]
	writes := 0
	verifhook.Set(func(name, s string, _ []int64) {
		if name == "c19.atomic.written" {
			writes++
		}
		if phase == "build" && crashAt > 0 && name == crashPoint {
			n := writes
			if m["at"] == "before-rename" {
				n = writes + 1
			}
			if n == crashAt {
				out.Writes = writes
				out.Err = "crashed"
				emit()
				os.Exit(7)
			}
		}
	})
	mp, err := mappingprovider.New("", mappingprovider.WithMapping(seq.TestMapping))
	if err != nil {
		out.Err = "mapping: " + err.Error()
		emit()
		return
	}
	os.MkdirAll(filepath.Join(dir, "data"), 0o755)
	st, err := storeapi.NewStore(context.Background(), storeapi.StoreConfig{
		FracManager: fracmanager.Config{DataDir: filepath.Join(dir, "data"), FracSize: 1 << 30, TotalSize: 1 << 40, ShouldReplay: true, MaintenanceDelay: time.Hour},
		API:         storeapi.APIConfig{StoreMode: storeapi.StoreModeCold, Search: storeapi.SearchConfig{WorkersCount: 4, FractionsPerIteration: 2}},
	}, mp)
	if err != nil {
		out.Err = "store: " + err.Error()
		emit()
		return
	}
	fm := st.FracManager
	if phase == "build" {
		var docs []sdoc
		for _, e := range splitList(m["docs"], ",") {
			p := strings.Split(e, ":")
			d := sdoc{id: seq.ID{MID: seq.MID(atou(p[0])), RID: seq.RID(atou(p[1]))}, svc: p[2], val: p[3]}
			if len(p) >= 6 {
				d.msg, d.uri = atoi(p[4]), atoi(p[5])
			}
			docs = append(docs, d)
		}
		groups := strings.Split(m["layout"], ";")
		for gi, grp := range groups {
			dp := frac.NewDocProvider()
			for _, e := range splitList(grp, ",") {
				body, toks := docTokens(docs[atoi(e)])
				dp.Append(body, nil, docs[atoi(e)].id, toks)
			}
			if dp.DocCount > 0 {
				dm, mm := dp.Provide()
				if err := fm.Append(context.Background(), dm, mm); err != nil {
					out.Err = "append: " + err.Error()
					emit()
					return
				}
				fm.WaitIdle()
			}
			if gi < len(groups)-1 || m["lastActive"] != "1" {
				fm.SealForcedForTests()
			}
		}
	}
	from, to, interval := parseI64(m["from"]), parseI64(m["to"]), parseI64(m["interval"])
	ord := pb.Order(atoi(m["order"]))
	ctx := context.Background()
	startedAt := time.Now()
	if phase == "build" {
		var pan string
		func() {
			defer func() {
				if x := recover(); x != nil {
					pan = fmt.Sprint(x)
				}
			}()
			_, err = st.GrpcV1().StartAsyncSearch(ctx, &pb.StartAsyncSearchRequest{SearchId: "req1", Query: queryOf(m), From: from, To: to,
				HistogramInterval: interval, Order: ord})
		}()
		if pan != "" {
			out.Err = "start-panic"
			emit()
			return
		}
		if err != nil {
			out.Err = "start: " + err.Error()
			emit()
			return
		}
	}
	// the persisted request (for the channel async.params)
	if raw, err := os.ReadFile(filepath.Join(dir, "data", "async_searches", "req1.info")); err == nil {
		var info struct {
			Request struct {
				Params struct {
					HistInterval uint64
					From, To     uint64
					Limit        int64
					WithTotal    bool
					Order        uint8
				}
				Retention int64
			}
			Expiration, StartTime time.Time
		}
		if json.Unmarshal(raw, &info) == nil {
			p := info.Request.Params
			out.Params = fmt.Sprintf("ok %d %d %d %d %s %s retention=%d expiry-start=%d", p.From, p.To, p.Limit, p.HistInterval, vh.B(p.WithTotal), vh.B(p.Order == 0),
				info.Request.Retention/int64(time.Hour), int64(info.Expiration.Sub(info.StartTime)/time.Hour))
		}
	}
	deadline := time.Now().Add(8 * time.Second)
	var resp *pb.FetchAsyncSearchResultResponse
	for {
		var pan string
		func() {
			defer func() {
				if x := recover(); x != nil {
					pan = fmt.Sprint(x)
				}
			}()
			resp, err = st.GrpcV1().FetchAsyncSearchResult(ctx, &pb.FetchAsyncSearchResultRequest{SearchId: "req1"})
		}()
		if pan != "" {
			out.Err = "fetch-panic"
			emit()
			return
		}
		if err != nil {
			out.Err = "not-found"
			out.Writes = writes
			emit()
			return
		}
		if resp.Done || time.Now().After(deadline) {
			break
		}
		time.Sleep(2 * time.Millisecond)
	}
	if !resp.Done {
		out.Err = "not-done"
		emit()
		return
	}
	exp := resp.Expiration.AsTime().Sub(startedAt)
	expOK := exp <= 24*time.Hour+time.Minute && exp >= 24*time.Hour-10*time.Minute
	out.Async = respCanon(resp.Response) + fmt.Sprintf(" interval=%d order=%d expiry-24h=%v", resp.HistogramInterval, resp.Order, expOK)
	sresp, err := st.GrpcV1().Search(ctx, &pb.SearchRequest{Query: queryOf(m), From: from, To: to, Size: math.MaxInt32, Offset: 0, Interval: interval, WithTotal: false, Order: ord})
	if err != nil {
		out.Err = "sync: " + err.Error()
		emit()
		return
	}
	out.Sync = respCanon(sresp) + fmt.Sprintf(" interval=%d order=%d expiry-24h=true", interval, ord)
	out.Writes = writes
	emit()
}

func parseI64(s string) int64 {
	v, err := strconv.ParseInt(s, 10, 64)
	if err != nil {
		panic("bad int64 " + s)
	}
	return v
}

func respCanon(r *pb.SearchResponse) string {
	q := &seq.QPR{Total: r.Total, Histogram: map[seq.MID]uint64{}}
	for _, id := range r.IdSources {
		q.IDs = append(q.IDs, seq.IDSource{ID: seq.ID{MID: seq.MID(id.Id.Mid), RID: seq.RID(id.Id.Rid)}})
	}
	for k, v := range r.Histogram {
		q.Histogram[seq.MID(k)] = v
	}
	return fmtIDs(q.IDs) + "/" + strconv.FormatUint(q.Total, 10) + "/" + fmtHist(q.Histogram)
}

func runChild(phase, dir, line string, tmo time.Duration) (sysOut, int, string) {
	cmd := exec.Command(os.Args[0])
	cmd.Env = append(os.Environ(), "C19_CHILD="+phase, "C19_DIR="+dir)
	cmd.Stdin = strings.NewReader(line + "\n")
	var stderr strings.Builder
	cmd.Stderr = &stderr
	stdout, _ := cmd.StdoutPipe()
	if err := cmd.Start(); err != nil {
		return sysOut{Err: err.Error()}, -1, ""
	}
	timer := time.AfterFunc(tmo, func() { cmd.Process.Kill() })
	defer timer.Stop()
	var out sysOut
	sc := bufio.NewScanner(stdout)
	sc.Buffer(make([]byte, 1<<20), 1<<26)
	for sc.Scan() {
		if strings.HasPrefix(sc.Text(), "{\"phase\"") {
			json.Unmarshal(sc.Bytes(), &out)
		}
	}
	err := cmd.Wait()
	code := 0
	if err != nil {
		code = -1
		if ee, ok := err.(*exec.ExitError); ok {
			code = ee.ExitCode()
		}
	}
	se := stderr.String()
	if i := strings.Index(se, "panic: "); i >= 0 { // keep the panic message, drop the goroutine dump
		se = se[i:]
		if j := strings.Index(se, "\ngoroutine "); j > 0 {
			se = se[:j]
		}
	} else if len(se) > 600 {
		se = se[len(se)-600:]
	}
	return out, code, se
}

var chParams *vh.Channel

func genAPIAsync(g gen, o vh.Opts) []string {
	var lines []string
	edges := []int64{0, -1, 1, 7, -9223372036854775808, 9223372036854775807, 20, 100000}
	for c := 0; c < o.Pick(25, 200); c++ {
		n := g.r.Range(1, 10)
		seen := map[seq.ID]bool{}
		var docs []string
		for len(docs) < n {
			id := seq.ID{MID: seq.MID(1 + g.r.Intn(30)), RID: seq.RID(g.r.Intn(2))}
			if g.r.Chance(1, 8) {
				id.MID = seq.MID(uint64(1)<<63 + uint64(g.r.Intn(5)))
			}
			if seen[id] {
				continue
			}
			seen[id] = true
			docs = append(docs, fmt.Sprintf("%d:%d:%s:%d:%d:%d", uint64(id.MID), id.RID, []string{"a", "b"}[g.r.Intn(2)], g.r.Intn(100), g.r.Intn(len(messages)), g.r.Intn(len(uris))))
		}
		k := g.r.Range(1, 3)
		layout := make([][]int, k)
		for i := range docs {
			j := g.r.Intn(k)
			layout[j] = append(layout[j], i)
		}
		var lay []string
		for _, idx := range layout {
			lay = append(lay, vh.JoinInts(idx))
		}
		from, to := edges[g.r.Intn(len(edges))], edges[g.r.Intn(len(edges))]
		if g.r.Chance(1, 2) {
			from, to = 0, -1
		}
		query := []string{"service:a", "_all_:*", `message:"hello world"`, "_all_:*"}[g.r.Intn(4)]
		lines = append(lines, fmt.Sprintf("asyncapi docs=%s layout=%s lastActive=%s qx=%s from=%d to=%d interval=%d order=%d crash=%d at=%s",
			strings.Join(docs, ","), strings.Join(lay, ";"), b(g.r.Bool()), vh.Hex([]byte(query)), from, to,
			[]int64{0, 0, 1, 5, 1000, -1, 9223372036854775807}[g.r.Intn(7)], []int{0, 1, 0, 1, 2}[g.r.Intn(5)], g.r.Intn(k+3), []string{"written", "before-rename"}[g.r.Intn(2)]))
	}
	return lines
}

func genSys(g gen, o vh.Opts) []string {
	var lines []string
	svcs := []string{"a", "a", "b"}
	for c := 0; c < o.Pick(70, 400); c++ {
		n := g.r.Range(1, 14)
		maxMid := []int{8, 60}[g.r.Intn(2)]
		seen := map[seq.ID]bool{}
		var docs []string
		for len(docs) < min(n, 2*maxMid-1) {
			id := seq.ID{MID: seq.MID(1 + g.r.Intn(maxMid)), RID: seq.RID(g.r.Intn(2))}
			if seen[id] {
				continue
			}
			seen[id] = true
			docs = append(docs, fmt.Sprintf("%d:%d:%s:%d:%d:%d", id.MID, id.RID, svcs[g.r.Intn(len(svcs))], g.r.Intn(1000), g.r.Intn(len(messages)), g.r.Intn(len(uris))))
		}
		k := g.r.Range(1, 4)
		layout := make([][]int, k)
		dup := k > 1 && g.r.Chance(1, 4)
		for i := range docs {
			j := g.r.Intn(k)
			layout[j] = append(layout[j], i)
			if dup && g.r.Chance(1, 3) { // the same document delivered to a second fraction (a retried bulk)
				layout[(j+1)%k] = append(layout[(j+1)%k], i)
			}
		}
		var lay []string
		for _, idx := range layout {
			lay = append(lay, vh.JoinInts(idx))
		}
		from, to := 0, 100000
		if g.r.Chance(1, 4) {
			from = g.r.Intn(maxMid)
			to = from + g.r.Intn(maxMid)
		}
		crash := g.r.Intn(k + 4) // 0 = none; 1 = after the request info; 2..k+1 = after a partial result; k+2 = after Done
		if g.r.Chance(1, 2) {
			crash = g.r.Range(1, k) // restart with fewer than all partial results persisted
		}
		query := queryPool[g.r.Intn(len(queryPool))]
		if _, err := parser.ParseSeqQL(query, seq.TestMapping); err != nil {
			query = seq.TokenAll + ":*"
		}
		if g.r.Chance(1, 6) { // restart right after the acknowledgement, while the search waits for the only worker slot
			lines = append(lines, fmt.Sprintf("async docs=%s layout=%s lastActive=%s late=- queued=1 qx=%s desc=%s hi=%d agg=%s from=%d to=%d crash=1 at=written",
				strings.Join(docs, ","), strings.Join(lay, ";"), b(g.r.Bool()), vh.Hex([]byte(query)), b(g.r.Bool()),
				[]int{0, 1, 7}[g.r.Intn(3)], []string{"none", "count", "pods"}[g.r.Intn(3)], from, to))
		}
		if g.r.Chance(1, 6) {
			// the search starts while the fraction is ACTIVE, its window lies in a gap of the fraction's document
			// times; the fraction is sealed (distribution built) before the resumed search gets to it
			ages := []int{g.r.Range(400, 600), g.r.Range(200, 300), g.r.Range(20, 60)}
			var rd []string
			for i, a := range ages {
				rd = append(rd, fmt.Sprintf("%d:%d:a:%d:1:0", a, i, g.r.Intn(50)))
			}
			gapFrom, gapTo := ages[1]-20, ages[2]+30 // strictly between the two newest documents
			if g.r.Chance(1, 3) {
				gapFrom = ages[0] + 10 // or a window that does contain documents
			}
			lines = append(lines, fmt.Sprintf("async rel=1 sealbefore=1 docs=%s layout=0,1,2 lastActive=1 late=- qx=%s desc=%s hi=%d agg=%s from=%d to=%d crash=%d at=%s",
				strings.Join(rd, ","), vh.Hex([]byte(seq.TokenAll+":*")), b(g.r.Bool()), []int{0, 60000}[g.r.Intn(2)], []string{"none", "count"}[g.r.Intn(2)],
				gapFrom, gapTo, g.r.Range(1, 2), []string{"written", "before-rename"}[g.r.Intn(2)]))
		}
		late := "-"
		if crash > 0 && g.r.Chance(1, 2) {
			late = fmt.Sprintf("%d,%d,%d", g.r.Intn(len(docs)), g.r.Intn(len(docs)), g.r.Intn(len(docs)))
		}
		lines = append(lines, fmt.Sprintf("async docs=%s layout=%s lastActive=%s late=%s qx=%s desc=%s hi=%d agg=%s from=%d to=%d crash=%d at=%s",
			strings.Join(docs, ","), strings.Join(lay, ";"), b(g.r.Bool()), late, vh.Hex([]byte(query)), b(g.r.Bool()),
			[]int{0, 1, 7}[g.r.Intn(3)], []string{"none", "count", "sum", "pods", "pods"}[g.r.Intn(5)], from, to, crash, []string{"written", "before-rename"}[g.r.Intn(2)]))
	}
	return lines
}

// known-defect witnesses (DESIGN section 7 row 11 and the interval-1 fold), always run
func witnessLines() []string {
	return []string{
		// two searches persisted at the restart: req0 over three fractions, req1 (narrow window, one aggregation) over
		// the two newest only; both are loaded from their .info files and resumed - each with its own fractions
		"async docs=1:0:a:1:0:0,2:0:b:2:0:0,10:0:a:3:0:0,11:0:b:4:0:0,20:0:a:5:0:0,21:0:b:6:0:0 layout=0,1;2,3;4,5 lastActive=1 late=- queued=1 q=* desc=1 hi=0 agg=count from=10 to=30 crash=1 at=written",
		"async docs=1:0:a:1:0:0,2:0:b:2:0:0,10:0:a:3:0:0,11:0:b:4:0:0,20:0:a:5:0:0,21:0:b:6:0:0 layout=0,1;2,3;4,5 lastActive=0 late=- queued=1 q=* desc=0 hi=7 agg=pods from=0 to=5 crash=1 at=written",
		// two documents 1e308 in one fraction, sum aggregation: Sum = +Inf, json.Marshal fails inside processFrac
		"async docs=5:0:a:1e308,6:0:a:1e308 layout=0,1 lastActive=0 q=* desc=1 hi=0 agg=sum from=0 to=100000 crash=0 at=written",
		// the same document in two fractions, no histogram requested: FetchSearchResult writes to a nil map
		"async docs=5:0:a:1,5:0:a:1,7:0:a:2 layout=0,2;1 lastActive=0 q=* desc=1 hi=0 agg=none from=0 to=100000 crash=0 at=written",
		// the same document in two fractions, histogram interval 10: the fold corrects bucket MID (interval 1) instead of 0
		"async docs=5:0:a:1,5:0:a:1,7:0:a:2 layout=0,2;1 lastActive=0 q=* desc=1 hi=10 agg=none from=0 to=100000 crash=0 at=written",
		// a sum aggregation over a field with one non-numeric value: the fraction's Search returns an error (the
		// synchronous path hands it to the client); in the async worker it is logger.Fatal - at every restart again
		"async docs=5:0:a:abc:1:0,6:0:a:2:1:0 layout=0,1 lastActive=0 late=- qx=5f616c6c5f3a2a desc=1 hi=0 agg=sum from=0 to=100000 crash=0 at=written",
	}
}

func runSys(lines []string, orc *vh.Oracle, rep *vh.Report, o vh.Opts) {
	if o.Replay == "" {
		lines = append(witnessLines(), lines...)
		lines = append(lines, genAPIAsync(gen{vh.NewRNG(o.Seed + 77)}, o)...)
		lines = append(lines, fmt.Sprintf("asyncconc fracs=6 per=24 services=8 rounds=%d", o.Pick(60, 300)))
	}
	root, err := os.MkdirTemp("", "c19sys")
	if err != nil {
		orc.Error = err.Error()
		return
	}
	defer os.RemoveAll(root)
	for i, line := range lines {
		if strings.HasPrefix(line, "asyncapih ") {
			continue // handled by runAPIH
		}
		m := kv(strings.Fields(line)[1:])
		dir := filepath.Join(root, fmt.Sprintf("c%d", i))
		os.MkdirAll(dir, 0o755)
		if strings.HasPrefix(line, "asyncconc ") {
			out, code, se := runChild("conc", dir, line, 120*time.Second)
			os.RemoveAll(dir)
			orc.Case(line, true, "concurrent-searches")
			switch {
			case code != 0:
				rep.Violate(vh.Violation{Site: "fracmanager/async_searcher.go:processFrac", Class: "concurrent-" + classOfDeath(se),
					What: fmt.Sprintf("store process died (exit %d) with concurrent async searches: %s", code, lastLine(se)), Replay: []string{line}})
			case out.Async != out.Sync:
				rep.Violate(vh.Violation{Site: "fracmanager/async_searcher.go:processFrac", Class: "concurrent-searches-result-differs-from-sync",
					What: fmt.Sprintf("%s: async: %.300s ; sync: %.300s", out.Err, out.Async, out.Sync), Replay: []string{line}})
			case out.Err != "":
				orc.Error = "concurrent child: " + out.Err
			}
			continue
		}
		k := len(strings.Split(m["layout"], ";"))
		pre := ""
		if strings.HasPrefix(line, "asyncapi ") {
			pre = "api-"
		}
		out, code, se := runChild(pre+"build", dir, line, 40*time.Second)
		if pre != "" && out.Params != "" && chParams != nil {
			chParams.Add(fmt.Sprintf("asyncparams %s %s %s %s", m["from"], m["to"], m["interval"], m["order"]), out.Params, true, "order="+m["order"])
		}
		if pre != "" && out.Err == "start-panic" { // an undeclared Order value: MustDocsOrder panics, nothing is persisted
			orc.Case(line, false, "api", "start-panic")
			if chParams != nil {
				chParams.Add(fmt.Sprintf("asyncparams %s %s %s %s", m["from"], m["to"], m["interval"], m["order"]), "panic", true, "order="+m["order"])
			}
			os.RemoveAll(dir)
			continue
		}
		crashed := code == 7
		if code != 0 && !crashed && strings.Contains(se, "async search failed") {
			// logger.Fatal in processRequest; the unfinished request is resumed by the restarted store: does it die again?
			_, code2, se2 := runChild("resume", dir, line, 40*time.Second)
			again := "the restarted store comes up"
			if code2 != 0 && strings.Contains(se2, "async search failed") {
				again = "the restarted store resumes the request and exits again (crash loop)"
			}
			rep.Violate(vh.Violation{Site: "fracmanager/async_searcher.go:processRequest", Class: "search-error-kills-store",
				What: fmt.Sprintf("an error of a fraction's Search inside the async search is logger.Fatal: the store exits (%d): %s; %s", code, lastLine(se), again), Replay: []string{line}})
			os.RemoveAll(dir)
			continue
		}
		if code != 0 && !crashed {
			rep.Violate(vh.Violation{Site: "fracmanager/async_searcher.go:processFrac", Class: classOfDeath(se),
				What: fmt.Sprintf("store process died (exit %d) during the async search: %s", code, lastLine(se)), Replay: []string{line}})
			os.RemoveAll(dir)
			continue
		}
		if crashed {
			out, code, se = runChild(pre+"resume", dir, line, 40*time.Second)
			if code != 0 {
				rep.Violate(vh.Violation{Site: "fracmanager/async_searcher.go:doSearch", Class: "resume-" + classOfDeath(se),
					What: fmt.Sprintf("store process died (exit %d) while resuming after crash point %s/%s: %s", code, m["crash"], m["at"], lastLine(se)), Replay: []string{line}})
				os.RemoveAll(dir)
				continue
			}
		}
		os.RemoveAll(dir)
		qfield := strings.SplitN(strings.TrimPrefix(queryOf(m), "not "), ":", 2)[0]
		orc.Case(line, crashed && k > 1, "crashed="+b(crashed), "agg="+m["agg"], fmt.Sprintf("fracs=%d", k), "hist="+b(m["hi"] != "0"), "dup="+b(hasDupIdx(m["layout"])),
			"late-fraction="+b(crashed && m["late"] != "" && m["late"] != "-"), "queued="+b(m["queued"] == "1"), "sealed-before-resume="+b(m["sealbefore"] == "1"), "query-field="+qfield, "phrase="+b(strings.Contains(queryOf(m), " ") && strings.Contains(queryOf(m), "\"")))
		switch {
		case out.Err == "not-found" && crashed && m["queued"] == "1":
			rep.Violate(vh.Violation{Site: "fracmanager/async_searcher.go:StartSearch", Class: "acked-search-lost-after-restart",
				What: "StartSearch returned nil while the only worker slot was taken (concurrency 1); after a restart the store does not know the search", Replay: []string{line}})
		case out.Err == "not-found" && crashed && atoi(m["crash"]) == 1 && m["at"] == "before-rename":
			// killed before the request itself was persisted: it was never acknowledged, nothing to compare
			orc.Distribution["crash-before-request-persisted"]++
		case out.Err != "":
			rep.Violate(vh.Violation{Site: "fracmanager/async_searcher.go:FetchSearchResult", Class: "async-" + out.Err,
				What: "async search did not produce a result: " + out.Err, Replay: []string{line}})
		case out.Async != out.Sync:
			site := "fracmanager/async_searcher.go:FetchSearchResult"
			if crashed { // the first run alone is covered by the uncrashed cases: the difference comes from the resumed doSearch
				site = "fracmanager/async_searcher.go:doSearch(resumed after restart)"
			}
			rep.Violate(vh.Violation{Site: site, Class: asyncClass(out.Async, out.Sync, crashed),
				What: fmt.Sprintf("query %s, crash point %s/%s: async: %s ; sync: %s", queryOf(m), m["crash"], m["at"], out.Async, out.Sync), Replay: []string{line}})
		}
	}
}

func hasDupIdx(layout string) bool {
	seen := map[string]bool{}
	for _, grp := range strings.Split(layout, ";") {
		for _, e := range splitList(grp, ",") {
			if seen[e] {
				return true
			}
			seen[e] = true
		}
	}
	return false
}

func lastLine(s string) string {
	ls := strings.Split(strings.TrimSpace(s), "\n")
	for i := len(ls) - 1; i >= 0; i-- {
		if strings.Contains(ls[i], "panic") || strings.Contains(ls[i], "BUG") || strings.Contains(ls[i], "fatal") {
			if len(ls[i]) > 300 {
				return strings.TrimSpace(ls[i])[:300]
			}
			return strings.TrimSpace(ls[i])
		}
	}
	return strings.TrimSpace(ls[len(ls)-1])
}

func classOfDeath(stderr string) string {
	switch {
	case strings.Contains(stderr, "processFrac") && strings.Contains(stderr, "nil pointer"):
		return "recorded-fraction-not-found-nil-deref"
	case strings.Contains(stderr, "can't encode async search request"):
		return "qpr-not-json-encodable"
	case strings.Contains(stderr, "nil map"):
		return "nil-map-write"
	}
	return "process-died"
}

func asyncClass(a, s string, crashed bool) string {
	pa, ps := strings.Split(a, "/"), strings.Split(s, "/")
	pre := ""
	if crashed {
		pre = "after-restart-"
	}
	if len(pa) < 3 || len(ps) < 3 {
		return pre + "result-differs"
	}
	if pa[0] != ps[0] {
		return pre + "ids-differ-from-sync"
	}
	if strings.SplitN(pa[2], " ", 2)[0] != strings.SplitN(ps[2], " ", 2)[0] {
		return pre + "histogram-differs-from-sync"
	}
	return pre + "aggregation-differs-from-sync"
}
