// Oracle async.api: the proxy's public gRPC handlers (proxyapi.grpcV1 through VerifNewGrpcV1C16) over the real search
// ingestor and a real store: StartAsyncSearch, FetchAsyncSearchResult(Size, Offset) polled until done; the ids (one
// document entry per id), histogram and aggregations must equal those of ComplexSearch for the same query.
//
//	asyncapih docs=.. layout=.. lastActive=.. qx=<hex query> from=<ms> to=<ms> interval=<ms, 0 = none> order=<0|1>
//	          agg=<none|count|pods> size=<n> offset=<n>
package main

import (
	"bufio"
	"context"
	"encoding/json"
	"fmt"
	"os"
	"path/filepath"
	"sort"
	"strings"
	"time"

	"go.uber.org/zap"
	"google.golang.org/protobuf/types/known/durationpb"
	"google.golang.org/protobuf/types/known/timestamppb"

	"github.com/ozontech/seq-db/frac"
	"github.com/ozontech/seq-db/fracmanager"
	"github.com/ozontech/seq-db/logger"
	"github.com/ozontech/seq-db/mappingprovider"
	"github.com/ozontech/seq-db/pkg/seqproxyapi/v1"
	pb "github.com/ozontech/seq-db/pkg/storeapi"
	"github.com/ozontech/seq-db/proxy/search"
	"github.com/ozontech/seq-db/proxy/stores"
	"github.com/ozontech/seq-db/proxyapi"
	"github.com/ozontech/seq-db/seq"
	"github.com/ozontech/seq-db/storeapi"

	"verifharness/internal/vh"
)

func protoDocsIDs(docs []*seqproxyapi.Document) string {
	var ids []string
	for _, d := range docs {
		ids = append(ids, d.Id)
	}
	return vh.JoinStrs(ids, ",")
}

func protoHist(h *seqproxyapi.Histogram) string {
	if h == nil {
		return "-"
	}
	var bs []string
	for _, b := range h.Buckets {
		bs = append(bs, fmt.Sprintf("%d=%d", b.Ts.AsTime().UnixMilli(), b.DocCount))
	}
	sort.Strings(bs)
	return vh.JoinStrs(bs, ",")
}

func protoAggs(as []*seqproxyapi.Aggregation) string {
	var res []string
	for _, a := range as {
		var bs []string
		for _, b := range a.Buckets {
			bs = append(bs, fmt.Sprintf("%s:%v:%v", vh.Hex([]byte(b.Key)), b.Value, b.Quantiles))
		}
		sort.Strings(bs)
		res = append(res, fmt.Sprintf("ne=%d[%s]", a.NotExists, strings.Join(bs, ";")))
	}
	return vh.JoinStrs(res, "&")
}

func apihChild() {
	logger.SetLevel(zap.FatalLevel)
	out := sysOut{Phase: "apih"}
	emit := func() {
		bts, _ := json.Marshal(out)
		fmt.Println(string(bts))
	}
	line, _ := bufio.NewReader(os.Stdin).ReadString('\n')
	m := kv(strings.Fields(line)[1:])
	dir := os.Getenv("C19_DIR")
	mp, err := mappingprovider.New("", mappingprovider.WithMapping(seq.TestMapping))
	if err != nil {
		out.Err = "mapping: " + err.Error()
		emit()
		return
	}
	os.MkdirAll(filepath.Join(dir, "data"), 0o755)
	st, err := storeapi.NewStore(context.Background(), storeapi.StoreConfig{
		FracManager: fracmanager.Config{DataDir: filepath.Join(dir, "data"), FracSize: 1 << 30, TotalSize: 1 << 40, MaintenanceDelay: time.Hour},
		API:         storeapi.APIConfig{StoreMode: storeapi.StoreModeCold, Search: storeapi.SearchConfig{WorkersCount: 4, FractionsPerIteration: 2}},
	}, mp)
	if err != nil {
		out.Err = "store: " + err.Error()
		emit()
		return
	}
	fm := st.FracManager
	var docs []sdoc
	for _, e := range splitList(m["docs"], ",") {
		p := strings.Split(e, ":")
		d := sdoc{id: seq.ID{MID: seq.MID(atou(p[0])), RID: seq.RID(atou(p[1]))}, svc: p[2], val: p[3]}
		if len(p) >= 6 {
			d.msg, d.uri = atoi(p[4]), atoi(p[5])
		}
		docs = append(docs, d)
	}
	groups := strings.Split(m["layout"], ";")
	for gi, grp := range groups {
		dp := frac.NewDocProvider()
		for _, e := range splitList(grp, ",") {
			body, toks := docTokens(docs[atoi(e)])
			dp.Append(body, nil, docs[atoi(e)].id, toks)
		}
		if dp.DocCount > 0 {
			dm, mm := dp.Provide()
			if err := fm.Append(context.Background(), dm, mm); err != nil {
				out.Err = "append: " + err.Error()
				emit()
				return
			}
			fm.WaitIdle()
		}
		if gi < len(groups)-1 || m["lastActive"] != "1" {
			fm.SealForcedForTests()
		}
	}
	ing := search.NewIngestor(search.Config{HotStores: &stores.Stores{Shards: [][]string{{"s0"}}}}, map[string]pb.StoreApiClient{"s0": storeapi.NewClient(st)})
	h := proxyapi.VerifNewGrpcV1C16(ing, time.Minute)
	ctx := context.Background()
	query := &seqproxyapi.SearchQuery{Query: queryOf(m), From: timestamppb.New(time.UnixMilli(parseI64(m["from"]))), To: timestamppb.New(time.UnixMilli(parseI64(m["to"])))}
	var hist *seqproxyapi.HistQuery
	if m["interval"] != "0" {
		hist = &seqproxyapi.HistQuery{Interval: m["interval"] + "ms"}
	}
	var aggs []*seqproxyapi.AggQuery
	switch m["agg"] {
	case "count":
		aggs = []*seqproxyapi.AggQuery{{GroupBy: "service", Func: seqproxyapi.AggFunc_AGG_FUNC_COUNT}}
	case "pods":
		aggs = []*seqproxyapi.AggQuery{{GroupBy: "k8s_pod", Func: seqproxyapi.AggFunc_AGG_FUNC_COUNT}}
	case "countboth": // a client filling the legacy `field` and `group_by` at once, with different values
		aggs = []*seqproxyapi.AggQuery{{Field: "k8s_pod", GroupBy: "service", Func: seqproxyapi.AggFunc_AGG_FUNC_COUNT}}
	case "maxby", "minby", "avgby", "quantby":
		fn := map[string]seqproxyapi.AggFunc{"maxby": seqproxyapi.AggFunc_AGG_FUNC_MAX, "minby": seqproxyapi.AggFunc_AGG_FUNC_MIN,
			"avgby": seqproxyapi.AggFunc_AGG_FUNC_AVG, "quantby": seqproxyapi.AggFunc_AGG_FUNC_QUANTILE}[m["agg"]]
		aq := &seqproxyapi.AggQuery{Field: "request_duration", GroupBy: "service", Func: fn}
		if m["agg"] == "quantby" {
			aq.Quantiles = []float64{0.5, 1}
		}
		aggs = []*seqproxyapi.AggQuery{aq}
	case "uniq":
		aggs = []*seqproxyapi.AggQuery{{GroupBy: "k8s_pod", Func: seqproxyapi.AggFunc_AGG_FUNC_UNIQUE}}
	case "sumby":
		aggs = []*seqproxyapi.AggQuery{{Field: "request_duration", GroupBy: "service", Func: seqproxyapi.AggFunc_AGG_FUNC_SUM}}
	}
	ord := seqproxyapi.Order(atoi(m["order"]))
	size, offset := atoi(m["size"]), atoi(m["offset"])
	start, err := h.StartAsyncSearch(ctx, &seqproxyapi.StartAsyncSearchRequest{Retention: durationpb.New(time.Hour), Query: query, Aggs: aggs, Hist: hist, Order: ord})
	if err != nil {
		out.Err = "start: " + err.Error()
		emit()
		return
	}
	deadline := time.Now().Add(8 * time.Second)
	var resp *seqproxyapi.FetchAsyncSearchResultResponse
	for {
		var pan string
		func() {
			defer func() {
				if x := recover(); x != nil {
					pan = fmt.Sprint(x)
				}
			}()
			resp, err = h.FetchAsyncSearchResult(ctx, &seqproxyapi.FetchAsyncSearchResultRequest{SearchId: start.SearchId, Size: int32(size), Offset: int32(offset)})
		}()
		if pan != "" {
			out.Err = "handler-panic"
			out.Async = pan
			emit()
			return
		}
		if err != nil {
			out.Err = "fetch: " + err.Error()
			emit()
			return
		}
		if resp.Done || time.Now().After(deadline) {
			break
		}
		time.Sleep(2 * time.Millisecond)
	}
	if !resp.Done {
		out.Err = "not-done"
		emit()
		return
	}
	out.Async = fmt.Sprintf("ids=%s hist=%s aggs=%s", protoDocsIDs(resp.Response.Docs), protoHist(resp.Response.Hist), protoAggs(resp.Response.Aggs))
	cs := &seqproxyapi.ComplexSearchRequest{Query: query, Aggs: aggs, Hist: hist, Size: int64(size), Offset: int64(offset), Order: ord}
	if size <= 0 && hist == nil && len(aggs) == 0 {
		cs.Size = 1 // ComplexSearch insists on something to do; the ids are then not compared
	}
	sresp, err := h.ComplexSearch(ctx, cs)
	if err != nil {
		out.Err = "sync: " + err.Error()
		emit()
		return
	}
	ids := protoDocsIDs(sresp.Docs)
	if size <= 0 {
		ids = "-"
	}
	h2 := "-"
	if hist != nil {
		h2 = protoHist(sresp.Hist)
	} else if resp.Response.Hist != nil && len(resp.Response.Hist.Buckets) == 0 {
		out.Async = strings.Replace(out.Async, "hist=-", "hist=-", 1)
	}
	out.Sync = fmt.Sprintf("ids=%s hist=%s aggs=%s", ids, h2, protoAggs(sresp.Aggs))
	emit()
}

func genAPIH(g gen, o vh.Opts) []string {
	var lines []string
	for c := 0; c < o.Pick(25, 250); c++ {
		n := g.r.Range(1, 12)
		seen := map[seq.ID]bool{}
		var docs []string
		for len(docs) < n {
			id := seq.ID{MID: seq.MID(1 + g.r.Intn(40)), RID: seq.RID(g.r.Intn(2))}
			if seen[id] {
				continue
			}
			seen[id] = true
			docs = append(docs, fmt.Sprintf("%d:%d:%s:%d:%d:%d", uint64(id.MID), id.RID, []string{"a", "b"}[g.r.Intn(2)], g.r.Intn(100), g.r.Intn(len(messages)), g.r.Intn(len(uris))))
		}
		k := g.r.Range(1, 3)
		layout := make([][]int, k)
		for i := range docs {
			j := g.r.Intn(k)
			layout[j] = append(layout[j], i)
		}
		var lay []string
		for _, idx := range layout {
			lay = append(lay, vh.JoinInts(idx))
		}
		query := []string{"service:a", "_all_:*", `message:"hello world"`, "_all_:*"}[g.r.Intn(4)]
		from, to := 0, 100000
		if g.r.Chance(1, 3) {
			from = g.r.Intn(20)
			to = from + g.r.Intn(30)
		}
		lines = append(lines, fmt.Sprintf("asyncapih docs=%s layout=%s lastActive=%s qx=%s from=%d to=%d interval=%d order=%d agg=%s size=%d offset=%d",
			strings.Join(docs, ","), strings.Join(lay, ";"), b(g.r.Bool()), vh.Hex([]byte(query)), from, to,
			[]int{0, 5, 10, 250}[g.r.Intn(4)], g.r.Intn(2), []string{"none", "count", "pods", "countboth", "sumby", "maxby", "minby", "avgby", "quantby", "uniq", "maxby"}[g.r.Intn(11)], []int{0, 1, 3, 5, 100}[g.r.Intn(5)], []int{0, 0, 0, 1, 2}[g.r.Intn(5)]))
	}
	return lines
}

func runAPIH(lines []string, orc *vh.Oracle, rep *vh.Report) {
	root, err := os.MkdirTemp("", "c19apih")
	if err != nil {
		orc.Error = err.Error()
		return
	}
	defer os.RemoveAll(root)
	for i, line := range lines {
		m := kv(strings.Fields(line)[1:])
		dir := filepath.Join(root, fmt.Sprintf("h%d", i))
		os.MkdirAll(dir, 0o755)
		out, code, se := runChild("apih", dir, line, 40*time.Second)
		os.RemoveAll(dir)
		orc.Case(line, m["size"] != "0", "size="+m["size"], "offset="+m["offset"], "agg="+m["agg"], "hist="+b(m["interval"] != "0"))
		switch {
		case out.Err == "handler-panic":
			rep.Violate(vh.Violation{Site: "proxyapi/grpc_async_search.go:FetchAsyncSearchResult", Class: "async-fetch-panics-on-ids",
				What: "the handler panics when the finished async search has hits and Size > 0: " + out.Async, Replay: []string{line}})
		case code != 0:
			rep.Violate(vh.Violation{Site: "proxyapi/grpc_async_search.go:FetchAsyncSearchResult", Class: "process-died",
				What: fmt.Sprintf("exit %d: %s", code, lastLine(se)), Replay: []string{line}})
		case out.Err != "":
			orc.Error = "apih child: " + out.Err + " on " + line
		case out.Async != out.Sync:
			class := "async-api-result-differs-from-sync"
			if m["offset"] != "0" && strings.SplitN(out.Async, " hist=", 2)[1] == strings.SplitN(out.Sync, " hist=", 2)[1] {
				class = "async-api-offset-page-differs-from-sync"
			}
			rep.Violate(vh.Violation{Site: "proxyapi/grpc_async_search.go:FetchAsyncSearchResult", Class: class,
				What: fmt.Sprintf("async: %s ; ComplexSearch: %s", out.Async, out.Sync), Replay: []string{line}})
		}
	}
}
