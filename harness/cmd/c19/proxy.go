// The proxy's async fan-out (proxy/search/async.go) against scripted StoreApiClient fakes:
//
//	pfetch <desc> <size> <hi> <shard|shard|...>   shard = replica+replica+..., replica = n | u | e | o<done>=<ids>/<total>/<hist>
//	       real search.Ingestor.FetchAsyncSearchResult vs SV.ProxyAsync.proxyFetch          (channel proxy.async.fetch)
//	pstart <bits|bits|...>                          per replica: does StartAsyncSearch succeed
//	       real search.Ingestor.StartAsyncSearch: which replicas are called, success        (channel proxy.async.start)
//
// Oracle proxy.async.done: scenarios in which every shard has ONE replica that accepted the search (replicas before it
// answer NotFound; it answers, is unreachable, or fails): an answer with Done=true must contain every shard's result.
package main

import (
	"context"
	"errors"
	"fmt"
	"strings"
	"sync"
	"time"

	"google.golang.org/grpc"
	"google.golang.org/grpc/codes"
	"google.golang.org/grpc/status"
	"google.golang.org/protobuf/types/known/timestamppb"

	"github.com/ozontech/seq-db/pkg/seqproxyapi/v1"
	pb "github.com/ozontech/seq-db/pkg/storeapi"
	"github.com/ozontech/seq-db/proxy/search"
	"github.com/ozontech/seq-db/proxy/stores"
	"github.com/ozontech/seq-db/proxyapi"
	"github.com/ozontech/seq-db/seq"

	"verifharness/internal/vh"
)

type asyncFake struct {
	pb.StoreApiClient
	host    string
	outcome string // fetch: n | u | e | o<done>=<qpr> ; start: "1" accept, "0" refuse
	desc    bool
	hi      uint64
	mu      *sync.Mutex
	called  *[]string
}

func (f *asyncFake) note() {
	f.mu.Lock()
	*f.called = append(*f.called, f.host)
	f.mu.Unlock()
}

func (f *asyncFake) StartAsyncSearch(context.Context, *pb.StartAsyncSearchRequest, ...grpc.CallOption) (*pb.StartAsyncSearchResponse, error) {
	f.note()
	if f.outcome == "1" {
		return &pb.StartAsyncSearchResponse{}, nil
	}
	return nil, status.Error(codes.Unavailable, "store down")
}

func (f *asyncFake) FetchAsyncSearchResult(context.Context, *pb.FetchAsyncSearchResultRequest, ...grpc.CallOption) (*pb.FetchAsyncSearchResultResponse, error) {
	f.note()
	switch f.outcome {
	case "n":
		return nil, status.Error(codes.NotFound, "search not found")
	case "u":
		return nil, status.Error(codes.Unavailable, "connection refused")
	case "e":
		return nil, status.Error(codes.Internal, "boom")
	}
	tag, qs, _ := strings.Cut(f.outcome, "=")
	q := parseQPR(qs + "/nil")
	resp := &pb.SearchResponse{Total: q.Total, Histogram: map[uint64]uint64{}}
	for _, id := range q.IDs {
		resp.IdSources = append(resp.IdSources, &pb.SearchResponse_IdWithHint{Id: &pb.SearchResponse_Id{Mid: uint64(id.ID.MID), Rid: uint64(id.ID.RID)}})
	}
	for k, v := range q.Histogram {
		resp.Histogram[uint64(k)] = v
	}
	return &pb.FetchAsyncSearchResultResponse{Done: tag == "o1", Response: resp, Expiration: timestamppb.New(time.Now().Add(time.Hour)),
		HistogramInterval: int64(f.hi), Order: pb.MustProtoOrder(order(f.desc))}, nil
}

func buildAsyncProxy(shards [][]string, desc bool, hi uint64) (*search.Ingestor, *[]string) {
	clients := map[string]pb.StoreApiClient{}
	var hosts [][]string
	var mu sync.Mutex
	called := &[]string{}
	for s, reps := range shards {
		var hs []string
		for r, out := range reps {
			h := fmt.Sprintf("s%d-r%d", s, r)
			clients[h] = &asyncFake{host: h, outcome: out, desc: desc, hi: hi, mu: &mu, called: called}
			hs = append(hs, h)
		}
		hosts = append(hosts, hs)
	}
	return search.NewIngestor(search.Config{HotStores: &stores.Stores{Shards: hosts}}, clients), called
}

func splitShards(s string) [][]string {
	var res [][]string
	for _, sh := range strings.Split(s, "|") {
		if sh == "z" { // a shard configured without any replica
			res = append(res, nil)
			continue
		}
		res = append(res, strings.Split(sh, "+"))
	}
	return res
}

func runPFetch(line string) (res string) {
	defer func() {
		if r := recover(); r != nil {
			res = "panic"
		}
	}()
	f := strings.Fields(line)
	ing, _ := buildAsyncProxy(splitShards(f[4]), f[1] == "1", atou(f[3]))
	resp, err := ing.FetchAsyncSearchResult(context.Background(), search.FetchAsyncSearchResultRequest{ID: "x", Size: atoi(f[2])})
	if err != nil {
		if status.Code(err) == codes.NotFound {
			return "err not-found"
		}
		return "err fail"
	}
	q := resp.QPR
	return fmt.Sprintf("ok %s %s/%d/%s", vh.B(resp.Done), fmtIDs(q.IDs), q.Total, fmtHist(q.Histogram))
}

// hfetch <desc> <offset> <size> <hi> <shards> : the proxy's gRPC handler over the real ingestor over scripted stores
func runHFetch(line string) (res string) {
	defer func() {
		if r := recover(); r != nil {
			res = "panic"
		}
	}()
	f := strings.Fields(line)
	ing, _ := buildAsyncProxy(splitShards(f[5]), f[1] == "1", atou(f[4]))
	h := proxyapi.VerifNewGrpcV1C16(ing, time.Minute)
	resp, err := h.FetchAsyncSearchResult(context.Background(), &seqproxyapi.FetchAsyncSearchResultRequest{SearchId: "x", Offset: int32(atoi(f[2])), Size: int32(atoi(f[3]))})
	if err != nil {
		if status.Code(err) == codes.NotFound {
			return "err not-found"
		}
		return "err fail"
	}
	var ids []string
	for _, d := range resp.Response.Docs {
		id, err := seq.FromString(d.Id)
		if err != nil {
			return "err bad-id"
		}
		ids = append(ids, fmt.Sprintf("%d:%d", uint64(id.MID), uint64(id.RID)))
	}
	hist := map[seq.MID]uint64{}
	if resp.Response.Hist != nil {
		for _, bk := range resp.Response.Hist.Buckets {
			hist[seq.MID(bk.Ts.AsTime().UnixMilli())] = bk.DocCount
		}
	}
	return fmt.Sprintf("ok %s docs=%s hist=%s", vh.B(resp.Done), vh.JoinStrs(ids, ","), fmtHist(hist))
}

func runPStart(line string) (res string) {
	defer func() {
		if r := recover(); r != nil {
			res = "panic"
		}
	}()
	f := strings.Fields(line)
	var shards [][]string
	for _, sh := range strings.Split(f[1], "|") {
		var reps []string
		if sh != "z" {
			for _, c := range sh {
				reps = append(reps, string(c))
			}
		}
		shards = append(shards, reps)
	}
	ing, called := buildAsyncProxy(shards, true, 0)
	_, err := ing.StartAsyncSearch(context.Background(), search.AsyncRequest{Query: "service:a", From: time.UnixMilli(0), To: time.UnixMilli(1000)})
	was := map[string]bool{}
	for _, h := range *called {
		was[h] = true
	}
	var parts []string
	for s, reps := range shards {
		bits := ""
		for r := range reps {
			bits += vh.B(was[fmt.Sprintf("s%d-r%d", s, r)])
		}
		if len(reps) == 0 {
			bits = "z"
		}
		parts = append(parts, bits)
	}
	if err != nil {
		return "err " + strings.Join(parts, "|")
	}
	return "ok " + strings.Join(parts, "|")
}

func genProxyAsync(g gen, chF, chS, chH *vh.Channel, orc *vh.Oracle, rep *vh.Report, n int) {
	qtext := func(desc bool, hi uint64) (string, []string) {
		q := g.qprText(desc, false, g.r.Intn(4), 20, map[bool]int{true: 2, false: 1}[hi > 0])
		p := strings.Split(q, "/")
		return strings.Join(p[:3], "/"), splitList(p[0], ",")
	}
	for i := 0; i < n; i++ {
		desc := g.r.Bool()
		hi := []uint64{0, 1}[g.r.Intn(2)]
		size := []int{0, 2, 5, 100}[g.r.Intn(4)]
		nsh := g.r.Range(1, 3)
		// (a) arbitrary scripts
		var shards []string
		for s := 0; s < nsh; s++ {
			var reps []string
			for r := 0; r < g.r.Range(1, 3); r++ {
				switch g.r.Intn(6) {
				case 0, 1:
					reps = append(reps, "n")
				case 2:
					reps = append(reps, "u")
				case 3:
					reps = append(reps, "e")
				default:
					q, _ := qtext(desc, hi)
					reps = append(reps, fmt.Sprintf("o%s=%s", vh.B(g.r.Chance(2, 3)), q))
				}
			}
			shards = append(shards, strings.Join(reps, "+"))
		}
		if g.r.Chance(1, 12) { // degenerate stores configuration: a shard without replicas
			shards[g.r.Intn(len(shards))] = "z"
		}
		line := fmt.Sprintf("pfetch %s %d %d %s", vh.B(desc), size, hi, strings.Join(shards, "|"))
		got := runPFetch(line)
		if strings.Contains(line, "z") {
			chF.Tag("empty-shard-" + strings.Fields(got)[0])
		}
		chF.Add(line, got, nsh > 1 && strings.HasPrefix(got, "ok"), "answer="+strings.Fields(got + " -")[0]+"-"+strings.Fields(got + " -")[1], fmt.Sprintf("shards=%d", nsh))
		// (b) the property: every shard has one accepting replica
		shards = shards[:0]
		allDone, allAnswer := true, true
		var want []string
		for s := 0; s < nsh; s++ {
			nrep := g.r.Range(1, 3)
			acc := g.r.Intn(nrep)
			var reps []string
			for r := 0; r < nrep; r++ {
				switch {
				case r < acc:
					reps = append(reps, "n")
				case r > acc:
					reps = append(reps, []string{"n", "u"}[g.r.Intn(2)]) // never asked by correct code
				default:
					switch g.r.Intn(5) {
					case 0:
						reps = append(reps, "u") // the store holding this shard's part is down
						allAnswer = false
					case 1:
						reps = append(reps, "e")
						allAnswer = false
					default:
						q, ids := qtext(desc, hi)
						d := g.r.Chance(2, 3)
						allDone = allDone && d
						want = append(want, ids...)
						reps = append(reps, fmt.Sprintf("o%s=%s", vh.B(d), q))
					}
				}
			}
			shards = append(shards, strings.Join(reps, "+"))
		}
		line = fmt.Sprintf("pfetch %s %d %d %s", vh.B(desc), 1000, hi, strings.Join(shards, "|"))
		got = runPFetch(line)
		chF.Add(line, got, nsh > 1, "accepted-scenario")
		orc.Case(line, nsh > 1 && !allAnswer, "all-answer="+vh.B(allAnswer))
		if strings.HasPrefix(got, "ok ") {
			gf := strings.Fields(got)
			gotIDs := map[string]bool{}
			for _, id := range splitList(strings.SplitN(gf[2], "/", 2)[0], ",") {
				gotIDs[id] = true
			}
			missing := ""
			for _, id := range want {
				if !gotIDs[id] {
					missing = id
				}
			}
			switch {
			case !allAnswer:
				rep.Violate(vh.Violation{Site: "proxy/search/async.go:FetchAsyncSearchResult", Class: "answers-while-a-shard-is-unreachable",
					What: "a shard's accepting replica is unreachable or failed, yet the proxy answers " + got, Replay: []string{line}})
			case gf[1] == "1" && !allDone:
				rep.Violate(vh.Violation{Site: "proxy/search/async.go:FetchAsyncSearchResult", Class: "done-before-every-shard-is-done",
					What: "Done=true although a shard reported not done: " + got, Replay: []string{line}})
			case missing != "":
				rep.Violate(vh.Violation{Site: "proxy/search/async.go:FetchAsyncSearchResult", Class: "shard-result-missing",
					What: "ID " + missing + " of a shard's result is missing from " + got, Replay: []string{line}})
			}
		}
		// (d) the public handler, with Size / Offset
		{
			var hs []string
			for sIdx := 0; sIdx < nsh; sIdx++ {
				q, _ := qtext(desc, hi)
				if g.r.Chance(1, 8) {
					hs = append(hs, "n+o1="+q)
				} else {
					hs = append(hs, fmt.Sprintf("o%s=%s", vh.B(g.r.Chance(3, 4)), q))
				}
			}
			if g.r.Chance(1, 10) {
				hs[0] = "u"
			}
			hline := fmt.Sprintf("hfetch %s %d %d %d %s", vh.B(desc), []int{0, 0, 1, 2}[g.r.Intn(4)], []int{0, 1, 3, 100}[g.r.Intn(4)], hi, strings.Join(hs, "|"))
			gh := runHFetch(hline)
			chH.Add(hline, gh, strings.Contains(gh, "docs=") && !strings.Contains(gh, "docs=-"), "answer="+strings.Fields(gh)[0])
		}
		// (c) start
		var sb []string
		for s := 0; s < g.r.Range(1, 3); s++ {
			bits := ""
			for r := 0; r < g.r.Range(1, 3); r++ {
				bits += vh.B(g.r.Chance(3, 5))
			}
			if g.r.Chance(1, 12) {
				bits = "z"
			}
			sb = append(sb, bits)
		}
		line = "pstart " + strings.Join(sb, "|")
		gs := runPStart(line)
		chS.Add(line, gs, strings.Contains(line, "0"), "answer="+strings.Fields(gs)[0])
	}
}

var _ = errors.New
var _ = seq.DocsOrderAsc
