// The loaders of the sealed-index caches (frac.IDsLoader: MIDs / RIDs / params blocks; token.TableLoader: the token
// table) over a real index file, through real caches sharing a cleaner, with a ONE-SHOT read fault: the file is
// first incomplete (its tail is missing), then completed.
//
//	cache.indexloaders.property   after the fault is gone every lookup returns exactly what was written (a failed load
//	                              must not leave an entry), the token table spanning several index blocks equals the
//	                              written table on every Get, and the accounted size equals the bytes held.
//
// Every scenario runs in a child process: TableLoader.Load ends the process with logger.Fatal on a load error.
package main

import (
	"encoding/binary"
	"fmt"
	"os"
	"os/exec"
	"strings"

	"github.com/ozontech/seq-db/cache"
	"github.com/ozontech/seq-db/consts"
	"github.com/ozontech/seq-db/disk"
	"github.com/ozontech/seq-db/frac"
	"github.com/ozontech/seq-db/frac/token"
	"github.com/ozontech/seq-db/packer"
	"github.com/ozontech/seq-db/seq"

	"verifharness/internal/vh"
)

type tblField struct {
	name    string
	entries []*token.TableEntry
}

type indexFile struct {
	content []byte
	mids    [][]uint64
	rids    [][]uint64
	params  [][]uint64
	table   []tblField
	idStart uint32
}

func varints(vals []uint64) []byte {
	var b []byte
	prev := uint64(0)
	for _, v := range vals {
		b = binary.AppendVarint(b, int64(v-prev))
		prev = v
	}
	return b
}

func tableFields(prefix string, fields, entries int) []tblField {
	var res []tblField
	for f := 0; f < fields; f++ {
		fd := tblField{name: fmt.Sprintf("%s_field_%03d_%s", prefix, f, strings.Repeat("n", f%7))}
		for e := 0; e < entries; e++ {
			fd.entries = append(fd.entries, &token.TableEntry{
				StartTID: uint32(1 + f*1000 + e*10), ValCount: 10, BlockIndex: 1,
				MinVal: fmt.Sprintf("%s-min-%03d-%02d", prefix, f, e),
				MaxVal: fmt.Sprintf("%s-max-%03d-%02d-%s", prefix, f, e, strings.Repeat("v", 3+(f+e)%9)),
			})
		}
		res = append(res, fd)
	}
	return res
}

func packTable(fields []tblField) []byte {
	p := packer.NewBytesPacker(nil)
	for _, f := range fields {
		p.PutStringWithSize(f.name)
		p.PutUint32(uint32(len(f.entries)))
		for _, e := range f.entries {
			e.Pack(p)
		}
	}
	return p.Data
}

// buildIndex writes: info, tokens, end, three token-table blocks of decreasing size, end, then nID triplets
// (MIDs, RIDs, params).  front = the registry is placed before the blocks (so that a missing tail hits block data),
// otherwise it is at the end of the file as the sealer writes it (a missing tail hits the registry).
func buildIndex(r *vh.RNG, front bool, nID int) (*indexFile, error) {
	f, err := os.CreateTemp("", "c18-index-*")
	if err != nil {
		return nil, err
	}
	defer os.Remove(f.Name())
	defer f.Close()
	ix := &indexFile{}
	nBlocks := 7 + 3*nID
	regSize := int64(nBlocks * disk.IndexBlockHeaderSize)
	start := int64(16)
	if front {
		start += regSize
	}
	if _, err := f.Seek(start, 0); err != nil {
		return nil, err
	}
	w := disk.NewBlocksWriter(f)
	write := func(data []byte, compress bool) error {
		_, err := w.WriteBlock("c18", data, compress, 1, 0, 0)
		return err
	}
	write([]byte("info"), false)
	write([]byte("tokens"), false)
	w.WriteEmptyBlock()
	parts := [][]tblField{tableFields("aaa", 60+r.Intn(30), 3), tableFields("mmm", 30+r.Intn(10), 2), tableFields("zzz", 8+r.Intn(8), 2)}
	for _, p := range parts {
		ix.table = append(ix.table, p...)
		if err := write(packTable(p), r.Bool()); err != nil {
			return nil, err
		}
	}
	w.WriteEmptyBlock()
	ix.idStart = w.GetBlockIndex()
	for b := 0; b < nID; b++ {
		n := 150 + r.Intn(100)
		var m, q, p []uint64
		for i := 0; i < n; i++ {
			m = append(m, uint64(1000*(b+1)+3*i))
			q = append(q, uint64(77*(b+1)+5*i+r.Intn(3)))
			p = append(p, uint64(b*100000+40*i+r.Intn(30)))
		}
		ix.mids, ix.rids, ix.params = append(ix.mids, m), append(ix.rids, q), append(ix.params, p)
		for _, vals := range [][]uint64{m, q, p} {
			if err := write(varints(vals), true); err != nil {
				return nil, err
			}
		}
	}
	if err := w.WriteBlocksRegistry(); err != nil {
		return nil, err
	}
	content, err := os.ReadFile(f.Name())
	if err != nil {
		return nil, err
	}
	if front { // move the registry in front of the blocks
		pos := binary.LittleEndian.Uint64(content)
		l := binary.LittleEndian.Uint64(content[8:])
		if int64(l) != regSize {
			return nil, fmt.Errorf("registry size %d, expected %d", l, regSize)
		}
		copy(content[16:], content[pos:pos+l])
		binary.LittleEndian.PutUint64(content, 16)
		content = content[:pos]
	}
	ix.content = content
	return ix, nil
}

// indexChild: args = seed, front(0/1), cut (bytes missing at first), ops.  Prints FINDING lines and DONE.
func indexChild(args []string) {
	var seed int64
	var front, cut int
	fmt.Sscanf(args[0], "%d", &seed)
	fmt.Sscanf(args[1], "%d", &front)
	fmt.Sscanf(args[2], "%d", &cut)
	ops := strings.Split(args[3], ";")
	ix, err := buildIndex(vh.NewRNG(seed), front == 1, 3)
	if err != nil {
		fmt.Println("ERROR", err)
		return
	}
	f, err := os.CreateTemp("", "c18-index-run-*")
	if err != nil {
		fmt.Println("ERROR", err)
		return
	}
	defer os.Remove(f.Name())
	if cut < 0 { // the file ends in the middle of block number -cut
		h := disk.IndexBlockHeader(ix.content[16+disk.IndexBlockHeaderSize*(-cut) : 16+disk.IndexBlockHeaderSize*(-cut+1)])
		cut = len(ix.content) - int(h.GetPos()) - int(h.Len())/2
	}
	if cut > len(ix.content)-16 {
		cut = len(ix.content) - 16
	}
	f.Write(ix.content[:len(ix.content)-cut])
	complete := cut == 0

	cl := cache.NewCleaner(200000, nil)
	ic := &frac.IndexCache{
		Registry: cache.NewCache[[]byte](cl, nil), MIDs: cache.NewCache[[]byte](cl, nil), RIDs: cache.NewCache[[]byte](cl, nil),
		Params: cache.NewCache[[]uint64](cl, nil), TokenTable: cache.NewCache[token.Table](cl, nil),
	}
	reader := disk.NewIndexReader(disk.NewReadLimiter(1, nil), f, ic.Registry)
	il := frac.NewIDsLoader(&reader, ic, frac.IDsTable{IDBlocksTotal: 3, IDsTotal: 3 * consts.IDsPerBlock, DiskStartBlockIndex: ix.idStart})
	faulted := false // a lookup failed while the file was incomplete

	finding := func(site, class, what string) { fmt.Printf("FINDING %s|%s|%s\n", site, class, what) }
	check := func(kind string, b int, got, want []uint64, p any, site string) {
		switch {
		case p != nil && !complete:
			faulted = true // the load failed while the file is incomplete: fine
		case p != nil:
			class := "lookup-fails-on-a-complete-file"
			if faulted {
				class = "failed-load-poisons-cache"
			}
			finding(site, class, fmt.Sprintf("%s block %d on the complete file: %v", kind, b, trunc(fmt.Sprint(p))))
		default:
			same := len(got) == len(want)
			for i := 0; same && i < len(want); i++ {
				same = got[i] == want[i]
			}
			if !same {
				class := "cached-value-differs-from-written"
				if !complete || faulted {
					class = "failed-load-poisons-cache"
				}
				finding(site, class, fmt.Sprintf("%s block %d: %d values, first %v; written %d values, first %v", kind, b, len(got), first(got), len(want), first(want)))
			}
		}
	}
	for _, op := range ops {
		fmt.Println("OP", op)
		var b int
		if len(op) > 1 {
			fmt.Sscanf(op[1:], "%d", &b)
		}
		switch op[0] {
		case '+':
			f.Write(ix.content[len(ix.content)-cut:])
			complete = true
		case 'r':
			cl.Rotate()
		case 'c':
			cl.Cleanup(&cache.CleanStat{})
		case 'M', 'Q':
			var got []uint64
			var p any
			func() {
				defer func() { p = recover() }()
				uc := frac.NewUnpackCache()
				defer uc.Release()
				lid := seq.LID(b * consts.IDsPerBlock)
				want := ix.mids[b]
				if op[0] == 'M' {
					il.GetMIDsBlock(lid, uc)
				} else {
					il.GetRIDsBlock(lid, uc, frac.BinaryDataVersion(0))
					want = ix.rids[b]
				}
				for i := range want {
					got = append(got, uc.GetValByLID(uint64(lid)+uint64(i)))
				}
			}()
			if op[0] == 'M' {
				check("MIDs", b, got, ix.mids[b], p, "frac/sealed_ids.go:loadMIDBlock")
			} else {
				check("RIDs", b, got, ix.rids[b], p, "frac/sealed_ids.go:loadRIDBlock")
			}
		case 'P':
			var got []uint64
			var p any
			func() {
				defer func() { p = recover() }()
				got = il.GetParamsBlock(uint32(b))
			}()
			check("params", b, got, ix.params[b], p, "frac/sealed_ids.go:loadParamsBlock")
		case 'T':
			var tbl token.Table
			var p any
			func() {
				defer func() { p = recover() }()
				tbl = token.NewTableLoader("c18", &reader, ic.TokenTable).Load()
			}()
			site := "frac/token/table_loader.go:load"
			if p != nil {
				if complete {
					finding(site, map[bool]string{true: "failed-load-poisons-cache", false: "lookup-fails-on-a-complete-file"}[faulted], "token table on the complete file: "+trunc(fmt.Sprint(p)))
				} else {
					faulted = true
				}
				continue
			}
			if diff := tableDiff(tbl, ix.table); diff != "" {
				class := "cached-value-differs-from-written"
				if !complete || faulted {
					class = "failed-load-poisons-cache"
				}
				if !complete {
					faulted = true
				}
				finding(site, class, "token table: "+diff)
			}
		}
	}
	// accounting
	var live uint64
	for _, c := range []anyCache{ic.Registry, ic.MIDs, ic.RIDs, ic.Params, ic.TokenTable} {
		for _, e := range c.VerifEntries() {
			live += e.Size
		}
	}
	if got := cl.VerifGetSize(); got != live {
		finding("cache/cleaner.go:getSize", "accounted-size-differs-from-live-entries", fmt.Sprintf("getSize = %d, bytes held = %d", got, live))
	}
	fmt.Println("DONE")
}

func trunc(s string) string {
	if len(s) > 120 {
		return s[:120]
	}
	return s
}

func first(v []uint64) []uint64 {
	if len(v) > 3 {
		return v[:3]
	}
	return v
}

func tableDiff(got token.Table, want []tblField) string {
	if len(got) != len(want) {
		return fmt.Sprintf("%d fields, written %d", len(got), len(want))
	}
	for _, f := range want {
		fd, ok := got[f.name]
		if !ok {
			return fmt.Sprintf("field %q is missing", f.name)
		}
		if fd.MinVal != f.entries[0].MinVal || len(fd.Entries) != len(f.entries) {
			return fmt.Sprintf("field %q: MinVal %q / %d entries, written %q / %d", f.name, fd.MinVal, len(fd.Entries), f.entries[0].MinVal, len(f.entries))
		}
		for i, e := range fd.Entries {
			w := f.entries[i]
			if e.MaxVal != w.MaxVal || e.StartTID != w.StartTID || e.ValCount != w.ValCount {
				return fmt.Sprintf("field %q entry %d: MaxVal %q, written %q", f.name, i, e.MaxVal, w.MaxVal)
			}
		}
	}
	return ""
}

// runIndexScenario runs one scenario in a child process.
func runIndexScenario(seed int64, front bool, cut int, ops []string) (viols []vh.Violation, note string) {
	replay := fmt.Sprintf("index %d %s %d %s", seed, vh.B(front), cut, strings.Join(ops, ";"))
	out, err := exec.Command(os.Args[0], "child-index", fmt.Sprint(seed), vh.B(front), fmt.Sprint(cut), strings.Join(ops, ";")).CombinedOutput()
	lastOp, completeSeen := "", false
	for _, l := range strings.Split(string(out), "\n") {
		if strings.HasPrefix(l, "OP ") {
			lastOp = strings.TrimPrefix(l, "OP ")
			if lastOp == "+" {
				completeSeen = true
			}
		}
		if strings.HasPrefix(l, "FINDING ") {
			f := strings.SplitN(strings.TrimPrefix(l, "FINDING "), "|", 3)
			if len(f) == 3 {
				viols = append(viols, vh.Violation{Site: f[0], Class: f[1], What: f[2], Replay: []string{replay}})
			}
		}
		if strings.HasPrefix(l, "ERROR ") {
			note = l
		}
	}
	if !strings.Contains(string(out), "DONE") {
		if completeSeen || cut == 0 {
			viols = append(viols, vh.Violation{Site: "frac/token/table_loader.go:load", Class: "process-ended-on-a-complete-file",
				What: fmt.Sprintf("the process ended (logger.Fatal / crash) at op %s although the index file is complete (%v)", lastOp, err), Replay: []string{replay}})
		} else {
			note = "the process ended at op " + lastOp + " while the file was incomplete (fatal load error)"
		}
	}
	return viols, note
}

func genIndexOps(r *vh.RNG, n int, withFault bool) []string {
	var ops []string
	completed := !withFault
	for len(ops) < n {
		x := r.Intn(100)
		switch {
		case x < 22:
			ops = append(ops, fmt.Sprintf("M%d", r.Intn(3)))
		case x < 44:
			ops = append(ops, fmt.Sprintf("Q%d", r.Intn(3)))
		case x < 62:
			ops = append(ops, fmt.Sprintf("P%d", r.Intn(3)))
		case x < 74 && completed: // under a fault Load() may end the process: only after the file is complete
			ops = append(ops, "T")
		case x < 82:
			ops = append(ops, "r")
		case x < 88:
			ops = append(ops, "c")
		case !completed && len(ops) >= 2:
			ops = append(ops, "+")
			completed = true
		}
	}
	if !completed {
		ops = append(ops, "+")
	}
	// after the fault is gone everything is looked up again, twice
	for i := 0; i < 2; i++ {
		ops = append(ops, "M0", "Q0", "P0", "M1", "Q1", "P1", "M2", "Q2", "P2", "T")
	}
	return ops
}
