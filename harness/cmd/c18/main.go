// C18 harness: the real package cache (Cache[int] + Cleaner) against the Lean model SV.Cache.
//
//	cache.seq              sequential public calls (Get / GetWithError / panic / Release / Rotate / Cleanup /
//	                       CleanEmptyGenerations / ReleaseBuckets / NewCache) vs SV.Cache.runSeq: returned values,
//	                       loader calls, Rotate/Cleanup results, getSize after every call, final bucket list,
//	                       generation sizes and payload contents.  Exhaustive over a 12-letter alphabet up to a
//	                       length, seeded random beyond.
//	cleaner.releaseBuckets all released subsets of <= N buckets vs SV.Cache.releaseBuckets (exhaustive)
//	cache.trace            forced interleavings (several goroutines, loaders blocked by the harness, waiters
//	                       detected through the metrics hook) vs SV.Cache.run, label by label
//	cache.property         the property itself on the real code, independent of the model
//	cache.stress           concurrent callers + maintainer: only schedule-independent facts (values, termination)
package main

import (
	"errors"
	"fmt"
	"os"
	"sort"
	"strconv"
	"strings"
	"sync/atomic"
	"time"

	"go.uber.org/zap"

	"github.com/ozontech/seq-db/cache"
	"github.com/ozontech/seq-db/logger"

	"verifharness/internal/vh"
)

var errLoader = errors.New("loader failed")

type panicVal struct{ n int }

// ---------------------------------------------------------------- real world, sequential

// probe is the bucket the harness registers with the cleaner: the real cache, plus an observation point in
// Released() (polled by Cleaner.ReleaseBuckets) from which the harness can attempt a concurrent AddBucket.
type probe struct {
	*cache.Cache[int]
	w    *world
	gate func() // called once, inside the first SetGeneration (the one Cleaner.AddBucket makes)
}

func (p *probe) SetGeneration(g *cache.Generation) {
	if f := p.gate; f != nil {
		p.gate = nil
		f()
	}
	p.Cache.SetGeneration(g)
}

func (p *probe) Released() bool {
	if f := p.w.onPoll; f != nil {
		f()
	}
	return p.Cache.Released()
}

type world struct {
	limit   uint64
	cl      *cache.Cleaner
	caches  []*cache.Cache[int]
	probes  []*probe
	onPoll  func()
	rel     []bool
	rebuilt int // maps rebuilt so far (MapsRecreated counter)
	metrics func() *cache.Metrics
	// property bookkeeping (independent of the model)
	produced map[[2]int]map[int]bool // (cache,key) -> values a loader returned
	failed   map[[2]int]bool         // (cache,key) whose last load failed and no call since
	viol     *vh.Violation
}

func newWorld(limit uint64) *world {
	return &world{limit: limit, cl: cache.NewCleaner(limit, nil), produced: map[[2]int]map[int]bool{}, failed: map[[2]int]bool{}}
}

func (w *world) entrySize() uint64 {
	return cache.NewCache[int](nil, nil).VerifEntrySize()
}

func (w *world) addCache() { w.addCacheGated(nil) }

// addCacheWithMaintenance registers a new cache while the maintainer's Rotate ('r') or Cleanup ('c') is attempted at
// the moment AddBucket calls SetGeneration on the new bucket.  AddBucket does that inside the cleaner's critical
// section, so the maintainer can only run after it: the observable result equals "NewCache; Rotate|Cleanup".
func (w *world) addCacheWithMaintenance(kind byte) string {
	entered, proceed, added, done := make(chan struct{}), make(chan struct{}), make(chan struct{}), make(chan string, 1)
	go func() {
		w.addCacheGated(func() {
			close(entered)
			select {
			case <-proceed:
			case <-time.After(5 * time.Second):
			}
		})
		close(added)
	}()
	<-entered
	go func() {
		if kind == 'r' {
			b, sz := w.cl.Rotate()
			done <- fmt.Sprintf("r%s.%d", vh.B(b), sz)
			return
		}
		st := &cache.CleanStat{}
		before := w.rebuilt
		if !w.cl.Cleanup(st) {
			done <- "c0.0.0"
			return
		}
		done <- fmt.Sprintf("c1.%d.%d.%d.%d.%d", st.SizeToClean, st.GensCleaned, st.BytesReleased, st.BucketsCleaned, w.rebuilt-before)
	}()
	var out string
	got := false
	select {
	case out = <-done: // the maintainer got in between (only possible if SetGeneration is outside the critical section)
		got = true
	case <-time.After(25 * time.Millisecond):
	}
	close(proceed)
	<-added
	if !got {
		out = <-done
	}
	return out
}

func (w *world) addCacheGated(gate func()) {
	m := cache.VerifMetrics(nil, nil, func() { w.rebuilt++ })
	if w.metrics != nil {
		m = w.metrics()
	}
	// NewCache(cleaner, m) = NewCache(nil, m) + cleaner.AddBucket(bucket); the bucket is the probe around the cache
	c := cache.NewCache[int](nil, m)
	p := &probe{Cache: c, w: w, gate: gate}
	w.caches = append(w.caches, c)
	w.probes = append(w.probes, p)
	w.rel = append(w.rel, false)
	w.cl.AddBucket(p)
}

// releaseBucketsWithAdd runs Cleaner.ReleaseBuckets while another goroutine tries to create a cache (AddBucket)
// from inside the first Released() poll.  ReleaseBuckets works under the cleaner's mutex, so the new bucket can
// only be appended after it: the observable result equals "ReleaseBuckets; NewCache".
func (w *world) releaseBucketsWithAdd() int {
	done := make(chan struct{})
	started := false
	w.onPoll = func() {
		if started {
			return
		}
		started = true
		go func() { w.addCache(); close(done) }()
		select {
		case <-done:
		case <-time.After(25 * time.Millisecond):
		}
	}
	n := w.cl.ReleaseBuckets()
	w.onPoll = nil
	if !started {
		w.addCache()
	} else {
		<-done
	}
	return n
}

func (w *world) violate(site, class, what string) {
	if w.viol == nil {
		w.viol = &vh.Violation{Site: site, Class: class, What: what}
	}
}

func (w *world) noteValue(c, k, v int, loaded bool) {
	ck := [2]int{c, k}
	if loaded {
		if w.produced[ck] == nil {
			w.produced[ck] = map[int]bool{}
		}
		w.produced[ck][v] = true
	} else if !w.produced[ck][v] {
		w.violate("cache/cache.go:Get", "value-not-produced-for-key", fmt.Sprintf("cache %d key %d returned %d which no loader run for that key produced", c, k, v))
	}
}

// doOp runs one sequential op on the real package and returns its canonical output (without @size).
func (w *world) doOp(op string) (string, error) {
	arg := func() ([]int, error) {
		var res []int
		for _, f := range strings.Split(op[1:], ".") {
			v, err := strconv.Atoi(f)
			if err != nil {
				return nil, fmt.Errorf("bad op %q", op)
			}
			res = append(res, v)
		}
		return res, nil
	}
	checkCache := func(c int) error {
		if c < 0 || c >= len(w.caches) {
			return fmt.Errorf("op %q: no cache %d", op, c)
		}
		return nil
	}
	switch op[0] {
	case 'n':
		w.addCache()
		return "-", nil
	case 'g', 'e', 'p':
		a, err := arg()
		if err != nil {
			return "", err
		}
		if err := checkCache(a[0]); err != nil {
			return "", err
		}
		if w.rel[a[0]] {
			return "", fmt.Errorf("op %q: lookup on a released cache is outside the property", op)
		}
		c, k := a[0], a[1]
		ck := [2]int{c, k}
		called := false
		var out string
		switch op[0] {
		case 'g':
			if len(a) != 4 {
				return "", fmt.Errorf("bad op %q", op)
			}
			v := w.caches[c].Get(uint32(k), func() (int, int) { called = true; return a[2], a[3] })
			if called && v != a[2] {
				w.violate("cache/cache.go:Get", "loader-value-not-returned", fmt.Sprintf("loader produced %d, caller got %d", a[2], v))
			}
			w.noteValue(c, k, v, called)
			out = "v" + strconv.Itoa(v)
		case 'e':
			v, err := w.caches[c].GetWithError(uint32(k), func() (int, int, error) { called = true; return 0, 0, errLoader })
			switch {
			case called && err != errLoader:
				w.violate("cache/cache.go:GetWithError", "loader-error-not-reported", "the loader failed but its caller got no error")
				out = "v" + strconv.Itoa(v)
			case called:
				out = "e"
			case err != nil:
				w.violate("cache/cache.go:GetWithError", "error-without-loader", "error returned although the loader did not run")
				out = "e"
			default:
				w.noteValue(c, k, v, false)
				out = "v" + strconv.Itoa(v)
			}
		case 'p':
			pv := &panicVal{k}
			var v int
			var rec any
			func() {
				defer func() { rec = recover() }()
				v = w.caches[c].Get(uint32(k), func() (int, int) { called = true; panic(pv) })
			}()
			switch {
			case called && rec != any(pv):
				w.violate("cache/cache.go:Get", "loader-panic-not-reported", "the loader panicked but its caller did not see that panic")
				out = "v" + strconv.Itoa(v)
			case called:
				out = "p"
			case rec != nil:
				return "", fmt.Errorf("op %q: unexpected panic %v", op, rec)
			default:
				w.noteValue(c, k, v, false)
				out = "v" + strconv.Itoa(v)
			}
		}
		if w.failed[ck] && !called {
			w.violate("cache/cache.go:recover", "poisoned-key", fmt.Sprintf("after a failed load of cache %d key %d the next lookup did not run its loader", c, k))
		}
		w.failed[ck] = called && op[0] != 'g'
		if called {
			out = "l+" + out
		}
		return out, nil
	case 'x':
		a, err := arg()
		if err != nil {
			return "", err
		}
		if err := checkCache(a[0]); err != nil {
			return "", err
		}
		w.caches[a[0]].Release()
		w.rel[a[0]] = true
		return "-", nil
	case 'r':
		b, sz := w.cl.Rotate()
		return fmt.Sprintf("r%s.%d", vh.B(b), sz), nil
	case 'c':
		st := &cache.CleanStat{}
		before := w.rebuilt
		if !w.cl.Cleanup(st) {
			return "c0.0.0", nil
		}
		if w.limit > 0 && w.cl.VerifGetSize() > w.limit {
			w.violate("cache/cleaner.go:Cleanup", "size-over-limit-after-cleanup", fmt.Sprintf("getSize %d > limit %d after a Cleanup pass without concurrent lookups", w.cl.VerifGetSize(), w.limit))
		}
		return fmt.Sprintf("c1.%d.%d.%d.%d.%d", st.SizeToClean, st.GensCleaned, st.BytesReleased, st.BucketsCleaned, w.rebuilt-before), nil
	case 'z':
		return fmt.Sprintf("n%d", w.cl.CleanEmptyGenerations()), nil
	case 'b':
		return fmt.Sprintf("n%d", w.cl.ReleaseBuckets()), nil
	case 'B':
		return fmt.Sprintf("n%d", w.releaseBucketsWithAdd()), nil
	case 'A':
		if len(op) != 2 || (op[1] != 'r' && op[1] != 'c') {
			return "", fmt.Errorf("bad op %q", op)
		}
		return w.addCacheWithMaintenance(op[1]), nil
	}
	return "", fmt.Errorf("bad op %q", op)
}

func (w *world) liveSum() uint64 {
	var sum uint64
	for i, c := range w.caches {
		if w.rel[i] {
			continue
		}
		for _, e := range c.VerifEntries() {
			sum += e.Size
		}
	}
	return sum
}

// checkQuiescent asserts the accounting and management clauses on the real objects.
func (w *world) checkQuiescent() {
	if got, want := w.cl.VerifGetSize(), w.liveSum(); got != want {
		w.violate("cache/cleaner.go:getSize", "accounted-size-differs-from-live-entries", fmt.Sprintf("getSize = %d, sum of live entry sizes = %d", int64(got), want))
	}
	bs := w.cl.VerifBuckets()
	gens := w.cl.VerifGenerations()
	for i, c := range w.caches {
		if w.rel[i] {
			continue
		}
		if len(gens) == 0 || c.VerifCurrentGeneration() != gens[len(gens)-1] {
			w.violate("cache/cleaner.go:AddBucket", "bucket-generation-not-last", fmt.Sprintf("unreleased cache %d allocates into a generation (position %s) that is not the cleaner's last generation", i, w.genPos(c.VerifCurrentGeneration())))
		}
		found := false
		_ = c
		for _, b := range bs {
			if b == any(w.probes[i]) {
				found = true
			}
		}
		if !found {
			w.violate("cache/cleaner.go:ReleaseBuckets", "live-bucket-dropped", fmt.Sprintf("unreleased cache %d is no longer in the cleaner's bucket list", i))
		}
	}
}

func (w *world) genPos(g *cache.Generation) string {
	if g.VerifStale() {
		return "s"
	}
	for i, x := range w.cl.VerifGenerations() {
		if x == g {
			return strconv.Itoa(i)
		}
	}
	return "x"
}

func (w *world) state() string {
	var bs []int
	for _, b := range w.cl.VerifBuckets() {
		idx := -1
		for i, p := range w.probes {
			if b == any(p) {
				idx = i
			}
		}
		bs = append(bs, idx)
	}
	var gens []int64
	for _, g := range w.cl.VerifGenerations() {
		gens = append(gens, int64(g.VerifSize()))
	}
	var cs []string
	for i, c := range w.caches {
		es := c.VerifEntries()
		sort.Slice(es, func(a, b int) bool { return es[a].Key < es[b].Key })
		var body []string
		for _, e := range es {
			st := "v"
			if e.Loading {
				st = "l"
			}
			body = append(body, fmt.Sprintf("%d:%d:%s:%s", e.Key, e.Size, w.genPos(e.Gen), st))
		}
		cs = append(cs, fmt.Sprintf("%d/%s/%s/%d/%s", i, vh.B(w.rel[i]), w.genPos(c.VerifCurrentGeneration()), c.VerifMaxPayloadSize(), vh.JoinStrs(body, ",")))
	}
	return fmt.Sprintf("size=%d live=%d buckets=%s gens=%s caches=%s", int64(w.cl.VerifGetSize()), w.liveSum(), vh.JoinInts(bs), vh.JoinInts(gens), vh.JoinStrs(cs, "|"))
}

// runSeq runs an op list; returns the driver request, the canonical impl answer and a possible violation.
func runSeq(limit uint64, ops []string) (req, impl string, viol *vh.Violation, err error) {
	w := newWorld(limit)
	var outs, mops []string
	for _, op := range ops {
		sizeBefore := int64(w.cl.VerifGetSize())
		o, e := w.doOp(op)
		if e != nil {
			return "", "", nil, e
		}
		if op[0] == 'A' { // for the model: NewCache, then the maintainer call that had to wait for AddBucket
			mops = append(mops, "n", op[1:])
			outs = append(outs, fmt.Sprintf("-@%d", sizeBefore), fmt.Sprintf("%s@%d", o, int64(w.cl.VerifGetSize())))
			w.checkQuiescent()
			continue
		}
		outs = append(outs, fmt.Sprintf("%s@%d", o, int64(w.cl.VerifGetSize())))
		if op == "B" { // for the model: ReleaseBuckets, then the AddBucket that had to wait for it
			mops = append(mops, "b", "n")
			outs = append(outs, fmt.Sprintf("-@%d", int64(w.cl.VerifGetSize())))
		} else {
			mops = append(mops, op)
		}
		w.checkQuiescent()
	}
	req = fmt.Sprintf("seq %d %d %s", limit, w.entrySize(), vh.JoinStrs(mops, ";"))
	impl = fmt.Sprintf("ok %s | %s", vh.JoinStrs(outs, ";"), w.state())
	if w.viol != nil {
		w.viol.Replay = []string{fmt.Sprintf("seq %d %d %s", limit, w.entrySize(), vh.JoinStrs(ops, ";"))}
	}
	return req, impl, w.viol, nil
}

// ---------------------------------------------------------------- generators

func validSeq(ops []string) bool {
	n := 0
	rel := map[int]bool{}
	for _, op := range ops {
		switch op[0] {
		case 'n', 'B', 'A':
			n++
		case 'g', 'e', 'p', 'x':
			c, _ := strconv.Atoi(strings.Split(op[1:], ".")[0])
			if c >= n || (op[0] != 'x' && rel[c]) {
				return false
			}
			if op[0] == 'x' {
				rel[c] = true
			}
		}
	}
	return true
}

func genSeq(r *vh.RNG, n int) (uint64, []string) {
	limit := []uint64{0, 400, 1000, 1000, 3000, 20000}[r.Intn(6)]
	maxSz := []int{0, 100, 300, 700}[r.Intn(4)]
	nc := r.Range(1, 4)
	nk := r.Range(1, 5)
	var ops []string
	rel := []bool{}
	for i := 0; i < nc; i++ {
		ops = append(ops, "n")
		rel = append(rel, false)
	}
	val := 0
	for len(ops) < n {
		var live []int
		for i, x := range rel {
			if !x {
				live = append(live, i)
			}
		}
		x := r.Intn(100)
		switch {
		case x < 45 && len(live) > 0:
			val++
			ops = append(ops, fmt.Sprintf("g%d.%d.%d.%d", live[r.Intn(len(live))], r.Intn(nk), val, r.Intn(maxSz+1)))
		case x < 52 && len(live) > 0:
			ops = append(ops, fmt.Sprintf("e%d.%d", live[r.Intn(len(live))], r.Intn(nk)))
		case x < 58 && len(live) > 0:
			ops = append(ops, fmt.Sprintf("p%d.%d", live[r.Intn(len(live))], r.Intn(nk)))
		case x < 66:
			ops = append(ops, "r")
		case x < 78:
			ops = append(ops, "c")
		case x < 83:
			ops = append(ops, "z")
		case x < 89:
			if r.Intn(40) == 0 && len(rel) < 7 {
				ops = append(ops, "B")
				rel = append(rel, false)
			} else {
				ops = append(ops, "b")
			}
		case x < 95 && len(rel) > 0:
			c := r.Intn(len(rel))
			ops = append(ops, fmt.Sprintf("x%d", c))
			rel[c] = true
		default:
			if len(rel) < 7 {
				switch r.Intn(30) {
				case 0:
					ops = append(ops, "Ar")
				case 1:
					ops = append(ops, "Ac")
				default:
					ops = append(ops, "n")
				}
				rel = append(rel, false)
			}
		}
	}
	return limit, ops
}

func seqTags(ops []string, impl string) []string {
	tags := []string{fmt.Sprintf("len=%d", len(ops)/10*10)}
	for _, k := range []string{"c1.", "r1.", "l+e", "l+p", ";v"} {
		if strings.Contains(impl, k) {
			tags = append(tags, "saw="+k)
		}
	}
	return tags
}

func main() {
	logger.SetLevel(zap.FatalLevel)
	if len(os.Args) > 5 && os.Args[1] == "child-index" {
		indexChild(os.Args[2:])
		return
	}
	if len(os.Args) > 2 && os.Args[1] == "child-budget" {
		budgetChild(os.Args[2:])
		return
	}
	if len(os.Args) > 4 && os.Args[1] == "child-stress" {
		stressChild(os.Args[2:])
		return
	}
	o := vh.ParseFlags()
	rep := vh.NewReport("C18", o)
	rng := vh.NewRNG(o.Seed)
	// watchdog: a sequential call on the real package that never returns (e.g. a waiter spinning on an entry that
	// was never removed) becomes an observation with the exact op list instead of a hung check
	var progress atomic.Int64
	var current atomic.Value
	go func() {
		last, stuck := int64(-1), 0
		for {
			time.Sleep(time.Second)
			if p := progress.Load(); p == last {
				stuck++
			} else {
				stuck, last = 0, p
			}
			if stuck >= 60 {
				cur, _ := current.Load().(string)
				rep.Violate(vh.Violation{Site: "cache/cache.go:getOrCreate", Class: "call-does-not-return", What: "a call on the real package did not return within 60 s", Replay: []string{cur}})
				rep.Write(o.Out)
				os.Exit(0)
			}
		}
	}()

	chSeq := vh.NewChannel("cache.seq", "real Cache[int]+Cleaner vs SV.Cache.runSeq on the same op list: per call the returned value / loader call / error / panic, Rotate and Cleanup results, getSize after every call, final buckets, generation sizes, payloads; non-trivial = a Cleanup pass freed something or a loader failed")
	chRB := vh.NewChannel("cleaner.releaseBuckets", "all subsets of released buckets for every bucket count up to the bound: real Cleaner.ReleaseBuckets vs SV.Cache.releaseBuckets; non-trivial = at least one released and one live bucket")
	chRB.Exhaustive = true
	orc := vh.NewOracle("cache.property", "on the real package after every call: returned value was produced by a loader run for that (cache,key); a failed load is reported to its caller and the next lookup loads again; getSize = sum of live entry sizes; every unreleased cache is in the cleaner's bucket list; getSize <= limit after a Cleanup pass; non-trivial = the run contains a Cleanup that freed entries, a failed load or a ReleaseBuckets with a released bucket")

	addSeq := func(limit uint64, ops []string, tags ...string) {
		current.Store(fmt.Sprintf("seq %d 0 %s", limit, strings.Join(ops, ";")))
		progress.Add(1)
		req, impl, viol, err := runSeq(limit, ops)
		if err != nil {
			rep.Note("generator bug: %v", err)
			return
		}
		nt := strings.Contains(impl, "l+e") || strings.Contains(impl, "l+p") || (strings.Contains(impl, "c1.") && !strings.Contains(impl, ".0.0@"))
		chSeq.Add(req, impl, nt, append(seqTags(ops, impl), tags...)...)
		orc.Case(req, nt || strings.Contains(req, "x"), tags...)
		if viol != nil {
			rep.Violate(*viol)
		}
	}

	chTr := vh.NewChannel("cache.trace", "forced interleavings on the real package (goroutines parked in their loaders / in wg.Wait between harness actions) vs SV.Cache.run on the same label sequence: what every Get / wake-up returned, getSize after every step, final state; non-trivial = some caller blocked on another caller's load or a load failed")
	addTrace := func(limit uint64, acts []string, tags ...string) {
		current.Store(fmt.Sprintf("sched %d %s", limit, strings.Join(acts, ";")))
		progress.Add(1)
		req, impl, viol, applied, err := runTrace(limit, acts)
		if err != nil {
			rep.Note("trace harness error on %v: %v", applied, err)
			if strings.Contains(err.Error(), "no event within") || strings.Contains(err.Error(), "still blocked") {
				rep.Violate(vh.Violation{Site: "cache/cache.go:getOrCreate", Class: "callers-blocked-forever", What: err.Error(), Replay: []string{fmt.Sprintf("sched %d %s", limit, strings.Join(acts, ";"))}})
			} else {
				chTr.Error = err.Error()
			}
			return
		}
		nt := strings.Contains(impl, ";w@") || strings.Contains(impl, ";e@") || strings.Contains(impl, ";p@")
		chTr.Add(req, impl, nt, append(tags, fmt.Sprintf("steps=%d", len(applied)/10*10))...)
		for _, k := range []string{";w@", ";e@", ";p@", "c1."} {
			if strings.Contains(impl, k) {
				chTr.Tag("saw=" + k)
			}
		}
		orc.Case(req, nt, tags...)
		if viol != nil {
			rep.Violate(*viol)
		}
	}

	chM := vh.NewChannel("maintainer.seq", "real fracmanager.CacheMaintainer (docs layer caches created through it, lookups, Release, whole maintenance ticks = one synchronous run of the RunCleanLoop body with / without garbageCollection) vs SV.Cache.runSeq with tickOps: values, getSize after every op, final buckets / generations / payloads; non-trivial = a tick changed the accounted size")
	orcM := vh.NewOracle("maintainer.property", "real CacheMaintainer + frac.IndexCache after every op: per cleaner getSize = bytes held by caches whose owner has not released them; after IndexCache.Release every cache of the set is released; after a gc tick none of them is a bucket; after any quiet tick getSize <= limit for every cleaner; non-trivial = the history contains a tick above the limit or a released index cache set")
	addMaint := func(total uint64, ops []string, tags ...string) {
		current.Store(fmt.Sprintf("maint %d %s", total, strings.Join(ops, ";")))
		progress.Add(1)
		req, impl, viol, err := runMaint(total, ops)
		if err != nil {
			rep.Note("generator bug (maint): %v", err)
			return
		}
		nt := false
		toks := strings.Split(strings.SplitN(strings.TrimPrefix(impl, "ok "), " | ", 2)[0], ";")
		for i, tk := range toks {
			if i > 0 && (strings.HasPrefix(tk, "t@") || strings.HasPrefix(tk, "T@")) && tk[2:] != toks[i-1][strings.Index(toks[i-1], "@")+1:] {
				nt = true
			}
		}
		chM.Add(req, impl, nt, tags...)
		orcM.Case(req+" "+strings.Join(ops, ";"), nt || strings.Contains(strings.Join(ops, ";"), "J"), tags...)
		if viol != nil {
			rep.Violate(*viol)
		}
	}

	chL := vh.NewChannel("cache.loader", "real disk.DocsReader (loader of the doc-block cache) over a docs file with CodecNo and zstd blocks of equal pool size classes, through a real Cache[[]byte] + Cleaner, vs SV.Cache.runSeq with the written block as the loader's value: hit / load, value identity, accounted size after every step; non-trivial = a block is read again after other blocks were loaded")
	orcL := vh.NewOracle("cache.loader.property", "every read through the cache returns exactly the bytes written for that block; non-trivial = the run re-reads a cached block")
	addLoader := func(seed int64, limit uint64, nb int, acts []string, tags ...string) {
		current.Store(fmt.Sprintf("loader %d %d %d %s", seed, limit, nb, strings.Join(acts, ";")))
		progress.Add(1)
		req, impl, viol, err := runLoader(seed, limit, nb, acts)
		if err != nil {
			rep.Note("loader harness error: %v", err)
			chL.Error = err.Error()
			return
		}
		nt := strings.Contains(impl, ";v")
		chL.Add(req, impl, nt, tags...)
		orcL.Case(req, nt, tags...)
		if viol != nil {
			rep.Violate(*viol)
		}
	}
	orcI := vh.NewOracle("cache.indexloaders.property", "real frac.IDsLoader (MIDs / RIDs / params) and token.TableLoader over a real index file through real caches, with a one-shot read fault (missing tail, then completed): once the file is complete every lookup returns what was written (no entry left by a failed load), the token table of three index blocks equals the written one on every Get, getSize = bytes held; non-trivial = the scenario has a fault or a token-table lookup")
	addIndex := func(seed int64, front bool, cut int, ops []string, tags ...string) {
		key := fmt.Sprintf("index %d %s %d %s", seed, vh.B(front), cut, strings.Join(ops, ";"))
		current.Store(key)
		progress.Add(1)
		viols, note := runIndexScenario(seed, front, cut, ops)
		if note != "" {
			orcI.Distribution["ended-under-fault"]++
		}
		orcI.Case(key, cut > 0 || strings.Contains(key, "T"), tags...)
		for _, v := range viols {
			rep.Violate(v)
		}
	}
	chB := vh.NewChannel("cache.budget", "fracmanager.FillConfigWithDefault + NewCacheMaintainer on a grid of (CacheSize, FracSize, SortCacheSize set/unset) vs SV.Budget (naturals): effective sort-cache size equal, every layer limit within one unit of the exact floor (or garbage above the cache size exactly when the model's remainder is negative); non-trivial = CacheSize > 0")
	orcB := vh.NewOracle("cache.budget.property", "on the real cleaners: every limit <= CacheSize and positive (CacheSize >= 1 MiB), limits sum to at most CacheSize, and after overfilling the docs layer three quiet maintenance ticks leave at most CacheSize accounted; non-trivial = CacheSize > 0")
	addBudgets := func(cases []budgetCase, tags ...string) {
		current.Store("budget grid")
		progress.Add(1)
		for i, r := range runBudgetCases(cases) {
			if r.req == "" {
				continue
			}
			chB.Add(r.req, r.impl, cases[i].C > 0, tags...)
			orcB.Case(r.req, cases[i].C > 0, tags...)
			if r.impl == "ok rejected" {
				chB.Tag("rejected")
			}
			if r.viol != nil {
				rep.Violate(*r.viol)
			}
		}
	}
	addBudget := func(bc budgetCase, tags ...string) { addBudgets([]budgetCase{bc}, tags...) }

	if o.Replay != "" {
		lines, err := vh.ReadReplay(o.Replay)
		if err != nil {
			fmt.Fprintln(os.Stderr, err)
			os.Exit(3)
		}
		for _, l := range lines {
			f := strings.Fields(l)
			if len(f) == 4 && f[0] == "seq" {
				lim, _ := strconv.ParseUint(f[1], 10, 64)
				addSeq(lim, strings.Split(f[3], ";"), "replay")
			}
			if len(f) == 5 && f[0] == "loader" {
				sd, _ := strconv.ParseInt(f[1], 10, 64)
				lim, _ := strconv.ParseUint(f[2], 10, 64)
				nb, _ := strconv.Atoi(f[3])
				addLoader(sd, lim, nb, strings.Split(f[4], ";"), "replay")
			}
			if len(f) == 5 && f[0] == "index" {
				sd, _ := strconv.ParseInt(f[1], 10, 64)
				cut, _ := strconv.Atoi(f[3])
				addIndex(sd, f[2] == "1", cut, strings.Split(f[4], ";"), "replay")
			}
			if len(f) == 4 && f[0] == "budget" {
				c, _ := strconv.ParseUint(f[1], 10, 64)
				fr, _ := strconv.ParseUint(f[2], 10, 64)
				sc, _ := strconv.ParseUint(f[3], 10, 64)
				addBudget(budgetCase{c, fr, sc}, "replay")
			}
			if len(f) == 3 && f[0] == "maint" {
				tot, _ := strconv.ParseUint(f[1], 10, 64)
				addMaint(tot, strings.Split(f[2], ";"), "replay")
			}
			if len(f) == 3 && f[0] == "sched" {
				lim, _ := strconv.ParseUint(f[1], 10, 64)
				addTrace(lim, strings.Split(f[2], ";"), "replay")
			}
		}
	} else {
		// 1. ReleaseBuckets, exhaustive
		maxB := o.Pick(7, 10)
		for n := 0; n <= maxB; n++ {
			for m := 0; m < 1<<n; m++ {
				w := newWorld(1000)
				flags := ""
				for i := 0; i < n; i++ {
					w.addCache()
					if m>>i&1 == 1 {
						w.caches[i].Release()
						w.rel[i] = true
						flags += "1"
					} else {
						flags += "0"
					}
				}
				if n == 0 {
					flags = "-"
				}
				w.cl.ReleaseBuckets()
				st := w.state()
				bs := st[strings.Index(st, "buckets=")+8:]
				bs = bs[:strings.Index(bs, " ")]
				chRB.Add("rb "+flags, "ok "+bs, m != 0 && m != 1<<n-1, fmt.Sprintf("n=%d", n))
				w.checkQuiescent()
				if w.viol != nil {
					ops := []string{}
					for i := 0; i < n; i++ {
						ops = append(ops, "n")
					}
					for i := 0; i < n; i++ {
						if w.rel[i] {
							ops = append(ops, fmt.Sprintf("x%d", i))
						}
					}
					ops = append(ops, "b")
					addSeq(1000, ops, "rb-witness")
				}
			}
		}
		// 2. two rounds of release + ReleaseBuckets over <= 5 buckets, exhaustive (3^n assignments)
		for n := 1; n <= 5; n++ {
			total := 1
			for i := 0; i < n; i++ {
				total *= 3
			}
			for m := 0; m < total; m++ {
				var ops, r1, r2 []string
				x := m
				for i := 0; i < n; i++ {
					ops = append(ops, "n")
					switch x % 3 {
					case 1:
						r1 = append(r1, fmt.Sprintf("x%d", i))
					case 2:
						r2 = append(r2, fmt.Sprintf("x%d", i))
					}
					x /= 3
				}
				if r1 == nil && r2 == nil {
					continue
				}
				ops = append(ops, r1...)
				ops = append(ops, "b")
				ops = append(ops, r2...)
				ops = append(ops, "b", "n", "r")
				addSeq(1000, ops, "rb-two-rounds")
			}
		}
		// 2b. ReleaseBuckets with a cache being created concurrently (AddBucket attempted from inside the poll)
		for _, sc := range []string{"n;B;g1.1.5.10", "n;n;x0;B;g2.1.5.10;b", "n;n;n;x0;x2;B;x1;B;r;g3.1.1.600;g4.1.2.600;c", "B;g0.1.1.1", "n;x0;B;B;g1.1.1.1;g2.1.1.1"} {
			addSeq(1000, strings.Split(sc, ";"), "rb-concurrent-add")
		}
		// 2b'. a cache registered (AddBucket) while the maintainer's Rotate / Cleanup is attempted at the very moment
		//      AddBucket hands the generation to the new bucket
		for _, sc := range []string{
			"n;g0.1.1.300;Ar;g1.1.2.300;g1.2.3.300;r;c;z;g1.1.4.300",
			"n;g0.1.1.600;g0.2.2.600;Ac;g1.1.3.300;g1.2.4.300;g1.3.5.300;g1.4.6.300;c;z",
			"Ar;g0.1.1.100;r;Ar;g1.1.2.100;g0.1.3.100",
			"n;g0.1.1.2000;Ac;g1.1.2.400;g1.2.3.400;g1.3.4.400;c;g1.1.5.400;z;c",
			"n;n;g0.1.1.300;x0;Ar;b;g2.1.2.300;g1.1.3.300;r;g2.1.4.300;c",
		} {
			addSeq(1000, strings.Split(sc, ";"), "addbucket-vs-maintainer")
		}
		// 2c. histories that reach recreatePayload: N entries, rotate, k more, Cleanup (limit 3000 keeps the k new ones),
		//     around both thresholds (N = 199/200/201, k*10 vs N+k), then more calls and a second pass
		for _, N := range []int{199, 200, 201, 230} {
			for _, k := range []int{0, 1, 19, 20, 21, 22, 23, 24, 25, 26, 30} {
				ops := []string{"n"}
				for i := 0; i < N; i++ {
					ops = append(ops, fmt.Sprintf("g0.%d.%d.1", i, i))
				}
				ops = append(ops, "r")
				for j := 0; j < k; j++ {
					ops = append(ops, fmt.Sprintf("g0.%d.%d.1", 1000+j, j))
				}
				ops = append(ops, "c", "g0.1000.7.1", "g0.5.8.1", "e0.6", "r", "g0.7.9.2900", "c", "z")
				addSeq(3000, ops, "rebuild")
			}
		}
		// 3. all op sequences over a small alphabet (after creating two caches)
		alphabet := []string{"g0.1.1.300", "g0.2.2.300", "g1.1.3.300", "e0.1", "p1.1", "x0", "x1", "r", "c", "z", "b", "n"}
		maxLen := o.Pick(4, 5)
		var rec func(prefix []string)
		rec = func(prefix []string) {
			if len(prefix) > 2 && validSeq(prefix) {
				addSeq(1000, prefix, "small-scope")
			}
			if len(prefix)-2 >= maxLen || !validSeq(prefix) {
				return
			}
			for _, a := range alphabet {
				rec(append(append([]string{}, prefix...), a))
			}
		}
		rec([]string{"n", "n"})
		// 4. seeded random, longer
		nRand := o.Pick(3000, 60000)
		for i := 0; i < nRand; i++ {
			limit, ops := genSeq(rng, rng.Range(5, 60))
			addSeq(limit, ops, "random", fmt.Sprintf("limit=%d", limit))
		}
	}

	if o.Replay == "" {
		// 5. forced interleavings: directed schedules (single flight, failed loads with waiters, evictions and releases
		//    while a load is in flight), then seeded random schedules
		for _, sc := range []string{
			"n;G0.0.1;G1.0.1;H2.0.1;F0.5.100",                 // two waiters get the loader's value
			"n;H0.0.1;G1.0.1;G2.0.1;E0;F1.6.10;F2.7.10",       // failed load: one waiter re-loads, the other waits on it
			"n;G0.0.1;G1.0.1;P0;P1",                           // panic, re-attempt, panic again
			"n;G0.0.1;G1.0.2;F1.9.2000;r;C;F0.5.100",          // entry evicted while loading: saved with size 0
			"n;G0.0.1;G1.0.1;G2.0.2;F2.9.2000;r;C;F0.5.100",   // ... with a waiter that still gets the value
			"n;n;G0.0.1;G1.1.1;x1;F1.3.10;F0.4.10;b",          // release while loading
			"n;G0.0.1;G1.0.2;F1.9.100;r;G1.0.2;z;F0.5.100",    // load across Rotate + CleanEmptyGenerations
			"n;H0.0.1;G1.0.2;F1.9.2000;r;C;G2.0.1;E0;F2.7.100", // failed load after its entry was evicted and re-created
		} {
			addTrace(1000, strings.Split(sc, ";"), "directed")
		}
		// rebuild of the map (>= 200 entries, then >= 90% evicted) while a load of a non-stale generation is parked
		// across the Cleanup, with and without a waiter on it; around the 90% boundary
		for _, k := range []int{0, 5, 22, 23, 24} {
			for _, waiter := range []bool{false, true} {
				acts := []string{"n"}
				for i := 0; i < 230; i++ {
					acts = append(acts, fmt.Sprintf("G1.0.%d", i), fmt.Sprintf("F1.%d.1", i))
				}
				acts = append(acts, "r", "G0.0.5000")
				if waiter {
					acts = append(acts, "H2.0.5000")
				}
				for j := 0; j < k; j++ {
					acts = append(acts, fmt.Sprintf("G1.0.%d", 1000+j), fmt.Sprintf("F1.%d.1", j))
				}
				acts = append(acts, "C", "G3.0.5000", "F0.77.10", "G1.0.5000", "C", "z")
				addTrace(3000, acts, "rebuild")
			}
		}
		nTr := o.Pick(600, 12000)
		for i := 0; i < nTr; i++ {
			limit, acts := genTrace(rng, rng.Range(6, 40))
			addTrace(limit, acts, "random")
		}
	}
	if o.Replay == "" {
		// 6. concurrent callers and a maintainer, in a child process
		for i := 0; i < o.Pick(1, 4); i++ {
			runStress(rep, orc, o.Seed*10+int64(i), o.Pick(8, 16), o.Pick(20000, 150000))
		}
	}
	if o.Replay == "" {
		// 7. the maintainer's tick and index-cache sets.  Directed: the total crosses the limit while the last generation
		//    is below Rotate's 5% (98.7% old + 2.6% fresh), with and without a rotation in the same tick; an index cache
		//    set populated, released, collected
		esB := int(cache.NewCache[[]byte](nil, nil).VerifEntrySize())
		for _, lim := range []int{10000, 40000} {
			big, small := lim*987/1000-esB, lim*26/1000-esB
			for _, sc := range []string{
				fmt.Sprintf("n;g0.1.1.%d;t;g0.2.2.%d;t;t", big, small),
				fmt.Sprintf("n;g0.1.1.%d;T;g0.2.2.%d;T;g0.3.3.%d;T", big, small, small),
				fmt.Sprintf("n;n;g0.1.1.%d;t;g1.1.2.%d;g1.2.3.%d;t;x0;T;g1.3.4.%d;t", big/2, big/2, small, big),
				fmt.Sprintf("n;g0.1.1.%d;g0.2.2.%d;t;g0.3.3.%d;t", big, small*3, small),
				fmt.Sprintf("n;I%d;g0.1.1.%d;t;J0;T;g0.2.2.%d;T", lim/10, big, small),
				fmt.Sprintf("I%d;I%d;J0;t;T;J1;T;n;g0.1.1.%d;T", lim/20, lim/3, small),
			} {
				addMaint(totalFor(uint64(lim)), strings.Split(sc, ";"), "directed")
			}
		}
		for i := 0; i < o.Pick(300, 6000); i++ {
			tot, ops := genMaint(rng, rng.Range(4, 40))
			addMaint(tot, ops, "random")
		}
	}
	if o.Replay == "" {
		// 8. the loader of the doc-block cache: load A, load other blocks of the same size class, read A again
		addLoader(o.Seed, 100000, 6, strings.Split("R0;R1;R0;R3;R0;R1;R4;R3;R2;R5;R2;R0", ";"), "directed")
		addLoader(o.Seed+1, 2000, 8, strings.Split("R0;R1;R3;R4;R0;r;R6;R7;c;R0;R1;R3;R4;z;R0", ";"), "directed")
		for i := 0; i < o.Pick(150, 3000); i++ {
			nb := rng.Range(3, 12)
			addLoader(o.Seed*1000+int64(i), []uint64{0, 1500, 4000, 100000}[rng.Intn(4)], nb, genLoader(rng, nb, rng.Range(5, 40)), "random")
		}
		// 8b. the sealed-index loaders: no fault (coherence of MIDs / RIDs / params / the multi-block token table), a
		//     registry fault (tail of a normally laid out file missing), block faults (registry in front, tail missing)
		addIndex(o.Seed, false, 0, strings.Split("T;T;M0;Q0;P0;T;M1;M0;r;T;c;T;Q1;P2;T", ";"), "no-fault")
		addIndex(o.Seed, false, 40, strings.Split("M0;+;M0;M0;Q0;P0", ";"), "registry-fault")
		addIndex(o.Seed, false, 40, strings.Split("Q1;P1;M1;+;Q1;P1;M1;Q1;P1", ";"), "registry-fault")
		addIndex(o.Seed, true, 30, strings.Split("M0;P2;Q2;M2;+;P2;Q2;M2;P2;Q2", ";"), "block-fault")
		addIndex(o.Seed, true, 700, strings.Split("M2;Q1;P1;M1;+;M2;Q1;P1;M1;Q2;P2", ";"), "block-fault")
		for sd := int64(0); sd < 4; sd++ { // the file ends inside the second / third block of the token table
			addIndex(o.Seed+sd, true, -4, strings.Split("T;+;T;T;M0", ";"), "table-block-fault")
			addIndex(o.Seed+sd, true, -5, strings.Split("M0;T;+;T;T", ";"), "table-block-fault")
		}
		for i := 0; i < o.Pick(40, 600); i++ {
			front := rng.Bool()
			cut := []int{0, 20, 40, 200, 900, 3000}[rng.Intn(6)]
			addIndex(o.Seed*100+int64(i), front, cut, genIndexOps(rng, rng.Range(3, 14), cut > 0), "random")
		}
		// 9. the configured cache size and its split among the cleaners
		addBudgets(budgetGrid(rng, o.Pick(200, 5000)), "grid")
	}
	progress.Add(1)
	rep.AddChannel(chL, o.Driver)
	rep.AddOracle(orcL)
	rep.AddOracle(orcI)
	rep.AddChannel(chB, o.Driver)
	rep.AddOracle(orcB)
	progress.Add(1)
	rep.AddChannel(chM, o.Driver)
	rep.AddOracle(orcM)
	progress.Add(1)
	rep.AddChannel(chTr, o.Driver)
	progress.Add(1)
	rep.AddChannel(chRB, o.Driver)
	progress.Add(1)
	rep.AddChannel(chSeq, o.Driver)
	rep.AddOracle(orc)
	rep.Write(o.Out)
}
