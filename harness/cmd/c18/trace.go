// Forced interleavings on the real package: every caller is a goroutine whose loader blocks until the
// harness tells it how to finish; a caller that is about to block in wg.Wait() is detected through the
// WaitsTotal counter (cache.VerifMetrics).  Between two harness actions every goroutine is parked (in its
// loader, in wg.Wait, or finished), so the order of critical sections is exactly the order of the actions -
// the same labels are given to the Lean model (SV.Cache.run).
package main

import (
	"bytes"
	"fmt"
	"runtime"
	"strconv"
	"strings"
	"sync"
	"time"

	"github.com/ozontech/seq-db/cache"

	"verifharness/internal/vh"
)

type event struct {
	tid  int
	kind string // load | wait | ret | err | panic
	val  int
}

type outcome struct {
	kind  string // ok | err | panic
	v, sz int
}

type thread struct {
	state  string // idle | loading | waiting
	c, k   int
	useErr bool // GetWithError (else Get)
	resume chan outcome
	own    any // identity of the entry this thread loads into
	waitOn any // identity of the entry this thread waits on
}

type tworld struct {
	*world
	events  chan event
	goids   sync.Map // goroutine id -> tid
	threads map[int]*thread
	labels  []string // model labels
	outs    []string // impl outs, one per label
	cause   string   // first recorded reason why accounting may legitimately break in the code as written
	err     error
}

func goid() int64 {
	var buf [64]byte
	b := buf[:runtime.Stack(buf[:], false)]
	b = bytes.TrimPrefix(b, []byte("goroutine "))
	if i := bytes.IndexByte(b, ' '); i > 0 {
		n, _ := strconv.ParseInt(string(b[:i]), 10, 64)
		return n
	}
	return -1
}

func newTWorld(limit uint64) *tworld {
	tw := &tworld{world: newWorld(limit), events: make(chan event, 256), threads: map[int]*thread{}}
	tw.metrics = func() *cache.Metrics {
		return cache.VerifMetrics(func() {
			if t, ok := tw.goids.Load(goid()); ok {
				tw.events <- event{tid: t.(int), kind: "wait"}
			}
		}, nil, func() { tw.rebuilt++ })
	}
	return tw
}

func (tw *tworld) next() (event, bool) {
	select {
	case e := <-tw.events:
		return e, true
	case <-time.After(20 * time.Second):
		tw.err = fmt.Errorf("no event within 20s (deadlock in the package or in the harness)")
		return event{}, false
	}
}

func (tw *tworld) emit(label, out string) {
	tw.labels = append(tw.labels, label)
	tw.outs = append(tw.outs, fmt.Sprintf("%s@%d", out, int64(tw.cl.VerifGetSize())))
}

// settle consumes one event of thread tid and updates the mirror; returns the canonical out token.
func (tw *tworld) apply(e event) string {
	th := tw.threads[e.tid]
	switch e.kind {
	case "load":
		th.state = "loading"
		th.own = tw.caches[th.c].VerifEntryRef(uint32(th.k))
		th.waitOn = nil
		return "l"
	case "wait":
		th.state = "waiting"
		th.waitOn = tw.caches[th.c].VerifEntryRef(uint32(th.k))
		return "w"
	case "ret":
		th.state, th.own, th.waitOn = "idle", nil, nil
		return "v" + strconv.Itoa(e.val)
	case "err":
		th.state, th.own, th.waitOn = "idle", nil, nil
		return "e"
	default:
		th.state, th.own, th.waitOn = "idle", nil, nil
		return "p"
	}
}

func (tw *tworld) startGet(t, c, k int, useErr bool) {
	th := &thread{state: "starting", c: c, k: k, useErr: useErr, resume: make(chan outcome, 1)}
	tw.threads[t] = th
	cc := tw.caches[c]
	go func() {
		tw.goids.Store(goid(), t)
		defer tw.goids.Delete(goid())
		loaded := false
		var res event
		func() {
			defer func() {
				if r := recover(); r != nil {
					if pv, ok := r.(*panicVal); ok && pv.n == t {
						res = event{tid: t, kind: "panic"}
					} else {
						res = event{tid: t, kind: "panic", val: -1} // a panic that is not the loader's
					}
				}
			}()
			if useErr {
				v, err := cc.GetWithError(uint32(k), func() (int, int, error) {
					loaded = true
					tw.events <- event{tid: t, kind: "load"}
					o := <-th.resume
					switch o.kind {
					case "err":
						return 0, 0, errLoader
					case "panic":
						panic(&panicVal{t})
					}
					return o.v, o.sz, nil
				})
				if err != nil {
					res = event{tid: t, kind: "err"}
				} else {
					res = event{tid: t, kind: "ret", val: v}
				}
			} else {
				v := cc.Get(uint32(k), func() (int, int) {
					loaded = true
					tw.events <- event{tid: t, kind: "load"}
					o := <-th.resume
					if o.kind != "ok" {
						panic(&panicVal{t})
					}
					return o.v, o.sz
				})
				res = event{tid: t, kind: "ret", val: v}
			}
		}()
		_ = loaded
		tw.events <- res
	}()
}

// act executes one schedule action; returns false when the action is not applicable in the current state.
func (tw *tworld) act(a string) bool {
	if tw.err != nil {
		return false
	}
	num := func(s string) []int {
		var r []int
		for _, f := range strings.Split(s, ".") {
			v, _ := strconv.Atoi(f)
			r = append(r, v)
		}
		return r
	}
	switch {
	case a == "n":
		tw.addCache()
		tw.emit("n", "-")
	case a == "r":
		b, sz := tw.cl.Rotate()
		tw.emit("r", fmt.Sprintf("r%s.%d", vh.B(b), sz))
	case a == "C":
		st := &cache.CleanStat{}
		before := tw.rebuilt
		if tw.cl.Cleanup(st) {
			tw.emit("C", fmt.Sprintf("c1.%d.%d.%d.%d.%d", st.SizeToClean, st.GensCleaned, st.BytesReleased, st.BucketsCleaned, tw.rebuilt-before))
		} else {
			tw.emit("C", "c0.0.0")
		}
	case a == "z":
		tw.emit("z", fmt.Sprintf("n%d", tw.cl.CleanEmptyGenerations()))
	case a == "b":
		tw.emit("b", fmt.Sprintf("n%d", tw.cl.ReleaseBuckets()))
	case a[0] == 'x':
		c := num(a[1:])[0]
		if c >= len(tw.caches) {
			return false
		}
		for _, th := range tw.threads {
			if th.c == c && th.state == "loading" && tw.cause == "" {
				tw.cause = "release-during-load"
			}
		}
		tw.caches[c].Release()
		tw.rel[c] = true
		tw.emit(a, "-")
	case a[0] == 'G' || a[0] == 'H': // G: Get, H: GetWithError
		p := num(a[1:])
		t, c, k := p[0], p[1], p[2]
		if th := tw.threads[t]; th != nil && th.state != "idle" {
			return false
		}
		if c >= len(tw.caches) || tw.rel[c] {
			return false
		}
		tw.startGet(t, c, k, a[0] == 'H')
		e, ok := tw.next()
		if !ok {
			return false
		}
		if e.tid != t {
			tw.err = fmt.Errorf("event of thread %d while starting thread %d", e.tid, t)
			return false
		}
		out := tw.apply(e)
		if e.kind == "ret" {
			tw.noteValue(c, k, e.val, false)
		}
		tw.emit(fmt.Sprintf("G%d.%d.%d", t, c, k), out)
	case a[0] == 'F' || a[0] == 'E' || a[0] == 'P':
		p := num(a[1:])
		t := p[0]
		th := tw.threads[t]
		if th == nil || th.state != "loading" {
			return false
		}
		o := outcome{kind: "ok"}
		label := a
		switch a[0] {
		case 'F':
			o.v, o.sz = p[1], p[2]
		case 'E':
			if !th.useErr {
				return false
			}
			o.kind = "err"
		case 'P':
			o.kind = "panic"
		}
		if o.kind != "ok" && tw.rel[th.c] {
			return false // a failed load on a released cache makes its waiters write to a nil map: outside the property
		}
		// bookkeeping for the property oracle, before the step
		cur := tw.caches[th.c].VerifEntryRef(uint32(th.k))
		if o.kind != "ok" && cur != nil && cur != th.own && tw.cause == "" {
			tw.cause = "recover-deletes-foreign-entry"
		}
		if o.kind == "ok" && tw.cause == "" {
			if g := tw.caches[th.c].VerifRefGen(th.own); g != nil && !g.VerifStale() && tw.genPos(g) == "x" && !tw.rel[th.c] {
				tw.cause = "save-into-delisted-generation"
			}
		}
		own := th.own
		var woken []int
		for id, x := range tw.threads {
			if x.state == "waiting" && x.waitOn == own && own != nil {
				woken = append(woken, id)
			}
		}
		th.resume <- o
		got := map[int]event{}
		for len(got) < 1+len(woken) {
			e, ok := tw.next()
			if !ok {
				return false
			}
			got[e.tid] = e
		}
		e0, ok := got[t]
		if !ok {
			tw.err = fmt.Errorf("thread %d did not finish", t)
			return false
		}
		c, k := th.c, th.k
		out := tw.apply(e0)
		switch {
		case o.kind == "ok" && (e0.kind != "ret" || e0.val != o.v):
			tw.violate("cache/cache.go:Get", "loader-value-not-returned", fmt.Sprintf("loader produced %d, caller got %s %d", o.v, e0.kind, e0.val))
		case o.kind == "err" && e0.kind != "err":
			tw.violate("cache/cache.go:GetWithError", "loader-error-not-reported", "the loader failed but its caller got no error")
		case o.kind == "panic" && (e0.kind != "panic" || e0.val != 0):
			tw.violate("cache/cache.go:Get", "loader-panic-not-reported", "the loader panicked but its caller did not see that panic")
		}
		if o.kind == "ok" {
			tw.noteValue(c, k, o.v, true)
		}
		tw.emit(label, out)
		// woken waiters: the one that became the loader first, the others in thread order
		var order []int
		for _, id := range woken {
			if got[id].kind == "load" {
				order = append(order, id)
			}
		}
		for id := 0; id < 64; id++ {
			if e, ok := got[id]; ok && id != t && e.kind != "load" {
				order = append(order, id)
			}
		}
		for _, id := range order {
			e := got[id]
			x := tw.threads[id]
			wo := tw.apply(e)
			if e.kind == "ret" {
				tw.noteValue(x.c, x.k, e.val, false)
				if o.kind == "ok" && e.val != o.v {
					tw.violate("cache/cache.go:getOrCreate", "waiter-got-different-value", fmt.Sprintf("the loader saved %d, a caller blocked on the same entry got %d", o.v, e.val))
				}
			}
			tw.emit(fmt.Sprintf("W%d", id), wo)
		}
	default:
		return false
	}
	return tw.err == nil
}

// drain finishes every running loader successfully so that the run ends at a quiescent point.
func (tw *tworld) drain() {
	for round := 0; round < 200 && tw.err == nil; round++ {
		busy := -1
		for id := 0; id < 64; id++ {
			if th := tw.threads[id]; th != nil && th.state == "loading" {
				busy = id
				break
			}
		}
		if busy < 0 {
			return
		}
		tw.act(fmt.Sprintf("F%d.%d.%d", busy, 900+round, 10))
	}
}

func (tw *tworld) allIdle() bool {
	for _, th := range tw.threads {
		if th.state != "idle" {
			return false
		}
	}
	return true
}

// runTrace executes a schedule; returns the driver request, the impl answer and a violation of the property.
func runTrace(limit uint64, actions []string) (req, impl string, viol *vh.Violation, applied []string, err error) {
	tw := newTWorld(limit)
	for _, a := range actions {
		if tw.act(a) {
			applied = append(applied, a)
		}
		if tw.err != nil {
			return "", "", nil, applied, tw.err
		}
	}
	tw.drain()
	if tw.err != nil {
		return "", "", nil, applied, tw.err
	}
	if !tw.allIdle() {
		return "", "", nil, applied, fmt.Errorf("threads still blocked after draining: %v", tw.labels)
	}
	// quiescent: the accounting and management clauses must hold
	tw.checkQuiescent()
	if tw.viol != nil && tw.viol.Class == "accounted-size-differs-from-live-entries" && tw.cause != "" {
		// a hint only: the schedule contains a pattern that broke the accounting before /repo commit b331fc5
		tw.viol.What += " (schedule contains: " + tw.cause + ")"
	}
	req = fmt.Sprintf("trace %d %d %s", limit, tw.entrySize(), vh.JoinStrs(tw.labels, ";"))
	impl = fmt.Sprintf("ok %s | %s", vh.JoinStrs(tw.outs, ";"), tw.state())
	if tw.viol != nil {
		tw.viol.Replay = []string{fmt.Sprintf("sched %d %s", limit, strings.Join(applied, ";"))}
	}
	return req, impl, tw.viol, applied, nil
}

// genTrace: a random schedule over nt threads.
func genTrace(r *vh.RNG, n int) (uint64, []string) {
	limit := []uint64{0, 400, 1000, 1000, 3000}[r.Intn(5)]
	maxSz := []int{0, 100, 300, 700}[r.Intn(4)]
	nt := r.Range(2, 4)
	nk := r.Range(1, 3)
	nc := r.Range(1, 3)
	acts := []string{}
	for i := 0; i < nc; i++ {
		acts = append(acts, "n")
	}
	val := 0
	if r.Intn(25) == 0 { // now and then fill one cache beyond the rebuild threshold first
		fill := r.Range(190, 260)
		for i := 0; i < fill; i++ {
			acts = append(acts, fmt.Sprintf("G0.0.%d", 100+i), fmt.Sprintf("F0.%d.%d", i, r.Intn(3)))
		}
		n += 2 * fill
	}
	for len(acts) < n {
		x := r.Intn(100)
		switch {
		case x < 40:
			op := "G"
			if r.Bool() {
				op = "H"
			}
			acts = append(acts, fmt.Sprintf("%s%d.%d.%d", op, r.Intn(nt), r.Intn(nc+1), r.Intn(nk)))
		case x < 62:
			val++
			acts = append(acts, fmt.Sprintf("F%d.%d.%d", r.Intn(nt), val, r.Intn(maxSz+1)))
		case x < 68:
			acts = append(acts, fmt.Sprintf("E%d", r.Intn(nt)))
		case x < 74:
			acts = append(acts, fmt.Sprintf("P%d", r.Intn(nt)))
		case x < 82:
			acts = append(acts, "r")
		case x < 90:
			acts = append(acts, "C")
		case x < 94:
			acts = append(acts, "z")
		case x < 96:
			acts = append(acts, "b")
		case x < 98:
			acts = append(acts, fmt.Sprintf("x%d", r.Intn(nc+1)))
		default:
			acts = append(acts, "n")
		}
	}
	return limit, acts
}
