// Support code around the cache:
//
//	cache.loader   the real loader of the doc-block cache: disk.DocsReader over a docs file with CodecNo and zstd
//	               blocks of equal pool size classes, through a real cache.Cache + Cleaner.  Random read sequences
//	               with rotations and cleaning passes; every read must return the bytes written for that block
//	               (oracle), and the sequence of hits / loads / accounted sizes must equal the Lean model (`seq`).
//	cache.budget   the real configuration path fracmanager.FillConfigWithDefault -> NewCacheMaintainer
//	               (createCleaners) on a grid of (CacheSize, FracSize, SortCacheSize set / unset): limits vs the
//	               natural-number model SV.Budget (driver `split`), and on the real objects: every limit positive,
//	               sum of limits <= CacheSize, accounted bytes <= CacheSize after quiet ticks on an overfilled cache.
package main

import (
	"bytes"
	"encoding/binary"
	"fmt"
	"os"
	"os/exec"
	"strings"

	"github.com/ozontech/seq-db/cache"
	"github.com/ozontech/seq-db/disk"
	"github.com/ozontech/seq-db/fracmanager"

	"verifharness/internal/vh"
)

// ---------------------------------------------------------------- cache.loader

type docFile struct {
	path    string
	f       *os.File
	offsets []uint64   // block offsets
	docs    [][][]byte // per block the documents
	docOffs [][]uint64 // per block the offset of every document inside the payload
	rawLen  []int
	codec   []string
}

// writeDocFile writes nb blocks; block i holds a few documents whose bytes identify (i, j); sizes fall into a few
// pool size classes; every third block is zstd, the others are stored uncompressed (CodecNo).
func writeDocFile(r *vh.RNG, nb int) (*docFile, error) {
	f, err := os.CreateTemp("", "c18-docs-*")
	if err != nil {
		return nil, err
	}
	d := &docFile{path: f.Name(), f: f}
	var off uint64
	for i := 0; i < nb; i++ {
		nd := r.Range(1, 4)
		class := []int{40, 120, 300}[r.Intn(3)] // document length: keeps blocks of one class in one pool bucket
		var payload []byte
		var docs [][]byte
		var offs []uint64
		for j := 0; j < nd; j++ {
			doc := bytes.Repeat([]byte{byte('A' + (i*7+j)%26)}, class)
			copy(doc, fmt.Sprintf("<%d.%d>", i, j))
			offs = append(offs, uint64(len(payload)))
			var l [4]byte
			binary.LittleEndian.PutUint32(l[:], uint32(len(doc)))
			payload = append(payload, l[:]...)
			payload = append(payload, doc...)
			docs = append(docs, doc)
		}
		var blk disk.DocBlock
		if i%3 == 2 {
			blk = disk.CompressDocBlock(payload, nil, 1)
			d.codec = append(d.codec, "zstd")
		} else {
			blk = disk.PackDocBlock(payload, nil)
			d.codec = append(d.codec, "no")
		}
		if _, err := f.WriteAt(blk, int64(off)); err != nil {
			return nil, err
		}
		d.offsets = append(d.offsets, off)
		d.docs = append(d.docs, docs)
		d.docOffs = append(d.docOffs, offs)
		d.rawLen = append(d.rawLen, len(payload))
		off += uint64(len(blk))
	}
	return d, nil
}

func (d *docFile) close() { d.f.Close(); os.Remove(d.path) }

// runLoader: acts = "R<block>" read all documents of a block, "r" Rotate, "c" Cleanup, "z" CleanEmptyGenerations.
func runLoader(seed int64, limit uint64, nb int, acts []string) (req, impl string, viol *vh.Violation, err error) {
	d, err := writeDocFile(vh.NewRNG(seed), nb)
	if err != nil {
		return "", "", nil, err
	}
	defer d.close()
	w := newWorld(limit)
	// the docs cache of the reader: a Cache[[]byte] managed by the cleaner (cache 0 of the model)
	dc := cache.NewCache[[]byte](w.cl, nil)
	rd := disk.NewDocsReader(disk.NewReadLimiter(1, nil), d.f, dc)
	es := dc.VerifEntrySize()
	var outs, mops []string
	mops = append(mops, "n")
	outs = append(outs, "-@0")
	loads := 0
	for _, a := range acts {
		switch a[0] {
		case 'R':
			var b int
			fmt.Sscanf(a[1:], "%d", &b)
			before := len(dc.VerifEntries())
			hadKey := false
			for _, e := range dc.VerifEntries() {
				if e.Key == uint32(d.offsets[b]) {
					hadKey = true
				}
			}
			var got [][]byte
			var rerr error
			func() {
				defer func() {
					if r := recover(); r != nil { // document lengths read from a block that is not the written one
						rerr = fmt.Errorf("panic while cutting documents out of the cached block: %v", r)
					}
				}()
				got, rerr = rd.ReadDocs(d.offsets[b], d.docOffs[b])
			}()
			_ = before
			val := b + 1
			if rerr != nil {
				viol = firstViol(viol, "disk/doc_blocks_reader.go:ReadDocBlockPayload", "cached-block-differs-from-written", fmt.Sprintf("block %d (codec %s, hit=%v): %v", b, d.codec[b], hadKey, rerr))
				val = 0
			} else {
				for j, doc := range got {
					if !bytes.Equal(doc, d.docs[b][j]) {
						viol = firstViol(viol, "disk/doc_blocks_reader.go:ReadDocBlockPayload", "cached-block-differs-from-written",
							fmt.Sprintf("block %d (codec %s) document %d: read %q..., written %q... (hit=%v)", b, d.codec[b], j, head(doc), head(d.docs[b][j]), hadKey))
						val = 0 // not the value the loader of this key produces
						break
					}
				}
			}
			tok := "v" + fmt.Sprint(val)
			if !hadKey {
				tok = "l+" + tok
				loads++
			}
			mops = append(mops, fmt.Sprintf("g0.%d.%d.%d", d.offsets[b], b+1, d.rawLen[b]))
			outs = append(outs, fmt.Sprintf("%s@%d", tok, int64(w.cl.VerifGetSize())))
		case 'r':
			ok, sz := w.cl.Rotate()
			mops = append(mops, "r")
			outs = append(outs, fmt.Sprintf("r%s.%d@%d", vh.B(ok), sz, int64(w.cl.VerifGetSize())))
		case 'z':
			mops = append(mops, "z")
			outs = append(outs, fmt.Sprintf("n%d@%d", w.cl.CleanEmptyGenerations(), int64(w.cl.VerifGetSize())))
		case 'c':
			st := &cache.CleanStat{}
			mops = append(mops, "c")
			if !w.cl.Cleanup(st) {
				outs = append(outs, fmt.Sprintf("c0.0.0@%d", int64(w.cl.VerifGetSize())))
			} else {
				outs = append(outs, fmt.Sprintf("c1.%d.%d.%d.%d.0@%d", st.SizeToClean, st.GensCleaned, st.BytesReleased, st.BucketsCleaned, int64(w.cl.VerifGetSize())))
			}
		}
	}
	// final state: only what both sides can name (accounted size and generation sizes)
	var gens []int64
	for _, g := range w.cl.VerifGenerations() {
		gens = append(gens, int64(g.VerifSize()))
	}
	req = fmt.Sprintf("seqsz %d %d %s", limit, es, vh.JoinStrs(mops, ";"))
	impl = fmt.Sprintf("ok %s | size=%d gens=%s", vh.JoinStrs(outs, ";"), int64(w.cl.VerifGetSize()), vh.JoinInts(gens))
	if viol != nil {
		viol.Replay = []string{fmt.Sprintf("loader %d %d %d %s", seed, limit, nb, strings.Join(acts, ";"))}
	}
	return req, impl, viol, nil
}

func head(b []byte) string {
	if len(b) > 12 {
		b = b[:12]
	}
	return string(b)
}

func firstViol(v *vh.Violation, site, class, what string) *vh.Violation {
	if v != nil {
		return v
	}
	return &vh.Violation{Site: site, Class: class, What: what}
}

func genLoader(r *vh.RNG, nb, n int) []string {
	var acts []string
	for len(acts) < n {
		x := r.Intn(100)
		switch {
		case x < 78:
			acts = append(acts, fmt.Sprintf("R%d", r.Intn(nb)))
		case x < 86:
			acts = append(acts, "r")
		case x < 96:
			acts = append(acts, "c")
		default:
			acts = append(acts, "z")
		}
	}
	return acts
}

// ---------------------------------------------------------------- cache.budget

type budgetCase struct{ C, F, S uint64 }

// runBudget builds the maintainer through the real configuration path and returns the driver request / impl answer
// and a violation of "the layers' limits are positive and fit into the configured cache size, and quiet ticks
// bring an overfilled cache back under it".
func runBudget(bc budgetCase) (req, impl string, viol *vh.Violation) {
	cfg := fracmanager.FillConfigWithDefault(&fracmanager.Config{CacheSize: bc.C, FracSize: bc.F, SortCacheSize: bc.S})
	cm := fracmanager.NewCacheMaintainer(cfg.CacheSize, cfg.SortCacheSize, nil)
	cls, labels := fracmanager.VerifC18Cleaners(cm)
	var lims []uint64
	var sum uint64
	bad := ""
	for i, cl := range cls {
		l := cl.SizeLimit()
		lims = append(lims, l)
		if l > bc.C {
			bad = fmt.Sprintf("limit of %s is %d > CacheSize %d", labels[i], l, bc.C)
			sum = bc.C + 1
		} else if sum <= bc.C {
			sum += l
		}
		if l == 0 && labels[i] != "sorting" && bc.C >= 1<<20 && bad == "" {
			bad = fmt.Sprintf("limit of %s is 0 (cleaning disabled) with CacheSize %d", labels[i], bc.C)
		}
	}
	if bad == "" && sum > bc.C {
		bad = fmt.Sprintf("the limits sum to more than CacheSize %d", bc.C)
	}
	replay := fmt.Sprintf("budget %d %d %d", bc.C, bc.F, bc.S)
	if bad != "" {
		viol = &vh.Violation{Site: "fracmanager/config.go:FillConfigWithDefault", Class: "cache-budget-exceeds-cache-size",
			What: fmt.Sprintf("CacheSize=%d FracSize=%d SortCacheSize=%d (effective %d): %s", bc.C, bc.F, bc.S, cfg.SortCacheSize, bad), Replay: []string{replay}}
	}
	// overfill the docs layer (sizes are only accounted, nothing that big is allocated), then quiet ticks
	if bc.C > 0 {
		dc := cm.CreateDocBlockCache()
		for k := uint32(0); k < 12; k++ {
			dc.Get(k, func() ([]byte, int) { return nil, int(bc.C / 10) })
		}
		for i := 0; i < 3; i++ {
			done := make(chan struct{})
			close(done)
			cm.RunCleanLoop(done, 1<<40, 1<<40).Wait()
		}
		var acc uint64
		for _, cl := range cls {
			acc += cl.VerifGetSize()
		}
		if acc > bc.C && viol == nil {
			viol = &vh.Violation{Site: "fracmanager/config.go:FillConfigWithDefault", Class: "accounted-above-cache-size-after-quiet-ticks",
				What: fmt.Sprintf("CacheSize=%d FracSize=%d SortCacheSize=%d: %d bytes accounted after three quiet maintenance ticks", bc.C, bc.F, bc.S, acc), Replay: []string{replay}}
		}
	}
	req = fmt.Sprintf("split %d %d %d %d %s", bc.C, bc.F, bc.S, cfg.SortCacheSize, vh.JoinInts(lims))
	impl = "ok sort=1 lim=" + strings.Repeat("1", len(lims))
	return req, impl, viol
}

// budgetChild runs in a child process (FillConfigWithDefault ends the process with logger.Fatal for a rejected
// configuration): one result line per case, starting at index `from`.
func budgetChild(args []string) {
	var cases []budgetCase
	for _, a := range strings.Split(args[0], ",") {
		var bc budgetCase
		fmt.Sscanf(a, "%d:%d:%d", &bc.C, &bc.F, &bc.S)
		cases = append(cases, bc)
	}
	for i, bc := range cases {
		fmt.Printf("BEGIN %d\n", i)
		req, impl, viol := runBudget(bc)
		v := "-"
		if viol != nil {
			v = viol.Site + "|" + viol.Class + "|" + viol.What
		}
		fmt.Printf("RESULT %d\t%s\t%s\t%s\n", i, req, impl, v)
	}
}

type budgetResult struct {
	req, impl string
	viol      *vh.Violation
}

// runBudgetCases runs the cases in child processes; a case at which the child dies was rejected by the
// configuration check (the model must reject it as well).
func runBudgetCases(cases []budgetCase) []budgetResult {
	res := make([]budgetResult, len(cases))
	for start := 0; start < len(cases); {
		end := min(start+400, len(cases))
		var parts []string
		for _, bc := range cases[start:end] {
			parts = append(parts, fmt.Sprintf("%d:%d:%d", bc.C, bc.F, bc.S))
		}
		out, _ := exec.Command(os.Args[0], "child-budget", strings.Join(parts, ",")).Output()
		last, done := -1, -1
		for _, l := range strings.Split(string(out), "\n") {
			if strings.HasPrefix(l, "BEGIN ") {
				fmt.Sscanf(l, "BEGIN %d", &last)
			}
			if strings.HasPrefix(l, "RESULT ") {
				f := strings.SplitN(strings.TrimPrefix(l, "RESULT "), "\t", 4)
				if len(f) == 4 {
					var i int
					fmt.Sscanf(f[0], "%d", &i)
					r := budgetResult{req: f[1], impl: f[2]}
					if f[3] != "-" {
						v := strings.SplitN(f[3], "|", 3)
						bc := cases[start+i]
						r.viol = &vh.Violation{Site: v[0], Class: v[1], What: v[2], Replay: []string{fmt.Sprintf("budget %d %d %d", bc.C, bc.F, bc.S)}}
					}
					res[start+i] = r
					done = i
				}
			}
		}
		if last > done { // the child died inside case `last`: rejected configuration
			bc := cases[start+last]
			res[start+last] = budgetResult{req: fmt.Sprintf("split %d %d %d x -", bc.C, bc.F, bc.S), impl: "ok rejected"}
			start += last + 1
		} else if done+1 < end-start { // died between cases (should not happen): skip one to make progress
			start += done + 2
		} else {
			start = end
		}
	}
	return res
}

func budgetGrid(r *vh.RNG, extra int) []budgetCase {
	var res []budgetCase
	for _, c := range []uint64{0, 100000, 64 << 20, 900 << 20, 1 << 30, 1100 << 20, 8 << 30} {
		for _, f := range []uint64{0, c / 100, c / 10, c * 112 / 1000, c * 115 / 1000, c / 8, c/8 + 1, c / 4, 128 << 20} {
			for _, s := range []uint64{0, c / 10, c / 2, c * 8 / 10, c*8/10 + 1, c * 85 / 100, c * 9 / 10, c * 95 / 100, c, c + c/10 + 1} {
				res = append(res, budgetCase{c, f, s})
			}
		}
	}
	for i := 0; i < extra; i++ {
		c := uint64(r.Range(1, 4000)) << uint(r.Range(10, 22))
		f := uint64(r.Range(0, 300)) << 20
		var s uint64
		if r.Bool() {
			s = c * uint64(r.Range(1, 100)) / 100
		}
		res = append(res, budgetCase{c, f, s})
	}
	return res
}
