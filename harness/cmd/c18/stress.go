// Concurrent callers + a maintainer goroutine on the real package, in a child process (a broken package may
// deadlock).  Only facts that do not depend on the schedule are asserted: every returned value is the value
// the loader of that (cache, key) produces, an error / panic reaches exactly the caller whose loader failed,
// everything terminates, and at the final quiescent point the bookkeeping clauses hold.
package main

import (
	"fmt"
	"os"
	"os/exec"
	"strconv"
	"strings"
	"sync"
	"sync/atomic"
	"time"

	"github.com/ozontech/seq-db/cache"

	"verifharness/internal/vh"
)

func stressValue(c int, k uint32) int { return int(k)*10 + c + 1 }

// stressChild runs in the child process and prints one line per finding, then "DONE <calls>".
func stressChild(args []string) {
	seed, _ := strconv.ParseInt(args[0], 10, 64)
	workers, _ := strconv.Atoi(args[1])
	records, _ := strconv.Atoi(args[2])
	rng := vh.NewRNG(seed)
	limit := uint64(20000)
	w := newWorld(limit)
	for i := 0; i < 3; i++ {
		w.addCache()
	}
	var stop atomic.Bool
	var mwg sync.WaitGroup
	mwg.Add(1)
	go func() {
		defer mwg.Done()
		for i := 0; !stop.Load(); i++ {
			w.cl.Rotate()
			w.cl.Cleanup(&cache.CleanStat{})
			if i%7 == 0 {
				w.cl.CleanEmptyGenerations()
				w.cl.ReleaseBuckets()
			}
			time.Sleep(50 * time.Microsecond)
		}
	}()
	var mu sync.Mutex
	findings := map[string]bool{}
	report := func(s string) {
		mu.Lock()
		findings[s] = true
		mu.Unlock()
	}
	var calls atomic.Int64
	var wg sync.WaitGroup
	for g := 0; g < workers; g++ {
		r := rng.Fork()
		wg.Add(1)
		go func() {
			defer wg.Done()
			for i := 0; i < records; i++ {
				c := r.Intn(3)
				k := uint32(i/4 + r.Intn(24))
				mode := r.Intn(100)
				calls.Add(1)
				switch {
				case mode < 3: // failing loader
					mine := false
					v, err := w.caches[c].GetWithError(k, func() (int, int, error) { mine = true; return 0, 0, errLoader })
					if mine != (err != nil) {
						report("cache/cache.go:GetWithError|loader-error-not-reported|error and failed loader do not belong to the same caller")
					}
					if err == nil && v != stressValue(c, k) {
						report(fmt.Sprintf("cache/cache.go:Get|value-not-produced-for-key|cache %d key %d returned %d", c, k, v))
					}
				case mode < 6: // panicking loader
					mine := false
					pv := &panicVal{i}
					var rec any
					var v int
					func() {
						defer func() { rec = recover() }()
						v = w.caches[c].Get(k, func() (int, int) { mine = true; panic(pv) })
					}()
					if mine != (rec == any(pv)) || (!mine && rec != nil) {
						report("cache/cache.go:Get|loader-panic-not-reported|panic and panicking loader do not belong to the same caller")
					}
					if rec == nil && v != stressValue(c, k) {
						report(fmt.Sprintf("cache/cache.go:Get|value-not-produced-for-key|cache %d key %d returned %d", c, k, v))
					}
				default:
					sz := r.Intn(400)
					slow := r.Intn(50) == 0
					v := w.caches[c].Get(k, func() (int, int) {
						if slow {
							time.Sleep(200 * time.Microsecond)
						}
						return stressValue(c, k), sz
					})
					if v != stressValue(c, k) {
						report(fmt.Sprintf("cache/cache.go:Get|value-not-produced-for-key|cache %d key %d returned %d", c, k, v))
					}
				}
			}
		}()
	}
	wg.Wait()
	stop.Store(true)
	mwg.Wait()
	// quiescent
	w.checkQuiescent()
	if w.viol != nil {
		report(w.viol.Site + "|" + w.viol.Class + "|" + w.viol.What)
	}
	for _, f := range vh.SortedKeys(findings) {
		fmt.Println("FINDING " + f)
	}
	fmt.Printf("DONE %d\n", calls.Load())
}

// runStress starts the child (twice when it dies or hangs) and turns its findings into violations.
func runStress(rep *vh.Report, orc *vh.Oracle, seed int64, workers, records int) {
	args := []string{"child-stress", strconv.FormatInt(seed, 10), strconv.Itoa(workers), strconv.Itoa(records)}
	key := "stress " + strings.Join(args[1:], " ")
	run := func() (string, error) {
		cmd := exec.Command(os.Args[0], args...)
		done := make(chan struct{})
		var out []byte
		var err error
		go func() { out, err = cmd.CombinedOutput(); close(done) }()
		select {
		case <-done:
			return string(out), err
		case <-time.After(120 * time.Second):
			cmd.Process.Kill()
			<-done
			return string(out), fmt.Errorf("timeout")
		}
	}
	out, err := run()
	if err != nil || !strings.Contains(out, "DONE ") {
		out, err = run() // once more, alone
		if err != nil || !strings.Contains(out, "DONE ") {
			what := "concurrent callers did not terminate"
			class := "stress-hang"
			if err != nil && err.Error() != "timeout" {
				what, class = "the child process died: "+lastLines(out, 3), "stress-crash"
			}
			rep.Violate(vh.Violation{Site: "cache/cache.go:getOrCreate", Class: class, What: what, Replay: []string{key}})
			orc.Case(key, true, "stress=dead")
			return
		}
	}
	calls := 0
	for _, l := range strings.Split(out, "\n") {
		if strings.HasPrefix(l, "FINDING ") {
			f := strings.SplitN(strings.TrimPrefix(l, "FINDING "), "|", 3)
			if len(f) == 3 {
				rep.Violate(vh.Violation{Site: f[0], Class: f[1], What: "concurrent run: " + f[2], Replay: []string{key}})
			}
		}
		if strings.HasPrefix(l, "DONE ") {
			calls, _ = strconv.Atoi(strings.TrimPrefix(l, "DONE "))
		}
	}
	orc.Case(key, true, "stress=ok")
	orc.Distribution["stress-calls"] += calls
}

func lastLines(s string, n int) string {
	ls := strings.Split(strings.TrimSpace(s), "\n")
	if len(ls) > n {
		ls = ls[len(ls)-n:]
	}
	return strings.Join(ls, " / ")
}
