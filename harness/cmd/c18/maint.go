// One layer above package cache: the real fracmanager.CacheMaintainer (its cleaners, its maintenance tick as run
// by RunCleanLoop) and the real frac.IndexCache (a set of caches released together).
//
//	maintainer.seq   caches of the docs layer created through the maintainer, lookups, Release and whole maintenance
//	                 ticks (one synchronous run of the RunCleanLoop body, with / without garbageCollection) vs the Lean
//	                 model (`seq` with the tick ops t / T = SV.Cache.tickOps): values, getSize after every op, final state
//	maintainer.property  on the real objects after every op: per cleaner getSize = bytes held by the caches that are
//	                 alive; after IndexCache.Release every cache of the set is released; after a gc tick none of them
//	                 is a bucket any more; after any quiet tick getSize <= limit for every cleaner
package main

import (
	"fmt"
	"reflect"
	"sort"
	"strconv"
	"strings"
	"time"

	"github.com/ozontech/seq-db/cache"
	"github.com/ozontech/seq-db/frac"
	"github.com/ozontech/seq-db/frac/lids"
	"github.com/ozontech/seq-db/frac/token"
	"github.com/ozontech/seq-db/fracmanager"

	"verifharness/internal/vh"
)

type anyCache interface {
	VerifEntries() []cache.VerifEntry
	Released() bool
}

type tracked struct {
	name    string
	c       anyCache
	cleaner int  // index into mworld.cleaners
	dead    bool // its owner released it (the harness's expectation)
	set     int  // index-cache set it belongs to, -1 for docs caches
}

type mworld struct {
	total    uint64
	cm       *fracmanager.CacheMaintainer
	cleaners []*cache.Cleaner
	labels   []string
	docs     int // index of the docs cleaner
	caches   []*cache.Cache[[]byte]
	rel      []bool
	sets     []*frac.IndexCache
	all      []*tracked
	viol     *vh.Violation
}

func newMWorld(total uint64) *mworld {
	w := &mworld{total: total, cm: fracmanager.NewCacheMaintainer(total, 0, nil), docs: -1}
	w.cleaners, w.labels = fracmanager.VerifC18Cleaners(w.cm)
	for i, l := range w.labels {
		if l == "docblock" {
			w.docs = i
		}
	}
	return w
}

func (w *mworld) violate(site, class, what string) {
	if w.viol == nil {
		w.viol = &vh.Violation{Site: site, Class: class, What: what}
	}
}

func (w *mworld) track(name string, c anyCache, set int) {
	t := &tracked{name: name, c: c, cleaner: -1, set: set}
	for i, cl := range w.cleaners {
		for _, b := range cl.VerifBuckets() {
			if b == any(c) {
				t.cleaner = i
			}
		}
	}
	if t.cleaner < 0 {
		w.violate("cache/cleaner.go:AddBucket", "new-cache-not-managed", "cache "+name+" created through the maintainer is in no cleaner's bucket list")
	}
	w.all = append(w.all, t)
}

// tick runs the body of CacheMaintainer.RunCleanLoop exactly once: util.RunEvery calls the action immediately and then
// sees the closed done channel; gcInterval = cleanupInterval makes this run a garbage-collection run.
func (w *mworld) tick(gc bool) {
	done := make(chan struct{})
	close(done)
	iv, g := time.Hour, time.Hour
	if !gc {
		g = 2 * time.Hour
	}
	w.cm.RunCleanLoop(done, iv, g).Wait()
}

func enc(v int) []byte { return []byte(strconv.Itoa(v)) }
func dec(b []byte) int  { v, _ := strconv.Atoi(string(b)); return v }

func (w *mworld) newIndexCache(sz int) {
	ic := w.cm.CreateIndexCache()
	set := len(w.sets)
	w.sets = append(w.sets, ic)
	// every *cache.Cache field of the struct, by reflection (a field added later is tracked as well)
	rv := reflect.ValueOf(ic).Elem()
	for i := 0; i < rv.NumField(); i++ {
		if c, ok := rv.Field(i).Interface().(anyCache); ok && !rv.Field(i).IsNil() {
			w.track(fmt.Sprintf("index%d.%s", set, rv.Type().Field(i).Name), c, set)
		}
	}
	// populate the seven known kinds (NewSealedPreloaded fills the token table, searches fill the others)
	for k := uint32(0); k < 2; k++ {
		ic.MIDs.Get(k, func() ([]byte, int) { return enc(1), sz })
		ic.RIDs.Get(k, func() ([]byte, int) { return enc(2), sz })
		ic.Registry.Get(k, func() ([]byte, int) { return enc(3), sz / 2 })
		ic.Params.Get(k, func() ([]uint64, int) { return []uint64{4}, sz })
		ic.LIDs.Get(k, func() (*lids.Chunks, int) { return nil, sz })
		ic.Tokens.Get(k, func() (*token.CacheEntry, int) { return nil, sz })
		ic.TokenTable.Get(k, func() (token.Table, int) { return token.Table{}, sz * 2 })
	}
}

func (w *mworld) doOp(op string) (string, bool, error) { // out token, whether the op is part of the docs-layer model
	arg := func() []int {
		var r []int
		for _, f := range strings.Split(op[1:], ".") {
			v, _ := strconv.Atoi(f)
			r = append(r, v)
		}
		return r
	}
	switch op[0] {
	case 'n':
		c := w.cm.CreateDocBlockCache()
		w.caches = append(w.caches, c)
		w.rel = append(w.rel, false)
		w.track(fmt.Sprintf("docs%d", len(w.caches)-1), c, -1)
		return "-", true, nil
	case 'g':
		a := arg()
		if len(a) != 4 || a[0] >= len(w.caches) || w.rel[a[0]] {
			return "", false, fmt.Errorf("bad op %q", op)
		}
		called := false
		v := dec(w.caches[a[0]].Get(uint32(a[1]), func() ([]byte, int) { called = true; return enc(a[2]), a[3] }))
		if called {
			if v != a[2] {
				w.violate("cache/cache.go:Get", "loader-value-not-returned", fmt.Sprintf("loader produced %d, caller got %d", a[2], v))
			}
			return "l+v" + strconv.Itoa(v), true, nil
		}
		return "v" + strconv.Itoa(v), true, nil
	case 'x':
		a := arg()
		if a[0] >= len(w.caches) {
			return "", false, fmt.Errorf("bad op %q", op)
		}
		w.caches[a[0]].Release()
		w.rel[a[0]] = true
		for _, t := range w.all {
			if t.c == anyCache(w.caches[a[0]]) {
				t.dead = true
			}
		}
		return "-", true, nil
	case 't', 'T':
		w.tick(op[0] == 'T')
		for i, cl := range w.cleaners {
			if lim := cl.SizeLimit(); lim > 0 && cl.VerifGetSize() > lim {
				w.violate("fracmanager/cache_maintainer.go:RunCleanLoop", "size-over-limit-after-tick",
					fmt.Sprintf("cleaner %s: getSize %d > limit %d after a maintenance tick without concurrent lookups", w.labels[i], cl.VerifGetSize(), lim))
			}
		}
		if op[0] == 'T' {
			for _, t := range w.all {
				if !t.dead || t.cleaner < 0 {
					continue
				}
				for _, b := range w.cleaners[t.cleaner].VerifBuckets() {
					if b == any(t.c) {
						w.violate("frac/sealed_index_cache.go:IndexCache.Release", "released-bucket-still-managed",
							fmt.Sprintf("cache %s belongs to a released owner but is still a bucket of cleaner %s after ReleaseBuckets", t.name, w.labels[t.cleaner]))
					}
				}
			}
		}
		return string(op[0]), true, nil
	case 'I':
		w.newIndexCache(arg()[0])
		return "", false, nil
	case 'J':
		i := arg()[0]
		if i >= len(w.sets) {
			return "", false, fmt.Errorf("bad op %q", op)
		}
		w.sets[i].Release()
		for _, t := range w.all {
			if t.set == i {
				t.dead = true
				if !t.c.Released() {
					w.violate("frac/sealed_index_cache.go:IndexCache.Release", "cache-of-released-set-not-released",
						fmt.Sprintf("after IndexCache.Release the cache %s is not released", t.name))
				}
			}
		}
		return "", false, nil
	}
	return "", false, fmt.Errorf("bad op %q", op)
}

// check: per cleaner, accounted size = bytes held by the caches whose owner has not released them
func (w *mworld) check() {
	live := make([]uint64, len(w.cleaners))
	for _, t := range w.all {
		if t.dead || t.cleaner < 0 {
			continue
		}
		for _, e := range t.c.VerifEntries() {
			live[t.cleaner] += e.Size
		}
	}
	for i, cl := range w.cleaners {
		if got := cl.VerifGetSize(); got != live[i] {
			site, class := "cache/cleaner.go:getSize", "accounted-size-differs-from-live-entries"
			for _, t := range w.all {
				if t.cleaner == i && t.dead && !t.c.Released() {
					site, class = "frac/sealed_index_cache.go:IndexCache.Release", "cache-of-released-set-not-released"
				}
			}
			w.violate(site, class, fmt.Sprintf("cleaner %s: getSize = %d, bytes held by live caches = %d", w.labels[i], int64(got), live[i]))
		}
	}
}

func (w *mworld) docsState() string {
	cl := w.cleaners[w.docs]
	gens := cl.VerifGenerations()
	pos := func(g *cache.Generation) string {
		if g.VerifStale() {
			return "s"
		}
		for i, x := range gens {
			if x == g {
				return strconv.Itoa(i)
			}
		}
		return "x"
	}
	var bs []int
	for _, b := range cl.VerifBuckets() {
		idx := -1
		for i, c := range w.caches {
			if b == any(c) {
				idx = i
			}
		}
		bs = append(bs, idx)
	}
	var gs []int64
	for _, g := range gens {
		gs = append(gs, int64(g.VerifSize()))
	}
	var live uint64
	var cs []string
	for i, c := range w.caches {
		es := c.VerifEntries()
		sort.Slice(es, func(a, b int) bool { return es[a].Key < es[b].Key })
		var body []string
		for _, e := range es {
			live += e.Size
			body = append(body, fmt.Sprintf("%d:%d:%s:v", e.Key, e.Size, pos(e.Gen)))
		}
		cs = append(cs, fmt.Sprintf("%d/%s/%s/%d/%s", i, vh.B(w.rel[i]), pos(c.VerifCurrentGeneration()), c.VerifMaxPayloadSize(), vh.JoinStrs(body, ",")))
	}
	return fmt.Sprintf("size=%d live=%d buckets=%s gens=%s caches=%s", int64(cl.VerifGetSize()), live, vh.JoinInts(bs), vh.JoinInts(gs), vh.JoinStrs(cs, "|"))
}

// runMaint executes an op list on a fresh maintainer; returns the driver request for the docs layer, the impl answer
// and a violation of the property.
func runMaint(total uint64, ops []string) (req, impl string, viol *vh.Violation, err error) {
	w := newMWorld(total)
	if w.docs < 0 {
		return "", "", nil, fmt.Errorf("no docblock cleaner")
	}
	cl := w.cleaners[w.docs]
	var outs, mops []string
	for _, op := range ops {
		o, modelled, e := w.doOp(op)
		if e != nil {
			return "", "", nil, e
		}
		if modelled {
			mops = append(mops, op)
			outs = append(outs, fmt.Sprintf("%s@%d", o, int64(cl.VerifGetSize())))
		}
		w.check()
	}
	es := cache.NewCache[[]byte](nil, nil).VerifEntrySize()
	req = fmt.Sprintf("seq %d %d %s", cl.SizeLimit(), es, vh.JoinStrs(mops, ";"))
	impl = fmt.Sprintf("ok %s | %s", vh.JoinStrs(outs, ";"), w.docsState())
	if w.viol != nil {
		w.viol.Replay = []string{fmt.Sprintf("maint %d %s", total, strings.Join(ops, ";"))}
	}
	return req, impl, w.viol, nil
}

// totalFor returns a total cache size that gives the docs layer (weight 8 of 100, 90% of the total) the wanted limit.
func totalFor(docsLimit uint64) uint64 { return (docsLimit*100/8*10 + 8) / 9 }

func genMaint(r *vh.RNG, n int) (uint64, []string) {
	limit := []uint64{2000, 10000, 10000, 40000}[r.Intn(4)]
	ops := []string{"n"}
	rel := []bool{false}
	nsets, val := 0, 0
	setDead := []bool{}
	for len(ops) < n {
		var live []int
		for i, x := range rel {
			if !x {
				live = append(live, i)
			}
		}
		x := r.Intn(100)
		switch {
		case x < 40 && len(live) > 0:
			val++
			sz := int(limit) * r.Range(1, 4) / 100 // a few percent: keeps the last generation below Rotate's 5%
			if r.Intn(3) == 0 {
				sz = int(limit) * r.Range(20, 99) / 100
			}
			ops = append(ops, fmt.Sprintf("g%d.%d.%d.%d", live[r.Intn(len(live))], r.Intn(6), val, sz))
		case x < 60:
			ops = append(ops, "t")
		case x < 72:
			ops = append(ops, "T")
		case x < 80 && len(rel) < 5:
			ops = append(ops, "n")
			rel = append(rel, false)
		case x < 86 && len(live) > 1:
			c := live[r.Intn(len(live))]
			ops = append(ops, fmt.Sprintf("x%d", c))
			rel[c] = true
		case x < 93 && nsets < 3:
			ops = append(ops, fmt.Sprintf("I%d", int(limit)*r.Range(1, 30)/100))
			nsets++
			setDead = append(setDead, false)
		case nsets > 0:
			i := r.Intn(nsets)
			if !setDead[i] {
				ops = append(ops, fmt.Sprintf("J%d", i))
				setDead[i] = true
			}
		}
	}
	return totalFor(limit), ops
}
