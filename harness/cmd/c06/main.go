// C06 harness: aggregations and histograms.
//
// Correspondence channels (real Go code vs the Lean definitions of SV.Agg through drv_c06, integer-valued data
// so that float64 arithmetic is exact):
//
//	sc.ops     seq.SamplesContainer: InsertNTimes / InsertSample / InsertSampleNTimes / Merge / Quantile
//	as.tree    seq.AggregatableSamples.Merge over arbitrary merge trees + Aggregate (all functions, sort order)
//	hist.merge the histogram part of seq.MergeQPRs
//	agg.index  processor.IndexSearch on a scripted index: evalAgg, SourcedNodeIterator over BuildORTreeAgg,
//	           the four aggregators, provideExtractTimeFunc, the histogram of iterateEvalTree
//
// System oracles (the property itself on the implementation, no model involved):
//
//	merge.order  two random merge trees over permuted partial results give the same Aggregate output
//	agg.direct   IndexSearch per fraction + MergeQPRs + Aggregate == values computed directly from the documents
package main

import (
	"bytes"
	"errors"
	"context"
	"encoding/json"
	"fmt"
	"io"
	"math"
	"math/big"
	"net/http"
	"os"
	"os/exec"
	"sort"
	"strconv"
	"strings"
	"time"

	"go.uber.org/zap"
	"google.golang.org/protobuf/proto"
	"google.golang.org/protobuf/types/known/timestamppb"

	"github.com/ozontech/seq-db/consts"
	"github.com/ozontech/seq-db/frac"
	"github.com/ozontech/seq-db/frac/lids"
	"github.com/ozontech/seq-db/fracmanager"
	"github.com/ozontech/seq-db/frac/processor"
	"github.com/ozontech/seq-db/logger"
	"github.com/ozontech/seq-db/metric/stopwatch"
	"github.com/ozontech/seq-db/node"
	"github.com/ozontech/seq-db/parser"
	"github.com/ozontech/seq-db/proxyapi"
	seqproxyapi "github.com/ozontech/seq-db/pkg/seqproxyapi/v1"
	pbstore "github.com/ozontech/seq-db/pkg/storeapi"
	psearch "github.com/ozontech/seq-db/proxy/search"
	"github.com/ozontech/seq-db/seq"
	storesvc "github.com/ozontech/seq-db/storeapi"
	"github.com/ozontech/seq-db/tests/setup"

	"verifharness/internal/vh"
)

const sampleLimit = 8096

// ------------------------------------------------------------------ rendering

func fnum(v float64) string {
	if math.IsNaN(v) {
		return "nan"
	}
	if !math.IsInf(v, 0) && v == math.Trunc(v) {
		return strconv.FormatFloat(v, 'f', 0, 64)
	}
	return "F" + strconv.FormatFloat(v, 'g', -1, 64)
}

func fnums(vs []float64) string {
	if len(vs) == 0 {
		return "-"
	}
	ss := make([]string, len(vs))
	for i, v := range vs {
		ss[i] = fnum(v)
	}
	return strings.Join(ss, ",")
}

func fmtSC(c *seq.SamplesContainer, lenOnly bool) string {
	s := fnums(c.Samples)
	if lenOnly {
		s = fmt.Sprintf("#%d", len(c.Samples))
	}
	return fmt.Sprintf("%s/%s/%s/%d/%d/%s", fnum(c.Min), fnum(c.Max), fnum(c.Sum), c.Total, c.NotExists, s)
}

func sortedBins(a *seq.AggregatableSamples) []seq.AggBin {
	ks := make([]seq.AggBin, 0, len(a.SamplesByBin))
	for k := range a.SamplesByBin {
		ks = append(ks, k)
	}
	sort.Slice(ks, func(i, j int) bool {
		if ks[i].MID != ks[j].MID {
			return ks[i].MID < ks[j].MID
		}
		return ks[i].Token < ks[j].Token
	})
	return ks
}

func fmtAS(a *seq.AggregatableSamples, lenOnly bool) string { return fmtASx(a, lenOnly, false) }

// fmtASx: sortSamples renders the samples of every bin as a sorted list (their slice order depends on Go map
// iteration where an aggregator ranges over countBySource).
func fmtASx(a *seq.AggregatableSamples, lenOnly, sortSamples bool) string {
	var bs []string
	for _, k := range sortedBins(a) {
		c := a.SamplesByBin[k]
		if sortSamples {
			c = cloneSC(c)
			sort.Float64s(c.Samples)
		}
		bs = append(bs, fmt.Sprintf("%d@%s@%s", uint64(k.MID), k.Token, fmtSC(c, lenOnly)))
	}
	return fmt.Sprintf("%d#%s", a.NotExists, vh.JoinStrs(bs, ";"))
}

func gcd(a, b int64) int64 {
	if a < 0 {
		a = -a
	}
	for b != 0 {
		a, b = b, a%b
	}
	return a
}

// fval renders a bucket value; a non-integral avg is rendered as the reduced fraction Sum/Total of the
// implementation's own container when that quotient reproduces the value bit for bit.
func fvalue(v float64, c *seq.SamplesContainer) string {
	if math.IsNaN(v) || v == math.Trunc(v) {
		return fnum(v)
	}
	if c != nil && c.Total != 0 && c.Sum == math.Trunc(c.Sum) && c.Sum/float64(c.Total) == v {
		s, t := int64(c.Sum), c.Total
		g := gcd(s, t)
		return fmt.Sprintf("%d/%d", s/g, t/g)
	}
	return fnum(v)
}

func fmtResult(r seq.AggregationResult, a *seq.AggregatableSamples) string {
	var bs []string
	for _, b := range r.Buckets {
		c := a.SamplesByBin[seq.AggBin{MID: b.MID, Token: b.Name}]
		bs = append(bs, fmt.Sprintf("%d@%s@%s@%s@%d", uint64(b.MID), b.Name, fvalue(b.Value, c), fnums(b.Quantiles), b.NotExists))
	}
	return fmt.Sprintf("%d#%s", r.NotExists, vh.JoinStrs(bs, ";"))
}

type quant struct{ n, d int }

func fmtQs(qs []quant) string {
	var ss []string
	for _, q := range qs {
		ss = append(ss, fmt.Sprintf("%d/%d", q.n, q.d))
	}
	return vh.JoinStrs(ss, ",")
}

func qfloats(qs []quant) []float64 {
	var fs []float64
	for _, q := range qs {
		fs = append(fs, float64(q.n)/float64(q.d))
	}
	return fs
}

var fnNames = []string{"count", "sum", "min", "max", "avg", "quantile", "unique"}

func fnOf(name string) seq.AggFunc {
	for i, n := range fnNames {
		if n == name {
			return seq.AggFunc(i)
		}
	}
	panic("fn " + name)
}

// ------------------------------------------------------------------ generators

// valMode selects the magnitude class of generated values: 0 = |v| <= 2^30 (mixed freely), 1 / 2 = values beyond
// the int64 range only (the sentinels of NewSamplesContainers are +-2^63): 1 = multiples of 2^63 (+-2^63, +-2^64,
// +-2^70), 2 = exponent-style literals (+-1e19, +-3e19, +-2^63).  Inside one class every sum the code forms is an
// exactly representable float64 (multiples of 2^63 resp. 2^19 below 2^72), so sums are still compared.
var valMode = 0

var hugeA = []float64{9223372036854775808, -9223372036854775808, 18446744073709551616, -18446744073709551616, 1180591620717411303424, -1180591620717411303424}
var hugeB = []float64{1e19, -1e19, 3e19, -3e19, 9223372036854775808, -9223372036854775808}

func genVal(r *vh.RNG) float64 {
	switch valMode {
	case 1:
		return hugeA[r.Intn(len(hugeA))]
	case 2:
		return hugeB[r.Intn(len(hugeB))]
	}
	switch r.Intn(10) {
	case 0:
		return float64(r.Range(-(1 << 30), 1<<30))
	case 1:
		return 0
	default:
		return float64(r.Range(-20, 20))
	}
}

// pickMode: mostly ordinary values, sometimes a whole case beyond the int64 range.
func pickMode(r *vh.RNG) int {
	if r.Chance(1, 5) {
		return 1 + r.Intn(2)
	}
	return 0
}

func modeTag() string { return fmt.Sprintf("magnitude=%s", []string{"int31", "beyond-int64-pow2", "beyond-int64-exp"}[valMode]) }

func genQ(r *vh.RNG) quant {
	d := []int{1, 2, 4, 8, 16, 1024}[r.Intn(6)]
	switch r.Intn(6) {
	case 0:
		return quant{0, d}
	case 1:
		return quant{d, d}
	}
	return quant{r.Range(0, d), d}
}

// genSC returns a container and its rendering; wf containers are built through the real insert operations.
func genSC(r *vh.RNG, wf bool, collect bool) *seq.SamplesContainer {
	if !wf {
		c := &seq.SamplesContainer{Min: genVal(r), Max: genVal(r), Sum: genVal(r), Total: int64(r.Intn(4)), NotExists: int64(r.Intn(3))}
		for i := r.Intn(4); i > 0; i-- {
			c.Samples = append(c.Samples, genVal(r))
		}
		return c
	}
	c := seq.NewSamplesContainers()
	for i := r.Intn(5); i > 0; i-- {
		v, cnt := genVal(r), int64(r.Range(1, 2+(1-min(valMode, 1))))
		c.InsertNTimes(v, cnt)
		if collect {
			c.InsertSampleNTimes(v, cnt)
		}
	}
	c.NotExists = int64(r.Intn(3))
	return c
}

func cloneSC(c *seq.SamplesContainer) *seq.SamplesContainer {
	n := seq.NewSamplesContainers()
	n.Min, n.Max, n.Sum, n.Total, n.NotExists = c.Min, c.Max, c.Sum, c.Total, c.NotExists
	n.Samples = append([]float64(nil), c.Samples...)
	return n
}

func cloneAS(a *seq.AggregatableSamples) *seq.AggregatableSamples {
	n := &seq.AggregatableSamples{NotExists: a.NotExists}
	if a.SamplesByBin != nil {
		n.SamplesByBin = map[seq.AggBin]*seq.SamplesContainer{}
		for k, c := range a.SamplesByBin {
			n.SamplesByBin[k] = cloneSC(c)
		}
	}
	return n
}

// ------------------------------------------------------------------ channel sc.ops

// runSCOps executes the op list on a fresh real container; returns the canonical answer.
func runSCOps(ops []string, lenOnly bool) (ans string) {
	defer func() {
		if e := recover(); e != nil {
			ans = "panic " + fmt.Sprint(e)
		}
	}()
	c := seq.NewSamplesContainers()
	var qs []float64
	for _, op := range ops {
		f := strings.Split(op, ":")
		switch f[0] {
		case "n":
			v, _ := strconv.ParseFloat(f[1], 64)
			n, _ := strconv.Atoi(f[2])
			c.InsertNTimes(v, int64(n))
		case "s":
			v, _ := strconv.ParseFloat(f[1], 64)
			c.InsertSample(v)
		case "t":
			v, _ := strconv.ParseFloat(f[1], 64)
			n, _ := strconv.Atoi(f[2])
			c.InsertSampleNTimes(v, int64(n))
		case "m":
			c.Merge(parseSC(f[1]))
		case "q":
			n, _ := strconv.Atoi(f[1])
			d, _ := strconv.Atoi(f[2])
			qs = append(qs, c.Quantile(float64(n)/float64(d)))
		}
	}
	return fmt.Sprintf("ok %s q=%s", fmtSC(c, lenOnly), fnums(qs))
}

func parseSC(s string) *seq.SamplesContainer {
	f := strings.Split(s, "/")
	c := seq.NewSamplesContainers()
	pf := func(x string) float64 { v, _ := strconv.ParseFloat(x, 64); return v }
	c.Min, c.Max, c.Sum = pf(f[0]), pf(f[1]), pf(f[2])
	t, _ := strconv.Atoi(f[3])
	ne, _ := strconv.Atoi(f[4])
	c.Total, c.NotExists = int64(t), int64(ne)
	if f[5] != "-" {
		for _, x := range strings.Split(f[5], ",") {
			c.Samples = append(c.Samples, pf(x))
		}
	}
	return c
}

func scOpsChannel(o vh.Opts, rng *vh.RNG) *vh.Channel {
	ch := vh.NewChannel("sc.ops", "seq.SamplesContainer op sequences (InsertNTimes, InsertSample, InsertSampleNTimes, Merge, Quantile) vs SV.Agg.SC; samples compared in slice order (only their number once the reservoir overflowed); non-trivial = a merge or a quantile on a non-empty container")
	add := func(ops []string, inserted int, tags ...string) {
		lenOnly := inserted > sampleLimit
		mode := "full"
		if lenOnly {
			mode = "len"
		}
		req := "sc.ops " + mode + " " + vh.JoinStrs(ops, ";")
		nt := false
		for _, op := range ops[1:] {
			if op[0] == 'm' || op[0] == 'q' {
				nt = true
			}
		}
		ch.Add(req, runSCOps(ops, lenOnly), nt, tags...)
	}
	// small scope: all sequences up to length 3 (4 in the thorough tier) over a fixed alphabet
	alpha := []string{"n:1:1", "n:-2:2", "s:1", "s:-2", "t:3:2", "m:-4/7/3/2/1/7,-4", "m:5/5/9/0/2/-", "m:0/0/0/0/0/6", "q:1:2", "q:0:1", "q:1:1", "q:3:4"}
	maxLen := o.Pick(3, 4)
	var rec func(prefix []string)
	rec = func(prefix []string) {
		if len(prefix) > 0 {
			add(append([]string(nil), prefix...), 0, "scope=exhaustive", fmt.Sprintf("len=%d", len(prefix)))
		}
		if len(prefix) == maxLen {
			return
		}
		for _, a := range alpha {
			rec(append(prefix, a))
		}
	}
	rec(nil)
	// random sequences
	// small scope beyond the int64 range: the empty container's Min/Max sentinels are +-2^63, not +-Inf
	alphaHuge := []string{"n:10000000000000000000:1", "n:-30000000000000000000:2", "n:9223372036854775808:1", "s:10000000000000000000",
		"m:10000000000000000000/30000000000000000000/40000000000000000000/2/0/-", "m:-30000000000000000000/-10000000000000000000/-40000000000000000000/2/1/-30000000000000000000,-10000000000000000000",
		"m:5/5/9/0/2/-", "q:0:1", "q:1:1", "q:1:2"}
	var recH func(prefix []string)
	recH = func(prefix []string) {
		if len(prefix) > 0 {
			add(append([]string(nil), prefix...), 0, "scope=exhaustive-beyond-int64", fmt.Sprintf("len=%d", len(prefix)))
		}
		if len(prefix) == 3 {
			return
		}
		for _, a := range alphaHuge {
			recH(append(prefix, a))
		}
	}
	recH(nil)
	for i := o.Pick(500, 5000); i > 0; i-- {
		valMode = pickMode(rng)
		var ops []string
		for k := r1(rng, 1, 10-4*min(valMode, 1)); k > 0; k-- {
			switch rng.Intn(6) {
			case 0:
				ops = append(ops, fmt.Sprintf("n:%s:%d", fnum(genVal(rng)), rng.Range(0, 5-3*min(valMode, 1))))
			case 1:
				ops = append(ops, fmt.Sprintf("s:%s", fnum(genVal(rng))))
			case 2:
				ops = append(ops, fmt.Sprintf("t:%s:%d", fnum(genVal(rng)), rng.Range(0, 4)))
			case 3:
				c := genSC(rng, rng.Chance(2, 3), rng.Bool())
				ops = append(ops, "m:"+fmtSC(c, false))
			default:
				q := genQ(rng)
				ops = append(ops, fmt.Sprintf("q:%d:%d", q.n, q.d))
			}
		}
		add(ops, 0, "scope=random", modeTag())
		valMode = 0
	}
	// the reservoir limit: exactly at it (full comparison) and just above (only the number of samples)
	for _, extra := range []int{-2, -1, 0, 1, 2, 40} {
		n := sampleLimit - 3 + extra
		ops := []string{fmt.Sprintf("n:7:%d", n), fmt.Sprintf("t:7:%d", n), "n:-1:3", "s:-1", "s:-1", "s:-1", "q:1:2", "q:1:1024"}
		add(ops, n+3, "scope=limit", fmt.Sprintf("inserted=limit%+d", n+3-sampleLimit))
		m := fmt.Sprintf("m:1/2/%d/%d/0/%s", n+2, n, "1"+strings.Repeat(",2", n-1))
		ops = []string{"n:5:4", "t:5:3", m, "q:1:2"}
		add(ops, n+3, "scope=limit-merge", fmt.Sprintf("inserted=limit%+d", n+3-sampleLimit))
	}
	return ch
}

func r1(r *vh.RNG, lo, hi int) int { return r.Range(lo, hi) }

// ------------------------------------------------------------------ channel as.tree + oracle merge.order

var binTokens = []string{"", "a", "b", "_not_exists"}
var binMids = []uint64{0, 10, 20}

type leafSpec struct {
	as  *seq.AggregatableSamples
	wf  bool
	val map[seq.AggBin][]int // values behind a well-formed leaf (for the direct oracle)
}

func genLeaf(r *vh.RNG, wf, collect bool) leafSpec {
	l := leafSpec{as: &seq.AggregatableSamples{NotExists: int64(r.Intn(3)), SamplesByBin: map[seq.AggBin]*seq.SamplesContainer{}}, wf: wf}
	for i := r.Intn(5); i > 0; i-- {
		k := seq.AggBin{MID: seq.MID(binMids[r.Intn(len(binMids))]), Token: binTokens[r.Intn(len(binTokens))]}
		l.as.SamplesByBin[k] = genSC(r, wf, collect)
	}
	return l
}

// genRPN: a random binary merge tree over a random permutation of the leaves, sometimes with zero-valued ASs.
func genRPN(r *vh.RNG, n int) []string {
	perm := r.Perm(n)
	var toks []string
	depth := 0
	i := 0
	for i < n || depth > 1 {
		if i < n && (depth < 2 || r.Bool()) {
			if r.Chance(1, 8) {
				toks = append(toks, "z")
			} else {
				toks = append(toks, strconv.Itoa(perm[i]))
				i++
			}
			depth++
		} else {
			toks = append(toks, "m")
			depth--
		}
	}
	return toks
}

func evalRPN(toks []string, leaves []leafSpec) *seq.AggregatableSamples {
	var st []*seq.AggregatableSamples
	for _, t := range toks {
		switch t {
		case "z":
			st = append(st, &seq.AggregatableSamples{})
		case "m":
			b, a := st[len(st)-1], st[len(st)-2]
			st = st[:len(st)-2]
			a.Merge(*b)
			st = append(st, a)
		default:
			i, _ := strconv.Atoi(t)
			st = append(st, cloneAS(leaves[i].as))
		}
	}
	return st[0]
}

func aggregateStr(a *seq.AggregatableSamples, fn string, qs []quant, skip bool) (ans string) {
	defer func() {
		if e := recover(); e != nil {
			if strings.Contains(fmt.Sprint(e), "empty quantiles") {
				ans = "panic empty-quantiles"
			} else {
				ans = "panic " + fmt.Sprint(e)
			}
		}
	}()
	r := a.Aggregate(seq.AggregateArgs{Func: fnOf(fn), Quantiles: qfloats(qs), SkipWithoutTimestamp: skip})
	return fmtResult(r, a)
}

func asTreeChannel(o vh.Opts, rng *vh.RNG, rep *vh.Report) (*vh.Channel, *vh.Oracle) {
	ch := vh.NewChannel("as.tree", "AggregatableSamples.Merge over random merge trees (any bracketing, any leaf order, zero-valued accumulators) followed by Aggregate for every function vs SV.Agg.AS.merge / aggregate; non-trivial = at least one bin receives two non-empty containers")
	orc := vh.NewOracle("merge.order", "on the implementation only: two independent random merge trees over the same well-formed partial results give identical Aggregate output (values, quantiles, not-exists, bucket order); non-trivial = >= 3 leaves with a shared bin")
	n := o.Pick(600, 20000)
	for i := 0; i < n; i++ {
		wf := rng.Chance(3, 4)
		collect := rng.Bool()
		k := rng.Range(1, 5)
		valMode = pickMode(rng)
		if valMode != 0 {
			wf = true
		}
		mtag := modeTag()
		leaves := make([]leafSpec, k)
		for j := range leaves {
			leaves[j] = genLeaf(rng, wf, collect)
		}
		fn := fnNames[rng.Intn(len(fnNames))]
		if valMode != 0 && fn == "avg" { // the float quotient of huge sums is rounded: not compared
			fn = "min"
		}
		valMode = 0
		var qs []quant
		if fn == "quantile" || rng.Chance(1, 10) {
			for j := rng.Range(0, 3); j > 0; j-- {
				qs = append(qs, genQ(rng))
			}
			if fn == "quantile" && len(qs) == 0 && rng.Chance(3, 4) {
				qs = append(qs, genQ(rng))
			}
		}
		skip := rng.Chance(1, 4)
		toks := genRPN(rng, k)
		merged := evalRPN(toks, leaves)
		asStr := fmtAS(merged, false)
		res := aggregateStr(merged, fn, qs, skip)
		impl := res
		if !strings.HasPrefix(res, "panic") {
			impl = "ok as=" + asStr + " res=" + res
		}
		var ls []string
		shared := map[seq.AggBin]int{}
		for _, l := range leaves {
			ls = append(ls, fmtAS(l.as, false))
			for b, c := range l.as.SamplesByBin {
				if c.Total > 0 {
					shared[b]++
				}
			}
		}
		nt := false
		for _, c := range shared {
			if c >= 2 {
				nt = true
			}
		}
		req := fmt.Sprintf("as.tree %s %s %s %s %s", fn, fmtQs(qs), vh.B(skip), strings.Join(toks, ","), strings.Join(ls, " "))
		ch.Add(req, impl, nt, "fn="+fn, fmt.Sprintf("leaves=%d", k), "wf="+vh.B(wf), "skip="+vh.B(skip), mtag)
		if wf {
			toks2 := genRPN(rng, k)
			m2 := evalRPN(toks2, leaves)
			res2 := aggregateStr(m2, fn, qs, skip)
			orc.Case(req+" || "+strings.Join(toks2, ","), nt && k >= 3, "fn="+fn, mtag)
			if res2 != res {
				rep.Violate(vh.Violation{Site: "seq/qpr.go:AggregatableSamples.Merge", Class: "merge-order-dependent",
					What:   fmt.Sprintf("tree %s gives %s, tree %s gives %s", strings.Join(toks, ","), res, strings.Join(toks2, ","), res2),
					Replay: []string{req, "tree2 " + strings.Join(toks2, ",")}})
			}
		}
	}
	return ch, orc
}

// ------------------------------------------------------------------ channel hist.merge

func fmtHist(h map[seq.MID]uint64) string {
	ks := make([]uint64, 0, len(h))
	for k := range h {
		ks = append(ks, uint64(k))
	}
	sort.Slice(ks, func(i, j int) bool { return ks[i] < ks[j] })
	var ss []string
	for _, k := range ks {
		ss = append(ss, fmt.Sprintf("%d:%d", k, h[seq.MID(k)]))
	}
	return vh.JoinStrs(ss, ",")
}

func histMergeChannel(o vh.Opts, rng *vh.RNG) *vh.Channel {
	ch := vh.NewChannel("hist.merge", "histogram part of seq.MergeQPRs (dst.Histogram[t] += count over the partial results) vs SV.Agg.histMerge; non-trivial = a bucket present in two partial results")
	for i := o.Pick(300, 3000); i > 0; i-- {
		k := rng.Range(1, 5)
		var qprs []*seq.QPR
		var hs []string
		seen := map[seq.MID]int{}
		for j := 0; j < k; j++ {
			h := map[seq.MID]uint64{}
			for b := rng.Intn(5); b > 0; b-- {
				h[seq.MID(10*rng.Intn(6))] = uint64(rng.Range(1, 9))
			}
			for m := range h {
				seen[m]++
			}
			qprs = append(qprs, &seq.QPR{Histogram: h})
			hs = append(hs, fmtHist(h))
		}
		nt := false
		for _, c := range seen {
			nt = nt || c >= 2
		}
		dst := qprs[0]
		seq.MergeQPRs(dst, qprs[1:], 0, 10, seq.DocsOrderDesc)
		ch.Add("hist.merge "+strings.Join(hs, " "), "ok "+fmtHist(dst.Histogram), nt, fmt.Sprintf("partials=%d", k))
	}
	return ch
}


// ------------------------------------------------------------------ channel codec.roundtrip

// codecChannel: a partial result survives (a) the store -> proxy conversion buildSearchResponse / protobuf wire
// format / responseToQPR and (b) the JSON form used for stored results, unchanged - the model of both is the identity.
func codecChannel(o vh.Opts, rng *vh.RNG, rep *vh.Report) (*vh.Channel, *vh.Oracle) {
	orc := vh.NewOracle("codec.identity", "on the implementation only: a partial result pushed through the store->proxy protobuf conversion or through its JSON form aggregates to the same buckets and holds the same containers as before; non-trivial = >= 2 bins incl. one with a time bin")
	ch := vh.NewChannel("codec.roundtrip", "AggregatableSamples + histogram through buildSearchResponse -> proto.Marshal/Unmarshal -> responseToQPR, and through MarshalJSON/UnmarshalJSON, vs the identity (model: SV.Agg values are passed unchanged); non-trivial = >= 2 bins incl. one with a time bin")
	realMids := []uint64{0, 10, 20, 1758800000000, 1758800060000}
	for i := o.Pick(300, 3000); i > 0; i-- {
		wf := rng.Chance(3, 4)
		a := &seq.AggregatableSamples{NotExists: int64(rng.Intn(5)), SamplesByBin: map[seq.AggBin]*seq.SamplesContainer{}}
		timed := false
		for j := rng.Intn(6); j > 0; j-- {
			k := seq.AggBin{MID: seq.MID(realMids[rng.Intn(len(realMids))]), Token: binTokens[rng.Intn(len(binTokens))]}
			a.SamplesByBin[k] = genSC(rng, wf, rng.Bool())
			timed = timed || k.MID != 0
		}
		hist := map[seq.MID]uint64{}
		for j := rng.Intn(4); j > 0; j-- {
			hist[seq.MID(realMids[rng.Intn(len(realMids))])] = uint64(rng.Range(1, 1000))
		}
		want := fmtAS(a, false)
		req := fmt.Sprintf("as.tree count - 0 0 %s", want)
		nt := len(a.SamplesByBin) >= 2 && timed
		viaProto := viaProtoStr(a, hist)
		ch.Add(req, viaProto, nt, "codec=proto", "wf="+vh.B(wf))
		direct := "ok as=" + want + " res=" + aggregateStr(cloneAS(a), "count", nil, false)
		orc.Case("codec "+want, nt, "wf="+vh.B(wf))
		if viaProto != direct {
			rep.Violate(vh.Violation{Site: "storeapi/grpc_search.go:buildSearchResponse", Class: "partial-result-changed-by-proto-conversion",
				What: fmt.Sprintf("before %s after %s", direct, viaProto), Replay: []string{"codec " + want}})
		}
		viaJSON := viaJSONStr(a)
		ch.Add(req, viaJSON, nt, "codec=json", "wf="+vh.B(wf))
		if viaJSON != direct {
			rep.Violate(vh.Violation{Site: "seq/qpr.go:AggregatableSamples.UnmarshalJSON", Class: "partial-result-changed-by-json",
				What: fmt.Sprintf("before %s after %s", direct, viaJSON), Replay: []string{"codec " + want}})
		}
	}
	return ch, orc
}


// viaProtoStr: buildSearchResponse -> protobuf wire format -> responseToQPR, rendered like an `as.tree` answer.
func viaProtoStr(a *seq.AggregatableSamples, hist map[seq.MID]uint64) (res string) {
	defer func() {
		if e := recover(); e != nil {
			res = fmt.Sprintf("panic %v", e)
		}
	}()
	resp := storesvc.VerifC06BuildSearchResponse(&seq.QPR{Aggs: []seq.AggregatableSamples{*cloneAS(a)}, Histogram: hist})
	wire, err := proto.Marshal(resp)
	if err != nil {
		return "err marshal"
	}
	var back pbstore.SearchResponse
	if err := proto.Unmarshal(wire, &back); err != nil {
		return "err unmarshal"
	}
	q := psearch.VerifC06ResponseToQPR(&back, 7)
	if len(q.Aggs) != 1 || fmtHist(q.Histogram) != fmtHist(hist) {
		return fmt.Sprintf("err shape aggs=%d hist=%s", len(q.Aggs), fmtHist(q.Histogram))
	}
	return "ok as=" + fmtAS(&q.Aggs[0], false) + " res=" + aggregateStr(&q.Aggs[0], "count", nil, false)
}

// viaJSONStr: MarshalJSON -> UnmarshalJSON.
func viaJSONStr(a *seq.AggregatableSamples) (res string) {
	defer func() {
		if e := recover(); e != nil {
			res = fmt.Sprintf("panic %v", e)
		}
	}()
	b, err := json.Marshal(cloneAS(a))
	if err != nil {
		return "err marshal"
	}
	var back seq.AggregatableSamples
	if err := json.Unmarshal(b, &back); err != nil {
		return "err unmarshal"
	}
	return "ok as=" + fmtAS(&back, false) + " res=" + aggregateStr(&back, "count", nil, false)
}

// replayCodec re-runs a codec.identity violation (`codec <AS>`).
func replayCodec(line string, rep *vh.Report, orc *vh.Oracle) {
	a := parseAS(strings.TrimPrefix(line, "codec "))
	want := fmtAS(a, false)
	direct := "ok as=" + want + " res=" + aggregateStr(cloneAS(a), "count", nil, false)
	orc.Case(line, true)
	if v := viaProtoStr(a, map[seq.MID]uint64{}); v != direct {
		rep.Violate(vh.Violation{Site: "storeapi/grpc_search.go:buildSearchResponse", Class: "partial-result-changed-by-proto-conversion",
			What: fmt.Sprintf("before %s after %s", direct, v), Replay: []string{line}})
	}
	if v := viaJSONStr(a); v != direct {
		rep.Violate(vh.Violation{Site: "seq/qpr.go:AggregatableSamples.UnmarshalJSON", Class: "partial-result-changed-by-json",
			What: fmt.Sprintf("before %s after %s", direct, v), Replay: []string{line}})
	}
}


// ------------------------------------------------------------------ channel codec.fields

func fmtPBHist(h *pbstore.SearchResponse_Histogram) string {
	return fmt.Sprintf("%s/%s/%s/%d/%d/%s", fnum(h.Min), fnum(h.Max), fnum(h.Sum), h.Total, h.NotExists, fnums(h.Samples))
}

type tsRow struct {
	sec   int64
	nanos int32
	key   string
	s     string
}

func sortRows(rows []tsRow) []string {
	sort.Slice(rows, func(i, j int) bool {
		a, b := rows[i], rows[j]
		if a.sec != b.sec {
			return a.sec < b.sec
		}
		if a.nanos != b.nanos {
			return a.nanos < b.nanos
		}
		return a.key < b.key
	})
	var ss []string
	for _, r := range rows {
		ss = append(ss, r.s)
	}
	return ss
}

// the MIDs that matter for the unit conversions: no time, sub-second, whole seconds, around 2^63 and 2^64
var codecMids = []uint64{0, 1, 999, 1000, 1001, 10, 20, 1758800000000, 1758800000123, 1758800060999,
	9223372036854, 9223372036855, 1 << 62, 1<<63 - 1, 1 << 63, 1<<63 + 1500, 1<<64 - 1000, 1<<64 - 1}

// codecFieldsChannel compares the OUTPUT of every conversion field by field with the model (not only the round trip):
// buildSearchResponse (Label, Ts.Seconds, Ts.Nanos, container fields, NotExists), responseToQPR on arbitrary
// timestamps (sub-millisecond nanos, negative / overflowing nanos, duplicate keys), makeProtoAggregation (key,
// value, quantiles, NaN, NotExists, optional Ts, bucket order) and makeProtoHistogram (DocCount, Ts).
func codecFieldsChannel(o vh.Opts, rng *vh.RNG) *vh.Channel {
	ch := vh.NewChannel("codec.fields", "field-by-field outputs of storeapi.buildSearchResponse, proxy/search.responseToQPR, proxyapi.makeProtoAggregation and makeProtoHistogram vs SV.Agg.buildAgg / aggToAS / makeProtoAggregation / makeProtoHistogram (timestamps as (seconds, nanos)); non-trivial = a bin or bucket with a sub-second or >= 2^63 MID")
	for i := o.Pick(300, 4000); i > 0; i-- {
		a := &seq.AggregatableSamples{NotExists: int64(rng.Intn(5)), SamplesByBin: map[seq.AggBin]*seq.SamplesContainer{}}
		nt := false
		for j := rng.Intn(6); j > 0; j-- {
			m := codecMids[rng.Intn(len(codecMids))]
			a.SamplesByBin[seq.AggBin{MID: seq.MID(m), Token: binTokens[rng.Intn(len(binTokens))]}] = genSC(rng, true, rng.Bool())
			nt = nt || m%1000 != 0 || m >= 1<<63
		}
		asStr := fmtAS(a, false)
		// buildSearchResponse
		func() {
			var ans string
			defer func() {
				if e := recover(); e != nil {
					ans = fmt.Sprintf("panic %v", e)
				}
				ch.Add("pb.build "+asStr, ans, nt, "conv=buildSearchResponse")
			}()
			resp := storesvc.VerifC06BuildSearchResponse(&seq.QPR{Aggs: []seq.AggregatableSamples{*cloneAS(a)}})
			var rows []tsRow
			for _, b := range resp.Aggs[0].Timeseries {
				rows = append(rows, tsRow{b.Ts.Seconds, b.Ts.Nanos, b.Label, fmt.Sprintf("%s@%d@%d@%s", b.Label, b.Ts.Seconds, b.Ts.Nanos, fmtPBHist(b.Hist))})
			}
			ans = fmt.Sprintf("ok ne=%d ts=%s", resp.Aggs[0].NotExists, vh.JoinStrs(sortRows(rows), ";"))
		}()
		// responseToQPR on arbitrary wire content
		func() {
			var bins []*pbstore.SearchResponse_Bin
			var enc []string
			for j := rng.Intn(5); j > 0; j-- {
				var sec int64
				var nanos int32
				switch rng.Intn(5) {
				case 0:
					sec, nanos = int64(rng.Range(-3, 3)), int32(rng.Intn(1000000000))
				case 1:
					sec, nanos = 1758800000, int32(rng.Intn(1000))*1000000+int32(rng.Intn(1000000)) // sub-millisecond part is truncated
				case 2:
					sec, nanos = int64(rng.Range(-2, 2)), int32(rng.Range(-2000000000, 2000000000)) // outside [0, 1e9): time.Unix normalises
				case 3:
					sec, nanos = 0, 0
				default:
					ts := timestamppb.New(seq.MID(codecMids[rng.Intn(len(codecMids))]).Time())
					sec, nanos = ts.Seconds, ts.Nanos
				}
				c := genSC(rng, true, false)
				label := binTokens[rng.Intn(len(binTokens))]
				bins = append(bins, &pbstore.SearchResponse_Bin{Label: label, Ts: &timestamppb.Timestamp{Seconds: sec, Nanos: nanos},
					Hist: &pbstore.SearchResponse_Histogram{Min: c.Min, Max: c.Max, Sum: c.Sum, Total: c.Total, NotExists: c.NotExists, Samples: c.Samples}})
				enc = append(enc, fmt.Sprintf("%s@%d@%d@%s", label, sec, nanos, fmtSC(c, false)))
			}
			ne := int64(rng.Intn(4))
			var ans string
			defer func() {
				if e := recover(); e != nil {
					ans = fmt.Sprintf("panic %v", e)
				}
				ch.Add(fmt.Sprintf("pb.toas %d#%s", ne, vh.JoinStrs(enc, ";")), ans, len(bins) > 0, "conv=responseToQPR")
			}()
			q := psearch.VerifC06ResponseToQPR(&pbstore.SearchResponse{Aggs: []*pbstore.SearchResponse_Agg{{Timeseries: bins, NotExists: ne}}}, 3)
			ans = "ok " + fmtAS(&q.Aggs[0], false)
		}()
		// makeProtoAggregation
		func() {
			fn := fnNames[rng.Intn(len(fnNames))]
			var qs []quant
			if fn == "quantile" {
				for j := rng.Range(1, 3); j > 0; j-- {
					qs = append(qs, genQ(rng))
				}
			}
			skip := rng.Chance(1, 3)
			var ans string
			defer func() {
				if e := recover(); e != nil {
					ans = fmt.Sprintf("panic %v", e)
				}
				ch.Add(fmt.Sprintf("api.agg %s %s %s %s", fn, fmtQs(qs), vh.B(skip), asStr), ans, nt, "conv=makeProtoAggregation", "fn="+fn)
			}()
			src := cloneAS(a)
			res := src.Aggregate(seq.AggregateArgs{Func: fnOf(fn), Quantiles: qfloats(qs), SkipWithoutTimestamp: skip})
			api := proxyapi.VerifC06MakeProtoAggregation([]seq.AggregationResult{res})[0]
			var bs []string
			for k, b := range api.Buckets {
				ts := "-"
				if b.Ts != nil {
					ts = fmt.Sprintf("%d.%d", b.Ts.Seconds, b.Ts.Nanos)
				}
				c := src.SamplesByBin[seq.AggBin{MID: res.Buckets[k].MID, Token: b.Key}]
				bs = append(bs, fmt.Sprintf("%s@%s@%d@%s@%s", b.Key, fvalue(b.Value, c), b.NotExists, fnums(b.Quantiles), ts))
			}
			ans = fmt.Sprintf("ok ne=%d %s", api.NotExists, vh.JoinStrs(bs, ";"))
		}()
		// makeProtoHistogram
		func() {
			hist := map[seq.MID]uint64{}
			for j := rng.Intn(5); j > 0; j-- {
				hist[seq.MID(codecMids[rng.Intn(len(codecMids))])] = uint64(rng.Range(1, 1000))
			}
			var ans string
			defer func() {
				if e := recover(); e != nil {
					ans = fmt.Sprintf("panic %v", e)
				}
				ch.Add("api.hist "+fmtHist(hist), ans, len(hist) > 1, "conv=makeProtoHistogram")
			}()
			api := proxyapi.VerifC06MakeProtoHistogram(&seq.QPR{Histogram: hist})
			var rows []tsRow
			for _, b := range api.Buckets {
				rows = append(rows, tsRow{b.Ts.Seconds, b.Ts.Nanos, fmt.Sprintf("%020d", b.DocCount), fmt.Sprintf("%d@%d@%d", b.DocCount, b.Ts.Seconds, b.Ts.Nanos)})
			}
			ans = "ok " + vh.JoinStrs(sortRows(rows), ",")
		}()
	}
	return ch
}


// ------------------------------------------------------------------ channel parse.num

func exactRat(v float64) string {
	r := new(big.Rat)
	if r.SetFloat64(v) == nil {
		return "nan"
	}
	if r.IsInt() {
		return r.Num().String()
	}
	return r.Num().String() + "/" + r.Denom().String()
}

// parseNumChannel: processor.parseNum on spellings of every class vs the model's specification parseNumSpec
// (tokens whose value is exactly representable, so that the float64 result is the exact rational of the literal).
func parseNumChannel(o vh.Opts, rng *vh.RNG) *vh.Channel {
	ch := vh.NewChannel("parse.num", "processor.parseNum(token) vs SV.Agg.parseNumSpec: which strings are numbers and their exact value (zero-padded decimals, signs, exponents, points, hexadecimal floats, base prefixes, underscores, spaces, inf / nan spellings, overflow); non-trivial = a token that is not a plain decimal integer")
	add := func(tok string, tag string) {
		v, err := processor.VerifC06ParseNum(tok)
		impl := "err"
		if err == nil {
			impl = "ok " + exactRat(v)
			// only literals whose value is exactly representable are compared (ParseFloat rounds the others): the
			// exact value of a decimal literal according to math/big, independent of strconv
			if r, ok := new(big.Rat).SetString(strings.ReplaceAll(tok, "_", "")); ok && !strings.Contains(tok, "/") {
				if f := new(big.Rat); f.SetFloat64(v) != nil && f.Cmp(r) != 0 {
					ch.Tag("skipped=not-exactly-representable")
					return
				}
			}
		}
		plain := tok != "" && strings.Trim(tok, "0123456789") == "" && (len(tok) == 1 || tok[0] != '0')
		ch.Add("num "+vh.Hex([]byte(tok)), impl, !plain, "class="+tag)
	}
	for _, t := range numberSpellings {
		add(t, "integer-spelling")
	}
	for _, t := range notNumbers {
		add(t, "not-a-number")
	}
	for _, t := range []string{" 5", "5 ", "\t5", "5\n", "+5", "+0100", "-007", "0.5", ".5", "-.25", "0.125e1", "1.5", "0x1p-2", "0x.8p1", "0X1P+4", "0x1.8p-1", "0x1p", "0xp1", "0x1.p1",
		"+Inf", "+infinity", "INF", "nan", "+nan", "-NaN", "Infinity", "iNf", "1e309", "-1e309", "1e22", "1e1_0", "1_e5", "1e_5", "-1_0.0_1e1_0", "0x1_0p0", "1._5", "1_.5",
		"0b1", "0B1", "0o7", "0O7", "0_1", "1__0", "_1", "1_", "0x_1p0", "1e+", "1e-", "1E+02", "1e0002", "0e0", "000", "9223372036854775808", "18446744073709551616", "123456789012", "٣", "１２", "1,5", "1 000", "1e2.0", "++1", "+-1", "0x1P0x1"} {
		add(t, "directed")
	}
	ints := []string{"0", "1", "7", "08", "010", "0100", "0777", "12", "100", "4096", "00012"}
	fracs := []string{"", ".", ".0", ".5", ".25", ".75", ".125", ".50"}
	exps := []string{"", "e0", "E1", "e+2", "e3", "E+01", "e-0"}
	signs := []string{"", "", "-", "+"}
	for i := o.Pick(300, 3000); i > 0; i-- {
		tok := signs[rng.Intn(len(signs))] + ints[rng.Intn(len(ints))] + fracs[rng.Intn(len(fracs))] + exps[rng.Intn(len(exps))]
		if rng.Chance(1, 8) { // damage it
			junk := []string{"_", " ", "x", "0x", "e", ".", "p1", "b"}[rng.Intn(8)]
			pos := rng.Intn(len(tok) + 1)
			tok = tok[:pos] + junk + tok[pos:]
		}
		add(tok, "generated")
	}
	return ch
}


// ------------------------------------------------------------------ oracle json.gateway

// jsonGateway: the HTTP gateway renders responses with encoding/json (proxyapi.humanReadableMarshaler), i.e. through
// (*Aggregation_Bucket).MarshalJSON.  The rendering must carry every value exactly: parsing the JSON number back gives
// the float64 that went in (NaN / Inf as their quoted spellings), for the value and every quantile.
func jsonGatewayOracle(o vh.Opts, rng *vh.RNG, rep *vh.Report) *vh.Oracle {
	orc := vh.NewOracle("json.gateway", "on the implementation only: a public aggregation (from makeProtoAggregation, or synthetic values that float32 cannot hold: sums >= 2^24 with fractions, counts > 2^24, 0.1-steps, NaN quantiles of value-less buckets) rendered with encoding/json as the HTTP gateway does parses back to exactly the same float64 values; non-trivial = a value or quantile that is not representable in float32")
	check := func(key string, agg *seqproxyapi.Aggregation) {
		nt := false
		for _, b := range agg.Buckets {
			for _, v := range append([]float64{b.Value}, b.Quantiles...) {
				nt = nt || (!math.IsNaN(v) && float64(float32(v)) != v)
			}
		}
		orc.Case(key, nt)
		raw, err := json.Marshal(agg)
		if err != nil {
			class := "json-marshal-error"
			if strings.Contains(err.Error(), "NaN") {
				class = "json-nan-quantiles-not-encodable"
			}
			rep.Violate(vh.Violation{Site: "pkg/seqproxyapi/v1/marshaler.go:Aggregation_Bucket.MarshalJSON", Class: class, What: err.Error(), Replay: []string{key}})
			return
		}
		var back struct {
			Buckets []struct {
				Value     json.RawMessage   `json:"value"`
				Quantiles []json.RawMessage `json:"quantiles"`
			} `json:"buckets"`
		}
		if err := json.Unmarshal(raw, &back); err != nil || len(back.Buckets) != len(agg.Buckets) {
			rep.Violate(vh.Violation{Site: "pkg/seqproxyapi/v1/marshaler.go:Aggregation_Bucket.MarshalJSON", Class: "json-shape", What: fmt.Sprintf("%v: %s", err, raw), Replay: []string{key}})
			return
		}
		same := func(raw json.RawMessage, v float64) bool {
			f, err := strconv.ParseFloat(strings.Trim(string(raw), `"`), 64)
			return err == nil && (math.Float64bits(f) == math.Float64bits(v) || (math.IsNaN(f) && math.IsNaN(v)))
		}
		for i, b := range agg.Buckets {
			ok := same(back.Buckets[i].Value, b.Value) && len(back.Buckets[i].Quantiles) == len(b.Quantiles)
			for j := 0; ok && j < len(b.Quantiles); j++ {
				ok = same(back.Buckets[i].Quantiles[j], b.Quantiles[j])
			}
			if !ok {
				rep.Violate(vh.Violation{Site: "pkg/seqproxyapi/v1/marshaler.go:Aggregation_Bucket.MarshalJSON", Class: "json-value-not-exact",
					What: fmt.Sprintf("bucket %q value %v quantiles %v rendered as %s", b.Key, b.Value, b.Quantiles, raw), Replay: []string{key}})
				return
			}
		}
	}
	// synthetic results through the real makeProtoAggregation
	special := []float64{2140234007.25, 16777217, 16777216, 33554433, 0.1, 0.30000000000000004, 1e300, -123456789.125, 4.9e-324, 1 << 53, 0, -0.5, math.NaN()}
	for i := o.Pick(200, 2000); i > 0; i-- {
		var bs []seq.AggregationBucket
		var parts []string
		for k := rng.Range(1, 4); k > 0; k-- {
			v := special[rng.Intn(len(special))]
			if rng.Bool() {
				v = float64(rng.Range(1<<24, 1<<30)) + []float64{0, 0.5, 0.25, 0.1}[rng.Intn(4)]
			}
			var qs []float64
			for j := rng.Intn(3); j > 0; j-- {
				qs = append(qs, special[rng.Intn(len(special)-1)]) // the NaN quantile case is the directed witness below
			}
			name := binTokens[1+rng.Intn(2)]
			bs = append(bs, seq.AggregationBucket{Name: name, Value: v, Quantiles: qs, NotExists: int64(rng.Intn(3)), MID: seq.MID(codecMids[rng.Intn(len(codecMids))])})
			parts = append(parts, fmt.Sprintf("%s:%s:%s", name, strconv.FormatFloat(v, 'g', -1, 64), strings.ReplaceAll(fnumsG(qs), ",", "~")))
		}
		api := proxyapi.VerifC06MakeProtoAggregation([]seq.AggregationResult{{Buckets: bs}})[0]
		check("json "+strings.Join(parts, ","), api)
	}
	// directed: a quantile aggregation in which group gb has only documents without the field (a value-less bucket)
	a := &seq.AggregatableSamples{SamplesByBin: map[seq.AggBin]*seq.SamplesContainer{}}
	ca := seq.NewSamplesContainers()
	ca.InsertNTimes(5, 1)
	ca.InsertSample(5)
	cb := seq.NewSamplesContainers()
	cb.NotExists = 2
	a.SamplesByBin[seq.AggBin{Token: "ga"}], a.SamplesByBin[seq.AggBin{Token: "gb"}] = ca, cb
	res := a.Aggregate(seq.AggregateArgs{Func: seq.AggFuncQuantile, Quantiles: []float64{0.5}})
	check("json quantile-of-value-less-bucket ga:5 gb:-", proxyapi.VerifC06MakeProtoAggregation([]seq.AggregationResult{res})[0])
	return orc
}

func fnumsG(vs []float64) string {
	if len(vs) == 0 {
		return "-"
	}
	var ss []string
	for _, v := range vs {
		ss = append(ss, strconv.FormatFloat(v, 'g', -1, 64))
	}
	return strings.Join(ss, ",")
}

// replayJSON re-runs a json.gateway case: `json name:value:q+q,...` or the directed witness.
func replayJSON(line string, rep *vh.Report, orc *vh.Oracle) {
	if strings.Contains(line, "quantile-of-value-less-bucket") {
		o2 := jsonGatewayOracle(vh.Opts{Tier: "replay"}, vh.NewRNG(1), rep)
		orc.Cases += o2.Cases
		return
	}
	var bs []seq.AggregationBucket
	for _, p := range strings.Split(strings.TrimPrefix(line, "json "), ",") {
		f := strings.Split(p, ":")
		if len(f) != 3 {
			continue
		}
		v, _ := strconv.ParseFloat(f[1], 64)
		b := seq.AggregationBucket{Name: f[0], Value: v}
		if f[2] != "-" {
			for _, q := range strings.Split(f[2], "~") {
				x, _ := strconv.ParseFloat(q, 64)
				b.Quantiles = append(b.Quantiles, x)
			}
		}
		bs = append(bs, b)
	}
	api := proxyapi.VerifC06MakeProtoAggregation([]seq.AggregationResult{{Buckets: bs}})[0]
	orc.Case(line, true)
	raw, err := json.Marshal(api)
	if err != nil {
		rep.Violate(vh.Violation{Site: "pkg/seqproxyapi/v1/marshaler.go:Aggregation_Bucket.MarshalJSON", Class: "json-marshal-error", What: err.Error(), Replay: []string{line}})
		return
	}
	var back seqproxyapi.Aggregation
	if err := json.Unmarshal(raw, &back); err != nil {
		return
	}
	for i, b := range api.Buckets {
		if i < len(back.Buckets) && math.Float64bits(back.Buckets[i].Value) != math.Float64bits(b.Value) && !(math.IsNaN(b.Value) && math.IsNaN(back.Buckets[i].Value)) {
			rep.Violate(vh.Violation{Site: "pkg/seqproxyapi/v1/marshaler.go:Aggregation_Bucket.MarshalJSON", Class: "json-value-not-exact",
				What: fmt.Sprintf("bucket %q value %v rendered as %s", b.Key, b.Value, raw), Replay: []string{line}})
			return
		}
	}
}

// ------------------------------------------------------------------ scripted index for processor.IndexSearch

type doc struct {
	mid   uint64
	match bool
	g     []string // group-by tokens (0, 1 or - in the channel only - several)
	f     []string // field tokens
}

type fakeIndex struct {
	docs     []doc // docs[lid-1]
	tokens   []string
	postings [][]uint32
	fields   map[string][]uint32 // field -> tids
}

// tidOff reserved token ids come first, so that the tids of a field are `tidOff + source` (in a real fraction the
// tids of a field are a contiguous block somewhere in the token table; a small offset makes source indexes and tids
// overlap without being equal).
func buildIndex(docs []doc, tidOff int) *fakeIndex {
	ix := &fakeIndex{docs: docs, fields: map[string][]uint32{}}
	for i := 0; i < tidOff; i++ {
		ix.tokens = append(ix.tokens, fmt.Sprintf("pad%d", i))
		ix.postings = append(ix.postings, nil)
	}
	addTok := func(field, val string, lid uint32) {
		for _, tid := range ix.fields[field] {
			if ix.tokens[tid] == val {
				ix.postings[tid] = append(ix.postings[tid], lid)
				return
			}
		}
		ix.fields[field] = append(ix.fields[field], uint32(len(ix.tokens)))
		ix.tokens = append(ix.tokens, val)
		ix.postings = append(ix.postings, []uint32{lid})
	}
	// tids of a field are handed out in value order, as the token table does
	for _, field := range []string{"g", "f"} {
		vals := map[string]bool{}
		for _, d := range docs {
			src := d.g
			if field == "f" {
				src = d.f
			}
			for _, v := range src {
				vals[v] = true
			}
		}
		sorted := vh.SortedKeys(vals)
		for _, v := range sorted {
			for i, d := range docs {
				src := d.g
				if field == "f" {
					src = d.f
				}
				for _, x := range src {
					if x == v {
						addTok(field, v, uint32(i+1))
					}
				}
			}
		}
	}
	// the query leaf is a multi-token one (a wildcard / in-list: BuildORTree over nodeOr) whose posting lists
	// OVERLAP: a matching document carries a non-empty subset of the tokens q1..q3; the matching set is their union
	for b, v := range []string{"1", "2", "3"} {
		for i, d := range docs {
			if d.match && (1+(uint64(i)*7+d.mid)%7)&(1<<uint(b)) != 0 {
				addTok("q", v, uint32(i+1))
			}
		}
	}
	return ix
}

func (ix *fakeIndex) GetValByTID(tid uint32) []byte { return []byte(ix.tokens[tid]) }
func (ix *fakeIndex) GetTIDsByTokenExpr(t parser.Token) ([]uint32, error) {
	lit, ok := t.(*parser.Literal)
	if !ok {
		return nil, fmt.Errorf("unexpected token")
	}
	return ix.fields[lit.Field], nil
}
func (ix *fakeIndex) GetLIDsFromTIDs(tids []uint32, _ lids.Counter, minLID, maxLID uint32, order seq.DocsOrder) []node.Node {
	var res []node.Node
	for _, tid := range tids {
		var p []uint32
		for _, l := range ix.postings[tid] {
			if l >= minLID && l <= maxLID {
				p = append(p, l)
			}
		}
		res = append(res, node.NewStatic(p, order.IsReverse()))
	}
	return res
}
func (ix *fakeIndex) GetMID(lid seq.LID) seq.MID { return seq.MID(ix.docs[lid-1].mid) }
func (ix *fakeIndex) GetRID(lid seq.LID) seq.RID { return seq.RID(1000 - uint64(lid)) }
func (ix *fakeIndex) Len() int                   { return len(ix.docs) + 1 }
func (ix *fakeIndex) LessOrEqual(lid seq.LID, id seq.ID) bool {
	m := ix.GetMID(lid)
	if m == id.MID {
		return ix.GetRID(lid) <= id.RID
	}
	return m < id.MID
}

type aggq struct {
	fn       string
	group    bool
	interval int64
	qs       []quant
}

func (a aggq) String() string {
	return fmt.Sprintf("%s/g%s/i%d/q%s", a.fn, vh.B(a.group), a.interval, strings.ReplaceAll(fmtQs(a.qs), "/", ":"))
}

func (a aggq) toQuery() processor.AggQuery {
	q := processor.AggQuery{Func: fnOf(a.fn), Interval: a.interval, Quantiles: qfloats(a.qs)}
	if a.group {
		q.GroupBy = &parser.Literal{Field: "g"}
	}
	if a.fn != "count" && a.fn != "unique" {
		q.Field = &parser.Literal{Field: "f"}
	}
	return q
}

// prodLimits are the seq-db binary's default aggregation limits (cmd/seq-db/flags.go); the generated corpora stay far
// below them, so they must not change any result - but they switch on the source counting and the token cache of
// SourcedNodeIterator.ValueBySource.
var prodLimits = processor.AggLimits{MaxFieldTokens: 1000000, MaxGroupTokens: 2000, MaxTIDsPerFraction: 100000}

// limSpec: aggregation limits of a run: "0" = none (the testing default), "1" = the seq-db binary's defaults,
// "sG.F.T" = small MaxGroupTokens.MaxFieldTokens.MaxTIDsPerFraction (0 = that limit off) so that some fraction /
// store refuses the aggregation.
type limSpec string

func (l limSpec) limits() processor.AggLimits {
	switch {
	case l == "" || l == "0":
		return processor.AggLimits{}
	case l == "1":
		return prodLimits
	}
	var g, f, t int
	fmt.Sscanf(string(l), "s%d.%d.%d", &g, &f, &t)
	return processor.AggLimits{MaxGroupTokens: g, MaxFieldTokens: f, MaxTIDsPerFraction: t}
}
func (l limSpec) small() bool { return strings.HasPrefix(string(l), "s") }
func (l limSpec) tag() string {
	switch {
	case l.small():
		return "limits=small"
	case l == "1":
		return "limits=production"
	}
	return "limits=none"
}

func genLim(r *vh.RNG) limSpec {
	switch r.Intn(4) {
	case 0:
		return "0"
	case 1, 2:
		return "1"
	}
	pick := func() int { return []int{0, 1, 2, 3, 5}[r.Intn(5)] }
	return limSpec(fmt.Sprintf("s%d.%d.%d", pick(), pick(), []int{0, 1, 2, 5, 8}[r.Intn(5)]))
}

// refused: the aggregation was refused because of a limit - an explicit outcome the property allows
func refused(err error) bool {
	return err != nil && (errors.Is(err, consts.ErrTooManyUniqValues) || strings.Contains(err.Error(), consts.ErrTooManyUniqValues.Error()))
}

func search(ix *fakeIndex, aggs []aggq, histInterval uint64, order seq.DocsOrder, limits limSpec) (qpr *seq.QPR, err error) {
	defer func() {
		if e := recover(); e != nil {
			err = fmt.Errorf("panic: %v", e)
		}
	}()
	p := processor.SearchParams{
		AST:          &parser.ASTNode{Value: &parser.Literal{Field: "q"}},
		HistInterval: histInterval,
		From:         0,
		To:           seq.MID(math.MaxUint64),
		Limit:        0,
		WithTotal:    true,
		Order:        order,
	}
	for _, a := range aggs {
		p.AggQ = append(p.AggQ, a.toQuery())
	}
	return processor.IndexSearch(context.Background(), p, ix, limits.limits(), stopwatch.New())
}

func fmtDocs(docs []doc) string {
	var ss []string
	for _, d := range docs {
		ss = append(ss, fmt.Sprintf("%d:%s:%s:%s", d.mid, vh.B(d.match), vh.JoinStrs(d.g, "+"), vh.JoinStrs(d.f, "+")))
	}
	return vh.JoinStrs(ss, ",")
}

// e2eDocsDesc, when set, stands for the document list in case keys (a generated corpus too large to spell out)
var e2eDocsDesc string

func docsKey(rel []doc) string {
	if e2eDocsDesc != "" {
		return e2eDocsDesc
	}
	return fmtDocs(rel)
}

// bigDocs: n matching documents spread evenly over one minute (document i is newer than document i-1), nearly all
// sharing the group token `ga` and the field token `1`, so that single tokens own more than 65536 LIDs and their
// LID lists cross LID-block boundaries of a sealed fraction.
func bigDocs(n int, seed int64) []doc {
	r := vh.NewRNG(seed)
	docs := make([]doc, n)
	for i := range docs {
		d := doc{mid: uint64(i) * 60000 / uint64(n), match: true}
		switch x := r.Intn(100); {
		case x < 93:
			d.g = []string{"ga"}
		case x < 98:
			d.g = []string{"gb"}
		}
		switch x := r.Intn(100); {
		case x < 80:
			d.f = []string{"1"}
		case x < 90:
			d.f = []string{"2"}
		case x < 96:
			d.f = []string{"3"}
		}
		docs[i] = d
	}
	return docs
}

func parseDocs(s string) []doc {
	var docs []doc
	if s == "-" {
		return nil
	}
	if strings.HasPrefix(s, "big:") {
		var n int
		var seed int64
		fmt.Sscanf(s, "big:%d:%d", &n, &seed)
		return bigDocs(n, seed)
	}
	for _, x := range strings.Split(s, ",") {
		f := strings.Split(x, ":")
		m, _ := strconv.ParseUint(f[0], 10, 64)
		d := doc{mid: m, match: f[1] == "1"}
		if f[2] != "-" {
			d.g = strings.Split(f[2], "+")
		}
		if f[3] != "-" {
			d.f = strings.Split(f[3], "+")
		}
		docs = append(docs, d)
	}
	return docs
}

var groupVals = []string{"ga", "gb", "gc", "_not_exists"}

// field tokens beyond the int64 range (exponent notation as a log shipper would write them); all parse to exactly
// representable floats that are multiples of 2^19 below 2^66, so that sums over a corpus stay exact
var hugeTokens = []string{"1e19", "-1e19", "3e19", "-3e19", "9223372036854775808", "-9.223372036854775808e18", "18446744073709551616", "1.0E19"}

// numberSpellings: integer-valued field tokens in spellings other than plain decimal (zero padded - NOT octal -,
// explicit plus, exponents, trailing / leading point, hexadecimal floats); notNumbers: tokens parseNum must reject
// (base prefixes, underscores, spaces, infinities and NaNs in every spelling).  No `+`, `,`, `:`, `|` inside (separators
// of the case rendering) except the leading plus, which fmtDocs / parseDocs keep.
var numberSpellings = []string{"0100", "007", "-0020", "010", "00", "1e2", "1E2", "2.50e1", "5.", "100e-2", "12.0", "0x10p0", "0X1.8p1", "-0x1p3", "1e3", "0008", "1_000", "0_7"}
var notNumbers = []string{"x", "1__000", "0x10", "0b101", "0o17", "Inf", "-inf", "NaN", "infinity", "1e400", "1e", "e5", "", "0x", "1.5.2", "--1"}

// tokVal parses a field token the way the aggregators do (strconv.ParseFloat); ok=false for an unparsable token.
func tokVal(tok string) (float64, bool) {
	v, err := strconv.ParseFloat(tok, 64)
	if err != nil || math.IsNaN(v) || math.IsInf(v, 0) {
		return 0, false
	}
	return v, true
}

func genDocs(r *vh.RNG, n int, multi bool, bad bool) []doc {
	docs := make([]doc, n)
	mid := uint64(r.Range(30, 120))
	for i := range docs {
		if i > 0 && r.Chance(2, 3) {
			mid -= uint64(r.Range(0, 12))
			if mid < 1 {
				mid = 1
			}
		}
		d := doc{mid: mid, match: r.Chance(3, 4)}
		if r.Chance(3, 4) {
			d.g = []string{groupVals[r.Intn(len(groupVals)-1+r.Intn(2))]}
			if multi && r.Chance(1, 4) {
				d.g = append(d.g, "gz")
			}
		}
		if r.Chance(3, 4) {
			d.f = []string{strconv.Itoa([]int{-7, -1, 0, 3, 3, 5, 12, 1 << 20}[r.Intn(8)] + r.Intn(2))}
			if valMode != 0 {
				d.f = []string{hugeTokens[r.Intn(len(hugeTokens))]}
			}
			if valMode == 0 && r.Chance(1, 4) { // other spellings of integers: the value of a token is ParseFloat's
				d.f = []string{numberSpellings[r.Intn(len(numberSpellings))]}
			}
			if bad && r.Chance(1, 6) {
				d.f = []string{notNumbers[r.Intn(len(notNumbers))]}
			}
			if multi && r.Chance(1, 4) {
				if valMode != 0 {
					d.f = append(d.f, "2e19")
				} else {
					d.f = append(d.f, "99")
				}
			}
		}
		docs[i] = d
	}
	return docs
}

// modelAggRequest renders the `agg` request for one aggregation of one fraction.
func modelAggRequest(ix *fakeIndex, a aggq, order seq.DocsOrder) string {
	rev := order.IsReverse()
	var lidsS, midsS []string
	idx := make([]int, 0, len(ix.docs))
	for i := range ix.docs {
		idx = append(idx, i)
	}
	if rev {
		for i, j := 0, len(idx)-1; i < j; i, j = i+1, j-1 {
			idx[i], idx[j] = idx[j], idx[i]
		}
	}
	for _, i := range idx {
		if ix.docs[i].match {
			lidsS = append(lidsS, strconv.Itoa(i+1))
			midsS = append(midsS, strconv.FormatUint(ix.docs[i].mid, 10))
		}
	}
	post := func(field string, used bool) (string, string) {
		if !used {
			return "x", "-"
		}
		var ps, vs []string
		for _, tid := range ix.fields[field] {
			ps = append(ps, vh.JoinInts(ix.postings[tid]))
			tok := ix.tokens[tid]
			if field == "f" { // the raw token: the model values it with its own specification of parseNum (tokenInt)
				tok = "h" + vh.Hex([]byte(tok))
			}
			vs = append(vs, tok)
		}
		return vh.JoinStrs(ps, "/"), vh.JoinStrs(vs, ",")
	}
	needField := a.fn != "count" && a.fn != "unique"
	g, gv := post("g", a.group)
	f, fv := post("f", needField)
	return fmt.Sprintf("agg %s %s %d %s %s %s %s %s %s %s", a.fn, vh.B(rev), a.interval, fmtQs(a.qs),
		vh.JoinStrs(lidsS, ","), vh.JoinStrs(midsS, ","), g, f, gv, fv)
}

func genAggs(r *vh.RNG) []aggq {
	var aggs []aggq
	for i := r.Range(1, 3); i > 0; i-- {
		a := aggq{fn: fnNames[r.Intn(len(fnNames))]}
		a.group = a.fn == "count" || a.fn == "unique" || r.Bool()
		if r.Chance(1, 2) {
			a.interval = int64([]int{1, 7, 10, 50}[r.Intn(4)])
		} else if r.Chance(1, 6) {
			a.interval = -5
		}
		if a.fn == "quantile" {
			for j := r.Range(1, 3); j > 0; j-- {
				a.qs = append(a.qs, genQ(r))
			}
		}
		aggs = append(aggs, a)
	}
	return aggs
}

func aggIndexChannel(o vh.Opts, rng *vh.RNG) (*vh.Channel, *vh.Channel) {
	ch := vh.NewChannel("agg.index", "processor.IndexSearch on a scripted index (evalAgg dispatch, sourced OR tree, ConsumeTokenSource lock-step walk, the four aggregators, time bins, parse errors, both orders, multi-valued fields included) vs SV.Agg.evalAgg over SV.Agg.events; non-trivial = >= 2 matching documents carrying the aggregated field or group")
	hch := vh.NewChannel("hist.run", "histogram of iterateEvalTree (bucket = mid - mid % interval per matching LID) vs SV.Agg.histRun; non-trivial = two matching documents in one bucket")
	n := o.Pick(500, 25000)
	for i := 0; i < n; i++ {
		multi := rng.Chance(1, 5)
		bad := rng.Chance(1, 6)
		valMode = pickMode(rng)
		mtag := modeTag()
		docs := genDocs(rng, rng.Range(0, o.Pick(10, 24)), multi, bad)
		valMode = 0
		tidOff := rng.Intn(3)
		limits := genLim(rng)
		ix := buildIndex(docs, tidOff)
		aggs := genAggs(rng)
		order := seq.DocsOrder(rng.Intn(2))
		histInterval := uint64([]int{0, 1, 10, 25}[rng.Intn(4)])
		qpr, err := search(ix, aggs, histInterval, order, limits)
		nmatch := 0
		var mids []uint64
		for _, d := range docs {
			if d.match {
				nmatch++
				mids = append(mids, d.mid)
			}
		}
		if histInterval > 0 && err == nil {
			cnt := map[uint64]int{}
			nt := false
			for _, m := range mids {
				b := m - m%histInterval
				cnt[b]++
				nt = nt || cnt[b] >= 2
			}
			hch.Add(fmt.Sprintf("hist.run %d %s", histInterval, vh.JoinInts(mids)), "ok "+fmtHist(qpr.Histogram), nt, fmt.Sprintf("interval=%d", histInterval))
		}
		if err != nil {
			// an error of any aggregation fails the whole search: the channel then checks that the model fails on at
			// least one of them and succeeds on none that the code could not have reached (first failing index)
			if strings.HasPrefix(err.Error(), "panic") {
				ch.Add("agg-go-panic "+fmtDocs(docs), "panic "+err.Error(), false, "outcome=panic")
				continue
			}
			if limits.small() && refused(err) { // an explicit refusal: nothing to compare (c06_limits_transparent covers the rest)
				ch.Tag("outcome=limit-refusal")
				continue
			}
			for _, a := range aggs {
				solo, serr := search(ix, []aggq{a}, 0, order, limits)
				req := modelAggRequest(ix, a, order)
				if limits.small() && refused(serr) {
					ch.Tag("outcome=limit-refusal")
					continue
				}
				if serr != nil {
					ch.Add(req, "err parse", nmatch >= 2, "fn="+a.fn, "outcome=err", "multi="+vh.B(multi))
				} else {
					ch.Add(req, "ok "+fmtASx(&solo.Aggs[0], false, true), nmatch >= 2, "fn="+a.fn, "outcome=ok", "multi="+vh.B(multi))
				}
			}
			continue
		}
		for j, a := range aggs {
			ch.Add(modelAggRequest(ix, a, order), "ok "+fmtASx(&qpr.Aggs[j], false, true), nmatch >= 2, "fn="+a.fn, "outcome=ok",
				"multi="+vh.B(multi), "group="+vh.B(a.group), fmt.Sprintf("timeseries=%s", vh.B(a.interval > 0)), "rev="+vh.B(order.IsReverse()), mtag, limits.tag(), fmt.Sprintf("tid-offset=%d", tidOff))
		}
	}
	return ch, hch
}

// ------------------------------------------------------------------ oracle agg.direct

type binStat struct {
	vals      []float64
	notExists int64
	present   bool
}

// expected computes, directly from the documents, what every bin of an aggregation has to hold
// (single-valued group / field tokens).
// asFound = true reproduces two behaviours of the code as found that the property does not allow (used only to
// classify a violation): group-without-field documents tallied in the bin without time.
func expected(fracs [][]doc, a aggq, asFound bool) (map[seq.AggBin]*binStat, int64) {
	res := map[seq.AggBin]*binStat{}
	get := func(k seq.AggBin) *binStat {
		if res[k] == nil {
			res[k] = &binStat{}
		}
		return res[k]
	}
	var ne int64
	bin := func(m uint64) seq.MID {
		if a.interval <= 0 {
			return 0
		}
		return seq.MID(m - m%uint64(a.interval))
	}
	for _, docs := range fracs {
		for _, d := range docs {
			if !d.match {
				continue
			}
			switch {
			case a.fn == "count":
				if len(d.g) == 0 {
					ne++
					// legacy format (aggregator.go): the not-exists count is also delivered as a bucket `_not_exists` without
					// time bin - unless a real group token of that name owns the bucket
					if !realNotExistsToken(fracs) {
						b := get(seq.AggBin{Token: "_not_exists"})
						b.vals = append(b.vals, 1)
					}
				} else {
					get(seq.AggBin{MID: bin(d.mid), Token: d.g[0]}).vals = append(get(seq.AggBin{MID: bin(d.mid), Token: d.g[0]}).vals, 1.0)
				}
			case a.fn == "unique":
				if len(d.g) == 0 {
					ne++
				} else {
					get(seq.AggBin{Token: d.g[0]}).present = true
				}
			case !a.group:
				b := get(seq.AggBin{MID: bin(d.mid)})
				if len(d.f) == 0 {
					b.notExists++
				} else {
					v, _ := tokVal(d.f[0])
					b.vals = append(b.vals, v)
				}
			default:
				switch {
				case len(d.g) == 0 && len(d.f) == 0:
				case len(d.f) == 0:
					if asFound {
						get(seq.AggBin{Token: d.g[0]}).notExists++
					} else { // the document belongs to its own time bin, like every other tally
						get(seq.AggBin{MID: bin(d.mid), Token: d.g[0]}).notExists++
					}
				case len(d.g) == 0:
					ne++
				default:
					v, _ := tokVal(d.f[0])
					b := get(seq.AggBin{MID: bin(d.mid), Token: d.g[0]})
					b.vals = append(b.vals, v)
				}
			}
		}
	}
	return res, ne
}

func realNotExistsToken(fracs [][]doc) bool {
	for _, f := range fracs {
		for _, d := range f {
			if d.match && len(d.g) > 0 && d.g[0] == "_not_exists" {
				return true
			}
		}
	}
	return false
}

// classify names the input class of a value violation (signature.class of known findings).
func classify(fracs [][]doc, a aggq, skip bool, got, want string) (string, string) {
	site, class := "frac/processor/eval_tree.go:evalAgg", "agg-value-differs-from-documents"
	switch {
	case a.fn == "quantile" && !haveInner(a.qs) && strings.Contains(got, "nan") && !strings.Contains(want, "nan"):
		class = "quantile-0-1-only-returns-nan"
	case a.fn == "count" && realNotExistsToken(fracs):
		site, class = "frac/processor/aggregator.go:SingleSourceCountAggregator.Aggregate", "legacy-not-exists-bin-collides-with-token"
	case got == expectedBucketsX(fracs, a, skip, true):
		site, class = "frac/processor/aggregator.go:TwoSourceAggregator.Next", "group-not-exists-dropped-in-timeseries"
	}
	return site, class
}

// expectedBuckets renders the Aggregate output the property demands, in the order sortBuckets documents.
func expectedBuckets(fracs [][]doc, a aggq, skip bool) string {
	return expectedBucketsX(fracs, a, skip, false)
}

// expectedBucketsF: values rendered as floats (what a client of the public API sees), avg included
func expectedBucketsF(fracs [][]doc, a aggq, skip bool) string { return expectedBucketsY(fracs, a, skip, false, true) }

func expectedBucketsX(fracs [][]doc, a aggq, skip bool, asFound bool) string {
	return expectedBucketsY(fracs, a, skip, asFound, false)
}

func expectedBucketsY(fracs [][]doc, a aggq, skip bool, asFound bool, floats bool) string {
	stats, ne := expected(fracs, a, asFound)
	type bk struct {
		mid   uint64
		name  string
		value float64
		vstr  string
		qs    []string
		ne    int64
	}
	var bs []bk
	for k, s := range stats {
		if skip && k.MID == 0 {
			continue
		}
		b := bk{mid: uint64(k.MID), name: k.Token, ne: s.notExists}
		sorted := append([]float64(nil), s.vals...)
		sort.Float64s(sorted)
		sum := 0.0
		for _, v := range sorted {
			sum += v
		}
		n := len(sorted)
		switch a.fn {
		case "count":
			b.value, b.vstr = float64(n), strconv.Itoa(n)
		case "unique":
			b.value, b.vstr = 0, "0"
		default:
			if n == 0 {
				b.value, b.vstr = math.NaN(), "nan"
				for range a.qs {
					b.qs = append(b.qs, "nan")
				}
				break
			}
			switch a.fn {
			case "sum":
				b.value, b.vstr = sum, fnum(sum)
			case "min":
				b.value, b.vstr = sorted[0], fnum(sorted[0])
			case "max":
				b.value, b.vstr = sorted[n-1], fnum(sorted[n-1])
			case "avg":
				b.value = sum / float64(n)
				g := gcd(int64(sum), int64(n))
				if int64(n)/g == 1 {
					b.vstr = strconv.FormatInt(int64(sum)/g, 10)
				} else {
					b.vstr = fmt.Sprintf("%d/%d", int64(sum)/g, int64(n)/g)
				}
				if floats {
					b.vstr = fvalue(b.value, nil)
				}
			case "quantile":
				for _, q := range a.qs {
					idx := ((n-1)*q.n*2 + q.d) / (2 * q.d)
					b.qs = append(b.qs, fnum(sorted[idx]))
				}
				b.value, b.vstr = sorted[((n-1)*a.qs[0].n*2+a.qs[0].d)/(2*a.qs[0].d)], b.qs[0]
			}
		}
		bs = append(bs, b)
	}
	cmpF := func(x, y float64) int {
		xn, yn := math.IsNaN(x), math.IsNaN(y)
		switch {
		case xn && yn:
			return 0
		case xn:
			return -1
		case yn:
			return 1
		case x < y:
			return -1
		case x > y:
			return 1
		}
		return 0
	}
	sort.Slice(bs, func(i, j int) bool {
		l, r := bs[i], bs[j]
		if l.mid != r.mid {
			return l.mid < r.mid
		}
		switch a.fn {
		case "min":
			if c := cmpF(l.value, r.value); c != 0 {
				return c < 0
			}
			return l.name < r.name
		case "quantile":
			if l.name != r.name {
				return l.name < r.name
			}
			return cmpF(r.value, l.value) < 0
		default:
			if c := cmpF(r.value, l.value); c != 0 {
				return c < 0
			}
			return l.name < r.name
		}
	})
	var ss []string
	for _, b := range bs {
		ss = append(ss, fmt.Sprintf("%d@%s@%s@%s@%d", b.mid, b.name, b.vstr, vh.JoinStrs(b.qs, ","), b.ne))
	}
	return fmt.Sprintf("%d#%s", ne, vh.JoinStrs(ss, ";"))
}

type sysCase struct {
	limits limSpec // aggregation limits of the run
	tidOff int  // reserved tids before the fields' tokens
	huge   bool
	fracs [][]doc
	agg   aggq
	hist  uint64
	order seq.DocsOrder
	perm  []int
}

func (c sysCase) String() string {
	var fs []string
	for _, f := range c.fracs {
		fs = append(fs, fmtDocs(f))
	}
	opts := ""
	if (c.limits != "" && c.limits != "0") || c.tidOff != 0 {
		opts = fmt.Sprintf(" opts=lim%s,off%d", c.limits, c.tidOff)
	}
	return fmt.Sprintf("sys %s hist=%d order=%d perm=%s fracs=%s%s", c.agg.String(), c.hist, c.order, vh.JoinInts(c.perm), strings.Join(fs, "|"), opts)
}

func parseSys(line string) (sysCase, bool) {
	f := strings.Fields(line)
	if (len(f) != 6 && len(f) != 7) || f[0] != "sys" {
		return sysCase{}, false
	}
	var c sysCase
	if len(f) == 7 {
		o := strings.SplitN(strings.TrimPrefix(f[6], "opts=lim"), ",off", 2)
		c.limits = limSpec(o[0])
		if len(o) == 2 {
			c.tidOff, _ = strconv.Atoi(o[1])
		}
	}
	c.agg = parseAggq(f[1])
	c.hist, _ = strconv.ParseUint(strings.TrimPrefix(f[2], "hist="), 10, 64)
	ord, _ := strconv.Atoi(strings.TrimPrefix(f[3], "order="))
	c.order = seq.DocsOrder(ord)
	if ps := strings.TrimPrefix(f[4], "perm="); ps != "-" {
		for _, x := range strings.Split(ps, ",") {
			v, _ := strconv.Atoi(x)
			c.perm = append(c.perm, v)
		}
	}
	for _, fr := range strings.Split(strings.TrimPrefix(f[5], "fracs="), "|") {
		c.fracs = append(c.fracs, parseDocs(fr))
	}
	return c, true
}

// runSys: IndexSearch on every fraction, seq.MergeQPRs in the order `perm`, Aggregate; compared with the
// values computed directly from the matching documents.
func runSys(c sysCase, rep *vh.Report, orc *vh.Oracle) {
	var qprs []*seq.QPR
	for _, i := range c.perm {
		qpr, err := search(buildIndex(c.fracs[i], c.tidOff), []aggq{c.agg}, c.hist, c.order, c.limits)
		if c.limits.small() && refused(err) {
			// a fraction over its limit refuses the aggregation: an explicit outcome, never a short answer
			orc.Case(c.String(), false, "outcome=limit-refusal", c.limits.tag())
			return
		}
		if err != nil {
			rep.Violate(vh.Violation{Site: "frac/processor/search.go:IndexSearch", Class: "agg-error-on-valid-input", What: err.Error(), Replay: []string{c.String()}})
			return
		}
		qprs = append(qprs, qpr)
	}
	dst := &seq.QPR{Histogram: map[seq.MID]uint64{}, Aggs: make([]seq.AggregatableSamples, 1)}
	seq.MergeQPRs(dst, qprs, 0, seq.MID(c.hist), c.order)
	skip := c.agg.interval > 0 // aggregationArgsFromProto: SkipWithoutTimestamp = Interval != nil
	got := aggregateStr(&dst.Aggs[0], c.agg.fn, c.agg.qs, skip)
	want := expectedBuckets(c.fracs, c.agg, skip)
	nmatch := 0
	wantHist := map[seq.MID]uint64{}
	for _, f := range c.fracs {
		for _, d := range f {
			if d.match {
				nmatch++
				if c.hist > 0 {
					wantHist[seq.MID(d.mid-d.mid%c.hist)]++
				}
			}
		}
	}
	orc.Case(c.String(), nmatch >= 3 && len(c.fracs) >= 2, "beyond-int64="+vh.B(c.huge), c.limits.tag(), "fn="+c.agg.fn, fmt.Sprintf("fracs=%d", len(c.fracs)), "group="+vh.B(c.agg.group), "timeseries="+vh.B(c.agg.interval > 0))
	if got != want {
		site, class := classify(c.fracs, c.agg, skip, got, want)
		rep.Violate(vh.Violation{Site: site, Class: class,
			What: fmt.Sprintf("%s: got %s want %s", c.agg.String(), got, want), Replay: []string{c.String()}})
	}
	if c.hist > 0 && fmtHist(dst.Histogram) != fmtHist(wantHist) {
		rep.Violate(vh.Violation{Site: "frac/processor/search.go:iterateEvalTree", Class: "histogram-differs-from-documents",
			What: fmt.Sprintf("got %s want %s", fmtHist(dst.Histogram), fmtHist(wantHist)), Replay: []string{c.String()}})
	}
}

func haveInner(qs []quant) bool {
	for _, q := range qs {
		if q.n > 0 && q.n < q.d {
			return true
		}
	}
	return false
}

func genSys(r *vh.RNG, maxDocs int) sysCase {
	c := sysCase{order: seq.DocsOrder(r.Intn(2)), hist: uint64([]int{0, 1, 10, 25}[r.Intn(4)])}
	k := r.Range(1, 4)
	valMode = pickMode(r)
	defer func() { valMode = 0 }()
	for i := 0; i < k; i++ {
		docs := genDocs(r, r.Range(0, maxDocs), false, false)
		for j := range docs { // the legacy `_not_exists` bin collides with a real token of that name (recorded assumption)
			if len(docs[j].g) > 0 && docs[j].g[0] == "_not_exists" {
				docs[j].g[0] = "gd"
			}
		}
		c.fracs = append(c.fracs, docs)
	}
	c.perm = r.Perm(k)
	c.agg = genAggs(r)[0]
	if valMode != 0 && c.agg.fn == "avg" { // the float quotient of sums beyond 2^53 is rounded: not compared
		c.agg.fn = "min"
	}
	c.huge = valMode != 0
	c.limits = genLim(r)
	c.tidOff = r.Intn(3)
	return c
}


// ------------------------------------------------------------------ oracle agg.e2e (child process)

const e2eRule = "on the implementation only, end to end: real stores (1-3 shards, active and sealed fractions, whole time axis and restricted time ranges in which some group / field tokens do not occur, without and with the production default aggregation limits, synchronous and asynchronous searches, `or` queries with overlapping operands and a wildcard leaf, and requests with several mixed aggregations through the public handlers proxyapi ComplexSearch / GetAggregation / GetHistogram) behind the real proxy search ingestor (setup.TestingEnv: bulk over HTTP, search over gRPC incl. buildSearchResponse/responseToQPR and the proxy-side MergeQPRs), Aggregate as proxyapi calls it == buckets computed directly from the ingested documents; histogram == per-bucket document counts; non-trivial = >= 2 fractions or shards and >= 3 matching documents"

func bulkPost(addr string, docs []string) error {
	b := bytes.NewBuffer(nil)
	for _, d := range docs {
		b.WriteString(`{"index":"seq-db"}` + "\n" + d + "\n")
	}
	r, err := http.Post(addr, "", b)
	if err != nil {
		return err
	}
	defer r.Body.Close()
	body, _ := io.ReadAll(r.Body)
	if r.StatusCode != http.StatusOK {
		return fmt.Errorf("bulk status %d: %s", r.StatusCode, body)
	}
	return nil
}

const e2eQuery = "m:1 or n:a*"

// apiReq: one request through the proxy's public gRPC handlers (proxyapi.grpcV1: ComplexSearch / GetAggregation /
// GetHistogram) with SEVERAL aggregations, with and without a time interval, in one request.
type apiReq struct {
	kind     string // complex | getagg | gethist
	aggs     []aggq
	hist     uint64
	order    seq.DocsOrder
	from, to uint64
}

func (r apiReq) String() string {
	var as []string
	for _, a := range r.aggs {
		as = append(as, a.String())
	}
	return fmt.Sprintf("%s aggs=%s hist=%d order=%d range=%d-%d", r.kind, vh.JoinStrs(as, ";"), r.hist, r.order, r.from, r.to)
}

var apiFuncs = map[string]seqproxyapi.AggFunc{"count": seqproxyapi.AggFunc_AGG_FUNC_COUNT, "sum": seqproxyapi.AggFunc_AGG_FUNC_SUM,
	"min": seqproxyapi.AggFunc_AGG_FUNC_MIN, "max": seqproxyapi.AggFunc_AGG_FUNC_MAX, "avg": seqproxyapi.AggFunc_AGG_FUNC_AVG,
	"quantile": seqproxyapi.AggFunc_AGG_FUNC_QUANTILE, "unique": seqproxyapi.AggFunc_AGG_FUNC_UNIQUE}

// fmtAPIAgg renders a public aggregation like fmtResult renders the internal one (values as floats).
func fmtAPIAgg(a *seqproxyapi.Aggregation) string {
	var bs []string
	for _, b := range a.Buckets {
		mid := int64(0)
		if b.Ts != nil {
			mid = b.Ts.AsTime().UnixMilli()
		}
		bs = append(bs, fmt.Sprintf("%d@%s@%s@%s@%d", mid, b.Key, fvalue(b.Value, nil), fnums(b.Quantiles), b.NotExists))
	}
	return fmt.Sprintf("%d#%s", a.NotExists, vh.JoinStrs(bs, ";"))
}

// runAPI sends one request through the handler layer and checks every aggregation / the histogram of the answer.
func runAPI(rep *vh.Report, orc *vh.Oracle, srv seqproxyapi.SeqProxyApiServer, r apiReq, prefix string, all, rel []doc, base uint64) {
	inRange := all
	from, to := time.UnixMilli(0), time.UnixMilli(int64(base)).Add(time.Hour)
	if r.to > 0 {
		inRange = nil
		for _, d := range all {
			if d.mid >= base+r.from && d.mid <= base+r.to {
				inRange = append(inRange, d)
			}
		}
		from, to = time.UnixMilli(int64(base+r.from)), time.UnixMilli(int64(base+r.to))
	}
	query := &seqproxyapi.SearchQuery{Query: e2eQuery, From: timestamppb.New(from), To: timestamppb.New(to)}
	var aggs []*seqproxyapi.AggQuery
	for _, a := range r.aggs {
		q := &seqproxyapi.AggQuery{Func: apiFuncs[a.fn], Quantiles: qfloats(a.qs)}
		if a.group {
			q.GroupBy = "g"
		}
		if a.fn != "count" && a.fn != "unique" {
			q.Field = "f"
		}
		if a.interval > 0 {
			iv := fmt.Sprintf("%dms", a.interval)
			q.Interval = &iv
		}
		aggs = append(aggs, q)
	}
	var hist *seqproxyapi.HistQuery
	if r.hist > 0 {
		hist = &seqproxyapi.HistQuery{Interval: fmt.Sprintf("%dms", r.hist)}
	}
	key := fmt.Sprintf("e2eapi %s %s docs=%s", prefix, r.String(), docsKey(rel))
	ctx, cancel := context.WithTimeout(context.Background(), 30*time.Second)
	defer cancel()
	var gotAggs []*seqproxyapi.Aggregation
	var gotHist *seqproxyapi.Histogram
	var err error
	var apiErr *seqproxyapi.Error
	order := seqproxyapi.Order_ORDER_DESC
	if r.order == seq.DocsOrderAsc {
		order = seqproxyapi.Order_ORDER_ASC
	}
	switch r.kind {
	case "complex":
		var resp *seqproxyapi.ComplexSearchResponse
		resp, err = srv.ComplexSearch(ctx, &seqproxyapi.ComplexSearchRequest{Query: query, Aggs: aggs, Hist: hist, Size: 3, Order: order, WithTotal: true})
		if resp != nil {
			gotAggs, gotHist, apiErr = resp.Aggs, resp.Hist, resp.Error
		}
	case "getagg":
		var resp *seqproxyapi.GetAggregationResponse
		resp, err = srv.GetAggregation(ctx, &seqproxyapi.GetAggregationRequest{Query: query, Aggs: aggs})
		if resp != nil {
			gotAggs, apiErr = resp.Aggs, resp.Error
		}
	default:
		var resp *seqproxyapi.GetHistogramResponse
		resp, err = srv.GetHistogram(ctx, &seqproxyapi.GetHistogramRequest{Query: query, Hist: hist})
		if resp != nil {
			gotHist, apiErr = resp.Hist, resp.Error
		}
	}
	mixed := false
	for _, a := range r.aggs {
		mixed = mixed || (a.interval > 0) != (r.aggs[0].interval > 0)
	}
	orc.Case(key, len(r.aggs) >= 2, "layer=proxyapi", "api="+r.kind, fmt.Sprintf("api-aggs=%d", len(r.aggs)), "mixed-interval="+vh.B(mixed))
	if err != nil || (apiErr != nil && apiErr.Code != seqproxyapi.ErrorCode_ERROR_CODE_NO) {
		rep.Violate(vh.Violation{Site: "proxyapi/grpc_v1.go:doSearch", Class: "agg-error-on-valid-input", What: fmt.Sprintf("%v %v", err, apiErr), Replay: []string{key}})
		return
	}
	if r.kind != "gethist" {
		if len(gotAggs) != len(r.aggs) {
			rep.Violate(vh.Violation{Site: "proxyapi/grpc_complex_search.go:ComplexSearch", Class: "aggregation-count-differs", What: fmt.Sprintf("%d aggregations for %d queries", len(gotAggs), len(r.aggs)), Replay: []string{key}})
			return
		}
		for i, a := range r.aggs {
			skip := a.interval > 0 // per aggregation: aggregationArgsFromProto
			got := fmtAPIAgg(gotAggs[i])
			want := expectedBucketsF([][]doc{inRange}, a, skip)
			if got != want {
				site, class := classify([][]doc{inRange}, a, skip, got, want)
				if class == "agg-value-differs-from-documents" {
					site, class = "proxyapi/grpc_complex_search.go:aggregationArgsFromProto", "api-aggregation-differs-from-documents"
				}
				rep.Violate(vh.Violation{Site: site, Class: class,
					What: fmt.Sprintf("proxyapi %s, aggregation %d of %d (%s): got %s want %s", r.kind, i+1, len(r.aggs), a.String(), shiftMids(got, base), shiftMids(want, base)), Replay: []string{key}})
			}
		}
	}
	if r.hist > 0 && r.kind != "getagg" {
		want := map[seq.MID]uint64{}
		for _, d := range inRange {
			if d.match {
				want[seq.MID(d.mid-d.mid%r.hist)]++
			}
		}
		got := map[seq.MID]uint64{}
		if gotHist != nil {
			for _, b := range gotHist.Buckets {
				got[seq.MID(b.Ts.AsTime().UnixMilli())] += b.DocCount
			}
		}
		if fmtHist(got) != fmtHist(want) {
			rep.Violate(vh.Violation{Site: "proxyapi/grpc_v1.go:makeProtoHistogram", Class: "histogram-differs-from-documents",
				What: fmt.Sprintf("proxyapi %s: got %d buckets want %d buckets", r.kind, len(got), len(want)), Replay: []string{key}})
		}
	}
}

type e2eQ struct {
	a     aggq
	hist  uint64
	order seq.DocsOrder
	// requested time range as offsets (ms) from the base minute; to == 0: the whole time axis
	from, to uint64
	// asynchronous search: start, wait until done, fetch (per-fraction results are stored as JSON and merged on fetch)
	async bool
}

// e2eEnv brings up one environment, ingests the batches (document MIDs are offsets in ms from a base minute a few
// minutes in the past), seals where asked, runs the queries and checks every answer against the documents.
func e2eEnv(rep *vh.Report, orc *vh.Oracle, shards int, limits limSpec, batches [][]doc, sealAfter []bool, queries []e2eQ, apis []apiReq) {
	dir, err := os.MkdirTemp("", "c06-e2e-")
	if err != nil {
		orc.Error = err.Error()
		return
	}
	defer os.RemoveAll(dir)
	cfg := &setup.TestingEnvConfig{Name: "c06", DataDir: dir, IngestorCount: 1, HotShards: shards, HotFactor: 1,
		Mapping: seq.Mapping{
			"m": seq.NewSingleType(seq.TokenizerTypeKeyword, "", 0),
			"n": seq.NewSingleType(seq.TokenizerTypeKeyword, "", 0),
			"g": seq.NewSingleType(seq.TokenizerTypeKeyword, "", 0),
			"f": seq.NewSingleType(seq.TokenizerTypeKeyword, "", 0),
		}}
	if limits != "" && limits != "0" { // the seq-db binary's default aggregation limits, or small ones (the testing env runs without limits otherwise)
		cfg.FracManagerConfig = fracmanager.FillConfigWithDefault(&fracmanager.Config{
			FracSize:  256 * consts.MB,
			TotalSize: 1 * consts.GB,
			SealParams: frac.SealParams{IDsZstdLevel: -5, LIDsZstdLevel: -5, TokenListZstdLevel: -5, DocsPositionsZstdLevel: -5,
				TokenTableZstdLevel: -5, DocBlocksZstdLevel: -5, DocBlockSize: consts.MB * 4},
			Fraction: frac.Config{Search: frac.SearchConfig{AggLimits: frac.AggLimits(limits.limits())}},
		})
	}
	env := setup.NewTestingEnv(cfg)
	defer env.StopAll()
	base := uint64(time.Now().Add(-3 * time.Minute).Truncate(time.Minute).UnixMilli())
	var rel, all []doc
	sealed, activeDocs := 0, 0
	for b, docs := range batches {
		var lines []string
		for _, d := range docs {
			abs := d
			abs.mid = base + d.mid
			// the query is `m:1 or n:a*`: a matching document satisfies the first operand, the second (a wildcard leaf
			// over two tokens), or both - the operands overlap
			m := map[string]string{"m": "0", "n": "b1", "ts": time.UnixMilli(int64(abs.mid)).UTC().Format(time.RFC3339Nano)}
			if d.match {
				switch (len(all) + int(d.mid/250)) % 3 {
				case 0:
					m["m"], m["n"] = "1", "b0"
				case 1:
					m["n"] = "a1"
				default:
					m["m"], m["n"] = "1", "a2"
				}
			}
			if len(d.g) > 0 {
				m["g"] = d.g[0]
			}
			if len(d.f) > 0 {
				m["f"] = d.f[0]
			}
			j, _ := json.Marshal(m)
			lines = append(lines, string(j))
			rel = append(rel, d)
			all = append(all, abs)
		}
		for len(lines) > 0 {
			k := min(len(lines), 10000)
			if err := bulkPost(env.IngestorBulkAddr(), lines[:k]); err != nil {
				orc.Error = "bulk: " + err.Error()
				return
			}
			lines = lines[k:]
		}
		if sealAfter[b] {
			env.WaitIdle()
			env.SealAll()
			sealed++
			activeDocs = 0
		} else {
			activeDocs += len(docs)
		}
	}
	env.WaitIdle()
	if !limits.small() && len(apis) > 0 {
		srv := proxyapi.VerifNewGrpcV1C16(env.Ingestor().Ingestor.SearchIngestor, 30*time.Second)
		prefix := fmt.Sprintf("shards=%d sealed=%d lim=%s", shards, sealed, limits)
		for _, r := range apis {
			runAPI(rep, orc, srv, r, prefix, all, rel, base)
		}
	}
	for _, q := range queries {
		a := q.a
		aq := psearch.AggQuery{Func: fnOf(a.fn), Quantiles: qfloats(a.qs), Interval: seq.MID(a.interval)}
		if a.group {
			aq.GroupBy = "g"
		}
		if a.fn != "count" && a.fn != "unique" {
			aq.Field = "f"
		}
		// a restricted time range: tokens of the group / field that occur only outside it still have a (then empty)
		// leaf in the OR tree of the aggregation - the leaf's position is the token's label
		inRange := all
		ranged := q.to > 0
		opts := []setup.SearchOption{setup.NoFetch(), setup.WithAggQuery(aq), setup.WithOrder(q.order),
			func(sr *psearch.SearchRequest) { sr.Interval = seq.MID(q.hist) }}
		if ranged {
			inRange = nil
			for _, d := range all {
				if d.mid >= base+q.from && d.mid <= base+q.to {
					inRange = append(inRange, d)
				}
			}
			opts = append(opts, func(sr *psearch.SearchRequest) { sr.From, sr.To = seq.MID(base+q.from), seq.MID(base+q.to) })
		}
		var qpr *seq.QPR
		var err error
		if q.async && !limits.small() {
			qpr, err = asyncSearch(env, aq, q, base)
		} else {
			q.async = false
			qpr, _, _, err = env.Search(e2eQuery, 5, opts...)
		}
		// the case key uses offsets from the base minute, not wall-clock time
		key := fmt.Sprintf("e2e shards=%d sealed=%d lim=%s async=%s %s hist=%d order=%d range=%d-%d docs=%s", shards, sealed, limits, vh.B(q.async), a.String(), q.hist, q.order, q.from, q.to, docsKey(rel))
		nmatch := 0
		for _, d := range inRange {
			if d.match {
				nmatch++
			}
		}
		orc.Case(key, nmatch >= 3 && (shards > 1 || sealed > 0 || ranged), "fn="+a.fn, fmt.Sprintf("shards=%d", shards), fmt.Sprintf("sealed=%d", sealed), "timeseries="+vh.B(a.interval > 0), "ranged="+vh.B(ranged), fmt.Sprintf("active-docs=%s", vh.B(activeDocs > 0)), limits.tag(), "async="+vh.B(q.async))
		if limits.small() && err != nil && (refused(err) || errors.Is(err, consts.ErrPartialResponse)) {
			// a store over its limit refuses: the proxy answers with an error or flags the response as partial -
			// explicit outcomes; what must never happen is a silently short aggregation (checked below when err == nil)
			orc.Distribution["outcome=limit-refusal"]++
			continue
		}
		if err != nil {
			rep.Violate(vh.Violation{Site: "proxy/search/ingestor.go:Search", Class: "agg-error-on-valid-input", What: err.Error(), Replay: []string{key}})
			continue
		}
		skip := a.interval > 0
		got := "no-aggs"
		if len(qpr.Aggs) == 1 {
			got = aggregateStr(&qpr.Aggs[0], a.fn, a.qs, skip)
		}
		// expectations are computed on the offsets and shifted: bins are aligned to the base minute
		want := expectedBuckets([][]doc{inRange}, a, skip)
		if got != want {
			site, class := classify([][]doc{inRange}, a, skip, got, want)
			if limits.small() && class == "agg-value-differs-from-documents" {
				site, class = "proxy/search/ingestor.go:searchShard", "store-refusal-merged-as-empty-shard"
			}
			rep.Violate(vh.Violation{Site: site, Class: class,
				What: fmt.Sprintf("end to end %s: got %s want %s", a.String(), shiftMids(got, base), shiftMids(want, base)), Replay: []string{key}})
		}
		if q.hist > 0 {
			wantHist := map[seq.MID]uint64{}
			for _, d := range inRange {
				if d.match {
					wantHist[seq.MID(d.mid-d.mid%q.hist)]++
				}
			}
			if fmtHist(qpr.Histogram) != fmtHist(wantHist) {
				site := "frac/processor/search.go:iterateEvalTree"
				class := "histogram-differs-from-documents"
				if q.async {
					site = "fracmanager/async_searcher.go:FetchSearchResult"
				}
				if limits.small() {
					site, class = "proxy/search/ingestor.go:searchShard", "store-refusal-merged-as-empty-shard"
				}
				rep.Violate(vh.Violation{Site: site, Class: class,
					What: fmt.Sprintf("end to end: got %d buckets want %d buckets (first differing run: %s)", len(qpr.Histogram), len(wantHist), key[:min(len(key), 80)]), Replay: []string{key}})
			}
		}
	}
}

// asyncSearch runs the query as an asynchronous search through the proxy: start, poll until done, fetch.
func asyncSearch(env *setup.TestingEnv, aq psearch.AggQuery, q e2eQ, base uint64) (*seq.QPR, error) {
	searcher := env.Ingestor().Ingestor.SearchIngestor
	from, to := time.UnixMilli(0), time.UnixMilli(int64(base)).Add(time.Hour)
	if q.to > 0 {
		from, to = time.UnixMilli(int64(base+q.from)), time.UnixMilli(int64(base+q.to))
	}
	ctx, cancel := context.WithTimeout(context.Background(), 30*time.Second)
	defer cancel()
	resp, err := searcher.StartAsyncSearch(ctx, psearch.AsyncRequest{Query: e2eQuery, From: from, To: to, Order: q.order,
		Aggregations: []psearch.AggQuery{aq}, HistogramInterval: seq.MID(q.hist)})
	if err != nil {
		return nil, fmt.Errorf("start async: %w", err)
	}
	fr := psearch.FetchAsyncSearchResultRequest{ID: resp.ID, Size: 5}
	for ctx.Err() == nil {
		r, err := searcher.FetchAsyncSearchResult(ctx, fr)
		if err != nil {
			return nil, fmt.Errorf("fetch async: %w", err)
		}
		if r.Done {
			return &r.QPR, nil
		}
		time.Sleep(20 * time.Millisecond)
	}
	return nil, fmt.Errorf("async search not done in time")
}

// shiftMids rewrites the absolute MIDs at the start of every rendered bucket as offsets from base (so that the
// text of a violation does not depend on the wall clock).
func shiftMids(res string, base uint64) string {
	f := strings.SplitN(res, "#", 2)
	if len(f) != 2 || f[1] == "-" {
		return res
	}
	bs := strings.Split(f[1], ";")
	for i, b := range bs {
		p := strings.SplitN(b, "@", 2)
		if m, err := strconv.ParseUint(p[0], 10, 64); err == nil && m >= base && len(p) == 2 {
			bs[i] = fmt.Sprintf("+%d@%s", m-base, p[1])
		}
	}
	return f[0] + "#" + strings.Join(bs, ";")
}

// e2eChild runs the environments of the end-to-end oracle and writes its own report (read by the parent).
func e2eChild(o vh.Opts) {
	rep := vh.NewReport("C06", o)
	orc := vh.NewOracle("agg.e2e", e2eRule)
	if o.Replay != "" {
		lines, _ := vh.ReadReplay(o.Replay)
		for _, l := range lines {
			if strings.HasPrefix(l, "e2e ") {
				replayE2E(l, rep, orc)
			}
			if strings.HasPrefix(l, "e2eapi ") {
				replayE2EAPI(l, rep, orc)
			}
		}
		rep.AddOracle(orc)
		rep.Write(o.Out)
		return
	}
	rng := vh.NewRNG(o.Seed*7919 + 13)
	nEnv := o.Pick(4, 60)
	// one sealed fraction in which single tokens own more than 65536 LIDs (several LID blocks), queried over the
	// oldest fifth / the middle / everything, both orders: count, sum and histogram against the brute-force values
	{
		n, seed := 70000, o.Seed
		e2eDocsDesc = fmt.Sprintf("big:%d:%d", n, seed)
		var qs []e2eQ
		for _, rg := range [][2]uint64{{0, 12000}, {20000, 40000}, {0, 0}} {
			for _, ord := range []seq.DocsOrder{seq.DocsOrderDesc, seq.DocsOrderAsc} {
				qs = append(qs,
					e2eQ{a: aggq{fn: "count", group: true}, hist: 1000, order: ord, from: rg[0], to: rg[1]},
					e2eQ{a: aggq{fn: "sum", group: true}, order: ord, from: rg[0], to: rg[1]},
					e2eQ{a: aggq{fn: "sum", interval: 15000}, hist: 20000, order: ord, from: rg[0], to: rg[1]})
			}
		}
		e2eEnv(rep, orc, 1, "0", [][]doc{bigDocs(n, seed)}, []bool{true}, qs, nil)
		e2eDocsDesc = ""
	}
	for e := 0; e < nEnv && orc.Error == ""; e++ {
		shards := rng.Range(1, 3)
		limits := genLim(rng)
		if e == 0 && limits.small() { // the first environment (sealed + active fraction, async histograms) never refuses
			limits = "1"
		}
		if e == 1 { // the second environment always runs with small limits and two shards: some store refuses
			limits = limSpec(fmt.Sprintf("s%d.%d.0", rng.Range(1, 3), rng.Range(0, 3)))
			shards = 2
		}
		nb := rng.Range(1, 4)
		if e == 0 && nb < 2 { // the first environment always has a sealed and an active fraction
			nb = 2
		}
		var batches [][]doc
		var sealAfter []bool
		valMode = pickMode(rng)
		huge := valMode != 0
		for b := 0; b < nb; b++ {
			docs := genDocs(rng, rng.Range(1, o.Pick(10, 40)), false, false)
			for i := range docs {
				if len(docs[i].g) > 0 && docs[i].g[0] == "_not_exists" {
					docs[i].g[0] = "gd"
				}
				docs[i].mid = uint64(rng.Intn(240)) * 250 // ms offsets inside one minute
			}
			batches = append(batches, docs)
			sealAfter = append(sealAfter, b+1 < nb && (rng.Bool() || (e == 0 && b == 0)))
		}
		valMode = 0
		var qs []e2eQ
		for q := 0; q < o.Pick(12, 40); q++ {
			a := genAggs(rng)[0]
			if huge && a.fn == "avg" {
				a.fn = "max"
			}
			if a.interval > 0 {
				a.interval = int64([]int{1000, 2500, 15000}[rng.Intn(3)])
			} else {
				a.interval = 0
			}
			q := e2eQ{a: a, hist: uint64([]int{0, 1000, 20000}[rng.Intn(3)]), order: seq.DocsOrder(rng.Intn(2))}
			if rng.Chance(3, 5) { // a window inside the minute the documents live in
				q.from = uint64(rng.Intn(160)) * 250
				q.to = q.from + uint64(rng.Range(4, 120))*250
			}
			q.async = rng.Chance(1, 4)
			qs = append(qs, q)
		}
		// asynchronous searches with a histogram over all fractions, both orders: per-fraction results with
		// differing bucket sets are decoded one after the other and merged on fetch
		for _, ord := range []seq.DocsOrder{seq.DocsOrderDesc, seq.DocsOrderAsc} {
			qs = append(qs, e2eQ{a: aggq{fn: "count", group: true}, hist: 1000, order: ord, async: true})
		}
		e2eEnv(rep, orc, shards, limits, batches, sealAfter, qs, genAPIs(rng, o.Pick(4, 10), huge))
	}
	rep.AddOracle(orc)
	rep.Write(o.Out)
}


// genAPIs: requests for the public handlers; the first one always mixes an aggregation with a time interval and
// aggregations without one (several group-bys / functions) in ONE ComplexSearch request.
func genAPIs(r *vh.RNG, n int, huge bool) []apiReq {
	fix := func(a aggq) aggq {
		if a.interval > 0 {
			a.interval = int64([]int{1000, 2500, 15000}[r.Intn(3)])
		} else {
			a.interval = 0
		}
		if a.fn == "unique" {
			a.interval = 0
		}
		if huge && a.fn == "avg" {
			a.fn = "max"
		}
		return a
	}
	var res []apiReq
	for i := 0; i < n; i++ {
		req := apiReq{kind: []string{"complex", "complex", "getagg", "gethist"}[r.Intn(4)], order: seq.DocsOrder(r.Intn(2)), hist: uint64([]int{0, 1000, 20000}[r.Intn(3)])}
		if i == 0 {
			req.kind = "complex"
		}
		if req.kind == "gethist" && req.hist == 0 {
			req.hist = 1000
		}
		if req.kind != "gethist" {
			for k := r.Range(2, 4); k > 0; k-- {
				req.aggs = append(req.aggs, fix(genAggs(r)[0]))
			}
			if i == 0 {
				req.aggs[0].interval, req.aggs[1].interval = 1000, 0
				if req.aggs[0].fn == "unique" {
					req.aggs[0].fn = "count"
				}
			}
		}
		if r.Chance(1, 3) {
			req.from = uint64(r.Intn(160)) * 250
			req.to = req.from + uint64(r.Range(4, 120))*250
		}
		res = append(res, req)
	}
	return res
}

// replayE2EAPI re-runs one request through the public handlers.
func replayE2EAPI(line string, rep *vh.Report, orc *vh.Oracle) {
	f := strings.Fields(line)
	if len(f) != 10 {
		return
	}
	shards, _ := strconv.Atoi(strings.TrimPrefix(f[1], "shards="))
	sealed, _ := strconv.Atoi(strings.TrimPrefix(f[2], "sealed="))
	limits := limSpec(strings.TrimPrefix(f[3], "lim="))
	req := apiReq{kind: f[4]}
	if as := strings.TrimPrefix(f[5], "aggs="); as != "-" {
		for _, a := range strings.Split(as, ";") {
			req.aggs = append(req.aggs, parseAggq(a))
		}
	}
	req.hist, _ = strconv.ParseUint(strings.TrimPrefix(f[6], "hist="), 10, 64)
	ord, _ := strconv.Atoi(strings.TrimPrefix(f[7], "order="))
	req.order = seq.DocsOrder(ord)
	fmt.Sscanf(strings.TrimPrefix(f[8], "range="), "%d-%d", &req.from, &req.to)
	docs := parseDocs(strings.TrimPrefix(f[9], "docs="))
	nb := sealed + 1
	var batches [][]doc
	var sealAfter []bool
	for b := 0; b < nb; b++ {
		batches = append(batches, docs[len(docs)*b/nb:len(docs)*(b+1)/nb])
		sealAfter = append(sealAfter, b+1 < nb)
	}
	e2eEnv(rep, orc, shards, limits, batches, sealAfter, nil, []apiReq{req})
}

// replayE2E re-runs one end-to-end case: the documents are split evenly over sealed+1 batches.
func replayE2E(line string, rep *vh.Report, orc *vh.Oracle) {
	f := strings.Fields(line)
	if len(f) != 10 {
		return
	}
	shards, _ := strconv.Atoi(strings.TrimPrefix(f[1], "shards="))
	sealed, _ := strconv.Atoi(strings.TrimPrefix(f[2], "sealed="))
	limits := limSpec(strings.TrimPrefix(f[3], "lim="))
	async := f[4] == "async=1"
	a := parseAggq(f[5])
	hist, _ := strconv.ParseUint(strings.TrimPrefix(f[6], "hist="), 10, 64)
	ord, _ := strconv.Atoi(strings.TrimPrefix(f[7], "order="))
	var from, to uint64
	fmt.Sscanf(strings.TrimPrefix(f[8], "range="), "%d-%d", &from, &to)
	docs := parseDocs(strings.TrimPrefix(f[9], "docs="))
	nb := sealed + 1
	var batches [][]doc
	var sealAfter []bool
	for b := 0; b < nb; b++ {
		batches = append(batches, docs[len(docs)*b/nb:len(docs)*(b+1)/nb])
		sealAfter = append(sealAfter, b+1 < nb)
	}
	if strings.HasPrefix(f[9], "docs=big:") { // the generated corpus is one sealed fraction
		e2eDocsDesc = strings.TrimPrefix(f[9], "docs=")
		defer func() { e2eDocsDesc = "" }()
		batches, sealAfter = [][]doc{docs}, []bool{true}
	}
	e2eEnv(rep, orc, shards, limits, batches, sealAfter, []e2eQ{{a, hist, seq.DocsOrder(ord), from, to, async}}, nil)
}

// e2eParent re-executes this binary for the end-to-end oracle so that a Fatal / panic / hang inside the stores
// is an observation; a dead child is retried once before it is reported.
func e2eParent(o vh.Opts, rep *vh.Report) {
	out, err := os.CreateTemp("", "c06-e2e-*.json")
	if err != nil {
		rep.Note("agg.e2e: %v", err)
		return
	}
	out.Close()
	defer os.Remove(out.Name())
	var lastErr string
	for attempt := 0; attempt < 2; attempt++ {
		ctx, cancel := context.WithTimeout(context.Background(), time.Duration(o.Pick(240, 1200))*time.Second)
		args := []string{"-only", "agg.e2e.child", "-tier", o.Tier, "-seed", strconv.FormatInt(o.Seed, 10), "-out", out.Name()}
		if o.Replay != "" {
			args = append(args, "-replay", o.Replay)
		}
		cmd := exec.CommandContext(ctx, os.Args[0], args...)
		cmd.Env = append(os.Environ(), "GOMEMLIMIT=8GiB")
		b, err := cmd.CombinedOutput()
		cancel()
		if err == nil {
			var child vh.Report
			raw, _ := os.ReadFile(out.Name())
			if json.Unmarshal(raw, &child) == nil && len(child.Oracles) == 1 {
				rep.AddOracle(child.Oracles[0])
				for _, v := range child.Violations {
					rep.Violate(v)
				}
				return
			}
			lastErr = "unreadable child report"
			continue
		}
		tail := string(b)
		if len(tail) > 600 {
			tail = tail[len(tail)-600:]
		}
		lastErr = fmt.Sprintf("child died: %v: %s", err, tail)
	}
	orc := vh.NewOracle("agg.e2e", e2eRule)
	orc.Error = lastErr
	rep.AddOracle(orc)
}


// ------------------------------------------------------------------ replay helpers

func parseAS(s string) *seq.AggregatableSamples {
	f := strings.SplitN(s, "#", 2)
	ne, _ := strconv.Atoi(f[0])
	a := &seq.AggregatableSamples{NotExists: int64(ne), SamplesByBin: map[seq.AggBin]*seq.SamplesContainer{}}
	if len(f) < 2 || f[1] == "-" {
		return a
	}
	for _, b := range strings.Split(f[1], ";") {
		p := strings.SplitN(b, "@", 3)
		m, _ := strconv.ParseUint(p[0], 10, 64)
		a.SamplesByBin[seq.AggBin{MID: seq.MID(m), Token: p[1]}] = parseSC(p[2])
	}
	return a
}

func parseQs(s string, sep string) []quant {
	var qs []quant
	if s == "-" || s == "" {
		return nil
	}
	for _, q := range strings.Split(s, ",") {
		nd := strings.Split(q, sep)
		n, _ := strconv.Atoi(nd[0])
		d, _ := strconv.Atoi(nd[1])
		qs = append(qs, quant{n, d})
	}
	return qs
}

// replayTree re-runs a merge.order violation: `as.tree fn qs skip rpn leaves...` followed by `tree2 rpn`.
func replayTree(line, tree2 string, rep *vh.Report, orc *vh.Oracle) {
	f := strings.Fields(line)
	fn, qs, skip, rpn := f[1], parseQs(f[2], "/"), f[3] == "1", strings.Split(f[4], ",")
	var leaves []leafSpec
	for _, l := range f[5:] {
		leaves = append(leaves, leafSpec{as: parseAS(l), wf: true})
	}
	r1 := aggregateStr(evalRPN(rpn, leaves), fn, qs, skip)
	toks2 := strings.Split(strings.TrimPrefix(tree2, "tree2 "), ",")
	r2 := aggregateStr(evalRPN(toks2, leaves), fn, qs, skip)
	orc.Case(line+" || "+tree2, true, "fn="+fn)
	if r1 != r2 {
		rep.Violate(vh.Violation{Site: "seq/qpr.go:AggregatableSamples.Merge", Class: "merge-order-dependent",
			What: fmt.Sprintf("tree %s gives %s, tree %s gives %s", f[4], r1, strings.Join(toks2, ","), r2), Replay: []string{line, tree2}})
	}
}

func parseAggq(s string) aggq {
	var a aggq
	p := strings.Split(s, "/")
	a.fn = p[0]
	a.group = p[1] == "g1"
	a.interval, _ = strconv.ParseInt(p[2][1:], 10, 64)
	a.qs = parseQs(p[3][1:], ":")
	return a
}

// ------------------------------------------------------------------ main

func main() {
	o := vh.ParseFlags()
	logger.SetLevel(zap.FatalLevel)
	if o.Only == "agg.e2e.child" {
		e2eChild(o)
		return
	}
	rep := vh.NewReport("C06", o)
	rng := vh.NewRNG(o.Seed)
	sys := vh.NewOracle("agg.direct", "on the implementation only: IndexSearch per fraction (scripted index), seq.MergeQPRs in a random order, Aggregate == buckets computed directly from the matching documents (count/unique/sum/min/max/avg/quantiles, per group, per time bin, not-exists, bucket order) and histogram == per-bucket document counts; non-trivial = >= 2 fractions and >= 3 matching documents")

	if o.Replay != "" {
		lines, err := vh.ReadReplay(o.Replay)
		if err != nil {
			fmt.Fprintln(os.Stderr, err)
			os.Exit(3)
		}
		ch := vh.NewChannel("replay", "replayed driver requests")
		mo := vh.NewOracle("merge.order", "replayed merge-order cases")
		hasE2E := false
		for i, l := range lines {
			if c, ok := parseSys(l); ok {
				runSys(c, rep, sys)
			} else if strings.HasPrefix(l, "sc.ops ") {
				f := strings.Fields(l)
				ch.Add(l, runSCOps(strings.Split(f[2], ";"), f[1] == "len"), true)
			} else if strings.HasPrefix(l, "as.tree ") && i+1 < len(lines) && strings.HasPrefix(lines[i+1], "tree2 ") {
				replayTree(l, lines[i+1], rep, mo)
			} else if strings.HasPrefix(l, "e2e ") || strings.HasPrefix(l, "e2eapi ") {
				hasE2E = true
			} else if strings.HasPrefix(l, "codec ") {
				replayCodec(l, rep, mo)
			} else if strings.HasPrefix(l, "json ") {
				replayJSON(l, rep, mo)
			}
		}
		rep.AddChannel(ch, o.Driver)
		rep.AddOracle(sys)
		rep.AddOracle(mo)
		if hasE2E {
			e2eParent(o, rep)
		}
		rep.Write(o.Out)
		return
	}

	want := func(name string) bool { return o.Only == "" || o.Only == name }
	if want("sc.ops") {
		rep.AddChannel(scOpsChannel(o, rng.Fork()), o.Driver)
	}
	if want("as.tree") {
		ch, orc := asTreeChannel(o, rng.Fork(), rep)
		rep.AddChannel(ch, o.Driver)
		rep.AddOracle(orc)
	}
	if want("hist.merge") {
		rep.AddChannel(histMergeChannel(o, rng.Fork()), o.Driver)
	}
	if want("codec.roundtrip") {
		ch, orc := codecChannel(o, rng.Fork(), rep)
		rep.AddChannel(ch, o.Driver)
		rep.AddOracle(orc)
	}
	if want("parse.num") {
		rep.AddChannel(parseNumChannel(o, rng.Fork()), o.Driver)
	}
	if want("json.gateway") {
		rep.AddOracle(jsonGatewayOracle(o, rng.Fork(), rep))
	}
	if want("codec.fields") {
		rep.AddChannel(codecFieldsChannel(o, rng.Fork()), o.Driver)
	}
	if want("agg.index") {
		ch, hch := aggIndexChannel(o, rng.Fork())
		rep.AddChannel(ch, o.Driver)
		rep.AddChannel(hch, o.Driver)
	}
	if want("agg.direct") {
		r := rng.Fork()
		// directed witnesses of the three questions recorded while reading the aggregators
		for _, w := range []string{
			// a real group token named like the legacy bucket, one document without the group
			"sys count/g1/i0/q- hist=0 order=0 perm=0 fracs=50:1:_not_exists:-,40:1:_not_exists:-,30:1:-:-",
			// group + field + time interval: a document of group ga without the field
			"sys sum/g1/i10/q- hist=0 order=0 perm=0 fracs=57:1:ga:5,42:1:ga:-",
			// count + time interval: the not-exists total is reported (not per time bin: the response has no place for it)
			"sys count/g1/i10/q- hist=0 order=0 perm=0 fracs=57:1:ga:-,42:1:-:-",
		} {
			if c, ok := parseSys(w); ok {
				runSys(c, rep, sys)
			}
		}
		for i := o.Pick(1500, 100000); i > 0; i-- {
			runSys(genSys(r, o.Pick(8, 16)), rep, sys)
		}
		rep.AddOracle(sys)
	}
	if want("agg.e2e") {
		e2eParent(o, rep)
	}
	rep.Write(o.Out)
}
