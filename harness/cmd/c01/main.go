// C01 harness: the real write path of an active fraction (frac.Active, ActiveWriter, FileWriter, Replay,
// disk.DocBlocksReader) against the Lean model SV.WPath, plus a crash/restart system oracle that runs the real
// FracManager in child processes which are killed at the verif points of the write path.
//
//	channel replay  : arbitrary meta files (complete blocks, torn blocks, garbage, impossible lengths) -> real
//	                  NewActive+Replay with a draining indexer vs `replay` of the model
//	channel wp.run  : histories bulk | crash inside a bulk at any byte | restart on the real Active (snapshots taken
//	                  at the fw.writeat points and cut to the torn length) vs `run` of the model: both files byte for
//	                  byte, writer offsets, blocks handed to the indexer
//	channel index   : the same kind of histories over uncompressed blocks with one real index worker vs buildIndex /
//	                  fetch / search of the model: DocBlocks, DocsPositions, fetched bytes per ID, IDs per token
//	channel sys.present : the oracle's histories over the real zstd blocks, model `present` vs what the real store serves
//	oracle  fw.groupcommit : concurrent writers on the real FileWriter over a recording fake: every returned Write is
//	                  covered by an fsync that started after its WriteAt; reserved ranges tile the file
//	oracle  crash-restart : child processes (FracManager.Load, ingest, os.Exit at a write-path point), files cut to
//	                  a torn length by the parent, next child restarts, ingests, ...; finally every acknowledged
//	                  bulk must be found by its tokens and fetched byte for byte, an unacknowledged one wholly or
//	                  not at all, and every child must come up.
package main

import (
	"bufio"
	"bytes"
	"context"
	"encoding/json"
	"fmt"
	"math"
	"math/big"
	"os"
	"os/exec"
	"path/filepath"
	"runtime"
	"sort"
	"strconv"
	"strings"
	"sync"
	"sync/atomic"
	"syscall"
	"time"

	"go.uber.org/zap/zapcore"

	"github.com/ozontech/seq-db/cache"
	"github.com/ozontech/seq-db/conf"
	"github.com/ozontech/seq-db/consts"
	"github.com/ozontech/seq-db/disk"
	"github.com/ozontech/seq-db/frac"
	"github.com/ozontech/seq-db/frac/processor"
	"github.com/ozontech/seq-db/fracmanager"
	"github.com/ozontech/seq-db/logger"
	"github.com/ozontech/seq-db/mappingprovider"
	"github.com/ozontech/seq-db/metric/stopwatch"
	"github.com/ozontech/seq-db/parser"
	pstore "github.com/ozontech/seq-db/pkg/storeapi"
	"github.com/ozontech/seq-db/proxy/bulk"
	"github.com/ozontech/seq-db/proxy/stores"
	"github.com/ozontech/seq-db/seq"
	"github.com/ozontech/seq-db/storeapi"
	"github.com/ozontech/seq-db/verifhook"

	"verifharness/internal/vh"
)

// ------------------------------------------------------------------ component level: a real Active with a draining indexer

type entry struct {
	pos  uint64
	meta []byte
}

type comp struct {
	dir      string
	base     string
	a        *frac.Active
	ai       *frac.ActiveIndexer
	drained  chan struct{}
	mu       sync.Mutex
	entries  []entry
	down     bool
	failure  string // how the last start-up failed: "panic" or "error" (Replay returned an error)
	workers  int    // number of real index workers (indexing mode)
	indexing bool   // run the real index workers instead of draining the tasks
	gray     bool   // the meta file holds a length field whose allocation outcome depends on the machine: history abandoned
	limiter  *disk.ReadLimiter
}

func newComp() *comp {
	dir, err := os.MkdirTemp("", "c01-comp-")
	if err != nil {
		panic(err)
	}
	return &comp{dir: dir, base: filepath.Join(dir, "seq-db-01C01"), limiter: disk.NewReadLimiter(1, nil)}
}

func (c *comp) close() {
	c.abandon()
	os.RemoveAll(c.dir)
}

func (c *comp) docsPath() string { return c.base + ".docs" }
func (c *comp) metaPath() string { return c.base + ".meta" }

func (c *comp) abandon() {
	// first let the indexer finish the tasks it was handed (a Replay that gave up early leaves some in flight),
	// only then drop the fraction's token list and files
	if c.ai != nil {
		if c.indexing {
			c.ai.Stop()
		} else {
			frac.VerifCloseIndexer(c.ai)
			<-c.drained
		}
		c.ai = nil
	}
	if c.a != nil {
		frac.VerifAbandon(c.a)
		c.a = nil
	}
}

// restart = NewActive + Replay on the files as they are; a panic of the replay is an observation
func (c *comp) restart() {
	c.abandon()
	if mf, err := os.ReadFile(c.metaPath()); err == nil && grayZone(mf) {
		c.gray, c.down = true, true
		return
	}
	c.mu.Lock()
	c.entries = nil
	c.mu.Unlock()
	c.ai = frac.NewActiveIndexer(max(1, c.workers), 64)
	c.drained = make(chan struct{})
	if c.indexing {
		c.ai.Start()
	} else {
		c.startDrain()
	}
	c.a = frac.NewActive(c.base, c.ai, c.limiter, cache.NewCache[[]byte](nil, nil), cache.NewCache[[]byte](nil, nil), &frac.Config{})
	c.down, c.failure = false, ""
	func() {
		defer func() {
			if r := recover(); r != nil {
				c.down, c.failure = true, "panic"
			}
		}()
		if err := c.a.Replay(context.Background()); err != nil {
			c.down, c.failure = true, "error" // the store refuses to start: an observation, compared with the model like a panic
		}
	}()
}

func (c *comp) startDrain() {
	go func(ai *frac.ActiveIndexer, done chan struct{}) {
		frac.VerifDrainIndexer(ai, func(pos uint64, meta []byte) {
			c.mu.Lock()
			c.entries = append(c.entries, entry{pos, append([]byte(nil), meta...)})
			c.mu.Unlock()
		})
		close(done)
	}(c.ai, c.drained)
}

func (c *comp) bulk(d, m []byte) {
	if c.down {
		return
	}
	var wg sync.WaitGroup
	wg.Add(1)
	if err := c.a.Append(append([]byte(nil), d...), append([]byte(nil), m...), &wg); err != nil {
		panic(err)
	}
	wg.Wait()
}

// tornBulk: the bulk is written by the real code; at the chosen fw.writeat point both files are copied, the copy
// of the file being written is cut to `k` bytes of the block, the process state is dropped and the copies replace
// the files: exactly what a kill at that moment with a torn last write leaves behind.
func (c *comp) tornBulk(d, m []byte, inMeta bool, k int) {
	if c.down {
		return
	}
	want := 1
	if inMeta {
		want = 2
	}
	n := 0
	var snapDocs, snapMeta []byte
	var off int64
	verifhook.Set(func(name, _ string, args []int64) {
		if name != "fw.writeat" {
			return
		}
		n++
		if n == want {
			snapDocs, _ = os.ReadFile(c.docsPath())
			snapMeta, _ = os.ReadFile(c.metaPath())
			off = args[0]
		}
	})
	c.bulk(d, m)
	verifhook.Set(nil)
	c.abandon()
	if inMeta {
		snapMeta = snapMeta[:min(int(off)+min(k, len(m)), len(snapMeta))]
	} else {
		snapDocs = snapDocs[:min(int(off)+min(k, len(d)), len(snapDocs))]
	}
	must(os.WriteFile(c.docsPath(), snapDocs, 0o666))
	must(os.WriteFile(c.metaPath(), snapMeta, 0o666))
	c.restart()
}

func (c *comp) observe() string {
	if c.gray {
		return ""
	}
	if c.down {
		return c.failure
	}
	docs, _ := os.ReadFile(c.docsPath())
	meta, _ := os.ReadFile(c.metaPath())
	offD, offM := frac.VerifWriterOffsets(c.a)
	c.mu.Lock()
	defer c.mu.Unlock()
	var es []string
	for _, e := range c.entries {
		es = append(es, fmt.Sprintf("%d:%s", e.pos, vh.Hex(e.meta)))
	}
	return fmt.Sprintf("ok docs=%s meta=%s offD=%d offM=%d idx=%s", vh.Hex(docs), vh.Hex(meta), offD, offM, vh.JoinStrs(es, ","))
}

func must(err error) {
	if err != nil {
		panic(err)
	}
}

// ------------------------------------------------------------------ events

type event struct {
	kind   byte // 'B' 'T' 'R'
	d, m   []byte
	inMeta bool
	k      int
}

func (e event) String() string {
	switch e.kind {
	case 'B':
		return fmt.Sprintf("B:%s:%s", vh.Hex(e.d), vh.Hex(e.m))
	case 'T':
		p := "d"
		if e.inMeta {
			p = "m"
		}
		return fmt.Sprintf("T:%s:%s:%s%d", vh.Hex(e.d), vh.Hex(e.m), p, e.k)
	}
	return "R"
}

func histString(h []event) string {
	s := make([]string, len(h))
	for i, e := range h {
		s[i] = e.String()
	}
	return vh.JoinStrs(s, ";")
}

func runComp(h []event) string {
	c := newComp()
	defer c.close()
	c.restart()
	for _, e := range h {
		switch e.kind {
		case 'B':
			c.bulk(e.d, e.m)
		case 'T':
			c.tornBulk(e.d, e.m, e.inMeta, e.k)
		case 'R':
			c.restart()
		}
	}
	return c.observe()
}

func packBlock(payload []byte, ext1, ext2 uint64) []byte {
	b := disk.PackDocBlock(payload, nil)
	b.SetExt1(ext1)
	b.SetExt2(ext2)
	return append([]byte(nil), b...)
}

func randBytes(r *vh.RNG, n int) []byte {
	b := make([]byte, n)
	for i := range b {
		b[i] = byte(r.Intn(256))
	}
	return b
}

func tags(h []event) []string {
	var t []string
	dirtyThenIngest, dirty := false, false
	for _, e := range h {
		switch e.kind {
		case 'B':
			if dirty {
				dirtyThenIngest = true
			}
		case 'T':
			if dirty {
				dirtyThenIngest = true
			}
			if e.inMeta && e.k < len(e.m) || !e.inMeta && e.k > 0 {
				dirty = true
			}
		}
	}
	if dirty {
		t = append(t, "leaves-debris")
	}
	if dirtyThenIngest {
		t = append(t, "ingest-after-debris")
	}
	t = append(t, fmt.Sprintf("len=%d", len(h)))
	return t
}

func nontrivial(h []event) bool {
	wrote := false
	for _, e := range h {
		if e.kind != 'R' {
			wrote = true
		} else if wrote {
			return true
		}
		if e.kind == 'T' && wrote {
			return true
		}
	}
	return false
}

// ------------------------------------------------------------------ channel index: the real index workers, fetch and search

type ldoc struct {
	id     seq.ID
	body   []byte
	tokens []string
}

func plainBlocks(ds []ldoc) ([]byte, []byte) {
	dp := frac.NewDocProvider()
	for _, d := range ds {
		dp.Append(d.body, nil, d.id, seq.Tokens(d.tokens...))
	}
	docs := append([]byte(nil), disk.PackDocBlock(dp.Docs, nil)...)
	metas := disk.PackDocBlock(dp.Metas, nil)
	metas.SetExt1(uint64(len(docs)))
	return docs, append([]byte(nil), metas...)
}

func (c *comp) observeIndex(ids []seq.ID, toks []string) string {
	if c.gray {
		return ""
	}
	if c.down {
		return c.failure
	}
	ctx := context.Background()
	var pos, fet, sr []string
	for _, id := range ids {
		p := c.a.DocsPositions.GetSync(id)
		if p == seq.DocPosNotFound {
			pos = append(pos, "-")
		} else {
			b, o := p.Unpack()
			pos = append(pos, fmt.Sprintf("%d.%d", b, o))
		}
	}
	dp, release := c.a.DataProvider(ctx)
	defer release()
	for _, id := range ids {
		var res [][]byte
		var err error
		func() {
			defer func() {
				if r := recover(); r != nil { // the fetcher turns a panic of the fraction into an error
					err = fmt.Errorf("panic: %v", r)
				}
			}()
			res, err = dp.Fetch([]seq.ID{id})
		}()
		if err != nil || len(res) != 1 || res[0] == nil {
			fet = append(fet, "none")
		} else {
			fet = append(fet, vh.Hex(res[0]))
		}
	}
	for _, t := range toks {
		ast, err := parser.ParseSeqQL(t, seq.TestMapping)
		must(err)
		qpr, err := dp.Search(processor.SearchParams{AST: ast.Root, From: 0, To: math.MaxUint64, Limit: 1000})
		if err != nil {
			sr = append(sr, "error")
			continue
		}
		var xs []string
		seen := map[seq.ID]bool{}
		idsFound := qpr.IDs.IDs()
		sort.Slice(idsFound, func(i, j int) bool {
			if idsFound[i].MID != idsFound[j].MID {
				return idsFound[i].MID < idsFound[j].MID
			}
			return idsFound[i].RID < idsFound[j].RID
		})
		for _, id := range idsFound {
			if !seen[id] {
				seen[id] = true
				xs = append(xs, fmt.Sprintf("%d.%d", id.MID, id.RID))
			}
		}
		sr = append(sr, vh.JoinStrs(xs, ","))
	}
	return fmt.Sprintf("ok blocks=%s pos=%s fetch=%s search=%s", vh.JoinInts(c.a.DocBlocks.GetVals()), vh.JoinStrs(pos, ";"), vh.JoinStrs(fet, ";"), vh.JoinStrs(sr, ";"))
}

func chanIndex(o vh.Opts, rng *vh.RNG, fix bool, workers int) *vh.Channel {
	name, cmdName := "index", "index"
	if workers > 1 {
		name, cmdName = "index.k", "index.k"
	}
	ch := vh.NewChannel(name, fmt.Sprintf("[%d index worker(s); with more than one the IDs are distinct and only the sorted DocBlocks, the fetched bytes and the search results are compared] ", workers)+"history of bulks / crashes / restarts over uncompressed blocks (PackDocBlock) built by frac.DocProvider from random "+
		"documents (1-3 per bulk, IDs from a small pool so that re-delivered and clashing IDs occur, 1-3 tokens each), executed by the real "+
		"frac.Active with one real index worker; compared with buildIndex/fetch/search of the model: DocBlocks, DocsPositions of every ID ever "+
		"used, the bytes Fetch returns per ID, the IDs Search returns per token. Non-trivial: some document is served after a restart or crash")
	if !fix {
		ch.Tag("skipped: the unrepaired start-up lets garbage reach the index workers (process-fatal)")
		return ch
	}
	toks := []string{"service:a", "service:b", "level:1"}
	for i := 0; i < o.Pick(150, 2500); i++ {
		c := newComp()
		c.indexing, c.workers = true, workers
		c.restart()
		var evs []string
		nextID := 0
		used := map[seq.ID]bool{}
		var ids []seq.ID
		wrote, nt := false, false
		for j, n := 0, rng.Range(1, 6); j < n; j++ {
			x := rng.Intn(10)
			if x < 3 {
				c.restart()
				evs = append(evs, "R")
				nt = nt || wrote
				continue
			}
			var ds []ldoc
			for k, m := 0, rng.Range(1, 3); k < m; k++ {
				id := seq.ID{MID: seq.MID(1000 + rng.Intn(8)), RID: seq.RID(rng.Intn(2))}
				if workers > 1 { // re-delivered IDs race between workers (first-wins): distinct IDs only
					id = seq.ID{MID: seq.MID(1000 + nextID%5), RID: seq.RID(nextID)}
					nextID++
				}
				if !used[id] {
					used[id] = true
					ids = append(ids, id)
				}
				var ts []string
				for _, t := range toks {
					if rng.Bool() {
						ts = append(ts, t)
					}
				}
				ts = append(ts, "_all_:")
				ds = append(ds, ldoc{id, randBytes(rng, rng.Range(1, 12)), ts})
			}
			d, m := plainBlocks(ds)
			if x < 7 {
				c.bulk(d, m)
				evs = append(evs, event{kind: 'B', d: d, m: m}.String())
				wrote = true
			} else {
				inMeta := rng.Bool()
				l := len(d)
				if inMeta {
					l = len(m)
				}
				ks := []int{0, 1, 33, l - 1, l, rng.Intn(l + 1)}
				k := ks[rng.Intn(len(ks))]
				c.tornBulk(d, m, inMeta, k)
				evs = append(evs, event{kind: 'T', d: d, m: m, inMeta: inMeta, k: k}.String())
				nt = nt || wrote
			}
		}
		var idStrs, tokHex []string
		for _, id := range ids {
			idStrs = append(idStrs, fmt.Sprintf("%d.%d", id.MID, id.RID))
		}
		for _, t := range toks {
			tokHex = append(tokHex, vh.Hex([]byte(t)))
		}
		impl := c.observeIndex(ids, toks)
		c.close()
		if workers > 1 && strings.HasPrefix(impl, "ok blocks=") { // drop the positions, sort the block offsets
			f := strings.Fields(impl)
			bl := parseInts(strings.TrimPrefix(f[1], "blocks="))
			sort.Ints(bl)
			impl = fmt.Sprintf("ok blocks=%s %s %s", vh.JoinInts(bl), f[3], f[4])
		}
		if impl == "" || len(ids) == 0 {
			ch.Tag("skipped")
			continue
		}
		ch.Add(fmt.Sprintf("%s %s %s %s %s", cmdName, vh.B(fix), vh.JoinStrs(evs, ";"), strings.Join(idStrs, ";"), strings.Join(tokHex, ";")), impl,
			nt && strings.Contains(impl, "fetch=") && !strings.Contains(impl, "blocks=- "), fmt.Sprintf("events=%d", len(evs)), fmt.Sprintf("ids=%d", len(ids)))
	}
	return ch
}

// detectFix: does the start-up cut an orphan docs block away?  (selects `restart true|false` of the model)
func detectFix() bool {
	c := newComp()
	defer c.close()
	c.restart()
	d, m := packBlock([]byte{1, 2, 3}, 0, 0), packBlock([]byte{9}, 0, 0)
	c.tornBulk(d, m, true, 0)
	st, err := os.Stat(c.docsPath())
	return err == nil && st.Size() == 0
}

func chanRun(o vh.Opts, rng *vh.RNG, fix bool) *vh.Channel {
	ch := vh.NewChannel("wp.run", "history of bulk / crash inside a bulk cut at byte k of the docs or meta block / restart, executed by the real "+
		"frac.Active (NewActive, Replay, Append) on real files; compared: both files byte for byte, writer offsets, (position, meta block) "+
		"handed to the indexer since the last start, panic of the replay. Exhaustive over an 11-letter alphabet up to length 3 (4 in the "+
		"thorough tier) + seeded random histories up to length 7 with random blocks. Non-trivial: a write is followed by a restart or crash")
	fx := vh.B(fix)
	add := func(h []event) {
		req := fmt.Sprintf("wp.run %s %s", fx, histString(h))
		impl := runComp(h)
		if impl == "" {
			ch.Tag("skipped-machine-dependent-allocation")
			return
		}
		ch.Add(req, impl, nontrivial(h), tags(h)...)
	}
	// exhaustive small scope
	d1, m1 := packBlock([]byte{1, 2, 3}, 0, 0), packBlock([]byte{9, 9, 9, 9, 9, 9, 9, 9, 9, 9}, 36, 0)
	d2, m2 := packBlock([]byte{4, 5}, 0, 0), packBlock([]byte{7}, 35, 0)
	alpha := func(i int) []event {
		d, m := d1, m1
		if i%2 == 1 {
			d, m = d2, m2
		}
		return []event{
			{kind: 'B', d: d, m: m}, {kind: 'R'},
			{kind: 'T', d: d, m: m, k: 0}, {kind: 'T', d: d, m: m, k: 1}, {kind: 'T', d: d, m: m, k: 33}, {kind: 'T', d: d, m: m, k: len(d)},
			{kind: 'T', d: d, m: m, inMeta: true, k: 0}, {kind: 'T', d: d, m: m, inMeta: true, k: 1}, {kind: 'T', d: d, m: m, inMeta: true, k: 33},
			{kind: 'T', d: d, m: m, inMeta: true, k: len(m) - 1}, {kind: 'T', d: d, m: m, inMeta: true, k: len(m)},
		}
	}
	maxLen := o.Pick(3, 4)
	var rec func(h []event)
	rec = func(h []event) {
		if len(h) > 0 {
			add(h)
		}
		if len(h) == maxLen {
			return
		}
		for _, e := range alpha(len(h)) {
			rec(append(h[:len(h):len(h)], e))
		}
	}
	rec(nil)
	ch.Exhaustive = true
	// seeded random beyond
	for i := 0; i < o.Pick(150, 1500); i++ {
		n := rng.Range(2, 7)
		var h []event
		for j := 0; j < n; j++ {
			d := packBlock(randBytes(rng, rng.Intn(7)), uint64(rng.Intn(3)), 0)
			m := packBlock(randBytes(rng, rng.Intn(12)), uint64(rng.Intn(100)), uint64(rng.Intn(100)))
			switch x := rng.Intn(10); {
			case x < 4:
				h = append(h, event{kind: 'B', d: d, m: m})
			case x < 6:
				h = append(h, event{kind: 'R'})
			default:
				inMeta := rng.Bool()
				l := len(d)
				if inMeta {
					l = len(m)
				}
				ks := []int{0, 1, 32, 33, 34, l - 1, l, l + 5, rng.Intn(l + 1)}
				h = append(h, event{kind: 'T', d: d, m: m, inMeta: inMeta, k: ks[rng.Intn(len(ks))]})
			}
		}
		add(h)
	}
	return ch
}

// ------------------------------------------------------------------ channel replay: arbitrary meta files

func header(length, ext1 uint64, payload []byte) []byte {
	b := make(disk.DocBlock, disk.DocBlockHeaderLen)
	b.SetLen(length)
	b.SetRawLen(uint64(len(payload)))
	b.SetExt1(ext1)
	return append(b, payload...)
}

// grayZone walks the file the way the block reader does and reports whether some length field it would meet asks
// for an allocation between 64 MiB and 2^48 bytes: such a `make` neither fails deterministically nor is it safe
// to run in-process (generator filter only; the answer compared is always the real Replay's)
func grayZone(file []byte) bool {
	pos := uint64(0)
	for {
		rest := uint64(len(file)) - pos
		if rest < disk.DocBlockHeaderLen {
			return false
		}
		l := disk.DocBlock(file[pos:]).FullLen()
		if l > 1<<48 {
			return false
		}
		if l > 1<<26 {
			return true
		}
		if rest < l || l < disk.DocBlockHeaderLen {
			return false
		}
		pos += l
	}
}

func chanReplay(o vh.Opts, rng *vh.RNG) *vh.Channel {
	ch := vh.NewChannel("replay", "meta file assembled from complete blocks, torn prefixes of blocks, garbage, headers with impossible or "+
		"too large lengths (2^64-1, 2^64-33, >= 2^56, a little more than what is left); real NewActive+Replay with a draining indexer; "+
		"compared: panic or the list of (docs position, ext1, block length) handed to the indexer. Lengths between 2^31 and 2^48 are not "+
		"generated (allocation outcome depends on the machine); cases whose ext1 sum passes 2^64 are skipped. Non-trivial: at least one "+
		"block accepted or a panic")
	two64 := new(big.Int).Lsh(big.NewInt(1), 64)
	for i := 0; i < o.Pick(400, 4000); i++ {
		var file []byte
		var kinds []string
		for j, n := 0, rng.Range(1, 5); j < n; j++ {
			pl := randBytes(rng, rng.Intn(10))
			switch x := rng.Intn(12); {
			case x < 6:
				file = append(file, header(uint64(len(pl)), uint64(rng.Intn(1<<20)), pl)...)
				kinds = append(kinds, "block")
			case x < 8:
				b := header(uint64(len(pl)), uint64(rng.Intn(1000)), pl)
				file = append(file, b[:rng.Intn(len(b))]...)
				kinds = append(kinds, "torn")
			case x < 9:
				g := randBytes(rng, rng.Intn(50))
				if len(g) > 8 {
					g[8] |= 1
				}
				file = append(file, g...)
				kinds = append(kinds, "garbage")
			case x < 10:
				ls := []uint64{math.MaxUint64, math.MaxUint64 - 32, math.MaxUint64 - 33, 1 << 62, 1 << 56, math.MaxUint64 - 40}
				file = append(file, header(ls[rng.Intn(len(ls))], uint64(rng.Intn(1000)), pl)...)
				kinds = append(kinds, "impossible-len")
			default:
				file = append(file, header(uint64(len(pl)+rng.Range(1, 40)), uint64(rng.Intn(1000)), pl)...)
				kinds = append(kinds, "len-too-large")
			}
		}
		if grayZone(file) {
			ch.Tag("skipped-machine-dependent-allocation")
			continue
		}
		c := newComp()
		must(os.WriteFile(c.docsPath(), nil, 0o666))
		must(os.WriteFile(c.metaPath(), file, 0o666))
		c.restart()
		impl := c.failure
		sum := new(big.Int)
		nEntries := 0
		if !c.down {
			c.mu.Lock()
			var es []string
			mp := 0
			for _, e := range c.entries {
				ext1 := disk.DocBlock(e.meta).GetExt1()
				es = append(es, fmt.Sprintf("%d:%d:%d", e.pos, ext1, len(e.meta)))
				sum.Add(sum, new(big.Int).SetUint64(ext1))
				mp += len(e.meta)
			}
			nEntries = len(c.entries)
			c.mu.Unlock()
			// the positions Replay ends with are implied by what it handed over: sum of ext1, sum of block lengths
			impl = fmt.Sprintf("ok docsPos=%s metaPos=%d entries=%s", sum.String(), mp, vh.JoinStrs(es, ","))
		}
		c.close()
		if sum.Cmp(two64) >= 0 {
			ch.Tag("skipped-ext1-sum-wraps")
			continue
		}
		ch.Add("replay "+vh.Hex(file), impl, c.down || nEntries > 0, append(kinds, fmt.Sprintf("accepted=%d", min(nEntries, 4)), "panic="+vh.B(c.down))...)
	}
	return ch
}

// ------------------------------------------------------------------ system oracle: child processes

const (
	exitCrash = 77
)

var pointNames = []string{"aw.begin", "fw.writeat", "fw.synced", "aw.docs", "fw.writeat", "fw.synced", "aw.end"}

type docSpec struct {
	svc    int // the bulk whose service token the document carries (= the bulk that brought it first)
	id     seq.ID
	body   []byte
	tokens []string
}

// bulk b < 1000: 1..3 new documents.  bulk b >= 1000 overlaps bulk b-1000: it repeats that bulk's documents (same
// IDs, bytes and tokens - a sender re-sending what was not confirmed yet) FIRST and then brings 1..2 documents of
// its own, so that duplicates precede new documents inside one bulk.
//
// 2000 <= b < 3000: a bulk the real ingestor builds from JSON documents (single mode); its IDs are the ingestor's.
// b >= 3000: a "hot" bulk of 500 documents that all carry the token service:hot (twenty of them pass the 10000-LID
// background-merge threshold of a token's queue; histories use 40).
// 4000 <= b < 5000: a "fat" bulk of 300 documents of about 6 KiB; 5000 <= b: documents whose own token is 90 bytes
// long, all such tokens sharing an 84-byte prefix that sorts after every other k8s_pod token.
func bulkDocs(b int) []docSpec {
	switch {
	case b >= 5000:
		res := newDocs(b)
		for j := range res {
			res[j].tokens[1] = "k8s_pod:" + strings.Repeat("z", 84) + fmt.Sprintf("%06d", (b-5000)*10+j)
		}
		return res
	case b >= 4000:
		res := make([]docSpec, 300)
		for j := range res {
			res[j] = docSpec{
				id:     seq.ID{MID: seq.MID(3_000_000 + (b-4000)*1000 + j), RID: seq.RID(b)},
				body:   []byte(fmt.Sprintf(`{"service":"fat%d","k8s_pod":"f%d_%d","pad":"%s"}`, b, b, j, strings.Repeat(string(rune('a'+j%26)), 6000))),
				tokens: []string{fmt.Sprintf("service:fat%d", b), fmt.Sprintf("k8s_pod:f%d_%d", b, j), "_all_:"},
				svc:    b,
			}
		}
		return res
	case b >= 3000:
		res := make([]docSpec, 500)
		for j := range res {
			res[j] = docSpec{
				id:     seq.ID{MID: seq.MID(2_000_000 + (b-3000)*1000 + j), RID: seq.RID(b)},
				body:   []byte(fmt.Sprintf(`{"service":"hot","k8s_pod":"h%d_%d"}`, b, j)),
				tokens: []string{"service:hot", fmt.Sprintf("k8s_pod:h%d_%d", b, j), "_all_:"},
				svc:    b,
			}
		}
		return res
	case b >= 2000:
		res := make([]docSpec, 2)
		for j := range res {
			res[j] = docSpec{
				body:   []byte(fmt.Sprintf(`{"service":"g%d","k8s_pod":"g%d_%d","pad":"%s"}`, b, b, j, strings.Repeat("p", 20+j))),
				tokens: []string{fmt.Sprintf("service:g%d", b), fmt.Sprintf("k8s_pod:g%d_%d", b, j)},
				svc:    b,
			}
		}
		return res
	case b >= 1000:
		return append(bulkDocs(b-1000), newDocs(b)...)
	}
	return newDocs(b)
}

func newDocs(b int) []docSpec {
	n := 1 + b%3
	if b >= 1000 {
		n = 1 + b%2
	}
	res := make([]docSpec, n)
	for j := 0; j < n; j++ {
		pad := strings.Repeat(string(rune('a'+(b+j)%26)), (b*7+j*13)%40)
		res[j] = docSpec{
			id:     seq.ID{MID: seq.MID(1_000_000 + b*10 + j), RID: seq.RID(b*1000 + j)},
			body:   []byte(fmt.Sprintf(`{"service":"b%d","k8s_pod":"d%d_%d","pad":"%s"}`, b, b, j, pad)),
			tokens: []string{fmt.Sprintf("service:b%d", b), fmt.Sprintf("k8s_pod:d%d_%d", b, j), "_all_:"},
			svc:    b,
		}
		if j%2 == 1 { // documents of one bulk do not all carry the same number of tokens
			res[j].tokens = append(res[j].tokens, fmt.Sprintf("level:%d", b%7))
		}
	}
	return res
}

// the blocks of a bulk as a client hands them to the store; the meta header's Ext1 is whatever the client left
// there: the bundled ingestor's value (b%3 == 0), zero (1) or something arbitrary (2) - the store must not depend on it
func bulkBlocks(b int) ([]byte, []byte) {
	dp := frac.NewDocProvider()
	for _, d := range bulkDocs(b) {
		dp.Append(d.body, nil, d.id, seq.Tokens(d.tokens...))
	}
	docs, metas := dp.Provide()
	docs, metas = append([]byte(nil), docs...), append([]byte(nil), metas...)
	switch b % 3 {
	case 1:
		disk.DocBlock(metas).SetExt1(0)
	case 2:
		disk.DocBlock(metas).SetExt1(uint64(7777 + b))
	}
	return docs, metas
}

func parseInts(s string) []int {
	var r []int
	for _, x := range strings.Split(s, ",") {
		if x == "" || x == "-" {
			continue
		}
		v, err := strconv.Atoi(x)
		must(err)
		r = append(r, v)
	}
	return r
}

// storeBulk sends one bulk through the store's Bulk handler (set up by childMain)
var storeBulk func(ctx context.Context, b int, docs, metas []byte) error

// childCancelled sends bulk b under a context that is of no use any more:
//
//	mode 1: cancelled before the call; mode 2: deadline already passed;
//	mode 3: the writer fraction is being sealed in place (held at c07.pf.seal.begin, so every try is refused) and the
//	        context is cancelled when the third refusal is observed - the handler leaves its retry loop through ctx.Done().
//
// Whatever the handler answers is printed: an OK is the store's acknowledgement.
func childCancelled(fm *fracmanager.FracManager, b, mode int, say func(string, ...any)) {
	docs, metas := bulkBlocks(b)
	ctx, cancel := context.WithCancel(context.Background())
	defer cancel()
	switch mode {
	case 1:
		cancel()
	case 2:
		var c2 context.CancelFunc
		ctx, c2 = context.WithTimeout(ctx, 0)
		defer c2()
	case 3:
		held := make(chan struct{})
		var fails atomic.Int64
		verifhook.Set(func(name, _ string, _ []int64) {
			switch name {
			case "c07.pf.seal.begin":
				close(held)
				select {} // the seal never gets further: the process ends with the fraction read-only
			case "c07.pf.append.fail":
				if fails.Add(1) == 3 {
					cancel()
				}
			}
		})
		go fracmanager.VerifC01SealActiveInPlace(fm)
		<-held
	}
	err := storeBulk(ctx, b, docs, metas)
	say("XRES %d %s", b, map[bool]string{true: "ok", false: "err"}[err == nil])
}

// childGlue is the single mode: the real bulk.Ingestor (pooled DocsMetasCompressor, SeqDBClient) talks to the store
// through the in-memory client.  The store's index workers are parked at c07.aidx.start (a task taken from the queue,
// nothing of it read yet) while bulk a and then bulk b are accepted - the ingestor builds b in the buffers it sent a
// from - and are released afterwards.  Returns the bulks that were acknowledged.
func childGlue(fm *fracmanager.FracManager, g *storeapi.GrpcV1, a, b int, say func(string, ...any)) []int {
	mp, err := mappingprovider.New("", mappingprovider.WithMapping(seq.TestMapping))
	must(err)
	clients := map[string]pstore.StoreApiClient{"memory": storeapi.VerifC01InMemoryClient(g, fm)}
	hot := stores.NewStoresFromString("memory", 1)
	none := stores.NewStoresFromString("", 1)
	cfg := bulk.IngestorConfig{HotStores: hot, WriteStores: none, MaxInflightBulks: 4, AllowedTimeDrift: 24 * time.Hour,
		FutureAllowedTimeDrift: 5 * time.Minute, MappingProvider: mp, MaxTokenSize: consts.DefaultMaxTokenSize,
		DocsZSTDCompressLevel: -1, MetasZSTDCompressLevel: -1, MaxDocumentSize: consts.MB}
	ing := bulk.NewIngestor(cfg, bulk.NewSeqDBClient(hot, none, cfg.BulkCircuit, clients))
	gate := make(chan struct{})
	verifhook.Set(func(name, _ string, _ []int64) {
		if name == "c07.aidx.start" {
			<-gate
		}
	})
	var acked []int
	for _, x := range []int{a, b} {
		docs := bulkDocs(x)
		i := 0
		n, err := ing.ProcessDocuments(context.Background(), time.Now(), func() ([]byte, error) {
			if i == len(docs) {
				return nil, nil
			}
			i++
			return docs[i-1].body, nil
		})
		if err == nil && n == len(docs) {
			acked = append(acked, x)
		} else {
			say("GLUEERR %d %v", x, err)
		}
	}
	close(gate)
	fm.WaitIdle()
	verifhook.Set(nil)
	for _, x := range acked {
		say("ACK %d", x)
	}
	return acked
}

// child <dir> <verify ids> <ingest ids> <crash bulk>:<point>   (crash "-" = none)
func childMain(args []string) {
	logger.SetLevel(zapcore.FatalLevel)
	dir := args[0]
	verify, ingest := parseInts(args[1]), parseInts(args[2])
	out := bufio.NewWriter(os.Stdout)
	say := func(f string, a ...any) {
		fmt.Fprintf(out, f+"\n", a...)
		out.Flush()
	}
	fm := fracmanager.NewFracManager(&fracmanager.Config{DataDir: dir, FracSize: 1 << 30, TotalSize: 1 << 40})
	if err := fm.Load(context.Background()); err != nil {
		say("LOADERR %v", err)
		os.Exit(3)
	}
	say("UP")
	// every bulk enters the store through the real handler GrpcV1.Bulk (what a proxy or the in-memory client calls)
	must(os.MkdirAll(dir+"-async", 0o777))
	grpcH := storeapi.VerifC01Grpc(fm, dir+"-async", 64)
	storeBulk = func(ctx context.Context, b int, docs, metas []byte) error {
		_, err := grpcH.Bulk(ctx, &pstore.BulkRequest{Count: int64(len(bulkDocs(b))), Docs: docs, Metas: metas})
		return err
	}
	searcher := fracmanager.NewSearcher(1, fracmanager.SearcherCfg{})
	fetcher := fracmanager.NewFetcher(1)
	ctx := context.Background()
	q := func(query string) ([]seq.ID, bool) {
		ast, err := parser.ParseSeqQL(query, seq.TestMapping)
		must(err)
		qpr, err := searcher.SearchDocs(ctx, fm.GetAllFracs(), processor.SearchParams{AST: ast.Root, From: 0, To: math.MaxUint64, Limit: 200000})
		if err != nil {
			return nil, false
		}
		return qpr.IDs.IDs(), true
	}
	fetch1 := func(id seq.ID, body []byte) string {
		res, err := fetcher.FetchDocs(ctx, fm.GetAllFracs(), []seq.IDSource{{ID: id}})
		switch {
		case err != nil:
			return "error"
		case len(res) != 1 || res[0] == nil:
			return "missing"
		case bytes.Equal(res[0], body):
			return "exact"
		}
		return "wrong"
	}
	// observe prints what the store serves of bulk b: how many of its n documents are found by the bulk token and by
	// their own token, how many foreign IDs those tokens lead to, how many documents are fetched byte for byte
	served := map[seq.ID][]byte{} // documents the per-ID fetch returned byte for byte
	var servedOrder []seq.ID
	observe := func(b int) {
		docs := bulkDocs(b)
		searchErr, fetchErr := "", ""
		cache := map[string]map[seq.ID]bool{}
		ids := func(tok string) map[seq.ID]bool {
			if r, ok := cache[tok]; ok {
				return r
			}
			r := map[seq.ID]bool{}
			hits, ok := q(tok)
			if !ok {
				searchErr = "search-error"
			}
			for _, id := range hits {
				r[id] = true
			}
			cache[tok] = r
			return r
		}
		n, found, extra, tokenHits, exact, missing, wrong := len(docs), 0, 0, 0, 0, 0, 0
		count := func(r string) {
			switch r {
			case "exact":
				exact++
			case "missing":
				missing++
			case "error":
				fetchErr = "fetch-error"
				wrong++
			default:
				wrong++
			}
		}
		switch {
		case b >= 3000 && b < 4000: // hot bulk: all IDs under the shared token, a sample of documents by own token and by fetch
			hot := ids(docs[0].tokens[0])
			okSample := true
			for j, d := range docs {
				if hot[d.id] {
					found++
				}
				if j%200 == 0 {
					own := ids(d.tokens[1])
					if !own[d.id] || len(own) != 1 || fetch1(d.id, d.body) != "exact" {
						okSample = false
					}
				}
			}
			if okSample {
				tokenHits, exact = n, n
				if found == n {
					for _, d := range docs {
						if _, dup := served[d.id]; !dup {
							servedOrder = append(servedOrder, d.id)
						}
						served[d.id] = d.body
					}
				}
			} else {
				wrong = 1
			}
		case b >= 2000 && b < 3000: // bulk built by the real ingestor: the IDs are its own, a document is identified by its token
			bulkSet := ids(docs[0].tokens[0])
			for _, d := range docs {
				own := ids(d.tokens[1])
				if len(own) > 1 {
					extra += len(own) - 1
				}
				if len(own) == 0 {
					missing++
					continue
				}
				tokenHits++
				for id := range own {
					if bulkSet[id] {
						found++
					}
					count(fetch1(id, d.body))
					break
				}
			}
			if len(bulkSet) > n {
				extra += len(bulkSet) - n
			}
		default:
			for _, d := range docs {
				if ids(d.tokens[0])[d.id] {
					found++
				}
				own := ids(d.tokens[1])
				if own[d.id] {
					tokenHits++
					extra += len(own) - 1
				} else {
					extra += len(own)
				}
				r := fetch1(d.id, d.body)
				count(r)
				if r == "exact" {
					if _, dup := served[d.id]; !dup {
						servedOrder = append(servedOrder, d.id)
					}
					served[d.id] = d.body
				}
			}
			for tok, svc := range map[string]int{docs[0].tokens[0]: docs[0].svc, docs[len(docs)-1].tokens[0]: docs[len(docs)-1].svc} {
				want := map[seq.ID]bool{}
				wantDocs := newDocs(svc)
				if svc >= 4000 {
					wantDocs = bulkDocs(svc)
				}
				for _, d := range wantDocs {
					want[d.id] = true
				}
				for id := range ids(tok) {
					if !want[id] {
						extra++
					}
				}
			}
		}
		say("OBS %d n=%d search=%d extra=%d bytoken=%d exact=%d missing=%d wrong=%d %s %s", b, n, found, extra, tokenHits, exact, missing, wrong, searchErr, fetchErr)
	}
	for _, b := range verify {
		observe(b)
	}
	// one Fetch request of the store API for every document served so far (what a proxy sends after a search):
	// the stream must deliver, position by position, the bytes the per-ID fetch delivered
	if len(servedOrder) > 0 {
		say("FETCHALL-BEGIN %d", len(servedOrder))
		ok, wrong, ferr := 0, 0, ""
		func() {
			defer func() {
				if r := recover(); r != nil {
					ferr = fmt.Sprintf("panic:%v", r)
				}
			}()
			req := &pstore.FetchRequest{}
			for _, id := range servedOrder {
				req.Ids = append(req.Ids, id.String())
			}
			stream, err := storeapi.VerifC01InMemoryClient(grpcH, fm).Fetch(ctx, req)
			if err != nil {
				ferr = "error"
				return
			}
			for _, id := range servedOrder {
				m, err := stream.Recv()
				if err != nil {
					ferr = "short-stream"
					return
				}
				blk := disk.DocBlock(m.Data)
				if len(blk) >= disk.DocBlockHeaderLen && bytes.Equal(blk.Payload(), served[id]) && blk.GetExt1() == uint64(id.MID) && blk.GetExt2() == uint64(id.RID) {
					ok++
				} else {
					wrong++
				}
			}
		}()
		say("FETCHALL n=%d ok=%d wrong=%d %s", len(servedOrder), ok, wrong, strings.ReplaceAll(ferr, " ", "_"))
	}
	var stopSearch atomic.Bool
	searching := false
	var searchWG sync.WaitGroup
	for _, b := range ingest {
		if b >= 3000 && !searching {
			searching = true
			// a reader hammers the hot token while the hot bulks are ingested (merges overlap with queueing)
			searchWG.Add(1)
			go func() {
				defer searchWG.Done()
				for !stopSearch.Load() {
					q("service:hot")
				}
			}()
		}
		docs, metas := bulkBlocks(b)
		if err := storeBulk(ctx, b, docs, metas); err != nil {
			say("APPENDERR %d %v", b, err)
			os.Exit(4)
		}
		fm.WaitIdle()
		say("ACK %d", b)
	}
	stopSearch.Store(true)
	searchWG.Wait()
	var glued []int
	if len(args) > 7 && args[7] != "-" {
		var a, b int
		_, err := fmt.Sscanf(args[7], "%d+%d", &a, &b)
		must(err)
		glued = childGlue(fm, grpcH, a, b, say)
		for _, x := range glued { // before any seal or restart
			observe(x)
		}
	}
	if len(args) > 4 && args[4] != "0+0" {
		var a, b int
		_, err := fmt.Sscanf(args[4], "%d+%d", &a, &b)
		must(err)
		childConcurrent(fm, a, b, say)
	}
	if len(args) > 6 && args[6] != "-" {
		var b, mode int
		_, err := fmt.Sscanf(args[6], "%d:%d", &b, &mode)
		must(err)
		childCancelled(fm, b, mode, say)
		if mode == 3 {
			say("DONE")
			os.Exit(0)
		}
	}
	if len(args) > 5 && args[5] == "seal" {
		fm.SealForcedForTests()
		fm.WaitIdle()
		say("SEALED")
		for _, x := range glued { // after the seal, still the same process
			observe(x)
		}
	}
	if args[3] != "-" {
		var b, point int
		_, err := fmt.Sscanf(args[3], "%d:%d", &b, &point)
		must(err)
		writes := 0
		verifhook.Set(func(name, _ string, a []int64) {
			stage := 0 // position inside ActiveWriter.Write, independent of which other points exist
			switch name {
			case "aw.begin":
				stage = 1
			case "fw.writeat":
				writes++
				stage = map[bool]int{true: 2, false: 5}[writes == 1]
			case "fw.synced":
				stage = map[bool]int{true: 3, false: 6}[writes == 1]
			case "aw.docs":
				stage = 4
			case "aw.end":
				stage = 7
			}
			if stage == point {
				say("CRASH %d %s %d %d", stage, name, a[0], a[1])
				os.Exit(exitCrash)
			}
		})
		docs, metas := bulkBlocks(b)
		say("BLOCKS %d %d", len(docs), len(metas))
		if err := storeBulk(ctx, b, docs, metas); err == nil { // the point does not exist (any more): the bulk went through
			fm.WaitIdle()
			say("ACK %d", b)
		}
		say("NOCRASH")
	}
	say("DONE")
	os.Exit(0)
}

// childConcurrent appends bulks a and b from two goroutines and steers them, through the aw.* points, towards the
// interleaving  docs(a) docs(b) meta(b) meta(a):  a is held at aw.docs (its docs block written, its meta block not)
// until b has finished its write (aw.end) - or until b cannot get there: b returned, or b is parked on a lock
// inside ActiveWriter.Write (the goroutine dump shows it), which is what happens when the writes are serialised.
// No time-outs: b always reaches one of these states.
func childConcurrent(fm *fracmanager.FracManager, a, b int, say func(string, ...any)) {
	da, ma := bulkBlocks(a)
	db, mb := bulkBlocks(b)
	if len(da) == len(db) {
		say("CONCURRENT-SKIPPED equal docs block lengths")
		return
	}
	var aAtDocs, release = make(chan struct{}), make(chan struct{})
	var bEnd, bReturned atomic.Bool
	verifhook.Set(func(name, _ string, args []int64) {
		switch {
		case name == "aw.docs" && args[1] == int64(len(da)):
			close(aAtDocs)
			<-release
		case name == "aw.end" && args[1] == int64(len(db)):
			bEnd.Store(true)
		}
	})
	ctx := context.Background()
	var wg sync.WaitGroup
	var errA, errB error
	wg.Add(1)
	go func() { defer wg.Done(); errA = storeBulk(ctx, a, da, ma) }()
	<-aAtDocs
	wg.Add(1)
	go func() { defer wg.Done(); errB = storeBulk(ctx, b, db, mb); bReturned.Store(true) }()
	how := ""
	for how == "" {
		switch {
		case bEnd.Load():
			how = "b-wrote-inside-a"
		case bReturned.Load():
			how = "b-returned"
		case parkedOnWriterLock():
			how = "b-waits-for-a"
		default:
			runtime.Gosched()
			time.Sleep(200 * time.Microsecond)
		}
	}
	close(release)
	wg.Wait()
	verifhook.Set(nil)
	fm.WaitIdle()
	say("CONCURRENT %s", how)
	if errA == nil {
		say("ACK %d", a)
	}
	if errB == nil {
		say("ACK %d", b)
	}
}

// parkedOnWriterLock: some goroutine inside ActiveWriter.Write is waiting for a lock
func parkedOnWriterLock() bool {
	buf := make([]byte, 1<<20)
	buf = buf[:runtime.Stack(buf, true)]
	for _, g := range strings.Split(string(buf), "\n\n") {
		nl := strings.IndexByte(g, '\n')
		if nl < 0 {
			continue
		}
		head, body := g[:nl], g[nl:]
		if (strings.Contains(head, "Lock") || strings.Contains(head, "semacquire")) && strings.Contains(body, "frac.(*ActiveWriter).Write") {
			return true
		}
	}
	return false
}

type round struct {
	glue   [2]int // two bulks sent by the real ingestor through the in-memory client while the index workers are parked
	xb, xm int    // bulk xb sent under a dead context, mode xm (0 = none), see childCancelled
	seal   bool   // after the ingestion of this round the active fraction is sealed (SealForcedForTests)
	par    [2]int // two bulks appended concurrently (0 = none), see childConcurrent
	ingest []int
	crash  int // bulk id or -1
	point  int // 1..7 (pointNames)
	k      int // torn length for points 2 (docs) and 5 (meta): bytes of the block kept; -1 = all
}

type scenario struct{ rounds []round }

func (s scenario) String() string {
	var parts []string
	for _, r := range s.rounds {
		c := "-"
		if r.crash >= 0 {
			c = fmt.Sprintf("%d@%d/%d", r.crash, r.point, r.k)
		}
		p := ""
		if r.par[0] > 0 {
			p = fmt.Sprintf(",p=%d+%d", r.par[0], r.par[1])
		}
		if r.seal {
			p += ",s"
		}
		if r.xm > 0 {
			p += fmt.Sprintf(",x=%d:%d", r.xb, r.xm)
		}
		if r.glue[0] > 0 {
			p += fmt.Sprintf(",g=%d+%d", r.glue[0], r.glue[1])
		}
		parts = append(parts, fmt.Sprintf("i=%s,c=%s%s", strings.ReplaceAll(vh.JoinInts(r.ingest), ",", "+"), c, p))
	}
	return "hist " + strings.Join(parts, " ")
}

func parseScenario(line string) (scenario, error) {
	var s scenario
	f := strings.Fields(line)
	if len(f) == 0 || f[0] != "hist" {
		return s, fmt.Errorf("not a history line")
	}
	for _, p := range f[1:] {
		r := round{crash: -1}
		for _, kv := range strings.Split(p, ",") {
			switch {
			case strings.HasPrefix(kv, "i="):
				r.ingest = parseInts(strings.ReplaceAll(kv[2:], "+", ","))
			case kv == "s":
				r.seal = true
			case strings.HasPrefix(kv, "g="):
				if _, err := fmt.Sscanf(kv[2:], "%d+%d", &r.glue[0], &r.glue[1]); err != nil {
					return s, err
				}
			case strings.HasPrefix(kv, "x="):
				if _, err := fmt.Sscanf(kv[2:], "%d:%d", &r.xb, &r.xm); err != nil {
					return s, err
				}
			case strings.HasPrefix(kv, "p="):
				if _, err := fmt.Sscanf(kv[2:], "%d+%d", &r.par[0], &r.par[1]); err != nil {
					return s, err
				}
			case strings.HasPrefix(kv, "c=") && kv != "c=-":
				if _, err := fmt.Sscanf(kv[2:], "%d@%d/%d", &r.crash, &r.point, &r.k); err != nil {
					return s, err
				}
			}
		}
		s.rounds = append(s.rounds, r)
	}
	return s, nil
}

type childResult struct {
	exit   int
	lines  []string
	up     bool
	stderr string
}

func runChild(dir string, verify, ingest []int, crash string, par [2]int, seal bool, x string, glue [2]int) childResult {
	self, err := os.Executable()
	must(err)
	ctx, cancel := context.WithTimeout(context.Background(), 60*time.Second)
	defer cancel()
	cmd := exec.CommandContext(ctx, self, "child", dir, vh.JoinInts(verify), vh.JoinInts(ingest), crash, fmt.Sprintf("%d+%d", par[0], par[1]), map[bool]string{true: "seal", false: "-"}[seal], x, map[bool]string{true: fmt.Sprintf("%d+%d", glue[0], glue[1]), false: "-"}[glue[0] > 0])
	var so, se bytes.Buffer
	cmd.Stdout, cmd.Stderr = &so, &se
	err = cmd.Run()
	res := childResult{}
	if err != nil {
		res.exit = -1
		if ee, ok := err.(*exec.ExitError); ok {
			res.exit = ee.ExitCode()
		}
	}
	for _, l := range strings.Split(so.String(), "\n") {
		if l != "" {
			res.lines = append(res.lines, l)
			if l == "UP" {
				res.up = true
			}
		}
	}
	e := se.String()
	if len(e) > 600 {
		e = e[:300] + " ... " + e[len(e)-300:]
	}
	res.stderr = e
	return res
}

func fracFile(dir, suffix string) string {
	m, _ := filepath.Glob(filepath.Join(dir, "seq-db-*"+suffix))
	sort.Strings(m)
	if len(m) == 0 {
		return ""
	}
	return m[len(m)-1]
}

type finding struct {
	class string
	what  string
}

// runScenario executes the history with child processes and returns the property violations observed.
type sysObs struct {
	up      bool
	bulks   []int          // every bulk attempted, ascending
	state   map[int]string // "1" wholly served, "0" wholly absent, "x" anything else
	reached bool           // every requested crash point was reached
}

func runScenario(s scenario) (findings []finding, tagsOut []string, obs sysObs) {
	obs = sysObs{state: map[int]string{}, reached: true}
	dir, err := os.MkdirTemp("", "c01-sys-")
	must(err)
	defer os.RemoveAll(dir)
	defer os.RemoveAll(dir + "-async")
	var acked []int
	unacked := map[int]bool{}
	deadAcked := map[int]bool{} // acknowledged although the context was cancelled / expired
	debris := ""                // class of the earliest crash that left debris and was followed by ingestion
	pendingDebris := ""
	concurrent := false // two bulks were appended concurrently earlier in the history
	special := ""       // the history contains single-mode rounds / hot bulks: names the class when nothing else does
	overlap := false    // a bulk repeated documents of an earlier bulk before bringing new ones
	check := func(res childResult, phase string) bool {
		cls := debris
		if cls == "" {
			cls = pendingDebris // a crash left debris and nothing was ingested since
		}
		if cls == "" && concurrent {
			cls = "concurrent-bulks"
		}
		if cls == "" && overlap {
			cls = "overlapping-bulks"
		}
		if cls == "" {
			cls = special
		}
		if cls == "" {
			cls = "no-debris"
		}
		if !res.up {
			why := lastLine(res.stderr)
			for _, l := range res.lines {
				if strings.HasPrefix(l, "LOADERR") { // FracManager.Load returned an error
					why = l
				}
			}
			if len(why) > 240 {
				why = why[:240]
			}
			findings = append(findings, finding{"startup-fails/" + cls, fmt.Sprintf("%s: the store does not come up (exit %d): %s", phase, res.exit, why)})
			return false
		}
		for _, l := range res.lines {
			if !strings.HasPrefix(l, "OBS ") {
				continue
			}
			var b, n, search, extra, bytoken, exact, missing, wrong int
			fmt.Sscanf(l, "OBS %d n=%d search=%d extra=%d bytoken=%d exact=%d missing=%d wrong=%d", &b, &n, &search, &extra, &bytoken, &exact, &missing, &wrong)
			if unacked[b] {
				whole := search == n && bytoken == n && exact == n
				absent := search == 0 && bytoken == 0 && missing == n
				if !(whole || absent) || wrong > 0 || extra > 0 {
					findings = append(findings, finding{"unacked-partial/" + cls, fmt.Sprintf("%s: unacknowledged bulk %d is neither wholly present nor wholly absent: %s", phase, b, l)})
				}
				continue
			}
			if deadAcked[b] && (search != n || bytoken != n || exact != n) {
				findings = append(findings, finding{"acked-lost/dead-context", fmt.Sprintf("%s: bulk %d was acknowledged by the Bulk handler under a cancelled/expired context and is not in the store: %s", phase, b, l)})
				continue
			}
			if b >= 5000 && search == n && exact == n && wrong == 0 && extra == 0 && bytoken != n {
				findings = append(findings, finding{"acked-lost/long-tokens", fmt.Sprintf("%s: acknowledged bulk %d is fetched and found by its bulk token but not by its documents' own (90-byte) tokens: %s", phase, b, l)})
				continue
			}
			if wrong > 0 || extra > 0 {
				findings = append(findings, finding{"acked-corrupted/" + cls, fmt.Sprintf("%s: acknowledged bulk %d is served with wrong bytes or foreign IDs: %s", phase, b, l)})
			} else if search != n || bytoken != n || exact != n {
				findings = append(findings, finding{"acked-lost/" + cls, fmt.Sprintf("%s: acknowledged bulk %d is not fully findable/fetchable: %s", phase, b, l)})
			}
		}
		began, ended := false, false
		for _, l := range res.lines {
			if strings.HasPrefix(l, "FETCHALL-BEGIN") {
				began = true
			}
			if strings.HasPrefix(l, "FETCHALL ") {
				ended = true
				var n, ok, wrong int
				var ferr string
				fmt.Sscanf(l, "FETCHALL n=%d ok=%d wrong=%d %s", &n, &ok, &wrong, &ferr)
				if wrong > 0 || ferr != "" || ok != n {
					findings = append(findings, finding{"acked-corrupted/fetch-all", fmt.Sprintf("%s: one Fetch request for the %d documents that are served one by one does not return them: %s", phase, n, l)})
				}
			}
		}
		if began && !ended {
			findings = append(findings, finding{"dies-after-startup/fetch-all", fmt.Sprintf("%s: the store died inside one Fetch request for all served documents (exit %d): %s", phase, res.exit, lastLine(res.stderr))})
			return false
		}
		if res.exit != 0 && res.exit != exitCrash {
			findings = append(findings, finding{"dies-after-startup/" + cls, fmt.Sprintf("%s: the store died after start-up (exit %d): %s", phase, res.exit, lastLine(res.stderr))})
			return false
		}
		return true
	}
	known := func() []int {
		all := append([]int(nil), acked...)
		for b := range unacked {
			all = append(all, b)
		}
		sort.Ints(all)
		return all
	}
	for i, r := range s.rounds {
		crash := "-"
		if r.crash >= 0 {
			crash = fmt.Sprintf("%d:%d", r.crash, r.point)
		}
		if pendingDebris != "" && (len(r.ingest) > 0 || r.crash >= 0) && debris == "" {
			debris = pendingDebris
		}
		for _, b := range r.ingest {
			if b >= 1000 && b < 2000 {
				overlap = true
				tagsOut = append(tagsOut, "overlapping-bulk")
			}
		}
		if r.seal {
			tagsOut = append(tagsOut, "seal")
		}
		if r.par[0] > 0 {
			tagsOut = append(tagsOut, "concurrent-bulks")
			concurrent = true
		}
		x := "-"
		if r.xm > 0 {
			x = fmt.Sprintf("%d:%d", r.xb, r.xm)
			tagsOut = append(tagsOut, fmt.Sprintf("dead-context-%d", r.xm))
		}
		if r.glue[0] > 0 {
			special = "single-mode-glue"
			tagsOut = append(tagsOut, "single-mode-glue")
		}
		for _, b := range r.ingest {
			if b >= 5000 && special == "" {
				special = "long-tokens"
				tagsOut = append(tagsOut, "long-token-bulk")
			}
			if b >= 4000 && b < 5000 {
				tagsOut = append(tagsOut, "fat-bulk")
			}
			if b >= 3000 && b < 4000 {
				special = "hot-token"
				tagsOut = append(tagsOut, "hot-bulk")
			}
		}
		res := runChild(dir, known(), r.ingest, crash, r.par, r.seal, x, r.glue)
		for _, l := range res.lines {
			if strings.HasPrefix(l, "CONCURRENT") {
				tagsOut = append(tagsOut, strings.ReplaceAll(l, " ", ":"))
			}
			if strings.HasPrefix(l, "ACK ") {
				b, _ := strconv.Atoi(l[4:])
				acked = append(acked, b)
			}
			if strings.HasPrefix(l, "XRES ") {
				var b int
				var how string
				fmt.Sscanf(l, "XRES %d %s", &b, &how)
				if how == "ok" { // the handler acknowledged a bulk sent under a dead context
					acked = append(acked, b)
					deadAcked[b] = true
				} else {
					unacked[b] = true
				}
			}
		}
		if !check(res, fmt.Sprintf("round %d", i+1)) {
			return findings, append(tagsOut, "stopped-early"), obs
		}
		if r.crash >= 0 {
			var n, dlen, mlen int
			var name string
			var off, l int64
			crashed := false
			for _, ln := range res.lines {
				if strings.HasPrefix(ln, "BLOCKS ") {
					fmt.Sscanf(ln, "BLOCKS %d %d", &dlen, &mlen)
				}
				if strings.HasPrefix(ln, "CRASH ") {
					fmt.Sscanf(ln, "CRASH %d %s %d %d", &n, &name, &off, &l)
					crashed = true
				}
			}
			if !crashed {
				tagsOut = append(tagsOut, "crash-point-not-reached")
				obs.reached = false
				continue
			}
			unacked[r.crash] = true
			tagsOut = append(tagsOut, fmt.Sprintf("crash@%d:%s", r.point, name))
			// torn write: the un-fsynced last write keeps only k bytes
			if name == "fw.writeat" && r.k >= 0 {
				suffix := ".docs"
				if r.point == 5 {
					suffix = ".meta"
				}
				if f := fracFile(dir, suffix); f != "" {
					must(os.Truncate(f, off+int64(min(r.k, int(l)))))
				}
				tagsOut = append(tagsOut, "torn"+suffix)
			}
			switch {
			case r.point == 2 && (r.k != 0):
				pendingDebris = "crash-in-docs-write"
			case r.point == 3 || r.point == 4 || (r.point == 5 && r.k == 0):
				pendingDebris = "crash-between-docs-and-meta"
			case r.point == 5 && r.k > 0 && r.k < mlen:
				pendingDebris = "crash-in-meta-write"
			}
		}
	}
	res := runChild(dir, known(), nil, "-", [2]int{}, false, "-", [2]int{})
	obs.up = check(res, "final restart")
	obs.bulks = known()
	for _, l := range res.lines {
		if !strings.HasPrefix(l, "OBS ") {
			continue
		}
		var b, n, search, extra, bytoken, exact, missing, wrong int
		fmt.Sscanf(l, "OBS %d n=%d search=%d extra=%d bytoken=%d exact=%d missing=%d wrong=%d", &b, &n, &search, &extra, &bytoken, &exact, &missing, &wrong)
		switch {
		case search == n && bytoken == n && exact == n && extra == 0 && wrong == 0:
			obs.state[b] = "1"
		case search == 0 && bytoken == 0 && missing == n && extra == 0 && wrong == 0:
			obs.state[b] = "0"
		default:
			obs.state[b] = "x"
		}
	}
	return findings, tagsOut, obs
}

// modelHistory translates a scenario into the model's events over the real (compressed) blocks of its bulks
func modelHistory(s scenario) string {
	var evs []string
	for _, r := range s.rounds {
		for _, b := range r.ingest {
			if b >= 2000 { // ingestor-built and hot bulks are left out of the model comparison (they only add blocks)
				continue
			}
			d, m := bulkBlocks(b)
			evs = append(evs, event{kind: 'B', d: d, m: m}.String())
		}
		if r.par[0] > 0 { // bulks of one fraction are written one at a time: any order of two acknowledged bulks is a history
			for _, b := range r.par {
				d, m := bulkBlocks(b)
				evs = append(evs, event{kind: 'B', d: d, m: m}.String())
			}
		}
		if r.crash < 0 {
			evs = append(evs, "R")
			continue
		}
		d, m := bulkBlocks(r.crash)
		e := event{kind: 'T', d: d, m: m}
		switch r.point {
		case 1:
			e.k = 0
		case 2:
			e.k = len(d)
			if r.k >= 0 {
				e.k = r.k
			}
		case 3, 4:
			e.inMeta, e.k = true, 0
		case 5:
			e.inMeta, e.k = true, len(m)
			if r.k >= 0 {
				e.k = r.k
			}
		default:
			e.inMeta, e.k = true, len(m)
		}
		evs = append(evs, e.String())
	}
	return strings.Join(evs, ";")
}

func lastLine(s string) string {
	ls := strings.Split(strings.TrimSpace(s), "\n")
	l := ls[len(ls)-1]
	for i := len(ls) - 1; i >= 0; i-- {
		if strings.Contains(ls[i], "panic") || strings.Contains(ls[i], "fatal") || strings.Contains(ls[i], "FATAL") {
			l = ls[i]
			break
		}
	}
	if len(l) > 200 {
		l = l[:200]
	}
	return l
}

func hotRange(first, n int) []int {
	r := make([]int, n)
	for i := range r {
		r[i] = first + i
	}
	return r
}

func siteOf(class string) string {
	if strings.HasSuffix(class, "/concurrent-bulks") {
		return "frac/active_writer.go:Write"
	}
	if strings.HasSuffix(class, "/fetch-all") {
		return "storeapi/docs_stream.go:batchLoader"
	}
	if strings.HasSuffix(class, "/long-tokens") {
		return "frac/token/table_entry.go:Pack"
	}
	if strings.HasSuffix(class, "/single-mode-glue") {
		return "storeapi/client.go:Bulk"
	}
	if strings.HasSuffix(class, "/hot-token") {
		return "frac/active_lids.go:getQueuedLIDs"
	}
	if strings.HasSuffix(class, "/dead-context") {
		return "storeapi/grpc_bulk.go:Bulk"
	}
	if strings.HasSuffix(class, "/overlapping-bulks") {
		return "frac/active_indexer.go:appendWorker"
	}
	if strings.HasSuffix(class, "/no-debris") && !strings.HasPrefix(class, "startup-fails") {
		return "frac/active.go:Append" // no crash left anything behind: the write / index / fetch path itself
	}
	return "frac/active.go:Replay"
}

func oracleCrashRestart(o vh.Opts, rng *vh.RNG, rep *vh.Report, replayOps []string, fix bool) (*vh.Oracle, *vh.Channel) {
	or := vh.NewOracle("crash-restart", "history of rounds; each round is a fresh process: FracManager.Load, search (bulk token and per-document "+
		"token) and fetch of every bulk seen so far, ingestion of new bulks (acknowledged = Append returned and the index is idle), optionally "+
		"os.Exit at one of the 7 verif points of ActiveWriter.Write/FileWriter.Write, after which the parent cuts the file being written to a "+
		"torn length; a final restart re-checks everything. Violation: a child does not come up or dies, an acknowledged bulk is not found by "+
		"its tokens or fetched with other bytes, an unacknowledged bulk is partially there. Directed histories (DESIGN section 7 rows 1, 2) + "+
		"all crash points x torn lengths {0,1,32,33,34,len-1,len} followed by ingest and restart + seeded random. Non-trivial: >= 1 crash")
	var scs []scenario
	if len(replayOps) > 0 {
		for _, l := range replayOps {
			if s, err := parseScenario(l); err == nil {
				scs = append(scs, s)
			}
		}
	} else {
		// directed: the two witnesses
		scs = append(scs,
			scenario{[]round{{ingest: []int{1}, crash: 2, point: 4, k: -1}, {ingest: []int{3}, crash: -1}}},
			scenario{[]round{{ingest: []int{1}, crash: 2, point: 5, k: 40}, {ingest: []int{3}, crash: -1}}},
			scenario{[]round{{crash: 1, point: 5, k: 40}, {ingest: []int{2}, crash: -1}}},
			// two bulks appended concurrently, then restarts
			scenario{[]round{{par: [2]int{1, 2}, crash: -1}, {crash: -1}}},
			scenario{[]round{{ingest: []int{3}, par: [2]int{4, 5}, crash: -1}, {ingest: []int{6}, crash: -1}}},
			scenario{[]round{{par: [2]int{8, 7}, crash: 9, point: 5, k: 10}, {ingest: []int{10}, crash: -1}}},
			// bulks that repeat documents of an earlier bulk before their own (partial re-send), restarts, a crash, sealing
			scenario{[]round{{ingest: []int{1, 1001}, crash: -1}, {ingest: []int{2}, crash: -1}}},
			scenario{[]round{{ingest: []int{3, 4, 1004}, crash: 5, point: 5, k: 35}, {ingest: []int{1003}, crash: -1}}},
			scenario{[]round{{ingest: []int{6, 1006}, crash: -1, seal: true}, {ingest: []int{7, 1007}, crash: -1}}},
			scenario{[]round{{ingest: []int{2, 5}, crash: -1}, {ingest: []int{1002}, crash: -1, seal: true}, {ingest: []int{8}, crash: -1}}},
			// > 1000 documents of ~6 KiB fetched in one request after a crash and restarts
			scenario{[]round{{ingest: hotRange(4001, 4), crash: 1, point: 5, k: 40}, {ingest: []int{2}, crash: -1}}},
			// tokens of 90 bytes sharing an 84-byte prefix: sealed, restarted, searched by own token
			scenario{[]round{{ingest: []int{1, 5001, 5002}, crash: -1, seal: true}, {ingest: []int{5003}, crash: -1}, {crash: -1}}},
			scenario{[]round{{ingest: []int{5004}, crash: 5005, point: 5, k: 50}, {ingest: []int{5006, 2}, crash: -1, seal: true}, {ingest: []int{3}, crash: -1}}},
			// single mode: the real ingestor + in-memory client with parked index workers; then seal / restart
			scenario{[]round{{ingest: []int{1}, crash: -1, glue: [2]int{2001, 2002}, seal: true}, {ingest: []int{2}, crash: -1}}},
			scenario{[]round{{crash: -1, glue: [2]int{2003, 2004}}, {ingest: []int{3}, crash: -1, glue: [2]int{2005, 2006}, seal: true}}},
			// an active fraction with more than 10000 documents under one token, read while written, restarted twice
			scenario{[]round{{ingest: hotRange(3001, 40), crash: -1}, {ingest: []int{4}, crash: -1}, {crash: -1}}},
			// bulks sent under a cancelled / expired context, and under one that is cancelled between refused tries
			scenario{[]round{{ingest: []int{1}, crash: -1, xb: 2, xm: 1}, {ingest: []int{3}, crash: -1}}},
			scenario{[]round{{ingest: []int{4}, crash: -1, xb: 5, xm: 2}, {crash: -1, xb: 6, xm: 1}}},
			scenario{[]round{{ingest: []int{7, 8}, crash: -1, xb: 9, xm: 3}, {ingest: []int{10}, crash: -1}}},
			// torn meta tail with a complete header, restart only
			scenario{[]round{{ingest: []int{1}, crash: 2, point: 5, k: 33}}},
			scenario{[]round{{crash: 1, point: 5, k: 40}, {crash: -1}}},
		)
		// every crash point x torn length, followed by ingest and restart
		ks := []int{0, 1, 32, 33, 34, -2, -1} // -2 = len-1, resolved below against a generous bound
		for point := 1; point <= 7; point++ {
			kk := []int{-1}
			if point == 2 || point == 5 {
				kk = ks
			}
			for _, k := range kk {
				if !o.Thorough() && point != 2 && point != 5 && point != 4 && point != 7 {
					continue
				}
				if k == -2 {
					dl, ml := bulkBlocks(5)
					k = len(dl) - 1
					if point == 5 {
						k = len(ml) - 1
					}
				}
				scs = append(scs, scenario{[]round{{ingest: []int{4}, crash: 5, point: point, k: k}, {ingest: []int{6}, crash: -1}, {ingest: []int{7}, crash: -1}}})
			}
		}
		for i := 0; i < o.Pick(6, 500); i++ {
			var s scenario
			next := 10
			for r, n := 0, rng.Range(2, 4); r < n; r++ {
				rd := round{crash: -1}
				for j, m := 0, rng.Intn(3); j < m; j++ {
					if rng.Chance(1, 5) {
						rd.ingest = append(rd.ingest, 5000+next) // long own tokens
					} else {
						rd.ingest = append(rd.ingest, next)
					}
					next++
				}
				if rng.Chance(1, 4) {
					rd.par = [2]int{next, next + 1}
					next += 2
				}
				if len(rd.ingest) > 0 && rng.Chance(1, 3) {
					if base := rd.ingest[rng.Intn(len(rd.ingest))]; base < 1000 {
						rd.ingest = append(rd.ingest, 1000+base)
					}
				}
				rd.seal = rng.Chance(1, 6)
				if rng.Chance(1, 8) {
					rd.glue = [2]int{2000 + next, 2001 + next}
					next += 2
				}
				if rng.Chance(1, 6) {
					rd.xb, rd.xm = next, rng.Range(1, 3)
					next++
					if rd.xm == 3 { // the process ends inside the held seal: nothing else happens in this round
						rd.seal = false
					}
				}
				if rd.xm != 3 && rng.Chance(2, 3) {
					rd.crash, rd.point, rd.k = next, rng.Range(1, 7), -1
					next++
					if rd.point == 2 || rd.point == 5 {
						rd.k = []int{0, 1, 33, 40, rng.Intn(120), -1}[rng.Intn(6)]
					}
				}
				s.rounds = append(s.rounds, rd)
			}
			scs = append(scs, s)
		}
	}
	type result struct {
		f []finding
		t []string
		o sysObs
	}
	results := make([]result, len(scs))
	sem := make(chan struct{}, 8)
	var wg sync.WaitGroup
	for i := range scs {
		wg.Add(1)
		sem <- struct{}{}
		go func(i int) {
			defer wg.Done()
			f, t, ob := runScenario(scs[i])
			results[i] = result{f, t, ob}
			<-sem
		}(i)
	}
	wg.Wait()
	ch := vh.NewChannel("sys.present", "the histories of the crash-restart oracle, translated to model events over the real zstd-compressed "+
		"blocks of their bulks (ingest = bulk, exit at point 1 = crash before any byte, 2 = docs block cut at k, 3/4 = docs complete and no meta, "+
		"5 = meta block cut at k, 6/7 = both complete but unacknowledged, process end without crash = restart); compared: the store is up after the "+
		"final restart and, per bulk ever attempted, whether the real store serves it wholly (search by bulk token and per-document token, fetch "+
		"of every ID byte for byte) or not at all, against `present` of the model. Non-trivial: the history contains a crash")
	seen := map[string]bool{}
	for i, s := range scs {
		if ob := results[i].o; ob.reached && (fix || ob.up) && len(ob.bulks) > 0 {
			var qs, states []string
			for _, b := range ob.bulks {
				if b >= 2000 {
					continue
				}
				d, m := bulkBlocks(b)
				qs = append(qs, vh.Hex(d)+":"+vh.Hex(m))
				st := ob.state[b]
				if st == "" {
					st = "?"
				}
				states = append(states, st)
			}
			hasCrash := false
			for _, r := range s.rounds {
				hasCrash = hasCrash || r.crash >= 0
			}
			ch.Add(fmt.Sprintf("wp.present %s %s %s", vh.B(fix), modelHistory(s), strings.Join(qs, ";")),
				fmt.Sprintf("ok up=%s present=%s", vh.B(ob.up), strings.Join(states, ",")), hasCrash, fmt.Sprintf("bulks=%d", len(ob.bulks)))
		} else {
			ch.Tag("skipped-store-down-or-point-not-reached")
		}
		nt := false
		for _, r := range s.rounds {
			if r.crash >= 0 {
				nt = true
			}
		}
		or.Case(s.String(), nt, results[i].t...)
		for _, f := range results[i].f {
			or.Distribution["violation:"+f.class]++
			if seen[f.class] {
				continue
			}
			seen[f.class] = true
			rep.Violate(vh.Violation{Site: siteOf(f.class), Class: f.class, What: f.what, Replay: []string{s.String()}})
		}
	}
	return or, ch
}

// ------------------------------------------------------------------ oracle fw.groupcommit: concurrent writers on the real FileWriter

type fakeFile struct {
	clock  *atomic.Int64
	mu     sync.Mutex
	writes map[int64][2]int64 // offset -> (len, time the WriteAt finished)
	syncs  [][2]int64         // (start, end)
}

func (f *fakeFile) WriteAt(p []byte, off int64) (int, error) {
	runtime.Gosched()
	t := f.clock.Add(1)
	f.mu.Lock()
	f.writes[off] = [2]int64{int64(len(p)), t}
	f.mu.Unlock()
	return len(p), nil
}

func (f *fakeFile) Sync() error {
	s := f.clock.Add(1)
	runtime.Gosched()
	e := f.clock.Add(1)
	f.mu.Lock()
	f.syncs = append(f.syncs, [2]int64{s, e})
	f.mu.Unlock()
	return nil
}

// Every Write that returned must be covered by an fsync that started after its WriteAt finished and ended before the
// return, and the reserved ranges must tile the file.  Both facts hold for every schedule.
func oracleGroupCommit(o vh.Opts, rng *vh.RNG, rep *vh.Report) *vh.Oracle {
	or := vh.NewOracle("fw.groupcommit", "g goroutines x w writes of random sizes on the real frac.FileWriter over a recording WriteAt/Sync fake with a "+
		"logical clock; asserted for every schedule: each returned Write is covered by a Sync that started after its WriteAt finished and finished "+
		"before the return; the reserved ranges are disjoint and tile [0,total). Non-trivial: g >= 2")
	for i := 0; i < o.Pick(30, 300); i++ {
		g, w := rng.Range(1, 8), rng.Range(1, 20)
		sizes := make([][]int, g)
		for a := range sizes {
			for b := 0; b < w; b++ {
				sizes[a] = append(sizes[a], rng.Range(1, 64))
			}
		}
		var clock atomic.Int64
		ff := &fakeFile{clock: &clock, writes: map[int64][2]int64{}}
		fw := frac.NewFileWriter(ff, 0, false)
		type ret struct{ off, l, t int64 }
		rets := make([][]ret, g)
		var wg sync.WaitGroup
		for a := 0; a < g; a++ {
			wg.Add(1)
			go func(a int) {
				defer wg.Done()
				for _, n := range sizes[a] {
					off, err := fw.Write(make([]byte, n), stopwatch.New())
					must(err)
					rets[a] = append(rets[a], ret{off, int64(n), clock.Add(1)})
				}
			}(a)
		}
		wg.Wait()
		fw.Stop()
		line := fmt.Sprintf("fw g=%d w=%d case=%d", g, w, i)
		bad := ""
		var all []ret
		for _, rs := range rets {
			for _, r := range rs {
				all = append(all, r)
				wr, ok := ff.writes[r.off]
				if !ok || wr[0] != r.l {
					bad = "returned offset was not written with this length"
					continue
				}
				covered := false
				for _, s := range ff.syncs {
					if s[0] > wr[1] && s[1] < r.t {
						covered = true
					}
				}
				if !covered {
					bad = "ack-before-fsync"
				}
			}
		}
		sort.Slice(all, func(x, y int) bool { return all[x].off < all[y].off })
		next := int64(0)
		for _, r := range all {
			if r.off != next {
				bad = "reserved ranges overlap or leave a gap"
			}
			next = r.off + r.l
		}
		or.Case(line, g >= 2, fmt.Sprintf("goroutines=%d", g))
		if bad != "" {
			rep.Violate(vh.Violation{Site: "frac/file_writer.go:Write", Class: bad, What: "FileWriter.Write returned although " + bad, Replay: []string{line}})
			break
		}
	}
	return or
}

// ------------------------------------------------------------------ channel fw.trace: logged traces of the real FileWriter are paths of SV.FWr

type traceFile struct {
	mu        *sync.Mutex // guards log: one total order of all observed steps
	log       *[]string
	wrote     map[int64]int64 // offset -> len of every WriteAt seen
	failed    map[int64]bool
	nsync     int
	failEvery int
}

func (f *traceFile) WriteAt(p []byte, off int64) (int, error) {
	runtime.Gosched()
	f.mu.Lock()
	f.wrote[off] = int64(len(p))
	fail := p[0] == 1
	f.failed[off] = fail
	f.mu.Unlock()
	if fail {
		return 0, fmt.Errorf("scripted write error")
	}
	return len(p), nil
}

func (f *traceFile) Sync() error {
	f.mu.Lock()
	*f.log = append(*f.log, "b")
	f.nsync++
	fail := f.failEvery > 0 && f.nsync%f.failEvery == 0
	f.mu.Unlock()
	runtime.Gosched()
	f.mu.Lock()
	*f.log = append(*f.log, "e"+vh.B(!fail))
	f.mu.Unlock()
	if fail {
		return fmt.Errorf("scripted fsync error")
	}
	return nil
}

func chanFwTrace(o vh.Opts, rng *vh.RNG) *vh.Channel {
	ch := vh.NewChannel("fw.trace", "trace validation: g goroutines x w writes on the real frac.FileWriter over a fake file (scripted WriteAt and "+
		"fsync errors); every step is logged in one total order through the fw.* verif points (writeat, enqueue and take inside fs.mu, notify "+
		"before the channel send, wake, synced) and the fake's Sync begin/end; `reserve` steps are placed before the first write at or above "+
		"their offset (the atomic counter hands offsets out in ascending order); the driver checks that the logged trace is a path of the Lean "+
		"transition system SV.FWr, about whose paths c01_filewriter_* are proved. Schedules differ from run to run; counts do not. "+
		"Non-trivial: g >= 2")
	for i := 0; i < o.Pick(40, 400); i++ {
		g, w := rng.Range(1, 8), rng.Range(1, 12)
		start := int64(rng.Intn(1000))
		datas := make([][][]byte, g)
		for a := range datas {
			for b := 0; b < w; b++ {
				d := make([]byte, rng.Range(1, 64))
				if rng.Chance(1, 12) {
					d[0] = 1 // this WriteAt fails
				}
				datas[a] = append(datas[a], d)
			}
		}
		var mu sync.Mutex
		var log []string
		tf := &traceFile{mu: &mu, log: &log, wrote: map[int64]int64{}, failed: map[int64]bool{}, failEvery: []int{0, 0, 3, 5}[rng.Intn(4)]}
		add := func(s string) { mu.Lock(); log = append(log, s); mu.Unlock() }
		verifhook.Set(func(name, _ string, a []int64) {
			switch name {
			case "fw.writeat":
				mu.Lock()
				log = append(log, fmt.Sprintf("w%d:%s", a[0], vh.B(!tf.failed[a[0]])))
				mu.Unlock()
			case "fw.enqueue":
				add(fmt.Sprintf("q%d:%d", a[0], a[1]))
			case "fw.notify":
				add(fmt.Sprintf("n%d", a[0]))
			case "fw.wake":
				add("k")
			case "fw.take":
				add(fmt.Sprintf("t%d", a[0]))
			case "fw.synced":
				add(fmt.Sprintf("x%d:?", a[0]))
			}
		})
		fw := frac.NewFileWriter(tf, start, false)
		var resMu sync.Mutex
		result := map[int64]bool{}
		var wg sync.WaitGroup
		for a := 0; a < g; a++ {
			wg.Add(1)
			go func(a int) {
				defer wg.Done()
				for _, d := range datas[a] {
					off, err := fw.Write(d, stopwatch.New())
					if d[0] != 1 {
						resMu.Lock()
						result[off] = err == nil
						resMu.Unlock()
					}
				}
			}(a)
		}
		wg.Wait()
		fw.Stop()
		verifhook.Set(nil)
		// resolve the returned results, insert the reserve steps
		var offs []int64
		for off := range tf.wrote {
			offs = append(offs, off)
		}
		sort.Slice(offs, func(x, y int) bool { return offs[x] < offs[y] })
		next, rets := 0, 0
		var tr []string
		for _, l := range log {
			if l[0] == 'w' {
				var off int64
				fmt.Sscanf(l, "w%d:", &off)
				for next < len(offs) && offs[next] <= off {
					tr = append(tr, fmt.Sprintf("r%d:%d", offs[next], tf.wrote[offs[next]]))
					next++
				}
			}
			if l[0] == 'x' {
				var off int64
				fmt.Sscanf(l, "x%d:", &off)
				l = fmt.Sprintf("x%d:%s", off, vh.B(result[off]))
				rets++
			}
			tr = append(tr, l)
		}
		end := start
		for _, off := range offs {
			end = max(end, off+tf.wrote[off])
		}
		ch.Add(fmt.Sprintf("fw.check %d %s", start, strings.Join(tr, ",")), fmt.Sprintf("ok path rets=%d syncs=%d end=%d", rets, tf.nsync, end),
			g >= 2, fmt.Sprintf("goroutines=%d", g))
	}
	return ch
}

// ------------------------------------------------------------------ channel bulk.handler: the real GrpcV1.Bulk vs SV.BulkH

// one call of the real handler on a fresh store; what the environment does is scripted:
//
//	dead  0: live context; 1: cancelled before the call; 2: deadline already passed
//	refuse k > 0: the writer fraction is being sealed in place (held), so tries are refused; at the k-th refusal either
//	        the context is cancelled (thenAck = false) or the store rotates to a fresh fraction (thenAck = true)
func runHandlerCase(count int, limit uint64, dead, refuse int, thenAck bool) (impl string, tries int) {
	dir, err := os.MkdirTemp("", "c01-bulkh-")
	must(err)
	defer os.RemoveAll(dir)
	defer os.RemoveAll(dir + "-async")
	must(os.MkdirAll(dir+"-async", 0o777))
	fm := fracmanager.NewFracManager(&fracmanager.Config{DataDir: dir, FracSize: 1 << 30, TotalSize: 1 << 40})
	must(fm.Load(context.Background()))
	g := storeapi.VerifC01Grpc(fm, dir+"-async", limit)
	ctx, cancel := context.WithCancel(context.Background())
	defer cancel()
	switch dead {
	case 1:
		cancel()
	case 2:
		var c2 context.CancelFunc
		ctx, c2 = context.WithTimeout(ctx, 0)
		defer c2()
	}
	var enter, fails atomic.Int64
	held := make(chan struct{})
	verifhook.Set(func(name, _ string, _ []int64) {
		switch name {
		case "c07.pf.seal.begin":
			close(held)
			select {}
		case "c07.pf.append.enter":
			enter.Add(1)
		case "c07.pf.append.fail":
			if int(fails.Add(1)) == refuse {
				if thenAck {
					fm.SealForcedForTests() // the held fraction is empty: this only rotates to a writable one
				} else {
					cancel()
				}
			}
		}
	})
	defer verifhook.Set(nil)
	if refuse > 0 {
		go fracmanager.VerifC01SealActiveInPlace(fm)
		<-held
	}
	docs, metas := bulkBlocks(3)
	_, err = g.Bulk(ctx, &pstore.BulkRequest{Count: int64(count), Docs: docs, Metas: metas})
	tries = int(enter.Load())
	switch {
	case err == nil:
		// acknowledged: the documents must be there
		fm.WaitIdle()
		res, ferr := fracmanager.NewFetcher(1).FetchDocs(context.Background(), fm.GetAllFracs(), []seq.IDSource{{ID: bulkDocs(3)[0].id}})
		if ferr != nil || len(res) != 1 || !bytes.Equal(res[0], bulkDocs(3)[0].body) {
			return "ok-but-not-stored", tries
		}
		return fmt.Sprintf("ok %d", tries-1), tries
	case err == context.Canceled || err == context.DeadlineExceeded:
		return "err ctx", tries
	case strings.Contains(err.Error(), "wrong protocol"):
		return "err proto", tries
	case strings.Contains(err.Error(), "too many bulk requests"):
		return "err limit", tries
	}
	return "err other: " + err.Error(), tries
}

func chanBulkHandler(o vh.Opts, rng *vh.RNG) *vh.Channel {
	ch := vh.NewChannel("bulk.handler", "one call of the real storeapi.GrpcV1.Bulk on a fresh FracManager under a scripted environment: request count 0 "+
		"or >0, in-flight limit 0 or 64, context live / cancelled before the call / deadline passed / cancelled at the k-th refused try, "+
		"writer fraction writable / being sealed in place (tries refused) / rotated to a writable one at the k-th refusal; compared with "+
		"SV.BulkH.doBulk: OK with the index of the acknowledged try (and the document is fetched back), or the kind of error. Exhaustive "+
		"over the scripted environments with k <= 3 (+ random k in the thorough tier). Non-trivial: at least one try was made or refused")
	type c struct {
		count        int
		limit        uint64
		dead, refuse int
		thenAck      bool
	}
	var cases []c
	for _, count := range []int{0, 2} {
		for _, limit := range []uint64{0, 64} {
			for dead := 0; dead <= 2; dead++ {
				cases = append(cases, c{count, limit, dead, 0, false})
			}
		}
	}
	for k := 1; k <= 3; k++ {
		cases = append(cases, c{2, 64, 0, k, false}, c{2, 64, 0, k, true}, c{2, 64, 1, k, true})
	}
	for i := 0; i < o.Pick(0, 40); i++ {
		cases = append(cases, c{2, 64, 0, rng.Range(4, 60), rng.Bool()})
	}
	for _, x := range cases {
		impl, tries := runHandlerCase(x.count, x.limit, x.dead, x.refuse, x.thenAck)
		cx, ak := "-", "-"
		switch {
		case x.dead > 0:
			cx = "0"
		case x.refuse > 0 && !x.thenAck:
			cx = strconv.Itoa(x.refuse)
		}
		switch {
		case x.refuse == 0:
			ak = "0"
		case x.thenAck:
			ak = strconv.Itoa(x.refuse)
		}
		ch.Add(fmt.Sprintf("bulk.h %d 1 %d %s %s", x.count, x.limit, cx, ak), impl, tries > 0,
			fmt.Sprintf("dead=%d", x.dead), fmt.Sprintf("refused=%d", min(x.refuse, 4)), "thenAck="+vh.B(x.thenAck))
	}
	ch.Exhaustive = true
	return ch
}

// ------------------------------------------------------------------ main

// limitAddressSpace makes an absurd allocation fail at once instead of keeping the kernel busy mapping terabytes
func limitAddressSpace() {
	lim := syscall.Rlimit{Cur: 24 << 30, Max: 24 << 30}
	_ = syscall.Setrlimit(syscall.RLIMIT_AS, &lim)
}

func main() {
	if len(os.Args) > 1 && os.Args[1] == "child" {
		limitAddressSpace()
		childMain(os.Args[2:])
		return
	}
	o := vh.ParseFlags()
	logger.SetLevel(zapcore.FatalLevel)
	conf.SkipFsync = true // component channels build their crash states from snapshots; the child processes keep fsync on
	rep := vh.NewReport("C01", o)

	var replayOps []string
	if o.Replay != "" {
		path := o.Replay
		if _, err := os.Stat(path); err != nil && !filepath.IsAbs(path) {
			path = filepath.Join(os.Getenv("VERIF_ROOT"), path)
		}
		ops, err := vh.ReadReplay(path)
		must(err)
		replayOps = ops
	}
	fix := detectFix()
	worker := os.Getenv("VERIF_C01_WORKER") == "1"
	if worker {
		limitAddressSpace()
	}
	if !worker {
		rep.Note("start-up of the code under test: %s (model `restart %v`)", map[bool]string{true: "cuts incomplete tails (repaired)", false: "keeps incomplete tails"}[fix], fix)
	}
	// every random choice of a channel derives from the seed and the channel's name, whichever channels run
	rngFor := func(name string) *vh.RNG {
		h := int64(0)
		for _, c := range name {
			h = h*131 + int64(c)
		}
		return vh.NewRNG(o.Seed*1000003 + h)
	}
	comps := o.Replay == "" || hasPrefix(replayOps, "wp.run") || hasPrefix(replayOps, "replay")
	inproc := []struct {
		name string
		on   bool
		run  func()
	}{
		{"replay", comps, func() { rep.AddChannel(chanReplay(o, rngFor("replay")), o.Driver) }},
		{"wp.run", comps, func() { rep.AddChannel(chanRun(o, rngFor("wp.run"), fix), o.Driver) }},
		{"index", comps, func() { rep.AddChannel(chanIndex(o, rngFor("index"), fix, 1), o.Driver) }},
		{"index.k", comps, func() { rep.AddChannel(chanIndex(o, rngFor("index.k"), fix, 4), o.Driver) }},
		{"bulk.handler", o.Replay == "", func() { rep.AddChannel(chanBulkHandler(o, rngFor("bulk.handler")), o.Driver) }},
		{"fw.trace", o.Replay == "", func() { rep.AddChannel(chanFwTrace(o, rngFor("fw.trace")), o.Driver) }},
		{"fw.groupcommit", o.Replay == "" || hasPrefix(replayOps, "fw "), func() { rep.AddOracle(oracleGroupCommit(o, rngFor("fw.groupcommit"), rep)) }},
	}
	// The in-process channels call the code under test inside this binary. A changed tree can make that fatal for the
	// process (e.g. an impossible allocation while parsing garbage), so each of them runs in a worker process of its
	// own; a worker that dies is a broken channel, and the crash-restart oracle below still runs and locates the input.
	for _, c := range inproc {
		switch {
		case o.Only == c.name || (worker && o.Only == ""):
			c.run()
		case o.Only == "" && c.on:
			runWorker(c.name, o, rep)
		}
	}
	if (o.Only == "" && !worker && (o.Replay == "" || hasPrefix(replayOps, "hist"))) || o.Only == "crash-restart" {
		conf.SkipFsync = false
		or, ch := oracleCrashRestart(o, rngFor("crash-restart"), rep, filterPrefix(replayOps, "hist"), fix)
		rep.AddOracle(or)
		rep.AddChannel(ch, o.Driver)
	}
	rep.Write(o.Out)
}

// runWorker executes one in-process channel in a child of this binary and merges its report
func runWorker(name string, o vh.Opts, rep *vh.Report) {
	self, err := os.Executable()
	must(err)
	tmp, err := os.CreateTemp("", "c01-worker-*.json")
	must(err)
	tmp.Close()
	defer os.Remove(tmp.Name())
	args := []string{"-tier", o.Tier, "-seed", strconv.FormatInt(o.Seed, 10), "-driver", o.Driver, "-out", tmp.Name(), "-only", name}
	if o.Replay != "" {
		args = append(args, "-replay", o.Replay)
	}
	cmd := exec.Command(self, args...)
	cmd.Env = append(os.Environ(), "VERIF_C01_WORKER=1")
	var se bytes.Buffer
	cmd.Stderr = &se
	runErr := cmd.Run()
	var sub vh.Report
	if b, err := os.ReadFile(tmp.Name()); runErr == nil && err == nil && json.Unmarshal(b, &sub) == nil {
		rep.Channels = append(rep.Channels, sub.Channels...)
		rep.Oracles = append(rep.Oracles, sub.Oracles...)
		for _, v := range sub.Violations {
			rep.Violate(v)
		}
		rep.Notes = append(rep.Notes, sub.Notes...)
		return
	}
	why := ""
	for _, l := range strings.Split(se.String(), "\n") {
		if strings.HasPrefix(l, "fatal error:") || strings.HasPrefix(l, "panic:") {
			why = l
			break
		}
	}
	if why == "" {
		why = lastLine(se.String())
	}
	rep.Channels = append(rep.Channels, &vh.Channel{Name: name, Rule: "in-process channel (worker process)", Distribution: map[string]int{},
		Error: fmt.Sprintf("the code under test killed the worker process of this channel (%v): %s", runErr, why)})
}

func hasPrefix(ops []string, p string) bool { return len(filterPrefix(ops, p)) > 0 }

func filterPrefix(ops []string, p string) []string {
	var r []string
	for _, l := range ops {
		if strings.HasPrefix(l, p) {
			r = append(r, l)
		}
	}
	return r
}
