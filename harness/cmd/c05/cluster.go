// End-to-end oracle of C05 over real stores and the real proxy (thorough tier; a few cases in the quick tier):
//
//	cluster docs=<mid:rid:svc,...> shard=<shard index per document> reps=<r> groups=<fractions per store, shard-major>
//	        q=<a|*> desc=<0|1> hi=<n> pages=<s0,s1,...>
//
// Every (shard, replica) is a real storeapi.Store (FracManager + GrpcV1) reached through storeapi.NewClient; the
// replicas of a shard hold the same documents in DIFFERENT fraction layouts and with different
// FractionsPerIteration; replica 0 of every odd shard is down.  The real search.Ingestor is asked page after page
// (offset = sum of the previous sizes): the concatenated pages must be the prefix of the single ordered list, and
// total / histogram of every answer must be those of the whole corpus.
package main

import (
	"context"
	"errors"
	"fmt"
	"math"
	"os"
	"path/filepath"
	"strings"
	"time"

	"google.golang.org/grpc"

	"github.com/ozontech/seq-db/frac"
	"github.com/ozontech/seq-db/frac/processor"
	"github.com/ozontech/seq-db/fracmanager"
	"github.com/ozontech/seq-db/mappingprovider"
	pb "github.com/ozontech/seq-db/pkg/storeapi"
	"github.com/ozontech/seq-db/proxy/search"
	"github.com/ozontech/seq-db/proxy/stores"
	"github.com/ozontech/seq-db/seq"
	"github.com/ozontech/seq-db/storeapi"

	"verifharness/internal/vh"
)

type downClient struct{ pb.StoreApiClient }

func (downClient) Search(context.Context, *pb.SearchRequest, ...grpc.CallOption) (*pb.SearchResponse, error) {
	return nil, errors.New("replica down")
}

type clusterResp struct {
	Pages string `json:"pages"` // concatenated page IDs
	Want  string `json:"want"`
	Meta  string `json:"meta"` // total/hist of every page answer, if they differ from the expectation
	Err   string `json:"err,omitempty"`
}

func runCluster(root, line string) (resp clusterResp) {
	defer func() {
		if r := recover(); r != nil {
			resp.Err = "panic: " + fmt.Sprint(r)
		}
	}()
	m := kv(strings.Fields(line)[1:])
	var docs []sdoc
	for _, e := range splitList(m["docs"], ",") {
		p := strings.Split(e, ":")
		docs = append(docs, sdoc{seq.ID{MID: seq.MID(atou(p[0])), RID: seq.RID(atou(p[1]))}, p[2]})
	}
	var shardOf []int
	nShards := 0
	for _, e := range splitList(m["shard"], ",") {
		shardOf = append(shardOf, atoi(e))
		nShards = max(nShards, atoi(e)+1)
	}
	reps := atoi(m["reps"])
	var groups []int
	for _, e := range splitList(m["groups"], ",") {
		groups = append(groups, atoi(e))
	}
	mp, err := mappingprovider.New("", mappingprovider.WithMapping(seq.TestMapping))
	if err != nil {
		resp.Err = "mapping: " + err.Error()
		return
	}
	dir, _ := mkTemp(root)
	clients := map[string]pb.StoreApiClient{}
	var hosts [][]string
	var all []*storeapi.Store
	defer func() {
		for _, s := range all {
			func() {
				defer func() { recover() }()
				s.FracManager.WaitIdle()
				s.FracManager.Stop()
			}()
		}
	}()
	for s := 0; s < nShards; s++ {
		var hs []string
		for r := 0; r < reps; r++ {
			host := fmt.Sprintf("s%d-r%d", s, r)
			hs = append(hs, host)
			if s%2 == 1 && r == 0 && reps > 1 {
				clients[host] = downClient{}
				continue
			}
			idx := s*reps + r
			os.MkdirAll(filepath.Join(dir, host), 0o755)
			st, err := storeapi.NewStore(context.Background(), storeapi.StoreConfig{
				FracManager: fracmanager.Config{DataDir: filepath.Join(dir, host), FracSize: 1 << 30, TotalSize: 1 << 40, MaintenanceDelay: time.Hour},
				API: storeapi.APIConfig{StoreMode: storeapi.StoreModeCold,
					Search: storeapi.SearchConfig{WorkersCount: 4, FractionsPerIteration: 1 + idx%3}},
			}, mp)
			if err != nil {
				resp.Err = "store: " + err.Error()
				return
			}
			all = append(all, st)
			g := max(1, groups[idx%len(groups)])
			byGroup := make([][]sdoc, g)
			for i, d := range docs {
				if shardOf[i] == s || (strings.HasPrefix(m["dup"], "1") && i == 0) { // dup=1: document 0 lives on every shard
					byGroup[(i+r)%g] = append(byGroup[(i+r)%g], d)
				}
			}
			for gi, ds := range byGroup {
				if err := appendDocs(st.FracManager, ds); err != nil {
					resp.Err = "append: " + err.Error()
					return
				}
				if gi < g-1 || (idx%2 == 0) {
					st.FracManager.SealForcedForTests()
				}
			}
			clients[host] = storeapi.NewClient(st)
		}
		hosts = append(hosts, hs)
	}
	ing := search.NewIngestor(search.Config{HotStores: &stores.Stores{Shards: hosts}}, clients)
	query := "service:" + m["q"]
	if m["q"] == "*" {
		query = seq.TokenAll + ":*"
	}
	desc, hi := m["desc"] == "1", atou(m["hi"])
	var match []seq.ID
	for _, d := range docs {
		if m["q"] == "*" || d.svc == m["q"] {
			match = append(match, d.id)
		}
	}
	full := specSearch(match, processor.SearchParams{Limit: math.MaxInt32, WithTotal: true, HistInterval: hi, Order: order(desc)})
	wantMeta := fmt.Sprintf("%d/%s", full.Total, fmtHist(specAnswer(match, desc, true, hi, 0).Histogram))
	var got []seq.ID
	offset, sum := 0, 0
	for _, e := range splitList(m["pages"], ",") {
		size := atoi(e)
		sr := &search.SearchRequest{Q: []byte(query), Offset: offset, Size: size, Interval: seq.MID(hi), From: 0, To: math.MaxUint64,
			WithTotal: true, ShouldFetch: false, Order: order(desc)}
		qpr, _, _, err := ing.Search(context.Background(), sr, nil)
		if err != nil {
			resp.Err = "search: " + err.Error()
			return
		}
		got = append(got, qpr.IDs.IDs()...)
		if meta := fmt.Sprintf("%d/%s", qpr.Total, fmtHist(qpr.Histogram)); meta != wantMeta && m["dup"] != "1" {
			resp.Meta = fmt.Sprintf("page offset=%d size=%d: %s, expected %s", offset, size, meta, wantMeta)
		}
		offset += size
		sum += size
	}
	ids := full.IDs.IDs()
	resp.Pages, resp.Want = fmtIDs(got), fmtIDs(ids[:min(sum, len(ids))])
	return
}

func mkTemp(root string) (string, error) {
	d := filepath.Join(root, fmt.Sprintf("cl%d", time.Now().UnixNano()))
	return d, nil
}

func genCluster(g gen, o vh.Opts) []string {
	var lines []string
	svcs := []string{"a", "a", "b"}
	for c := 0; c < o.Pick(30, 300); c++ {
		n := g.r.Range(1, 30)
		maxMid := []int{8, 40}[g.r.Intn(2)]
		n = min(n, 2*maxMid-1)
		nShards, reps := g.r.Range(1, 3), g.r.Range(1, 3)
		seen := map[seq.ID]bool{}
		var docs, shard []string
		for len(docs) < n {
			id := seq.ID{MID: seq.MID(1 + g.r.Intn(maxMid)), RID: seq.RID(g.r.Intn(2))}
			if seen[id] {
				continue
			}
			seen[id] = true
			docs = append(docs, fmt.Sprintf("%d:%d:%s", id.MID, id.RID, svcs[g.r.Intn(len(svcs))]))
			shard = append(shard, fmt.Sprint(g.r.Intn(nShards)))
		}
		shard[0] = fmt.Sprint(nShards - 1) // every shard index up to nShards-1 exists
		var groups, pages []string
		for i := 0; i < nShards*reps; i++ {
			groups = append(groups, fmt.Sprint(g.r.Range(1, 4)))
		}
		for i := 0; i < g.r.Range(1, 4); i++ {
			pages = append(pages, fmt.Sprint(g.r.Intn(6)))
		}
		lines = append(lines, fmt.Sprintf("cluster docs=%s shard=%s reps=%d groups=%s dup=%s q=%s desc=%s hi=%d pages=%s",
			strings.Join(docs, ","), strings.Join(shard, ","), reps, strings.Join(groups, ","), b(g.r.Chance(1, 5)),
			[]string{"a", "*"}[g.r.Intn(2)], b(g.r.Bool()), []int{0, 1, 5}[g.r.Intn(3)], strings.Join(pages, ",")))
	}
	return lines
}

var _ = frac.NewDocProvider
