// C05 harness.  Every case is one operation line (the same line is the request to the Lean driver, the replay
// format and the input of the real code):
//
//	merge / ensured / sortfracs / filter / paginate : seq.MergeQPRs, calcEnsuredIDsCount, List.Sort,
//	      List.FilterInRange, Ingestor.paginateIDs against SV.Merge.* (correspondence channels)
//	searchdocs : the real Searcher.SearchDocs loop over scripted frac.Fraction fakes (Info + specified Search
//	      answers, the limit each fraction is asked for is the real one) against SV.Merge.searchDocs
//	proxymerge : the real search.Ingestor.Search over scripted StoreApiClient fakes against SV.Merge.proxyMerge
//	sys : system oracle (sys.go): a corpus ingested into ONE real fraction and into k real fractions
//	      (active/sealed mixed, overlapping ranges) of a real FracManager, searched with the real Searcher for
//	      every FractionsPerIteration; the k-fraction answer must equal the one-fraction answer (the property),
//	      and is also compared with SV.Merge.searchDocs fed with the real fractions' Info (channel searchdocs.real).
package main

import (
	"context"
	"errors"
	"fmt"
	"math"
	"os"
	"sort"
	"strconv"
	"strings"
	"sync"
	"time"

	"go.uber.org/zap"
	"google.golang.org/grpc"

	"github.com/ozontech/seq-db/consts"
	"github.com/ozontech/seq-db/frac"
	"github.com/ozontech/seq-db/frac/processor"
	"github.com/ozontech/seq-db/fracmanager"
	"github.com/ozontech/seq-db/logger"
	"github.com/ozontech/seq-db/pkg/storeapi"
	"github.com/ozontech/seq-db/proxy/search"
	"github.com/ozontech/seq-db/proxy/stores"
	"github.com/ozontech/seq-db/seq"

	"verifharness/internal/vh"
)

// ---------------------------------------------------------------- canonical text forms

func fmtIDs(ids []seq.ID) string {
	if len(ids) == 0 {
		return "-"
	}
	var sb strings.Builder
	for i, id := range ids {
		if i > 0 {
			sb.WriteByte(',')
		}
		fmt.Fprintf(&sb, "%d:%d", uint64(id.MID), uint64(id.RID))
	}
	return sb.String()
}

func fmtHist(h map[seq.MID]uint64) string {
	if h == nil {
		return "nil"
	}
	if len(h) == 0 {
		return "-"
	}
	ks := make([]uint64, 0, len(h))
	for k := range h {
		ks = append(ks, uint64(k))
	}
	sort.Slice(ks, func(i, j int) bool { return ks[i] < ks[j] })
	var sb strings.Builder
	for i, k := range ks {
		if i > 0 {
			sb.WriteByte(',')
		}
		fmt.Fprintf(&sb, "%d=%d", k, h[seq.MID(k)])
	}
	return sb.String()
}

func fmtQPR(q *seq.QPR) string {
	return fmtIDs(q.IDs.IDs()) + "/" + strconv.FormatUint(q.Total, 10) + "/" + fmtHist(q.Histogram)
}

func splitList(s, sep string) []string {
	if s == "-" || s == "" {
		return nil
	}
	return strings.Split(s, sep)
}

func parseIDs(s string) ([]seq.ID, error) {
	var res []seq.ID
	for _, e := range splitList(s, ",") {
		mr := strings.Split(e, ":")
		if len(mr) != 2 {
			return nil, fmt.Errorf("bad id %q", e)
		}
		m, err1 := strconv.ParseUint(mr[0], 10, 64)
		r, err2 := strconv.ParseUint(mr[1], 10, 64)
		if err1 != nil || err2 != nil {
			return nil, fmt.Errorf("bad id %q", e)
		}
		res = append(res, seq.ID{MID: seq.MID(m), RID: seq.RID(r)})
	}
	return res, nil
}

func parseHist(s string) (map[seq.MID]uint64, error) {
	if s == "nil" {
		return nil, nil
	}
	h := map[seq.MID]uint64{}
	for _, e := range splitList(s, ",") {
		kv := strings.Split(e, "=")
		if len(kv) != 2 {
			return nil, fmt.Errorf("bad hist entry %q", e)
		}
		k, err1 := strconv.ParseUint(kv[0], 10, 64)
		v, err2 := strconv.ParseUint(kv[1], 10, 64)
		if err1 != nil || err2 != nil {
			return nil, fmt.Errorf("bad hist entry %q", e)
		}
		h[seq.MID(k)] = v
	}
	return h, nil
}

func parseQPR(s string) (*seq.QPR, error) {
	p := strings.Split(s, "/")
	if len(p) != 3 {
		return nil, fmt.Errorf("bad qpr %q", s)
	}
	ids, err := parseIDs(p[0])
	if err != nil {
		return nil, err
	}
	total, err := strconv.ParseUint(p[1], 10, 64)
	if err != nil {
		return nil, err
	}
	h, err := parseHist(p[2])
	if err != nil {
		return nil, err
	}
	q := &seq.QPR{Total: total, Histogram: h}
	for i, id := range ids {
		q.IDs = append(q.IDs, seq.IDSource{ID: id, Source: uint64(i % 3), Hint: "h"})
	}
	return q, nil
}

func parseQPRs(s string) ([]*seq.QPR, error) {
	var res []*seq.QPR
	for _, e := range splitList(s, ";") {
		q, err := parseQPR(e)
		if err != nil {
			return nil, err
		}
		res = append(res, q)
	}
	return res, nil
}

func order(desc bool) seq.DocsOrder {
	if desc {
		return seq.DocsOrderDesc
	}
	return seq.DocsOrderAsc
}

func atoi(s string) int {
	v, err := strconv.Atoi(s)
	if err != nil {
		panic("bad int " + s)
	}
	return v
}

func atou(s string) uint64 {
	v, err := strconv.ParseUint(s, 10, 64)
	if err != nil {
		panic("bad uint " + s)
	}
	return v
}

// ---------------------------------------------------------------- fakes

// fakeFrac is what SearchDocs sees of a fraction: Info() and a DataProvider whose Search answers as specified
// (first Limit distinct matching IDs in the requested order, number of matching documents, histogram).
type fakeFrac struct {
	frac.Fraction
	info *frac.Info
	docs []seq.ID // matching documents (already restricted to the request range)
	mu   *sync.Mutex
	log  *[]string
	idx  int
}

func (f *fakeFrac) Info() *frac.Info                       { return f.info }
func (f *fakeFrac) IsIntersecting(from, to seq.MID) bool   { return f.info.IsIntersecting(from, to) }
func (f *fakeFrac) Contains(mid seq.MID) bool              { return f.info.IsIntersecting(mid, mid) }
func (f *fakeFrac) Suicide()                               {}
func (f *fakeFrac) DataProvider(context.Context) (frac.DataProvider, func()) {
	return fakeDP{f}, func() {}
}

type fakeDP struct{ f *fakeFrac }

func (d fakeDP) Fetch([]seq.ID) ([][]byte, error) { return nil, nil }

func specSearch(docs []seq.ID, p processor.SearchParams) *seq.QPR {
	sorted := append([]seq.ID(nil), docs...)
	sort.Slice(sorted, func(i, j int) bool {
		if p.Order.IsReverse() {
			return seq.Less(sorted[i], sorted[j])
		}
		return seq.Less(sorted[j], sorted[i])
	})
	q := &seq.QPR{IDs: seq.IDSources{}}
	for i, id := range sorted {
		if len(q.IDs) >= p.Limit {
			break
		}
		if i > 0 && sorted[i-1] == id {
			continue
		}
		q.IDs = append(q.IDs, seq.IDSource{ID: id})
	}
	if p.WithTotal {
		q.Total = uint64(len(docs))
	}
	if p.HistInterval > 0 {
		q.Histogram = map[seq.MID]uint64{}
		for _, id := range docs {
			q.Histogram[id.MID-id.MID%seq.MID(p.HistInterval)]++
		}
	}
	if len(p.AggQ) > 0 {
		q.Aggs = make([]seq.AggregatableSamples, len(p.AggQ))
	}
	return q
}

func (d fakeDP) Search(p processor.SearchParams) (*seq.QPR, error) {
	if d.f.mu != nil {
		d.f.mu.Lock()
		*d.f.log = append(*d.f.log, fmt.Sprintf("%d:%d", d.f.idx, p.Limit))
		d.f.mu.Unlock()
	}
	return specSearch(d.f.docs, p), nil
}

// frac text: <docsTotal>/<from>/<to>/<ids>
func parseFrac(s string, idx int) (*fakeFrac, error) {
	p := strings.Split(s, "/")
	if len(p) != 4 {
		return nil, fmt.Errorf("bad frac %q", s)
	}
	ids, err := parseIDs(p[3])
	if err != nil {
		return nil, err
	}
	info := frac.NewInfo(fmt.Sprintf("fake-%d", idx), 0, 0)
	info.DocsTotal = uint32(atou(p[0]))
	info.From = seq.MID(atou(p[1]))
	info.To = seq.MID(atou(p[2]))
	return &fakeFrac{info: info, docs: ids, idx: idx}, nil
}

// <from>:<to> or <docsTotal>:<from>:<to>
func parseFT(s string, idx int) *fakeFrac {
	p := strings.Split(s, ":")
	info := frac.NewInfo(fmt.Sprintf("fake-%d", idx), 0, 0)
	info.DocsTotal = 1
	if len(p) == 3 {
		info.DocsTotal = uint32(atou(p[0]))
		p = p[1:]
	}
	info.From, info.To = seq.MID(atou(p[0])), seq.MID(atou(p[1]))
	return &fakeFrac{info: info, idx: idx}
}

type fakeStore struct {
	storeapi.StoreApiClient
	resp *storeapi.SearchResponse
	err  error
}

func (s *fakeStore) Search(context.Context, *storeapi.SearchRequest, ...grpc.CallOption) (*storeapi.SearchResponse, error) {
	return s.resp, s.err
}

func qprToResp(q *seq.QPR) *storeapi.SearchResponse {
	r := &storeapi.SearchResponse{Total: q.Total}
	for _, id := range q.IDs {
		r.IdSources = append(r.IdSources, &storeapi.SearchResponse_IdWithHint{Id: &storeapi.SearchResponse_Id{Mid: uint64(id.ID.MID), Rid: uint64(id.ID.RID)}})
	}
	if q.Histogram != nil {
		r.Histogram = map[uint64]uint64{}
		for k, v := range q.Histogram {
			r.Histogram[uint64(k)] = v
		}
	}
	return r
}

// ---------------------------------------------------------------- running one operation on the real code

func runOp(line string) (res string) {
	f := strings.Fields(line)
	defer func() {
		if r := recover(); r != nil {
			msg := fmt.Sprint(r)
			if strings.Contains(msg, "nil map") {
				res = "panic nil-map"
			} else {
				res = "panic " + strings.ReplaceAll(msg, " ", "_")
			}
		}
	}()
	switch f[0] {
	case "mergeaggs":
		return runMergeAggs(line)
	case "merge": // merge <desc> <limit> <hi> <dst> <qprs>
		dst, err := parseQPR(f[4])
		if err != nil {
			return "bad-op"
		}
		qs, err := parseQPRs(f[5])
		if err != nil {
			return "bad-op"
		}
		seq.MergeQPRs(dst, qs, atoi(f[2]), seq.MID(atou(f[3])), order(f[1] == "1"))
		return "ok " + fmtQPR(dst)
	case "ensured": // ensured <desc> <ids> <from:to,...>
		ids, err := parseIDs(f[2])
		if err != nil {
			return "bad-op"
		}
		var src seq.IDSources
		for _, id := range ids {
			src = append(src, seq.IDSource{ID: id})
		}
		var rest fracmanager.List
		for i, e := range splitList(f[3], ",") {
			rest = append(rest, parseFT(e, i))
		}
		return fmt.Sprintf("ok %d", fracmanager.VerifCalcEnsuredIDsCount(src, rest, order(f[1] == "1")))
	case "sortfracs": // sortfracs <desc> <from:to,...>
		var l fracmanager.List
		for i, e := range splitList(f[2], ",") {
			l = append(l, parseFT(e, i))
		}
		l.Sort(order(f[1] == "1"))
		var keys []uint64
		for _, fr := range l {
			if f[1] == "1" {
				keys = append(keys, uint64(fr.Info().To))
			} else {
				keys = append(keys, uint64(fr.Info().From))
			}
		}
		return "ok " + vh.JoinInts(keys)
	case "filter": // filter <from> <to> <docsTotal:from:to,...>
		var l fracmanager.List
		for i, e := range splitList(f[3], ",") {
			l = append(l, parseFT(e, i))
		}
		var kept []int
		for _, fr := range l.FilterInRange(seq.MID(atou(f[1])), seq.MID(atou(f[2]))) {
			kept = append(kept, fr.(*fakeFrac).idx)
		}
		return "ok " + vh.JoinInts(kept)
	case "paginate": // paginate <offset> <size> <ids>
		ids, err := parseIDs(f[3])
		if err != nil {
			return "bad-op"
		}
		var src seq.IDSources
		for _, id := range ids {
			src = append(src, seq.IDSource{ID: id})
		}
		out, size := search.VerifPaginateIDs(src, atoi(f[1]), atoi(f[2]))
		return fmt.Sprintf("ok %s %d", fmtIDs(out.IDs()), size)
	case "searchdocs":
		q, _, err := runSearchDocs(f)
		if err != nil {
			if errors.Is(err, consts.ErrTooManyFractionsHit) {
				return "err too-many-fractions"
			}
			return "err other"
		}
		return "ok " + fmtQPR(q)
	case "proxymerge": // proxymerge <desc> <offset> <size> <hi> <qprs>
		qs, err := parseQPRs(f[5])
		if err != nil {
			return "bad-op"
		}
		return runProxy(f[1] == "1", atoi(f[2]), atoi(f[3]), atou(f[4]), qs)
	}
	return "bad-op"
}

// searchdocs <desc> <withTotal> <hi> <hasAgg> <perIter> <maxHits> <from> <to> <limit> <fracs>
func runSearchDocs(f []string) (*seq.QPR, []string, error) {
	var l fracmanager.List
	var mu sync.Mutex
	var log []string
	from, to := seq.MID(atou(f[7])), seq.MID(atou(f[8]))
	for i, e := range splitList(f[10], ";") {
		fr, err := parseFrac(e, i)
		if err != nil {
			return nil, nil, err
		}
		fr.mu, fr.log = &mu, &log
		l = append(l, fr)
	}
	p := processor.SearchParams{
		HistInterval: atou(f[3]),
		From:         from,
		To:           to,
		Limit:        atoi(f[9]),
		WithTotal:    f[2] == "1",
		Order:        order(f[1] == "1"),
	}
	if f[4] == "1" {
		p.AggQ = []processor.AggQuery{{}}
	}
	s := fracmanager.NewSearcher(4, fracmanager.SearcherCfg{FractionsPerIteration: atoi(f[5]), MaxFractionHits: atoi(f[6])})
	q, err := s.SearchDocs(context.Background(), l, p)
	return q, log, err
}

func runProxy(desc bool, offset, size int, hi uint64, answers []*seq.QPR) string {
	clients := map[string]storeapi.StoreApiClient{}
	var shards [][]string
	for i, q := range answers {
		// replica 0 of every odd shard is down: the answer comes from replica 1
		h0, h1 := fmt.Sprintf("s%d-r0", i), fmt.Sprintf("s%d-r1", i)
		if i%2 == 1 {
			clients[h0] = &fakeStore{err: errors.New("replica down")}
			clients[h1] = &fakeStore{resp: qprToResp(q)}
		} else {
			clients[h0] = &fakeStore{resp: qprToResp(q)}
			clients[h1] = &fakeStore{resp: qprToResp(&seq.QPR{Total: 99999})} // must not be asked
		}
		shards = append(shards, []string{h0, h1})
	}
	ing := search.NewIngestor(search.Config{HotStores: &stores.Stores{Shards: shards}}, clients)
	sr := &search.SearchRequest{Q: []byte("service:a"), Offset: offset, Size: size, Interval: seq.MID(hi), From: 0, To: math.MaxUint64,
		WithTotal: true, ShouldFetch: false, Order: order(desc)}
	qpr, _, _, err := ing.Search(context.Background(), sr, nil)
	if err != nil {
		return "err other"
	}
	return "ok " + fmtQPR(qpr)
}

// ---------------------------------------------------------------- generators

type gen struct{ r *vh.RNG }

func (g gen) id(maxMid, maxRid int) seq.ID {
	return seq.ID{MID: seq.MID(g.r.Intn(maxMid + 1)), RID: seq.RID(g.r.Intn(maxRid + 1))}
}

func (g gen) ids(n, maxMid, maxRid int) []seq.ID {
	var res []seq.ID
	for i := 0; i < n; i++ {
		res = append(res, g.id(maxMid, maxRid))
	}
	return res
}

func sortIDs(ids []seq.ID, desc bool) {
	sort.Slice(ids, func(i, j int) bool {
		if desc {
			return seq.Less(ids[j], ids[i])
		}
		return seq.Less(ids[i], ids[j])
	})
}

func dedup(ids []seq.ID) []seq.ID {
	var res []seq.ID
	for i, id := range ids {
		if i == 0 || ids[i-1] != id {
			res = append(res, id)
		}
	}
	return res
}

func hasDup(lists ...[]seq.ID) bool {
	seen := map[seq.ID]bool{}
	for _, l := range lists {
		for _, id := range l {
			if seen[id] {
				return true
			}
			seen[id] = true
		}
	}
	return false
}

// a QPR like a fraction / store produces one: sorted distinct ids, total 0 or >= len, histogram consistent or nil
func (g gen) qprText(desc bool, hi int, withTotal bool, n, maxMid, maxRid int, sorted bool) (string, []seq.ID) {
	ids := g.ids(n, maxMid, maxRid)
	if sorted {
		sortIDs(ids, desc)
		ids = dedup(ids)
	}
	total := 0
	if withTotal {
		total = len(ids) + g.r.Intn(3)
	}
	hist := "nil"
	if hi > 0 && g.r.Chance(9, 10) {
		h := map[seq.MID]uint64{}
		for _, id := range ids {
			h[id.MID-id.MID%seq.MID(hi)]++
		}
		if g.r.Chance(1, 4) {
			h[seq.MID(g.r.Intn(maxMid+1))] += uint64(g.r.Intn(3))
		}
		hist = fmtHist(h)
	} else if g.r.Chance(1, 3) {
		hist = "-"
	}
	return fmt.Sprintf("%s/%d/%s", fmtIDs(ids), total, hist), ids
}

func b(v bool) string { return vh.B(v) }

func genMerge(g gen, ch *vh.Channel, n int) {
	for i := 0; i < n; i++ {
		desc := g.r.Bool()
		hi := []int{0, 0, 1, 2, 10}[g.r.Intn(5)]
		wt := g.r.Bool()
		maxMid := []int{3, 6, 30}[g.r.Intn(3)]
		sorted := g.r.Chance(4, 5)
		dst, dids := g.qprText(desc, hi, wt, g.r.Intn(5), maxMid, 1, sorted)
		if g.r.Chance(1, 2) {
			dst, dids = "-/0/-", nil
		}
		k := g.r.Range(0, 4)
		var qs []string
		lists := [][]seq.ID{dids}
		for j := 0; j < k; j++ {
			q, ids := g.qprText(desc, hi, wt, g.r.Intn(6), maxMid, 1, sorted)
			qs = append(qs, q)
			lists = append(lists, ids)
		}
		limit := g.r.Intn(8)
		if g.r.Chance(1, 5) {
			limit = 1000
		}
		line := fmt.Sprintf("merge %s %d %d %s %s", b(desc), limit, hi, dst, vh.JoinStrs(qs, ";"))
		ch.Add(line, runOp(line), hasDup(lists...), fmt.Sprintf("hi=%d", hi), "desc="+b(desc), fmt.Sprintf("inputs=%d", k), "dups="+b(hasDup(lists...)))
	}
}

// every pair of sorted distinct lists over a 4-element universe (with an MID tie), every limit, both orders
func exhMerge(ch *vh.Channel) {
	univ := []seq.ID{{MID: 1, RID: 0}, {MID: 2, RID: 0}, {MID: 2, RID: 1}, {MID: 5, RID: 0}}
	sub := func(m int, desc bool) []seq.ID {
		var r []seq.ID
		for i, id := range univ {
			if m>>i&1 == 1 {
				r = append(r, id)
			}
		}
		sortIDs(r, desc)
		return r
	}
	qtext := func(ids []seq.ID, hi int) string {
		h := map[seq.MID]uint64{}
		for _, id := range ids {
			h[id.MID-id.MID%seq.MID(hi)]++
		}
		return fmt.Sprintf("%s/%d/%s", fmtIDs(ids), len(ids), fmtHist(h))
	}
	for _, desc := range []bool{true, false} {
		for a := 0; a < 16; a++ {
			for c := 0; c < 16; c++ {
				for limit := 0; limit <= 4; limit++ {
					x, y := sub(a, desc), sub(c, desc)
					line := fmt.Sprintf("merge %s %d 2 -/0/- %s;%s", b(desc), limit, qtext(x, 2), qtext(y, 2))
					ch.Add(line, runOp(line), a&c != 0, "exhaustive-pairs")
					line = fmt.Sprintf("merge %s %d 2 %s %s", b(desc), limit, qtext(x, 2), qtext(y, 2))
					ch.Add(line, runOp(line), a&c != 0, "exhaustive-dst")
				}
			}
		}
	}
}

func genEnsured(g gen, ch *vh.Channel, n int) {
	// exhaustive: sorted id lists (multisets of mids 0..3, length <= 4), next fraction From/To in 0..4, both orders
	var rec func(prefix []int, minV int)
	var lists [][]int
	rec = func(prefix []int, minV int) {
		lists = append(lists, append([]int(nil), prefix...))
		if len(prefix) == 4 {
			return
		}
		for v := minV; v <= 3; v++ {
			rec(append(prefix, v), v)
		}
	}
	rec(nil, 0)
	for _, desc := range []bool{true, false} {
		for _, l := range lists {
			ids := make([]seq.ID, len(l))
			for i, m := range l {
				ids[i] = seq.ID{MID: seq.MID(m), RID: seq.RID(len(l) - i)}
			}
			sortIDs(ids, desc)
			for ft := 0; ft <= 4; ft++ {
				line := fmt.Sprintf("ensured %s %s %d:%d,0:9", b(desc), fmtIDs(ids), ft, ft)
				ch.Add(line, runOp(line), len(ids) > 0, "exhaustive")
			}
			line := fmt.Sprintf("ensured %s %s -", b(desc), fmtIDs(ids))
			ch.Add(line, runOp(line), false, "no-remaining")
		}
	}
	for i := 0; i < n; i++ {
		desc := g.r.Bool()
		ids := g.ids(g.r.Intn(12), 20, 3)
		if g.r.Chance(9, 10) {
			sortIDs(ids, desc)
		}
		from := g.r.Intn(22)
		to := from + g.r.Intn(8)
		line := fmt.Sprintf("ensured %s %s %d:%d,%d:%d", b(desc), fmtIDs(ids), from, to, g.r.Intn(20), 20+g.r.Intn(5))
		ch.Add(line, runOp(line), len(ids) > 0, "random")
	}
}

func genSortFilter(g gen, chS, chF *vh.Channel, n int) {
	for i := 0; i < n; i++ {
		k := g.r.Intn(7)
		var fts, dfts []string
		for j := 0; j < k; j++ {
			from := g.r.Intn(10)
			to := from + g.r.Intn(6)
			fts = append(fts, fmt.Sprintf("%d:%d", from, to))
			dfts = append(dfts, fmt.Sprintf("%d:%d:%d", g.r.Intn(3), from, to))
		}
		desc := g.r.Bool()
		line := fmt.Sprintf("sortfracs %s %s", b(desc), vh.JoinStrs(fts, ","))
		chS.Add(line, runOp(line), k > 1, "desc="+b(desc))
		from := g.r.Intn(12)
		to := from + g.r.Intn(5)
		if g.r.Chance(1, 8) {
			from, to = to+1, from // inverted request range
		}
		line = fmt.Sprintf("filter %d %d %s", from, to, vh.JoinStrs(dfts, ","))
		chF.Add(line, runOp(line), k > 0)
	}
}

func genPaginate(ch *vh.Channel) {
	for n := 0; n <= 5; n++ {
		ids := make([]seq.ID, n)
		for i := range ids {
			ids[i] = seq.ID{MID: seq.MID(10 - i), RID: seq.RID(i)}
		}
		for off := 0; off <= 6; off++ {
			for size := 0; size <= 6; size++ {
				line := fmt.Sprintf("paginate %d %d %s", off, size, fmtIDs(ids))
				ch.Add(line, runOp(line), n > 0, "exhaustive")
			}
		}
	}
}

// layout: a corpus of ids split over k fractions; From/To are the true bounds of ALL documents of the fraction
// (widened sometimes), `docs` only those in the request range.
type layout struct {
	fracs [][]seq.ID
	from  []uint64
	to    []uint64
}

func (g gen) layout(nDocs, k, maxMid, maxRid int, dupPct int) layout {
	var l layout
	l.fracs = make([][]seq.ID, k)
	seen := map[seq.ID]bool{}
	for i := 0; i < nDocs; i++ {
		id := g.id(maxMid, maxRid)
		if seen[id] { // an ID is stored twice only on purpose (dupPct)
			continue
		}
		seen[id] = true
		j := g.r.Intn(k)
		l.fracs[j] = append(l.fracs[j], id)
		if g.r.Chance(dupPct, 100) {
			j2 := g.r.Intn(k)
			l.fracs[j2] = append(l.fracs[j2], id)
		}
	}
	for _, fr := range l.fracs {
		from, to := uint64(math.MaxUint64), uint64(0)
		for _, id := range fr {
			from = min(from, uint64(id.MID))
			to = max(to, uint64(id.MID))
		}
		if len(fr) > 0 && g.r.Chance(1, 4) { // documents outside the query's match set widen the range
			from -= min(from, uint64(g.r.Intn(3)))
			to += uint64(g.r.Intn(3))
		}
		l.from = append(l.from, from)
		l.to = append(l.to, to)
	}
	return l
}

func (l layout) text(reqFrom, reqTo uint64) (string, []seq.ID) {
	var parts []string
	var all []seq.ID
	for i, fr := range l.fracs {
		var in []seq.ID
		for _, id := range fr {
			if uint64(id.MID) >= reqFrom && uint64(id.MID) <= reqTo {
				in = append(in, id)
			}
		}
		all = append(all, in...)
		parts = append(parts, fmt.Sprintf("%d/%d/%d/%s", len(fr), l.from[i], l.to[i], fmtIDs(in)))
	}
	return vh.JoinStrs(parts, ";"), all
}

// specAnswer is the property's right-hand side: one fraction holding everything.
func specAnswer(all []seq.ID, desc, wt bool, hi uint64, limit int) *seq.QPR {
	q := specSearch(all, processor.SearchParams{Limit: limit, WithTotal: wt, HistInterval: hi, Order: order(desc)})
	if q.Histogram == nil {
		q.Histogram = map[seq.MID]uint64{}
	}
	return q
}

func genSearchDocs(g gen, ch *vh.Channel, orc *vh.Oracle, rep *vh.Report, n int, maxK int) {
	for i := 0; i < n; i++ {
		k := g.r.Range(1, maxK)
		nDocs := g.r.Intn(14)
		dupPct := 0
		if g.r.Chance(1, 5) {
			dupPct = 30
		}
		l := g.layout(nDocs, k, []int{4, 8, 40}[g.r.Intn(3)], 1, dupPct)
		reqFrom, reqTo := uint64(0), uint64(1000)
		if g.r.Chance(1, 3) {
			reqFrom = uint64(g.r.Intn(5))
			reqTo = reqFrom + uint64(g.r.Intn(40))
		}
		ftext, all := l.text(reqFrom, reqTo)
		desc, wt := g.r.Bool(), g.r.Bool()
		hi := []uint64{0, 0, 1, 3, 10}[g.r.Intn(5)]
		agg := g.r.Chance(1, 8)
		limit := g.r.Intn(8)
		maxHits := 0
		if g.r.Chance(1, 10) {
			maxHits = g.r.Range(1, maxK)
		}
		for per := 0; per <= k; per++ {
			line := fmt.Sprintf("searchdocs %s %s %d %s %d %d %d %d %d %s", b(desc), b(wt), hi, b(agg), per, maxHits, reqFrom, reqTo, limit, ftext)
			got := runOp(line)
			ch.Add(line, got, k > 1 && len(all) > 0, fmt.Sprintf("fracs=%d", k), "desc="+b(desc), "scanAll="+b(wt || hi > 0 || agg), "dups="+b(dupPct > 0))
			// the property itself on the real loop: equal to one fraction holding everything
			if strings.HasPrefix(got, "err") {
				orc.Case(line, false, "too-many-fractions")
				continue
			}
			want := specAnswer(all, desc, wt, hi, limit)
			wantS := "ok " + fmtQPR(want)
			if dupPct > 0 { // a document stored in two fractions: only the ID list is claimed
				got = strings.SplitN(got, "/", 2)[0]
				wantS = strings.SplitN(wantS, "/", 2)[0]
			}
			orc.Case(line, k > 1 && len(all) > limit, fmt.Sprintf("perIter=%d", per))
			if got != wantS {
				rep.Violate(vh.Violation{Site: "fracmanager/searcher.go:SearchDocs", Class: classOf(got, wantS),
					What: fmt.Sprintf("k fractions: %s ; one fraction: %s", got, wantS), Replay: []string{line}})
			}
		}
	}
}

func classOf(got, want string) string {
	g, w := strings.Split(strings.TrimPrefix(got, "ok "), "/"), strings.Split(strings.TrimPrefix(want, "ok "), "/")
	if len(g) != len(w) || len(g) == 0 {
		return "result-differs"
	}
	if g[0] != w[0] {
		return "ids-differ-from-single-fraction"
	}
	if len(g) > 1 && g[1] != w[1] {
		return "total-differs-from-single-fraction"
	}
	return "histogram-differs-from-single-fraction"
}

// small scope, exhaustively: 4 documents (2 share an MID) in every assignment to 2 fractions, every limit, every
// FractionsPerIteration, both orders, with and without total
func exhSearchDocs(ch *vh.Channel, orc *vh.Oracle, rep *vh.Report) {
	docs := []seq.ID{{MID: 1, RID: 0}, {MID: 2, RID: 0}, {MID: 2, RID: 1}, {MID: 4, RID: 0}}
	for assign := 0; assign < 81; assign++ { // each doc: fraction 0, 1 or 2
		var l layout
		l.fracs = make([][]seq.ID, 3)
		a := assign
		for _, d := range docs {
			l.fracs[a%3] = append(l.fracs[a%3], d)
			a /= 3
		}
		for _, fr := range l.fracs {
			from, to := uint64(math.MaxUint64), uint64(0)
			for _, id := range fr {
				from, to = min(from, uint64(id.MID)), max(to, uint64(id.MID))
			}
			l.from, l.to = append(l.from, from), append(l.to, to)
		}
		ftext, all := l.text(0, 100)
		for _, desc := range []bool{true, false} {
			for _, wt := range []bool{true, false} {
				for limit := 0; limit <= 4; limit++ {
					for per := 0; per <= 3; per++ {
						line := fmt.Sprintf("searchdocs %s %s 0 0 %d 0 0 100 %d %s", b(desc), b(wt), per, limit, ftext)
						got := runOp(line)
						ch.Add(line, got, true, "exhaustive-3-fracs")
						want := "ok " + fmtQPR(specAnswer(all, desc, wt, 0, limit))
						orc.Case(line, limit > 0 && limit < 4, "exhaustive-3-fracs")
						if got != want {
							rep.Violate(vh.Violation{Site: "fracmanager/searcher.go:SearchDocs", Class: classOf(got, want),
								What: fmt.Sprintf("k fractions: %s ; one fraction: %s", got, want), Replay: []string{line}})
						}
					}
				}
			}
		}
	}
}

func genProxy(g gen, ch *vh.Channel, orc *vh.Oracle, rep *vh.Report, n int) {
	for i := 0; i < n; i++ {
		shards := g.r.Range(1, 4)
		desc := g.r.Bool()
		hi := []uint64{0, 1, 5}[g.r.Intn(3)]
		offset, size := g.r.Intn(5), g.r.Intn(6)
		dup := g.r.Chance(1, 4)
		l := g.layout(g.r.Intn(16), shards, 12, 1, map[bool]int{true: 30, false: 0}[dup])
		var qs []string
		var all []seq.ID
		for _, docs := range l.fracs {
			// what a store answers for Size+Offset (C05 at store level)
			q := specSearch(docs, processor.SearchParams{Limit: offset + size, WithTotal: true, HistInterval: hi, Order: order(desc)})
			if q.Histogram == nil {
				q.Histogram = map[seq.MID]uint64{}
			}
			qs = append(qs, fmtQPR(q))
			all = append(all, docs...)
		}
		line := fmt.Sprintf("proxymerge %s %d %d %d %s", b(desc), offset, size, hi, strings.Join(qs, ";"))
		got := runOp(line)
		ch.Add(line, got, shards > 1 && len(all) > 0, fmt.Sprintf("shards=%d", shards), "dups="+b(dup))
		// property: page (offset,size) of the single ordered list
		full := specSearch(all, processor.SearchParams{Limit: math.MaxInt32, WithTotal: true, HistInterval: hi, Order: order(desc)})
		ids := full.IDs.IDs()
		lo, hiI := min(offset, len(ids)), min(offset+size, len(ids))
		wantIDs := fmtIDs(ids[lo:hiI])
		gotIDs := strings.SplitN(strings.TrimPrefix(got, "ok "), "/", 2)[0]
		orc.Case(line, len(ids) > offset, fmt.Sprintf("shards=%d", shards))
		if gotIDs != wantIDs {
			rep.Violate(vh.Violation{Site: "proxy/search/ingestor.go:Search", Class: "page-differs-from-single-list",
				What: fmt.Sprintf("page: %s ; expected %s", gotIDs, wantIDs), Replay: []string{line}})
		}
		if !dup {
			want := fmt.Sprintf("%s/%d/%s", wantIDs, full.Total, fmtHist(specAnswer(all, desc, true, hi, 0).Histogram))
			if strings.TrimPrefix(got, "ok ") != want {
				rep.Violate(vh.Violation{Site: "proxy/search/ingestor.go:Search", Class: "total-or-histogram-differs",
					What: fmt.Sprintf("got %s ; expected %s", got, want), Replay: []string{line}})
			}
		}
	}
}

// ---------------------------------------------------------------- main

func main() {
	if os.Getenv("C05_CHILD") == "sys" {
		sysChild()
		return
	}
	o := vh.ParseFlags()
	logger.SetLevel(zap.FatalLevel)
	rep := vh.NewReport("C05", o)
	g := gen{vh.NewRNG(o.Seed)}

	chMerge := vh.NewChannel("qpr.merge", "seq.MergeQPRs vs SV.Merge.mergeQPRs (ids, total, histogram incl. repetition correction, nil-map panic); non-trivial = some ID occurs in two inputs")
	chEns := vh.NewChannel("searcher.ensured", "calcEnsuredIDsCount vs SV.Merge.calcEnsured; non-trivial = non-empty id list")
	chSort := vh.NewChannel("fracs.sort", "fracmanager.List.Sort key sequence vs SV.Merge.sortFracs; non-trivial = >1 fraction")
	chFilt := vh.NewChannel("fracs.filter", "fracmanager.List.FilterInRange (Info.IsIntersecting, no distribution) vs SV.Merge.isIntersecting")
	chPag := vh.NewChannel("proxy.paginate", "Ingestor.paginateIDs vs SV.Merge.paginate (exhaustive 0..5 ids x offset x size)")
	chSD := vh.NewChannel("searcher.searchdocs", "real Searcher.SearchDocs over scripted fractions vs SV.Merge.searchDocs; non-trivial = >1 fraction and a non-empty match set")
	chPx := vh.NewChannel("proxy.merge", "real search.Ingestor.Search over scripted stores (first healthy replica) vs SV.Merge.proxyMerge; non-trivial = >1 shard")
	chReal := vh.NewChannel("searchdocs.real", "real Searcher.SearchDocs over real fractions of a FracManager vs SV.Merge.searchDocs fed with the fractions' Info and match sets")
	chAPIGrpc = vh.NewChannel("api.grpc", "real storeapi.GrpcV1.Search(req) on a real store (requests at the integer edges: From/To 0, -1, MinInt64, MaxInt64, MIDs above 2^63, Size 0/-1/MaxInt64, Offset > total, Interval 0/1/-1, undeclared Order, hot-store refusal, MaxFractionHits) vs SV.Api.grpcSearch; non-trivial = an answer with IDs")
	chAPIProxy = vh.NewChannel("api.proxy", "real search.Ingestor.Search(sr) over real stores (2 replicas per shard, replica 0 of odd shards down, with and without ShuffleReplicas) vs SV.Api.proxySearch over SV.Api.grpcSearch; also which replicas were asked")
	chAggs := vh.NewChannel("qpr.mergeaggs", "aggregation part of seq.MergeQPRs (AggregatableSamples.Merge / SamplesContainer.Merge per bin: Min/Max/Sum/Total/NotExists/Samples) vs SV.Merge.mergeAggs; a piece holding only value-less documents (Total == 0 && NotExists > 0) sits first, in the middle or last; non-trivial = >1 piece")
	orcAggs := vh.NewOracle("qpr.mergeaggs.order", "real MergeQPRs: merging the pieces in reverse order gives the same Total/NotExists/Sum per bin")
	apiOracle = vh.NewOracle("api.proxy.complete", "real proxy over real stores, some with MaxFractionHits 1..3: an answer is the page of the single ordered list with the total of all matching documents, or an explicit error - never a silently short success; non-trivial = MaxFractionHits set")
	apiRep = rep
	orcSD := vh.NewOracle("searchdocs.partition", "SearchDocs over k scripted fractions equals the one-fraction answer (ids, total, histogram) for every FractionsPerIteration; non-trivial = more matches than the limit over >1 fraction")
	orcPx := vh.NewOracle("proxy.paging", "Ingestor.Search page (offset,size) over s shards equals that window of the single ordered list")
	orcSys := vh.NewOracle("system.fractions", "real FracManager: corpus in one fraction vs the same corpus in k fractions (active+sealed, overlapping ranges), all FractionsPerIteration, both orders; non-trivial = k>1 and more matches than the limit")

	if o.Replay != "" {
		lines, err := vh.ReadReplay(o.Replay)
		if err != nil {
			fmt.Fprintln(os.Stderr, err)
			os.Exit(3)
		}
		var sysLines []string
		byKind := map[string]*vh.Channel{"merge": chMerge, "ensured": chEns, "sortfracs": chSort, "filter": chFilt, "paginate": chPag,
			"searchdocs": chSD, "proxymerge": chPx, "mergeaggs": chAggs}
		for _, l := range lines {
			kind := strings.Fields(l + " .")[0]
			if kind == "sys" || kind == "cluster" || kind == "sysbig" || kind == "sysdist" || kind == "grpc" || kind == "proxyreq" || kind == "sysagg" || kind == "sysbulks" || kind == "syshotcold" || kind == "syslong" {
				sysLines = append(sysLines, l)
			} else if kind == "proxybig" {
				runProxyBigCases(orcPx, rep, []string{l})
			} else if ch := byKind[kind]; ch != nil {
				ch.Add(l, runOp(l), true, "replay")
			}
		}
		runSys(sysLines, chReal, orcSys, rep, o)
	} else {
		want := func(name string) bool { return o.Only == "" || o.Only == name }
		stage := func(name string, f func()) {
			if !want(name) {
				return
			}
			t0 := time.Now()
			f()
			rep.Note("stage %s: %.1fs", name, time.Since(t0).Seconds())
		}
		stage("merge", func() { exhMerge(chMerge); genMerge(g, chMerge, o.Pick(3000, 40000)) })
		stage("mergeaggs", func() { genMergeAggs(g, chAggs, orcAggs, rep, o.Pick(1500, 20000)) })
		stage("ensured", func() { genEnsured(g, chEns, o.Pick(500, 10000)) })
		stage("sortfilter", func() { genSortFilter(g, chSort, chFilt, o.Pick(500, 5000)) })
		stage("paginate", func() { genPaginate(chPag); chPag.Exhaustive = true })
		stage("searchdocs", func() {
			exhSearchDocs(chSD, orcSD, rep)
			genSearchDocs(g, chSD, orcSD, rep, o.Pick(600, 8000), o.Pick(4, 7))
		})
		stage("proxy", func() {
			genProxy(g, chPx, orcPx, rep, o.Pick(400, 5000))
			runProxyBigCases(orcPx, rep, genProxyBig(g, o))
		})
		stage("sys", func() {
			lines := append(genSys(g, o), genCluster(g, o)...)
			lines = append(lines, genDist(g, o)...)
			lines = append(lines, genAPI(g, o)...)
			lines = append(lines, genSysAgg(g, o)...)
			lines = append(lines, genSysBulks(g, o)...)
			lines = append(lines, genHotCold(g, o)...)
			lines = append(lines, fmt.Sprintf("syslong values=%d k=%d", o.Pick(6, 20), o.Pick(2, 3)))
			// posting lists longer than one LID block (65536 entries) of a sealed fraction
			lines = append(lines, fmt.Sprintf("sysbig n=%d k=%d", o.Pick(70000, 140000), o.Pick(3, 5)))
			runSys(lines, chReal, orcSys, rep, o)
		})
	}
	for _, ch := range []*vh.Channel{chMerge, chEns, chSort, chFilt, chPag, chSD, chPx, chReal, chAPIGrpc, chAPIProxy, chAggs} {
		t0 := time.Now()
		rep.AddChannel(ch, o.Driver)
		rep.Note("driver %s: %d cases %.1fs", ch.Name, ch.Cases, time.Since(t0).Seconds())
	}
	rep.AddOracle(orcAggs)
	rep.AddOracle(apiOracle)
	rep.AddOracle(orcSD)
	rep.AddOracle(orcPx)
	rep.AddOracle(orcSys)
	rep.Write(o.Out)
}
