// API-boundary channels of C05 (run in the sys child, real stores):
//
//	grpc docs=<mid:rid:svc,...> layout=<i,i;i;...> sealed=<bits> q=<a|b|*> from=<i64> to=<i64> size=<i64> offset=<i64>
//	     interval=<i64> wt=<0|1> order=<0 desc|1 asc> hot=<0|1> oldest=<u64> per=<n> maxhits=<n>
//	     the real storeapi.GrpcV1.Search(req) on one real store        -> channel api.grpc vs SV.Api.grpcSearch
//	proxyreq <same corpus fields> shards=<shard per document> shuffle=<0|1> from=<u64> to=<u64> size=<int> offset=<int> ...
//	     the real search.Ingestor.Search(sr) over one real store per shard (2 replicas, identical content)
//	                                                                    -> channel api.proxy vs SV.Api.proxySearch
//
// The child answers with the implementation's canonical answer and the real fractions' Info + per-fraction list of ALL
// documents matching the query (the model applies the request window itself, through its own integer conversions).
package main

import (
	"context"
	"encoding/json"
	"errors"
	"fmt"
	"os"
	"path/filepath"
	"strconv"
	"strings"
	"sync"
	"time"

	"google.golang.org/grpc"

	"github.com/ozontech/seq-db/conf"
	"github.com/ozontech/seq-db/consts"
	"github.com/ozontech/seq-db/fracmanager"
	"github.com/ozontech/seq-db/mappingprovider"
	pb "github.com/ozontech/seq-db/pkg/storeapi"
	"github.com/ozontech/seq-db/proxy/search"
	"github.com/ozontech/seq-db/proxy/stores"
	"github.com/ozontech/seq-db/seq"
	"github.com/ozontech/seq-db/storeapi"
	"github.com/ozontech/seq-db/verifhook"

	"verifharness/internal/vh"
)

type apiResp struct {
	From   int64  `json:"from"`   // the From actually sent (hot stores: OldestCT + fromoff)
	Oldest uint64 `json:"oldest"` // FracManager.OldestCT at the time of the request
	Impl   string `json:"impl"`
	Fracs string `json:"fracs"` // per shard (separated by '|'): docsTotal/from/to/<matching ids> ; ...
	Err   string `json:"err,omitempty"`
}

func atoi64(s string) int64 {
	v, err := strconv.ParseInt(s, 10, 64)
	if err != nil {
		panic("bad int64 " + s)
	}
	return v
}

func parseCorpus(m map[string]string) (docs []sdoc, layout [][]int, sealed []bool) {
	for _, e := range splitList(m["docs"], ",") {
		p := strings.Split(e, ":")
		docs = append(docs, sdoc{seq.ID{MID: seq.MID(atou(p[0])), RID: seq.RID(atou(p[1]))}, p[2]})
	}
	for _, fr := range strings.Split(m["layout"], ";") {
		var idx []int
		for _, e := range splitList(fr, ",") {
			idx = append(idx, atoi(e))
		}
		layout = append(layout, idx)
	}
	for _, c := range m["sealed"] {
		sealed = append(sealed, c == '1')
	}
	for len(sealed) < len(layout) {
		sealed = append(sealed, true)
	}
	return
}

// one real store holding the documents `mine` in the given layout (all in one FracManager: every fraction but the
// last is sealed; the last one per `sealed`)
func buildAPIStore(dir string, docs []sdoc, mine func(int) bool, layout [][]int, sealed []bool, mode string, per, maxHits int, oldest uint64) (*storeapi.Store, error) {
	mp, err := mappingprovider.New("", mappingprovider.WithMapping(seq.TestMapping))
	if err != nil {
		return nil, err
	}
	cfg := storeapi.StoreConfig{
		FracManager: fracmanager.Config{DataDir: dir, FracSize: 1 << 30, TotalSize: 1 << 40, MaintenanceDelay: time.Hour, ShouldReplay: true},
		API: storeapi.APIConfig{StoreMode: mode, Search: storeapi.SearchConfig{WorkersCount: 4, FractionsPerIteration: per, MaxFractionHits: maxHits}},
	}
	os.MkdirAll(dir, 0o755)
	st, err := storeapi.NewStore(context.Background(), cfg, mp)
	if err != nil {
		return nil, err
	}
	for gi, idx := range layout {
		var ds []sdoc
		for _, i := range idx {
			if mine(i) {
				ds = append(ds, docs[i])
			}
		}
		if err := appendDocs(st.FracManager, ds); err != nil {
			return st, err
		}
		if gi < len(layout)-1 || sealed[gi] {
			st.FracManager.SealForcedForTests()
		}
	}
	if mode == storeapi.StoreModeHot { // a hot store refuses old data only when it is mature: reopen without the flag file
		st.FracManager.WaitIdle()
		st.FracManager.Stop()
		os.Remove(filepath.Join(dir, ".immature"))
		if st, err = storeapi.NewStore(context.Background(), cfg, mp); err != nil {
			return nil, err
		}
		_ = oldest
	}
	return st, nil
}

func fracsText(st *storeapi.Store, docs []sdoc, mine func(int) bool, q string) string {
	var parts []string
	for _, f := range st.FracManager.GetAllFracs() {
		info := f.Info()
		var in []seq.ID
		if info.DocsTotal > 0 {
			dp, release := f.DataProvider(context.Background())
			for i, d := range docs {
				if !mine(i) || !(q == "*" || d.svc == q) {
					continue
				}
				if bodies, err := dp.Fetch([]seq.ID{d.id}); err == nil && len(bodies) == 1 && len(bodies[0]) > 0 {
					in = append(in, d.id)
				}
			}
			release()
		}
		parts = append(parts, fmt.Sprintf("%d/%d/%d/%s", info.DocsTotal, uint64(info.From), uint64(info.To), fmtIDs(in)))
	}
	return vh.JoinStrs(parts, ";")
}

func respText(resp *pb.SearchResponse, err error) string {
	if err != nil {
		return "err other"
	}
	if resp.Code != pb.SearchErrorCode_NO_ERROR {
		return "code " + resp.Code.String()
	}
	q := &seq.QPR{Total: resp.Total, Histogram: map[seq.MID]uint64{}}
	for _, id := range resp.IdSources {
		q.IDs = append(q.IDs, seq.IDSource{ID: seq.ID{MID: seq.MID(id.Id.Mid), RID: seq.RID(id.Id.Rid)}})
	}
	for k, v := range resp.Histogram {
		q.Histogram[seq.MID(k)] = v
	}
	return "ok " + fmtQPR(q)
}

func queryText(q string) string {
	if q == "*" {
		return seq.TokenAll + ":*"
	}
	return "service:" + q
}

func runGrpc(root, line string) (resp apiResp) {
	m := kv(strings.Fields(line)[1:])
	docs, layout, sealed := parseCorpus(m)
	dir, _ := os.MkdirTemp(root, "api")
	defer os.RemoveAll(dir)
	mode := storeapi.StoreModeCold
	if m["hot"] == "1" {
		mode = storeapi.StoreModeHot
	}
	all := func(int) bool { return true }
	st, err := buildAPIStore(filepath.Join(dir, "s"), docs, all, layout, sealed, mode, atoi(m["per"]), atoi(m["maxhits"]), atou(m["oldest"]))
	if st != nil {
		defer func() {
			defer func() { recover() }()
			st.FracManager.WaitIdle()
			st.FracManager.Stop()
		}()
	}
	if err != nil {
		resp.Err = "build: " + err.Error()
		return
	}
	resp.Fracs = fracsText(st, docs, all, m["q"])
	resp.From = atoi64(m["from"])
	if m["hot"] == "1" { // the maintenance loop publishes the oldest creation time right after start
		for i := 0; i < 400 && st.FracManager.OldestCT.Load() == 0; i++ {
			time.Sleep(5 * time.Millisecond)
		}
		resp.Oldest = st.FracManager.OldestCT.Load()
		resp.From = int64(resp.Oldest) + atoi64(m["fromoff"])
	}
	req := &pb.SearchRequest{Query: queryText(m["q"]), From: resp.From, To: atoi64(m["to"]), Size: atoi64(m["size"]), Offset: atoi64(m["offset"]),
		Interval: atoi64(m["interval"]), WithTotal: m["wt"] == "1", Order: pb.Order(atoi(m["order"]))}
	func() {
		defer func() {
			if r := recover(); r != nil {
				resp.Impl = "panic"
				if strings.Contains(fmt.Sprint(r), "slice bounds") {
					resp.Impl = "panic slice-bounds"
				}
			}
		}()
		resp.Impl = respText(st.GrpcV1().Search(context.Background(), req))
	}()
	return
}

type flakyClient struct {
	pb.StoreApiClient
	inner pb.StoreApiClient
	mu    *sync.Mutex
	seen  *[]string
	host  string
	down  bool
}

func (c flakyClient) Search(ctx context.Context, in *pb.SearchRequest, o ...grpc.CallOption) (*pb.SearchResponse, error) {
	c.mu.Lock()
	*c.seen = append(*c.seen, c.host)
	c.mu.Unlock()
	if c.down {
		return nil, errors.New("replica down")
	}
	return c.inner.Search(ctx, in, o...)
}

func runProxyReq(root, line string) (resp apiResp) {
	m := kv(strings.Fields(line)[1:])
	docs, layout, sealed := parseCorpus(m)
	dir, _ := os.MkdirTemp(root, "apx")
	defer os.RemoveAll(dir)
	var shardOf []int
	nShards := 0
	for _, e := range splitList(m["shards"], ",") {
		shardOf = append(shardOf, atoi(e))
		nShards = max(nShards, atoi(e)+1)
	}
	clients := map[string]pb.StoreApiClient{}
	var hosts [][]string
	var all []*storeapi.Store
	defer func() {
		for _, s := range all {
			func() {
				defer func() { recover() }()
				s.FracManager.WaitIdle()
				s.FracManager.Stop()
			}()
		}
	}()
	var seen []string
	var mu sync.Mutex
	var fr []string
	for s := 0; s < nShards; s++ {
		mine := func(i int) bool { return shardOf[i] == s }
		st, err := buildAPIStore(filepath.Join(dir, fmt.Sprintf("s%d", s)), docs, mine, layout, sealed, storeapi.StoreModeCold, atoi(m["per"]), atoi(m["maxhits"]), 0)
		if st != nil {
			all = append(all, st)
		}
		if err != nil {
			resp.Err = "build: " + err.Error()
			return
		}
		fr = append(fr, fracsText(st, docs, mine, m["q"]))
		h0, h1 := fmt.Sprintf("s%d-r0", s), fmt.Sprintf("s%d-r1", s)
		// both replicas serve the same store; replica 0 of odd shards is down
		clients[h0] = flakyClient{inner: storeapi.NewClient(st), mu: &mu, seen: &seen, host: h0, down: s%2 == 1}
		clients[h1] = flakyClient{inner: storeapi.NewClient(st), mu: &mu, seen: &seen, host: h1}
		hosts = append(hosts, []string{h0, h1})
	}
	resp.Fracs = strings.Join(fr, "|")
	shuffle := m["shuffle"] == "1"
	if shuffle { // the replica order comes from util.IdxShuffle: always "replica 1 first" here
		verifhook.SetShuffle(func(n int) []int {
			p := make([]int, n)
			for i := range p {
				p[i] = n - 1 - i
			}
			return p
		})
		defer verifhook.SetShuffle(nil)
	}
	ing := search.NewIngestor(search.Config{HotStores: &stores.Stores{Shards: hosts}, ShuffleReplicas: shuffle}, clients)
	sr := &search.SearchRequest{Q: []byte(queryText(m["q"])), Offset: int(atoi64(m["offset"])), Size: int(atoi64(m["size"])), Interval: seq.MID(atou(m["interval"])),
		From: seq.MID(atou(m["from"])), To: seq.MID(atou(m["to"])), WithTotal: m["wt"] == "1", ShouldFetch: false, Order: seq.DocsOrder(atoi(m["order"]))}
	if m["maxreq"] != "" && m["maxreq"] != "0" { // --max-search-docs: limits fetch/export sizes, must not touch what a store is asked for
		old := conf.MaxRequestedDocuments
		conf.MaxRequestedDocuments = atoi(m["maxreq"])
		defer func() { conf.MaxRequestedDocuments = old }()
	}
	func() {
		defer func() {
			if r := recover(); r != nil {
				resp.Impl = "panic"
				if strings.Contains(fmt.Sprint(r), "slice bounds") {
					resp.Impl = "panic slice-bounds"
				}
			}
		}()
		qpr, _, _, err := ing.Search(context.Background(), sr, nil)
		switch {
		case errors.Is(err, consts.ErrInvalidArgument):
			resp.Impl = "err invalid-argument"
		case errors.Is(err, consts.ErrTooManyFractionsHit):
			resp.Impl = "err too-many-fractions"
		case err != nil:
			resp.Impl = "err other"
		default:
			// which replica answered for every shard (first healthy one in visiting order)
			asked := map[string]bool{}
			for _, h := range seen {
				asked[h] = true
			}
			var rs []string
			for s := 0; s < nShards; s++ {
				rs = append(rs, vh.B(asked[fmt.Sprintf("s%d-r0", s)])+vh.B(asked[fmt.Sprintf("s%d-r1", s)]))
			}
			resp.Impl = "ok " + fmtQPR(qpr) + " asked=" + strings.Join(rs, ",")
		}
	}()
	return
}

// ---------------------------------------------------------------- parent side

var chAPIGrpc, chAPIProxy *vh.Channel
var apiOracle *vh.Oracle
var apiRep *vh.Report

var edge64 = []int64{0, 1, -1, 5, 9, 100, -9223372036854775808, 9223372036854775807, -2, 9223372036854775806, -9223372036854775807}

func corpusText(g gen) (string, int) {
	n := g.r.Range(1, 12)
	seen := map[seq.ID]bool{}
	var docs []string
	for len(docs) < n {
		id := seq.ID{MID: seq.MID(1 + g.r.Intn(14)), RID: seq.RID(g.r.Intn(2))}
		if g.r.Chance(1, 6) { // MIDs above 2^63: From/To travel as int64
			id.MID = seq.MID(uint64(1)<<63 + uint64(g.r.Intn(6)))
		}
		if seen[id] {
			continue
		}
		seen[id] = true
		docs = append(docs, fmt.Sprintf("%d:%d:%s", uint64(id.MID), id.RID, []string{"a", "a", "b"}[g.r.Intn(3)]))
	}
	k := g.r.Range(1, 4)
	layout := make([][]int, k)
	for i := range docs {
		j := g.r.Intn(k)
		layout[j] = append(layout[j], i)
	}
	var lay []string
	for _, idx := range layout {
		lay = append(lay, vh.JoinInts(idx))
	}
	return fmt.Sprintf("docs=%s layout=%s sealed=%s", strings.Join(docs, ","), strings.Join(lay, ";"), b(g.r.Bool())+b(g.r.Bool())+b(g.r.Bool())+b(g.r.Bool())), n
}

func genAPI(g gen, o vh.Opts) []string {
	var lines []string
	pick := func() int64 {
		if g.r.Chance(1, 2) {
			return edge64[g.r.Intn(len(edge64))]
		}
		return int64(g.r.Intn(16))
	}
	for c := 0; c < o.Pick(40, 500); c++ {
		corp, _ := corpusText(g)
		for q := 0; q < 4; q++ {
			size, offset := int64(g.r.Intn(6)), int64(g.r.Intn(4))
			switch g.r.Intn(10) {
			case 0:
				size = -1
			case 1:
				size, offset = 9223372036854775807, int64(g.r.Intn(3))
			case 2:
				offset = int64(20 + g.r.Intn(5)) // offset > total
			case 3:
				size = 0
			}
			interval := []int64{0, 0, 1, 3, 10, -1, 1000, 9223372036854775807}[g.r.Intn(8)]
			order := []int{0, 0, 1, 1, 2}[g.r.Intn(5)]
			hot, fromoff := "0", int64(0)
			if g.r.Chance(1, 5) {
				// a hot request's From is "now": whether a sealed fraction is then searched at all is decided by its
				// MIDs distribution (C14), so only the refusal logic is compared: plain page, no MaxFractionHits
				hot, fromoff = "1", []int64{-1, 0, 1, -1000, 5}[g.r.Intn(5)]
				size, offset = int64(g.r.Intn(6)), int64(g.r.Intn(4))
			}
			maxhits := 0
			if hot == "0" && g.r.Chance(1, 6) { // (a hot request's From is "now": the sealed fractions' distribution - C14 - would prune)
				maxhits = g.r.Range(1, 3)
			}
			to := pick()
			if g.r.Chance(1, 2) {
				to = -1 // "open" upper bound
			}
			lines = append(lines, fmt.Sprintf("grpc %s q=%s from=%d to=%d size=%d offset=%d interval=%d wt=%s order=%d hot=%s fromoff=%d oldest=0 per=%d maxhits=%d",
				corp, []string{"a", "*"}[g.r.Intn(2)], pick(), to, size, offset, interval, b(g.r.Bool()), order, hot, fromoff, g.r.Range(1, 3), maxhits))
		}
	}
	for c := 0; c < o.Pick(25, 300); c++ {
		corp, n := corpusText(g)
		nShards := g.r.Range(1, 3)
		var sh []string
		for i := 0; i < n; i++ {
			sh = append(sh, fmt.Sprint(g.r.Intn(nShards)))
		}
		sh[0] = fmt.Sprint(nShards - 1)
		for q := 0; q < 3; q++ {
			size, offset := g.r.Intn(6), g.r.Intn(5)
			switch g.r.Intn(8) {
			case 0:
				size = -1
			case 1:
				offset = -1
			case 2:
				offset = 30
			}
			from, to := uint64(g.r.Intn(8)), uint64(18446744073709551615)
			if g.r.Chance(1, 2) {
				to = []uint64{0, 7, 12, 1 << 63, 1<<63 + 3, 9223372036854775807}[g.r.Intn(6)]
			}
			if g.r.Chance(1, 6) {
				from = 1<<63 + uint64(g.r.Intn(4))
			}
			maxhits := 0
			if g.r.Chance(1, 3) { // a production setting no test uses: the split layout may exceed it on some store
				maxhits = g.r.Range(1, 3)
			}
			maxreq := 0
			if maxhits == 0 && g.r.Chance(1, 3) { // a small --max-search-docs: pages ending behind it must still be complete
				maxreq = g.r.Range(1, 4)
			}
			lines = append(lines, fmt.Sprintf("proxyreq %s shards=%s shuffle=%s q=%s from=%d to=%d size=%d offset=%d interval=%d wt=%s order=%d per=%d maxhits=%d maxreq=%d",
				corp, strings.Join(sh, ","), b(g.r.Bool()), []string{"a", "*"}[g.r.Intn(2)], from, to, size, offset,
				[]uint64{0, 0, 1, 4, 1000, 18446744073709551615}[g.r.Intn(6)], b(g.r.Bool()), []int{0, 1, 1, 0, 2}[g.r.Intn(5)], g.r.Range(1, 3), maxhits, maxreq))
		}
	}
	return lines
}

// handleAPI turns the child's answer into a case of the api.grpc / api.proxy channel
func handleAPI(line string, raw []byte, orc *vh.Oracle) {
	var ar apiResp
	if err := json.Unmarshal(raw, &ar); err != nil {
		orc.Error = "child output: " + err.Error()
		return
	}
	if ar.Err != "" {
		orc.Error = "api child: " + ar.Err + " on " + line
		return
	}
	m := kv(strings.Fields(line)[1:])
	impl := ar.Impl
	if strings.HasPrefix(impl, "panic") {
		impl = "panic"
	}
	if strings.HasPrefix(line, "grpc ") {
		req := fmt.Sprintf("grpc %s %s %d %s %s %d %s %s %s %s %s %s %s", m["hot"], m["hot"], ar.Oldest, m["per"], m["maxhits"], ar.From, m["to"],
			m["size"], m["offset"], m["interval"], m["wt"], m["order"], ar.Fracs)
		chAPIGrpc.Add(req, impl, strings.HasPrefix(impl, "ok ") && !strings.HasPrefix(impl, "ok -/"), "answer="+strings.Fields(impl + " x")[0]+map[bool]string{true: "", false: "-" + strings.Fields(impl + " x x")[1]}[strings.HasPrefix(impl, "ok")],
			"hot="+m["hot"], "order="+m["order"])
	} else {
		req := fmt.Sprintf("proxyreq %s %s %s %s %s %s %s %s %s %s %s", m["shuffle"], m["per"], m["maxhits"], m["from"], m["to"], m["size"], m["offset"],
			m["interval"], m["wt"], m["order"], ar.Fracs)
		chAPIProxy.Add(req, impl, strings.HasPrefix(impl, "ok ") && !strings.HasPrefix(impl, "ok -/"), "answer="+strings.Fields(impl + " x")[0], "shuffle="+m["shuffle"])
		// the property on the real proxy + real stores: an answer is the page of the single ordered list (and the
		// total of everything) - or an explicit error; never a "complete" answer that silently misses a shard
		if strings.HasPrefix(impl, "ok ") && apiOracle != nil {
			docs, _, _ := parseCorpus(m)
			var match []seq.ID
			from, to := atou(m["from"]), atou(m["to"])
			for _, d := range docs {
				if (m["q"] == "*" || d.svc == m["q"]) && uint64(d.id.MID) >= from && uint64(d.id.MID) <= to {
					match = append(match, d.id)
				}
			}
			desc := m["order"] == "0"
			sortIDs(match, desc)
			match = dedup(match)
			off, size := atoi(m["offset"]), atoi(m["size"])
			lo, hi := min(off, len(match)), min(off+size, len(match))
			want := fmtIDs(match[lo:hi])
			p := strings.Split(strings.Fields(impl)[1], "/")
			apiOracle.Case(line, m["maxhits"] != "0" || (m["maxreq"] != "" && m["maxreq"] != "0"), "maxhits="+m["maxhits"], "maxreq="+m["maxreq"])
			if p[0] != want || (m["wt"] == "1" && p[1] != fmt.Sprint(len(match))) {
				class, site := "page-differs-from-single-list-real-stores", "proxy/search/ingestor.go:Search"
				if m["maxhits"] != "0" {
					class, site = "silently-short-answer-when-a-store-refuses", "proxy/search/ingestor.go:searchShard"
				} else if m["maxreq"] != "" && m["maxreq"] != "0" {
					class, site = "page-short-behind-max-requested-documents", "proxy/search/search_request.go:GetAPISearchRequest"
				}
				apiRep.Violate(vh.Violation{Site: site, Class: class,
					What: fmt.Sprintf("MaxFractionHits=%s max-search-docs=" + m["maxreq"] + ": the proxy reports success with ids %s total %s; all matching documents: page %s, total %d", m["maxhits"], p[0], p[1], want, len(match)),
					Replay: []string{line}})
			}
		}
	}
}

// ---------------------------------------------------------------- hot + cold tiers with retention on the hot store
// syshotcold groups=<n,n,...> evict=<e> : documents are ingested "now" (MID = wall clock) into a hot store, one sealed
// fraction per group, and the same documents into a cold store; the hot store is reopened with a TotalSize that makes its
// retention pass evict the `e` oldest fractions.  The real proxy (HotStores + ReadStores) is asked for windows starting
// inside the evicted fractions' lifetime, at the oldest remaining fraction's creation time and later: the answer must be
// all documents of the window (the hot store must refuse what it no longer holds so that the cold tier is asked).
func runHotCold(root, line string) (resp sysResp) {
	defer func() {
		if r := recover(); r != nil {
			resp.Err = "panic: " + fmt.Sprint(r)
		}
	}()
	m := kv(strings.Fields(line)[1:])
	var groups []int
	for _, e := range splitList(m["groups"], ",") {
		groups = append(groups, atoi(e))
	}
	evict := atoi(m["evict"])
	dir, _ := os.MkdirTemp(root, "hc")
	defer os.RemoveAll(dir)
	mp, err := mappingprovider.New("", mappingprovider.WithMapping(seq.TestMapping))
	if err != nil {
		resp.Err = err.Error()
		return
	}
	mk := func(name, mode string, total uint64) (*storeapi.Store, error) {
		d := filepath.Join(dir, name)
		os.MkdirAll(d, 0o755)
		return storeapi.NewStore(context.Background(), storeapi.StoreConfig{
			FracManager: fracmanager.Config{DataDir: d, FracSize: 1 << 30, TotalSize: total, MaintenanceDelay: time.Hour, ShouldReplay: true},
			API:         storeapi.APIConfig{StoreMode: mode, Search: storeapi.SearchConfig{WorkersCount: 4, FractionsPerIteration: 2}},
		}, mp)
	}
	stop := func(s *storeapi.Store) {
		defer func() { recover() }()
		s.FracManager.WaitIdle()
		s.FracManager.Stop()
	}
	hot, err := mk("hot", storeapi.StoreModeHot, 1<<40)
	if err != nil {
		resp.Err = "hot: " + err.Error()
		return
	}
	var docs []sdoc
	var perFrac [][]sdoc
	for gi, n := range groups {
		time.Sleep(3 * time.Millisecond) // distinct creation times
		var ds []sdoc
		now := uint64(time.Now().UnixMilli())
		for i := 0; i < n; i++ {
			ds = append(ds, sdoc{seq.ID{MID: seq.MID(now), RID: seq.RID(gi*100 + i)}, []string{"a", "b"}[i%2]})
		}
		if err := appendDocs(hot.FracManager, ds); err != nil {
			resp.Err = "append: " + err.Error()
			stop(hot)
			return
		}
		hot.FracManager.SealForcedForTests()
		docs = append(docs, ds...)
		perFrac = append(perFrac, ds)
	}
	var cts, sizes []uint64
	var total uint64
	for _, f := range hot.FracManager.GetAllFracs() {
		if f.Info().DocsTotal > 0 {
			cts = append(cts, f.Info().CreationTime)
			sizes = append(sizes, f.Info().FullSize())
			total += f.Info().FullSize()
		}
	}
	stop(hot)
	if len(cts) != len(groups) || evict >= len(groups) {
		resp.Err = "layout"
		return
	}
	keep := total
	for i := 0; i < evict; i++ {
		keep -= sizes[i]
	}
	hot, err = mk("hot", storeapi.StoreModeHot, keep) // the first maintenance pass (at start) evicts the oldest fractions
	if err != nil {
		resp.Err = "hot reopen: " + err.Error()
		return
	}
	defer stop(hot)
	for i := 0; i < 400; i++ {
		n := 0
		for _, f := range hot.FracManager.GetAllFracs() {
			if f.Info().DocsTotal > 0 {
				n++
			}
		}
		if n <= len(groups)-evict && hot.FracManager.OldestCT.Load() != 0 {
			break
		}
		time.Sleep(5 * time.Millisecond)
	}
	cold, err := mk("cold", storeapi.StoreModeCold, 1<<40)
	if err != nil {
		resp.Err = "cold: " + err.Error()
		return
	}
	defer stop(cold)
	for _, ds := range perFrac {
		if err := appendDocs(cold.FracManager, ds); err != nil {
			resp.Err = "append cold: " + err.Error()
			return
		}
		cold.FracManager.SealForcedForTests()
	}
	ing := search.NewIngestor(search.Config{HotStores: &stores.Stores{Shards: [][]string{{"hot"}}}, ReadStores: &stores.Stores{Shards: [][]string{{"cold"}}}},
		map[string]pb.StoreApiClient{"hot": storeapi.NewClient(hot), "cold": storeapi.NewClient(cold)})
	var a, bb []string
	froms := []uint64{cts[0] + 1, cts[evict], cts[len(cts)-1], 0}
	if evict > 0 {
		froms = append(froms, cts[evict-1]+1, cts[evict]-1)
	}
	for fi, from := range froms {
		for _, desc := range []bool{true, false} {
			var match []seq.ID
			for _, d := range docs {
				if uint64(d.id.MID) >= from {
					match = append(match, d.id)
				}
			}
			sortIDs(match, desc)
			sr := &search.SearchRequest{Q: []byte(seq.TokenAll + ":*"), Size: 1000, From: seq.MID(from), To: seq.MID(uint64(time.Now().UnixMilli()) + 3600000),
				WithTotal: true, Order: order(desc)}
			qpr, _, _, err := ing.Search(context.Background(), sr, nil)
			got := "err"
			if err == nil {
				got = fmt.Sprintf("%d ids, total %d, first %s", len(qpr.IDs), qpr.Total, relFirst(qpr.IDs.IDs(), cts[0]))
			}
			tag := fmt.Sprintf("window#%d desc=%v: ", fi, desc)
			a = append(a, tag+fmt.Sprintf("%d ids, total %d, first %s", len(match), len(match), relFirst(match, cts[0])))
			bb = append(bb, tag+got)
		}
	}
	resp.A = strings.Join(a, " ; ")
	resp.B = []string{strings.Join(bb, " ; ")}
	return
}

func relFirst(ids []seq.ID, base uint64) string {
	if len(ids) == 0 {
		return "-"
	}
	return fmt.Sprintf("+%dms:%d", uint64(ids[0].MID)-base, uint64(ids[0].RID))
}

func genHotCold(g gen, o vh.Opts) []string {
	var lines []string
	for c := 0; c < o.Pick(6, 40); c++ {
		k := g.r.Range(2, 4)
		var gs []string
		for i := 0; i < k; i++ {
			gs = append(gs, fmt.Sprint(g.r.Range(1, 4)))
		}
		lines = append(lines, fmt.Sprintf("syshotcold groups=%s evict=%d", strings.Join(gs, ","), g.r.Range(1, k-1)))
	}
	return lines
}

// ---------------------------------------------------------------- pages behind the 100000th hit (scripted stores)
// proxybig counts=<n,n,...> offset=<o> size=<s> desc=<0|1> : every shard is a scripted store holding `n` synthetic ids and
// answering as the store contract says (its first Size+Offset ids in the requested order, total = n); the real proxy must
// return the window [offset, offset+size) of the merged list - with the DEFAULT conf.MaxRequestedDocuments (100000).

type bigStore struct {
	pb.StoreApiClient
	ids []seq.ID // in descending order
}

func (s *bigStore) Search(_ context.Context, in *pb.SearchRequest, _ ...grpc.CallOption) (*pb.SearchResponse, error) {
	n := int(in.Size + in.Offset)
	n = max(0, min(n, len(s.ids)))
	buf := make([]pb.SearchResponse_IdWithHint, n)
	idb := make([]pb.SearchResponse_Id, n)
	out := make([]*pb.SearchResponse_IdWithHint, n)
	asc := in.Order == pb.Order_ORDER_ASC
	for i := 0; i < n; i++ {
		id := s.ids[i]
		if asc {
			id = s.ids[len(s.ids)-1-i]
		}
		idb[i] = pb.SearchResponse_Id{Mid: uint64(id.MID), Rid: uint64(id.RID)}
		buf[i].Id = &idb[i]
		out[i] = &buf[i]
	}
	return &pb.SearchResponse{IdSources: out, Total: uint64(len(s.ids)), Histogram: map[uint64]uint64{}}, nil
}

func runProxyBig(line string) (got, want string) {
	m := kv(strings.Fields(line)[1:])
	clients := map[string]pb.StoreApiClient{}
	var hosts [][]string
	var all []seq.ID
	next := uint64(10_000_000)
	for i, c := range splitList(m["counts"], ",") {
		st := &bigStore{}
		for j := 0; j < atoi(c); j++ { // shard i owns a contiguous, leading block of the order
			st.ids = append(st.ids, seq.ID{MID: seq.MID(next), RID: seq.RID(i)})
			next--
		}
		all = append(all, st.ids...)
		h := fmt.Sprintf("big%d", i)
		clients[h] = st
		hosts = append(hosts, []string{h})
	}
	desc := m["desc"] == "1"
	if !desc {
		for i, j := 0, len(all)-1; i < j; i, j = i+1, j-1 {
			all[i], all[j] = all[j], all[i]
		}
	}
	off, size := atoi(m["offset"]), atoi(m["size"])
	lo, hi := min(off, len(all)), min(off+size, len(all))
	want = fmt.Sprintf("%d ids %s total %d", hi-lo, fmtIDs(all[lo:hi]), len(all))
	ing := search.NewIngestor(search.Config{HotStores: &stores.Stores{Shards: hosts}}, clients)
	sr := &search.SearchRequest{Q: []byte("service:a"), Offset: off, Size: size, From: 0, To: seq.MID(1 << 62), WithTotal: true, Order: order(desc)}
	qpr, _, _, err := ing.Search(context.Background(), sr, nil)
	if err != nil {
		return "err", want
	}
	return fmt.Sprintf("%d ids %s total %d", len(qpr.IDs), fmtIDs(qpr.IDs.IDs()), qpr.Total), want
}

func runProxyBigCases(orc *vh.Oracle, rep *vh.Report, lines []string) {
	for _, line := range lines {
		got, want := runProxyBig(line)
		orc.Case(line, true, "behind-100000")
		if got != want {
			if len(got) > 300 {
				got = got[:300] + "..."
			}
			if len(want) > 300 {
				want = want[:300] + "..."
			}
			rep.Violate(vh.Violation{Site: "proxy/search/search_request.go:GetAPISearchRequest", Class: "page-short-behind-max-requested-documents",
				What: fmt.Sprintf("page of the merged list: %s ; proxy: %s", want, got), Replay: []string{line}})
		}
	}
}

func genProxyBig(g gen, o vh.Opts) []string {
	var lines []string
	for _, counts := range []string{"150000", "120000,30000", "30000,120000"} {
		for i := 0; i < o.Pick(2, 6); i++ {
			lines = append(lines, fmt.Sprintf("proxybig counts=%s offset=%d size=%d desc=%s", counts, 99990+g.r.Intn(10011), []int{5, 20, 50}[g.r.Intn(3)], b(g.r.Bool())))
		}
	}
	return lines
}
