// Aggregations through seq.MergeQPRs (C05):
//
//	mergeaggs <dstAggs> <aggs;aggs;...>   aggs = nil | - | agg&agg, agg = <notExists>#<bin>+<bin>...,
//	          bin = <mid>~<token hex>~<min>~<max>~<sum>~<total>~<notExists>~<samples '.'>  (min/max x when total = 0)
//	          real seq.MergeQPRs (aggregation part) vs SV.Merge.mergeAggs (channel qpr.mergeaggs); the generated pieces
//	          contain containers with Total == 0 && NotExists > 0 in every position (first, middle, last)
//	sysagg    (sys.go child) real fractions: sum aggregation over a value field, the newest fraction holds only value-less
//	          documents of a group; one fraction vs k fractions, both orders, full buckets incl. NotExists
package main

import (
	"context"
	"fmt"
	"os"
	"path/filepath"
	"sort"
	"strconv"
	"strings"

	"github.com/ozontech/seq-db/frac"
	"github.com/ozontech/seq-db/frac/processor"
	"github.com/ozontech/seq-db/fracmanager"
	"github.com/ozontech/seq-db/parser"
	"github.com/ozontech/seq-db/seq"

	"verifharness/internal/vh"
)

func parseAggsText(s string) []seq.AggregatableSamples {
	if s == "nil" {
		return nil
	}
	res := []seq.AggregatableSamples{}
	for _, a := range splitList(s, "&") {
		nb := strings.SplitN(a, "#", 2)
		agg := seq.AggregatableSamples{SamplesByBin: map[seq.AggBin]*seq.SamplesContainer{}}
		agg.NotExists, _ = strconv.ParseInt(nb[0], 10, 64)
		for _, b := range splitList(nb[1], "+") {
			f := strings.Split(b, "~")
			c := seq.NewSamplesContainers()
			if f[2] != "x" {
				v, _ := strconv.ParseInt(f[2], 10, 64)
				c.Min = float64(v)
			}
			if f[3] != "x" {
				v, _ := strconv.ParseInt(f[3], 10, 64)
				c.Max = float64(v)
			}
			v, _ := strconv.ParseInt(f[4], 10, 64)
			c.Sum = float64(v)
			c.Total, _ = strconv.ParseInt(f[5], 10, 64)
			c.NotExists, _ = strconv.ParseInt(f[6], 10, 64)
			for _, sm := range splitList(f[7], ".") {
				v, _ := strconv.ParseInt(sm, 10, 64)
				c.Samples = append(c.Samples, float64(v))
			}
			agg.SamplesByBin[seq.AggBin{MID: seq.MID(atou(f[0])), Token: f[1]}] = c
		}
		res = append(res, agg)
	}
	return res
}

func fmtAggsText(aggs []seq.AggregatableSamples) string {
	if aggs == nil {
		return "nil"
	}
	var as []string
	for _, a := range aggs {
		type kb struct {
			mid uint64
			tok string
			s   string
		}
		var bins []kb
		for bin, c := range a.SamplesByBin {
			mm := "x~x"
			if c.Total != 0 {
				mm = fmt.Sprintf("%d~%d", int64(c.Min), int64(c.Max))
			}
			var sm []int64
			for _, v := range c.Samples {
				sm = append(sm, int64(v))
			}
			sort.Slice(sm, func(i, j int) bool { return sm[i] < sm[j] })
			var sms []string
			for _, v := range sm {
				sms = append(sms, fmt.Sprint(v))
			}
			bins = append(bins, kb{uint64(bin.MID), bin.Token, fmt.Sprintf("%d~%s~%s~%d~%d~%d~%s", uint64(bin.MID), bin.Token, mm, int64(c.Sum), c.Total, c.NotExists, vh.JoinStrs(sms, "."))})
		}
		sort.Slice(bins, func(i, j int) bool {
			if bins[i].mid != bins[j].mid {
				return bins[i].mid < bins[j].mid
			}
			return bins[i].tok < bins[j].tok
		})
		var bs []string
		for _, b := range bins {
			bs = append(bs, b.s)
		}
		as = append(as, fmt.Sprintf("%d#%s", a.NotExists, vh.JoinStrs(bs, "+")))
	}
	return vh.JoinStrs(as, "&")
}

func runMergeAggs(line string) (res string) {
	defer func() {
		if r := recover(); r != nil {
			res = "panic"
			if strings.Contains(fmt.Sprint(r), "index out of range") {
				res = "panic index"
			}
		}
	}()
	f := strings.Fields(line)
	dst := &seq.QPR{Aggs: parseAggsText(f[1])}
	var qs []*seq.QPR
	for _, q := range splitList(f[2], ";") {
		qs = append(qs, &seq.QPR{Aggs: parseAggsText(q)})
	}
	seq.MergeQPRs(dst, qs, 0, 0, seq.DocsOrderDesc)
	return "ok " + fmtAggsText(dst.Aggs)
}

// one container text; kind 0: values, 1: Total == 0 && NotExists > 0, 2: Total == 0 && NotExists == 0
func (g gen) container(mid int, tok string, kind int) string {
	switch kind {
	case 1:
		return fmt.Sprintf("%d~%s~x~x~0~0~%d~-", mid, tok, g.r.Range(1, 4))
	case 2:
		return fmt.Sprintf("%d~%s~x~x~0~0~0~-", mid, tok)
	}
	n := g.r.Range(1, 3)
	var vals []int
	sum, mn, mx := 0, 1<<30, -(1 << 30)
	var sm []string
	for i := 0; i < n; i++ {
		v := g.r.Intn(41) - 20
		vals = append(vals, v)
		sum += v
		mn, mx = min(mn, v), max(mx, v)
		sm = append(sm, fmt.Sprint(v))
	}
	samples := "-"
	if g.r.Bool() {
		samples = strings.Join(sm, ".")
	}
	return fmt.Sprintf("%d~%s~%d~%d~%d~%d~%d~%s", mid, tok, mn, mx, sum, n, g.r.Intn(3), samples)
}

func genMergeAggs(g gen, ch *vh.Channel, orc *vh.Oracle, rep *vh.Report, n int) {
	toks := []string{"61", "62", "617c62"}
	for i := 0; i < n; i++ {
		pieces := g.r.Range(1, 5)
		valuelessAt := g.r.Intn(pieces) // the piece that holds only value-less documents of bin (0, "61")
		nagg := g.r.Range(1, 2)
		var qs []string
		for p := 0; p < pieces; p++ {
			var aggs []string
			for a := 0; a < nagg; a++ {
				var bins []string
				seen := map[string]bool{}
				if a == 0 {
					kind := 0
					if p == valuelessAt {
						kind = 1
					} else if g.r.Chance(1, 5) {
						kind = -1 // bin absent from this piece
					}
					if kind >= 0 {
						bins = append(bins, g.container(0, "61", kind))
						seen["0~61"] = true
					}
				}
				for b := 0; b < g.r.Intn(3); b++ {
					mid, tok := []int{0, 0, 1000}[g.r.Intn(3)], toks[g.r.Intn(len(toks))]
					if seen[fmt.Sprintf("%d~%s", mid, tok)] {
						continue
					}
					seen[fmt.Sprintf("%d~%s", mid, tok)] = true
					bins = append(bins, g.container(mid, tok, []int{0, 0, 0, 1, 2}[g.r.Intn(5)]))
				}
				aggs = append(aggs, fmt.Sprintf("%d#%s", g.r.Intn(3), vh.JoinStrs(bins, "+")))
			}
			qs = append(qs, strings.Join(aggs, "&"))
		}
		dst := "nil"
		switch g.r.Intn(4) {
		case 0:
			dst = strings.TrimSuffix(strings.Repeat("0#-&", nagg), "&") // make([]AggregatableSamples, n) as SearchDocs / the proxy do
		case 1:
			dst = "-"
			if g.r.Bool() {
				dst = "0#-"
			}
		}
		line := fmt.Sprintf("mergeaggs %s %s", dst, strings.Join(qs, ";"))
		got := runMergeAggs(line)
		pos := "middle"
		if valuelessAt == 0 {
			pos = "first"
		} else if valuelessAt == pieces-1 {
			pos = "last"
		}
		ch.Add(line, got, pieces > 1, "valueless-piece="+pos, fmt.Sprintf("pieces=%d", pieces), "answer="+strings.Fields(got)[0])
		// the property on the implementation: the merge order of the pieces does not matter
		if strings.HasPrefix(got, "ok") && pieces > 1 && dst != "-" {
			rev := make([]string, len(qs))
			for j := range qs {
				rev[len(qs)-1-j] = qs[j]
			}
			line2 := fmt.Sprintf("mergeaggs %s %s", dst, strings.Join(rev, ";"))
			got2 := runMergeAggs(line2)
			orc.Case(line, true, "valueless-piece="+pos)
			if stripMinMaxSamples(got) != stripMinMaxSamples(got2) {
				rep.Violate(vh.Violation{Site: "seq/qpr.go:SamplesContainer.Merge", Class: "aggregation-depends-on-merge-order",
					What: fmt.Sprintf("pieces in order: %s ; reversed: %s", got, got2), Replay: []string{line, line2}})
			}
		}
	}
}

// total / notExists / sum per bin (samples order and min/max of empty bins aside)
func stripMinMaxSamples(s string) string {
	var out []string
	for _, a := range strings.Split(strings.TrimPrefix(s, "ok "), "&") {
		nb := strings.SplitN(a, "#", 2)
		if len(nb) != 2 {
			return s
		}
		var bs []string
		for _, b := range splitList(nb[1], "+") {
			f := strings.Split(b, "~")
			if len(f) == 8 {
				bs = append(bs, strings.Join([]string{f[0], f[1], f[4], f[5], f[6]}, "~"))
			}
		}
		out = append(out, nb[0]+"#"+strings.Join(bs, "+"))
	}
	return strings.Join(out, "&")
}

// ---------------------------------------------------------------- system case (child)
// sysagg docs=<mid:rid:svc:val|-,...> layout=<i,i;i;...>   (fractions in the given order: the LAST one is the newest)

func runSysAgg(root, line string) (resp sysResp) {
	defer func() {
		if r := recover(); r != nil {
			resp.Err = "panic: " + fmt.Sprint(r)
		}
	}()
	m := kv(strings.Fields(line)[1:])
	switch m["limits"] { // aggregation limits of the fractions: none, the binary's defaults, small ones
	case "prod":
		childAggLimits = processor.AggLimits{MaxFieldTokens: 1000000, MaxGroupTokens: 2000, MaxTIDsPerFraction: 100000}
	case "small":
		childAggLimits = processor.AggLimits{MaxFieldTokens: 200, MaxGroupTokens: 100, MaxTIDsPerFraction: 1000}
	default:
		childAggLimits = processor.AggLimits{}
	}
	defer func() { childAggLimits = processor.AggLimits{} }()
	type adoc struct {
		id       seq.ID
		svc, val string
	}
	var docs []adoc
	for _, e := range splitList(m["docs"], ",") {
		p := strings.Split(e, ":")
		docs = append(docs, adoc{seq.ID{MID: seq.MID(atou(p[0])), RID: seq.RID(atou(p[1]))}, p[2], p[3]})
	}
	var layout [][]int
	for _, fr := range strings.Split(m["layout"], ";") {
		var idx []int
		for _, e := range splitList(fr, ",") {
			idx = append(idx, atoi(e))
		}
		layout = append(layout, idx)
	}
	dir, err := os.MkdirTemp(root, "agg")
	if err != nil {
		resp.Err = err.Error()
		return
	}
	defer os.RemoveAll(dir)
	var fms []*fracmanager.FracManager
	defer func() {
		for _, fm := range fms {
			fm.WaitIdle()
			fm.Stop()
		}
	}()
	build := func(name string, groups [][]int) (fracmanager.List, error) {
		var l fracmanager.List
		for j, idx := range groups {
			fm, err := newFM(filepath.Join(dir, fmt.Sprintf("%s-f%d", name, j)))
			if err != nil {
				return nil, err
			}
			fms = append(fms, fm)
			dp := frac.NewDocProvider()
			for _, i := range idx {
				d := docs[i]
				toks := []string{"_all_:", "service:" + d.svc}
				if d.val != "-" {
					toks = append(toks, "request_duration:"+d.val)
				}
				dp.Append([]byte(`{"service":"`+d.svc+`"}`), nil, d.id, seq.Tokens(toks...))
			}
			if dp.DocCount > 0 {
				dm, mm := dp.Provide()
				if err := fm.Append(context.Background(), dm, mm); err != nil {
					return nil, err
				}
				fm.WaitIdle()
			}
			if j%2 == 0 {
				fm.SealForcedForTests()
			}
			l = append(l, fm.GetAllFracs()...)
		}
		return l, nil
	}
	all := make([]int, len(docs))
	for i := range all {
		all[i] = i
	}
	one, err := build("a", [][]int{all})
	if err != nil {
		resp.Err = "build A: " + err.Error()
		return
	}
	many, err := build("b", layout)
	if err != nil {
		resp.Err = "build B: " + err.Error()
		return
	}
	star := []parser.Term{{Kind: parser.TermSymbol, Data: "*"}}
	ast, err := parser.ParseSeqQL(seq.TokenAll+":*", seq.TestMapping)
	if err != nil {
		resp.Err = err.Error()
		return
	}
	var a, bb []string
	for _, fn := range []seq.AggFunc{seq.AggFuncSum, seq.AggFuncMin, seq.AggFuncCount} {
		for _, desc := range []bool{true, false} {
			aq := processor.AggQuery{GroupBy: &parser.Literal{Field: "service", Terms: star}, Field: &parser.Literal{Field: "request_duration", Terms: star}, Func: fn}
			if fn == seq.AggFuncCount {
				aq.Field = nil
			}
			p := processor.SearchParams{AST: ast.Root, From: 0, To: seq.MID(1 << 40), Limit: 3, Order: order(desc), AggQ: []processor.AggQuery{aq}}
			run := func(l fracmanager.List, per int) (string, error) {
				q, err := fracmanager.NewSearcher(4, fracmanager.SearcherCfg{FractionsPerIteration: per}).SearchDocs(context.Background(), append(fracmanager.List(nil), l...), p)
				if err != nil {
					return "", err
				}
				return fmtAggsText(q.Aggs), nil
			}
			ra, err1 := run(one, 0)
			if err1 != nil {
				resp.Err = err1.Error()
				return
			}
			for per := 0; per <= 2; per++ {
				rb, err2 := run(many, per)
				if err2 != nil {
					resp.Err = err2.Error()
					return
				}
				tag := fmt.Sprintf("fn=%d desc=%v per=%d: ", fn, desc, per)
				a, bb = append(a, tag+stripMinMaxSamples("ok "+ra)), append(bb, tag+stripMinMaxSamples("ok "+rb))
			}
		}
	}
	resp.A = strings.Join(a, " ; ")
	resp.B = []string{strings.Join(bb, " ; ")}
	return
}

func genSysAgg(g gen, o vh.Opts) []string {
	var lines []string
	for c := 0; c < o.Pick(10, 100); c++ {
		k := g.r.Range(2, 4)
		var docs []string
		layout := make([][]int, k)
		mid := 1
		add := func(fr int, svc, val string) {
			layout[fr] = append(layout[fr], len(docs))
			docs = append(docs, fmt.Sprintf("%d:%d:%s:%s", mid, g.r.Intn(2), svc, val))
			mid += 1 + g.r.Intn(3)
		}
		// fractions in time order; the newest (last) holds only value-less documents of group a
		for fr := 0; fr < k; fr++ {
			for i := 0; i < g.r.Range(1, 4); i++ {
				svc := []string{"a", "b"}[g.r.Intn(2)]
				val := fmt.Sprint(g.r.Intn(50))
				if fr == k-1 && svc == "a" || g.r.Chance(1, 4) {
					val = "-"
				}
				add(fr, svc, val)
			}
		}
		add(k-1, "a", "-")
		add(0, "a", fmt.Sprint(1+g.r.Intn(9)))
		var lay []string
		for _, idx := range layout {
			lay = append(lay, vh.JoinInts(idx))
		}
		lines = append(lines, fmt.Sprintf("sysagg limits=%s docs=%s layout=%s", []string{"0", "prod", "small"}[g.r.Intn(3)], strings.Join(docs, ","), strings.Join(lay, ";")))
	}
	// group-by over a field with 20-30 distinct values, each occurring several times in every fraction, under the
	// binary's (and small) aggregation limits: the token text of a group must not depend on the fraction's TID numbering
	for c := 0; c < o.Pick(8, 80); c++ {
		k := g.r.Range(2, 4)
		nvals := g.r.Range(20, 30)
		var docs []string
		layout := make([][]int, k)
		mid := 1
		for i := 0; i < nvals*g.r.Range(3, 5); i++ {
			fr := g.r.Intn(k)
			val := "-"
			if g.r.Chance(2, 3) {
				val = fmt.Sprint(g.r.Intn(30))
			}
			layout[fr] = append(layout[fr], len(docs))
			docs = append(docs, fmt.Sprintf("%d:%d:s%02d:%s", mid, g.r.Intn(2), g.r.Intn(nvals), val))
			mid += 1 + g.r.Intn(2)
		}
		var lay []string
		for _, idx := range layout {
			lay = append(lay, vh.JoinInts(idx))
		}
		lines = append(lines, fmt.Sprintf("sysagg limits=%s docs=%s layout=%s", []string{"prod", "prod", "small"}[g.r.Intn(3)], strings.Join(docs, ","), strings.Join(lay, ";")))
	}
	return lines
}

// ---------------------------------------------------------------- bulks into one active fraction (child)
// sysbulks docs=<mid:rid:svc,...> cuts=<i,j,...> : one ACTIVE fraction; layout A: all documents in ONE bulk; layout B: the
// documents arrive in several bulks (cut before index i, j, ...) with a search between the bulks (which materialises the
// token LID lists), then the same searches: every limit 1..n, both orders, every query; then both are sealed and searched
// again.  Documents of the same millisecond with different RIDs arrive in different bulks, out of RID order.

func runSysBulks(root, line string) (resp sysResp) {
	defer func() {
		if r := recover(); r != nil {
			resp.Err = "panic: " + fmt.Sprint(r)
		}
	}()
	m := kv(strings.Fields(line)[1:])
	var docs []sdoc
	for _, e := range splitList(m["docs"], ",") {
		p := strings.Split(e, ":")
		docs = append(docs, sdoc{seq.ID{MID: seq.MID(atou(p[0])), RID: seq.RID(atou(p[1]))}, p[2]})
	}
	var cuts []int
	for _, e := range splitList(m["cuts"], ",") {
		cuts = append(cuts, atoi(e))
	}
	dir, err := os.MkdirTemp(root, "bulks")
	if err != nil {
		resp.Err = err.Error()
		return
	}
	defer os.RemoveAll(dir)
	var fms []*fracmanager.FracManager
	defer func() {
		for _, fm := range fms {
			fm.WaitIdle()
			fm.Stop()
		}
	}()
	star, _ := parser.ParseSeqQL(seq.TokenAll+":*", seq.TestMapping)
	svcA, _ := parser.ParseSeqQL("service:a", seq.TestMapping)
	searchAll := func(fm *fracmanager.FracManager) string {
		var out []string
		for qi, ast := range []*parser.ASTNode{star.Root, svcA.Root} {
			for _, desc := range []bool{true, false} {
				for limit := 1; limit <= len(docs); limit++ {
					p := processor.SearchParams{AST: ast, From: 0, To: seq.MID(1 << 40), Limit: limit, WithTotal: limit%2 == 0, Order: order(desc)}
					q, err := fracmanager.NewSearcher(2, fracmanager.SearcherCfg{}).SearchDocs(context.Background(), fm.GetAllFracs(), p)
					if err != nil {
						out = append(out, "err")
						continue
					}
					out = append(out, fmt.Sprintf("q%d desc=%v limit=%d: %s/%d", qi, desc, limit, fmtIDs(q.IDs.IDs()), q.Total))
				}
			}
		}
		return strings.Join(out, " ; ")
	}
	appendBulk := func(fm *fracmanager.FracManager, ds []sdoc) error {
		dp := frac.NewDocProvider()
		for _, d := range ds {
			dp.Append([]byte(`{"service":"`+d.svc+`"}`), nil, d.id, seq.Tokens("_all_:", "service:"+d.svc))
		}
		dm, mm := dp.Provide()
		if err := fm.Append(context.Background(), dm, mm); err != nil {
			return err
		}
		fm.WaitIdle()
		return nil
	}
	fmA, err := newFM(filepath.Join(dir, "a"))
	if err != nil {
		resp.Err = err.Error()
		return
	}
	fms = append(fms, fmA)
	fmB, err := newFM(filepath.Join(dir, "b"))
	if err != nil {
		resp.Err = err.Error()
		return
	}
	fms = append(fms, fmB)
	if err := appendBulk(fmA, docs); err != nil {
		resp.Err = err.Error()
		return
	}
	lo := 0
	for _, c := range append(cuts, len(docs)) {
		if c > lo {
			if err := appendBulk(fmB, docs[lo:c]); err != nil {
				resp.Err = err.Error()
				return
			}
			searchAll(fmB) // a search between the bulks
			lo = c
		}
	}
	a1, b1 := searchAll(fmA), searchAll(fmB)
	fmA.SealForcedForTests()
	fmB.SealForcedForTests()
	a2, b2 := searchAll(fmA), searchAll(fmB)
	resp.A = "active: " + a1 + " ; sealed: " + a2
	resp.B = []string{"active: " + b1 + " ; sealed: " + b2}
	return
}

func genSysBulks(g gen, o vh.Opts) []string {
	var lines []string
	for c := 0; c < o.Pick(25, 250); c++ {
		n := g.r.Range(3, 9)
		seen := map[seq.ID]bool{}
		var docs []string
		mids := []int{5, 5, 5, 6, 7, 7, 9}
		for len(docs) < n {
			id := seq.ID{MID: seq.MID(mids[g.r.Intn(len(mids))]), RID: seq.RID(g.r.Intn(6))}
			if seen[id] {
				continue
			}
			seen[id] = true
			docs = append(docs, fmt.Sprintf("%d:%d:%s", id.MID, id.RID, []string{"a", "a", "b"}[g.r.Intn(3)]))
		}
		var cuts []string
		for i := 1; i < n; i++ {
			if g.r.Chance(1, 2) {
				cuts = append(cuts, fmt.Sprint(i))
			}
		}
		if len(cuts) == 0 {
			cuts = []string{fmt.Sprint(1 + g.r.Intn(n-1))}
		}
		lines = append(lines, fmt.Sprintf("sysbulks docs=%s cuts=%s", strings.Join(docs, ","), strings.Join(cuts, ",")))
	}
	return lines
}

// ---------------------------------------------------------------- long token values, sealed fractions re-read from disk
// syslong values=<n> k=<fractions> : keyword values of 72+ bytes sharing their first 72 bytes; layout A: one ACTIVE
// fraction; layout B: k sealed fractions whose FracManager is stopped and re-opened (token tables re-read from disk).
// Exact queries for every value, a prefix query, both orders: same ids and totals.

func runSysLong(root, line string) (resp sysResp) {
	defer func() {
		if r := recover(); r != nil {
			resp.Err = "panic: " + fmt.Sprint(r)
		}
	}()
	m := kv(strings.Fields(line)[1:])
	n, k := atoi(m["values"]), atoi(m["k"])
	dir, err := os.MkdirTemp(root, "long")
	if err != nil {
		resp.Err = err.Error()
		return
	}
	defer os.RemoveAll(dir)
	prefix := strings.Repeat("p", 72)
	val := func(i int) string { return fmt.Sprintf("%s%03d-tail", prefix, i%n) }
	var fms []*fracmanager.FracManager
	defer func() {
		for _, fm := range fms {
			fm.WaitIdle()
			fm.Stop()
		}
	}()
	ndocs := 3 * n
	ingest := func(fm *fracmanager.FracManager, lo, hi int) error {
		dp := frac.NewDocProvider()
		for i := lo; i < hi; i++ {
			dp.Append([]byte(`{"x":1}`), nil, seq.ID{MID: seq.MID(i + 1), RID: seq.RID(i % 2)}, seq.Tokens("_all_:", "service:"+val(i)))
		}
		dm, mm := dp.Provide()
		if err := fm.Append(context.Background(), dm, mm); err != nil {
			return err
		}
		fm.WaitIdle()
		return nil
	}
	fmA, err := newFM(filepath.Join(dir, "a"))
	if err != nil {
		resp.Err = err.Error()
		return
	}
	fms = append(fms, fmA)
	if err := ingest(fmA, 0, ndocs); err != nil {
		resp.Err = err.Error()
		return
	}
	var listB fracmanager.List
	for j := 0; j < k; j++ {
		d := filepath.Join(dir, fmt.Sprintf("b%d", j))
		fm, err := newFM(d)
		if err != nil {
			resp.Err = err.Error()
			return
		}
		if err := ingest(fm, j*ndocs/k, (j+1)*ndocs/k); err != nil {
			resp.Err = err.Error()
			return
		}
		fm.SealForcedForTests()
		fm.WaitIdle()
		fm.Stop()
		fm2, err := newFM(d) // "restart": the sealed fraction is loaded from its files
		if err != nil {
			resp.Err = "reopen: " + err.Error()
			return
		}
		fms = append(fms, fm2)
		listB = append(listB, fm2.GetAllFracs()...)
	}
	var a, bb []string
	queries := []string{`service:"` + prefix + `*"`}
	for i := 0; i < n; i++ {
		queries = append(queries, `service:"`+val(i)+`"`)
	}
	for qi, qs := range queries {
		ast, err := parser.ParseSeqQL(qs, seq.TestMapping)
		if err != nil {
			resp.Err = "query: " + err.Error()
			return
		}
		for _, desc := range []bool{true, false} {
			p := processor.SearchParams{AST: ast.Root, From: 0, To: seq.MID(1 << 40), Limit: 4, WithTotal: true, Order: order(desc)}
			run := func(l fracmanager.List) string {
				q, err := fracmanager.NewSearcher(2, fracmanager.SearcherCfg{FractionsPerIteration: 1}).SearchDocs(context.Background(), append(fracmanager.List(nil), l...), p)
				if err != nil {
					return "err"
				}
				return fmt.Sprintf("%s/%d", fmtIDs(q.IDs.IDs()), q.Total)
			}
			tag := fmt.Sprintf("q%d desc=%v: ", qi, desc)
			a, bb = append(a, tag+run(fmA.GetAllFracs())), append(bb, tag+run(listB))
		}
	}
	resp.A = strings.Join(a, " ; ")
	resp.B = []string{strings.Join(bb, " ; ")}
	return
}
