// System oracle of C05 on real fractions.  The work is done in a child process (a FracManager can logger.Fatal
// and owns background goroutines): the parent sends `sys ...` lines on stdin, the child answers one JSON line each.
//
//	sys docs=<mid:rid:svc,...> layout=<i,i;i;...> sealed=<bits, one per fraction> one=<0|1: the single fraction is sealed>
//	    q=<a|b|c|*> desc=<0|1> wt=<0|1> hi=<n> agg=<0|1> limit=<n> from=<n> to=<n>
//
// Layout A: all documents in one fraction.  Layout B: fraction j holds the documents layout[j] and is sealed iff
// sealed[j]; the fractions live in separate FracManagers so that several *active* fractions can coexist with
// sealed ones; the Searcher gets the concatenated fraction lists (plus the empty active fractions left by sealing).
package main

import (
	"bufio"
	"context"
	"encoding/json"
	"fmt"
	"os"
	"os/exec"
	"path/filepath"
	"sort"
	"strings"
	"time"

	"go.uber.org/zap"

	"github.com/ozontech/seq-db/frac"
	"github.com/ozontech/seq-db/frac/processor"
	"github.com/ozontech/seq-db/fracmanager"
	"github.com/ozontech/seq-db/logger"
	"github.com/ozontech/seq-db/parser"
	"github.com/ozontech/seq-db/seq"

	"verifharness/internal/vh"
)

type sdoc struct {
	id  seq.ID
	svc string
}

type sysReq struct {
	docs   []sdoc
	layout [][]int
	sealed []bool
	one    bool
	q      string
	desc   bool
	wt     bool
	hi     uint64
	agg    bool
	limit  int
	from   uint64
	to     uint64
}

type sysResp struct {
	A     string   `json:"a"`     // one fraction, FractionsPerIteration 0
	B     []string `json:"b"`     // k fractions, FractionsPerIteration 0..k
	Fracs string   `json:"fracs"` // real Info + match sets of layout B, in the searchdocs line format
	Err   string   `json:"err,omitempty"`
}

func kv(f []string) map[string]string {
	m := map[string]string{}
	for _, e := range f {
		if i := strings.IndexByte(e, '='); i > 0 {
			m[e[:i]] = e[i+1:]
		}
	}
	return m
}

func parseSys(line string) (sysReq, error) {
	m := kv(strings.Fields(line)[1:])
	var r sysReq
	for _, e := range splitList(m["docs"], ",") {
		p := strings.Split(e, ":")
		if len(p) != 3 {
			return r, fmt.Errorf("bad doc %q", e)
		}
		r.docs = append(r.docs, sdoc{seq.ID{MID: seq.MID(atou(p[0])), RID: seq.RID(atou(p[1]))}, p[2]})
	}
	for _, fr := range strings.Split(m["layout"], ";") {
		var idx []int
		for _, e := range splitList(fr, ",") {
			idx = append(idx, atoi(e))
		}
		r.layout = append(r.layout, idx)
	}
	for _, c := range m["sealed"] {
		r.sealed = append(r.sealed, c == '1')
	}
	if len(r.sealed) != len(r.layout) {
		return r, fmt.Errorf("sealed/layout length mismatch")
	}
	r.one, r.q, r.desc, r.wt, r.agg = m["one"] == "1", m["q"], m["desc"] == "1", m["wt"] == "1", m["agg"] == "1"
	r.hi, r.limit, r.from, r.to = atou(m["hi"]), atoi(m["limit"]), atou(m["from"]), atou(m["to"])
	return r, nil
}

type store struct {
	fms   []*fracmanager.FracManager
	fracs fracmanager.List
	dir   string
}

func (s *store) close() {
	for _, fm := range s.fms {
		fm.WaitIdle()
		fm.Stop()
	}
	os.RemoveAll(s.dir)
}

// childAggLimits: the aggregation limits the fractions created by newFM are configured with (zero = the testing
// default; the seq-db binary runs with non-zero defaults, which switch on source counting and the token cache of
// SourcedNodeIterator.ValueBySource).  Set per case by the child, which handles one line at a time.
var childAggLimits processor.AggLimits

func newFM(dir string) (*fracmanager.FracManager, error) {
	if err := os.MkdirAll(dir, 0o755); err != nil {
		return nil, err
	}
	fm := fracmanager.NewFracManager(&fracmanager.Config{DataDir: dir, FracSize: 1 << 30, TotalSize: 1 << 40, ShouldReplay: false,
		MaintenanceDelay: time.Hour, Fraction: frac.Config{Search: frac.SearchConfig{AggLimits: frac.AggLimits(childAggLimits)}}})
	if err := fm.Load(context.Background()); err != nil {
		return nil, err
	}
	fm.Start()
	return fm, nil
}

func appendDocs(fm *fracmanager.FracManager, docs []sdoc) error {
	// several bulks per fraction, so that the active index has more than one sub-list
	for lo := 0; lo < len(docs); lo += 3 {
		dp := frac.NewDocProvider()
		for _, d := range docs[lo:min(lo+3, len(docs))] {
			body := []byte(fmt.Sprintf(`{"service":%q,"mid":%d,"rid":%d}`, d.svc, d.id.MID, d.id.RID))
			dp.Append(body, nil, d.id, seq.Tokens("_all_:", "service:"+d.svc))
		}
		dm, mm := dp.Provide()
		if err := fm.Append(context.Background(), dm, mm); err != nil {
			return err
		}
	}
	fm.WaitIdle()
	return nil
}

func buildStore(root string, docs []sdoc, layout [][]int, sealed []bool) (*store, error) {
	dir, err := os.MkdirTemp(root, "st")
	if err != nil {
		return nil, err
	}
	s := &store{dir: dir}
	for j, idx := range layout {
		fm, err := newFM(filepath.Join(dir, fmt.Sprintf("f%d", j)))
		if err != nil {
			return s, err
		}
		s.fms = append(s.fms, fm)
		var ds []sdoc
		for _, i := range idx {
			ds = append(ds, docs[i])
		}
		if err := appendDocs(fm, ds); err != nil {
			return s, err
		}
		if sealed[j] {
			fm.SealForcedForTests()
		}
		s.fracs = append(s.fracs, fm.GetAllFracs()...)
	}
	return s, nil
}

func fmtAgg(q *seq.QPR) string {
	if len(q.Aggs) == 0 {
		return ""
	}
	var parts []string
	for bin, h := range q.Aggs[0].SamplesByBin {
		parts = append(parts, fmt.Sprintf("%s@%d=%d", bin.Token, bin.MID, h.Total))
	}
	sort.Strings(parts)
	return fmt.Sprintf(" agg=%s;ne=%d", strings.Join(parts, ","), q.Aggs[0].NotExists)
}

func (r sysReq) params() (processor.SearchParams, error) {
	query := "service:" + r.q
	if r.q == "*" {
		query = seq.TokenAll + ":*"
	}
	ast, err := parser.ParseSeqQL(query, seq.TestMapping)
	if err != nil {
		return processor.SearchParams{}, err
	}
	p := processor.SearchParams{AST: ast.Root, HistInterval: r.hi, From: seq.MID(r.from), To: seq.MID(r.to), Limit: r.limit,
		WithTotal: r.wt, Order: order(r.desc)}
	if r.agg {
		p.AggQ = []processor.AggQuery{{GroupBy: &parser.Literal{Field: "service", Terms: []parser.Term{{Kind: parser.TermSymbol, Data: "*"}}}, Func: seq.AggFuncCount}}
	}
	return p, nil
}

func search1(fracs fracmanager.List, p processor.SearchParams, per int) (string, error) {
	s := fracmanager.NewSearcher(4, fracmanager.SearcherCfg{FractionsPerIteration: per})
	l := append(fracmanager.List(nil), fracs...)
	q, err := s.SearchDocs(context.Background(), l, p)
	if err != nil {
		return "", err
	}
	return fmtQPR(q) + fmtAgg(q), nil
}

func sysChild() {
	logger.SetLevel(zap.FatalLevel)
	root, err := os.MkdirTemp("", "c05sys")
	if err != nil {
		fmt.Println(`{"err":"tmpdir"}`)
		return
	}
	defer os.RemoveAll(root)
	var curKey string
	var stA, stB *store
	closeAll := func() {
		if stA != nil {
			stA.close()
		}
		if stB != nil {
			stB.close()
		}
		stA, stB = nil, nil
	}
	sc := bufio.NewScanner(os.Stdin)
	sc.Buffer(make([]byte, 1<<20), 1<<26)
	out := bufio.NewWriter(os.Stdout)
	for sc.Scan() {
		line := sc.Text()
		if strings.HasPrefix(line, "grpc ") || strings.HasPrefix(line, "proxyreq ") {
			var ar apiResp
			if strings.HasPrefix(line, "grpc ") {
				ar = runGrpc(root, line)
			} else {
				ar = runProxyReq(root, line)
			}
			bts, _ := json.Marshal(ar)
			out.Write(bts)
			out.WriteByte('\n')
			out.Flush()
			continue
		}
		if strings.HasPrefix(line, "syslong ") {
			bts, _ := json.Marshal(runSysLong(root, line))
			out.Write(bts)
			out.WriteByte('\n')
			out.Flush()
			continue
		}
		if strings.HasPrefix(line, "syshotcold ") {
			bts, _ := json.Marshal(runHotCold(root, line))
			out.Write(bts)
			out.WriteByte('\n')
			out.Flush()
			continue
		}
		if strings.HasPrefix(line, "sysbulks ") {
			bts, _ := json.Marshal(runSysBulks(root, line))
			out.Write(bts)
			out.WriteByte('\n')
			out.Flush()
			continue
		}
		if strings.HasPrefix(line, "sysagg ") {
			bts, _ := json.Marshal(runSysAgg(root, line))
			out.Write(bts)
			out.WriteByte('\n')
			out.Flush()
			continue
		}
		if strings.HasPrefix(line, "sysdist ") {
			bts, _ := json.Marshal(runDist(root, line))
			out.Write(bts)
			out.WriteByte('\n')
			out.Flush()
			continue
		}
		if strings.HasPrefix(line, "sysbig ") {
			bts, _ := json.Marshal(runBig(root, line))
			out.Write(bts)
			out.WriteByte('\n')
			out.Flush()
			continue
		}
		if strings.HasPrefix(line, "cluster ") {
			bts, _ := json.Marshal(runCluster(root, line))
			out.Write(bts)
			out.WriteByte('\n')
			out.Flush()
			continue
		}
		var resp sysResp
		func() {
			r, err := parseSys(line)
			if err != nil {
				resp.Err = "bad-op: " + err.Error()
				return
			}
			m := kv(strings.Fields(line)[1:])
			key := m["docs"] + "|" + m["layout"] + "|" + m["sealed"] + "|" + m["one"]
			if key != curKey {
				closeAll()
				curKey = key
				all := make([]int, len(r.docs))
				for i := range all {
					all[i] = i
				}
				if stA, err = buildStore(root, r.docs, [][]int{all}, []bool{r.one}); err != nil {
					resp.Err = "build A: " + err.Error()
					return
				}
				if stB, err = buildStore(root, r.docs, r.layout, r.sealed); err != nil {
					resp.Err = "build B: " + err.Error()
					return
				}
			}
			if stA == nil || stB == nil {
				resp.Err = "store not built"
				return
			}
			p, err := r.params()
			if err != nil {
				resp.Err = "query: " + err.Error()
				return
			}
			if resp.A, err = search1(stA.fracs, p, 0); err != nil {
				resp.Err = "search A: " + err.Error()
				return
			}
			for per := 0; per <= len(r.layout); per++ {
				b, err := search1(stB.fracs, p, per)
				if err != nil {
					resp.Err = fmt.Sprintf("search B per=%d: %v", per, err)
					return
				}
				resp.B = append(resp.B, b)
			}
			// real Info of every fraction of B with its match set (for the model)
			var parts []string
			fi := 0
			for j, idx := range r.layout {
				n := len(stB.fms[j].GetAllFracs())
				for t := 0; t < n; t++ {
					info := stB.fracs[fi].Info()
					fi++
					var in []seq.ID
					if info.DocsTotal > 0 {
						for _, i := range idx {
							d := r.docs[i]
							if (r.q == "*" || d.svc == r.q) && uint64(d.id.MID) >= r.from && uint64(d.id.MID) <= r.to {
								in = append(in, d.id)
							}
						}
					}
					parts = append(parts, fmt.Sprintf("%d/%d/%d/%s", info.DocsTotal, uint64(info.From), uint64(info.To), fmtIDs(in)))
				}
			}
			resp.Fracs = vh.JoinStrs(parts, ";")
		}()
		bts, _ := json.Marshal(resp)
		out.Write(bts)
		out.WriteByte('\n')
		out.Flush()
	}
	closeAll()
}

// sysbig n=<docs> k=<fractions of layout B> : a corpus large enough for a token's posting list to span several LID
// blocks of a sealed fraction (consts.LIDBlockCap entries per block).  Document i has MID i+1, service a (every 7th: b).
// One sealed fraction vs k sealed fractions (contiguous split); windows at the old end, the middle and everything,
// both orders, limit 5 with total and a coarse histogram.
func appendMany(fm *fracmanager.FracManager, lo, hi int) error {
	for a := lo; a < hi; a += 4000 {
		dp := frac.NewDocProvider()
		for i := a; i < min(a+4000, hi); i++ {
			svc := "a"
			if i%7 == 3 {
				svc = "b"
			}
			dp.Append([]byte(`{"service":"`+svc+`"}`), nil, seq.ID{MID: seq.MID(i + 1), RID: seq.RID(i % 3)}, seq.Tokens("_all_:", "service:"+svc))
		}
		dm, mm := dp.Provide()
		if err := fm.Append(context.Background(), dm, mm); err != nil {
			return err
		}
	}
	fm.WaitIdle()
	return nil
}

func runBig(root, line string) (resp sysResp) {
	defer func() {
		if r := recover(); r != nil {
			resp.Err = "panic: " + fmt.Sprint(r)
		}
	}()
	m := kv(strings.Fields(line)[1:])
	n, k := atoi(m["n"]), atoi(m["k"])
	dir, err := os.MkdirTemp(root, "big")
	if err != nil {
		resp.Err = err.Error()
		return
	}
	defer os.RemoveAll(dir)
	var stores [2]fracmanager.List
	var fms []*fracmanager.FracManager
	defer func() {
		for _, fm := range fms {
			fm.WaitIdle()
			fm.Stop()
		}
	}()
	for li, parts := range []int{1, k} {
		for j := 0; j < parts; j++ {
			fm, err := newFM(filepath.Join(dir, fmt.Sprintf("l%d-f%d", li, j)))
			if err != nil {
				resp.Err = "fm: " + err.Error()
				return
			}
			fms = append(fms, fm)
			if err := appendMany(fm, j*n/parts, (j+1)*n/parts); err != nil {
				resp.Err = "append: " + err.Error()
				return
			}
			fm.SealForcedForTests()
			stores[li] = append(stores[li], fm.GetAllFracs()...)
		}
	}
	var a, bb []string
	for _, win := range [][2]int{{0, n / 20}, {n / 3, n / 2}, {0, 2 * n}, {n / 20, n / 20 + 3}} {
		for _, desc := range []bool{true, false} {
			for _, q := range []string{"a", "b", "*"} {
				r := sysReq{q: q, desc: desc, wt: true, hi: uint64(n / 10), limit: 5, from: uint64(win[0]), to: uint64(win[1])}
				p, err := r.params()
				if err != nil {
					resp.Err = err.Error()
					return
				}
				ra, err1 := search1(stores[0], p, 0)
				rb, err2 := search1(stores[1], p, 1)
				if err1 != nil || err2 != nil {
					resp.Err = fmt.Sprint("search: ", err1, err2)
					return
				}
				tag := fmt.Sprintf("[%d,%d] desc=%v q=%s: ", win[0], win[1], desc, q)
				a, bb = append(a, tag+ra), append(bb, tag+rb)
			}
		}
	}
	resp.A = strings.Join(a, " ; ")
	resp.B = []string{strings.Join(bb, " ; ")}
	return
}

// sysdist docs=<minutesAgo:rid:svc,...> layout=<i,i;i;...> wins=<fromMinAgo-toMinAgo,...> : documents between 10 minutes
// and 24 hours older than the fractions, so that SEALED fractions carry a MIDs distribution (one bit per minute) that
// FilterInRange consults.  Layout A: one ACTIVE fraction (no distribution); layout B: the sealed fractions.  Narrow
// windows (a few to ~90 minutes) in both orders; times are relative to the moment the child runs.
func runDist(root, line string) (resp sysResp) {
	defer func() {
		if r := recover(); r != nil {
			resp.Err = "panic: " + fmt.Sprint(r)
		}
	}()
	m := kv(strings.Fields(line)[1:])
	now := uint64(time.Now().UnixMilli())
	var docs []sdoc
	for _, e := range splitList(m["docs"], ",") {
		p := strings.Split(e, ":")
		docs = append(docs, sdoc{seq.ID{MID: seq.MID(now - atou(p[0])*60000 + atou(p[1])), RID: seq.RID(atou(p[1]))}, p[2]})
	}
	var layout [][]int
	var sealed []bool
	for _, fr := range strings.Split(m["layout"], ";") {
		var idx []int
		for _, e := range splitList(fr, ",") {
			idx = append(idx, atoi(e))
		}
		layout = append(layout, idx)
		sealed = append(sealed, true)
	}
	all := make([]int, len(docs))
	for i := range all {
		all[i] = i
	}
	stA, err := buildStore(root, docs, [][]int{all}, []bool{false})
	if stA != nil {
		defer stA.close()
	}
	if err != nil {
		resp.Err = "build A: " + err.Error()
		return
	}
	stB, err := buildStore(root, docs, layout, sealed)
	if stB != nil {
		defer stB.close()
	}
	if err != nil {
		resp.Err = "build B: " + err.Error()
		return
	}
	var a, bb []string
	for _, w := range splitList(m["wins"], ",") {
		ft := strings.Split(w, "-")
		from, to := now-atou(ft[0])*60000, now-atou(ft[1])*60000
		for _, desc := range []bool{true, false} {
			r := sysReq{q: "*", desc: desc, wt: true, limit: 4, from: from, to: to}
			p, err := r.params()
			if err != nil {
				resp.Err = err.Error()
				return
			}
			ra, err1 := search1(stA.fracs, p, 0)
			rb, err2 := search1(stB.fracs, p, 2)
			if err1 != nil || err2 != nil {
				resp.Err = fmt.Sprint("search: ", err1, err2)
				return
			}
			// IDs relative to now, so that the text is stable
			tag := fmt.Sprintf("[%s..%s min ago] desc=%v: ", ft[0], ft[1], desc)
			a, bb = append(a, tag+relIDs(ra, now)), append(bb, tag+relIDs(rb, now))
		}
	}
	resp.A = strings.Join(a, " ; ")
	resp.B = []string{strings.Join(bb, " ; ")}
	return
}

// relIDs rewrites "mid:rid" of a canonical QPR text as "<ms before now>:rid" and drops the histogram
func relIDs(q string, now uint64) string {
	p := strings.Split(q, "/")
	var ids []string
	for _, e := range splitList(p[0], ",") {
		mr := strings.Split(e, ":")
		ids = append(ids, fmt.Sprintf("-%d:%s", now-atou(mr[0]), mr[1]))
	}
	return vh.JoinStrs(ids, ",") + "/" + p[1]
}

func genDist(g gen, o vh.Opts) []string {
	var lines []string
	for c := 0; c < o.Pick(12, 120); c++ {
		n := g.r.Range(2, 10)
		var docs, wins []string
		var ages []int
		for i := 0; i < n; i++ {
			age := 15 + g.r.Intn([]int{120, 600, 1380}[g.r.Intn(3)])
			ages = append(ages, age)
			docs = append(docs, fmt.Sprintf("%d:%d:%s", age, i, []string{"a", "b"}[g.r.Intn(2)]))
		}
		k := g.r.Range(1, 3)
		layout := make([][]int, k)
		for i := range docs {
			layout[g.r.Intn(k)] = append(layout[g.r.Intn(k)%k], i)
		}
		// rebuild the layout deterministically (each document in exactly one fraction)
		layout = make([][]int, k)
		for i := range docs {
			j := g.r.Intn(k)
			layout[j] = append(layout[j], i)
		}
		var lay []string
		for _, idx := range layout {
			lay = append(lay, vh.JoinInts(idx))
		}
		for w := 0; w < 6; w++ { // windows that contain a document at a chosen distance from their newer end
			age := ages[g.r.Intn(len(ages))]
			before, after := g.r.Intn(40), 1+g.r.Intn(40)
			wins = append(wins, fmt.Sprintf("%d-%d", age+before, max(0, age-after)))
		}
		lines = append(lines, fmt.Sprintf("sysdist docs=%s layout=%s wins=%s", strings.Join(docs, ","), strings.Join(lay, ";"), strings.Join(wins, ",")))
	}
	return lines
}

// ---------------------------------------------------------------- parent side

func genSys(g gen, o vh.Opts) []string {
	var lines []string
	nCorp := o.Pick(60, 500)
	svcs := []string{"a", "a", "b", "c"}
	for c := 0; c < nCorp; c++ {
		n := g.r.Range(1, o.Pick(24, 60))
		maxMid := []int{6, 20, 200}[g.r.Intn(3)]
		n = min(n, 3*maxMid-2) // at most 3*maxMid distinct IDs exist
		seen := map[seq.ID]bool{}
		var docs []string
		for len(docs) < n {
			id := seq.ID{MID: seq.MID(1 + g.r.Intn(maxMid)), RID: seq.RID(g.r.Intn(3))}
			if seen[id] {
				continue
			}
			seen[id] = true
			docs = append(docs, fmt.Sprintf("%d:%d:%s", id.MID, id.RID, svcs[g.r.Intn(len(svcs))]))
		}
		k := g.r.Range(1, o.Pick(5, 8))
		layout := make([][]int, k)
		if g.r.Chance(1, 3) { // time-ordered contiguous split (disjoint ranges) ...
			for i := range docs {
				layout[i*k/len(docs)] = append(layout[i*k/len(docs)], i)
			}
		} else { // ... or arbitrary overlap
			for i := range docs {
				j := g.r.Intn(k)
				layout[j] = append(layout[j], i)
			}
		}
		var lay []string
		sealed := ""
		for _, idx := range layout {
			lay = append(lay, vh.JoinInts(idx))
			sealed += b(g.r.Bool())
		}
		prefix := fmt.Sprintf("sys docs=%s layout=%s sealed=%s one=%s", strings.Join(docs, ","), strings.Join(lay, ";"), sealed, b(g.r.Bool()))
		for q := 0; q < o.Pick(10, 24); q++ {
			from, to := 0, 100000
			if g.r.Chance(1, 3) {
				from = g.r.Intn(maxMid)
				to = from + g.r.Intn(maxMid)
			}
			lines = append(lines, fmt.Sprintf("%s q=%s desc=%s wt=%s hi=%d agg=%s limit=%d from=%d to=%d", prefix,
				[]string{"a", "b", "*", "*"}[g.r.Intn(4)], b(g.r.Bool()), b(g.r.Bool()), []int{0, 0, 1, 5}[g.r.Intn(4)], b(g.r.Chance(1, 4)),
				[]int{0, 1, 2, 3, 5, 8, 100}[g.r.Intn(7)], from, to))
		}
	}
	return lines
}

// runSys feeds the lines to child processes, a fresh one every 1200 lines (open fraction files of stopped stores are
// only given back when the process ends)
func runSys(lines []string, ch *vh.Channel, orc *vh.Oracle, rep *vh.Report, o vh.Opts) {
	for lo := 0; lo < len(lines); lo += 1200 {
		runSysBatch(lines[lo:min(lo+1200, len(lines))], ch, orc, rep, o)
	}
}

func runSysBatch(lines []string, ch *vh.Channel, orc *vh.Oracle, rep *vh.Report, o vh.Opts) {
	if len(lines) == 0 {
		return
	}
	cmd := exec.Command(os.Args[0])
	cmd.Env = append(os.Environ(), "C05_CHILD=sys")
	cmd.Stdin = strings.NewReader(strings.Join(lines, "\n") + "\n")
	cmd.Stderr = os.Stderr
	stdout, err := cmd.StdoutPipe()
	if err != nil {
		orc.Error = err.Error()
		return
	}
	if err := cmd.Start(); err != nil {
		orc.Error = err.Error()
		return
	}
	timer := time.AfterFunc(time.Duration(o.Pick(240, 1500))*time.Second, func() { cmd.Process.Kill() })
	defer timer.Stop()
	sc := bufio.NewScanner(stdout)
	sc.Buffer(make([]byte, 1<<20), 1<<26)
	i := 0
	for sc.Scan() {
		if i >= len(lines) {
			break
		}
		line := lines[i]
		i++
		if strings.HasPrefix(line, "grpc ") || strings.HasPrefix(line, "proxyreq ") {
			orc.Case(line, true, "api-boundary")
			handleAPI(line, append([]byte(nil), sc.Bytes()...), orc)
			continue
		}
		if strings.HasPrefix(line, "syslong ") {
			var br sysResp
			if err := json.Unmarshal(sc.Bytes(), &br); err != nil {
				orc.Error = "child output: " + err.Error()
				break
			}
			orc.Case(line, true, "long-values-reloaded-sealed")
			if br.Err != "" {
				orc.Error = "syslong child: " + br.Err
			} else if len(br.B) != 1 || br.B[0] != br.A {
				as, bs := strings.Split(br.A, " ; "), strings.Split(strings.Join(br.B, ""), " ; ")
				what := "answers differ"
				for i := range as {
					if i < len(bs) && as[i] != bs[i] {
						what = fmt.Sprintf("one active fraction: %s ; sealed fractions re-read from disk: %s (values of 72+ bytes with a common 72-byte prefix)", as[i], bs[i])
						break
					}
				}
				rep.Violate(vh.Violation{Site: "frac/token/table_entry.go:TableEntry.Pack", Class: "long-values-lost-in-reloaded-sealed-fraction",
					What: what, Replay: []string{line}})
			}
			continue
		}
		if strings.HasPrefix(line, "syshotcold ") {
			var br sysResp
			if err := json.Unmarshal(sc.Bytes(), &br); err != nil {
				orc.Error = "child output: " + err.Error()
				break
			}
			orc.Case(line, true, "hot-cold-with-eviction")
			if br.Err != "" {
				orc.Error = "syshotcold child: " + br.Err
			} else if len(br.B) != 1 || br.B[0] != br.A {
				as, bs := strings.Split(br.A, " ; "), strings.Split(strings.Join(br.B, ""), " ; ")
				what := "answers differ"
				for i := range as {
					if i < len(bs) && as[i] != bs[i] {
						what = fmt.Sprintf("all documents of the window: %s ; proxy over hot (after eviction) + cold: %s", as[i], bs[i])
						break
					}
				}
				rep.Violate(vh.Violation{Site: "fracmanager/fracmanager.go:shrinkSizes", Class: "hot-store-answers-for-evicted-range",
					What: what, Replay: []string{line}})
			}
			continue
		}
		if strings.HasPrefix(line, "sysbulks ") {
			var br sysResp
			if err := json.Unmarshal(sc.Bytes(), &br); err != nil {
				orc.Error = "child output: " + err.Error()
				break
			}
			orc.Case(line, true, "bulks-into-one-active-fraction")
			if br.Err != "" {
				orc.Error = "sysbulks child: " + br.Err
			} else if len(br.B) != 1 || br.B[0] != br.A {
				as, bs := strings.Split(br.A, " ; "), strings.Split(strings.Join(br.B, ""), " ; ")
				what := "answers differ"
				for i := range as {
					if i < len(bs) && as[i] != bs[i] {
						what = fmt.Sprintf("all documents in one bulk: %s ; same documents in several bulks with searches in between: %s", as[i], bs[i])
						break
					}
				}
				rep.Violate(vh.Violation{Site: "frac/active_lids.go:TokenLIDs.GetLIDs", Class: "result-depends-on-bulk-split-of-active-fraction",
					What: what, Replay: []string{line}})
			}
			continue
		}
		if strings.HasPrefix(line, "sysagg ") {
			var br sysResp
			if err := json.Unmarshal(sc.Bytes(), &br); err != nil {
				orc.Error = "child output: " + err.Error()
				break
			}
			orc.Case(line, true, "aggregation-valueless-newest-fraction")
			if br.Err != "" {
				orc.Error = "sysagg child: " + br.Err
			} else if len(br.B) != 1 || br.B[0] != br.A {
				as, bs := strings.Split(br.A, " ; "), strings.Split(strings.Join(br.B, ""), " ; ")
				what := "answers differ"
				for i := range as {
					if i < len(bs) && as[i] != bs[i] {
						what = fmt.Sprintf("one fraction: %s ; several fractions: %s   (bin = mid~token~sum~total~notExists)", as[i], bs[i])
						break
					}
				}
				site := "seq/qpr.go:SamplesContainer.Merge" // same groups, different numbers: the merge of the containers
				if groupNames(as) != groupNames(bs) { // different group names / totals per name: the text of a source
					site = "frac/processor/aggregator.go:SourcedNodeIterator.ValueBySource"
				}
				rep.Violate(vh.Violation{Site: site, Class: "aggregation-differs-from-single-fraction",
					What: what, Replay: []string{line}})
			}
			continue
		}
		if strings.HasPrefix(line, "sysdist ") {
			var br sysResp
			if err := json.Unmarshal(sc.Bytes(), &br); err != nil {
				orc.Error = "child output: " + err.Error()
				break
			}
			orc.Case(line, true, "sealed-with-distribution")
			if br.Err != "" {
				orc.Error = "sysdist child: " + br.Err
			} else if len(br.B) != 1 || br.B[0] != br.A {
				as, bs := strings.Split(br.A, " ; "), strings.Split(strings.Join(br.B, ""), " ; ")
				what := "answers differ"
				for i := range as {
					if i < len(bs) && as[i] != bs[i] {
						what = fmt.Sprintf("one active fraction: %s ; sealed fractions with distribution: %s", as[i], bs[i])
						break
					}
				}
				rep.Violate(vh.Violation{Site: "fracmanager/searcher.go:prepareFracs", Class: "sealed-fraction-with-distribution-differs-from-active",
					What: what, Replay: []string{line}})
			}
			continue
		}
		if strings.HasPrefix(line, "sysbig ") {
			var br sysResp
			if err := json.Unmarshal(sc.Bytes(), &br); err != nil {
				orc.Error = "child output: " + err.Error()
				break
			}
			orc.Case(line, true, "large-corpus")
			if br.Err != "" {
				orc.Error = "sysbig child: " + br.Err
			} else if len(br.B) != 1 || br.B[0] != br.A {
				as, bs := strings.Split(br.A, " ; "), strings.Split(strings.Join(br.B, ""), " ; ")
				what := "answers differ"
				for i := range as {
					if i < len(bs) && as[i] != bs[i] {
						what = fmt.Sprintf("one sealed fraction: %s ; %s sealed fractions: %s", as[i], kv(strings.Fields(line)[1:])["k"], bs[i])
						break
					}
				}
				rep.Violate(vh.Violation{Site: "fracmanager/searcher.go:SearchDocs", Class: "large-sealed-fraction-differs-from-split",
					What: what, Replay: []string{line}})
			}
			continue
		}
		if strings.HasPrefix(line, "cluster ") {
			var cr clusterResp
			if err := json.Unmarshal(sc.Bytes(), &cr); err != nil {
				orc.Error = "child output: " + err.Error()
				break
			}
			m := kv(strings.Fields(line)[1:])
			orc.Case(line, m["reps"] != "1" || strings.Contains(m["shard"], "1"), "cluster", "reps="+m["reps"])
			switch {
			case cr.Err != "":
				orc.Error = "cluster child: " + cr.Err + " on " + line
			case cr.Pages != cr.Want:
				rep.Violate(vh.Violation{Site: "proxy/search/ingestor.go:Search", Class: "pages-differ-from-single-list-real-stores",
					What: fmt.Sprintf("pages: %s ; single ordered list: %s", cr.Pages, cr.Want), Replay: []string{line}})
			case cr.Meta != "":
				rep.Violate(vh.Violation{Site: "proxy/search/ingestor.go:Search", Class: "total-or-histogram-differs-real-stores",
					What: cr.Meta, Replay: []string{line}})
			}
			continue
		}
		var resp sysResp
		if err := json.Unmarshal(sc.Bytes(), &resp); err != nil {
			orc.Error = "child output: " + err.Error()
			break
		}
		if resp.Err != "" {
			orc.Error = "child: " + resp.Err + " on " + line
			continue
		}
		m := kv(strings.Fields(line)[1:])
		k := len(strings.Split(m["layout"], ";"))
		idsA := strings.Count(strings.SplitN(resp.A, "/", 2)[0], ":")
		orc.Case(line, k > 1 && idsA >= atoi(m["limit"]) && idsA > 0, fmt.Sprintf("fracs=%d", k), "desc="+m["desc"], "scanAll="+b(m["wt"] == "1" || m["hi"] != "0" || m["agg"] == "1"))
		for per, bres := range resp.B {
			if bres != resp.A {
				rep.Violate(vh.Violation{Site: "fracmanager/searcher.go:SearchDocs", Class: classOf(bres, resp.A) + "-real-fractions",
					What:   fmt.Sprintf("FractionsPerIteration=%d over %d fractions: %s ; one fraction: %s", per, k, bres, resp.A),
					Replay: []string{line}})
				break
			}
		}
		// the same runs against the model, fed with the real fractions' Info
		for per, bres := range resp.B {
			req := fmt.Sprintf("searchdocs %s %s %s %s %d 0 %s %s %s %s", m["desc"], m["wt"], m["hi"], m["agg"], per, m["from"], m["to"], m["limit"], resp.Fracs)
			impl := "ok " + strings.SplitN(bres, " agg=", 2)[0]
			ch.Add(req, impl, k > 1, fmt.Sprintf("fracs=%d", k))
		}
	}
	err = cmd.Wait()
	if i < len(lines) && orc.Error == "" {
		// the child died or was killed: the case being processed is the observation
		rep.Violate(vh.Violation{Site: "fracmanager/searcher.go:SearchDocs", Class: "store-process-died",
			What: fmt.Sprintf("child exited (%v) while processing case %d of %d", err, i+1, len(lines)), Replay: []string{lines[i]}})
	}
}

// groupNames: the bucket names with their value counts of every answer (mid~token~sum~total~notExists bins)
func groupNames(answers []string) string {
	var out []string
	for _, a := range answers {
		i := strings.Index(a, ": ")
		if i < 0 {
			continue
		}
		var names []string
		for _, agg := range strings.Split(a[i+2:], "&") {
			nb := strings.SplitN(agg, "#", 2)
			if len(nb) != 2 {
				continue
			}
			for _, b := range splitList(nb[1], "+") {
				f := strings.Split(b, "~")
				if len(f) == 5 {
					names = append(names, f[1]+"x"+f[3])
				}
			}
		}
		out = append(out, strings.Join(names, ","))
	}
	return strings.Join(out, ";")
}
