// C15 harness: start-up, retention and deletion are crash-safe and only drop the oldest data.
//
// Channels (implementation vs the Lean model through the driver):
//
//	loader.startup  the real FracManager.Load (child process per case) on every combination of one fraction's seven
//	                non-temporary files, each absent / empty / valid, vs SV.FileSet.startup
//	life            histories of one fraction on the real store - created by rotate, filled, sealed, deleted as active or
//	                as sealed fraction by a retention pass, restarted - one child process per session, the process killed
//	                after the k-th file operation of the fraction (also during Load) vs SV.Lifecycle (`life` command):
//	                what the store holds and which files exist after every step, and what the final restart serves
//	shrink          the real shrinkSizes on stores with several fractions vs SV.Lifecycle.shrink: how many are removed
//
// Oracles (the property itself on the real code):
//
//	life.restart    in every history no start dies, and the fraction is finally served completely or not at all; once a
//	                deletion changed the disk nothing of the fraction is served again
//	retention.order shrinkSizes removes a prefix of the creation order (also after a restart that finds an older
//	                unsealed fraction next to newer sealed ones)
//	cache.restart   a missing, empty, truncated (every length class) or stale .frac-cache gives the same served set
package main

import (
	"bytes"
	"context"
	"encoding/json"
	"fmt"
	"io"
	"math"
	"os"
	"os/exec"
	"path/filepath"
	"sort"
	"strconv"
	"strings"
	"sync"
	"time"

	"go.uber.org/zap/zapcore"

	"github.com/ozontech/seq-db/consts"
	"github.com/ozontech/seq-db/frac"
	"github.com/ozontech/seq-db/frac/processor"
	"github.com/ozontech/seq-db/fracmanager"
	"github.com/ozontech/seq-db/logger"
	"github.com/ozontech/seq-db/parser"
	"github.com/ozontech/seq-db/seq"
	"github.com/ozontech/seq-db/verifhook"

	"verifharness/internal/vh"
)

// ---------------------------------------------------------------- corpus (one per fraction, told apart by its seed)

type doc struct {
	id     seq.ID
	body   []byte
	tokens []string
}

const nGroups = 5

func podName(seed int64, i int) string {
	return fmt.Sprintf("pod-%d-%d-%s", seed, i, strings.Repeat("k", 16))
}

// baseMID: normally a fixed instant in the past.  With VERIF_LATE_NOW=<ms> (set by the cache scenarios for all their
// children) the documents of corpus `seed` are `seed*97` minutes older than that instant - "late" documents, 10 min .. 24 h
// before the fraction is created, so that the fraction's Info carries a time distribution, a different one per corpus.
func baseMID(seed int64) uint64 {
	if v := os.Getenv("VERIF_LATE_NOW"); v != "" {
		now, _ := strconv.ParseUint(v, 10, 64)
		return now - uint64(seed)*97*60_000
	}
	return 1_700_000_000_000 + uint64(seed)*1000
}

func corpus(seed int64, n int) []doc {
	r := vh.NewRNG(seed*104729 + int64(n))
	docs := make([]doc, n)
	for i := range docs {
		g := i % nGroups
		docs[i] = doc{
			id:     seq.ID{MID: seq.MID(baseMID(seed) + uint64(i/3)), RID: seq.RID(r.U64()>>1 | 1)},
			body:   []byte(fmt.Sprintf(`{"service":"svc%ds%d","k8s_pod":"%s","message":"m%d %s"}`, g, seed, podName(seed, i), i, strings.Repeat("x", r.Range(0, 40)))),
			tokens: []string{"_all_:", fmt.Sprintf("service:svc%ds%d", g, seed), "k8s_pod:" + podName(seed, i)},
		}
	}
	return docs
}

func bulks(docs []doc, per int) [][2][]byte {
	var res [][2][]byte
	dp := frac.NewDocProvider()
	for i := 0; i < len(docs); i += per {
		dp.TryReset()
		for _, d := range docs[i:min(i+per, len(docs))] {
			dp.Append(d.body, nil, d.id, seq.Tokens(d.tokens...))
		}
		dd, mm := dp.Provide()
		res = append(res, [2][]byte{append([]byte(nil), dd...), append([]byte(nil), mm...)})
	}
	return res
}

var sealParams = frac.SealParams{
	IDsZstdLevel: 1, LIDsZstdLevel: 1, TokenListZstdLevel: 1, DocsPositionsZstdLevel: 1, TokenTableZstdLevel: 1,
	DocBlocksZstdLevel: 1, DocBlockSize: 4 * 1024,
}

func fmConfig(dir string, skip, keep bool, total uint64) *fracmanager.Config {
	return &fracmanager.Config{DataDir: dir, FracSize: 1 << 30, TotalSize: total, CacheSize: 64 << 20, SealParams: sealParams,
		Fraction: frac.Config{SkipSortDocs: skip, KeepMetaFile: keep}}
}

// ---------------------------------------------------------------- directory helpers

var suffixes = []string{consts.DocsFileSuffix, consts.DocsDelFileSuffix, consts.SdocsFileSuffix, consts.SdocsTmpFileSuffix, consts.SdocsDelFileSuffix,
	consts.IndexFileSuffix, consts.IndexTmpFileSuffix, consts.IndexDelFileSuffix, consts.MetaFileSuffix}

const fracPrefix = "seq-db-"

func suffixOf(name string) (string, string) {
	b := filepath.Base(name)
	if i := strings.IndexByte(b, '.'); i >= 0 {
		return b[:i], b[i:]
	}
	return b, ""
}

func listing(dir, base string) string {
	var sb strings.Builder
	for _, s := range suffixes {
		st, err := os.Stat(filepath.Join(dir, base+s))
		switch {
		case err != nil || base == "":
			sb.WriteByte('a')
		case st.Size() == 0:
			sb.WriteByte('e')
		default:
			sb.WriteByte('f')
		}
	}
	return sb.String()
}

// diskSize is the sum of the sizes of the fraction's non-temporary files: what Info().FullSize() stands for
func diskSize(dir, base string) int64 {
	var sum int64
	for _, suf := range suffixes {
		if suf == consts.SdocsTmpFileSuffix || suf == consts.IndexTmpFileSuffix {
			continue
		}
		if st, err := os.Stat(filepath.Join(dir, base+suf)); err == nil {
			sum += st.Size()
		}
	}
	return sum
}

func fractionsIn(dir string) []string {
	ents, _ := os.ReadDir(dir)
	seen := map[string]bool{}
	var res []string
	for _, e := range ents {
		b, _ := suffixOf(e.Name())
		if strings.HasPrefix(b, fracPrefix) && !seen[b] {
			seen[b] = true
			res = append(res, b)
		}
	}
	sort.Strings(res)
	return res
}

func copyFile(src, dst string) {
	b, err := os.ReadFile(src)
	if err != nil {
		panic(err)
	}
	if err := os.WriteFile(dst, b, 0o644); err != nil {
		panic(err)
	}
}

func copyDir(src, dst string) {
	os.MkdirAll(dst, 0o755)
	ents, _ := os.ReadDir(src)
	for _, e := range ents {
		if !e.IsDir() {
			copyFile(filepath.Join(src, e.Name()), filepath.Join(dst, e.Name()))
		}
	}
}

// ---------------------------------------------------------------- child: one session of the store

const exitCrash = 9

// session <dir> <skip> <keep> <totalSize> <track> <crashAt> <op,op,...>
// ops: fill:<seed>:<n> | seal | shrink | cache | fracs.   <track> = base name of the tracked fraction ("" = the first one
// the session sees).  The process exits with code 9 right after the crashAt-th file operation on the tracked fraction.
func sessionMain(args []string) {
	logger.SetLevel(zapcore.FatalLevel)
	dir := args[0]
	skip, keep := args[1] == "1", args[2] == "1"
	total, _ := strconv.ParseUint(args[3], 10, 64)
	track := args[4]
	crashAt, _ := strconv.Atoi(args[5])
	say := func(f string, a ...any) { fmt.Printf(f+"\n", a...); os.Stdout.Sync() }
	count, sealing := 0, ""
	race := -1 // >= 0: a retention pass runs between the publication of the sealed fraction and active.Release()
	var raceFn func()
	var verifhookHandler func(name, s string, a []int64)
	verifhookHandler = func(name, s string, _ []int64) {
		switch {
		case name == "c07.pf.seal.wgdone" && race >= 0 && sealing == track:
			raceFn()
		case name == "seal.begin":
			sealing = filepath.Base(s)
		case name == "seal.end":
			sealing = ""
		case strings.HasPrefix(name, "fileop."):
			b, suf := suffixOf(s)
			if !strings.HasPrefix(b, fracPrefix) { // directory sync of frac.Seal: belongs to the fraction being sealed
				b, suf = sealing, ""
			}
			if track == "" && strings.HasPrefix(b, fracPrefix) {
				track = b
			}
			if b != track || b == "" {
				return
			}
			count++
			say("P %d %s %s", count, strings.TrimPrefix(name, "fileop."), suf)
			if count == crashAt {
				say("CRASH")
				os.Exit(exitCrash)
			}
		}
	}
	verifhook.Set(verifhookHandler)
	fm := fracmanager.NewFracManager(fmConfig(dir, skip, keep, total))
	var loadCtx context.Context = context.Background()
	if k, _ := strconv.Atoi(os.Getenv("VERIF_CANCEL_AFTER")); k > 0 {
		loadCtx = &cancelAfterCtx{Context: context.Background(), left: k, ch: make(chan struct{})}
	}
	if err := fm.Load(loadCtx); err != nil {
		say("LOADERR %v", err)
		os.Exit(3)
	}
	obs := func() {
		kinds := fracmanager.VerifC08FracKinds(fm)
		role := "none"
		for _, k := range kinds {
			f := strings.Fields(k)
			if len(f) == 2 && f[0] == track {
				role = f[1]
			}
		}
		names, sizes := fracmanager.VerifC15Fracs(fm)
		var fs []string
		for i := range names {
			fs = append(fs, fmt.Sprintf("%s:%d", names[i], sizes[i]))
		}
		say("OBS %s %s %s fracs=%s", track, role, listing(dir, track), strings.Join(fs, ","))
	}
	if track == "" {
		if names, _ := fracmanager.VerifC15Fracs(fm); len(names) > 0 {
			track = names[0]
		}
	}
	say("UP")
	obs()
	if len(args) > 6 && args[6] != "" && args[6] != "-" {
		for _, op := range strings.Split(args[6], ",") {
			f := strings.Split(op, ":")
			switch f[0] {
			case "fill":
				seed, _ := strconv.ParseInt(f[1], 10, 64)
				n, _ := strconv.Atoi(f[2])
				for _, b := range bulks(corpus(seed, n), 100) {
					if err := fm.Append(context.Background(), b[0], b[1]); err != nil {
						say("APPENDERR %v", err)
						os.Exit(4)
					}
				}
				fm.WaitIdle()
			case "bigbulk":
				// one bulk whose compressed meta block is about 20 MB: 700 documents with a 30000-byte incompressible token
				dp := frac.NewDocProvider()
				r := vh.NewRNG(4242)
				for i := 0; i < 700; i++ {
					val := make([]byte, 30000)
					for j := range val {
						val[j] = "0123456789abcdefghijklmnopqrstuvwxyzABCDEFGHIJKLMNOPQRSTUVWXYZ+-"[r.U64()&63]
					}
					toks := append(seq.Tokens("_all_:", "service:bigbulk"), seq.Token{Field: []byte("payload"), Val: val})
					dp.Append([]byte("big document"), nil, seq.ID{MID: seq.MID(1_600_000_000_000 + uint64(i)), RID: seq.RID(i + 1)}, toks)
				}
				dd, mm := dp.Provide()
				say("BIGBULK meta=%d", len(mm))
				if err := fm.Append(context.Background(), dd, mm); err != nil {
					say("APPENDERR %v", err)
					os.Exit(4)
				}
				fm.WaitIdle()
			case "seal":
				fm.SealForcedForTests()
			case "sealrace":
				// proxyFrac.Suicide (retention) wakes up when the sealed fraction is published, i.e. before proxyFrac.Seal
				// reached active.Release(): run the retention pass at that point, then die (after the k-th file operation
				// of the deletion, or - k = 0 - right after it finished, still before Release)
				race, _ = strconv.Atoi(f[1])
				raceFn = func() {
					obs()
					count = 0
					if race > 0 {
						crashAt = race
					} else {
						crashAt = 0
					}
					fracmanager.VerifC15ShrinkSizes(fm)
					obs()
					say("CRASH")
					os.Exit(exitCrash)
				}
				fm.SealForcedForTests()
			case "sealretention":
				// retention reaches the fraction while its seal is running: the retention pass starts when the seal
				// begins (proxyFrac.Suicide then waits for sealWg); the sealer is held for a moment after frac.Seal
				// returned and before the sealed fraction is published, so that a Suicide that wakes too early gets to run
				retDone := make(chan struct{})
				started := false
				prev := verifhookHandler
				verifhook.Set(func(name, s string, a []int64) {
					switch {
					case name == "seal.begin" && filepath.Base(s) == track && !started:
						started = true
						go func() { fracmanager.VerifC15ShrinkSizes(fm); close(retDone) }()
					case name == "c07.pf.seal.built" && started:
						select {
						case <-retDone:
						case <-time.After(400 * time.Millisecond):
						}
					}
					prev(name, s, a)
				})
				fm.SealForcedForTests()
				if started {
					select {
					case <-retDone:
					case <-time.After(20 * time.Second):
						say("RETENTION-HANGS")
					}
				}
				verifhook.Set(prev)
			case "shrink":
				fracmanager.VerifC15ShrinkSizes(fm)
			case "cache":
				if err := fracmanager.VerifC15SyncCache(fm); err != nil {
					say("CACHEERR %v", err)
				}
			}
			obs()
		}
	}
	say("DONE")
	os.Exit(0)
}

// cancelAfterCtx is a start-up context that gets cancelled (SIGTERM during start-up) once Done() has been polled
// `left` times: Active.Replay polls it before every meta block.
type cancelAfterCtx struct {
	context.Context
	mu   sync.Mutex
	left int
	ch   chan struct{}
	done bool
}

func (c *cancelAfterCtx) Done() <-chan struct{} {
	c.mu.Lock()
	defer c.mu.Unlock()
	if !c.done {
		c.left--
		if c.left <= 0 {
			c.done = true
			close(c.ch)
		}
	}
	return c.ch
}

func (c *cancelAfterCtx) Err() error {
	c.mu.Lock()
	defer c.mu.Unlock()
	if c.done {
		return context.Canceled
	}
	return nil
}

// check <dir> <skip> <keep> <seed:n,seed:n,...> : Load, then search and fetch every corpus
func checkMain(args []string) {
	logger.SetLevel(zapcore.FatalLevel)
	dir := args[0]
	skip, keep := args[1] == "1", args[2] == "1"
	say := func(f string, a ...any) { fmt.Printf(f+"\n", a...); os.Stdout.Sync() }
	fm := fracmanager.NewFracManager(fmConfig(dir, skip, keep, 1<<40))
	if err := fm.Load(context.Background()); err != nil {
		say("LOADERR %v", err)
		os.Exit(3)
	}
	names, _ := fracmanager.VerifC15Fracs(fm)
	say("UP %s", strings.Join(fracmanager.VerifC08FracKinds(fm), ","))
	say("ORDER %s", strings.Join(names, ","))
	{
		_, sizes := fracmanager.VerifC15Fracs(fm)
		var ss []string
		for i := range names {
			ss = append(ss, fmt.Sprintf("%s:%d", names[i], sizes[i]))
		}
		say("SIZES %s", strings.Join(ss, ","))
	}
	searcher := fracmanager.NewSearcher(1, fracmanager.SearcherCfg{})
	fetcher := fracmanager.NewFetcher(1)
	ctx := context.Background()
	if len(args) < 4 || args[3] == "" || args[3] == "-" {
		os.Exit(0)
	}
	for _, c := range strings.Split(args[3], ",") {
		var seed int64
		var n int
		fmt.Sscanf(c, "%d:%d", &seed, &n)
		docs := corpus(seed, n)
		want := map[seq.ID]bool{}
		for _, d := range docs {
			want[d.id] = true
		}
		found, extra, searchErr := map[seq.ID]bool{}, 0, ""
		foundRange := map[seq.ID]bool{}
		for g := 0; g < nGroups; g++ {
			ast, err := parser.ParseSeqQL(fmt.Sprintf("service:svc%ds%d", g, seed), seq.TestMapping)
			if err != nil {
				panic(err)
			}
			qpr, err := searcher.SearchDocs(ctx, fm.GetAllFracs(), processor.SearchParams{AST: ast.Root, From: 0, To: math.MaxUint64, Limit: 10 * n, Order: seq.DocsOrderDesc})
			if err != nil {
				searchErr = "search-error"
				continue
			}
			for _, id := range qpr.IDs.IDs() {
				if want[id] {
					found[id] = true
				} else {
					extra++
				}
			}
			// the same query restricted to the time range of the corpus' own documents
			qr, err := searcher.SearchDocs(ctx, fm.GetAllFracs(), processor.SearchParams{AST: ast.Root, From: docs[0].id.MID, To: docs[n-1].id.MID, Limit: 10 * n, Order: seq.DocsOrderDesc})
			if err != nil {
				searchErr = "search-error"
				continue
			}
			for _, id := range qr.IDs.IDs() {
				if want[id] {
					foundRange[id] = true
				}
			}
		}
		exact, missing, wrong, fetchErr := 0, 0, 0, ""
		var ids []seq.IDSource
		for _, d := range docs {
			ids = append(ids, seq.IDSource{ID: d.id})
		}
		res, err := fetcher.FetchDocs(ctx, fm.GetAllFracs(), ids)
		if err != nil {
			fetchErr = "fetch-error"
			wrong = len(ids)
		} else {
			for j := range ids {
				switch {
				case j >= len(res) || res[j] == nil:
					missing++
				case bytes.Equal(res[j], docs[j].body):
					exact++
				default:
					wrong++
				}
			}
		}
		say("OBS seed=%d n=%d found=%d extra=%d exact=%d missing=%d wrong=%d inrange=%d %s %s", seed, n, len(found), extra, exact, missing, wrong, len(foundRange), searchErr, fetchErr)
	}
	os.Exit(0)
}

var extraEnv []string // environment of the next child only

func runExe(timeout time.Duration, args ...string) (string, int) {
	exe, _ := os.Executable()
	ctx, cancel := context.WithTimeout(context.Background(), timeout)
	defer cancel()
	cmd := exec.CommandContext(ctx, exe, args...)
	cmd.Env = append(append(os.Environ(), "GOMEMLIMIT=2GiB"), extraEnv...)
	extraEnv = nil
	var out bytes.Buffer
	cmd.Stdout = &out
	cmd.Stderr = io.Discard
	err := cmd.Run()
	code := 0
	if err != nil {
		code = -1
		if ee, ok := err.(*exec.ExitError); ok {
			code = ee.ExitCode()
		}
	}
	return out.String(), code
}

type checkResult struct {
	up     bool
	kinds  []string
	order  []string
	served map[int64]string // per corpus seed: all | part | none
	sizes  map[string]int64 // Info().FullSize() per fraction
	detail string
}

func runCheck(dir string, skip, keep bool, corpora string) checkResult {
	out, code := runExe(120*time.Second, "check", dir, vh.B(skip), vh.B(keep), corpora)
	res := checkResult{served: map[int64]string{}, sizes: map[string]int64{}}
	for _, l := range strings.Split(out, "\n") {
		switch {
		case strings.HasPrefix(l, "UP"):
			res.up = true
			if f := strings.TrimSpace(strings.TrimPrefix(l, "UP")); f != "" {
				res.kinds = strings.Split(f, ",")
			}
		case strings.HasPrefix(l, "ORDER "):
			res.order = strings.Split(strings.TrimPrefix(l, "ORDER "), ",")
		case strings.HasPrefix(l, "SIZES "):
			for _, f := range strings.Split(strings.TrimPrefix(l, "SIZES "), ",") {
				if kv := strings.Split(f, ":"); len(kv) == 2 {
					v, _ := strconv.ParseInt(kv[1], 10, 64)
					res.sizes[kv[0]] = v
				}
			}
		case strings.HasPrefix(l, "OBS "):
			var seed int64
			var n, found, extra, exact, missing, wrong, inrange int
			fmt.Sscanf(l, "OBS seed=%d n=%d found=%d extra=%d exact=%d missing=%d wrong=%d inrange=%d", &seed, &n, &found, &extra, &exact, &missing, &wrong, &inrange)
			switch {
			case found == n && exact == n && extra == 0 && wrong == 0 && inrange == n:
				res.served[seed] = "all"
			case found == 0 && exact == 0 && wrong == 0 && inrange == 0:
				res.served[seed] = "none"
			default:
				res.served[seed] = "part"
			}
			res.detail += l + "; "
		}
	}
	if !res.up {
		res.detail = fmt.Sprintf("process ended before Load returned (exit %d)", code)
	} else if code != 0 {
		res.detail += fmt.Sprintf("process died while searching/fetching (exit %d)", code)
	}
	return res
}

// ---------------------------------------------------------------- life histories

type step struct {
	ev      string // model event: new | fill | seal | suicide (retention pass reaching the fraction) | start
	crashAt int    // 0 = runs to the end
}

func (s step) String() string {
	if s.crashAt > 0 {
		return fmt.Sprintf("%s@%d", s.ev, s.crashAt)
	}
	return s.ev
}

type history struct {
	skip, keep bool
	steps      []step
	n          int
	seed       int64
	big        bool // the second `fill` is one bulk whose compressed meta block is about 20 MB, the third a second corpus
}

func (h history) events() string {
	var ss []string
	for _, s := range h.steps {
		ss = append(ss, s.String())
	}
	return strings.Join(ss, ";")
}

func (h history) String() string {
	if h.big {
		return fmt.Sprintf("life skip=%s keep=%s n=%d seed=%d big=1 events=%s", vh.B(h.skip), vh.B(h.keep), h.n, h.seed, h.events())
	}
	return fmt.Sprintf("life skip=%s keep=%s n=%d seed=%d events=%s", vh.B(h.skip), vh.B(h.keep), h.n, h.seed, h.events())
}

// runHistory plays the history on the real store: sessions are cut at every `start` (and after a crash).
func runHistory(work string, h history) (obs []string, finalServed string, died string) {
	dir := filepath.Join(work, "data")
	os.MkdirAll(dir, 0o755)
	track := ""
	i := 0
	fills := 0
	for i < len(h.steps) {
		// one session: its Load is `new` (empty directory, first session) or `start`
		first := h.steps[i]
		var ops []string
		total := uint64(1 << 40)
		crashAt := 0
		selfCrash := false
		j := i + 1
		cancelAfter := 0
		if first.ev == "startc" {
			cancelAfter = first.crashAt // the start-up context is cancelled after that many polls; no process kill
		} else if first.crashAt > 0 {
			crashAt = first.crashAt
		} else {
			for j < len(h.steps) && h.steps[j].ev != "start" && h.steps[j].ev != "startc" {
				s := h.steps[j]
				switch s.ev {
				case "fill":
					fills++
					switch {
					case h.big && fills == 2:
						ops = append(ops, "bigbulk")
					case h.big && fills == 3:
						ops = append(ops, fmt.Sprintf("fill:%d:%d", h.seed+1, h.n))
					default:
						ops = append(ops, fmt.Sprintf("fill:%d:%d", h.seed, h.n))
					}
				case "seal":
					ops = append(ops, "seal")
				case "asuicide", "ssuicide", "suicide":
					ops = append(ops, "shrink")
					total = 1
				case "sealpub": // followed by the suicide that races with the tail of the seal; the child does the crash itself
					k := 0
					if j+1 < len(h.steps) && h.steps[j+1].ev == "suicide" {
						k = h.steps[j+1].crashAt
						j++
					}
					ops = append(ops, fmt.Sprintf("sealrace:%d", k))
					total = 1
					j++
					selfCrash = true
				}
				if selfCrash {
					break
				}
				j++
				if s.crashAt > 0 {
					crashAt = s.crashAt
					break
				}
			}
		}
		// the crash counter counts the file operations of the tracked fraction in the whole session; the operations of
		// the session's Load come first, so a crash inside a later step is offset by them
		offset := 0
		if first.crashAt == 0 && crashAt > 0 {
			out, _ := runExe(60*time.Second, "session", dirCopy(work, dir), vh.B(h.skip), vh.B(h.keep), fmt.Sprint(total), track, "0", strings.Join(ops[:len(ops)-1], ","))
			offset = strings.Count(out, "\nP ")
			if strings.HasPrefix(out, "P ") {
				offset++
			}
		}
		arg := "0"
		if crashAt > 0 {
			arg = fmt.Sprint(offset + crashAt)
		}
		if cancelAfter > 0 {
			extraEnv = []string{fmt.Sprintf("VERIF_CANCEL_AFTER=%d", cancelAfter)}
		}
		out, code := runExe(120*time.Second, "session", dir, vh.B(h.skip), vh.B(h.keep), fmt.Sprint(total), track, arg, strings.Join(ops, ","))
		var sessObs []string
		for _, l := range strings.Split(out, "\n") {
			if strings.HasPrefix(l, "OBS ") {
				f := strings.Fields(l)
				if track == "" {
					track = f[1]
				}
				sessObs = append(sessObs, f[2]+":"+f[3])
			}
		}
		if track == "" {
			if fr := fractionsIn(dir); len(fr) > 0 {
				track = fr[0]
			}
		}
		nSteps := j - i
		switch {
		case code == exitCrash && len(sessObs) >= nSteps:
			// the process died after the last step of the session had completed
			obs = append(obs, sessObs[:nSteps]...)
		case code == exitCrash:
			// steps that completed before the crash were observed; the crashed one is observed from outside
			done := len(sessObs)
			if done > nSteps-1 {
				done = nSteps - 1
			}
			obs = append(obs, sessObs[:done]...)
			obs = append(obs, "crashed:"+listing(dir, track))
			j = i + done + 1
		case code == 3 && cancelAfter > 0 && strings.Contains(out, "LOADERR"):
			// Load gave up because its context was cancelled; the process ends
			obs = append(obs, "crashed:"+listing(dir, track))
		case code == 0:
			obs = append(obs, sessObs...)
		default:
			died = fmt.Sprintf("session %v died with exit code %d (crash point %s): %s", h.steps[i:j], code, arg, lastLines(out))
			for range h.steps[i:] { // every later start dies the same way
				obs = append(obs, "crashed:"+listing(dir, track))
			}
			return obs, "down", died
		}
		i = j
	}
	corpora := fmt.Sprintf("%d:%d", h.seed, h.n)
	if h.big {
		corpora += fmt.Sprintf(",%d:%d", h.seed+1, h.n)
	}
	res := runCheck(dir, h.skip, h.keep, corpora)
	if !res.up {
		return obs, "down", res.detail
	}
	if h.big && res.served[h.seed] != res.served[h.seed+1] { // the bulks before and after the big one fare differently
		return obs, "part", res.detail
	}
	return obs, res.served[h.seed], res.detail
}

var copyN int

func dirCopy(work, dir string) string {
	copyN++
	d := filepath.Join(work, fmt.Sprintf("probe%d", copyN))
	copyDir(dir, d)
	return d
}

func lastLines(s string) string {
	l := strings.Split(strings.TrimSpace(s), "\n")
	if len(l) > 3 {
		l = l[len(l)-3:]
	}
	return strings.Join(l, " | ")
}

type harness struct {
	o         vh.Opts
	rep       *vh.Report
	work      string
	chLoad    *vh.Channel
	chLife    *vh.Channel
	chShr     *vh.Channel
	orLife    *vh.Oracle
	orOrder   *vh.Oracle
	orCache   *vh.Oracle
	orSealRet *vh.Oracle
}

func (h *harness) life(hist history) {
	work, _ := os.MkdirTemp(h.work, "life")
	defer os.RemoveAll(work)
	obs, served, detail := runHistory(work, hist)
	impl := "ok " + strings.Join(obs, ";") + " served=" + served
	crashed := strings.Contains(hist.events(), "@")
	var tags []string
	for _, s := range hist.steps {
		if s.crashAt > 0 {
			tags = append(tags, "crash-in="+s.ev)
		}
	}
	tags = append(tags, "served="+served, fmt.Sprintf("cfg=%s%s", vh.B(hist.skip), vh.B(hist.keep)))
	h.chLife.Add(fmt.Sprintf("life %s %s %s", vh.B(hist.skip), vh.B(hist.keep), hist.events()), impl, crashed, tags...)
	h.orLife.Case(hist.String(), crashed, tags...)
	if served == "down" {
		site, class := "fracmanager/loader.go:filterInfos", "start-up-dies-on-crash-state"
		if strings.Contains(hist.events(), ";start;seal") && strings.Contains(detail, "seal") {
			// the store came up, the fraction left by the interrupted seal was replayed, and sealing it again killed the process
			site, class = "frac/active_sealer.go:Seal", "reseal-after-crash-fails"
		}
		h.rep.Violate(vh.Violation{Site: site, Class: class,
			What:   fmt.Sprintf("history %s: the store does not start: %s; states %s", hist.events(), detail, strings.Join(obs, ";")),
			Replay: []string{hist.String()}})
	} else if hist.big && served != "all" {
		h.rep.Violate(vh.Violation{Site: "frac/active.go:Replay", Class: "start-up-truncates-valid-bulks",
			What:   fmt.Sprintf("history %s with one bulk of about 20 MB of compressed meta between ordinary bulks, no seal: after the restarts the unsealed fraction serves %q of the acknowledged documents written before and after the big bulk: %s; states %s", hist.events(), served, detail, strings.Join(obs, ";")),
			Replay: []string{hist.String()}})
	} else if strings.Contains(hist.events(), "startc") && !strings.Contains(hist.events(), "suicide") && served != "all" {
		h.rep.Violate(vh.Violation{Site: "frac/active.go:Replay", Class: "cancelled-start-up-loses-documents",
			What:   fmt.Sprintf("history %s: after a start-up whose context was cancelled during the replay of the unsealed fraction, a normal start serves %q of its %d acknowledged documents: %s; states %s", hist.events(), served, hist.n, detail, strings.Join(obs, ";")),
			Replay: []string{hist.String()}})
	} else if eff := effectiveDeletion(hist, obs); eff >= 0 && served == "all" {
		site := "frac/sealed.go:Suicide"
		if strings.HasPrefix(obs[eff-1], "active:") {
			site = "frac/active.go:Suicide"
		}
		h.rep.Violate(vh.Violation{Site: site, Class: "deleted-fraction-reappears",
			What:   fmt.Sprintf("history %s: step %d (%s of a fraction held as %s) changed the fraction's files to %s, yet the final restart serves all of its documents again; states %s", hist.events(), eff, hist.steps[eff], strings.SplitN(obs[eff-1], ":", 2)[0], obs[eff], strings.Join(obs, ";")),
			Replay: []string{hist.String()}})
	} else if eff >= 0 && strings.HasPrefix(obs[eff-1], "sealed:") && strings.ContainsAny(dataFiles(obs[len(obs)-1]), "ef") {
		// c15_delete_finishes: after Sealed.Suicide began, the next start leaves no documents, index or marker
		h.rep.Violate(vh.Violation{Site: "fracmanager/loader.go:filterInfos", Class: "deletion-not-finished-at-next-start",
			What:   fmt.Sprintf("history %s: the deletion of the sealed fraction begun in step %d is not finished by the following starts: files left %s; states %s", hist.events(), eff, obs[len(obs)-1], strings.Join(obs, ";")),
			Replay: []string{hist.String()}})
	} else if served != "all" && served != "none" {
		site, class := "fracmanager/loader.go:load", "fraction-partially-served"
		for i, st := range hist.steps {
			if st.ev == "suicide" && st.crashAt > 0 && i > 0 && i-1 < len(obs) && strings.HasPrefix(obs[i-1], "active:") {
				// the deletion of an active fraction was cut between two of its removals
				site, class = "frac/active.go:Suicide", "interrupted-active-deletion-half-served"
			}
		}
		h.rep.Violate(vh.Violation{Site: site, Class: class,
			What: fmt.Sprintf("history %s: the fraction is served partially (ids without fetchable documents or the reverse): %s; states %s", hist.events(), detail, strings.Join(obs, ";")), Replay: []string{hist.String()}})
	}
}

// effectiveDeletion returns the index of the first suicide step after which the directory listing differs from the one
// before it (the deletion has begun on disk), or -1.
func effectiveDeletion(hist history, obs []string) int {
	for i, s := range hist.steps {
		if s.ev == "suicide" && i > 0 && i < len(obs) && i < len(hist.steps) {
			if listingOf(obs[i]) != listingOf(obs[i-1]) {
				return i
			}
		}
	}
	return -1
}

func listingOf(o string) string {
	if i := strings.IndexByte(o, ':'); i >= 0 {
		return o[i+1:]
	}
	return o
}

// dataFiles keeps the entries of a listing that hold documents, an index or a deletion marker (everything but the two
// temporary files and .meta, which the store never removes on its own once the rest is gone)
func dataFiles(o string) string {
	l := listingOf(o)
	if len(l) != 9 {
		return ""
	}
	return l[0:3] + l[4:6] + l[7:8]
}

func (h *harness) histories(skip, keep bool, n int, seed int64, full bool) []history {
	mk := func(steps ...step) history { return history{skip, keep, steps, n, seed, false} }
	st := func(ev string) step { return step{ev, 0} }
	at := func(ev string, k int) step { return step{ev, k} }
	var hs []history
	// creation
	for k := 1; k <= 4; k++ {
		hs = append(hs, mk(at("new", k), st("start"), st("start")))
	}
	hs = append(hs, mk(st("new"), st("start"), st("start")))
	hs = append(hs, mk(st("new"), st("fill"), st("start"), st("start")))
	// crash during the start that follows a crash during creation
	hs = append(hs, mk(at("new", 3), at("start", 2), st("start")))
	hs = append(hs, mk(st("new"), at("start", 5), st("start")), mk(st("new"), at("start", 6), st("start")))
	// deletion of an active fraction
	for k := 1; k <= 2; k++ {
		hs = append(hs, mk(st("new"), st("fill"), st("start"), at("suicide", k), st("start"), st("start")))
		if full {
			for j := 1; j <= 7; j++ {
				hs = append(hs, mk(st("new"), st("fill"), st("start"), at("suicide", k), at("start", j), st("start")))
			}
		}
	}
	hs = append(hs, mk(st("new"), st("fill"), st("start"), st("suicide"), st("start")))
	// sealing, then deletion of the sealed fraction
	sealOps := 9 // create _index, create _sdocs, written, sync, rename, written, sync, rename, syncdir
	if skip {
		sealOps = 5
	}
	if !keep {
		sealOps++
	}
	if !skip {
		sealOps++
	}
	hs = append(hs, mk(st("new"), st("fill"), st("seal"), st("start"), st("start")))
	for k := 1; k <= 6; k++ {
		hs = append(hs, mk(st("new"), st("fill"), st("seal"), st("start"), at("suicide", k), st("start"), st("start")))
		if full || k == 2 || k == 4 {
			dj := 2
			if full {
				dj = 1
			}
			for j := 1; j <= 7; j += dj {
				hs = append(hs, mk(st("new"), st("fill"), st("seal"), st("start"), at("suicide", k), at("start", j), st("start")))
			}
		}
	}
	hs = append(hs, mk(st("new"), st("fill"), st("seal"), st("start"), st("suicide"), st("start")))
	// retention reaches the fraction while proxyFrac.Seal has published the sealed form but not yet released the active
	// files (proxyFrac.Suicide waits for sealWg, which is done before active.Release()); the process dies inside or right
	// after the deletion
	for k := 0; k <= 6; k++ {
		if full || k == 0 || k == 3 || k == 5 {
			hs = append(hs, mk(st("new"), st("fill"), st("sealpub"), at("suicide", k), st("start"), st("start")))
		}
	}
	// crash inside the seal, restart, seal again, delete
	// an interrupted seal leaves ._index / ._sdocs / .sdocs behind; the store starts and the fraction is sealed AGAIN
	// (rotation + seal), then restarted
	resealAt := []int{1, 2, 3, 6}
	if skip {
		resealAt = []int{1, 2, 3}
	}
	for _, k := range resealAt {
		hs = append(hs, mk(st("new"), st("fill"), at("seal", k), st("start"), st("seal"), st("start"), st("start")))
	}
	// one bulk with a meta block of about 20 MB between ordinary ones, the fraction never sealed, two restarts
	if !skip && !keep {
		hb := mk(st("new"), st("fill"), st("fill"), st("fill"), st("start"), st("start"))
		hb.big = true
		hs = append(hs, hb)
	}
	// the start-up context is cancelled (SIGTERM) while the unsealed fraction is being replayed, then a normal start
	for _, k := range []int{1, 2, 4} {
		hc := mk(st("new"), st("fill"), at("startc", k), st("start"), st("start"))
		hc.n = 700 // seven bulks = seven meta blocks
		hs = append(hs, hc)
	}
	// retention deletes a fraction that is still active after an interrupted seal left its .sdocs behind (crash after
	// ._sdocs -> .sdocs, before the index is published), the process dying between every pair of removals of Active.Suicide
	for k := 1; k <= 2; k++ {
		hs = append(hs, mk(st("new"), st("fill"), at("seal", 5), st("start"), at("suicide", k), st("start"), st("start")))
	}
	hs = append(hs, mk(st("new"), st("fill"), at("seal", 5), st("start"), st("suicide"), st("start")))
	// between the two removals of Active.Release (the loader then has to remove the stale .docs itself)
	hs = append(hs, mk(st("new"), st("fill"), at("seal", sealOps-1), st("start"), st("start")))
	for k := 1; k <= sealOps; k += 2 {
		hs = append(hs, mk(st("new"), st("fill"), at("seal", k), st("start"), st("start")))
		if full {
			hs = append(hs, mk(st("new"), st("fill"), at("seal", k), at("start", 1), st("start")))
			hs = append(hs, mk(st("new"), st("fill"), at("seal", k), st("start"), at("suicide", 1), st("start")))
		}
	}
	return hs
}

// sealRetention: retention truncates a fraction whose seal is running.  Afterwards nothing of it may be left to serve.
func (h *harness) sealRetention(skip, keep bool, n int, seed int64) {
	work, _ := os.MkdirTemp(h.work, "sr")
	defer os.RemoveAll(work)
	dir := filepath.Join(work, "data")
	os.MkdirAll(dir, 0o755)
	out, code := runExe(120*time.Second, "session", dir, vh.B(skip), vh.B(keep), "1", "", "0", fmt.Sprintf("fill:%d:%d,sealretention", seed, n))
	track := ""
	for _, l := range strings.Split(out, "\n") {
		if f := strings.Fields(l); len(f) > 1 && f[0] == "OBS" {
			track = f[1]
		}
	}
	key := fmt.Sprintf("sealretention skip=%s keep=%s n=%d seed=%d", vh.B(skip), vh.B(keep), n, seed)
	res := runCheck(dir, skip, keep, fmt.Sprintf("%d:%d", seed, n))
	left := listing(dir, track)
	h.orSealRet.Case(key, true, fmt.Sprintf("session-exit=%d", code), "served="+res.served[seed], "left="+left)
	if code != 0 || strings.Contains(out, "RETENTION-HANGS") {
		h.rep.Violate(vh.Violation{Site: "fracmanager/proxy_frac.go:Suicide", Class: "retention-during-seal-kills-or-hangs",
			What: fmt.Sprintf("retention pass on a fraction whose seal is running: the process ended with exit code %d: %s", code, lastLines(out)), Replay: []string{key}})
	}
	if !res.up || res.served[seed] != "none" || strings.ContainsAny(dataFiles("x:"+left), "ef") {
		h.rep.Violate(vh.Violation{Site: "fracmanager/proxy_frac.go:Seal", Class: "fraction-deleted-during-seal-reappears",
			What: fmt.Sprintf("retention removed the fraction from the store while its seal was running; after the seal finished and a restart the files left are %s and the fraction serves %q (%s)", left, res.served[seed], res.detail), Replay: []string{key}})
	}
}

// ---------------------------------------------------------------- loader channel (as in C08, against the C15 driver)

var tplFor = []string{"docs", "docs", "sdocs", "sdocs", "sdocs", "index", "index", "index", "meta"}

func (h *harness) makeTemplates() (string, error) {
	work := filepath.Join(h.work, "tpl")
	dir := filepath.Join(work, "data")
	os.MkdirAll(dir, 0o755)
	out, code := runExe(60*time.Second, "session", dir, "0", "0", fmt.Sprint(uint64(1)<<40), "", "0", "fill:77:300")
	if code != 0 {
		return "", fmt.Errorf("template session failed: %s", out)
	}
	fr := fractionsIn(dir)
	if len(fr) != 1 {
		return "", fmt.Errorf("template store has %d fractions", len(fr))
	}
	tpl := filepath.Join(work, "files")
	os.MkdirAll(tpl, 0o755)
	copyFile(filepath.Join(dir, fr[0]+consts.DocsFileSuffix), filepath.Join(tpl, "docs"))
	copyFile(filepath.Join(dir, fr[0]+consts.MetaFileSuffix), filepath.Join(tpl, "meta"))
	out, code = runExe(60*time.Second, "session", dir, "0", "0", fmt.Sprint(uint64(1)<<40), fr[0], "0", "seal")
	if code != 0 {
		return "", fmt.Errorf("template seal failed: %s", out)
	}
	copyFile(filepath.Join(dir, fr[0]+consts.SdocsFileSuffix), filepath.Join(tpl, "sdocs"))
	copyFile(filepath.Join(dir, fr[0]+consts.IndexFileSuffix), filepath.Join(tpl, "index"))
	return tpl, nil
}

func (h *harness) loadOne(tpl, fs string) string {
	d, _ := os.MkdirTemp(h.work, "ld")
	defer os.RemoveAll(d)
	base := fracPrefix + "01C15LOADER0000000000000000"
	for i, c := range fs {
		p := filepath.Join(d, base+suffixes[i])
		switch c {
		case 'e':
			os.WriteFile(p, nil, 0o644)
		case 'f':
			copyFile(filepath.Join(tpl, tplFor[i]), p)
		}
	}
	res := runCheck(d, false, false, "-")
	loaded := "none"
	if !res.up {
		loaded = "down"
	}
	for _, k := range res.kinds {
		f := strings.Fields(k)
		if len(f) == 2 && f[0] == base {
			loaded = f[1]
		}
	}
	return fmt.Sprintf("ok %s left=%s", loaded, listing(d, base))
}

func (h *harness) loaderChannel(rng *vh.RNG) {
	tpl, err := h.makeTemplates()
	if err != nil {
		h.chLoad.Error = err.Error()
		return
	}
	var cases []string
	nonTmp := []int{0, 1, 2, 4, 5, 7, 8}
	gen := func(alpha string, tmp string) {
		k := len(alpha)
		total := 1
		for range nonTmp {
			total *= k
		}
		for m := 0; m < total; m++ {
			b := []byte("aaaaaaaaa")
			x := m
			for _, i := range nonTmp {
				b[i] = alpha[x%k]
				x /= k
			}
			b[3], b[6] = tmp[0], tmp[1]
			cases = append(cases, string(b))
		}
	}
	h.chLoad.Exhaustive = h.o.Thorough()
	if h.o.Thorough() {
		gen("aef", "aa")
		gen("ae", "ee")
	} else {
		gen("af", "aa")
		gen("ae", "aa")
		for i := 0; i < 30; i++ {
			b := []byte("aaaaaaaaa")
			for j := range b {
				b[j] = "aef"[rng.Intn(3)]
			}
			cases = append(cases, string(b))
		}
	}
	impl := make([]string, len(cases))
	var wg sync.WaitGroup
	sem := make(chan struct{}, 8)
	for i, c := range cases {
		wg.Add(1)
		sem <- struct{}{}
		go func(i int, c string) {
			defer wg.Done()
			defer func() { <-sem }()
			impl[i] = h.loadOne(tpl, c)
		}(i, c)
	}
	wg.Wait()
	for i, c := range cases {
		h.chLoad.Add("load "+c, impl[i], strings.ContainsAny(c, "ef"), "loaded="+strings.Fields(impl[i])[1])
	}
}

// ---------------------------------------------------------------- retention and cache

// buildStore makes a store with k sealed fractions (corpus seeds 1..k, sizes growing) and one active fraction.
func buildStore(dir string, k int, n int) (corpora []string, err error) {
	for i := 1; i <= k; i++ {
		out, code := runExe(120*time.Second, "session", dir, "0", "0", fmt.Sprint(uint64(1)<<40), "", "0", fmt.Sprintf("fill:%d:%d,seal", i, n*i))
		if code != 0 {
			return nil, fmt.Errorf("build session %d failed (%d): %s", i, code, lastLines(out))
		}
		corpora = append(corpora, fmt.Sprintf("%d:%d", i, n*i))
	}
	out, code := runExe(120*time.Second, "session", dir, "0", "0", fmt.Sprint(uint64(1)<<40), "", "0", fmt.Sprintf("fill:%d:%d", k+1, n))
	if code != 0 {
		return nil, fmt.Errorf("build session failed (%d): %s", code, lastLines(out))
	}
	return append(corpora, fmt.Sprintf("%d:%d", k+1, n)), nil
}

func parseFracs(out string) (names []string, sizes []int) {
	var last string
	for _, l := range strings.Split(out, "\n") {
		if strings.HasPrefix(l, "OBS ") {
			last = l
		}
	}
	i := strings.Index(last, "fracs=")
	if i < 0 {
		return
	}
	for _, f := range strings.Split(last[i+6:], ",") {
		kv := strings.Split(f, ":")
		if len(kv) == 2 {
			v, _ := strconv.Atoi(kv[1])
			names, sizes = append(names, kv[0]), append(sizes, v)
		}
	}
	return
}

func (h *harness) retention(rng *vh.RNG) {
	work, _ := os.MkdirTemp(h.work, "ret")
	defer os.RemoveAll(work)
	base := filepath.Join(work, "base")
	os.MkdirAll(base, 0o755)
	k := h.o.Pick(4, 6)
	if _, err := buildStore(base, k, 120); err != nil {
		h.orOrder.Error = err.Error()
		return
	}
	out, _ := runExe(60*time.Second, "session", dirCopy(work, base), "0", "0", fmt.Sprint(uint64(1)<<40), "", "0", "-")
	names, sizes := parseFracs(out)
	if len(names) != k+1 {
		h.orOrder.Error = fmt.Sprintf("expected %d fractions, the store lists %v", k+1, names)
		return
	}
	// the sizes retention works with (after a start that found no .frac-cache) are the sizes of the files
	var disk []int
	sizeReported := false
	for i, nme := range names {
		d := int(diskSize(base, nme))
		disk = append(disk, d)
		h.orOrder.Case("size "+fmt.Sprint(i), true, "size-equals-files="+vh.B(d == sizes[i]))
		if d != sizes[i] && !sizeReported {
			sizeReported = true
			h.rep.Violate(vh.Violation{Site: "frac/sealed.go:loadHeader", Class: "fraction-size-differs-from-files",
				What:   fmt.Sprintf("after a start without .frac-cache fraction %d of %v reports FullSize %d, its files occupy %d bytes (retention works with the reported value)", i, names, sizes[i], d),
				Replay: []string{"retention sizes"}})
		}
	}
	sum := 0
	var limits []int
	for _, s := range sizes {
		limits = append(limits, sum+s/2, sum+s) // inside and exactly at every boundary
		sum += s
	}
	limits = append(limits, 0, sum+1)
	sort.Ints(limits)
	for _, lim := range limits {
		d := dirCopy(work, base)
		total := sum - lim // shrinkSizes compares the total size with TotalSize
		if total < 0 {
			total = 0
		}
		out, code := runExe(60*time.Second, "session", d, "0", "0", fmt.Sprint(total), "", "0", "shrink")
		after, _ := parseFracs(out)
		removed := len(names) - len(after)
		prefixOK := code == 0 && removed >= 0 && strings.Join(after, ",") == strings.Join(names[removed:], ",")
		h.chShr.Add(fmt.Sprintf("shrink %d %s", total, vh.JoinInts(sizes)), fmt.Sprintf("ok %d", removed), removed > 0 && removed < len(names), fmt.Sprintf("removed=%d", removed))
		h.orOrder.Case(fmt.Sprintf("retention sizes=%s total=%d", vh.JoinInts(sizes), total), removed > 0, fmt.Sprintf("removed=%d", removed))
		// the specification of retention, computed directly: the least k with sum(sizes[k:]) <= TotalSize
		need, diskSum := 0, 0
		for _, d := range disk {
			diskSum += d
		}
		for rest := diskSum; rest > total && need < len(disk); need++ {
			rest -= disk[need]
		}
		if prefixOK && removed != need {
			h.rep.Violate(vh.Violation{Site: "fracmanager/fracmanager.go:shrinkSizes", Class: "retention-removes-wrong-number",
				What:   fmt.Sprintf("fraction sizes on disk %v (oldest first; reported %v), TotalSize=%d: %d fractions removed, the shortest prefix that fits is %d", disk, sizes, total, removed, need),
				Replay: []string{fmt.Sprintf("retention k=%d total=%d", k, total)}})
		}
		if !prefixOK {
			h.rep.Violate(vh.Violation{Site: "fracmanager/fracmanager.go:shrinkSizes", Class: "retention-not-oldest-first",
				What:   fmt.Sprintf("fractions %v (sizes %v) with TotalSize=%d: left %v (exit %d) - not a suffix of the creation order", names, sizes, total, after, code),
				Replay: []string{fmt.Sprintf("retention k=%d total=%d", k, total)}})
			continue
		}
		// what is left after a restart: exactly the kept fractions, completely
		var corp []string
		for i := 1; i <= k+1; i++ {
			n := 120 * i
			if i == k+1 {
				n = 120
			}
			corp = append(corp, fmt.Sprintf("%d:%d", i, n))
		}
		res := runCheck(d, false, false, strings.Join(corp, ","))
		for i := 1; i <= k+1; i++ {
			want := "all"
			if i <= removed {
				want = "none"
			}
			if got := res.served[int64(i)]; got != want || !res.up {
				h.rep.Violate(vh.Violation{Site: "fracmanager/fracmanager.go:shrinkSizes", Class: "retention-restart-serves-wrong-set",
					What:   fmt.Sprintf("after retention removed %d of %d fractions and a restart, fraction %d serves %q (expected %q): %s", removed, k+1, i, got, want, res.detail),
					Replay: []string{fmt.Sprintf("retention k=%d total=%d", k, total)}})
				break
			}
		}
	}
	// restart order: an older unsealed fraction next to a newer sealed one
	d := filepath.Join(work, "order")
	os.MkdirAll(d, 0o755)
	runExe(60*time.Second, "session", d, "0", "0", fmt.Sprint(uint64(1)<<40), "", "0", "fill:1:150")
	old := fractionsIn(d)
	snap := dirCopy(work, d) // the older fraction in its active form
	runExe(60*time.Second, "session", d, "0", "0", fmt.Sprint(uint64(1)<<40), "", "0", "seal,fill:2:150,seal,fill:3:20")
	if len(old) == 1 {
		// crash state: the seal of the older fraction (running in the background) had not published anything yet when the
		// newer fraction was already sealed
		for _, s := range suffixes {
			os.Remove(filepath.Join(d, old[0]+s))
		}
		copyFile(filepath.Join(snap, old[0]+consts.DocsFileSuffix), filepath.Join(d, old[0]+consts.DocsFileSuffix))
		copyFile(filepath.Join(snap, old[0]+consts.MetaFileSuffix), filepath.Join(d, old[0]+consts.MetaFileSuffix))
		res := runCheck(d, false, false, "1:150,2:150")
		var withDocs []string
		for _, nme := range res.order {
			for _, kd := range res.kinds {
				if strings.HasPrefix(kd, nme+" ") {
					withDocs = append(withDocs, nme)
				}
			}
		}
		sorted := sort.StringsAreSorted(res.order)
		h.orOrder.Case("restart-order older-active newer-sealed", true, "sorted="+vh.B(sorted))
		if res.up && !sorted {
			h.rep.Violate(vh.Violation{Site: "fracmanager/loader.go:load", Class: "restart-puts-older-unsealed-fraction-after-newer-sealed",
				What:   fmt.Sprintf("after a restart fm.fracs is %v: the older fraction %s (unsealed at the crash) comes after newer sealed fractions, so retention (which pops the head) deletes newer data first", res.order, old[0]),
				Replay: []string{"restart-order"}})
		}
		// that first start sealed the recovered fraction (it was not the last unsealed one).  From the SECOND start on all
		// fractions are where their age puts them: fm.fracs is in creation (name) order, the writable fraction is the
		// newest, and a retention pass that has to free one fraction removes the oldest
		res2 := runCheck(d, false, false, "1:150,2:150,3:20")
		sorted2 := sort.StringsAreSorted(res2.order)
		h.orOrder.Case("second-restart order after recovery", true, "sorted="+vh.B(sorted2))
		if res2.up && !sorted2 {
			h.rep.Violate(vh.Violation{Site: "fracmanager/loader.go:load", Class: "fraction-order-not-by-age-after-recovery",
				What:   fmt.Sprintf("an older fraction was recovered (replayed and sealed) by the first start after a crash; at the second start fm.fracs is %v - not in creation order (%s is the oldest), so retention removes newer data first, for good", res2.order, old[0]),
				Replay: []string{"restart-order second"}})
		} else if res2.up {
			var sum int64
			for _, v := range res2.sizes {
				sum += v
			}
			runExe(60*time.Second, "session", d, "0", "0", fmt.Sprint(sum-1), "", "0", "shrink")
			left := fractionsIn(d)
			goneOldest := len(left) > 0 && !contains(left, old[0])
			h.orOrder.Case("retention after recovery", true, "oldest-removed="+vh.B(goneOldest))
			if !goneOldest {
				h.rep.Violate(vh.Violation{Site: "fracmanager/fracmanager.go:shrinkSizes", Class: "retention-after-recovery-removes-newer-fraction",
					What:   fmt.Sprintf("after crash recovery and two restarts a retention pass that has to free one fraction left %v: the oldest fraction %s is still there", left, old[0]),
					Replay: []string{"restart-order second"}})
			}
		}
	}
	// two unsealed fractions at the crash (rotate, crash before the background seal ends): a full older one, a small newer one
	da, db := filepath.Join(work, "twoA"), filepath.Join(work, "twoB")
	os.MkdirAll(da, 0o755)
	os.MkdirAll(db, 0o755)
	runExe(120*time.Second, "session", da, "0", "0", fmt.Sprint(uint64(1)<<40), "", "0", fmt.Sprintf("fill:5:%d", h.o.Pick(2500, 8000)))
	time.Sleep(5 * time.Millisecond) // the newer fraction gets a later ULID
	runExe(60*time.Second, "session", db, "0", "0", fmt.Sprint(uint64(1)<<40), "", "0", "fill:6:40")
	fa, fb := fractionsIn(da), fractionsIn(db)
	if len(fa) == 1 && len(fb) == 1 && fa[0] < fb[0] {
		for _, suf := range []string{consts.DocsFileSuffix, consts.MetaFileSuffix} {
			copyFile(filepath.Join(db, fb[0]+suf), filepath.Join(da, fb[0]+suf))
		}
		res := runCheck(da, false, false, fmt.Sprintf("5:%d,6:40", h.o.Pick(2500, 8000)))
		writable := ""
		for _, kd := range res.kinds {
			if f := strings.Fields(kd); len(f) == 2 && f[1] == "active" {
				writable = f[0]
			}
		}
		ok := res.up && len(res.order) >= 2 && res.order[0] == fa[0] && res.order[1] == fb[0] && writable == fb[0]
		h.orOrder.Case("two unsealed fractions", true, "age-order-and-newest-writable="+vh.B(ok))
		if res.up && !ok {
			h.rep.Violate(vh.Violation{Site: "fracmanager/loader.go:load", Class: "replayed-fractions-out-of-age-order",
				What:   fmt.Sprintf("two unsealed fractions at start-up (older %s with many documents, newer %s with few): fm.fracs is %v and the writable fraction is %s - expected age order with the newest one writable (retention pops the head, new documents go to the writable one)", fa[0], fb[0], res.order, writable),
				Replay: []string{"restart-order two-unsealed"}})
		}
	} else {
		h.orOrder.Error = fmt.Sprintf("two-unsealed scenario could not be built: %v %v", fa, fb)
	}
}

func contains(xs []string, x string) bool {
	for _, y := range xs {
		if y == x {
			return true
		}
	}
	return false
}

func (h *harness) cache(rng *vh.RNG) {
	work, _ := os.MkdirTemp(h.work, "cache")
	defer os.RemoveAll(work)
	// late documents: every fraction gets a time distribution of its own (documents 97, 194, ... minutes before creation)
	os.Setenv("VERIF_LATE_NOW", fmt.Sprint(time.Now().UnixMilli()))
	defer os.Unsetenv("VERIF_LATE_NOW")
	base := filepath.Join(work, "base")
	os.MkdirAll(base, 0o755)
	corp, err := buildStore(base, 3, 100)
	if err != nil {
		h.orCache.Error = err.Error()
		return
	}
	corpora := strings.Join(corp, ",")
	// a valid cache written by the store itself, and a stale one (written before the last fraction was sealed)
	stale := dirCopy(work, base)
	runExe(60*time.Second, "session", stale, "0", "0", fmt.Sprint(uint64(1)<<40), "", "0", "cache")
	staleBytes, _ := os.ReadFile(filepath.Join(stale, consts.FracCacheFileSuffix))
	runExe(60*time.Second, "session", base, "0", "0", fmt.Sprint(uint64(1)<<40), "", "0", "seal,cache")
	valid, err := os.ReadFile(filepath.Join(base, consts.FracCacheFileSuffix))
	if err != nil || len(valid) == 0 {
		h.orCache.Error = fmt.Sprintf("the store did not write %s: %v", consts.FracCacheFileSuffix, err)
		return
	}
	// what is compared: the documents served per corpus and the sealed fractions (the empty active fraction every start
	// creates has a fresh name each time)
	show := func(r checkResult) string {
		var sealed []string
		for _, k := range r.kinds {
			if strings.HasSuffix(k, " sealed") {
				sealed = append(sealed, k)
			}
		}
		sort.Strings(sealed)
		var sz []string
		for _, k := range sealed {
			nme := strings.Fields(k)[0]
			sz = append(sz, fmt.Sprintf("%s=%d", nme, r.sizes[nme]))
		}
		return fmt.Sprint(r.served, sealed, sz)
	}
	ref := runCheck(dirCopy(work, base), false, false, corpora)
	refS := show(ref)
	for seed, sv := range ref.served {
		if sv != "all" || !ref.up {
			h.rep.Violate(vh.Violation{Site: "fracmanager/sealed_frac_cache.go:LoadFromDisk", Class: "restart-with-cache-hides-documents",
				What:   fmt.Sprintf("clean restart with the .frac-cache the store wrote itself: corpus %d (documents %d minutes older than the fraction) is served %q for full-range and own-time-range queries: %s", seed, seed*97, sv, ref.detail),
				Replay: []string{"cache valid"}})
			break
		}
	}
	variants := map[string][]byte{"missing": nil, "empty": {}, "stale": staleBytes, "garbage": []byte("{\"x\":"), "valid": valid}
	lens := []int{1, len(valid) / 3, len(valid) / 2, len(valid) - 1}
	if h.o.Thorough() {
		for l := 2; l < len(valid); l += max(1, len(valid)/60) {
			lens = append(lens, l)
		}
	} else {
		lens = append(lens, 1+rng.Intn(len(valid)-1), 1+rng.Intn(len(valid)-1))
	}
	for _, l := range lens {
		variants[fmt.Sprintf("truncated@%d", l)] = valid[:l]
	}
	// entries the code explicitly does not trust (NewSealed: `info != nil && info.IndexOnDisk > 0`): a cache that parses
	// but whose entries lack the sizes - written by an older version, or zeroed
	var parsed map[string]map[string]any
	if json.Unmarshal(valid, &parsed) == nil {
		strip := func(keep func(k string) bool, zero bool) []byte {
			out := map[string]map[string]any{}
			for name, e := range parsed {
				ne := map[string]any{}
				for k, v := range e {
					switch {
					case keep(k):
						ne[k] = v
					case zero:
						if _, isNum := v.(float64); isNum {
							ne[k] = 0
						}
					}
				}
				out[name] = ne
			}
			b, _ := json.Marshal(out)
			return b
		}
		variants["entries-name-only"] = strip(func(k string) bool { return k == "name" || k == "ver" }, false)
		variants["entries-zeroed"] = strip(func(k string) bool { return k == "name" || k == "ver" }, true)
		variants["entries-no-index-size"] = strip(func(k string) bool { return k != "index_on_disk" }, false)
		// damaged but parsable: null entries, empty objects, entries for fractions that do not exist
		mk := func(f func(name string, e map[string]any) any, extra bool) []byte {
			out := map[string]any{}
			for name, e := range parsed {
				out[name] = f(name, e)
			}
			if extra {
				out["seq-db-00UNKNOWNFRACTION0000000000"] = map[string]any{"name": "seq-db-00UNKNOWNFRACTION0000000000", "index_on_disk": 123, "docs_total": 5}
				out["seq-db-ZZUNKNOWNFRACTION0000000000"] = nil
			}
			b, _ := json.Marshal(out)
			return b
		}
		variants["entries-null"] = mk(func(string, map[string]any) any { return nil }, false)
		variants["entries-empty-object"] = mk(func(string, map[string]any) any { return map[string]any{} }, false)
		first := true
		variants["one-entry-null"] = mk(func(_ string, e map[string]any) any {
			if first {
				first = false
				return nil
			}
			return e
		}, false)
		variants["extra-unknown-fractions"] = mk(func(_ string, e map[string]any) any { return e }, true)
	}
	for _, name := range vh.SortedKeys(variants) {
		d := dirCopy(work, base)
		p := filepath.Join(d, consts.FracCacheFileSuffix)
		if name == "missing" {
			os.Remove(p)
		} else {
			os.WriteFile(p, variants[name], 0o644)
		}
		res := runCheck(d, false, false, corpora)
		got := show(res)
		for nme, v := range res.sizes {
			if dsz := diskSize(d, nme); res.up && dsz != v && strings.Contains(got, nme+" sealed") {
				h.rep.Violate(vh.Violation{Site: "frac/sealed.go:loadHeader", Class: "fraction-size-differs-from-files",
					What:   fmt.Sprintf(".frac-cache %s: after the restart fraction %s reports FullSize %d, its files occupy %d bytes", name, nme, v, dsz),
					Replay: []string{"cache " + name}})
				break
			}
		}
		h.orCache.Case("cache "+name, name != "valid", "variant="+strings.SplitN(name, "@", 2)[0], "same="+vh.B(got == refS))
		if !res.up {
			h.rep.Violate(vh.Violation{Site: "fracmanager/sealed_frac_cache.go:GetFracInfo", Class: "cache-file-prevents-start-up",
				What:   fmt.Sprintf(".frac-cache %s (parsable or not, a cache is only an optimisation): the store does not start: %s", name, res.detail),
				Replay: []string{"cache " + name}})
		} else if got != refS {
			h.rep.Violate(vh.Violation{Site: "fracmanager/sealed_frac_cache.go:LoadFromDisk", Class: "cache-file-changes-served-set",
				What:   fmt.Sprintf(".frac-cache %s: the restart serves %s, with the valid cache %s (up=%v) %s", name, got, refS, res.up, res.detail),
				Replay: []string{"cache " + name}})
		}
	}
}

func parseKV(line string) map[string]string {
	m := map[string]string{}
	for _, f := range strings.Fields(line) {
		if i := strings.IndexByte(f, '='); i > 0 {
			m[f[:i]] = f[i+1:]
		}
	}
	return m
}

func parseEvents(s string) []step {
	var res []step
	for _, e := range strings.Split(s, ";") {
		p := strings.SplitN(e, "@", 2)
		st := step{ev: p[0]}
		if len(p) == 2 {
			st.crashAt, _ = strconv.Atoi(p[1])
		}
		res = append(res, st)
	}
	return res
}

func main() {
	if len(os.Args) > 1 && os.Args[1] == "session" {
		sessionMain(os.Args[2:])
		return
	}
	if len(os.Args) > 1 && os.Args[1] == "check" {
		checkMain(os.Args[2:])
		return
	}
	o := vh.ParseFlags()
	logger.SetLevel(zapcore.FatalLevel)
	rep := vh.NewReport("C15", o)
	work, err := os.MkdirTemp("", "verif-c15-")
	if err != nil {
		fmt.Fprintln(os.Stderr, err)
		os.Exit(3)
	}
	defer os.RemoveAll(work)
	h := &harness{o: o, rep: rep, work: work,
		chLoad:    vh.NewChannel("loader.startup", "real FracManager.Load in a child process on one fraction's directory vs SV.FileSet.startup (extracted orphanFatal): loaded kind (none/active/sealed/down) and the files left; quick: all 2^7 presence combinations with valid and with empty contents plus mixed samples, thorough: all 3^7 (absent/empty/valid) and all 2^7 empty with temporary files; non-trivial = at least one file present"),
		chLife:    vh.NewChannel("life", "histories of one fraction on the real store (rotate, bulks, SealForcedForTests, a retention pass that deletes it as active or as sealed fraction, restarts), one child process per session, killed after the k-th file operation on the fraction's files (k over all operations of NewActive, Active.Suicide, Sealed.Suicide, the loader's own removals, and every other operation of sealing) vs SV.Lifecycle through `life`: what the store holds and the directory listing after every step, and what the final restart serves; non-trivial = the history contains a crash"),
		chShr:     vh.NewChannel("shrink", "the real shrinkSizes on a store with several sealed fractions of growing size, TotalSize placed inside and exactly at every boundary, vs SV.Lifecycle.shrink: number of fractions removed; non-trivial = some but not all removed"),
		orLife:    vh.NewOracle("life.restart", "every history of the life channel: no Load dies and the final restart serves the fraction completely or not at all; non-trivial = the history contains a crash"),
		orOrder:   vh.NewOracle("retention.order", "after a start without .frac-cache every fraction's FullSize equals the size of its files; shrinkSizes removes the shortest prefix of the creation order that brings the files' total under TotalSize, the rest is a suffix and a restart serves exactly it; after a restart that finds an older unsealed fraction next to a newer sealed one fm.fracs is still in creation order; non-trivial = something was removed"),
		orSealRet: vh.NewOracle("retention.during-seal", "a retention pass pops the fraction while its seal is running (proxyFrac.Suicide waits for the seal; the sealer is held for up to 400 ms between the return of frac.Seal and the publication so that a Suicide waking too early gets to run): the process survives, and after a restart no documents, index or deletion markers of the fraction are left and nothing of it is served"),
		orCache:   vh.NewOracle("cache.restart", "(served set, sealed fractions and their FullSize, which must also equal the size of their files) restart with .frac-cache missing / empty / garbage / stale / truncated at several lengths / parsing but with entries that lack the sizes (name only, numeric fields zeroed, no index_on_disk - what NewSealed explicitly refuses to trust; null entries, empty objects, entries for unknown fractions); the fractions hold late documents so that each Info carries its own time distribution, and every corpus is queried over the full range and over its own time range serves the same fractions and documents as with the valid cache; non-trivial = not the valid cache"),
	}
	rng := vh.NewRNG(o.Seed)
	if o.Replay != "" {
		lines, err := vh.ReadReplay(o.Replay)
		if err != nil {
			fmt.Fprintln(os.Stderr, err)
			os.Exit(3)
		}
		for _, l := range lines {
			kv := parseKV(l)
			switch {
			case strings.HasPrefix(l, "life "):
				n, _ := strconv.Atoi(kv["n"])
				seed, _ := strconv.ParseInt(kv["seed"], 10, 64)
				h.life(history{kv["skip"] == "1", kv["keep"] == "1", parseEvents(kv["events"]), n, seed, kv["big"] == "1"})
			case strings.HasPrefix(l, "sealretention "):
				n, _ := strconv.Atoi(kv["n"])
				seed, _ := strconv.ParseInt(kv["seed"], 10, 64)
				h.sealRetention(kv["skip"] == "1", kv["keep"] == "1", n, seed)
			case strings.HasPrefix(l, "retention"), strings.HasPrefix(l, "restart-order"):
				h.retention(rng)
			case strings.HasPrefix(l, "cache"):
				h.cache(rng)
			}
		}
	} else {
		only := func(name string) bool { return o.Only == "" || o.Only == name }
		if only("life") {
			for _, hist := range h.histories(false, false, o.Pick(200, 600), o.Seed, o.Thorough()) {
				h.life(hist)
			}
			for _, cfg := range [][2]bool{{true, false}, {false, true}, {true, true}} {
				hs := h.histories(cfg[0], cfg[1], o.Pick(150, 300), o.Seed+1, false)
				for i, hist := range hs {
					if o.Thorough() || i%3 == int(o.Seed%3) {
						h.life(hist)
					}
				}
			}
		}
		if only("sealretention") {
			h.sealRetention(false, false, o.Pick(300, 900), o.Seed+50)
			h.sealRetention(true, false, o.Pick(300, 900), o.Seed+51)
			if o.Thorough() {
				h.sealRetention(false, true, 500, o.Seed+52)
			}
		}
		if only("load") {
			h.loaderChannel(rng)
		}
		if only("retention") {
			h.retention(rng)
		}
		if only("cache") {
			h.cache(rng)
		}
	}
	for _, c := range []*vh.Channel{h.chLoad, h.chLife, h.chShr} {
		rep.AddChannel(c, o.Driver)
	}
	rep.AddOracle(h.orLife)
	rep.AddOracle(h.orOrder)
	rep.AddOracle(h.orCache)
	rep.AddOracle(h.orSealRet)
	sort.SliceStable(rep.Violations, func(i, j int) bool { return rep.Violations[i].Site < rep.Violations[j].Site })
	rep.Write(o.Out)
}
