// Single-binary mode end-to-end oracle of C10 (bulk.single): the real store (storeapi.NewStore) glued to the real
// proxy side (BulkHandler -> bulk.Ingestor -> SeqDBClient) by the in-memory StoreApiClient (storeapi.NewClient), as
// proxyapi.NewIngestor wires it for the single mode.  The store's index workers are parked at their first hook point
// (c07.aidx.start: a task has been taken from the queue, nothing of it has been read yet) while a burst of small
// bulks is accepted, then released; afterwards every accepted document must be findable by its own token and be
// fetched with its own bytes.  The store retains the request's Metas after Bulk has returned, so whatever the glue
// hands over must stay untouched until it is indexed.  Runs in a child process: a store panic is an observation.
package main

import (
	"bytes"
	"context"
	"encoding/json"
	"fmt"
	"net/http"
	"net/http/httptest"
	"os"
	"os/exec"
	"strings"
	"sync"
	"time"

	"go.uber.org/zap"

	"github.com/ozontech/seq-db/conf"
	"github.com/ozontech/seq-db/consts"
	"github.com/ozontech/seq-db/fracmanager"
	"github.com/ozontech/seq-db/logger"
	"github.com/ozontech/seq-db/mappingprovider"
	pstoreapi "github.com/ozontech/seq-db/pkg/storeapi"
	"github.com/ozontech/seq-db/proxy/bulk"
	"github.com/ozontech/seq-db/proxy/search"
	"github.com/ozontech/seq-db/proxy/stores"
	"github.com/ozontech/seq-db/proxyapi"
	"github.com/ozontech/seq-db/seq"
	sapi "github.com/ozontech/seq-db/storeapi"
	"github.com/ozontech/seq-db/verifhook"

	"verifharness/internal/vh"
)

type singleParams struct {
	Rounds   int   `json:"rounds"`
	PerRound int   `json:"per_round"` // bulks accepted while the index workers are parked (<= workers + queue length)
	Seed     int64 `json:"seed"`
}

func (p singleParams) line() string {
	return fmt.Sprintf("single %d %d %d", p.Rounds, p.PerRound, p.Seed)
}

func parseSingle(l string) (singleParams, bool) {
	var p singleParams
	if n, _ := fmt.Sscanf(l, "single %d %d %d", &p.Rounds, &p.PerRound, &p.Seed); n != 3 {
		return p, false
	}
	return p, true
}

type singleDoc struct {
	Tag     string `json:"tag"`
	Doc     string `json:"doc"`
	Status  int    `json:"status"`
	Found   int    `json:"found"`
	Fetched string `json:"fetched"`
	Err     string `json:"err"`
}

type singleOut struct {
	Workers int         `json:"workers"`
	Docs    []singleDoc `json:"docs"`
	Err     string      `json:"err"`
}

// singleChild: os.Args = [bin, "single-child", rounds, perRound, seed, outFile]
func singleChild(p singleParams, outFile string) {
	logger.SetLevel(zap.FatalLevel)
	out := singleOut{Workers: conf.IndexWorkers}
	write := func() {
		b, _ := json.Marshal(out)
		os.WriteFile(outFile, b, 0o644)
	}
	dir, err := os.MkdirTemp("", "c10-single-")
	if err != nil {
		out.Err = err.Error()
		write()
		return
	}
	defer os.RemoveAll(dir)
	ctx := context.Background()
	mapping := seq.Mapping{
		"u":       seq.NewSingleType(seq.TokenizerTypeKeyword, "", 0),
		"k":       seq.NewSingleType(seq.TokenizerTypeKeyword, "", 0),
		"message": seq.NewSingleType(seq.TokenizerTypeText, "", 0),
	}
	mp, err := mappingprovider.New("", mappingprovider.WithMapping(mapping))
	if err != nil {
		out.Err = err.Error()
		write()
		return
	}
	store, err := sapi.NewStore(ctx, sapi.StoreConfig{
		API: sapi.APIConfig{Search: sapi.SearchConfig{WorkersCount: 4, FractionsPerIteration: 4}},
		FracManager: *fracmanager.FillConfigWithDefault(&fracmanager.Config{
			DataDir: dir, FracSize: 1 * consts.GB, TotalSize: 4 * consts.GB, CacheSize: 256 * consts.MB}),
	}, mp)
	if err != nil {
		out.Err = "NewStore: " + err.Error()
		write()
		return
	}
	// the wiring proxyapi.NewIngestor does when it is given a store (single mode)
	clients := map[string]pstoreapi.StoreApiClient{"memory": sapi.NewClient(store)}
	hot := stores.NewStoresFromString("memory", 1)
	none := stores.NewStoresFromString("", 1)
	bcfg := bulk.IngestorConfig{HotStores: hot, WriteStores: none, MaxInflightBulks: 4, AllowedTimeDrift: 24 * time.Hour,
		FutureAllowedTimeDrift: 5 * time.Minute, MappingProvider: mp, MaxTokenSize: consts.DefaultMaxTokenSize,
		DocsZSTDCompressLevel: -1, MetasZSTDCompressLevel: -1, MaxDocumentSize: consts.MB}
	ing := bulk.NewIngestor(bcfg, bulk.NewSeqDBClient(hot, none, bcfg.BulkCircuit, clients))
	h := proxyapi.NewBulkHandler(ing, consts.MB)
	searcher := search.NewIngestor(search.Config{HotStores: hot, ReadStores: none, WriteStores: none}, clients)

	// park / release the index workers
	var mu sync.Mutex
	var gate chan struct{}
	verifhook.Set(func(name, _ string, _ []int64) {
		if name != "c07.aidx.start" {
			return
		}
		mu.Lock()
		g := gate
		mu.Unlock()
		if g != nil {
			<-g
		}
	})
	if max := 2*conf.IndexWorkers - 2; p.PerRound > max { // parked workers + queue length, minus a margin
		p.PerRound = max
	}
	r := vh.NewRNG(p.Seed)
	start := time.Now()
	for round := 0; round < p.Rounds; round++ {
		mu.Lock()
		gate = make(chan struct{})
		g := gate
		mu.Unlock()
		for i := 0; i < p.PerRound; i++ {
			tag := fmt.Sprintf("r%db%dx%d", round, i, r.Intn(1000000))
			// same shape and nearly the same size for all: pooled buffers of one size class get reused
			doc := fmt.Sprintf(`{"u":"%s","k":"V%03d","message":"Payload of %s %s"}`, tag, i, tag, strings.Repeat("x", r.Intn(4)))
			body := `{"index":{}}` + "\n" + doc + "\n"
			rec := httptest.NewRecorder()
			done := make(chan struct{})
			go func() {
				h.ServeHTTP(rec, httptest.NewRequest(http.MethodPost, "/_bulk", bytes.NewReader([]byte(body))))
				close(done)
			}()
			d := singleDoc{Tag: tag, Doc: doc}
			select {
			case <-done:
				d.Status = rec.Code
			case <-time.After(20 * time.Second):
				d.Err = "bulk did not return while the index workers were parked (queue full?)"
			}
			out.Docs = append(out.Docs, d)
			if d.Err != "" {
				break
			}
		}
		write() // on record before the workers touch what was handed over
		mu.Lock()
		gate = nil
		mu.Unlock()
		close(g)
		store.WaitIdle()
	}
	verifhook.Set(nil)
	store.WaitIdle()
	write() // what was accepted is on record even if the search below kills the process
	for i := range out.Docs {
		d := &out.Docs[i]
		if d.Status != 200 {
			continue
		}
		qpr, stream, _, err := searcher.Search(ctx, &search.SearchRequest{Q: []byte("u:" + d.Tag), Size: 10,
			From: seq.TimeToMID(start.Add(-time.Hour)), To: seq.TimeToMID(time.Now().Add(time.Hour)), ShouldFetch: true}, nil)
		if err != nil {
			d.Err = "search: " + err.Error()
			continue
		}
		d.Found = len(qpr.IDs)
		if stream != nil {
			got := search.ReadAll(stream)
			if len(got) > 0 {
				d.Fetched = string(got[0])
			}
		}
	}
	write()
	ing.Stop()
	store.Stop()
}

func runSingle(p singleParams, orc *vh.Oracle, rep *vh.Report) {
	dir, err := os.MkdirTemp("", "c10-single-io-")
	if err != nil {
		orc.Error = err.Error()
		return
	}
	defer os.RemoveAll(dir)
	outFile := dir + "/out.json"
	var out singleOut
	var crash string
	for attempt := 0; attempt < 2; attempt++ {
		os.Remove(outFile)
		cmd := exec.Command(os.Args[0], "single-child", fmt.Sprint(p.Rounds), fmt.Sprint(p.PerRound), fmt.Sprint(p.Seed), outFile)
		var stderr bytes.Buffer
		cmd.Stderr = &stderr
		if err := cmd.Start(); err != nil {
			orc.Error = err.Error()
			return
		}
		done := make(chan error, 1)
		go func() { done <- cmd.Wait() }()
		select {
		case err = <-done:
		case <-time.After(5 * time.Minute):
			cmd.Process.Kill()
			err = fmt.Errorf("timeout")
		}
		raw, rerr := os.ReadFile(outFile)
		if rerr == nil {
			json.Unmarshal(raw, &out)
		}
		if err == nil {
			crash = ""
			break
		}
		tail := stderr.String()
		if i := strings.Index(tail, "panic"); i >= 0 {
			tail = tail[i:]
		}
		if len(tail) > 500 {
			tail = tail[:500]
		}
		crash = fmt.Sprintf("%v: %s", err, tail)
	}
	accepted := 0
	for _, d := range out.Docs {
		if d.Status == 200 {
			accepted++
		}
	}
	orc.Case(p.line(), accepted > 0, fmt.Sprintf("workers=%d", out.Workers), fmt.Sprintf("accepted=%d", accepted))
	site := "storeapi/client.go:inMemoryAPIClient.Bulk"
	if crash != "" {
		violate(rep, vh.Violation{Site: site, Class: "store-dies-after-accepting-bulks",
			What:   fmt.Sprintf("single mode, %d bulks accepted while the index workers were busy: the process died twice: %s", accepted, crash),
			Replay: []string{p.line()}})
		return
	}
	if out.Err != "" {
		orc.Error = out.Err
		return
	}
	notFound, wrong, dup, first := 0, 0, 0, ""
	for _, d := range out.Docs {
		if d.Err != "" {
			orc.Error = d.Err
			return
		}
		if d.Status != 200 {
			violate(rep, vh.Violation{Site: site, Class: "valid-bulk-rejected", What: fmt.Sprintf("status %d for %s", d.Status, d.Doc), Replay: []string{p.line()}})
			continue
		}
		switch {
		case d.Found == 0:
			notFound++
			if first == "" {
				first = "not findable: " + d.Doc
			}
		case d.Found > 1:
			dup++
		case d.Fetched != d.Doc:
			wrong++
			if first == "" {
				first = fmt.Sprintf("sent %s, fetched %s", d.Doc, d.Fetched)
			}
		}
	}
	if notFound+wrong+dup > 0 {
		violate(rep, vh.Violation{Site: site, Class: "accepted-document-not-retrievable",
			What: fmt.Sprintf("single mode, %d bulks of one document accepted (200) while the %d index workers were busy: %d cannot be found by their own token, %d are fetched with other bytes, %d found more than once (e.g. %s)",
				accepted, out.Workers, notFound, wrong, dup, first), Replay: []string{p.line()}})
	}
}
