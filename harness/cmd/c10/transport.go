// Support code between the handler and the stores.
//
//	bulk.codec-handover (channel + oracle bulk.transport): network/grpcutil.VTProtoCodec - Marshal(A), Marshal(B), ..., then
//	    every returned slice must still unmarshal to its own message (gRPC keeps the slice until the transport has
//	    written it); compared with SV.Handover.run stepClone (the by-value discipline)
//	bulk.transport (oracle): concurrent large bulks from the real SeqDBClient over real gRPC (codec registered as
//	    cmd/seq-db does) to a fake StoreApiServer that compares every received payload byte for byte with what the
//	    client was handed
//	bulk.bigbody (oracle): a plain body of more than 100 MiB through the proxy's HTTP router and the real BulkHandler
package main

import (
	"bytes"
	"context"
	"encoding/json"
	"fmt"
	"io"
	"net"
	"net/http"
	"net/http/httptest"
	"strings"
	"sync"
	"time"

	"google.golang.org/grpc"
	"google.golang.org/grpc/credentials/insecure"
	"google.golang.org/grpc/encoding"
	"google.golang.org/protobuf/types/known/emptypb"

	"github.com/ozontech/seq-db/disk"
	"github.com/ozontech/seq-db/network/circuitbreaker"
	"github.com/ozontech/seq-db/network/grpcutil"
	"github.com/ozontech/seq-db/pkg/storeapi"
	"github.com/ozontech/seq-db/proxy/bulk"
	"github.com/ozontech/seq-db/proxy/stores"
	"github.com/ozontech/seq-db/proxyapi"

	"verifharness/internal/vh"
)

const codecSite = "network/grpcutil/vtproto.go:VTProtoCodec.Marshal"

func fillPattern(n int, tag byte) []byte {
	b := make([]byte, n)
	for i := range b {
		b[i] = tag ^ byte(i*31>>3)
	}
	return b
}

// codecCase: marshal the requests in order (sizes of Docs given), then unmarshal the returned slices in order.
func codecCase(sizes []int, ch *vh.Channel, orc *vh.Oracle, rep *vh.Report) {
	codec := grpcutil.VTProtoCodec{}
	var reqs []*storeapi.BulkRequest
	var wires [][]byte
	var evs, strs []string
	for i, n := range sizes {
		r := &storeapi.BulkRequest{Count: int64(i + 1), Docs: fillPattern(n, byte(i+1)), Metas: fillPattern(n/3+5, byte(0x80+i))}
		w, err := codec.Marshal(r)
		if err != nil {
			orc.Error = "marshal: " + err.Error()
			return
		}
		reqs, wires = append(reqs, r), append(wires, w)
		evs = append(evs, fmt.Sprintf("a%d", i+1))
		strs = append(strs, fmt.Sprint(n))
	}
	var got []string
	bad := -1
	for i, w := range wires {
		var back storeapi.BulkRequest
		res := "x"
		if err := codec.Unmarshal(w, &back); err == nil && bytes.Equal(back.Docs, reqs[i].Docs) && bytes.Equal(back.Metas, reqs[i].Metas) && back.Count == reqs[i].Count {
			res = fmt.Sprint(i + 1)
		} else if bad < 0 {
			bad = i
		}
		got = append(got, fmt.Sprintf("%d=%s", i+1, res))
		evs = append(evs, "w")
	}
	line := "codec " + strings.Join(strs, ",")
	ch.Add("bulk.handover clone "+strings.Join(evs, ","), "ok "+strings.Join(got, ","), len(sizes) > 1, "codec-marshal")
	orc.Case(line, len(sizes) > 1, "codec")
	if bad >= 0 {
		violate(rep, vh.Violation{Site: codecSite, Class: "marshalled-bytes-overwritten-by-next-marshal",
			What: fmt.Sprintf("VTProtoCodec.Marshal of %d bulk requests (docs sizes %s) one after another: the slice returned for request %d no longer unmarshals to that request once the later ones were marshalled (gRPC keeps it until the transport has written it)",
				len(sizes), strings.Join(strs, ","), bad+1), Replay: []string{line}})
	}
}

func parseCodec(l string) ([]int, bool) {
	f := strings.Fields(l)
	if len(f) != 2 || f[0] != "codec" {
		return nil, false
	}
	var sizes []int
	for _, x := range strings.Split(f[1], ",") {
		var n int
		if _, err := fmt.Sscanf(x, "%d", &n); err != nil || n < 0 || n > 1<<26 {
			return nil, false
		}
		sizes = append(sizes, n)
	}
	return sizes, true
}

// ---- real gRPC

type checkingStore struct {
	storeapi.UnimplementedStoreApiServer
	mu       sync.Mutex
	expected map[int64][2][]byte
	problems []string
	got      int
}

func (s *checkingStore) Bulk(_ context.Context, req *storeapi.BulkRequest) (*emptypb.Empty, error) {
	s.mu.Lock()
	defer s.mu.Unlock()
	s.got++
	exp, ok := s.expected[req.Count]
	switch {
	case !ok:
		s.problems = append(s.problems, fmt.Sprintf("a request with count %d arrived that nobody sent", req.Count))
	case !bytes.Equal(exp[0], req.Docs):
		s.problems = append(s.problems, fmt.Sprintf("bulk %d: docs block of %d bytes arrived changed (%d bytes)", req.Count, len(exp[0]), len(req.Docs)))
	case !bytes.Equal(exp[1], req.Metas):
		s.problems = append(s.problems, fmt.Sprintf("bulk %d: metas block of %d bytes arrived changed (%d bytes)", req.Count, len(exp[1]), len(req.Metas)))
	}
	return &emptypb.Empty{}, nil
}

var codecOnce sync.Once

func grpcBulksCase(rounds, conc int, seed int64, orc *vh.Oracle, rep *vh.Report) {
	codecOnce.Do(func() { encoding.RegisterCodec(grpcutil.VTProtoCodec{}) }) // as cmd/seq-db main does
	line := fmt.Sprintf("grpcbulks %d %d %d", rounds, conc, seed)
	lis, err := net.Listen("tcp", "127.0.0.1:0")
	if err != nil {
		orc.Error = err.Error()
		return
	}
	st := &checkingStore{expected: map[int64][2][]byte{}}
	srv := grpc.NewServer(grpc.MaxRecvMsgSize(256 << 20))
	storeapi.RegisterStoreApiServer(srv, st)
	go func() { _ = srv.Serve(lis) }()
	defer srv.Stop()
	addr := lis.Addr().String()
	conn, err := grpc.NewClient(addr, grpc.WithTransportCredentials(insecure.NewCredentials()), grpc.WithDefaultCallOptions(grpc.MaxCallSendMsgSize(256<<20)))
	if err != nil {
		orc.Error = err.Error()
		return
	}
	defer conn.Close()
	clients := map[string]storeapi.StoreApiClient{addr: storeapi.NewStoreApiClient(conn)}
	hot := stores.NewStoresFromString(addr, 1)
	none := stores.NewStoresFromString("", 1)
	cl := bulk.NewSeqDBClient(hot, none, circuitbreaker.Config{RequestVolumeThreshold: 1000, Timeout: time.Minute}, clients)
	r := vh.NewRNG(seed)
	var failed []string
	id := int64(0)
	for round := 0; round < rounds; round++ {
		var wg sync.WaitGroup
		var fmu sync.Mutex
		class := []int{100 << 10, 300 << 10, 1 << 20, 2 << 20}[round%4] // all bulks of a round share a size class
		for k := 0; k < conc; k++ {
			id++
			n := class - r.Intn(class/8)
			docs, metas := fillPattern(n, byte(id)), fillPattern(n/4+9, byte(id)^0x55)
			st.mu.Lock()
			st.expected[id] = [2][]byte{docs, metas}
			st.mu.Unlock()
			wg.Add(1)
			go func(id int64) {
				defer wg.Done()
				if err := cl.StoreDocuments(context.Background(), int(id), docs, metas); err != nil {
					fmu.Lock()
					failed = append(failed, fmt.Sprintf("bulk %d: %v", id, err))
					fmu.Unlock()
				}
			}(id)
		}
		wg.Wait()
	}
	st.mu.Lock()
	problems, got := st.problems, st.got
	st.mu.Unlock()
	orc.Case(line, conc > 1, fmt.Sprintf("concurrent=%d", conc), "real-grpc")
	if len(problems) > 0 || len(failed) > 0 {
		all := append(append([]string{}, problems...), failed...)
		violate(rep, vh.Violation{Site: codecSite, Class: "payload-corrupted-in-transit",
			What: fmt.Sprintf("%d rounds of %d concurrent bulks (100 KiB - 2 MiB) from the real SeqDBClient over gRPC with the VTProto codec: %d requests arrived, %d problems, e.g. %s",
				rounds, conc, got, len(all), all[0]), Replay: []string{line}})
	}
}

func parseGrpcBulks(l string) (rounds, conc int, seed int64, ok bool) {
	if n, _ := fmt.Sscanf(l, "grpcbulks %d %d %d", &rounds, &conc, &seed); n != 3 || rounds < 1 || rounds > 1000 || conc < 1 || conc > 64 {
		return 0, 0, 0, false
	}
	return rounds, conc, seed, true
}

// ---- a body of more than 100 MiB through the router

type pairsReader struct {
	n, i    int
	docSize int
	cur     []byte
}

func pairDoc(i, size int) string {
	head := fmt.Sprintf(`{"k":"%d","p":"`, i)
	return head + strings.Repeat("x", size-len(head)-2) + `"}`
}

func (p *pairsReader) Read(b []byte) (int, error) {
	if len(p.cur) == 0 {
		if p.i >= p.n {
			return 0, io.EOF
		}
		p.cur = []byte(`{"index":{}}` + "\n" + pairDoc(p.i, p.docSize) + "\n")
		p.i++
	}
	n := copy(b, p.cur)
	p.cur = p.cur[n:]
	return n, nil
}

type countingClient struct {
	calls, count, docs int
	first, last        string
	bad                string
}

func (c *countingClient) StoreDocuments(_ context.Context, count int, docs, _ []byte) error {
	c.calls++
	c.count = count
	raw, err := func() (b []byte, err error) {
		defer func() {
			if p := recover(); p != nil {
				err = fmt.Errorf("%v", p)
			}
		}()
		return disk.DocBlock(docs).DecompressTo(nil)
	}()
	if err != nil {
		c.bad = "docs block does not decompress: " + err.Error()
		return nil
	}
	ds, ok := decodePayload(raw)
	if !ok {
		c.bad = "docs payload cannot be decoded"
		return nil
	}
	c.docs = len(ds)
	if len(ds) > 0 {
		c.first, c.last = string(ds[0]), string(ds[len(ds)-1])
	}
	return nil
}

func bigBodyCase(pairs, docSize int, orc *vh.Oracle, rep *vh.Report) {
	line := fmt.Sprintf("bigbody %d %d", pairs, docSize)
	cc := &countingClient{}
	ing := newIngestor(cc, 1<<20)
	defer ing.Stop()
	h := proxyapi.VerifNewIngestorHandler("test", proxyapi.NewBulkHandler(ing, 1<<20), http.NotFoundHandler())
	bodyLen := pairs * (len(`{"index":{}}`) + 1 + docSize + 1)
	req := httptest.NewRequest(http.MethodPost, "/_bulk", &pairsReader{n: pairs, docSize: docSize})
	rec := httptest.NewRecorder()
	h.ServeHTTP(rec, req)
	orc.Case(line, true, fmt.Sprintf("body-MiB=%d", bodyLen>>20))
	site := "proxyapi/http_server.go:ingestorHandler.ServeHTTP"
	if rec.Code != 200 {
		violate(rep, vh.Violation{Site: site, Class: "valid-big-bulk-rejected",
			What: fmt.Sprintf("a valid plain body of %d pairs (%d MiB) was answered %d: %.200s", pairs, bodyLen>>20, rec.Code, rec.Body.String()), Replay: []string{line}})
		return
	}
	var r struct {
		Errors bool              `json:"errors"`
		Items  []json.RawMessage `json:"items"`
	}
	if err := json.Unmarshal(rec.Body.Bytes(), &r); err != nil {
		violate(rep, vh.Violation{Site: site, Class: "response-not-listing-items", What: "response is not JSON: " + err.Error(), Replay: []string{line}})
		return
	}
	if len(r.Items) != pairs || cc.calls != 1 || cc.count != pairs || cc.docs != pairs || cc.last != pairDoc(pairs-1, docSize) || cc.first != pairDoc(0, docSize) {
		violate(rep, vh.Violation{Site: site, Class: "body-truncated-silently",
			What: fmt.Sprintf("a plain body of %d pairs (%d MiB) was answered 200 with %d items; %d store calls, count %d, %d documents in the payload (last one sent %.30s..., last one stored %.30s...) %s",
				pairs, bodyLen>>20, len(r.Items), cc.calls, cc.count, cc.docs, pairDoc(pairs-1, docSize), cc.last, cc.bad), Replay: []string{line}})
	}
}
