// bulk.binary (thorough): the REAL seq-db binary in proxy mode (flags -> startProxy -> HTTP router -> BulkHandler ->
// Ingestor -> SeqDBClient -> gRPC with the codec main registers) in front of a fake gRPC store; N concurrent large
// /_bulk posts; the store decodes every payload: each posted document must arrive exactly once, byte for byte.
// (scaffold after harness/cmd/c09/binary.go)
package main

import (
	"bytes"
	"context"
	"fmt"
	"net"
	"net/http"
	"os"
	"os/exec"
	"path/filepath"
	"strings"
	"sync"
	"time"

	"google.golang.org/grpc"
	"google.golang.org/protobuf/types/known/emptypb"

	"github.com/ozontech/seq-db/disk"
	"github.com/ozontech/seq-db/pkg/storeapi"

	"verifharness/internal/vh"
)

type decodingStore struct {
	storeapi.UnimplementedStoreApiServer
	mu       sync.Mutex
	docs     map[string]int
	problems []string
	requests int
}

func (s *decodingStore) Bulk(_ context.Context, req *storeapi.BulkRequest) (*emptypb.Empty, error) {
	s.mu.Lock()
	defer s.mu.Unlock()
	s.requests++
	raw, err := func() (b []byte, err error) {
		defer func() {
			if p := recover(); p != nil {
				err = fmt.Errorf("%v", p)
			}
		}()
		return disk.DocBlock(req.Docs).DecompressTo(nil)
	}()
	if err != nil {
		s.problems = append(s.problems, "docs block does not decompress: "+err.Error())
		return &emptypb.Empty{}, nil
	}
	ds, ok := decodePayload(raw)
	if !ok || int64(len(ds)) != req.Count {
		s.problems = append(s.problems, fmt.Sprintf("payload holds %d documents, count says %d", len(ds), req.Count))
	}
	for _, d := range ds {
		s.docs[string(d)]++
	}
	if _, err := decodeMetasFull(req.Metas); err != nil {
		s.problems = append(s.problems, "metas block: "+err.Error())
	}
	return &emptypb.Empty{}, nil
}

func freeAddr() string {
	l, err := net.Listen("tcp", "127.0.0.1:0")
	if err != nil {
		return ""
	}
	defer l.Close()
	return l.Addr().String()
}

func binaryBulksCase(conc, rounds int, seed int64, orc *vh.Oracle, rep *vh.Report) {
	line := fmt.Sprintf("binary %d %d %d", conc, rounds, seed)
	repo := os.Getenv("VERIF_REPO")
	if repo == "" {
		repo = "/repo"
	}
	dir, err := os.MkdirTemp("", "vh-c10-bin")
	if err != nil {
		orc.Error = err.Error()
		return
	}
	defer os.RemoveAll(dir)
	bin := filepath.Join(dir, "seq-db")
	build := exec.Command("go", "build", "-o", bin, "./cmd/seq-db")
	build.Dir = repo
	build.Env = append(os.Environ(), "GOFLAGS=-mod=mod", "GOPROXY=off")
	if b, err := build.CombinedOutput(); err != nil {
		orc.Error = "building cmd/seq-db: " + string(b)
		return
	}
	lis, err := net.Listen("tcp", "127.0.0.1:0")
	if err != nil {
		orc.Error = err.Error()
		return
	}
	st := &decodingStore{docs: map[string]int{}}
	srv := grpc.NewServer(grpc.MaxRecvMsgSize(256 << 20))
	storeapi.RegisterStoreApiServer(srv, st)
	go func() { _ = srv.Serve(lis) }()
	defer srv.Stop()
	httpAddr, grpcAddr, dbgAddr := freeAddr(), freeAddr(), freeAddr()
	ctx, cancel := context.WithTimeout(context.Background(), 3*time.Minute)
	defer cancel()
	cmd := exec.CommandContext(ctx, bin, "--mode=proxy", "--mapping=auto", "--addr="+httpAddr, "--proxy-grpc-addr="+grpcAddr, "--debug-addr="+dbgAddr,
		"--hot-stores="+lis.Addr().String(), "--replicas=1", "--bulk-shard-timeout=30s")
	var logb bytes.Buffer
	cmd.Stdout, cmd.Stderr = &logb, &logb
	if err := cmd.Start(); err != nil {
		orc.Error = "start: " + err.Error()
		return
	}
	defer func() {
		cmd.Process.Kill()
		cmd.Wait()
	}()
	up := false
	for i := 0; i < 150 && !up; i++ {
		if resp, err := http.Post("http://"+httpAddr+"/_bulk", "application/json", strings.NewReader("{\"index\":{}}\n{\"k\":\"warmup\"}\n")); err == nil {
			resp.Body.Close()
			up = true
		} else {
			time.Sleep(100 * time.Millisecond)
		}
	}
	if !up {
		tail := logb.String()
		if len(tail) > 500 {
			tail = tail[len(tail)-500:]
		}
		orc.Error = "the proxy did not come up: " + tail
		return
	}
	r := vh.NewRNG(seed)
	sent := map[string]bool{}
	var bad []string
	var bmu sync.Mutex
	for round := 0; round < rounds; round++ {
		perBulk := []int{150, 400, 1200}[round%3] // documents of ~700 bytes: 100 KiB .. 800 KiB per bulk, same class within a round
		var wg sync.WaitGroup
		for k := 0; k < conc; k++ {
			var sb strings.Builder
			for i := 0; i < perBulk; i++ {
				doc := fmt.Sprintf(`{"k":"r%db%dd%d","message":"%s"}`, round, k, i, strings.Repeat("Payload ", 80+r.Intn(10)))
				sent[doc] = true
				sb.WriteString("{\"index\":{}}\n" + doc + "\n")
			}
			body := sb.String()
			wg.Add(1)
			go func() {
				defer wg.Done()
				resp, err := http.Post("http://"+httpAddr+"/_bulk", "application/json", strings.NewReader(body))
				if err != nil {
					bmu.Lock()
					bad = append(bad, "post: "+err.Error())
					bmu.Unlock()
					return
				}
				defer resp.Body.Close()
				if resp.StatusCode != 200 {
					bmu.Lock()
					bad = append(bad, fmt.Sprintf("status %d", resp.StatusCode))
					bmu.Unlock()
				}
			}()
		}
		wg.Wait()
	}
	st.mu.Lock()
	defer st.mu.Unlock()
	missing, dup, foreign := 0, 0, 0
	for d := range sent {
		switch st.docs[d] {
		case 0:
			missing++
		case 1:
		default:
			dup++
		}
	}
	for d := range st.docs {
		if !sent[d] && !strings.Contains(d, "warmup") {
			foreign++
		}
	}
	orc.Case(line, true, fmt.Sprintf("concurrent=%d", conc), fmt.Sprintf("requests=%d", st.requests))
	if len(bad)+len(st.problems)+missing+dup+foreign > 0 {
		first := ""
		if len(st.problems) > 0 {
			first = st.problems[0]
		} else if len(bad) > 0 {
			first = bad[0]
		}
		violate(rep, vh.Violation{Site: codecSite, Class: "binary-payload-not-delivered-verbatim",
			What: fmt.Sprintf("real seq-db binary in proxy mode, %d rounds of %d concurrent /_bulk posts (100-800 KiB): %d failed posts, %d undecodable payloads, of %d posted documents %d never arrived, %d arrived more than once, %d arrived that nobody posted (%s)",
				rounds, conc, len(bad), len(st.problems), len(sent), missing, dup, foreign, first), Replay: []string{line}})
	}
}

// binarySizeCase (thorough): the real binary with --max-document-size=limit; bulks [small, n bytes, small] for n
// around the limit and around 16 KiB.
func binarySizeCase(limit int, orc *vh.Oracle, rep *vh.Report) {
	line := fmt.Sprintf("binsize %d", limit)
	repo := os.Getenv("VERIF_REPO")
	if repo == "" {
		repo = "/repo"
	}
	dir, err := os.MkdirTemp("", "vh-c10-bin")
	if err != nil {
		orc.Error = err.Error()
		return
	}
	defer os.RemoveAll(dir)
	bin := filepath.Join(dir, "seq-db")
	build := exec.Command("go", "build", "-o", bin, "./cmd/seq-db")
	build.Dir = repo
	build.Env = append(os.Environ(), "GOFLAGS=-mod=mod", "GOPROXY=off")
	if b, err := build.CombinedOutput(); err != nil {
		orc.Error = "building cmd/seq-db: " + string(b)
		return
	}
	lis, err := net.Listen("tcp", "127.0.0.1:0")
	if err != nil {
		orc.Error = err.Error()
		return
	}
	st := &decodingStore{docs: map[string]int{}}
	srv := grpc.NewServer(grpc.MaxRecvMsgSize(256 << 20))
	storeapi.RegisterStoreApiServer(srv, st)
	go func() { _ = srv.Serve(lis) }()
	defer srv.Stop()
	httpAddr, grpcAddr, dbgAddr := freeAddr(), freeAddr(), freeAddr()
	ctx, cancel := context.WithTimeout(context.Background(), 2*time.Minute)
	defer cancel()
	cmd := exec.CommandContext(ctx, bin, "--mode=proxy", "--mapping=auto", "--addr="+httpAddr, "--proxy-grpc-addr="+grpcAddr, "--debug-addr="+dbgAddr,
		"--hot-stores="+lis.Addr().String(), "--replicas=1", "--bulk-shard-timeout=30s", fmt.Sprintf("--max-document-size=%dB", limit))
	var logb bytes.Buffer
	cmd.Stdout, cmd.Stderr = &logb, &logb
	if err := cmd.Start(); err != nil {
		orc.Error = "start: " + err.Error()
		return
	}
	defer func() {
		cmd.Process.Kill()
		cmd.Wait()
	}()
	post := func(body string) (int, error) {
		resp, err := http.Post("http://"+httpAddr+"/_bulk", "application/json", strings.NewReader(body))
		if err != nil {
			return 0, err
		}
		resp.Body.Close()
		return resp.StatusCode, nil
	}
	up := false
	for i := 0; i < 150 && !up; i++ {
		if _, err := post("{\"index\":{}}\n{\"k\":\"warmup\"}\n"); err == nil {
			up = true
		} else {
			time.Sleep(100 * time.Millisecond)
		}
	}
	if !up {
		tail := logb.String()
		if len(tail) > 500 {
			tail = tail[len(tail)-500:]
		}
		orc.Error = "the proxy did not come up: " + tail
		return
	}
	head := `{"k":"mid","p":"`
	var wrong []string
	for _, n := range []int{limit - 1, limit, limit + 1, 2 * limit, 16<<10 - 1} {
		mid := head + strings.Repeat("y", n-len(head)-2) + `"}`
		code, err := post("{\"index\":{}}\n{\"k\":\"b" + fmt.Sprint(n) + "\"}\n{\"index\":{}}\n" + mid + "\n{\"index\":{}}\n{\"k\":\"a" + fmt.Sprint(n) + "\"}\n")
		st.mu.Lock()
		stored := st.docs[mid] > 0
		st.mu.Unlock()
		inLimit := n+1 <= bufSize(limit)
		if err != nil || code != 200 || stored != inLimit {
			wrong = append(wrong, fmt.Sprintf("%d bytes: status %d, stored=%v, within the limit=%v", n, code, stored, inLimit))
		}
	}
	orc.Case(line, true, "real-binary")
	if len(wrong) > 0 {
		violate(rep, vh.Violation{Site: "proxyapi/ingestor.go:NewIngestor", Class: "configured-size-limit-not-effective",
			What: fmt.Sprintf("real seq-db binary with --max-document-size=%dB: %s", limit, strings.Join(wrong, "; ")), Replay: []string{line}})
	}
}
