// C10 harness: bulk ingestion stores valid documents verbatim, timed by rule, or stores nothing.
//
// Correspondence channels (implementation vs Lean driver drv_c10, same inputs):
//
//	bulk.readline  Go's bufio.Reader.ReadLine                       vs SV.Bulk.readLine
//	bulk.frame     proxyapi.esBulkDocReader (ReadDoc until the end) vs SV.Bulk.readAll
//	bulk.proc      real BulkHandler -> real bulk.Ingestor -> capturing StorageClient vs SV.Bulk.processDocuments
//	bulk.codec     packer.BytesUnpacker on the captured docs payload vs SV.Bulk.decodeDocs / encodeDocs
//	bulk.delayed   bulk.documentDelayed                             vs the extracted translation documentDelayedX
//	bulk.mid       Ingestor.ProcessDocuments with a chosen request time, MID of the stored meta vs SV.BulkTime.docMID
//	bulk.extract   bulk.extractDocTime                              vs SV.BulkTime.extractDocTime (time.Parse as oracle)
//
// System oracles (the property itself on the real code, expectations computed from the generator's knowledge):
//
//	bulk.property  bodies from a grammar through the real handler: accepted => stored exactly the in-limit object
//	               lines, byte for byte, items = count, sizes and ID times by the rule; invalid JSON => nothing stored
//	bulk.timerule  Ingestor.ProcessDocuments at exact offsets around the drift limits and the int64 edges
package main

import (
	"bytes"
	"compress/gzip"
	"context"
	"encoding/hex"
	"encoding/json"
	"errors"
	"fmt"
	"io"
	"math/big"
	"net/http"
	"net/http/httptest"
	"os"
	"sort"
	"strings"
	"time"

	"bufio"

	"go.uber.org/zap"

	"github.com/ozontech/seq-db/disk"
	"github.com/ozontech/seq-db/frac"
	"github.com/ozontech/seq-db/logger"
	"github.com/ozontech/seq-db/mappingprovider"
	"github.com/ozontech/seq-db/packer"
	"github.com/ozontech/seq-db/proxy/bulk"
	"github.com/ozontech/seq-db/proxyapi"
	"github.com/ozontech/seq-db/seq"

	"verifharness/internal/vh"
)

// ---------------------------------------------------------------- environment: the body stream

// chunkReader delivers data in chunks; at the end it reports io.EOF (clean) or failErr, either together with
// the last data (eager) or on the following Read.
type chunkReader struct {
	data  []byte
	pos   int
	chunk int
	eager bool
	fail  error // nil = io.EOF
}

func (c *chunkReader) Read(p []byte) (int, error) {
	end := c.fail
	if end == nil {
		end = io.EOF
	}
	if c.pos >= len(c.data) {
		return 0, end
	}
	n := len(p)
	if c.chunk > 0 && n > c.chunk {
		n = c.chunk
	}
	if n > len(c.data)-c.pos {
		n = len(c.data) - c.pos
	}
	copy(p, c.data[c.pos:c.pos+n])
	c.pos += n
	if c.pos >= len(c.data) && c.eager {
		return n, end
	}
	return n, nil
}
func (c *chunkReader) Close() error { return nil }

var errStream = errors.New("scripted stream failure")

// ---------------------------------------------------------------- capturing storage client

type capture struct {
	calls    int
	count    int
	docs     []byte // decompressed docs payload
	metas    []frac.MetaData
	failIt   bool
	bad      string // the payload could not be decoded
	rawMetas []byte
}

func (c *capture) StoreDocuments(_ context.Context, count int, docs, metas []byte) (err error) {
	c.calls++
	c.count = count
	c.docs, c.metas = nil, nil
	defer func() {
		if p := recover(); p != nil {
			c.bad = fmt.Sprint("payload handed to StoreDocuments cannot be decoded: ", p)
		}
		if c.failIt {
			err = errors.New("scripted store failure")
		}
	}()
	raw, derr := disk.DocBlock(docs).DecompressTo(nil)
	if derr != nil {
		c.bad = "docs block does not decompress: " + derr.Error()
		return nil
	}
	c.docs = raw
	rawMetas, derr := disk.DocBlock(metas).DecompressTo(nil)
	if derr != nil {
		c.bad = "metas block does not decompress: " + derr.Error()
		return nil
	}
	c.rawMetas = rawMetas
	u := packer.NewBytesUnpacker(rawMetas)
	for u.Len() > 0 {
		var m frac.MetaData
		if uerr := m.UnmarshalBinary(u.GetBinary()); uerr != nil {
			c.bad = "meta does not unmarshal: " + uerr.Error()
			return nil
		}
		c.metas = append(c.metas, frac.MetaData{ID: m.ID, Size: m.Size})
	}
	return nil
}

func decodePayload(p []byte) (docs [][]byte, ok bool) {
	defer func() {
		if recover() != nil {
			docs, ok = nil, false
		}
	}()
	u := packer.NewBytesUnpacker(p)
	for u.Len() > 0 {
		docs = append(docs, u.GetBinary())
	}
	return docs, true
}

const (
	driftPast   = 24 * time.Hour
	driftFuture = 2 * time.Hour
)

// future drift the time-field generator aims at (the end-to-end environment has its own)
var curFuture = driftFuture

func newIngestor(cl bulk.StorageClient, maxDoc int) *bulk.Ingestor {
	return newIngestorInflight(cl, maxDoc, 4)
}

func newIngestorInflight(cl bulk.StorageClient, maxDoc, inflight int) *bulk.Ingestor {
	mp, err := mappingprovider.New("", mappingprovider.WithMapping(seq.Mapping{
		"message": seq.NewSingleType(seq.TokenizerTypeText, "", 0),
		"level":   seq.NewSingleType(seq.TokenizerTypeKeyword, "", 0),
		"k":       seq.NewSingleType(seq.TokenizerTypeKeyword, "", 0),
		"path":    seq.NewSingleType(seq.TokenizerTypePath, "", 0),
	}))
	if err != nil {
		panic(err)
	}
	return bulk.NewIngestor(bulk.IngestorConfig{
		MaxInflightBulks:       inflight,
		AllowedTimeDrift:       driftPast,
		FutureAllowedTimeDrift: driftFuture,
		MappingProvider:        mp,
		MaxTokenSize:           1024,
		CaseSensitive:          false,
		PartialFieldIndexing:   false,
		DocsZSTDCompressLevel:  -1,
		MetasZSTDCompressLevel: -1,
		MaxDocumentSize:        maxDoc,
	}, cl)
}

// swapClient lets consecutive bulks through ONE Ingestor (so that pooled processors are reused, as in production)
// be captured separately.
type swapClient struct{ cur bulk.StorageClient }

func (s *swapClient) StoreDocuments(ctx context.Context, count int, docs, metas []byte) error {
	return s.cur.StoreDocuments(ctx, count, docs, metas)
}

type sharedIngestor struct {
	ing   *bulk.Ingestor
	cl    *swapClient
	bulks int // bulks served so far: 0 = the next one gets a new processor, >0 = a pooled one
}

var sharedIngestors = map[string]*sharedIngestor{}

func getShared(key string, mk func(cl bulk.StorageClient) *bulk.Ingestor) *sharedIngestor {
	if s, ok := sharedIngestors[key]; ok {
		return s
	}
	cl := &swapClient{}
	s := &sharedIngestor{ing: mk(cl), cl: cl}
	sharedIngestors[key] = s
	return s
}

// ---------------------------------------------------------------- one request through the real handler

type reqCase struct {
	B       int
	gz      bool
	chunk   int
	eager   bool
	unclean bool
	storeKO bool
	body    []byte
	// gzip only: the body is sent as several gzip members (cut points in the plain body), optionally followed by
	// bytes that are not a gzip member.  The model sees the concatenated plain body; trailing bytes make the
	// decoded stream end with an error instead of EOF (the reader's default multistream mode).
	splits []int
	trail  []byte
}

// streamUnclean: the byte stream the line reader sees ends with an error
func (c reqCase) streamUnclean() bool { return c.unclean || (c.gz && len(c.trail) > 0) }

func (c reqCase) line() string {
	l := fmt.Sprintf("body %d %s %d %s %s %s %s", c.B, vh.B(c.gz), c.chunk, vh.B(c.eager), vh.B(c.unclean), vh.B(c.storeKO), vh.Hex(c.body))
	if len(c.splits) > 0 || len(c.trail) > 0 {
		l += " " + vh.JoinInts(c.splits) + " " + vh.Hex(c.trail)
	}
	return l
}

func (c reqCase) gzPayload() []byte {
	var zb bytes.Buffer
	prev := 0
	cuts := append(append([]int(nil), c.splits...), len(c.body))
	for _, cut := range cuts {
		if cut < prev || cut > len(c.body) {
			continue
		}
		zw := gzip.NewWriter(&zb)
		zw.Write(c.body[prev:cut])
		zw.Close()
		prev = cut
	}
	zb.Write(c.trail)
	return zb.Bytes()
}

func parseReqCase(l string) (reqCase, bool) {
	f := strings.Fields(l)
	if (len(f) != 8 && len(f) != 10) || f[0] != "body" {
		return reqCase{}, false
	}
	var c reqCase
	fmt.Sscanf(f[1], "%d", &c.B)
	c.gz = f[2] == "1"
	fmt.Sscanf(f[3], "%d", &c.chunk)
	c.eager, c.unclean, c.storeKO = f[4] == "1", f[5] == "1", f[6] == "1"
	if f[7] != "-" {
		b, err := hex.DecodeString(f[7])
		if err != nil {
			return c, false
		}
		c.body = b
	}
	if len(f) == 10 {
		if f[8] != "-" {
			for _, x := range strings.Split(f[8], ",") {
				var v int
				fmt.Sscanf(x, "%d", &v)
				c.splits = append(c.splits, v)
			}
		}
		if f[9] != "-" {
			c.trail, _ = hex.DecodeString(f[9])
		}
	}
	return c, true
}

type reqResult struct {
	status   int
	items    int
	cap      *capture
	t0, t1   time.Time
	panicked string
	bodyErr  string // the 200 body is not the JSON document the protocol promises
}

func bufSize(b int) int {
	if b < 16 {
		return 16
	}
	return b
}

func runRequest(c reqCase) (res reqResult) {
	proxyapi.VerifResetReaderPool()
	res.cap = &capture{failIt: c.storeKO}
	sh := getShared("handler", func(cl bulk.StorageClient) *bulk.Ingestor { return newIngestor(cl, 1<<20) })
	sh.cl.cur = res.cap
	sh.bulks++
	h := proxyapi.NewBulkHandler(sh.ing, c.B)
	payload := c.body
	if c.gz {
		payload = c.gzPayload()
	}
	cr := &chunkReader{data: payload, chunk: c.chunk, eager: c.eager}
	if c.unclean {
		cr.fail = errStream
	}
	req := httptest.NewRequest(http.MethodPost, "/_bulk", cr)
	if c.gz {
		req.Header.Set("Content-Encoding", "gzip")
	}
	rec := httptest.NewRecorder()
	func() {
		defer func() {
			if p := recover(); p != nil {
				res.panicked = fmt.Sprint(p)
			}
		}()
		res.t0 = time.Now()
		h.ServeHTTP(rec, req)
		res.t1 = time.Now()
	}()
	res.status = rec.Code
	if rec.Code == 200 {
		var r struct {
			Errors bool              `json:"errors"`
			Items  []json.RawMessage `json:"items"`
		}
		if err := json.Unmarshal(rec.Body.Bytes(), &r); err != nil || r.Errors {
			res.items = -1
			tail := rec.Body.String()
			if len(tail) > 60 {
				tail = "..." + tail[len(tail)-60:]
			}
			res.bodyErr = fmt.Sprintf("response body is not valid JSON with errors=false (%v): %s", err, tail)
		} else {
			res.items = len(r.Items)
			for _, it := range r.Items {
				if string(it) != `{"create":{"status":201}}` {
					res.items = -1
					res.bodyErr = "an item of the response is not {\"create\":{\"status\":201}}: " + string(it)
				}
			}
		}
	}
	return res
}

func fmtStored(cp *capture) string {
	if cp.calls == 0 {
		return "none"
	}
	if cp.bad != "" {
		return "undecodable"
	}
	if cp.calls > 1 {
		return fmt.Sprintf("calls=%d", cp.calls)
	}
	return fmt.Sprintf("%d:%s", cp.count, vh.Hex(cp.docs))
}

func hexDocs(ds [][]byte) string {
	if len(ds) == 0 {
		return "-"
	}
	s := make([]string, len(ds))
	for i, d := range ds {
		s[i] = vh.Hex(d)
	}
	return strings.Join(s, ",")
}

// ---------------------------------------------------------------- body grammar

type docKind int

const (
	dObject docKind = iota
	dNonObject
	dInvalid
)

type timeCat int

const (
	tNone      timeCat = iota // no usable time field: receive time
	tWithin                   // inside the allowed drift: own time
	tPast                     // older than the allowed drift: receive time
	tFuture                   // further ahead than the allowed future drift: receive time
	tFarFuture                // more than 2^63 ns ahead (year 2400+): receive time
)

type entry struct {
	blanks  []string
	action  string
	doc     string
	term    string // terminator of the document line
	aterm   string
	kind    docKind
	tcat    timeCat
	ownTime time.Time // for tWithin
}

var timeLayouts = []string{"2006-01-02 15:04:05.999", time.RFC3339Nano, time.RFC3339}
var timeFieldNames = []string{"timestamp", "time", "ts"}

func padObject(r *vh.RNG, prefix string, total int) string {
	// an object of exactly `total` bytes: prefix fields + "p":"xxxx"
	base := `{` + prefix + `"p":""}`
	if total < len(base) {
		return base
	}
	n := total - len(base)
	pad := make([]byte, n)
	for i := range pad {
		pad[i] = "abcXYZ 09-_/"[r.Intn(12)]
	}
	return `{` + prefix + `"p":"` + string(pad) + `"}`
}

var fragments = []string{
	`"message":"Error: Connection RESET by Peer"`, `"level":"WARN"`, `"k":"Ünïcödé ✓ 日本"`, `"k":"esc \" \\ \/ é \n"`,
	`"path":"/Var/Log/App.LOG"`, `"nested":{"a":{"b":[1,2,{"c":null}]}}`, `"num":-1.5e+300`, `"big":123456789012345678901234567890`,
	`"message":"MiXeD CaSe TOKENS here"`, `"arr":[true,false,null,"X"]`, `"k":""`, `"empty":{}`,
}

func genTimeField(r *vh.RNG, now time.Time) (string, timeCat, time.Time) {
	switch r.Intn(8) {
	case 0, 1:
		return "", tNone, time.Time{}
	case 2:
		return fmt.Sprintf(`"%s":"not a time",`, timeFieldNames[r.Intn(3)]), tNone, time.Time{}
	}
	layout := timeLayouts[r.Intn(3)]
	name := timeFieldNames[r.Intn(3)]
	var t time.Time
	var cat timeCat
	switch r.Intn(6) {
	case 0, 1, 2:
		cat = tWithin
		t = now.Add(-time.Duration(r.Intn(int(driftPast/time.Second)-600)) * time.Second)
		if r.Bool() {
			t = now.Add(time.Duration(r.Intn(int(curFuture/time.Second)-600)) * time.Second)
		}
	case 3:
		cat = tPast
		t = now.Add(-driftPast - time.Duration(600+r.Intn(1000000))*time.Second)
	case 4:
		cat = tFuture
		t = now.Add(curFuture + time.Duration(600+r.Intn(1000000))*time.Second)
	default:
		cat = tFarFuture
		t = time.Date(2400+r.Intn(7000), time.Month(1+r.Intn(12)), 1+r.Intn(28), r.Intn(24), 0, 0, 0, time.UTC)
	}
	t = t.UTC().Truncate(time.Second)
	// a garbage earlier field falls through to the next one
	pre := ""
	if name != "timestamp" && r.Chance(1, 3) {
		pre = `"timestamp":"garbage",`
	}
	return pre + fmt.Sprintf(`"%s":"%s",`, name, t.Format(layout)), cat, t
}

func genEntry(r *vh.RNG, B int, now time.Time, wild bool) entry {
	var e entry
	for k := r.Intn(3); k > 0 && r.Chance(1, 3); k-- {
		e.blanks = append(e.blanks, []string{"", "\r"}[r.Intn(2)])
	}
	e.aterm = []string{"\n", "\r\n"}[r.Intn(2)]
	e.term = []string{"\n", "\n", "\r\n"}[r.Intn(3)]
	switch {
	case r.Chance(1, 2):
		e.action = `{"index":{}}`
	case r.Chance(1, 2):
		e.action = `{"create":{"_id":"` + fmt.Sprint(r.Intn(1000)) + `"}}`
	default:
		e.action = `{ "index" : { "_index" : "x" } }`
	}
	if len(e.action)+len(e.aterm) > B {
		e.action = `{"index":{}}`
		e.aterm = "\n"
	}
	if wild && r.Chance(1, 12) {
		e.action = `{"delete":{}}`
	}
	if wild && r.Chance(1, 25) {
		e.action = `{"index":{"_id":"` + strings.Repeat("i", B) + `"}}`
	}
	tf, cat, own := genTimeField(r, now)
	e.tcat, e.ownTime = cat, own
	prefix := tf
	for k := r.Intn(3); k > 0; k-- {
		f := fragments[r.Intn(len(fragments))]
		key := f[:strings.Index(f, ":")]
		if !strings.Contains(prefix, key) {
			prefix += f + ","
		}
	}
	switch x := r.Intn(20); {
	case x < 9: // ordinary object
		e.doc = `{` + strings.TrimSuffix(prefix, ",") + `}`
		if len(e.doc)+len(e.term) > B {
			e.doc = `{` + strings.TrimSuffix(tf, ",") + `}`
		}
		if len(e.doc)+len(e.term) > B {
			e.doc, e.tcat = `{}`, tNone
		}
	case x < 14: // size around the limit
		total := B - 4 + r.Intn(8)
		if total < 8 {
			total = 8
		}
		e.doc = padObject(r, "", total)
		e.tcat = tNone
	case x < 16: // clearly over the limit, maybe many buffers long, maybe with '\r' inside
		total := B + 1 + r.Intn(3*B)
		e.doc = padObject(r, "", total)
		if r.Bool() {
			b := []byte(e.doc)
			b[B-1] = '\r'
			e.doc = string(b)
		}
		e.tcat = tNone
	case x < 18:
		e.doc = []string{`1`, `"str"`, `[{"k":"v"}]`, `null`, `true`, `-0.5`}[r.Intn(6)]
		e.kind, e.tcat = dNonObject, tNone
	default:
		if wild {
			pool := []string{`{`, `{"a":}`, `abc`, `{"a":1}}`, `{"a":"b" "c":1}`, `{"a":1,}`, `[1,`, `[1, 2`, `["a"] trail`, `"abc`, `tru`, `nul`, `falsey`,
				`12x`, `-x`, `[]]`, `"a" "b"`, `[1,]`, `{"a":tru}`}
			e.doc = pool[r.Intn(len(pool))]
			// the property's verdict on a malformed line: RFC 8259 validity of the whole line (all lines of this pool are
			// invalid; lines on which the code's decoder is known to be more lenient live in the bulk.lines oracle)
			e.kind, e.tcat = []docKind{dObject, dNonObject, dInvalid}[rfcKind([]byte(e.doc))], tUnknown
		} else {
			e.doc, e.tcat = `{"k":"v"}`, tNone
		}
	}
	if wild && r.Chance(1, 40) {
		e.doc = ""
	}
	return e
}

type genBody struct {
	entries []entry
	trail   string
	body    []byte
	mutated bool
}

func genRequest(r *vh.RNG, B int, now time.Time, wild bool) genBody {
	var g genBody
	n := r.Intn(9)
	var sb bytes.Buffer
	for i := 0; i < n; i++ {
		e := genEntry(r, B, now, wild)
		g.entries = append(g.entries, e)
		for _, b := range e.blanks {
			sb.WriteString(b + "\n")
		}
		sb.WriteString(e.action + e.aterm)
		sb.WriteString(e.doc + e.term)
	}
	for k := r.Intn(3); k > 0 && r.Chance(1, 2); k-- {
		g.trail += []string{"\n", "\r\n"}[r.Intn(2)]
	}
	sb.WriteString(g.trail)
	g.body = sb.Bytes()
	if wild && r.Chance(1, 6) && len(g.body) > 0 {
		g.mutated = true
		b := append([]byte(nil), g.body...)
		switch r.Intn(3) {
		case 0: // truncate
			b = b[:r.Intn(len(b))]
		case 1: // drop the last terminator
			b = bytes.TrimRight(b, "\r\n")
		default: // flip a byte
			b[r.Intn(len(b))] = "\n\r{}\"x"[r.Intn(6)]
		}
		g.body = b
	}
	return g
}

// expectation for a non-mutated body whose lines are all terminated (computed from the generator's knowledge,
// independently of the Lean model): (accepted, stored docs in order, index of entries stored)
//
// How many action lines are checked for "create"/"index" is the code's choice, not the property's: a body with an
// unknown action line has no expected verdict (`open`), only "accepted => stored exactly ..., else nothing".
func expect(g genBody, B int) (accepted bool, stored []entry, invalidReached bool, open bool) {
	B = bufSize(B)
	for _, e := range g.entries {
		if len(e.action)+len(e.aterm) > B {
			return false, nil, false, false
		}
		if !strings.Contains(e.action, `"create"`) && !strings.Contains(e.action, `"index"`) {
			open = true
		}
		if len(e.doc)+len(e.term) > B {
			continue // over-size: skipped
		}
		if e.doc == "" {
			return false, nil, false, false
		}
		switch e.kind {
		case dInvalid:
			return false, nil, true, false
		case dNonObject:
			continue
		}
		stored = append(stored, e)
	}
	return true, stored, false, open
}

// ---------------------------------------------------------------- channels

func addReadlineCases(ch *vh.Channel, r *vh.RNG, o vh.Opts) {
	B := 16
	alphabet := []byte{'x', '\r', '\n'}
	var suffixes [][]byte
	var rec func(cur []byte, depth int)
	rec = func(cur []byte, depth int) {
		suffixes = append(suffixes, append([]byte(nil), cur...))
		if depth == 0 {
			return
		}
		for _, a := range alphabet {
			rec(append(cur, a), depth-1)
		}
	}
	rec(nil, 3)
	run := func(stream []byte, B int, chunk int, eager, unclean bool, tag string) {
		cr := &chunkReader{data: stream, chunk: chunk, eager: eager}
		if unclean {
			cr.fail = errStream
		}
		br := bufio.NewReaderSize(cr, B)
		for step := 0; step < len(stream)+2; step++ {
			remaining := stream[cr.pos-br.Buffered():]
			line, pre, err := br.ReadLine()
			req := fmt.Sprintf("bulk.readline %d %s %s %s", B, vh.B(eager), vh.B(!unclean), vh.Hex(remaining))
			var impl string
			switch {
			case err == io.EOF:
				impl = "ok eof"
			case err != nil:
				impl = "ok fail"
			default:
				rest := len(stream) - (cr.pos - br.Buffered())
				impl = fmt.Sprintf("ok line %s %s %d", vh.Hex(line), vh.B(pre), rest)
			}
			tags := []string{tag}
			if pre {
				tags = append(tags, "prefix")
			}
			if len(remaining) == B && !bytes.Contains(remaining, []byte("\n")) {
				tags = append(tags, "exactly-B-unterminated")
			}
			ch.Add(req, impl, pre || bytes.Contains(line, []byte("\r")) || len(remaining) >= B-2, tags...)
			if err != nil {
				break
			}
		}
	}
	for k := B - 4; k <= B+3; k++ {
		for _, suf := range suffixes {
			for _, eager := range []bool{false, true} {
				stream := append(bytes.Repeat([]byte("x"), k), suf...)
				run(stream, B, 5, eager, false, "exhaustive")
			}
		}
	}
	// '\r' right at the buffer boundary followed by everything
	for _, suf := range suffixes {
		stream := append(append(bytes.Repeat([]byte("x"), B-1), '\r'), suf...)
		run(stream, B, 0, false, false, "cr-at-boundary")
		run(stream, B, 7, true, true, "cr-at-boundary")
	}
	n := o.Pick(300, 40000)
	for i := 0; i < n; i++ {
		B := []int{16, 17, 32, 64}[r.Intn(4)]
		l := r.Intn(3 * B)
		s := make([]byte, l)
		for j := range s {
			const alpha = "xxxxxxxxxx\r\n\n y"
			s[j] = alpha[r.Intn(len(alpha))]
		}
		run(s, B, r.Intn(B+3), r.Bool(), r.Chance(1, 4), "random")
	}
}

func frameImpl(c reqCase) (string, [][]byte) {
	cr := &chunkReader{data: c.body, chunk: c.chunk, eager: c.eager}
	if c.streamUnclean() {
		cr.fail = errStream
	}
	docs, err := proxyapi.VerifReadAllDocs(cr, c.B)
	end := "done"
	if err != nil {
		if proxyapi.VerifIsWrongProtocol(err) {
			end = "err proto"
		} else {
			end = "err io"
		}
	}
	return fmt.Sprintf("ok %s %s", hexDocs(docs), end), docs
}

func frameReq(c reqCase) string {
	return fmt.Sprintf("bulk.frame %d %s %s %s", bufSize(c.B), vh.B(c.eager), vh.B(!c.streamUnclean()), vh.Hex(c.body))
}

func kindsTable(docs [][]byte) string {
	seen := map[string]bool{}
	var kv []string
	for _, d := range docs {
		h := vh.Hex(d)
		if seen[h] {
			continue
		}
		seen[h] = true
		kv = append(kv, h+"="+[]string{"o", "n", "i"}[bulk.VerifJSONKind(d)])
	}
	return vh.JoinStrs(kv, ",")
}

// procCase runs one request through the real handler and queues the comparison with the model.
func procCase(ch *vh.Channel, c reqCase, tags ...string) reqResult {
	_, docs := frameImpl(c)
	res := runRequest(c)
	req := fmt.Sprintf("bulk.proc %d %s %s %s %s %s", bufSize(c.B), vh.B(c.eager), vh.B(!c.streamUnclean()), vh.B(!c.storeKO), vh.Hex(c.body), kindsTable(docs))
	var impl string
	switch {
	case res.panicked != "":
		impl = "panic " + res.panicked
	case res.status == 200:
		impl = fmt.Sprintf("ok %d %s", res.items, fmtStored(res.cap))
	default:
		impl = fmt.Sprintf("err %d %s", res.status, fmtStored(res.cap))
	}
	tags = append(tags, fmt.Sprintf("status=%d", res.status), fmt.Sprintf("B=%d", c.B))
	if res.cap.calls > 0 {
		tags = append(tags, "stored")
	}
	ch.Add(req, impl, len(docs) > 0, tags...)
	return res
}

// ingestCase: the same body through Ingestor.ProcessDocuments with the real reader's ReadDoc and a chosen request
// time, so that the metas (MID, size) can be compared exactly.
func ingestCase(ch *vh.Channel, c reqCase, req time.Time, tags ...string) {
	_, docs := frameImpl(c)
	cp := &capture{failIt: c.storeKO}
	sh := getShared("ingest", func(cl bulk.StorageClient) *bulk.Ingestor { return newIngestor(cl, 1<<20) })
	sh.cl.cur = cp
	sh.bulks++
	ing := sh.ing
	cr := &chunkReader{data: c.body, chunk: c.chunk, eager: c.eager}
	if c.unclean {
		cr.fail = errStream
	}
	var n int
	var err error
	panicked := ""
	func() {
		defer func() {
			if p := recover(); p != nil {
				panicked = fmt.Sprint(p)
			}
		}()
		n, err = ing.ProcessDocuments(context.Background(), req, proxyapi.VerifNewDocReader(cr, c.B))
	}()
	seen := map[string]bool{}
	var kv []string
	for _, d := range docs {
		h := vh.Hex(d)
		if seen[h] {
			continue
		}
		seen[h] = true
		k := bulk.VerifJSONKind(d)
		e := h + "=" + []string{"o", "n", "i"}[k]
		if k == 0 {
			if t, found, ok := bulk.VerifExtractDocTime(d, req); ok && found {
				e += "@" + nsOf(t).String()
			}
		}
		kv = append(kv, e)
	}
	stored := "none"
	if cp.bad != "" {
		stored = "undecodable"
	} else if cp.calls == 1 {
		var ms []string
		for _, m := range cp.metas {
			ms = append(ms, fmt.Sprintf("%d/%d", uint64(m.ID.MID), m.Size))
		}
		stored = fmt.Sprintf("%d:%s:%s", cp.count, vh.Hex(cp.docs), vh.JoinStrs(ms, ","))
	} else if cp.calls > 1 {
		stored = fmt.Sprintf("calls=%d", cp.calls)
	}
	var impl string
	switch {
	case panicked != "":
		impl = "panic " + panicked
	case err == nil:
		impl = fmt.Sprintf("ok %d %s", n, stored)
	default:
		impl = "err 500 " + stored
	}
	reqLine := fmt.Sprintf("bulk.ingest %d %s %s %s %s %d %d %s %s", bufSize(c.B), vh.B(c.eager), vh.B(!c.unclean), vh.B(!c.storeKO),
		nsOf(req), int64(driftPast), int64(driftFuture), vh.Hex(c.body), vh.JoinStrs(kv, ","))
	if cp.calls > 0 {
		tags = append(tags, "stored")
	}
	ch.Add(reqLine, impl, len(cp.metas) > 0, tags...)
}

// ---------------------------------------------------------------- time

func nsOf(t time.Time) *big.Int {
	x := new(big.Int).Mul(big.NewInt(t.Unix()), big.NewInt(1e9))
	return x.Add(x, big.NewInt(int64(t.Nanosecond())))
}

type timeCase struct {
	req   time.Time
	doc   string // the document
	drift time.Duration
	fut   time.Duration
	// what the generator knows about the document's own time (independent of the code under test):
	// known=false: nothing; own=nil: no field parses (receive time expected); else the instant in ns
	known bool
	own   *big.Int
}

func (c timeCase) line() string {
	k := ""
	if c.known {
		k = " none"
		if c.own != nil {
			k = " " + c.own.String()
		}
	}
	return fmt.Sprintf("time %d %d %d %s%s", c.req.UnixNano(), int64(c.drift), int64(c.fut), vh.Hex([]byte(c.doc)), k)
}

func parseTimeCase(l string) (timeCase, bool) {
	f := strings.Fields(l)
	if (len(f) != 5 && len(f) != 6) || f[0] != "time" {
		return timeCase{}, false
	}
	var ns, d, fu int64
	fmt.Sscanf(f[1], "%d", &ns)
	fmt.Sscanf(f[2], "%d", &d)
	fmt.Sscanf(f[3], "%d", &fu)
	b, err := hex.DecodeString(f[4])
	if err != nil {
		return timeCase{}, false
	}
	c := timeCase{req: time.Unix(0, ns).UTC(), doc: string(b), drift: time.Duration(d), fut: time.Duration(fu)}
	if len(f) == 6 {
		c.known = true
		if f[5] != "none" {
			c.own, _ = new(big.Int).SetString(f[5], 10)
		}
	}
	return c, true
}

// storeOne sends one document through Ingestor.ProcessDocuments with the given request time and returns the
// MID of its meta.
// storeOne sends one document through Ingestor.ProcessDocuments with the given request time and returns the MID of
// its meta.  All cases of one drift configuration go through the same Ingestor, one bulk each, so that every bulk
// after the first is served by a processor taken from the ingestor's pool; on a new Ingestor the document is sent
// twice (new processor, then pooled processor) and both MIDs are returned.
func storeOne(c timeCase) (mids []uint64, ok bool) {
	key := fmt.Sprintf("time/%d/%d", int64(c.drift), int64(c.fut))
	sh := getShared(key, func(cl bulk.StorageClient) *bulk.Ingestor {
		mp, _ := mappingprovider.New("", mappingprovider.WithMapping(seq.Mapping{"k": seq.NewSingleType(seq.TokenizerTypeKeyword, "", 0)}))
		return bulk.NewIngestor(bulk.IngestorConfig{
			MaxInflightBulks: 1, AllowedTimeDrift: c.drift, FutureAllowedTimeDrift: c.fut, MappingProvider: mp,
			MaxTokenSize: 1024, DocsZSTDCompressLevel: -1, MetasZSTDCompressLevel: -1, MaxDocumentSize: 1 << 20,
		}, cl)
	})
	rounds := 1
	if sh.bulks == 0 {
		rounds = 2
	}
	for ; rounds > 0; rounds-- {
		cp := &capture{}
		sh.cl.cur = cp
		sh.bulks++
		sent := false
		n, err := sh.ing.ProcessDocuments(context.Background(), c.req, func() ([]byte, error) {
			if sent {
				return nil, nil
			}
			sent = true
			return []byte(c.doc), nil
		})
		if err != nil || n != 1 || len(cp.metas) == 0 {
			return nil, false
		}
		mids = append(mids, uint64(cp.metas[0].ID.MID))
	}
	return mids, true
}

func midOf(t time.Time) uint64 { return uint64(seq.TimeToMID(t)) }

func timeCases(r *vh.RNG, o vh.Opts) []timeCase {
	var cs []timeCase
	req := time.Date(2026, 9, 25, 12, 0, 0, 123456789, time.UTC)
	drift, fut := 24*time.Hour, 2*time.Hour
	// own time as the standard library reads the formatted value back (the code under test uses its own parser
	// for the first layout)
	back := func(t time.Time, layout string) *big.Int {
		p, err := time.Parse(layout, t.UTC().Format(layout))
		if err != nil {
			panic("harness: layout does not round-trip: " + err.Error())
		}
		return nsOf(p)
	}
	mkc := func(t time.Time, layout, field string, drift, fut time.Duration) timeCase {
		return timeCase{req: req, doc: fmt.Sprintf(`{"%s":"%s","k":"v"}`, field, t.UTC().Format(layout)), drift: drift, fut: fut, known: true, own: back(t, layout)}
	}
	// exact boundaries (RFC3339Nano keeps nanoseconds)
	for _, base := range []time.Duration{drift, -fut} {
		for _, d := range []time.Duration{-time.Millisecond, -1, 0, 1, time.Millisecond} {
			cs = append(cs, mkc(req.Add(-(base+d)), time.RFC3339Nano, "timestamp", drift, fut))
		}
	}
	// asymmetric drift configurations (production defaults: 24 h past, 5 min future), every bulk through the same
	// Ingestor: documents at +-(smaller drift +- 1ns), +-(between the two), +-(larger drift +- 1ns)
	cfgs := [][2]time.Duration{{24 * time.Hour, 5 * time.Minute}, {5 * time.Minute, 24 * time.Hour}, {24 * time.Hour, 2 * time.Hour}, {time.Hour, time.Hour}}
	for _, cf := range cfgs {
		p, f := cf[0], cf[1]
		var offs []time.Duration // request - document
		for _, base := range []time.Duration{p, -f, f, -p} {
			offs = append(offs, base-1, base, base+1)
		}
		offs = append(offs, (p+f)/2, -(p+f)/2, 0, time.Second, -time.Second)
		for round := 0; round < 2; round++ { // twice: the second round is certainly served by pooled processors
			for _, off := range offs {
				cs = append(cs, mkc(req.Add(-off), time.RFC3339Nano, timeFieldNames[len(cs)%3], p, f))
			}
		}
	}
	// int64 edges and beyond, every field and layout
	for _, y := range []int{1, 1600, 1677, 1678, 1969, 1970, 2000, 2026, 2261, 2262, 2263, 2318, 2319, 2400, 5000, 9999} {
		for i, layout := range timeLayouts {
			cs = append(cs, mkc(time.Date(y, 6, 15, 1, 2, 3, 0, time.UTC), layout, timeFieldNames[i], drift, fut))
		}
	}
	// zero drifts, huge drifts
	cs = append(cs, mkc(req, time.RFC3339Nano, "ts", 0, 0))
	cs = append(cs, mkc(req.Add(time.Nanosecond), time.RFC3339Nano, "ts", 0, 0))
	cs = append(cs, mkc(req.Add(-time.Nanosecond), time.RFC3339Nano, "ts", 0, 0))
	cs = append(cs, mkc(time.Date(2400, 1, 1, 0, 0, 0, 0, time.UTC), timeLayouts[0], "timestamp", 1<<62-1, 1<<62-1))
	// unparsable / missing
	at := func(h, m int, ns int) *big.Int { return nsOf(time.Date(2026, 9, 25, h, m, 0, ns, time.UTC)) }
	kc := func(doc string, own *big.Int) timeCase {
		return timeCase{req: req, doc: doc, drift: drift, fut: fut, known: true, own: own}
	}
	cs = append(cs, kc(`{"timestamp":"yesterday","k":"v"}`, nil), kc(`{"k":"v"}`, nil),
		kc(`{"timestamp":"","time":"2026-09-25 11:00:00","k":"v"}`, at(11, 0, 0)),
		kc(`{"timestamp":"x","time":"y","ts":"2026-09-25T11:00:00Z"}`, at(11, 0, 0)),
		// several parsable fields: the order is timestamp, time, ts - wherever they stand in the document
		kc(`{"ts":"2026-09-25T11:00:00Z","timestamp":"2026-09-25 10:00:00.5"}`, at(10, 0, 500000000)),
		kc(`{"ts":"2026-09-25T11:00:00Z","time":"2026-09-25T09:30:00Z","timestamp":"2026-09-25 10:00:00"}`, at(10, 0, 0)),
		kc(`{"ts":"2026-09-25T11:00:00Z","time":"2026-09-25T09:30:00+03:00"}`, nsOf(time.Date(2026, 9, 25, 6, 30, 0, 0, time.UTC))),
		kc(`{"time":"2026-09-25 09:30:00.123456789","ts":"2026-09-25 08:00:00"}`, at(9, 30, 123456789)),
		kc(`{"timestamp":"2026-09-25 10:00","time":"2026-09-25 11:00:00"}`, at(11, 0, 0)),
		timeCase{req: req, doc: `{"timestamp":1790000000,"time":"2026-09-25 11:00:00"}`, drift: drift, fut: fut})
	n := o.Pick(150, 15000)
	for i := 0; i < n; i++ {
		var off time.Duration
		switch r.Intn(4) {
		case 0:
			off = time.Duration(r.U64()%uint64(3*drift)) - drift
		case 1:
			off = drift + time.Duration(int64(r.Intn(2001))-1000)*time.Millisecond
		case 2:
			off = -fut + time.Duration(int64(r.Intn(2001))-1000)*time.Millisecond
		default:
			off = time.Duration(r.U64() >> 1)
			if r.Bool() {
				off = -off
			}
		}
		li := r.Intn(3)
		var t time.Time
		if r.Chance(1, 6) {
			t = time.Date(r.Intn(10000), time.Month(1+r.Intn(12)), 1+r.Intn(28), r.Intn(24), r.Intn(60), r.Intn(60), 0, time.UTC)
		} else {
			t = req.Add(-off)
		}
		cf := cfgs[r.Intn(len(cfgs))]
		if r.Bool() { // offsets relative to this configuration's own limits
			switch r.Intn(3) {
			case 0:
				t = req.Add(-time.Duration(r.U64() % uint64(cf[0]+time.Hour)))
			case 1:
				t = req.Add(time.Duration(r.U64() % uint64(cf[1]+time.Hour)))
			default:
				t = req.Add(-cf[0] + time.Duration(int64(r.Intn(2001))-1000)*time.Millisecond)
			}
		}
		cs = append(cs, mkc(t, timeLayouts[li], timeFieldNames[r.Intn(3)], cf[0], cf[1]))
	}
	return cs
}

// runTimeCase: channel bulk.mid (real MID vs model on the extracted doc time) and oracle bulk.timerule
func runTimeCase(c timeCase, chMid *vh.Channel, orc *vh.Oracle, rep *vh.Report) {
	docT, found, decoded := bulk.VerifExtractDocTime([]byte(c.doc), c.req)
	if !decoded {
		return
	}
	mids, ok := storeOne(c)
	if !ok {
		violate(rep, vh.Violation{Site: "proxy/bulk/ingestor.go:ProcessDocuments", Class: "valid-object-not-stored",
			What: "a single valid object document was not stored: " + c.doc, Replay: []string{c.line()}})
		return
	}
	mid := mids[len(mids)-1]
	docS := "none"
	if found {
		docS = nsOf(docT).String()
	}
	reqNs := nsOf(c.req)
	for i, m := range mids {
		served := "pooled-processor"
		if len(mids) == 2 && i == 0 {
			served = "new-processor"
		}
		chMid.Add(fmt.Sprintf("bulk.mid %s %s %d %d", docS, reqNs, int64(c.drift), int64(c.fut)), fmt.Sprintf("ok %d", m), found,
			map[bool]string{true: "time-field-parsed", false: "no-time-field"}[found], served)
	}
	// the rule, with exact integers, on the own time known to the generator (else the extracted one)
	want := midOf(c.req)
	cat := "receive-time:unparsed"
	ownNs := nsOf(docT)
	if c.known {
		found = c.own != nil
		ownNs = c.own
	}
	if found {
		delta := new(big.Int).Sub(reqNs, ownNs) // req - doc
		lo := big.NewInt(-int64(c.fut))
		hi := big.NewInt(int64(c.drift))
		switch {
		case delta.Cmp(lo) >= 0 && delta.Cmp(hi) <= 0:
			want, cat = uint64(new(big.Int).Quo(ownNs, big.NewInt(1e6)).Int64()), "own-time"
		case delta.Cmp(hi) > 0:
			cat = "receive-time:too-old"
		default:
			cat = "receive-time:too-far-ahead"
			if new(big.Int).Neg(delta).Cmp(new(big.Int).Lsh(big.NewInt(1), 63)) >= 0 {
				cat = "receive-time:ahead-beyond-int64"
			}
		}
	}
	orc.Case(c.line(), found, cat, fmt.Sprintf("drifts=%s/%s", c.drift, c.fut))
	if len(mids) == 2 && mids[0] != want {
		mid = mids[0]
	}
	if mid != want {
		class := "wrong-id-time"
		site := "proxy/bulk/processor.go:documentDelayed"
		if cat == "receive-time:ahead-beyond-int64" {
			class = "doc-time-more-than-292y-ahead"
		}
		// is it only the processor taken from the pool that gets it wrong?
		delete(sharedIngestors, fmt.Sprintf("time/%d/%d", int64(c.drift), int64(c.fut)))
		if fresh, ok := storeOne(c); ok && fresh[0] == want {
			site, class = "proxy/bulk/ingestor.go:getProcessor", "reused-processor-breaks-time-rule"
		}
		violate(rep, vh.Violation{Site: site, Class: class,
			What:   fmt.Sprintf("%s: document %s received at %s (drift %s/%s) got MID %d, the rule gives %d", cat, c.doc, c.req.Format(time.RFC3339Nano), c.drift, c.fut, mid, want),
			Replay: []string{c.line()}})
	}
}

// ---------------------------------------------------------------- property oracle on generated requests

const tUnknown timeCat = -1

// lines met by expectFromBody that are not valid JSON but accepted by the code's decoder
var (
	lenientLines    [][]byte
	lenientVerdicts []int
)

// expectFromBody computes the expectation for any body whose lines are all terminated, from the bytes alone
// (line-level walk written independently of the Lean model; insane-json's verdict as oracle).  Used for mutated
// bodies and for replays, where the generator's knowledge is not available.
func expectFromBody(body []byte, B int) (known, accepted bool, stored []entry, invalid bool, open bool) {
	B = bufSize(B)
	if len(body) > 0 && body[len(body)-1] != '\n' {
		return false, false, nil, false, false
	}
	lines := bytes.Split(body, []byte("\n"))
	lines = lines[:len(lines)-1]
	strip := func(l []byte) []byte {
		if len(l) > 0 && l[len(l)-1] == '\r' {
			return l[:len(l)-1]
		}
		return l
	}
	for i := 0; i < len(lines); {
		l := lines[i]
		i++
		if len(l)+1 > B {
			return true, false, nil, false, false
		}
		a := strip(l)
		if len(a) == 0 {
			continue
		}
		if !bytes.Contains(a, []byte(`"create"`)) && !bytes.Contains(a, []byte(`"index"`)) {
			open = true
		}
		if i >= len(lines) {
			return true, false, nil, false, false
		}
		d := lines[i]
		i++
		if len(d)+1 > B {
			continue
		}
		sd := strip(d)
		if len(sd) == 0 {
			return true, false, nil, false, false
		}
		verdict := rfcKind(sd)
		if dec := bulk.VerifJSONKind(sd); dec != verdict && verdict == 2 {
			// a line that is not valid JSON but that the code's decoder accepts: reported under its own narrow
			// signature by checkProperty, the rest of the body is held to the decoder's verdict
			lenientLines = append(lenientLines, append([]byte(nil), sd...))
			lenientVerdicts = append(lenientVerdicts, dec)
			verdict = dec
		}
		switch verdict {
		case 2:
			return true, false, nil, true, false
		case 1:
			continue
		}
		stored = append(stored, entry{doc: string(sd), tcat: tUnknown})
	}
	return true, true, stored, false, open
}

func checkProperty(g genBody, c reqCase, res reqResult, orc *vh.Oracle, rep *vh.Report) {
	known := !g.mutated
	var accepted, invalid, open bool
	var stored []entry
	if known {
		accepted, stored, invalid, open = expect(g, c.B)
	} else {
		lenientLines, lenientVerdicts = nil, nil
		known, accepted, stored, invalid, open = expectFromBody(g.body, c.B)
		for i, l := range lenientLines {
			reportLenient(rep, l, lenientVerdicts[i])
		}
	}
	if open && accepted {
		// verdict left to the code: follow it, then hold it to the property
		accepted = res.status == 200
		if !accepted {
			stored = nil
		}
	}
	if res.cap.bad != "" {
		violate(rep, vh.Violation{Site: "proxy/bulk/ingestor.go:ProcessDocuments", Class: "payload-undecodable",
			What: res.cap.bad, Replay: []string{c.line()}})
		return
	}
	if !known || c.streamUnclean() || c.storeKO {
		// any body: an error answer must not have stored anything (store errors aside)
		if res.status != 200 && res.cap.calls > 0 && !c.storeKO {
			violate(rep, vh.Violation{Site: "proxy/bulk/ingestor.go:ProcessDocuments", Class: "stored-although-rejected",
				What: fmt.Sprintf("status %d but StoreDocuments was called", res.status), Replay: []string{c.line()}})
		}
		orc.Case(c.line(), res.status != 200, "arbitrary-body")
		return
	}
	tags := []string{fmt.Sprintf("accepted=%v", accepted), fmt.Sprintf("stored=%d", min(len(stored), 4))}
	if g.mutated {
		tags = append(tags, "expectation-from-bytes")
	}
	if open {
		tags = append(tags, "unknown-action-line")
	}
	if invalid {
		tags = append(tags, "invalid-json-line")
	}
	viol := func(class, what string) {
		violate(rep, vh.Violation{Site: "proxyapi/http_bulk.go:BulkHandler", Class: class, What: what, Replay: []string{c.line()}})
	}
	if res.panicked != "" {
		viol("panic", "the handler panicked: "+res.panicked)
		return
	}
	if !accepted {
		orc.Case(c.line(), invalid, tags...)
		if res.status == 200 && !open {
			viol("accepted-although-invalid", "a request with an invalid line was answered 200")
		}
		if res.cap.calls > 0 {
			viol("stored-although-rejected", fmt.Sprintf("status %d but StoreDocuments was called with %d documents", res.status, res.cap.count))
		}
		return
	}
	nontrivial := len(stored) > 0 && len(stored) < len(g.entries)
	orc.Case(c.line(), nontrivial, tags...)
	if res.status != 200 {
		viol("rejected-although-valid", fmt.Sprintf("a valid request was answered %d", res.status))
		return
	}
	if res.bodyErr != "" {
		violate(rep, vh.Violation{Site: "proxyapi/http_bulk.go:writeBulkResponse", Class: "response-not-listing-items",
			What: fmt.Sprintf("%d documents stored; %s", len(stored), res.bodyErr), Replay: []string{c.line()}})
	} else if res.items != len(stored) {
		viol("wrong-item-count", fmt.Sprintf("response lists %d created items, %d documents should be stored", res.items, len(stored)))
	}
	if len(stored) == 0 {
		if res.cap.calls != 0 {
			viol("stored-nothing-expected", "StoreDocuments called although no line qualifies")
		}
		return
	}
	if res.cap.calls != 1 {
		viol("store-call-count", fmt.Sprintf("StoreDocuments called %d times", res.cap.calls))
		return
	}
	got, ok := decodePayload(res.cap.docs)
	if !ok || len(got) != len(stored) || res.cap.count != len(stored) {
		viol("wrong-stored-set", fmt.Sprintf("stored %d documents (count %d), expected %d", len(got), res.cap.count, len(stored)))
		return
	}
	for i, e := range stored {
		if string(got[i]) != e.doc {
			viol("bytes-changed", fmt.Sprintf("document %d stored as %q, sent as %q", i, got[i], e.doc))
			return
		}
	}
	// metas: one parent meta per document (no nested mapping here), size and ID time
	var parents []frac.MetaData
	for _, m := range res.cap.metas {
		parents = append(parents, m)
	}
	if len(parents) != len(stored) {
		viol("wrong-meta-count", fmt.Sprintf("%d metas for %d documents", len(parents), len(stored)))
		return
	}
	for i, e := range stored {
		m := parents[i]
		if int(m.Size) != len(e.doc) {
			viol("wrong-meta-size", fmt.Sprintf("meta %d has size %d, document has %d bytes", i, m.Size, len(e.doc)))
		}
		mid := uint64(m.ID.MID)
		lo, hi := uint64(res.t0.UnixMilli()), uint64(res.t1.UnixMilli())
		exact := timeCase{req: res.t0, doc: e.doc, drift: driftPast, fut: driftFuture}.line()
		switch e.tcat {
		case tUnknown:
		case tWithin:
			if mid != uint64(e.ownTime.UnixMilli()) {
				violate(rep, vh.Violation{Site: "proxy/bulk/processor.go:documentDelayed", Class: "wrong-id-time",
					What: fmt.Sprintf("document %q inside the drift got MID %d, own time is %d", e.doc, mid, e.ownTime.UnixMilli()), Replay: []string{exact, c.line()}})
			}
		default:
			if mid < lo || mid > hi {
				class := "wrong-id-time"
				if e.tcat == tFarFuture {
					class = "doc-time-more-than-292y-ahead"
				}
				violate(rep, vh.Violation{Site: "proxy/bulk/processor.go:documentDelayed", Class: class,
					What: fmt.Sprintf("document %q (time category %d) got MID %d, receive time is within [%d, %d]", e.doc, e.tcat, mid, lo, hi), Replay: []string{exact, c.line()}})
			}
		}
	}
}

// gzTruncCase: the gzip encoding of body cut to `cut` bytes - the stream fails in the middle; the request must
// fail and store nothing.
func gzTruncCase(body []byte, cut int, orc *vh.Oracle, rep *vh.Report) {
	var zb bytes.Buffer
	zw := gzip.NewWriter(&zb)
	zw.Write(body)
	zw.Close()
	z := zb.Bytes()
	if cut >= len(z) {
		cut = len(z) - 1
	}
	cp := &capture{}
	ing := newIngestor(cp, 256)
	defer ing.Stop()
	h := proxyapi.NewBulkHandler(ing, 256)
	proxyapi.VerifResetReaderPool()
	req := httptest.NewRequest(http.MethodPost, "/_bulk", bytes.NewReader(z[:cut]))
	req.Header.Set("Content-Encoding", "gzip")
	rec := httptest.NewRecorder()
	h.ServeHTTP(rec, req)
	line := fmt.Sprintf("gztrunc %d %s", cut, vh.Hex(body))
	orc.Case(line, true, "truncated-gzip", fmt.Sprintf("status=%d", rec.Code))
	if rec.Code == 200 || cp.calls > 0 || cp.bad != "" {
		violate(rep, vh.Violation{Site: "proxyapi/http_bulk.go:BulkHandler", Class: "truncated-gzip-stored",
			What: fmt.Sprintf("gzip body cut to %d of %d bytes: status %d, %d store calls", cut, len(z), rec.Code, cp.calls), Replay: []string{line}})
	}
}

// ---------------------------------------------------------------- main

// at most three violations per (site, class), so that one defect cannot crowd out another in the report
var violSeen = map[string]int{}

func violate(rep *vh.Report, v vh.Violation) {
	k := v.Site + "|" + v.Class
	violSeen[k]++
	if violSeen[k] <= 3 {
		rep.Violate(v)
	}
}

func main() {
	if len(os.Args) == 6 && os.Args[1] == "single-child" {
		var p singleParams
		fmt.Sscanf(os.Args[2], "%d", &p.Rounds)
		fmt.Sscanf(os.Args[3], "%d", &p.PerRound)
		fmt.Sscanf(os.Args[4], "%d", &p.Seed)
		singleChild(p, os.Args[5])
		return
	}
	if len(os.Args) == 4 && os.Args[1] == "e2e-child" {
		e2eChild(os.Args[2], os.Args[3])
		return
	}
	o := vh.ParseFlags()
	logger.SetLevel(zap.FatalLevel)
	rep := vh.NewReport("C10", o)
	rng := vh.NewRNG(o.Seed)

	chRL := vh.NewChannel("bulk.readline", "bufio.Reader.ReadLine (buffer B) vs SV.Bulk.readLine on the remaining stream, step by step until the stream ends; exhaustive: 'x'*k for k in [B-4,B+3] followed by every string over {x,CR,LF} up to length 3, eager and lazy end of stream, B=16; random streams beyond; non-trivial = prefix chunk, CR inside the line, or at least B-2 bytes remaining")
	chFrame := vh.NewChannel("bulk.frame", "esBulkDocReader.ReadDoc until end/error vs SV.Bulk.readAll: documents yielded and kind of ending; exhaustive document-line lengths in [B-3,B+3] x terminators x position, plus grammar bodies with mutations, random chunking of the stream; non-trivial = at least one document yielded")
	chProc := vh.NewChannel("bulk.proc", "POST /_bulk through the real BulkHandler and bulk.Ingestor into a capturing StorageClient vs SV.Bulk.processDocuments: status class, created items, number of store calls, decompressed docs payload; JSON verdicts of insane-json passed to the model as oracle; non-trivial = the reader yields at least one document")
	chIngest := vh.NewChannel("bulk.ingest", "Ingestor.ProcessDocuments fed by the real esBulkDocReader.ReadDoc with a chosen request time vs SV.Bulk.processDocuments with metaFor: items, payload, and per stored document MID and Size of its meta (document times around the request time, beyond the drifts and beyond int64); non-trivial = at least one document stored")
	chResp := vh.NewChannel("bulk.resp", "writeBulkResponse(took, total) vs SV.Bulk.bulkResponse: the whole body, for every total in 0..300, around 384/512/1024 (2048/4096 in the thorough tier) and random totals up to 1500; non-trivial = at least two items")
	chDefaults := vh.NewChannel("bulk.defaults", "proxyapi.IngestorConfig.setDefaults vs SV.Bulk.setDefaults (defaults = extracted consts): search/export timeout and max inflight in {0, set}, both drifts in {0, 1ms, 1h, 24h, 2^62-1}; non-trivial = a drift is 0")
	orcConfig := vh.NewOracle("bulk.config", "the real proxyapi.NewIngestor (config -> setDefaults -> bulk.NewIngestor -> gRPC bulk client) in front of a recording gRPC store, configured drifts in {0, 1ms, 1h, 24h, 2^62-1}^2: the effective drifts equal the configured ones, and a document 1h/30min/3h/48h/10s old or 1min/10s/3h ahead gets its own time iff it lies within the CONFIGURED drifts (cases too close to a limit to judge are skipped); non-trivial = a drift is 0")
	orcLines := vh.NewOracle("bulk.lines", "processor.Process on a single line vs the JSON decoder's verdict on the whole line (object -> stored, other JSON -> skipped, invalid -> bulk rejected), lines = every start class ([ string number literal { other, with leading blanks) x truncated/garbled/valid tails; each line also between two valid documents through the real handler (bulk.proc + bulk.property); non-trivial = invalid line starting like a non-object value")
	chIndex := vh.NewChannel("bulk.index", "all metas (MID, Size, tokens; parent and nested) stored by the real Ingestor for one document under a mapping with keyword/text/path/exists, multi-type, object, tags and nested fields vs SV.Bulk.metasFor = time rule + SV.BulkIndex.indexDoc (per field: C11's SV.Tok.indexField) on the tree insane-json presents; random case sensitivity, partial indexing and token limits; non-trivial = the parent meta has more than the _all_ token")
	orcIndex := vh.NewOracle("bulk.items", "one stored document = one created item, one meta of the document's size first, then only size-0 metas with the same ID (nested elements); non-trivial = at least one nested meta")
	chCodec := vh.NewChannel("bulk.codec", "captured docs payload: packer.BytesUnpacker vs SV.Bulk.decodeDocs, and SV.Bulk.encodeDocs of the decoded documents vs the payload; plus truncated payloads; captured metas payload: MetaData.UnmarshalBinary per record vs SV.Bulk.decMeta (ids, size, token bytes) and re-encoding equals the payload; non-trivial = at least two documents")
	chDelayed := vh.NewChannel("bulk.delayed", "bulk.documentDelayed vs the extracted translation documentDelayedX at 0, +-1, +-drift(+-1), int64 edges, random; non-trivial = |docDelay| beyond a drift limit")
	chMid := vh.NewChannel("bulk.mid", "MID of the meta stored by Ingestor.ProcessDocuments for one document at a chosen request time vs SV.BulkTime.docMID (saturating Sub, wrapping UnixNano) on the doc time reported by extractDocTime; non-trivial = a time field parsed")
	chExtract := vh.NewChannel("bulk.extract", "bulk.extractDocTime vs SV.BulkTime.extractDocTime with parseESTime/time.Parse results as oracle table; non-trivial = at least two time fields present")
	orcProp := vh.NewOracle("bulk.property", "grammar bodies through the real handler; expectation from the generator: accepted => exactly the in-limit object lines stored in order byte for byte, items = count, one store call, meta size = len, ID time by the rule; a reachable invalid line => not 200 and nothing stored; non-trivial = some but not all document lines stored")
	orcTime := vh.NewOracle("bulk.timerule", "Ingestor.ProcessDocuments with exact request time: MID = own time iff parsed and -future <= req-doc <= past (big-integer arithmetic), else receive time; boundaries +-1ns/+-1ms, years 1..9999; non-trivial = time field parsed")

	chNewID := vh.NewChannel("bulk.newid", "seq.NewID(t, (draw<<16)+index) vs SV.BulkTime.newID: MID and RID; draws = single-bit flips over all 64 bits, runs differing only in bits 28..47, random; instants with sub-millisecond parts 0, 1, 123456, 500000, 999999 ns; non-trivial = non-zero draw")
	orcNewID := vh.NewOracle("bulk.ids", "at one instant, draws that differ in their 48 effective bits must give different IDs (seq.NewID as called by Process); thorough: one bulk of 120000 documents without a time field through the real Ingestor has pairwise distinct IDs; non-trivial = more than one draw")
	orcOverlap := vh.NewOracle("bulk.overlap", "2..8 overlapping bulks through one Ingestor: the storage client call of each bulk stays in flight (holding the docs/metas blocks it was handed) while the next bulk is processed on the same goroutine; when it finally consumes them the docs block must decode to exactly that bulk's documents and the metas to their sizes; non-trivial = at least two bulks")
	chHandover := vh.NewChannel("bulk.codec-handover", "VTProtoCodec.Marshal of 2-4 bulk requests one after another (docs sizes around 64 KiB, 100 KiB .. 2 MiB, equal size classes), then Unmarshal of every returned slice: which request each slice still decodes to vs SV.Handover.run stepClone on the same event sequence (by-value hand-over); non-trivial = at least two requests")
	orcTransport := vh.NewOracle("bulk.transport", "codec: the slice Marshal returned for a request still unmarshals to it after later Marshals; real gRPC: rounds of 4-8 concurrent bulks of 100 KiB - 2 MiB from the real SeqDBClient (VTProto codec registered as in cmd/seq-db) to a fake StoreApiServer that compares every received docs/metas block byte for byte with what the client was handed; non-trivial = several requests")
	orcBig := vh.NewOracle("bulk.bigbody", "one plain body of about 103 MiB (fixed-size action/document pairs generated on the fly) through the proxy's HTTP router (newIngestorHandler) and the real BulkHandler/Ingestor into a counting client: 200, items = pairs, one store call, the payload holds every document, first and last byte-identical")
	orcBinary := vh.NewOracle("bulk.binary", "thorough: the real seq-db binary in proxy mode (built from the tree under test) in front of a fake gRPC store that decodes every payload; 9 rounds of 6 concurrent /_bulk posts of 100-800 KiB: every post 200, every posted document arrives exactly once byte for byte, nothing else arrives")
	orcSize := vh.NewOracle("bulk.sizelimit", "the real proxyapi.NewIngestor with MaxDocumentSize in {512, 2048, 8192, 16384, 16385, 128 KiB} and the HTTP handler it built (router + BulkHandler), in front of a recording gRPC store: a bulk [small, document of n bytes, small] with n in {limit-2, limit-1, limit, limit+1, 2*limit, 16 KiB-1, 16 KiB, 16 KiB+1, 100}: n+1 <= max(limit,16) => all three stored verbatim and counted, else the middle one skipped, the neighbours stored, two items; thorough: the real binary with --max-document-size=2048; non-trivial = over-size document")
	orcSingle := vh.NewOracle("bulk.single", "single-binary mode (child process): real storeapi.NewStore + in-memory StoreApiClient + SeqDBClient + bulk.Ingestor + BulkHandler; the store's index workers are parked at c07.aidx.start while a burst of one-document bulks (up to workers + queue length) is accepted, then released, several rounds; every accepted document must be found by its own token exactly once and fetched with its own bytes, and the process must survive; non-trivial = at least one bulk accepted")
	orcE2E := vh.NewOracle("bulk.e2e", "real HTTP POST /_bulk (plain or gzip) into tests/setup.TestingEnv (ingestor + store, child process), then search by a per-request tag with fetch: accepted => exactly the qualifying documents can be fetched, byte for byte, items = count, ID times by the rule; rejected => nothing can be fetched; non-trivial = at least one document stored")

	now := time.Now().UTC()

	if o.Replay != "" {
		lines, err := vh.ReadReplay(o.Replay)
		if err != nil {
			fmt.Fprintln(os.Stderr, err)
			os.Exit(3)
		}
		for _, l := range lines {
			if c, ok := parseReqCase(l); ok {
				impl, docs := frameImpl(c)
				chFrame.Add(frameReq(c), impl, len(docs) > 0, "replay")
				res := procCase(chProc, c, "replay")
				checkProperty(genBody{mutated: true, body: c.body}, c, res, orcProp, rep)
			}
			if c, ok := parseTimeCase(l); ok {
				runTimeCase(c, chMid, orcTime, rep)
			}
			if f := strings.Fields(l); len(f) == 3 && f[0] == "gztrunc" {
				var cut int
				fmt.Sscanf(f[1], "%d", &cut)
				if b, err := hex.DecodeString(f[2]); err == nil {
					gzTruncCase(b, cut, orcProp, rep)
				}
			}
			if f := strings.Fields(l); len(f) == 2 && f[0] == "index" {
				if b, err := hex.DecodeString(f[1]); err == nil {
					runIndexCases(chIndex, orcIndex, rep, vh.NewRNG(o.Seed), []string{string(b)})
				}
			}
			if d, f, off, lay, ok := parseCfgCase(l); ok {
				cfgCase(d, f, off, lay, orcConfig, rep)
			}
			if f := strings.Fields(l); len(f) == 2 && f[0] == "line" {
				if b, err := hex.DecodeString(f[1]); err == nil {
					lineCase(string(b), chProc, orcLines, orcProp, rep)
				}
			}
			if d, sd, ok := parseOverlap(l); ok {
				overlapCase(d, sd, orcOverlap, rep)
			}
			if tNs, idx, draws, ok := parseNewID(l); ok {
				newIDCase(tNs, draws, idx, chNewID, orcNewID, rep)
			}
			if f := strings.Fields(l); len(f) == 2 && f[0] == "timeless" {
				var n int
				fmt.Sscanf(f[1], "%d", &n)
				bigTimelessBulk(n, orcNewID, rep)
			}
			if sizes, ok := parseCodec(l); ok {
				codecCase(sizes, chHandover, orcTransport, rep)
			}
			if rounds, conc, sd, ok := parseGrpcBulks(l); ok {
				grpcBulksCase(rounds, conc, sd, orcTransport, rep)
			}
			if f := strings.Fields(l); len(f) == 3 && f[0] == "bigbody" {
				var pairs, size int
				fmt.Sscanf(f[1], "%d", &pairs)
				fmt.Sscanf(f[2], "%d", &size)
				if pairs > 0 && size >= 32 {
					bigBodyCase(pairs, size, orcBig, rep)
				}
			}
			if f := strings.Fields(l); len(f) == 4 && f[0] == "binary" {
				var cc, rr int
				var sd int64
				fmt.Sscanf(f[1], "%d", &cc)
				fmt.Sscanf(f[2], "%d", &rr)
				fmt.Sscanf(f[3], "%d", &sd)
				if cc > 0 && cc <= 32 && rr > 0 && rr <= 100 {
					binaryBulksCase(cc, rr, sd, orcBinary, rep)
				}
			}
			if f := strings.Fields(l); len(f) == 3 && f[0] == "sizecase" {
				var lim, n int
				fmt.Sscanf(f[1], "%d", &lim)
				fmt.Sscanf(f[2], "%d", &n)
				if lim > 0 && n > 0 && n < 1<<24 {
					sizeCase(lim, n, orcSize, rep)
				}
			}
			if f := strings.Fields(l); len(f) == 2 && f[0] == "binsize" {
				var lim int
				fmt.Sscanf(f[1], "%d", &lim)
				if lim > 0 {
					binarySizeCase(lim, orcSize, rep)
				}
			}
			if p, ok := parseSingle(l); ok {
				runSingle(p, orcSingle, rep)
			}
			if c, ok := parseE2ECase(l); ok {
				runE2E([]e2eCase{c}, orcE2E, rep)
			}
		}
		rep.AddChannel(chFrame, o.Driver)
		rep.AddChannel(chProc, o.Driver)
		rep.AddChannel(chMid, o.Driver)
		rep.AddChannel(chIndex, o.Driver)
		rep.AddOracle(orcIndex)
		rep.AddOracle(orcConfig)
		rep.AddOracle(orcLines)
		rep.AddOracle(orcProp)
		rep.AddOracle(orcTime)
		rep.AddOracle(orcE2E)
		rep.AddOracle(orcSingle)
		rep.AddChannel(chNewID, o.Driver)
		rep.AddChannel(chHandover, o.Driver)
		rep.AddOracle(orcNewID)
		rep.AddOracle(orcOverlap)
		rep.AddOracle(orcTransport)
		rep.AddOracle(orcBig)
		rep.AddOracle(orcBinary)
		rep.AddOracle(orcSize)
		rep.Write(o.Out)
		return
	}

	want := func(name string) bool { return o.Only == "" || o.Only == name }

	if want("bulk.readline") {
		addReadlineCases(chRL, rng.Fork(), o)
	}

	// ---- frame: exhaustive boundary lengths
	if want("bulk.frame") {
		r := rng.Fork()
		B := 32
		for L := B - 3; L <= B+3; L++ {
			for _, term := range []string{"\n", "\r\n", ""} {
				for pos := 0; pos < 3; pos++ {
					for _, eager := range []bool{false, true} {
						var sb strings.Builder
						for i := 0; i < 3; i++ {
							sb.WriteString(`{"index":{}}` + "\n")
							if i == pos {
								sb.WriteString(padObject(r, "", L))
								if term == "" && pos == 2 {
									continue
								}
								sb.WriteString(map[bool]string{true: term, false: "\n"}[term != ""])
							} else {
								sb.WriteString(fmt.Sprintf(`{"n":%d}`, i) + "\n")
							}
						}
						c := reqCase{B: B, chunk: 1 + r.Intn(2*B), eager: eager, body: []byte(sb.String())}
						impl, docs := frameImpl(c)
						chFrame.Add(frameReq(c), impl, len(docs) > 0, "exhaustive-lengths", fmt.Sprintf("docs=%d", len(docs)))
					}
				}
			}
		}
		// over-long lines of k*B + d bytes, terminated or not, with CR at chunk ends
		for k := 1; k <= 3; k++ {
			for d := -2; d <= 2; d++ {
				for _, term := range []string{"\n", "\r\n", ""} {
					for _, eager := range []bool{false, true} {
						for _, cr := range []bool{false, true} {
							line := []byte(padObject(r, "", k*B+d))
							if cr && len(line) > B {
								line[B-1] = '\r'
							}
							body := `{"index":{}}` + "\n" + `{"a":1}` + "\n" + `{"index":{}}` + "\n" + string(line) + term
							if term != "" {
								body += `{"index":{}}` + "\n" + `{"b":2}` + "\n"
							}
							c := reqCase{B: B, chunk: 1 + r.Intn(2*B), eager: eager, body: []byte(body)}
							impl, docs := frameImpl(c)
							chFrame.Add(frameReq(c), impl, len(docs) > 0, "exhaustive-oversize", fmt.Sprintf("docs=%d", len(docs)))
						}
					}
				}
			}
		}
		n := o.Pick(400, 40000)
		for i := 0; i < n; i++ {
			B := []int{16, 32, 64, 64, 100, 256}[r.Intn(6)]
			g := genRequest(r, B, now, true)
			c := reqCase{B: B, chunk: r.Intn(3 * B), eager: r.Bool(), unclean: r.Chance(1, 8), body: g.body}
			impl, docs := frameImpl(c)
			tag := "grammar"
			if g.mutated {
				tag = "grammar-mutated"
			}
			chFrame.Add(frameReq(c), impl, len(docs) > 0, tag, impl[strings.LastIndex(impl, " ")+1:])
		}
	}

	// ---- proc + property oracle
	var payloads, metaPayloads [][]byte
	if want("bulk.proc") {
		r := rng.Fork()
		n := o.Pick(500, 30000)
		for i := 0; i < n; i++ {
			B := []int{16, 64, 64, 100, 256, 1024}[r.Intn(6)]
			wild := r.Chance(1, 2)
			g := genRequest(r, B, now, wild)
			c := reqCase{B: B, chunk: r.Intn(3 * B), eager: r.Bool(), body: g.body}
			if r.Chance(1, 3) && bytes.HasSuffix(g.body, []byte("\n")) {
				c.gz = true
				if r.Bool() && len(g.body) > 4 { // several gzip members, cut at line ends or in the middle of a line
					for k := 1 + r.Intn(3); k > 0; k-- {
						cut := 1 + r.Intn(len(g.body)-1)
						if r.Bool() {
							if j := bytes.IndexByte(g.body[cut:], '\n'); j >= 0 {
								cut += j + 1
							}
						}
						c.splits = append(c.splits, cut)
					}
					sort.Ints(c.splits)
				}
				if r.Chance(1, 6) { // bytes after the last member that are not a gzip member
					c.trail = [][]byte{[]byte("\n"), []byte("xyz"), []byte("not a gzip member at all"), {0, 0, 0, 0}}[r.Intn(4)]
				}
			}
			if wild && !c.gz && r.Chance(1, 10) {
				c.unclean = true
			}
			if wild && r.Chance(1, 15) {
				c.storeKO = true
			}
			tags := []string{map[bool]string{true: "gzip", false: "plain"}[c.gz]}
			if len(c.splits) > 0 {
				tags = append(tags, fmt.Sprintf("gzip-members=%d", len(c.splits)+1))
			}
			if len(c.trail) > 0 {
				tags = append(tags, "gzip-trailing-bytes")
			}
			res := procCase(chProc, c, tags...)
			checkProperty(g, c, res, orcProp, rep)
			if res.cap.calls == 1 && len(payloads) < 400 {
				payloads = append(payloads, res.cap.docs)
				metaPayloads = append(metaPayloads, res.cap.rawMetas)
			}
		}
		// the known witness through the handler: a document stamped in the year 2400
		wit := `{"index":{}}` + "\n" + `{"timestamp":"2400-01-01 00:00:00","k":"v"}` + "\n"
		g := genBody{entries: []entry{{action: `{"index":{}}`, aterm: "\n", term: "\n", doc: `{"timestamp":"2400-01-01 00:00:00","k":"v"}`, tcat: tFarFuture}}, body: []byte(wit)}
		c := reqCase{B: 1024, body: g.body}
		res := procCase(chProc, c, "witness-2400")
		checkProperty(g, c, res, orcProp, rep)
	}

	// many tiny documents: counts around the powers of two a response writer might chunk by
	if want("bulk.proc") {
		r := rng.Fork()
		counts := []int{63, 64, 65, 127, 128, 129, 255, 256, 257, 512, 1024}
		if o.Thorough() {
			counts = append(counts, 100, 200, 383, 384, 385, 1000, 1023, 1025, 2048, 4096)
			for i := 0; i < 20; i++ {
				counts = append(counts, 1+r.Intn(3000))
			}
		}
		for _, n := range counts {
			var g genBody
			var sb bytes.Buffer
			for i := 0; i < n; i++ {
				e := entry{action: `{"index":{}}`, aterm: "\n", term: "\n", doc: fmt.Sprintf(`{"k":"%d"}`, i), tcat: tNone}
				if i%97 == 5 {
					e.doc, e.kind = `7`, dNonObject // skipped lines do not count
				}
				g.entries = append(g.entries, e)
				sb.WriteString(e.action + e.aterm + e.doc + e.term)
			}
			g.body = sb.Bytes()
			// make the stored count itself hit n exactly as well
			for _, exact := range []bool{false, true} {
				gg := g
				if exact {
					gg.entries = nil
					sb.Reset()
					for i := 0; i < n; i++ {
						e := entry{action: `{"index":{}}`, aterm: "\n", term: "\n", doc: fmt.Sprintf(`{"k":"%d"}`, i), tcat: tNone}
						gg.entries = append(gg.entries, e)
						sb.WriteString(e.action + e.aterm + e.doc + e.term)
					}
					gg.body = append([]byte(nil), sb.Bytes()...)
				}
				c := reqCase{B: 256, chunk: 1000 + r.Intn(5000), eager: r.Bool(), body: gg.body, gz: r.Bool()}
				res := procCase(chProc, c, "many-documents")
				checkProperty(gg, c, res, orcProp, rep)
			}
		}
	}

	if want("bulk.resp") {
		r := rng.Fork()
		totals := []int{}
		for n := 0; n <= 300; n++ {
			totals = append(totals, n)
		}
		totals = append(totals, 383, 384, 385, 511, 512, 513, 1023, 1024, 1025)
		if o.Thorough() {
			totals = append(totals, 2047, 2048, 2049, 4096)
		}
		for i := o.Pick(10, 150); i > 0; i-- {
			totals = append(totals, r.Intn(1500))
		}
		for _, n := range totals {
			took := []time.Duration{0, 7 * time.Millisecond, 999 * time.Microsecond, 1234567 * time.Millisecond}[r.Intn(4)]
			body := proxyapi.VerifWriteBulkResponse(took, n)
			chResp.Add(fmt.Sprintf("bulk.resp %d %d", took.Milliseconds(), n), "ok "+vh.Hex(body), n >= 2, fmt.Sprintf("total%%128=%d", min(n%128, 2)))
		}
	}

	// truncated gzip bodies: the stream fails in the middle; the request must fail and store nothing
	if want("bulk.proc") {
		r := rng.Fork()
		n := o.Pick(40, 1500)
		for i := 0; i < n; i++ {
			g := genRequest(r, 256, now, false)
			if len(g.body) < 40 {
				continue
			}
			var zb bytes.Buffer
			zw := gzip.NewWriter(&zb)
			zw.Write(g.body)
			zw.Close()
			gzTruncCase(g.body, 10+r.Intn(zb.Len()-10), orcProp, rep)
		}
		// huge and deeply nested documents around a large limit
		for _, B := range []int{1 << 16, 1 << 20} {
			if !o.Thorough() && B > 1<<16 {
				continue
			}
			for _, d := range []int{-2, -1, 0, 1} {
				deep := strings.Repeat(`{"a":`, 200) + `1` + strings.Repeat(`}`, 200)
				big := padObject(r, `"message":"HUGE Value",`, B+d-1)
				body := `{"index":{}}` + "\n" + deep + "\n" + `{"index":{}}` + "\n" + big + "\n" + `{"index":{}}` + "\n" + `{"k":"after"}` + "\n"
				g := genBody{entries: []entry{
					{action: `{"index":{}}`, aterm: "\n", term: "\n", doc: deep},
					{action: `{"index":{}}`, aterm: "\n", term: "\n", doc: big},
					{action: `{"index":{}}`, aterm: "\n", term: "\n", doc: `{"k":"after"}`}}, body: []byte(body)}
				c := reqCase{B: B, chunk: 4096 + r.Intn(4096), eager: r.Bool(), body: g.body, gz: d == 0}
				res := procCase(chProc, c, "huge")
				checkProperty(g, c, res, orcProp, rep)
			}
		}
	}

	if want("bulk.ingest") {
		r := rng.Fork()
		n := o.Pick(300, 20000)
		req := time.Date(2026, 9, 25, 12, 0, 0, 987654321, time.UTC)
		for i := 0; i < n; i++ {
			B := []int{64, 100, 256, 1024}[r.Intn(4)]
			wild := r.Chance(1, 3)
			g := genRequest(r, B, req, wild)
			c := reqCase{B: B, chunk: r.Intn(3 * B), eager: r.Bool(), body: g.body, unclean: wild && r.Chance(1, 10), storeKO: wild && r.Chance(1, 15)}
			ingestCase(chIngest, c, req, map[bool]string{true: "wild", false: "valid"}[wild])
		}
	}

	if want("bulk.defaults") {
		runDefaultsChannel(chDefaults, orcConfig, rep)
		runConfigOracle(orcConfig, rep, rng.Fork(), o)
	}
	if want("bulk.proc") {
		for _, l := range genLines(rng.Fork(), o.Pick(100, 3000)) {
			lineCase(l, chProc, orcLines, orcProp, rep)
		}
	}
	if want("bulk.index") {
		runIndexChannel(chIndex, orcIndex, rep, rng.Fork(), o)
	}

	if want("bulk.codec") {
		r := rng.Fork()
		for _, p := range payloads {
			docs, ok := decodePayload(p)
			if !ok {
				continue
			}
			chCodec.Add("bulk.decode "+vh.Hex(p), "ok "+hexDocs(docs), len(docs) >= 2, "captured")
			chCodec.Add("bulk.encode "+hexDocs(docs), "ok "+vh.Hex(p), len(docs) >= 2, "captured")
			if len(p) > 1 && r.Chance(1, 3) {
				q := p[:r.Intn(len(p))]
				d2, ok2 := decodePayload(q)
				impl := "err malformed"
				if ok2 {
					impl = "ok " + hexDocs(d2)
				}
				chCodec.Add("bulk.decode "+vh.Hex(q), impl, len(d2) >= 2, "truncated")
			}
		}
	}

	if want("bulk.codec") {
		for _, p := range metaPayloads {
			var recs []string
			u := packer.NewBytesUnpacker(p)
			ok := true
			for u.Len() > 0 {
				var m frac.MetaData
				if err := m.UnmarshalBinary(u.GetBinary()); err != nil {
					ok = false
					break
				}
				var toks []string
				for _, t := range m.Tokens {
					toks = append(toks, vh.Hex(t.Key)+"="+vh.Hex(t.Value))
				}
				recs = append(recs, fmt.Sprintf("%d:%d:%d:%s", uint64(m.ID.MID), uint64(m.ID.RID), m.Size, vh.JoinStrs(toks, "+")))
			}
			if ok {
				chCodec.Add("bulk.metas "+vh.Hex(p), "ok "+vh.JoinStrs(recs, ",")+" reenc=1", len(recs) >= 2, "metas")
			}
		}
	}

	if want("bulk.delayed") {
		r := rng.Fork()
		const minI, maxI = -1 << 63, 1<<63 - 1
		drifts := []int64{0, 1, int64(time.Hour), int64(24 * time.Hour), maxI - 1, maxI}
		for _, p := range drifts {
			for _, f := range drifts {
				ds := []int64{minI, minI + 1, -1, 0, 1, maxI - 1, maxI, p - 1, p, p + 1, -f - 1, -f, -f + 1}
				for i := 0; i < 6; i++ {
					ds = append(ds, int64(r.U64()))
				}
				for _, d := range ds {
					got := bulk.VerifDocumentDelayed(time.Duration(d), time.Duration(p), time.Duration(f))
					chDelayed.Add(fmt.Sprintf("bulk.delayed %d %d %d", d, p, f), "ok "+vh.B(got), d > p || d < -f, "delayed="+vh.B(got))
				}
			}
		}
	}

	if want("bulk.mid") {
		for _, c := range timeCases(rng.Fork(), o) {
			runTimeCase(c, chMid, orcTime, rep)
		}
	}

	if want("bulk.extract") {
		r := rng.Fork()
		values := []string{"", "", "garbage", "2026-09-25 11:00:00", "2026-09-25 11:00:00.123", "2026-09-25T11:00:00Z", "2026-09-25T11:00:00.5+03:00",
			"2026-02-30 11:00:00", "2026-09-25 11:00", "9999-12-31 23:59:59.999999999", "0000-01-01 00:00:00", "2400-01-01T00:00:00Z", "2026-09-25 11:00:00.", "1790000000"}
		n := o.Pick(300, 20000)
		req := time.Date(2026, 9, 25, 12, 0, 0, 0, time.UTC)
		for i := 0; i < n; i++ {
			var vals [3]string
			var parts []string
			present := 0
			for j := range vals {
				vals[j] = values[r.Intn(len(values))]
				if vals[j] != "" || r.Chance(1, 4) {
					parts = append(parts, fmt.Sprintf(`"%s":"%s"`, timeFieldNames[j], vals[j]))
				}
				if vals[j] != "" {
					present++
				}
			}
			// field order inside the document must not matter
			p := r.Perm(len(parts))
			shuffled := make([]string, len(parts))
			for a, b := range p {
				shuffled[a] = parts[b]
			}
			doc := `{` + strings.Join(append(shuffled, `"k":"v"`), ",") + `}`
			t, found, decoded := bulk.VerifExtractDocTime([]byte(doc), req)
			if !decoded {
				continue
			}
			var tbl []string
			for _, v := range vals {
				if v == "" {
					continue
				}
				for f, layout := range timeLayouts {
					var pt time.Time
					var ok bool
					if f == 0 {
						pt, ok = bulk.VerifParseESTime(v)
					} else {
						var err error
						pt, err = time.Parse(layout, v)
						ok = err == nil
					}
					if ok {
						tbl = append(tbl, fmt.Sprintf("%d:%s=%s", f, vh.Hex([]byte(v)), nsOf(pt)))
					}
				}
			}
			impl := "ok none"
			if found {
				impl = "ok " + nsOf(t).String()
			}
			chExtract.Add(fmt.Sprintf("bulk.extract 3 %s,%s,%s %s", vh.Hex([]byte(vals[0])), vh.Hex([]byte(vals[1])), vh.Hex([]byte(vals[2])), vh.JoinStrs(tbl, ";")),
				impl, present >= 2, fmt.Sprintf("found=%v", found))
		}
	}

	for _, ch := range []*vh.Channel{chRL, chFrame, chProc, chDefaults, chResp, chIngest, chIndex, chCodec, chDelayed, chMid, chExtract} {
		if want(ch.Name) {
			rep.AddChannel(ch, o.Driver)
		}
	}
	if want("bulk.newid") {
		runNewID(chNewID, orcNewID, rep, rng.Fork(), o)
		if o.Thorough() {
			bigTimelessBulk(120000, orcNewID, rep)
		}
		rep.AddChannel(chNewID, o.Driver)
	}
	if want("bulk.transport") {
		r := rng.Fork()
		for _, sizes := range [][]int{{65536 - 40, 65536 - 40}, {65536, 65536}, {65537, 65530}, {70000, 70000, 70000}, {100 << 10, 100 << 10}, {1 << 20, 1 << 20, 1 << 20, 1 << 20},
			{2 << 20, 2<<20 - 100}, {1000, 1000}, {40000, 90000, 40000, 90000}} {
			codecCase(sizes, chHandover, orcTransport, rep)
		}
		for i := 0; i < o.Pick(10, 100); i++ {
			n := 60000 + r.Intn(200000)
			codecCase([]int{n, n - r.Intn(2000), n - r.Intn(2000)}, chHandover, orcTransport, rep)
		}
		rep.AddChannel(chHandover, o.Driver)
		grpcBulksCase(o.Pick(8, 60), 4+r.Intn(5), o.Seed, orcTransport, rep)
	}
	if want("bulk.bigbody") {
		bigBodyCase(101500, 1024, orcBig, rep)
	}
	if want("bulk.sizelimit") {
		runSizeOracle(orcSize, rep)
		if o.Thorough() {
			binarySizeCase(2048, orcSize, rep)
		}
	}
	if want("bulk.binary") && o.Thorough() {
		binaryBulksCase(6, 9, o.Seed, orcBinary, rep)
	}
	if want("bulk.overlap") {
		for rep2 := 0; rep2 < o.Pick(6, 60); rep2++ {
			overlapCase(2+rep2%7, o.Seed*1000+int64(rep2), orcOverlap, rep)
		}
	}
	if want("bulk.single") {
		runSingle(singleParams{Rounds: o.Pick(2, 8), PerRound: 24, Seed: o.Seed}, orcSingle, rep)
		if o.Thorough() {
			runSingle(singleParams{Rounds: 3, PerRound: 9, Seed: o.Seed + 1}, orcSingle, rep)
		}
	}
	if want("bulk.e2e") {
		runE2E(genE2ECases(rng.Fork(), o.Pick(12, 150), now), orcE2E, rep)
	}
	chRL.Exhaustive = true
	rep.AddOracle(orcProp)
	rep.AddOracle(orcTime)
	rep.AddOracle(orcE2E)
	rep.AddOracle(orcSingle)
	rep.AddOracle(orcNewID)
	rep.AddOracle(orcOverlap)
	rep.AddOracle(orcTransport)
	rep.AddOracle(orcBig)
	rep.AddOracle(orcBinary)
	rep.AddOracle(orcSize)
	rep.AddOracle(orcIndex)
	rep.AddOracle(orcConfig)
	rep.AddOracle(orcLines)
	rep.Write(o.Out)
}
