// bulk.overlap: overlapping bulks through one Ingestor - while the storage client call of bulk A is in flight
// (holding the blocks it was handed, not yet consumed) further bulks run through the same Ingestor on the same
// goroutine; when A's call finally consumes its blocks they must still decode to exactly A's documents.
// bulk.newid: seq.NewID vs SV.BulkTime.newID, and distinct randomness => distinct RID at equal times.
package main

import (
	"context"
	"encoding/hex"
	"fmt"
	"strings"
	"time"

	"github.com/ozontech/seq-db/disk"
	"github.com/ozontech/seq-db/proxy/bulk"
	"github.com/ozontech/seq-db/seq"

	"verifharness/internal/vh"
)

type nestClient struct {
	ing     *bulk.Ingestor
	bulks   [][]string // documents of bulk 0, 1, ...
	level   int
	results []string // per bulk: "" = ok, else what is wrong
	counts  []int
}

func oneShotReader(docs []string) func() ([]byte, error) {
	i := 0
	return func() ([]byte, error) {
		if i >= len(docs) {
			return nil, nil
		}
		i++
		return []byte(docs[i-1]), nil
	}
}

func (c *nestClient) StoreDocuments(ctx context.Context, count int, docs, metas []byte) error {
	me := c.level
	// this call stays in flight while the next bulk goes through the same Ingestor
	if me+1 < len(c.bulks) {
		c.level++
		if _, err := c.ing.ProcessDocuments(ctx, time.Now(), oneShotReader(c.bulks[me+1])); err != nil {
			c.results[me+1] = "nested bulk failed: " + err.Error()
		}
	}
	// now consume what was handed over
	c.counts[me] = count
	raw, err := func() (b []byte, err error) {
		defer func() {
			if p := recover(); p != nil {
				err = fmt.Errorf("%v", p)
			}
		}()
		return disk.DocBlock(docs).DecompressTo(nil)
	}()
	if err != nil {
		c.results[me] = "docs block does not decompress: " + err.Error()
		return nil
	}
	got, ok := decodePayload(raw)
	if !ok || len(got) != len(c.bulks[me]) {
		c.results[me] = fmt.Sprintf("docs block holds %d documents, the bulk had %d", len(got), len(c.bulks[me]))
		return nil
	}
	for i, d := range got {
		if string(d) != c.bulks[me][i] {
			c.results[me] = fmt.Sprintf("document %d is %q, the bulk sent %q", i, d, c.bulks[me][i])
			return nil
		}
	}
	if ms, err := decodeMetasFull(metas); err != nil || len(ms) != len(c.bulks[me]) {
		c.results[me] = fmt.Sprintf("metas block: %v, %d metas for %d documents", err, len(ms), len(c.bulks[me]))
	} else {
		for i, m := range ms {
			if int(m.Size) != len(c.bulks[me][i]) {
				c.results[me] = fmt.Sprintf("meta %d has size %d, the document has %d bytes", i, m.Size, len(c.bulks[me][i]))
				break
			}
		}
	}
	return nil
}

func overlapCase(depth int, seed int64, orc *vh.Oracle, rep *vh.Report) {
	r := vh.NewRNG(seed)
	c := &nestClient{results: make([]string, depth), counts: make([]int, depth)}
	for b := 0; b < depth; b++ {
		var docs []string
		for i := 1 + r.Intn(6); i > 0; i-- {
			docs = append(docs, fmt.Sprintf(`{"k":"bulk%d-doc%d","message":"%s"}`, b, i, strings.Repeat("Payload ", 1+r.Intn(40))))
		}
		c.bulks = append(c.bulks, docs)
	}
	c.ing = newIngestorInflight(c, 1<<20, depth+2)
	line := fmt.Sprintf("overlap %d %d", depth, seed)
	_, err := c.ing.ProcessDocuments(context.Background(), time.Now(), oneShotReader(c.bulks[0]))
	c.ing.Stop()
	orc.Case(line, depth > 1, fmt.Sprintf("depth=%d", depth))
	if err != nil {
		orc.Error = "overlap: " + err.Error()
		return
	}
	for b, res := range c.results {
		if res != "" {
			violate(rep, vh.Violation{Site: "proxy/bulk/ingestor.go:ProcessDocuments", Class: "blocks-overwritten-by-overlapping-bulk",
				What:   fmt.Sprintf("%d overlapping bulks through one Ingestor (each store call in flight while the next bulk is processed): when the call of bulk %d consumes its blocks: %s", depth, b, res),
				Replay: []string{line}})
			return
		}
	}
}

func parseOverlap(l string) (int, int64, bool) {
	var d int
	var s int64
	if n, _ := fmt.Sscanf(l, "overlap %d %d", &d, &s); n != 2 || d < 1 || d > 64 {
		return 0, 0, false
	}
	return d, s, true
}

// ---------------------------------------------------------------- seq.NewID

func newIDCase(tNs int64, draws []uint64, idx uint64, ch *vh.Channel, orc *vh.Oracle, rep *vh.Report) {
	t := time.Unix(0, tNs).UTC()
	seen := map[seq.RID]uint64{}
	var hexs []string
	for _, d := range draws {
		hexs = append(hexs, fmt.Sprintf("%x", d))
	}
	line := fmt.Sprintf("newid %d %d %s", tNs, idx, strings.Join(hexs, ","))
	orc.Case(line, len(draws) > 1, fmt.Sprintf("draws=%d", min(len(draws), 64)))
	for _, d := range draws {
		id := seq.NewID(t, (d<<16)+idx) // what processor.Process passes
		ch.Add(fmt.Sprintf("bulk.newid %d %d %d", tNs, d, idx), fmt.Sprintf("ok %d %d", uint64(id.MID), uint64(id.RID)), d != 0, "newid")
		if prev, dup := seen[id.RID]; dup && prev&(1<<48-1) != d&(1<<48-1) {
			violate(rep, vh.Violation{Site: "seq/seq.go:NewID", Class: "distinct-randomness-same-id",
				What: fmt.Sprintf("two documents of the same instant (%s) with different random draws %x and %x (ingestor index %d) get the same ID %d/%d: only the first is ever readable",
					t.Format(time.RFC3339Nano), prev, d, idx, uint64(id.MID), uint64(id.RID)),
				Replay: []string{fmt.Sprintf("newid %d %d %x,%x", tNs, idx, prev, d)}})
			return
		}
		seen[id.RID] = d
	}
}

func parseNewID(l string) (tNs int64, idx uint64, draws []uint64, ok bool) {
	f := strings.Fields(l)
	if len(f) != 4 || f[0] != "newid" {
		return
	}
	fmt.Sscanf(f[1], "%d", &tNs)
	fmt.Sscanf(f[2], "%d", &idx)
	for _, x := range strings.Split(f[3], ",") {
		var d uint64
		if _, err := fmt.Sscanf(x, "%x", &d); err != nil {
			return
		}
		draws = append(draws, d)
	}
	return tNs, idx, draws, true
}

func runNewID(ch *vh.Channel, orc *vh.Oracle, rep *vh.Report, r *vh.RNG, o vh.Opts) {
	base := time.Date(2026, 9, 25, 12, 0, 0, 0, time.UTC).UnixNano()
	for _, sub := range []int64{0, 1, 999_999, 123_456, 500_000} {
		// draws that differ only in one bit, every bit position of the 48 effective bits (and the 16 that are shifted out)
		var draws []uint64
		lowBits := r.U64() & (1<<28 - 1)
		draws = append(draws, lowBits)
		for bit := 0; bit < 64; bit++ {
			draws = append(draws, lowBits^(1<<bit))
		}
		newIDCase(base+sub, draws, uint64(r.Intn(1024)), ch, orc, rep)
		// a run of draws that differ only in bits 28..47
		draws = nil
		for k := 0; k < o.Pick(200, 5000); k++ {
			draws = append(draws, lowBits|uint64(k)<<28)
		}
		newIDCase(base+sub, draws, uint64(r.Intn(1024)), ch, orc, rep)
	}
	// random draws, random instants
	for i := 0; i < o.Pick(20, 300); i++ {
		var draws []uint64
		for k := 0; k < 50; k++ {
			draws = append(draws, r.U64())
		}
		newIDCase(base+int64(r.Intn(1_000_000_000)), draws, uint64(r.Intn(1024)), ch, orc, rep)
	}
}

// bigTimelessBulk (thorough): one bulk of n documents without a time field through the real Ingestor: every
// document gets the same receive time, so the IDs differ only by their random part; all must be distinct (a second
// document with an ID already present can never be read back).
func bigTimelessBulk(n int, orc *vh.Oracle, rep *vh.Report) {
	fc := &fullCapture{}
	ing := newIngestor(fc, 1<<20)
	defer ing.Stop()
	i := 0
	cnt, err := ing.ProcessDocuments(context.Background(), time.Now(), func() ([]byte, error) {
		if i >= n {
			return nil, nil
		}
		i++
		return []byte(fmt.Sprintf(`{"k":"%d"}`, i)), nil
	})
	line := fmt.Sprintf("timeless %d", n)
	orc.Case(line, true, "big-timeless-bulk")
	if err != nil || cnt != n || len(fc.metas) != n {
		violate(rep, vh.Violation{Site: "proxy/bulk/ingestor.go:ProcessDocuments", Class: "big-bulk-not-stored",
			What: fmt.Sprintf("bulk of %d documents: err=%v items=%d metas=%d", n, err, cnt, len(fc.metas)), Replay: []string{line}})
		return
	}
	seen := map[seq.ID]int{}
	dups := 0
	first := ""
	for j, m := range fc.metas {
		if k, dup := seen[m.ID]; dup {
			dups++
			if first == "" {
				first = fmt.Sprintf("documents %d and %d share ID %d/%s", k, j, uint64(m.ID.MID), hex.EncodeToString([]byte(fmt.Sprint(uint64(m.ID.RID)))))
			}
		}
		seen[m.ID] = j
	}
	if dups > 0 {
		violate(rep, vh.Violation{Site: "seq/seq.go:NewID", Class: "id-collision-within-bulk",
			What:   fmt.Sprintf("one bulk of %d documents without a time field, all reported created: %d of them got an ID another document already has and can never be read back (%s)", n, dups, first),
			Replay: []string{line}})
	}
}
