// Configuration path and per-line verdicts of C10.
//
//	bulk.defaults  (channel) proxyapi.IngestorConfig.setDefaults vs SV.Bulk.setDefaults, drifts from {0, 1ms, 1h, 24h, huge}^2
//	bulk.config    (oracle)  the real proxyapi.NewIngestor (config -> setDefaults -> bulk ingestor -> gRPC bulk client) in front of
//	               a recording gRPC store: the ID times of stored documents must follow the rule with the CONFIGURED drifts,
//	               0 included
//	bulk.lines     (oracle)  processor.Process's verdict on a document line (object / skipped / bulk fails) must be the decoder's
//	               verdict on the whole line, whatever byte the line starts with; and a bulk holding such a line between two
//	               valid documents through the real handler
package main

import (
	"context"
	"encoding/hex"
	"encoding/json"
	"fmt"
	"net"
	"net/http"
	"net/http/httptest"
	"strings"
	"sync"
	"time"

	"google.golang.org/grpc"
	"google.golang.org/protobuf/types/known/emptypb"

	"github.com/ozontech/seq-db/disk"
	"github.com/ozontech/seq-db/mappingprovider"
	"github.com/ozontech/seq-db/pkg/storeapi"
	"github.com/ozontech/seq-db/proxy/bulk"
	"github.com/ozontech/seq-db/proxy/search"
	"github.com/ozontech/seq-db/proxy/stores"
	"github.com/ozontech/seq-db/proxyapi"
	"github.com/ozontech/seq-db/seq"

	"verifharness/internal/vh"
)

// ---------------------------------------------------------------- setDefaults

var driftValues = []time.Duration{0, time.Millisecond, time.Hour, 24 * time.Hour, 1<<62 - 1}

func runDefaultsChannel(ch *vh.Channel, orc *vh.Oracle, rep *vh.Report) {
	for _, st := range []time.Duration{0, 5 * time.Second} {
		for _, mi := range []int{0, 7} {
			for _, d := range driftValues {
				for _, f := range driftValues {
					cfg := proxyapi.IngestorConfig{API: proxyapi.APIConfig{SearchTimeout: st, ExportTimeout: st},
						Bulk: bulk.IngestorConfig{MaxInflightBulks: mi, AllowedTimeDrift: d, FutureAllowedTimeDrift: f}}
					gst, get, b := proxyapi.VerifBulkConfigAfterDefaults(cfg)
					line := fmt.Sprintf("bulk.defaults %d %d %d %d %d", int64(st), int64(st), mi, int64(d), int64(f))
					ch.Add(line, fmt.Sprintf("ok %d %d %d %d %d", int64(gst), int64(get), b.MaxInflightBulks, int64(b.AllowedTimeDrift), int64(b.FutureAllowedTimeDrift)),
						d == 0 || f == 0, fmt.Sprintf("zero-drift=%v", d == 0 || f == 0))
					orc.Case("cfgdefaults "+line, d == 0 || f == 0, "effective-config")
					if b.AllowedTimeDrift != d || b.FutureAllowedTimeDrift != f {
						violate(rep, vh.Violation{Site: "proxyapi/ingestor_config.go:setDefaults", Class: "configured-drift-replaced",
							What:   fmt.Sprintf("configured drifts %s / %s become %s / %s", d, f, b.AllowedTimeDrift, b.FutureAllowedTimeDrift),
							Replay: []string{fmt.Sprintf("cfgcase %d %d %d 1", int64(d), int64(f), int64(time.Hour))}})
					}
				}
			}
		}
	}
}

// ---------------------------------------------------------------- the real proxy in front of a recording store

type recStore struct {
	storeapi.UnimplementedStoreApiServer
	mu    sync.Mutex
	metas [][]byte // metas blocks of the Bulk requests
	docs  [][]byte // docs blocks
}

func (s *recStore) Bulk(_ context.Context, req *storeapi.BulkRequest) (*emptypb.Empty, error) {
	s.mu.Lock()
	s.metas = append(s.metas, append([]byte(nil), req.Metas...))
	s.docs = append(s.docs, append([]byte(nil), req.Docs...))
	s.mu.Unlock()
	return &emptypb.Empty{}, nil
}

var (
	recOnce sync.Once
	recSrv  *recStore
	recAddr string
	recErr  error
	proxies = map[string]*proxyapi.Ingestor{}
)

func recordingStore() (*recStore, string, error) {
	recOnce.Do(func() {
		lis, err := net.Listen("tcp", "127.0.0.1:0")
		if err != nil {
			recErr = err
			return
		}
		recSrv = &recStore{}
		srv := grpc.NewServer()
		storeapi.RegisterStoreApiServer(srv, recSrv)
		go func() { _ = srv.Serve(lis) }()
		recAddr = lis.Addr().String()
	})
	return recSrv, recAddr, recErr
}

// proxyFor builds the proxy the way cmd/seq-db does: proxyapi.NewIngestor from a config with the given drifts.
func proxyFor(drift, fut time.Duration) (*proxyapi.Ingestor, error) {
	return proxyForSize(drift, fut, 1<<17)
}

func proxyForSize(drift, fut time.Duration, maxDoc int) (*proxyapi.Ingestor, error) {
	key := fmt.Sprintf("%d/%d/%d", drift, fut, maxDoc)
	if p, ok := proxies[key]; ok {
		return p, nil
	}
	_, addr, err := recordingStore()
	if err != nil {
		return nil, err
	}
	mp, err := mappingprovider.New("", mappingprovider.WithMapping(seq.Mapping{"k": seq.NewSingleType(seq.TokenizerTypeKeyword, "", 0)}))
	if err != nil {
		return nil, err
	}
	hot := stores.NewStoresFromString(addr, 1)
	none := stores.NewStoresFromString("", 1)
	p, err := proxyapi.NewIngestor(proxyapi.IngestorConfig{
		API:    proxyapi.APIConfig{SearchTimeout: time.Second, ExportTimeout: time.Second, GatewayAddr: "127.0.0.1:1"},
		Search: search.Config{HotStores: hot, ReadStores: none, WriteStores: none},
		Bulk: bulk.IngestorConfig{HotStores: hot, WriteStores: none, MaxInflightBulks: 4, AllowedTimeDrift: drift, FutureAllowedTimeDrift: fut,
			MappingProvider: mp, MaxTokenSize: 1024, DocsZSTDCompressLevel: 1, MetasZSTDCompressLevel: 1, MaxDocumentSize: maxDoc},
	}, nil)
	if err != nil {
		return nil, err
	}
	proxies[key] = p
	return p, nil
}

// cfgCase: one document whose own time is `off` before the receive time (negative = ahead), proxy configured with
// (drift, fut); layout index as in timeLayouts.
func cfgCase(drift, fut, off time.Duration, layout int, orc *vh.Oracle, rep *vh.Report) {
	line := fmt.Sprintf("cfgcase %d %d %d %d", int64(drift), int64(fut), int64(off), layout)
	p, err := proxyFor(drift, fut)
	if err != nil {
		orc.Error = "proxy: " + err.Error()
		return
	}
	st, _, _ := recordingStore()
	st.mu.Lock()
	st.metas, st.docs = nil, nil
	st.mu.Unlock()
	h := proxyapi.VerifIngestorHTTPHandler(p) // the handler NewIngestor built, router included
	own := time.Now().Add(-off).UTC()
	text := own.Format(timeLayouts[layout])
	back, _ := time.Parse(timeLayouts[layout], text)
	body := `{"index":{}}` + "\n" + fmt.Sprintf(`{"%s":"%s","k":"v"}`, timeFieldNames[layout], text) + "\n"
	rec := httptest.NewRecorder()
	t0 := time.Now()
	h.ServeHTTP(rec, httptest.NewRequest(http.MethodPost, "/_bulk", strings.NewReader(body)))
	t1 := time.Now()
	st.mu.Lock()
	blocks := st.metas
	st.mu.Unlock()
	if rec.Code != 200 || len(blocks) != 1 {
		violate(rep, vh.Violation{Site: "proxyapi/ingestor.go:NewIngestor", Class: "valid-bulk-not-stored",
			What: fmt.Sprintf("status %d, %d bulk requests reached the store: %s", rec.Code, len(blocks), rec.Body.String()), Replay: []string{line}})
		return
	}
	ms, err := decodeMetasFull(blocks[0])
	if err != nil || len(ms) != 1 {
		orc.Error = fmt.Sprintf("recorded metas: %v (%d)", err, len(ms))
		return
	}
	mid := uint64(ms[0].ID.MID)
	// margin: the receive time lies in [t0,t1]; only judge offsets that are on the same side of the limit for both
	lo, hi := t0.Sub(back), t1.Sub(back) // request - document, bounds
	within := func(d time.Duration) bool { return d >= -fut && d <= drift }
	if within(lo) != within(hi) {
		return
	}
	cat := "receive-time"
	ok := mid >= uint64(t0.UnixMilli()) && mid <= uint64(t1.UnixMilli())
	if within(lo) {
		cat = "own-time"
		ok = mid == uint64(back.UnixMilli())
	}
	orc.Case(line, drift == 0 || fut == 0, cat, fmt.Sprintf("zero-drift=%v", drift == 0 || fut == 0))
	if !ok {
		violate(rep, vh.Violation{Site: "proxyapi/ingestor_config.go:setDefaults", Class: "configured-drift-not-effective",
			What: fmt.Sprintf("proxy configured with drifts %s / %s: a document %s from the receive time (%s) got MID %d; the rule gives the %s (own %d, received within [%d,%d])",
				drift, fut, off, text, mid, cat, back.UnixMilli(), t0.UnixMilli(), t1.UnixMilli()), Replay: []string{line}})
	}
}

func parseCfgCase(l string) (drift, fut, off time.Duration, layout int, ok bool) {
	f := strings.Fields(l)
	if len(f) != 5 || f[0] != "cfgcase" {
		return
	}
	var a, b, c int64
	fmt.Sscanf(f[1], "%d", &a)
	fmt.Sscanf(f[2], "%d", &b)
	fmt.Sscanf(f[3], "%d", &c)
	fmt.Sscanf(f[4], "%d", &layout)
	if layout < 0 || layout > 2 {
		return
	}
	return time.Duration(a), time.Duration(b), time.Duration(c), layout, true
}

func runConfigOracle(orc *vh.Oracle, rep *vh.Report, r *vh.RNG, o vh.Opts) {
	offs := []time.Duration{time.Hour, -time.Minute, 10 * time.Second, -10 * time.Second, 30 * time.Minute, 3 * time.Hour, -3 * time.Hour, 48 * time.Hour, 0}
	for _, d := range driftValues {
		for _, f := range driftValues {
			if !o.Thorough() && d != 0 && f != 0 && r.Chance(1, 2) {
				continue
			}
			for i, off := range offs {
				cfgCase(d, f, off, (i+int(d%3))%3, orc, rep)
			}
		}
	}
}

// ---------------------------------------------------------------- per-line verdicts

var linePrefixes = []string{`[`, `"`, `-`, `0`, `7`, `12`, `t`, `f`, `n`, `{`, `}`, `x`, ` `, "\t", `+`, `.`, `]`, `:`, `,`, `'`}
var lineBodies = []string{``, `1,`, `1, 2`, `"a"] trail`, `abc`, `unterminated`, `x`, `rue`, `ru`, `rueish`, `alse`, `als`, `ull`, `ul`, `ull x`, `.`, `e`, `.5`, `e5`, `2x`, `abc`,
	`]`, `]]`, `1]`, `1,]`, `"a":1}`, `"a":1`, `"a":}`, `}`, `} x`, `"a":1} x`, `"a":01}`, `"a":tru}`, `"a":1,}`, `"`, `" "b"`, `\x"`, ` [1]`, `{}`, `[{"k":"v"}]`}

func genLines(r *vh.RNG, n int) []string {
	fixed := []string{`[1,`, `[1, 2`, `["a"] trail`, `"abc`, `"unterminated`, `-`, `tru`, `nul`, `truth`, `12x`, `12abc`, `1.`, `1e`, `-x`, `[`, `[]]`, `"a" "b"`,
		`null x`, `falsey`, `0123`, `1 2`, `[1,]`, `nan`, `+1`, `.5`, `{"a":1} x`, `{"a":01}`, `{"a":tru}`, `{"a":1,}`, `{"a":nul}`, `{"a":1}{"b":2}`, `{'a':1}`,
		`1`, `"s"`, `[1]`, `null`, `true`, `false`, `-0.5`, ` [1]`, `[]`, `""`, `0`, `{}`, `{"k":"v"}`, ` {"k":"v"}`, `{`, `{"a":`, `hello`, `}`}
	seen := map[string]bool{}
	var out []string
	add := func(s string) {
		if s != "" && !seen[s] && !strings.ContainsAny(s, "\n") {
			seen[s] = true
			out = append(out, s)
		}
	}
	for _, s := range fixed {
		add(s)
	}
	for _, p := range linePrefixes {
		for _, b := range lineBodies {
			add(p + b)
		}
	}
	for i := 0; i < n; i++ {
		add(linePrefixes[r.Intn(len(linePrefixes))] + lineBodies[r.Intn(len(lineBodies))] + lineBodies[r.Intn(len(lineBodies))])
	}
	return out
}

func startClass(s string) string {
	t := strings.TrimLeft(s, " \t\r")
	if t == "" {
		return "start=blank"
	}
	switch c := t[0]; {
	case c == '{':
		return "start={"
	case c == '[':
		return "start=["
	case c == '"':
		return "start=string"
	case c == '-' || (c >= '0' && c <= '9'):
		return "start=number"
	case c == 't' || c == 'f' || c == 'n':
		return "start=literal"
	}
	return "start=other"
}

// rfcKind: what the property demands for a line, by RFC 8259 validity of the whole line (encoding/json.Valid):
// 0 = valid JSON object (stored), 1 = valid JSON of another type (skipped), 2 = not valid JSON (the bulk is rejected).
func rfcKind(doc []byte) int {
	if !json.Valid(doc) {
		return 2
	}
	t := strings.TrimLeft(string(doc), " \t\r\n")
	if strings.HasPrefix(t, "{") {
		return 0
	}
	return 1
}

var verdictNames = []string{"stored", "skipped", "bulk-rejected"}

const (
	lenientSite  = "proxy/bulk/processor.go:Process"
	lenientClass = "invalid-json-accepted-by-lenient-decoder"
)

// reportLenient: the code's decoder (insane-json) accepts a line that is not valid JSON.  One narrow signature for
// every such line, whichever path saw it.
func reportLenient(rep *vh.Report, doc []byte, decoder int) {
	violate(rep, vh.Violation{Site: lenientSite, Class: lenientClass,
		What: fmt.Sprintf("line %q is not valid JSON (RFC 8259, encoding/json.Valid): the request must be rejected, but the decoder accepts it and the line is %s",
			doc, verdictNames[decoder]), Replay: []string{"line " + hex.EncodeToString(doc)}})
}

// lineCase: the property's verdict on a line is its RFC 8259 validity.  Process must (1) decide by the decoder's
// verdict on the whole line - otherwise `line-verdict-not-by-validity` - and (2) that verdict must be the RFC one -
// where the decoder is more lenient the narrow `invalid-json-accepted-by-lenient-decoder` is reported (a decoder
// that rejects valid JSON is `valid-json-rejected-by-decoder`).  The same line then goes between two valid
// documents through the real handler; for a lenient line the bulk is held to the decoder's verdict so that
// everything else (bytes, counts, store calls) is still checked.
func lineCase(line string, chProc *vh.Channel, orc, orcProp *vh.Oracle, rep *vh.Report) {
	doc := []byte(line)
	rfc := rfcKind(doc)
	dec := bulk.VerifJSONKind(doc)
	got := bulk.VerifProcessKind(doc)
	tags := []string{startClass(line), "rfc=" + verdictNames[rfc]}
	if dec != rfc {
		tags = append(tags, "decoder-differs-from-rfc")
	}
	replay := "line " + hex.EncodeToString(doc)
	orc.Case(replay, rfc == 2 && startClass(line) != "start={" && startClass(line) != "start=other", tags...)
	switch {
	case got != dec:
		violate(rep, vh.Violation{Site: "proxy/bulk/processor.go:Process", Class: "line-verdict-not-by-validity",
			What:   fmt.Sprintf("line %q: Process says %s, the JSON decoder on the whole line says %s, RFC 8259 validity says %s", line, verdictNames[got], verdictNames[dec], verdictNames[rfc]),
			Replay: []string{replay}})
	case dec != rfc && rfc == 2:
		reportLenient(rep, doc, dec)
	case dec != rfc:
		violate(rep, vh.Violation{Site: "proxy/bulk/processor.go:Process", Class: "valid-json-rejected-by-decoder",
			What: fmt.Sprintf("line %q is valid JSON (%s by the property) but the decoder's verdict is %s", line, verdictNames[rfc], verdictNames[dec]), Replay: []string{replay}})
	}
	// handler level: judged by RFC validity, except that a line already reported above under its own signature is
	// held to the verdict the code is known to give it
	hold := rfc
	if got == dec && dec != rfc {
		hold = dec
	}
	kind := []docKind{dObject, dNonObject, dInvalid}[hold]
	e0 := entry{action: `{"index":{}}`, aterm: "\n", term: "\n", doc: `{"k":"before"}`, tcat: tNone}
	e1 := entry{action: `{"index":{}}`, aterm: "\n", term: "\n", doc: line, kind: kind, tcat: tUnknown}
	e2 := entry{action: `{"create":{}}`, aterm: "\n", term: "\n", doc: `{"k":"after"}`, tcat: tNone}
	g := genBody{entries: []entry{e0, e1, e2}}
	for _, e := range g.entries {
		g.body = append(g.body, []byte(e.action+e.aterm+e.doc+e.term)...)
	}
	c := reqCase{B: 4096, body: g.body}
	res := procCase(chProc, c, "line-between-documents", startClass(line))
	checkProperty(g, c, res, orcProp, rep)
}

// ---------------------------------------------------------------- the configured size limit

// sizeCase: proxy built by the real NewIngestor with --max-document-size = limit; one bulk [before, document of n
// bytes, after] through the handler NewIngestor built.  A line of n bytes ending in "\n" is within the limit iff
// n + 1 <= max(limit, 16) (the reader's buffer is the limit; bufio's minimum is 16): in-limit => stored verbatim
// and counted, over-size => skipped, neighbours stored, not counted.
func sizeCase(limit, n int, orc *vh.Oracle, rep *vh.Report) {
	line := fmt.Sprintf("sizecase %d %d", limit, n)
	p, err := proxyForSize(24*time.Hour, time.Hour, limit)
	if err != nil {
		orc.Error = "proxy: " + err.Error()
		return
	}
	st, _, _ := recordingStore()
	st.mu.Lock()
	st.metas, st.docs = nil, nil
	st.mu.Unlock()
	h := proxyapi.VerifIngestorHTTPHandler(p)
	proxyapi.VerifResetReaderPool() // pooled readers keep the buffer of the handler that created them; one size per process in production
	head := `{"k":"mid","p":"`
	if n < len(head)+2 {
		return
	}
	mid := head + strings.Repeat("y", n-len(head)-2) + `"}`
	before, after := `{"k":"b"}`, `{"k":"a"}`
	body := "{\"index\":{}}\n" + before + "\n{\"index\":{}}\n" + mid + "\n{\"index\":{}}\n" + after + "\n"
	rec := httptest.NewRecorder()
	h.ServeHTTP(rec, httptest.NewRequest(http.MethodPost, "/_bulk", strings.NewReader(body)))
	want := []string{before, after}
	inLimit := n+1 <= bufSize(limit)
	if inLimit {
		want = []string{before, mid, after}
	}
	orc.Case(line, !inLimit, fmt.Sprintf("limit=%d", limit), fmt.Sprintf("in-limit=%v", inLimit))
	site := "proxyapi/ingestor.go:NewIngestor"
	st.mu.Lock()
	blocks := st.docs
	st.mu.Unlock()
	var r struct {
		Items []json.RawMessage `json:"items"`
	}
	if rec.Code != 200 || json.Unmarshal(rec.Body.Bytes(), &r) != nil || len(blocks) != 1 {
		violate(rep, vh.Violation{Site: site, Class: "valid-bulk-not-stored",
			What: fmt.Sprintf("--max-document-size=%d, document of %d bytes between two small ones: status %d, %d bulk requests reached the store", limit, n, rec.Code, len(blocks)), Replay: []string{line}})
		return
	}
	raw, derr := disk.DocBlock(blocks[0]).DecompressTo(nil)
	got, ok := decodePayload(raw)
	same := derr == nil && ok && len(got) == len(want)
	for i := 0; same && i < len(want); i++ {
		same = string(got[i]) == want[i]
	}
	if !same || len(r.Items) != len(want) {
		what := "stored and reported as created although it is over the configured limit"
		if inLimit {
			what = "not stored verbatim although it is within the configured limit"
		}
		violate(rep, vh.Violation{Site: site, Class: "configured-size-limit-not-effective",
			What:   fmt.Sprintf("proxy configured with --max-document-size=%d: a document line of %d bytes is %s (%d documents stored, %d items; expected %d)", limit, n, what, len(got), len(r.Items), len(want)),
			Replay: []string{line}})
	}
}

func runSizeOracle(orc *vh.Oracle, rep *vh.Report) {
	for _, limit := range []int{512, 2048, 8192, 16384, 16385, 128 << 10} {
		seen := map[int]bool{}
		for _, n := range []int{limit - 2, limit - 1, limit, limit + 1, 2 * limit, 16<<10 - 1, 16 << 10, 16<<10 + 1, 100} {
			if !seen[n] && n > 0 {
				seen[n] = true
				sizeCase(limit, n, orc, rep)
			}
		}
	}
}
