// Channel bulk.index: the metas (ID time, size, tokens; parent + nested) the real Ingestor stores for one document vs
// SV.Bulk.metasFor (time rule + SV.BulkIndex.indexDoc, whose per-field step is C11's SV.Tok.indexField) on the tree
// insane-json presents to the indexer.
package main

import (
	"context"
	"encoding/hex"
	"encoding/json"
	"fmt"
	"sort"
	"strings"
	"time"
	"unicode"
	"unicode/utf8"

	"github.com/ozontech/seq-db/consts"
	"github.com/ozontech/seq-db/disk"
	"github.com/ozontech/seq-db/frac"
	"github.com/ozontech/seq-db/mappingprovider"
	"github.com/ozontech/seq-db/packer"
	"github.com/ozontech/seq-db/proxy/bulk"
	"github.com/ozontech/seq-db/seq"

	"verifharness/internal/vh"
)

// trunes annotates the runes of value as utf8.DecodeRune sees them (format of the C11 driver).
func trunes(value []byte) string {
	if len(value) == 0 {
		return "-"
	}
	var parts []string
	for i := 0; i < len(value); {
		r, size := utf8.DecodeRune(value[i:])
		l1 := unicode.ToLower(r)
		l2 := unicode.ToLower(l1)
		parts = append(parts, fmt.Sprintf("%s/%d/%s%s%s%s/%d!%s!%s", hex.EncodeToString(value[i:i+size]), r,
			vh.B(unicode.IsLetter(r)), vh.B(unicode.IsNumber(r)), vh.B(unicode.IsDigit(r)), vh.B(unicode.IsSpace(r)), l1,
			hex.EncodeToString(utf8.AppendRune(nil, l1)), hex.EncodeToString(utf8.AppendRune(nil, l2))))
		i += size
	}
	return strings.Join(parts, ".")
}

func treeS(n *bulk.VerifNode, out *[]string) {
	*out = append(*out, fmt.Sprintf("%s~%s~%c~%d~%d", vh.Hex(n.AsBytes), trunes(n.Enc), n.Shape, len(n.Fields), len(n.Items)))
	for i, f := range n.Fields {
		*out = append(*out, vh.Hex(n.Names[i]))
		treeS(f, out)
	}
	for _, it := range n.Items {
		treeS(it, out)
	}
}

func single(t seq.TokenizerType, max int) seq.MappingTypes { return seq.NewSingleType(t, "", max) }

var indexMapping = seq.Mapping{
	"k":       single(seq.TokenizerTypeKeyword, 0),
	"message": single(seq.TokenizerTypeText, 0),
	"path":    single(seq.TokenizerTypePath, 0),
	"ex":      single(seq.TokenizerTypeExists, 0),
	"short":   single(seq.TokenizerTypeKeyword, 6),
	"multi": {Main: seq.MappingType{Title: "multi", TokenizerType: seq.TokenizerTypeKeyword},
		All: []seq.MappingType{{Title: "multi", TokenizerType: seq.TokenizerTypeKeyword}, {Title: "multi.text", TokenizerType: seq.TokenizerTypeText, MaxSize: 40}, {Title: "multi.path", TokenizerType: seq.TokenizerTypePath}}},
	"obj":               single(seq.TokenizerTypeObject, 0),
	"obj.a":             single(seq.TokenizerTypeKeyword, 0),
	"obj.b":             single(seq.TokenizerTypeText, 0),
	"obj.deep":          single(seq.TokenizerTypeObject, 0),
	"obj.deep.x":        single(seq.TokenizerTypeKeyword, 0),
	"tags":              single(seq.TokenizerTypeTags, 0),
	"tags.env":          single(seq.TokenizerTypeKeyword, 0),
	"tags.msg":          single(seq.TokenizerTypeText, 0),
	"tags.":             single(seq.TokenizerTypeKeyword, 0),
	"spans":             single(seq.TokenizerTypeNested, 0),
	"spans.id":          single(seq.TokenizerTypeKeyword, 0),
	"spans.op":          single(seq.TokenizerTypeText, 0),
	"spans.tags":        single(seq.TokenizerTypeTags, 0),
	"spans.tags.zone":   single(seq.TokenizerTypeKeyword, 0),
	"spans.proc":        single(seq.TokenizerTypeObject, 0),
	"spans.proc.name":   single(seq.TokenizerTypeKeyword, 0),
	"spans.inner":       single(seq.TokenizerTypeNested, 0),
	"spans.inner.v":     single(seq.TokenizerTypeKeyword, 0),
	"spans2":            single(seq.TokenizerTypeNested, 0),
	"spans2.id":         single(seq.TokenizerTypeKeyword, 0),
	"timestamp":         single(seq.TokenizerTypeKeyword, 0),
	"obj.deep.x.nomore": single(seq.TokenizerTypeKeyword, 0),
}

func mappingS(m seq.Mapping) string {
	keys := make([]string, 0, len(m))
	for k := range m {
		keys = append(keys, k)
	}
	sort.Strings(keys)
	var es []string
	for _, k := range keys {
		mt := m[k]
		main := "l"
		switch mt.Main.TokenizerType {
		case seq.TokenizerTypeNoop:
			main = "x"
		case seq.TokenizerTypeObject:
			main = "o"
		case seq.TokenizerTypeTags:
			main = "g"
		case seq.TokenizerTypeNested:
			main = "n"
		}
		var all []string
		for _, t := range mt.All {
			tt := "o"
			switch t.TokenizerType {
			case seq.TokenizerTypeKeyword:
				tt = "k"
			case seq.TokenizerTypeText:
				tt = "t"
			case seq.TokenizerTypePath:
				tt = "p"
			case seq.TokenizerTypeExists:
				tt = "e"
			}
			all = append(all, fmt.Sprintf("%s/%s/%d", vh.Hex([]byte(t.Title)), tt, t.MaxSize))
		}
		es = append(es, fmt.Sprintf("%s=%s:%s", vh.Hex([]byte(k)), main, vh.JoinStrs(all, "+")))
	}
	return strings.Join(es, ",")
}

// ---- document generator for the index side

var strPool = []string{"", "v", "Hello World", "MiXeD/Case/PATH.log", "/var/LOG/app", "Ünï ✓ 日本 ǅ İ", "a b  c", "x*y_z-1", "UPPER lower 123",
	"toolongvalue-toolongvalue-toolongvalue-toolongvalue", "esc \" \\ \n\t é", "/", "//a//b/", "İstanbul ẞ"}

func jstr(s string) string {
	b, _ := json.Marshal(s)
	return string(b)
}

func genScalar(r *vh.RNG) string {
	switch r.Intn(9) {
	case 0:
		return "null"
	case 1:
		return "true"
	case 2:
		return "-12.5e3"
	case 3:
		return "[1,\"A\",{\"B\":null}]"
	case 4:
		return `{"Inner":"V"}`
	default:
		return jstr(strPool[r.Intn(len(strPool))])
	}
}

func genTag(r *vh.RNG) string {
	switch r.Intn(7) {
	case 0:
		return `{"key":"env"}` // no value: only _exists_
	case 1:
		return `{"value":"orphan"}` // no key
	case 2:
		return `"not an object"`
	case 3:
		return `{"key":"unknown","value":"u"}`
	default:
		return fmt.Sprintf(`{"key":%s,"value":%s}`, jstr([]string{"env", "msg", "zone"}[r.Intn(3)]), genScalar(r))
	}
}

func genList(r *vh.RNG, n int, f func() string) string {
	var xs []string
	for i := r.Intn(n + 1); i > 0; i-- {
		xs = append(xs, f())
	}
	return "[" + strings.Join(xs, ",") + "]"
}

func genSpan(r *vh.RNG, depth int) string {
	if r.Chance(1, 8) {
		return genScalar(r) // a nested element that is not an object
	}
	var fs []string
	if r.Bool() {
		fs = append(fs, `"id":`+genScalar(r))
	}
	if r.Bool() {
		fs = append(fs, `"op":`+jstr(strPool[r.Intn(len(strPool))]))
	}
	if r.Chance(1, 3) {
		fs = append(fs, `"tags":`+genList(r, 2, func() string { return genTag(r) }))
	}
	if r.Chance(1, 3) {
		fs = append(fs, `"proc":{"name":`+genScalar(r)+`,"other":1}`)
	}
	if depth > 0 && r.Chance(1, 3) {
		fs = append(fs, `"inner":`+genList(r, 2, func() string { return `{"v":` + genScalar(r) + `}` }))
	}
	if r.Chance(1, 4) {
		fs = append(fs, `"unmapped":"x"`)
	}
	return "{" + strings.Join(fs, ",") + "}"
}

func genIndexDoc(r *vh.RNG, withTime string) string {
	var fs []string
	if withTime != "" {
		fs = append(fs, withTime)
	}
	add := func(p int, f func() string) {
		if r.Chance(p, 10) {
			fs = append(fs, f())
		}
	}
	add(5, func() string { return `"k":` + genScalar(r) })
	add(5, func() string { return `"message":` + genScalar(r) })
	add(4, func() string { return `"path":` + genScalar(r) })
	add(2, func() string { return `"ex":` + genScalar(r) })
	add(3, func() string { return `"short":` + genScalar(r) })
	add(4, func() string { return `"multi":` + genScalar(r) })
	add(2, func() string { return `"unmapped":` + genScalar(r) })
	add(4, func() string {
		return `"obj":{"a":` + genScalar(r) + `,"b":` + genScalar(r) + `,"deep":{"x":` + genScalar(r) + `,"y":2},"zzz":0}`
	})
	add(1, func() string { return `"obj":"not an object"` })
	add(4, func() string { return `"tags":` + genList(r, 3, func() string { return genTag(r) }) })
	add(1, func() string { return `"tags":{"key":"env","value":"not an array"}` })
	add(5, func() string { return `"spans":` + genList(r, 3, func() string { return genSpan(r, 1) }) })
	add(2, func() string {
		return `"spans2":` + genList(r, 2, func() string { return `{"id":` + genScalar(r) + `}` })
	})
	add(1, func() string { return `"spans":"not an array"` })
	p := r.Perm(len(fs))
	out := make([]string, len(fs))
	for i, j := range p {
		out[i] = fs[j]
	}
	return "{" + strings.Join(out, ",") + "}"
}

type fullCapture struct {
	metas []frac.MetaData
	calls int
}

func (c *fullCapture) StoreDocuments(_ context.Context, _ int, _, metas []byte) error {
	c.calls++
	ms, err := decodeMetasFull(metas)
	if err == nil {
		c.metas = ms
	}
	return nil
}

func decodeMetasFull(block []byte) (res []frac.MetaData, err error) {
	defer func() {
		if p := recover(); p != nil {
			err = fmt.Errorf("metas payload cannot be decoded: %v", p)
		}
	}()
	raw, err := disk.DocBlock(block).DecompressTo(nil)
	if err != nil {
		return nil, err
	}
	u := packer.NewBytesUnpacker(raw)
	for u.Len() > 0 {
		var m frac.MetaData
		if err := m.UnmarshalBinary(u.GetBinary()); err != nil {
			return nil, err
		}
		cp := frac.MetaData{ID: m.ID, Size: m.Size}
		for _, t := range m.Tokens {
			cp.Tokens = append(cp.Tokens, frac.MetaToken{Key: append([]byte(nil), t.Key...), Value: append([]byte(nil), t.Value...)})
		}
		res = append(res, cp)
	}
	return res, nil
}

func runIndexChannel(ch *vh.Channel, orc *vh.Oracle, rep *vh.Report, r *vh.RNG, o vh.Opts) {
	n := o.Pick(250, 12000)
	var docs []string
	for i := 0; i < n; i++ {
		tf := ""
		switch r.Intn(4) {
		case 0:
			tf = `"timestamp":"2026-09-25 11:30:00.25"`
		case 1:
			tf = `"timestamp":"2031-01-01 00:00:00"`
		}
		docs = append(docs, genIndexDoc(r, tf))
	}
	runIndexCases(ch, orc, rep, r, docs)
}

// runIndexCases: each document alone through the real ingestor (random tokenizer settings) vs the model
func runIndexCases(ch *vh.Channel, orc *vh.Oracle, rep *vh.Report, r *vh.RNG, docs []string) {
	req := time.Date(2026, 9, 25, 12, 0, 0, 0, time.UTC)
	mapS := mappingS(indexMapping)
	for _, doc := range docs {
		cs, partial := r.Bool(), r.Bool()
		maxTok := []int{8, 16, 64, 1024}[r.Intn(4)]
		tree, err := bulk.VerifDocTree([]byte(doc))
		if err != nil {
			continue
		}
		mp, _ := mappingprovider.New("", mappingprovider.WithMapping(indexMapping))
		fc := &fullCapture{}
		ing := bulk.NewIngestor(bulk.IngestorConfig{
			MaxInflightBulks: 1, AllowedTimeDrift: driftPast, FutureAllowedTimeDrift: driftFuture, MappingProvider: mp,
			MaxTokenSize: maxTok, CaseSensitive: cs, PartialFieldIndexing: partial,
			DocsZSTDCompressLevel: -1, MetasZSTDCompressLevel: -1, MaxDocumentSize: 1 << 20,
		}, fc)
		sent := false
		cnt, perr := ing.ProcessDocuments(context.Background(), req, func() ([]byte, error) {
			if sent {
				return nil, nil
			}
			sent = true
			return []byte(doc), nil
		})
		ing.Stop()
		if perr != nil || fc.calls != 1 {
			violate(rep, vh.Violation{Site: "proxy/bulk/ingestor.go:ProcessDocuments", Class: "valid-object-not-stored",
				What: fmt.Sprintf("a valid object was not stored (%v): %s", perr, doc), Replay: []string{"index " + vh.Hex([]byte(doc))}})
			continue
		}
		var ms []string
		nested := 0
		for j, m := range fc.metas {
			var toks []string
			for _, t := range m.Tokens {
				toks = append(toks, vh.Hex(t.Key)+"="+vh.Hex(t.Value))
			}
			ms = append(ms, fmt.Sprintf("%d/%d/%s", uint64(m.ID.MID), m.Size, vh.JoinStrs(toks, "+")))
			if j > 0 {
				nested++
			}
		}
		docT, found, _ := bulk.VerifExtractDocTime([]byte(doc), req)
		docS := "none"
		if found {
			docS = nsOf(docT).String()
		}
		var toks []string
		treeS(tree, &toks)
		line := fmt.Sprintf("bulk.index %d %s %s %d %s %s %d %d %d %s %s", maxTok, vh.B(cs), vh.B(partial), consts.MaxTextFieldValueLength,
			docS, nsOf(req), int64(driftPast), int64(driftFuture), len(doc), mapS, strings.Join(toks, "|"))
		ch.Add(line, "ok "+strings.Join(ms, ";"), len(fc.metas[0].Tokens) > 1, fmt.Sprintf("nested=%d", min(nested, 4)), "cs="+vh.B(cs))
		// (b) created items count documents: one item, one meta with the document's size first, size-0 metas with the same ID after
		orc.Case("index "+vh.Hex([]byte(doc)), nested > 0, fmt.Sprintf("nested=%d", min(nested, 4)))
		bad := cnt != 1 || len(fc.metas) == 0 || int(fc.metas[0].Size) != len(doc)
		for j := 1; j < len(fc.metas) && !bad; j++ {
			bad = fc.metas[j].Size != 0 || fc.metas[j].ID != fc.metas[0].ID
		}
		if bad {
			violate(rep, vh.Violation{Site: "proxy/bulk/indexer.go:Index", Class: "meta-shape",
				What:   fmt.Sprintf("items=%d metas=%d for one document %s: expected 1 item, first meta of size %d, then size-0 metas with the same ID", cnt, len(fc.metas), doc, len(doc)),
				Replay: []string{"index " + vh.Hex([]byte(doc))}})
		}
	}
}
