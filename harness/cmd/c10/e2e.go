// End-to-end oracle of C10: real HTTP POST /_bulk into an in-process ingestor + store (tests/setup.TestingEnv),
// then search + fetch of what was stored.  Runs in a child process (the environment can logger.Fatal); the child
// only executes and reports observations, the parent holds the expectations and judges.
package main

import (
	"bytes"
	"compress/gzip"
	"encoding/hex"
	"encoding/json"
	"fmt"
	"io"
	"net/http"
	"os"
	"os/exec"
	"strings"
	"time"

	"go.uber.org/zap"

	"github.com/ozontech/seq-db/logger"
	"github.com/ozontech/seq-db/seq"
	"github.com/ozontech/seq-db/tests/setup"

	"verifharness/internal/vh"
)

const e2eMaxDoc = 1<<20 + 1<<10 // MaxDocumentSize of tests/setup's ingestor

type e2eDoc struct {
	Doc   string `json:"doc"`
	TCat  int    `json:"tcat"`
	OwnMs int64  `json:"own_ms"`
}

type e2eCase struct {
	Tag      string   `json:"tag"` // value of field "u" in every object document of this body
	Gz       bool     `json:"gz"`
	BodyHex  string   `json:"body"`
	Accepted bool     `json:"accepted"`
	Stored   []e2eDoc `json:"stored"`
}

type e2eFetched struct {
	MID uint64 `json:"mid"`
	Doc string `json:"doc"` // hex
}

type e2eOutcome struct {
	Status  int          `json:"status"`
	Items   int          `json:"items"`
	T0, T1  int64        // ms
	Fetched []e2eFetched `json:"fetched"`
	Total   uint64       `json:"total"`
	Err     string       `json:"err"`
}

func (c e2eCase) line() string {
	b, _ := json.Marshal(c)
	return "e2e " + string(b)
}

func parseE2ECase(l string) (e2eCase, bool) {
	if !strings.HasPrefix(l, "e2e ") {
		return e2eCase{}, false
	}
	var c e2eCase
	if json.Unmarshal([]byte(l[4:]), &c) != nil {
		return c, false
	}
	return c, true
}

// e2eChild: os.Args = [bin, "e2e-child", casesFile, outFile]
func e2eChild(casesFile, outFile string) {
	logger.SetLevel(zap.FatalLevel)
	raw, err := os.ReadFile(casesFile)
	if err != nil {
		fmt.Fprintln(os.Stderr, err)
		os.Exit(3)
	}
	var cases []e2eCase
	if err := json.Unmarshal(raw, &cases); err != nil {
		fmt.Fprintln(os.Stderr, err)
		os.Exit(3)
	}
	dir, err := os.MkdirTemp("", "c10-e2e-")
	if err != nil {
		fmt.Fprintln(os.Stderr, err)
		os.Exit(3)
	}
	defer os.RemoveAll(dir)
	env := setup.NewTestingEnv(&setup.TestingEnvConfig{Name: "c10", DataDir: dir, IngestorCount: 1, HotShards: 1, HotFactor: 1,
		Mapping: seq.Mapping{
			"u":       seq.NewSingleType(seq.TokenizerTypeKeyword, "", 0),
			"k":       seq.NewSingleType(seq.TokenizerTypeKeyword, "", 0),
			"level":   seq.NewSingleType(seq.TokenizerTypeKeyword, "", 0),
			"message": seq.NewSingleType(seq.TokenizerTypeText, "", 0),
			"path":    seq.NewSingleType(seq.TokenizerTypePath, "", 0),
		}})
	outs := make([]e2eOutcome, len(cases))
	for i, c := range cases {
		o := &outs[i]
		body, _ := hex.DecodeString(c.BodyHex)
		payload := body
		if c.Gz {
			var zb bytes.Buffer
			zw := gzip.NewWriter(&zb)
			zw.Write(body)
			zw.Close()
			payload = zb.Bytes()
		}
		req, _ := http.NewRequest(http.MethodPost, env.IngestorBulkAddr(), bytes.NewReader(payload))
		if c.Gz {
			req.Header.Set("Content-Encoding", "gzip")
		}
		o.T0 = time.Now().UnixMilli()
		resp, err := http.DefaultClient.Do(req)
		o.T1 = time.Now().UnixMilli()
		if err != nil {
			o.Err = "post: " + err.Error()
			continue
		}
		rb, _ := io.ReadAll(resp.Body)
		resp.Body.Close()
		o.Status = resp.StatusCode
		if resp.StatusCode == 200 {
			var r struct {
				Items []json.RawMessage `json:"items"`
			}
			if json.Unmarshal(rb, &r) == nil {
				o.Items = len(r.Items)
			} else {
				o.Items = -1
			}
		}
		env.WaitIdle()
		qpr, docs, _, err := env.Search("u:"+c.Tag, 10000)
		if err != nil {
			o.Err = "search: " + err.Error()
			continue
		}
		o.Total = qpr.Total
		if len(docs) != len(qpr.IDs) {
			o.Err = fmt.Sprintf("search returned %d ids and %d documents", len(qpr.IDs), len(docs))
			continue
		}
		for j, d := range docs {
			o.Fetched = append(o.Fetched, e2eFetched{MID: uint64(qpr.IDs[j].ID.MID), Doc: hex.EncodeToString(d)})
		}
	}
	env.StopAll()
	b, _ := json.Marshal(outs)
	if err := os.WriteFile(outFile, b, 0o644); err != nil {
		fmt.Fprintln(os.Stderr, err)
		os.Exit(3)
	}
}

// tagDoc puts the search tag and a serial number in front of an object document
func tagDoc(doc, tag string, i int) string {
	rest := strings.TrimPrefix(doc, "{")
	sep := ","
	if strings.TrimSpace(rest) == "}" {
		sep = ""
	}
	return fmt.Sprintf(`{"u":"%s","i":%d%s%s`, tag, i, sep, rest)
}

func genE2ECases(r *vh.RNG, n int, now time.Time) []e2eCase {
	var cs []e2eCase
	curFuture = 24 * time.Hour // tests/setup's ingestor allows 24 h both ways
	defer func() { curFuture = driftFuture }()
	for b := 0; len(cs) < n && b < 4*n; b++ {
		tag := fmt.Sprintf("b%dx%d", b, r.Intn(1000000))
		g := genRequest(r, 4096, now, b%4 == 1)
		if g.mutated {
			continue
		}
		var sb bytes.Buffer
		for i := range g.entries {
			e := &g.entries[i]
			if e.kind == dObject && strings.HasPrefix(e.doc, "{") && !strings.Contains(e.doc, `"u":`) {
				e.doc = tagDoc(e.doc, tag, i)
			}
			if b%7 == 3 && i == 1 { // one over-size line between neighbours
				e.doc, e.kind, e.tcat = padObject(r, `"u":"`+tag+`",`, e2eMaxDoc+r.Intn(3)), dObject, tNone
			}
			for _, bl := range e.blanks {
				sb.WriteString(bl + "\n")
			}
			sb.WriteString(e.action + e.aterm + e.doc + e.term)
		}
		sb.WriteString(g.trail)
		g.body = sb.Bytes()
		accepted, stored, _, open := expect(g, e2eMaxDoc)
		if open {
			continue
		}
		c := e2eCase{Tag: tag, Gz: r.Chance(1, 3), BodyHex: hex.EncodeToString(g.body), Accepted: accepted}
		for _, e := range stored {
			d := e2eDoc{Doc: e.doc, TCat: int(e.tcat)}
			if e.tcat == tWithin {
				d.OwnMs = e.ownTime.UnixMilli()
			}
			c.Stored = append(c.Stored, d)
		}
		cs = append(cs, c)
	}
	return cs
}

// runE2E executes the cases in a child process and judges the observations.
func runE2E(cases []e2eCase, orc *vh.Oracle, rep *vh.Report) {
	if len(cases) == 0 {
		return
	}
	dir, err := os.MkdirTemp("", "c10-e2e-io-")
	if err != nil {
		orc.Error = err.Error()
		return
	}
	defer os.RemoveAll(dir)
	in, out := dir+"/cases.json", dir+"/out.json"
	b, _ := json.Marshal(cases)
	os.WriteFile(in, b, 0o644)
	var outs []e2eOutcome
	var lastErr string
	for attempt := 0; attempt < 2 && outs == nil; attempt++ {
		os.Remove(out)
		cmd := exec.Command(os.Args[0], "e2e-child", in, out)
		var stderr bytes.Buffer
		cmd.Stderr = &stderr
		done := make(chan error, 1)
		if err := cmd.Start(); err != nil {
			orc.Error = err.Error()
			return
		}
		go func() { done <- cmd.Wait() }()
		select {
		case err = <-done:
		case <-time.After(10 * time.Minute):
			cmd.Process.Kill()
			err = fmt.Errorf("timeout")
		}
		raw, rerr := os.ReadFile(out)
		if err == nil && rerr == nil && json.Unmarshal(raw, &outs) == nil && len(outs) == len(cases) {
			break
		}
		outs = nil
		tail := stderr.String()
		if len(tail) > 600 {
			tail = tail[len(tail)-600:]
		}
		lastErr = fmt.Sprintf("child: %v: %s", err, tail)
	}
	if outs == nil {
		violate(rep, vh.Violation{Site: "tests/setup.TestingEnv", Class: "e2e-crash", What: "the end-to-end child died twice: " + lastErr,
			Replay: []string{cases[0].line()}})
		return
	}
	for i, c := range cases {
		o := outs[i]
		viol := func(class, what string) {
			violate(rep, vh.Violation{Site: "proxyapi/http_bulk.go:BulkHandler", Class: "e2e-" + class, What: what, Replay: []string{c.line()}})
		}
		orc.Case(c.Tag, len(c.Stored) > 0, fmt.Sprintf("accepted=%v", c.Accepted), map[bool]string{true: "gzip", false: "plain"}[c.Gz], fmt.Sprintf("stored=%d", min(len(c.Stored), 4)))
		if o.Err != "" {
			viol("error", o.Err)
			continue
		}
		if !c.Accepted {
			if o.Status == 200 {
				viol("accepted-although-invalid", "status 200 for a request that must be rejected")
			}
			if len(o.Fetched) != 0 {
				viol("stored-although-rejected", fmt.Sprintf("status %d but %d documents can be fetched", o.Status, len(o.Fetched)))
			}
			continue
		}
		if o.Status != 200 {
			viol("rejected-although-valid", fmt.Sprintf("status %d", o.Status))
			continue
		}
		if o.Items != len(c.Stored) {
			viol("wrong-item-count", fmt.Sprintf("response lists %d items, %d documents should be stored", o.Items, len(c.Stored)))
		}
		want := map[string]e2eDoc{}
		for _, d := range c.Stored {
			want[hex.EncodeToString([]byte(d.Doc))] = d
		}
		if len(o.Fetched) != len(c.Stored) {
			viol("wrong-stored-set", fmt.Sprintf("%d documents fetched, %d sent and qualifying", len(o.Fetched), len(c.Stored)))
			continue
		}
		for _, f := range o.Fetched {
			d, ok := want[f.Doc]
			if !ok {
				got, _ := hex.DecodeString(f.Doc)
				viol("bytes-changed", fmt.Sprintf("fetched document %q was not sent in this form", got))
				break
			}
			delete(want, f.Doc)
			switch timeCat(d.TCat) {
			case tWithin:
				if f.MID != uint64(d.OwnMs) {
					viol("wrong-id-time", fmt.Sprintf("document %q got MID %d, own time %d", d.Doc, f.MID, d.OwnMs))
				}
			default:
				if f.MID < uint64(o.T0) || f.MID > uint64(o.T1) {
					viol("wrong-id-time", fmt.Sprintf("document %q (category %d) got MID %d, received within [%d,%d]", d.Doc, d.TCat, f.MID, o.T0, o.T1))
				}
			}
		}
	}
}
