package main

import (
	"bytes"
	"encoding/json"
	"fmt"
	"net/http"
	"os"
	"os/exec"
	"regexp"
	"sort"
	"strings"
	"time"

	"go.uber.org/zap"

	"github.com/ozontech/seq-db/logger"
	"github.com/ozontech/seq-db/seq"
	"github.com/ozontech/seq-db/tests/setup"

	"verifharness/internal/vh"
)

// End-to-end stage of the findable oracle: a real ingestor + store (tests/setup.TestingEnv, child process) with keyword
// and path fields whose size limit is 512: documents with values of 73..512 bytes (several sharing their first 72
// bytes) are bulk-ingested, then every whole value and every leading path is searched in three stages: active fraction,
// sealed fraction, sealed fraction after the caches were reset (token table loaded from disk).

const e2eMappingYAML = `
mapping-list:
  - name: u
    type: keyword
  - name: kl
    types:
      - type: keyword
        size: 512
  - name: pl
    types:
      - type: path
        size: 512
  - name: zn
    type: keyword
  - name: zt
    type: text
`

type e2eDoc struct {
	Tag, KL, PL string
	ZN          string // a small keyword field whose values include the empty string (the smallest token of the field)
}

var znValues = []string{"", "Alpha", "beta", "Omega", "", "delta", "0", "zz"}

type e2eQuery struct {
	Q      string
	Expect []string
}

func e2eCases() ([]e2eDoc, []e2eQuery) {
	p72 := "/api/v1/users/0123456789/orders/abcdefghij/items/klmnopqrst/details/uvwxyz" // 72 bytes
	p72 = p72[:72]
	vals := []string{p72 + "a", p72 + "b", p72 + "b/c", p72 + strings.Repeat("q", 8), p72 + "/" + strings.Repeat("r", 120), p72 + strings.Repeat("s", 440),
		"short", "/short/path", strings.Repeat("z", 73), strings.Repeat("z", 72), strings.Repeat("z", 512), strings.Repeat("z", 513),
		"/x/" + strings.Repeat("y", 300) + "/end", p72}
	var docs []e2eDoc
	for i, v := range vals {
		docs = append(docs, e2eDoc{fmt.Sprintf("t%d", i), v, v, znValues[i%len(znValues)]})
	}
	var qs []e2eQuery
	seen := map[string]bool{}
	add := func(field, v string, match func(d e2eDoc) bool) {
		q := field + `:"` + v + `"`
		if seen[q] {
			return
		}
		seen[q] = true
		var exp []string
		for _, d := range docs {
			if match(d) {
				exp = append(exp, d.Tag)
			}
		}
		sort.Strings(exp)
		qs = append(qs, e2eQuery{q, exp})
	}
	// the small keyword field: every value, the empty one included (case-insensitive configuration), on the keyword field
	// and - same values - on a text field (an empty text value is indexed as the empty token as well)
	for _, z := range znValues {
		z := z
		for _, f := range []string{"zn", "zt"} {
			add(f, z, func(x e2eDoc) bool { return strings.EqualFold(x.ZN, z) })
		}
	}
	for _, d := range docs {
		v := d.KL
		if len(v) > 512 {
			continue // over the field's limit without partial indexing: not indexed
		}
		add("kl", v, func(x e2eDoc) bool { return x.KL == v })
		add("pl", v, func(x e2eDoc) bool {
			return len(x.PL) <= 512 && (x.PL == v || (strings.HasPrefix(x.PL, v+"/") && v != ""))
		})
		for i := 1; i < len(v); i++ {
			if v[i] == '/' {
				pre := v[:i]
				add("pl", pre, func(x e2eDoc) bool {
					return len(x.PL) <= 512 && (x.PL == pre || strings.HasPrefix(x.PL, pre+"/"))
				})
			}
		}
	}
	return docs, qs
}

var tagRe = regexp.MustCompile(`"u":"(t\d+)"`)

// e2eChild: os.Args = [bin, "e2e-child", outFile]
func e2eChild(outFile string) {
	logger.SetLevel(zap.FatalLevel)
	dir, err := os.MkdirTemp("", "c11-e2e-")
	if err != nil {
		fmt.Fprintln(os.Stderr, err)
		os.Exit(3)
	}
	defer os.RemoveAll(dir)
	m, err := seq.ReadMapping([]byte(e2eMappingYAML))
	if err != nil {
		fmt.Fprintln(os.Stderr, err)
		os.Exit(3)
	}
	env := setup.NewTestingEnv(&setup.TestingEnvConfig{Name: "c11", DataDir: dir, IngestorCount: 1, HotShards: 1, HotFactor: 1, Mapping: m})
	docs, qs := e2eCases()
	var body bytes.Buffer
	for _, d := range docs {
		b, _ := json.Marshal(map[string]string{"u": d.Tag, "kl": d.KL, "pl": d.PL, "zn": d.ZN, "zt": d.ZN})
		body.WriteString("{\"index\":{}}\n")
		body.Write(b)
		body.WriteByte('\n')
	}
	resp, err := http.Post(env.IngestorBulkAddr(), "application/json", &body)
	if err != nil || resp.StatusCode != 200 {
		fmt.Fprintln(os.Stderr, "bulk failed", err)
		os.Exit(3)
	}
	resp.Body.Close()
	env.WaitIdle()
	out := map[string]map[string][]string{}
	stage := func(name string) {
		res := map[string][]string{}
		for _, q := range qs {
			_, found, _, err := env.Search(q.Q, 1000)
			if err != nil {
				res[q.Q] = []string{"ERR " + err.Error()}
				continue
			}
			tags := []string{}
			for _, d := range found {
				if mm := tagRe.FindSubmatch(d); mm != nil {
					tags = append(tags, string(mm[1]))
				}
			}
			sort.Strings(tags)
			res[q.Q] = tags
		}
		out[name] = res
	}
	stage("active")
	env.SealAll()
	env.WaitIdle()
	stage("sealed")
	env.ResetCache()
	stage("reloaded")
	env.StopAll()
	b, _ := json.Marshal(out)
	if err := os.WriteFile(outFile, b, 0o644); err != nil {
		os.Exit(3)
	}
}

func (c *ctx) runE2E() {
	orc := c.e2e
	f, err := os.CreateTemp("", "c11-e2e-out-")
	if err != nil {
		orc.Error = err.Error()
		return
	}
	f.Close()
	defer os.Remove(f.Name())
	var lastErr string
	var out map[string]map[string][]string
	for attempt := 0; attempt < 2 && out == nil; attempt++ {
		cmd := exec.Command(os.Args[0], "e2e-child", f.Name())
		var errb bytes.Buffer
		cmd.Stderr = &errb
		done := make(chan error, 1)
		cmd.Start()
		go func() { done <- cmd.Wait() }()
		select {
		case err := <-done:
			if err != nil {
				lastErr = err.Error() + ": " + lastLines(errb.String(), 3)
				continue
			}
		case <-time.After(4 * time.Minute):
			cmd.Process.Kill()
			lastErr = "timeout"
			continue
		}
		raw, _ := os.ReadFile(f.Name())
		if json.Unmarshal(raw, &out) != nil {
			out = nil
			lastErr = "unreadable child output"
		}
	}
	if out == nil {
		c.violate("tests/setup.TestingEnv", "e2e-crash", "the end-to-end child died twice: "+lastErr, "e2e")
		return
	}
	_, qs := e2eCases()
	for _, st := range []string{"active", "sealed", "reloaded"} {
		for _, q := range qs {
			got := out[st][q.Q]
			orc.Case(st+" "+q.Q, len(q.Q) > 80, "stage="+st, fmt.Sprintf("len=%d", min(len(q.Q)/64*64, 512)))
			if strings.Join(got, ",") != strings.Join(q.Expect, ",") {
				field := "keyword"
				if strings.HasPrefix(q.Q, "pl:") {
					field = "path"
				}
				class := "long-token-not-found"
				if strings.HasPrefix(q.Q, "zn:") || strings.HasPrefix(q.Q, "zt:") {
					field, class = "small keyword / text (values include the empty string)", "token-not-found"
				}
				c.violate("store:search-"+st, class, fmt.Sprintf("%s field, %s fraction: the query %.100s... (%d bytes) returns documents %v, the documents holding that value / leading path are %v",
					field, st, q.Q, len(q.Q), got, q.Expect), "e2e")
			}
		}
	}
}

func lastLines(s string, n int) string {
	l := strings.Split(strings.TrimSpace(s), "\n")
	if len(l) > n {
		l = l[len(l)-n:]
	}
	return strings.Join(l, " | ")
}

var _ = vh.B
