// C11 harness: whatever the indexer tokenizes, the query language can find.
//
// Channel  tokenizer   tokenizer.{Keyword,Text,Path}Tokenizer.Tokenize vs SV.Tok.{keyword,text,path}Tokens on the runes of the
//
//	value annotated with Go's unicode tables (exhaustive over a hostile alphabet up to a length bound, random beyond)
//
// Oracle   findable    the property on the real code: index one document through the real bulk indexer, then for every unit the
//
//	property promises (whole keyword value, every word of a text value, every leading path, field existence)
//	build the query from the document's own bytes in every quoting style of both query languages, parse it
//	with the real parser under the same configuration and require that the literal's term is byte-equal to an
//	indexed token of that field
//
// Oracle   unicode     the laws the Lean theorems assume about Go's tables, checked over all code points
package main

import (
	"bytes"
	"encoding/hex"
	"fmt"
	"os"
	"strconv"
	"strings"
	"unicode"
	"unicode/utf8"

	"go.uber.org/zap"

	"github.com/ozontech/seq-db/conf"
	"github.com/ozontech/seq-db/frac"
	"github.com/ozontech/seq-db/logger"
	"github.com/ozontech/seq-db/parser"
	"github.com/ozontech/seq-db/proxy/bulk"
	"github.com/ozontech/seq-db/seq"
	"github.com/ozontech/seq-db/tokenizer"

	"verifharness/internal/vh"
)

func hexs(b []byte) string {
	if len(b) == 0 {
		return "-"
	}
	return hex.EncodeToString(b)
}

func rnS(raw []byte, r rune) string {
	return fmt.Sprintf("%s/%d/%s%s%s%s/%d", hex.EncodeToString(raw), r,
		vh.B(unicode.IsLetter(r)), vh.B(unicode.IsNumber(r)), vh.B(unicode.IsDigit(r)), vh.B(unicode.IsSpace(r)), unicode.ToLower(r))
}

// trunes annotates the runes of value as utf8.DecodeRune sees them.
func trunes(value []byte) string {
	if len(value) == 0 {
		return "-"
	}
	var parts []string
	for i := 0; i < len(value); {
		r, size := utf8.DecodeRune(value[i:])
		l1 := unicode.ToLower(r)
		l2 := unicode.ToLower(l1)
		parts = append(parts, rnS(value[i:i+size], r)+"!"+hex.EncodeToString(utf8.AppendRune(nil, l1))+"!"+hex.EncodeToString(utf8.AppendRune(nil, l2)))
		i += size
	}
	return strings.Join(parts, ".")
}

type cfg struct {
	maxTokenSize int
	cs, partial  bool
	maxFieldLen  int
	fieldMax     int
}

func tokenize(kind byte, c cfg, value []byte) [][]byte {
	var t tokenizer.Tokenizer
	switch kind {
	case 'k':
		t = tokenizer.NewKeywordTokenizer(c.maxTokenSize, c.cs, c.partial)
	case 't':
		t = tokenizer.NewTextTokenizer(c.maxTokenSize, c.cs, c.partial, c.maxFieldLen)
	default:
		t = tokenizer.NewPathTokenizer(c.maxTokenSize, c.cs, c.partial)
	}
	toks := t.Tokenize(nil, []byte("f"), append([]byte(nil), value...), c.fieldMax) // the tokenizers rewrite the value in place
	res := make([][]byte, len(toks))
	for i, tk := range toks {
		res[i] = append([]byte(nil), tk.Value...)
	}
	return res
}

func tokensS(ts [][]byte) string {
	if len(ts) == 0 {
		return "-"
	}
	p := make([]string, len(ts))
	for i, t := range ts {
		if len(t) == 0 {
			p[i] = "e"
		} else {
			p[i] = hex.EncodeToString(t)
		}
	}
	return strings.Join(p, ";")
}

type ctx struct {
	o     vh.Opts
	rep   *vh.Report
	ch    *vh.Channel
	chIdx *vh.Channel
	chMap *vh.Channel
	find  *vh.Oracle
	uni   *vh.Oracle
	e2e   *vh.Oracle
	seenV map[string]bool
	n     int
}

func (c *ctx) violate(site, class, what string, replay ...string) {
	if c.seenV[site+"|"+class] {
		return
	}
	c.seenV[site+"|"+class] = true
	c.rep.Violate(vh.Violation{Site: site, Class: class, What: what, Replay: replay})
}

func (c *ctx) caseTok(kind byte, cf cfg, value []byte, tag string) {
	var impl string
	func() {
		defer func() {
			if r := recover(); r != nil {
				impl = "panic"
				c.violate("tokenizer:"+string(kind), "panic", fmt.Sprintf("Tokenize panicked on %q: %v", value, r),
					fmt.Sprintf("tok %c %d %s %s %d %d %s", kind, cf.maxTokenSize, vh.B(cf.cs), vh.B(cf.partial), cf.maxFieldLen, cf.fieldMax, hexs(value)))
			}
		}()
		impl = "ok " + tokensS(tokenize(kind, cf, value))
	}()
	req := fmt.Sprintf("tok %c %d %s %s %d %d %s", kind, cf.maxTokenSize, vh.B(cf.cs), vh.B(cf.partial), cf.maxFieldLen, cf.fieldMax, trunes(value))
	if c.n > 0 && c.n%20000 == 0 {
		c.ch.Flush(c.o.Driver)
	}
	c.n++
	nt := !utf8.Valid(value) || len(value) > cf.maxTokenSize || bytes.ContainsAny(value, "ABCDEFGHIJKLMNOPQRSTUVWXYZ") || len(value) != len([]rune(string(value)))
	c.ch.Add(req, impl, nt, "kind="+string(kind), "gen="+tag, "cs="+vh.B(cf.cs), "partial="+vh.B(cf.partial))
}

var alphabet = []string{"a", "B", "z", "_", "*", " ", "/", "-", "é", "É", "İ", "K", "ǅ", "日", "\xff", "\xc3", "0", "ß", "ẞ", "ſ", "\r", "\n", "\\", "\"", "'", "(", "[", ")", "]", ",", ":", "|", "`"}

var words = []string{"a", "Error", "payment-api", "x1", "Ünïcode", "日本語", "Kelvin", "İstanbul", "ǅ", "straße", "ẞ", "ΑΒΓ", "_id", "a*b", "1e3", "UPPER", "MiXed", "ÀÉÎ",
	"\xffbad", "tr\xc3", "é", "٣", "Ⅻ", "²"}

func randValue(r *vh.RNG) []byte {
	var sb bytes.Buffer
	for n := r.Intn(6); n >= 0; n-- {
		if r.Chance(1, 4) {
			sb.WriteString(alphabet[r.Intn(len(alphabet))])
		} else {
			sb.WriteString(words[r.Intn(len(words))])
		}
		if n > 0 {
			sb.WriteString([]string{" ", "/", "-", ":", ".", "  ", "\t", "//", "—", "", "\r\n", "\r", "\\", "'", "\""}[r.Intn(15)])
		}
	}
	return sb.Bytes()
}

func randCfg(r *vh.RNG) cfg {
	return cfg{
		maxTokenSize: []int{1, 2, 3, 5, 8, 72}[r.Intn(6)],
		cs:           r.Bool(),
		partial:      r.Bool(),
		maxFieldLen:  []int{3, 7, 20, 32768}[r.Intn(4)],
		fieldMax:     []int{0, 0, 2, 6, 100}[r.Intn(5)],
	}
}

func (c *ctx) runTok(r *vh.RNG) {
	kinds := []byte{'k', 't', 'p'}
	base := []cfg{{72, false, false, 32768, 0}, {72, true, false, 32768, 0}, {3, false, true, 5, 0}, {3, true, true, 5, 0}, {2, false, false, 4, 3}}
	var rec func(prefix []byte, n int)
	rec = func(prefix []byte, n int) {
		for _, k := range kinds {
			for _, cf := range base {
				c.caseTok(k, cf, prefix, "exhaustive")
			}
		}
		if n == 0 {
			return
		}
		for _, a := range alphabet {
			rec(append(append([]byte(nil), prefix...), a...), n-1)
		}
	}
	rec(nil, c.o.Pick(2, 3))
	for i := 0; i < c.o.Pick(30000, 400000); i++ {
		c.caseTok(kinds[r.Intn(3)], randCfg(r), randValue(r), "random")
	}
}

// ---------------------------------------------------------------- oracle findable

// The mapping is built by the real reader (YAML -> seq.Mapping), with multi-type fields whose main (untitled) type
// stands first (m), second after a keyword (m2) and second after a text type (m3).
const findMappingYAML = `
mapping-list:
  - name: k
    type: keyword
  - name: t
    type: text
  - name: p
    type: path
  - name: x
    type: exists
  - name: o
    type: object
    mapping-list:
      - name: k
        type: keyword
  - name: m
    types:
      - type: text
      - title: keyword
        type: keyword
  - name: m2
    types:
      - title: keyword
        type: keyword
      - type: text
  - name: m3
    types:
      - title: text
        type: text
      - type: keyword
  - name: ms
    types:
      - type: keyword
        size: 16
      - title: text
        type: text
  - name: ms2
    types:
      - type: text
      - title: keyword
        type: keyword
        size: 8
      - title: path
        type: path
        size: 30
  - name: ks
    types:
      - type: keyword
        size: 6
  - name: "("
    type: keyword
  - name: "["
    type: path
  - name: b1
    type: keyword
  - name: b2
    type: keyword
  - name: b3
    type: keyword
  - name: b4
    type: text
`

var findMapping = func() seq.Mapping {
	m, err := seq.ReadMapping([]byte(findMappingYAML))
	if err != nil {
		panic(err)
	}
	return m
}()

// nonStrings are JSON values that are not strings: the indexer encodes them back to JSON text (numbers keep their bytes)
var nonStrings = []string{"true", "false", "null", `[1,"a"]`, `{"x":1}`, "[]", "{}", "12", "-3.5", `[true,false]`, `{"a":{"b":null}}`}

// quoting styles: how the document's own bytes are written into a query
type style struct {
	name   string
	legacy bool
	strict bool // a quoting style that can express every value: failing to yield the single term is a violation
	write  func(v []byte) (string, bool)
}

func needsNothing(v []byte) bool {
	if len(v) == 0 {
		return false
	}
	for _, r := range string(v) {
		if !(unicode.IsLetter(r) || unicode.IsDigit(r) || r == '_' || r == '.' || r == '-') || r == utf8.RuneError {
			return false
		}
	}
	lw := strings.ToLower(string(v))
	return lw != "and" && lw != "or" && lw != "not" && lw != "in" && lw != "to"
}

var styles = []style{
	{"seqql-raw", false, true, func(v []byte) (string, bool) { return "`" + string(v) + "`", !bytes.ContainsAny(v, "`") }},
	{"seqql-double", false, true, func(v []byte) (string, bool) {
		return strings.ReplaceAll(strconv.Quote(string(v)), "*", `\*`), utf8.Valid(v)
	}},
	{"seqql-single", false, true, func(v []byte) (string, bool) {
		s := strings.NewReplacer(`\`, `\\`, `'`, `\'`, `*`, `\*`).Replace(string(v))
		return "'" + s + "'", !bytes.ContainsAny(v, "\n\r")
	}},
	{"seqql-bare", false, false, func(v []byte) (string, bool) { return string(v), needsNothing(v) }},
	{"legacy-quoted", true, true, func(v []byte) (string, bool) {
		s := strings.NewReplacer(`\`, `\\`, `"`, `\"`, `*`, `\*`).Replace(string(v))
		return `"` + s + `"`, true
	}},
	{"legacy-bare", true, false, func(v []byte) (string, bool) {
		var sb strings.Builder
		for _, r := range string(v) {
			if unicode.IsSpace(r) || strings.ContainsRune(`(){}[]*"\:`, r) {
				sb.WriteByte('\\')
			}
			sb.WriteRune(r)
		}
		return sb.String(), len(v) > 0 && utf8.Valid(v)
	}},
}

// queryTerm parses field:<written value> and returns the data of the single text term of the single literal.
func queryTerm(field string, written string, legacy bool) (data string, ok bool, why string) {
	if field == "(" || field == "[" {
		if legacy {
			return "", false, "the legacy language cannot name this field"
		}
		field = "`" + field + "`"
	}
	var root *parser.ASTNode
	var err error
	func() {
		defer func() {
			if r := recover(); r != nil {
				err = fmt.Errorf("panic: %v", r)
			}
		}()
		if legacy {
			root, err = parser.ParseQuery(field+":"+written, findMapping)
		} else {
			var q parser.SeqQLQuery
			q, err = parser.ParseSeqQL(field+":"+written, findMapping)
			root = q.Root
		}
	}()
	if err != nil {
		return "", false, "parse error: " + err.Error()
	}
	lit, is := root.Value.(*parser.Literal)
	if !is || len(root.Children) != 0 {
		return "", false, "not a single literal"
	}
	if len(lit.Terms) != 1 || lit.Terms[0].Kind != parser.TermText {
		return "", false, "not a single text term"
	}
	return lit.Terms[0].Data, true, ""
}

func jsonString(v []byte) []byte {
	// the document is raw JSON: escape only what JSON requires, keep all other bytes (including invalid UTF-8) as they are
	var sb bytes.Buffer
	sb.WriteByte('"')
	for _, b := range v {
		switch {
		case b == '"' || b == '\\':
			sb.WriteByte('\\')
			sb.WriteByte(b)
		case b < 0x20:
			fmt.Fprintf(&sb, `\u%04x`, b)
		default:
			sb.WriteByte(b)
		}
	}
	sb.WriteByte('"')
	return sb.Bytes()
}

func hasToken(toks []frac.MetaToken, key string, value []byte) bool {
	for _, t := range toks {
		if string(t.Key) == key && bytes.Equal(t.Value, value) {
			return true
		}
	}
	return false
}

type docField struct {
	name  string // top-level name ("o.k" is written as {"o":{"k":..}})
	json  string // the JSON text of the value
	bytes []byte // the value as the indexer sees it: string content, or the JSON text of a non-string
}

func buildDoc(fs []docField) []byte {
	var sb bytes.Buffer
	sb.WriteByte('{')
	for i, f := range fs {
		if i > 0 {
			sb.WriteByte(',')
		}
		if f.name == "o.k" {
			sb.WriteString(`"o":{"k":` + f.json + `}`)
		} else {
			sb.WriteString(`"` + f.name + `":` + f.json)
		}
	}
	sb.WriteString(`,"unmapped":1}`)
	return sb.Bytes()
}

func typesS(mt seq.MappingTypes) string {
	p := make([]string, len(mt.All))
	for i, t := range mt.All {
		k := "o"
		switch t.TokenizerType {
		case seq.TokenizerTypeKeyword:
			k = "k"
		case seq.TokenizerTypeText:
			k = "t"
		case seq.TokenizerTypePath:
			k = "p"
		case seq.TokenizerTypeExists:
			k = "x"
		}
		p[i] = fmt.Sprintf("%s:%s:%d", hexs([]byte(t.Title)), k, t.MaxSize)
	}
	return strings.Join(p, ",")
}

type idxKey struct {
	cs, partial bool
	mts         int
}

var indexers = map[idxKey]*bulk.VerifIndexer{}

func (c *ctx) caseFind(value []byte, cs, partial bool, maxTokenSize int, extra []string, tag string) {
	fs := []docField{}
	for _, n := range []string{"k", "t", "p", "x", "m", "m2", "m3", "o.k", "ms", "ms2", "ks", "(", "["} {
		fs = append(fs, docField{n, string(jsonString(value)), value})
	}
	for i, e := range extra {
		fs = append(fs, docField{fmt.Sprintf("b%d", i+1), e, []byte(e)})
	}
	doc := buildDoc(fs)
	replay := fmt.Sprintf("find %s %s %d %s %s", vh.B(cs), vh.B(partial), maxTokenSize, hexs(value), hexs([]byte(strings.Join(extra, "\x00"))))
	// one long-lived indexer per configuration, as the pooled processors have
	ik := idxKey{cs, partial, maxTokenSize}
	if indexers[ik] == nil {
		// through the real NewIngestor wiring: config (MaxTokenSize, CaseSensitive, PartialFieldIndexing) -> tokenizer set
		indexers[ik] = bulk.NewVerifIndexerFromIngestor(findMapping, maxTokenSize, cs, partial)
	}
	metas, err := indexers[ik].Index(doc)
	key := replay
	if err != nil || len(metas) == 0 {
		c.find.Case(key, false, "doc=undecodable")
		return
	}
	toks := metas[0]
	// channel index: the whole token list of the document vs SV.Tok.indexField per field, with Main/All as the real mapping has them
	{
		parts := make([]string, len(fs))
		for i, f := range fs {
			parts[i] = hexs([]byte(f.name)) + "|" + typesS(findMapping[f.name]) + "|" + trunes(f.bytes)
		}
		var got []string
		for _, t := range toks[1:] { // toks[0] is _all_
			v := "e"
			if len(t.Value) > 0 {
				v = hex.EncodeToString(t.Value)
			}
			got = append(got, hexs(t.Key)+"="+v)
		}
		impl := "ok -"
		if len(got) > 0 {
			impl = "ok " + strings.Join(got, ";")
		}
		if c.n > 0 && c.n%20000 == 0 {
			c.chIdx.Flush(c.o.Driver)
		}
		c.chIdx.Add(fmt.Sprintf("index %d %s %s %s", maxTokenSize, vh.B(cs), vh.B(partial), strings.Join(parts, "+")), impl, len(extra) >= 2 || !utf8.Valid(value),
			"gen="+tag, fmt.Sprintf("nonstrings=%d", len(extra)))
	}
	conf.CaseSensitive = cs
	defer func() { conf.CaseSensitive = false }()
	nt := !utf8.Valid(value) || len(value) != len([]rune(string(value))) || strings.ToLower(string(value)) != string(value) || len(extra) >= 2
	c.find.Case(key, nt, "gen="+tag, "cs="+vh.B(cs), "partial="+vh.B(partial), "valid-utf8="+vh.B(utf8.Valid(value)), fmt.Sprintf("nonstrings=%d", len(extra)))

	// existence of every present mapped field (also inside the object and for every type of the multi-type fields)
	exist := []string{"k", "t", "p", "x", "m", "m.keyword", "m2", "m2.keyword", "m3", "m3.text", "o.k", "ms", "ms.text", "ms2", "ms2.keyword", "ms2.path", "ks", "(", "["}
	for i := range extra {
		exist = append(exist, fmt.Sprintf("b%d", i+1))
	}
	for _, f := range exist {
		for _, legacy := range []bool{false, true} {
			written := f
			if f == "(" || f == "[" { // a name made of a syntax character has to be quoted
				written = "`" + f + "`"
				if legacy {
					written = `"` + f + `"`
				}
			}
			data, ok, why := queryTerm("_exists_", written, legacy)
			if !ok || !hasToken(toks, "_exists_", []byte(data)) {
				c.violate("proxy/bulk/indexer.go:index", "exists-not-findable", fmt.Sprintf("_exists_:%s does not find the document (query term %q, %s)", f, data, why), replay)
			}
		}
	}
	type unit struct {
		field string
		bytes []byte
		what  string
		text  bool
	}
	var units []unit
	// the whole value on keyword-typed names (when it is within the size limit); for a multi-type field the name that
	// carries the keyword type: `field` when keyword is the main type, `field.keyword` otherwise
	eff := func(size int) int {
		if size == 0 {
			return maxTokenSize
		}
		return size
	}
	// keyword- and path-typed names with their own size limit (0 = the global max token size)
	for _, kf := range []struct {
		name string
		size int
		path bool
	}{{"k", 0, false}, {"m.keyword", 0, false}, {"m2.keyword", 0, false}, {"m3", 0, false}, {"o.k", 0, false}, {"ms", 16, false},
		{"ms2.keyword", 8, false}, {"ks", 6, false}, {"(", 0, false}, {"p", 0, true}, {"ms2.path", 30, true}, {"[", 0, true}} {
		lim := eff(kf.size)
		v := value
		what := "keyword value"
		if len(value) > lim {
			if !partial {
				continue // over the limit and no partial indexing: the field is not indexed
			}
			v, what = value[:lim], "first bytes (partial indexing) of a keyword value"
		}
		if kf.path {
			units = append(units, unit{kf.name, v, "whole path", false})
			for i := 1; i < len(v); i++ {
				if v[i] == '/' {
					units = append(units, unit{kf.name, v[:i], "leading path", false})
				}
			}
		} else {
			units = append(units, unit{kf.name, v, what, false})
		}
	}
	for i, e := range extra {
		if len(e) <= maxTokenSize && i < 3 {
			units = append(units, unit{fmt.Sprintf("b%d", i+1), []byte(e), "non-string JSON value of a keyword field", false})
		}
	}
	// every word of the text value (maximal runs of letters, numbers, '_' and '*') on text-typed names
	for _, f := range []string{"t", "m", "m2", "m3.text", "ms.text", "ms2"} {
		start := -1
		flush := func(end int) {
			if start >= 0 && end-start <= maxTokenSize {
				units = append(units, unit{f, value[start:end], "word of a text value", true})
			}
			start = -1
		}
		for i := 0; i < len(value); {
			r, size := utf8.DecodeRune(value[i:])
			if r != utf8.RuneError && (unicode.IsLetter(r) || unicode.IsNumber(r) || r == '_' || r == '*') {
				if start < 0 {
					start = i
				}
			} else {
				flush(i)
			}
			i += size
		}
		flush(len(value))
	}
	for _, u := range units {
		for _, st := range styles {
			written, applicable := st.write(u.bytes)
			if !applicable {
				continue
			}
			data, ok, why := queryTerm(u.field, written, st.legacy)
			c.find.Distribution["style="+st.name]++
			if !ok && (!st.strict || (st.legacy && (u.field == "(" || u.field == "["))) {
				// a bare word that is a keyword, etc.: this style cannot express the unit
				c.find.Distribution["unparsed="+st.name]++
				continue
			}
			if !ok || !hasToken(toks, u.field, []byte(data)) {
				class := "not-findable"
				if !utf8.Valid(u.bytes) {
					class = "not-findable-invalid-utf8"
				}
				site := "tokenizer/keyword_tokenizer.go:Tokenize"
				switch {
				case u.field == "p" || u.field == "ms2.path" || u.field == "[":
					site = "tokenizer/path_tokenizer.go:Tokenize"
				case u.text:
					site = "tokenizer/text_tokenizer.go:Tokenize"
				}
				if cs && !utf8.Valid(u.bytes) {
					class = "not-findable-invalid-utf8-case-sensitive"
				}
				asks := fmt.Sprintf("asks for the token %q", data)
				if !ok {
					asks = "is not a single term (" + why + ")"
					class += "-query-shape"
				}
				c.violate(site, class,
					fmt.Sprintf("%s %q of field %s (case-sensitive=%v): the query %s:%s (%s) %s, which the indexer did not emit; indexed: %s",
						u.what, u.bytes, u.field, cs, u.field, written, st.name, asks, fieldTokens(toks, u.field)), replay)
			}
		}
	}
}

func fieldTokens(toks []frac.MetaToken, key string) string {
	var p []string
	for _, t := range toks {
		if string(t.Key) == key {
			p = append(p, fmt.Sprintf("%q", t.Value))
		}
	}
	return "[" + strings.Join(p, " ") + "]"
}

func (c *ctx) runFind(r *vh.RNG) {
	var rec func(prefix []byte, n int)
	rec = func(prefix []byte, n int) {
		for _, cs := range []bool{false, true} {
			c.caseFind(prefix, cs, false, 72, nil, "exhaustive")
		}
		if n == 0 {
			return
		}
		for _, a := range alphabet {
			rec(append(append([]byte(nil), prefix...), a...), n-1)
		}
	}
	rec(nil, c.o.Pick(2, 3))
	// values whose length lies around every size limit of the mapping (6, 8, 16, 30, max token size), partial indexing on / off
	for _, n := range []int{5, 6, 7, 8, 9, 15, 16, 17, 29, 30, 31, 41, 71, 72, 73} {
		for _, base := range []string{"Request Failed: context canceled, retry later please - code 17 (timeout) xyz", "/api/v1/Users/42/orders/2024/items/7/details/extra/long/path/to/somewhere"} {
			for _, partial := range []bool{false, true} {
				for _, cs := range []bool{false, true} {
					c.caseFind([]byte(base[:n]), cs, partial, 72, nil, "limits")
				}
			}
		}
	}
	// several non-string values in one document, every ordered pair first
	for _, a := range nonStrings {
		for _, b := range nonStrings {
			c.caseFind([]byte("Request Failed: context canceled"), false, false, 72, []string{a, b}, "nonstrings")
		}
	}
	for i := 0; i < c.o.Pick(20000, 300000); i++ {
		var extra []string
		for n := r.Intn(5); n > 0; n-- {
			extra = append(extra, nonStrings[r.Intn(len(nonStrings))])
		}
		c.caseFind(randValue(r), r.Bool(), r.Bool(), []int{5, 8, 72}[r.Intn(3)], extra, "random")
	}
}

// ---------------------------------------------------------------- channel mapping

// caseMapping: spec = comma separated entries "<title or ->:<type name>:<size>" of the types list of field "fm".
func (c *ctx) caseMapping(spec string) {
	var y strings.Builder
	y.WriteString("mapping-list:\n  - name: fm\n    types:\n")
	var req []string
	first := true
	nt := false
	for _, e := range strings.Split(spec, ",") {
		p := strings.Split(e, ":")
		title := p[0]
		if title == "-" {
			title = ""
			nt = !first
		}
		first = false
		y.WriteString("      - type: " + p[1] + "\n")
		if title != "" {
			y.WriteString("        title: " + title + "\n")
		}
		y.WriteString("        size: " + p[2] + "\n")
		k := map[string]string{"keyword": "k", "text": "t", "path": "p", "exists": "x"}[p[1]]
		req = append(req, hexs([]byte(title))+":"+k+":"+p[2])
	}
	impl := "err"
	if m, err := seq.ReadMapping([]byte(y.String())); err == nil {
		mt := m["fm"]
		k := typesS(seq.MappingTypes{All: []seq.MappingType{mt.Main}})
		impl = "ok main=" + k + " all=" + typesS(mt)
	}
	c.chMap.Add("mmap "+hexs([]byte("fm"))+" "+strings.Join(req, ","), impl, nt, fmt.Sprintf("entries=%d", len(req)), "result="+strings.Fields(impl)[0])
}

func (c *ctx) runMapping() {
	titles := []string{"-", "a", "b"}
	types := []string{"keyword", "text", "path"}
	var rec func(prefix []string, n int)
	rec = func(prefix []string, n int) {
		if len(prefix) > 0 {
			c.caseMapping(strings.Join(prefix, ","))
		}
		if n == 0 {
			return
		}
		for _, t := range titles {
			for _, ty := range types {
				for _, sz := range []string{"0", "7"} {
					if sz == "7" && ty != "keyword" {
						continue
					}
					rec(append(append([]string(nil), prefix...), t+":"+ty+":"+sz), n-1)
				}
			}
		}
	}
	rec(nil, 3)
}

// ---------------------------------------------------------------- oracle unicode

func (c *ctx) runUnicode() {
	bad := 0
	for r := rune(0); r <= unicode.MaxRune; r++ {
		l := unicode.ToLower(r)
		ok := unicode.ToLower(l) == l && unicode.To(unicode.LowerCase, r) == l
		if r < 128 {
			tab := 'a' <= r && r <= 'z' || 'A' <= r && r <= 'Z' || '0' <= r && r <= '9' || r == '_' || r == '*'
			uni := unicode.IsLetter(r) || unicode.IsNumber(r) || r == '_' || r == '*'
			lower := r
			if 'A' <= r && r <= 'Z' {
				lower = r + 32
			}
			ok = ok && tab == uni && l == lower && unicode.IsDigit(r) == unicode.IsNumber(r)
		}
		if utf8.ValidRune(r) && strings.ToLower(string(r)) != string(l) {
			ok = false
		}
		if !ok {
			bad++
			c.violate("unicode", "law-broken", fmt.Sprintf("a law assumed about Go's unicode tables fails at U+%04X", r), fmt.Sprintf("unicode %d", r))
		}
	}
	c.uni.Case("all-code-points", true, fmt.Sprintf("checked=%d", unicode.MaxRune+1), fmt.Sprintf("bad=%d", bad))
	c.uni.Cases = int(unicode.MaxRune) + 1
}

func main() {
	if len(os.Args) > 2 && os.Args[1] == "e2e-child" {
		e2eChild(os.Args[2])
		return
	}
	o := vh.ParseFlags()
	logger.SetLevel(zap.FatalLevel)
	rep := vh.NewReport("C11", o)
	c := &ctx{o: o, rep: rep, seenV: map[string]bool{}}
	c.ch = vh.NewChannel("tokenizer", "Keyword/Text/Path Tokenizer.Tokenize vs SV.Tok.keywordTokens/textTokens/pathTokens (token list, byte exact) on every value over a 20-symbol alphabet (ASCII case, '_' '*', separators, multi-byte case pairs whose lower case has another width, invalid bytes) up to a length bound x 5 configurations, plus random values x random limits / case / partial indexing; non-trivial = invalid UTF-8, over a size limit, upper case or multi-byte")
	c.chIdx = vh.NewChannel("index", "indexer.Index on whole documents (long-lived indexers, several non-string JSON values per document, multi-type fields in every order, object flattening) vs SV.Tok.indexField per field with Main/All taken from the real mapping: the full (name, value) token list in order; non-trivial = two or more non-string values or invalid UTF-8")
	c.chMap = vh.NewChannel("mapping", "seq.ReadMapping on a multi-type field (every ordering of untitled / titled entries over the tokenizer types, duplicates, missing main) vs SV.Tok.convertTypes: Main and All; non-trivial = the untitled entry is not the first")
	c.find = vh.NewOracle("findable", "document indexed by the real bulk indexer; every promised unit (keyword value, word of a text value, leading path, field existence; also in an object and for a multi-type field) written back into a query in 6 quoting styles, parsed by the real parsers under the same case setting: the literal's term must be byte-equal to an indexed token; non-trivial = value with non-ASCII, upper case or invalid bytes")
	c.e2e = vh.NewOracle("findable.e2e", "real ingestor + store (tests/setup.TestingEnv, child process), keyword and path fields with size 512, values of 72..513 bytes (several sharing their first 72 bytes): every whole value and every leading path is searched in the active fraction, after sealing, and after the caches were reset (token table loaded from disk); the documents returned must be exactly those holding it; non-trivial = query longer than 80 bytes")
	c.uni = vh.NewOracle("unicode", "laws assumed by the theorems, checked for all 1,114,112 code points: ToLower idempotent and equal to To(LowerCase) and to strings.ToLower per rune; on ASCII the isTextToken table equals IsLetter||IsNumber||_||*, toLowerMap equals ToLower, IsDigit equals IsNumber")
	if o.Replay != "" {
		lines, err := vh.ReadReplay(o.Replay)
		if err != nil {
			fmt.Fprintln(os.Stderr, err)
			os.Exit(3)
		}
		for _, l := range lines {
			f := strings.Fields(l)
			switch {
			case (len(f) == 5 || len(f) == 6) && f[0] == "find":
				mts, _ := strconv.Atoi(f[3])
				v := []byte{}
				if f[4] != "-" {
					v, _ = hex.DecodeString(f[4])
				}
				var extra []string
				if len(f) == 6 && f[5] != "-" {
					e, _ := hex.DecodeString(f[5])
					extra = strings.Split(string(e), "\x00")
				}
				c.caseFind(v, f[1] == "1", f[2] == "1", mts, extra, "replay")
			case len(f) == 1 && f[0] == "e2e":
				c.runE2E()
			case len(f) == 2 && f[0] == "header":
				headerOracle(rep)
			case len(f) == 2 && f[0] == "mmapq":
				if b, err := hex.DecodeString(f[1]); err == nil {
					c.caseMapping(string(b))
				}
			}
		}
	} else {
		rng := vh.NewRNG(o.Seed)
		c.runUnicode()
		c.runTok(rng.Fork())
		c.runMapping()
		c.runFind(rng.Fork())
		c.runE2E()
	}
	rep.AddChannel(c.ch, o.Driver)
	rep.AddChannel(c.chIdx, o.Driver)
	rep.AddChannel(c.chMap, o.Driver)
	rep.AddOracle(c.find)
	rep.AddOracle(c.uni)
	rep.AddOracle(c.e2e)
	if o.Replay == "" {
		headerOracle(rep)
	}
	rep.Write(o.Out)
}
