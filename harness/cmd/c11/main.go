// C11 harness: whatever the indexer tokenizes, the query language can find.
//
// Channel  tokenizer   tokenizer.{Keyword,Text,Path}Tokenizer.Tokenize vs SV.Tok.{keyword,text,path}Tokens on the runes of the
//
//	value annotated with Go's unicode tables (exhaustive over a hostile alphabet up to a length bound, random beyond)
//
// Oracle   findable    the property on the real code: index one document through the real bulk indexer, then for every unit the
//
//	property promises (whole keyword value, every word of a text value, every leading path, field existence)
//	build the query from the document's own bytes in every quoting style of both query languages, parse it
//	with the real parser under the same configuration and require that the literal's term is byte-equal to an
//	indexed token of that field
//
// Oracle   unicode     the laws the Lean theorems assume about Go's tables, checked over all code points
package main

import (
	"bytes"
	"encoding/hex"
	"fmt"
	"os"
	"strconv"
	"strings"
	"unicode"
	"unicode/utf8"

	"go.uber.org/zap"

	"github.com/ozontech/seq-db/conf"
	"github.com/ozontech/seq-db/frac"
	"github.com/ozontech/seq-db/logger"
	"github.com/ozontech/seq-db/parser"
	"github.com/ozontech/seq-db/proxy/bulk"
	"github.com/ozontech/seq-db/seq"
	"github.com/ozontech/seq-db/tokenizer"

	"verifharness/internal/vh"
)

func hexs(b []byte) string {
	if len(b) == 0 {
		return "-"
	}
	return hex.EncodeToString(b)
}

func rnS(raw []byte, r rune) string {
	return fmt.Sprintf("%s/%d/%s%s%s%s/%d", hex.EncodeToString(raw), r,
		vh.B(unicode.IsLetter(r)), vh.B(unicode.IsNumber(r)), vh.B(unicode.IsDigit(r)), vh.B(unicode.IsSpace(r)), unicode.ToLower(r))
}

// trunes annotates the runes of value as utf8.DecodeRune sees them.
func trunes(value []byte) string {
	if len(value) == 0 {
		return "-"
	}
	var parts []string
	for i := 0; i < len(value); {
		r, size := utf8.DecodeRune(value[i:])
		l1 := unicode.ToLower(r)
		l2 := unicode.ToLower(l1)
		parts = append(parts, rnS(value[i:i+size], r)+"!"+hex.EncodeToString(utf8.AppendRune(nil, l1))+"!"+hex.EncodeToString(utf8.AppendRune(nil, l2)))
		i += size
	}
	return strings.Join(parts, ".")
}

type cfg struct {
	maxTokenSize int
	cs, partial  bool
	maxFieldLen  int
	fieldMax     int
}

func tokenize(kind byte, c cfg, value []byte) [][]byte {
	var t tokenizer.Tokenizer
	switch kind {
	case 'k':
		t = tokenizer.NewKeywordTokenizer(c.maxTokenSize, c.cs, c.partial)
	case 't':
		t = tokenizer.NewTextTokenizer(c.maxTokenSize, c.cs, c.partial, c.maxFieldLen)
	default:
		t = tokenizer.NewPathTokenizer(c.maxTokenSize, c.cs, c.partial)
	}
	toks := t.Tokenize(nil, []byte("f"), append([]byte(nil), value...), c.fieldMax) // the tokenizers rewrite the value in place
	res := make([][]byte, len(toks))
	for i, tk := range toks {
		res[i] = append([]byte(nil), tk.Value...)
	}
	return res
}

func tokensS(ts [][]byte) string {
	if len(ts) == 0 {
		return "-"
	}
	p := make([]string, len(ts))
	for i, t := range ts {
		if len(t) == 0 {
			p[i] = "e"
		} else {
			p[i] = hex.EncodeToString(t)
		}
	}
	return strings.Join(p, ";")
}

type ctx struct {
	o     vh.Opts
	rep   *vh.Report
	ch    *vh.Channel
	find  *vh.Oracle
	uni   *vh.Oracle
	seenV map[string]bool
	n     int
}

func (c *ctx) violate(site, class, what string, replay ...string) {
	if c.seenV[site+"|"+class] {
		return
	}
	c.seenV[site+"|"+class] = true
	c.rep.Violate(vh.Violation{Site: site, Class: class, What: what, Replay: replay})
}

func (c *ctx) caseTok(kind byte, cf cfg, value []byte, tag string) {
	var impl string
	func() {
		defer func() {
			if r := recover(); r != nil {
				impl = "panic"
				c.violate("tokenizer:"+string(kind), "panic", fmt.Sprintf("Tokenize panicked on %q: %v", value, r),
					fmt.Sprintf("tok %c %d %s %s %d %d %s", kind, cf.maxTokenSize, vh.B(cf.cs), vh.B(cf.partial), cf.maxFieldLen, cf.fieldMax, hexs(value)))
			}
		}()
		impl = "ok " + tokensS(tokenize(kind, cf, value))
	}()
	req := fmt.Sprintf("tok %c %d %s %s %d %d %s", kind, cf.maxTokenSize, vh.B(cf.cs), vh.B(cf.partial), cf.maxFieldLen, cf.fieldMax, trunes(value))
	if c.n > 0 && c.n%20000 == 0 {
		c.ch.Flush(c.o.Driver)
	}
	c.n++
	nt := !utf8.Valid(value) || len(value) > cf.maxTokenSize || bytes.ContainsAny(value, "ABCDEFGHIJKLMNOPQRSTUVWXYZ") || len(value) != len([]rune(string(value)))
	c.ch.Add(req, impl, nt, "kind="+string(kind), "gen="+tag, "cs="+vh.B(cf.cs), "partial="+vh.B(cf.partial))
}

var alphabet = []string{"a", "B", "z", "_", "*", " ", "/", "-", "é", "É", "İ", "K", "ǅ", "日", "\xff", "\xc3", "0", "ß", "ẞ", "ſ", "\r", "\n", "\\", "\"", "'"}

var words = []string{"a", "Error", "payment-api", "x1", "Ünïcode", "日本語", "Kelvin", "İstanbul", "ǅ", "straße", "ẞ", "ΑΒΓ", "_id", "a*b", "1e3", "UPPER", "MiXed", "ÀÉÎ",
	"\xffbad", "tr\xc3", "é", "٣", "Ⅻ", "²"}

func randValue(r *vh.RNG) []byte {
	var sb bytes.Buffer
	for n := r.Intn(6); n >= 0; n-- {
		if r.Chance(1, 4) {
			sb.WriteString(alphabet[r.Intn(len(alphabet))])
		} else {
			sb.WriteString(words[r.Intn(len(words))])
		}
		if n > 0 {
			sb.WriteString([]string{" ", "/", "-", ":", ".", "  ", "\t", "//", "—", "", "\r\n", "\r", "\\", "'", "\""}[r.Intn(15)])
		}
	}
	return sb.Bytes()
}

func randCfg(r *vh.RNG) cfg {
	return cfg{
		maxTokenSize: []int{1, 2, 3, 5, 8, 72}[r.Intn(6)],
		cs:           r.Bool(),
		partial:      r.Bool(),
		maxFieldLen:  []int{3, 7, 20, 32768}[r.Intn(4)],
		fieldMax:     []int{0, 0, 2, 6, 100}[r.Intn(5)],
	}
}

func (c *ctx) runTok(r *vh.RNG) {
	kinds := []byte{'k', 't', 'p'}
	base := []cfg{{72, false, false, 32768, 0}, {72, true, false, 32768, 0}, {3, false, true, 5, 0}, {3, true, true, 5, 0}, {2, false, false, 4, 3}}
	var rec func(prefix []byte, n int)
	rec = func(prefix []byte, n int) {
		for _, k := range kinds {
			for _, cf := range base {
				c.caseTok(k, cf, prefix, "exhaustive")
			}
		}
		if n == 0 {
			return
		}
		for _, a := range alphabet {
			rec(append(append([]byte(nil), prefix...), a...), n-1)
		}
	}
	rec(nil, c.o.Pick(2, 3))
	for i := 0; i < c.o.Pick(30000, 400000); i++ {
		c.caseTok(kinds[r.Intn(3)], randCfg(r), randValue(r), "random")
	}
}

// ---------------------------------------------------------------- oracle findable

var findMapping = seq.Mapping{
	"k":   seq.NewSingleType(seq.TokenizerTypeKeyword, "", 0),
	"t":   seq.NewSingleType(seq.TokenizerTypeText, "", 0),
	"p":   seq.NewSingleType(seq.TokenizerTypePath, "", 0),
	"x":   seq.NewSingleType(seq.TokenizerTypeExists, "", 0),
	"o":   seq.NewSingleType(seq.TokenizerTypeObject, "", 0),
	"o.k": seq.NewSingleType(seq.TokenizerTypeKeyword, "", 0),
	"m": {Main: seq.MappingType{TokenizerType: seq.TokenizerTypeText},
		All: []seq.MappingType{{Title: "m", TokenizerType: seq.TokenizerTypeText}, {Title: "m.keyword", TokenizerType: seq.TokenizerTypeKeyword}}},
	"m.keyword": seq.NewSingleType(seq.TokenizerTypeKeyword, "m.keyword", 0),
}

// quoting styles: how the document's own bytes are written into a query
type style struct {
	name   string
	legacy bool
	write  func(v []byte) (string, bool)
}

func needsNothing(v []byte) bool {
	if len(v) == 0 {
		return false
	}
	for _, r := range string(v) {
		if !(unicode.IsLetter(r) || unicode.IsDigit(r) || r == '_' || r == '.' || r == '-') || r == utf8.RuneError {
			return false
		}
	}
	lw := strings.ToLower(string(v))
	return lw != "and" && lw != "or" && lw != "not" && lw != "in" && lw != "to"
}

var styles = []style{
	{"seqql-raw", false, func(v []byte) (string, bool) { return "`" + string(v) + "`", !bytes.ContainsAny(v, "`") }},
	{"seqql-double", false, func(v []byte) (string, bool) {
		return strings.ReplaceAll(strconv.Quote(string(v)), "*", `\*`), utf8.Valid(v)
	}},
	{"seqql-single", false, func(v []byte) (string, bool) {
		s := strings.NewReplacer(`\`, `\\`, `'`, `\'`, `*`, `\*`).Replace(string(v))
		return "'" + s + "'", !bytes.ContainsAny(v, "\n\r")
	}},
	{"seqql-bare", false, func(v []byte) (string, bool) { return string(v), needsNothing(v) }},
	{"legacy-quoted", true, func(v []byte) (string, bool) {
		s := strings.NewReplacer(`\`, `\\`, `"`, `\"`, `*`, `\*`).Replace(string(v))
		return `"` + s + `"`, true
	}},
	{"legacy-bare", true, func(v []byte) (string, bool) {
		var sb strings.Builder
		for _, r := range string(v) {
			if unicode.IsSpace(r) || strings.ContainsRune(`(){}[]*"\:`, r) {
				sb.WriteByte('\\')
			}
			sb.WriteRune(r)
		}
		return sb.String(), len(v) > 0 && utf8.Valid(v)
	}},
}

// queryTerm parses field:<written value> and returns the data of the single text term of the single literal.
func queryTerm(field string, written string, legacy bool) (data string, ok bool, why string) {
	var root *parser.ASTNode
	var err error
	func() {
		defer func() {
			if r := recover(); r != nil {
				err = fmt.Errorf("panic: %v", r)
			}
		}()
		if legacy {
			root, err = parser.ParseQuery(field+":"+written, findMapping)
		} else {
			var q parser.SeqQLQuery
			q, err = parser.ParseSeqQL(field+":"+written, findMapping)
			root = q.Root
		}
	}()
	if err != nil {
		return "", false, "parse error: " + err.Error()
	}
	lit, is := root.Value.(*parser.Literal)
	if !is || len(root.Children) != 0 {
		return "", false, "not a single literal"
	}
	if len(lit.Terms) != 1 || lit.Terms[0].Kind != parser.TermText {
		return "", false, "not a single text term"
	}
	return lit.Terms[0].Data, true, ""
}

func jsonString(v []byte) []byte {
	// the document is raw JSON: escape only what JSON requires, keep all other bytes (including invalid UTF-8) as they are
	var sb bytes.Buffer
	sb.WriteByte('"')
	for _, b := range v {
		switch {
		case b == '"' || b == '\\':
			sb.WriteByte('\\')
			sb.WriteByte(b)
		case b < 0x20:
			fmt.Fprintf(&sb, `\u%04x`, b)
		default:
			sb.WriteByte(b)
		}
	}
	sb.WriteByte('"')
	return sb.Bytes()
}

func hasToken(toks []frac.MetaToken, key string, value []byte) bool {
	for _, t := range toks {
		if string(t.Key) == key && bytes.Equal(t.Value, value) {
			return true
		}
	}
	return false
}

func (c *ctx) caseFind(value []byte, cs, partial bool, maxTokenSize int, tag string) {
	doc := []byte(`{"k":` + string(jsonString(value)) + `,"t":` + string(jsonString(value)) + `,"p":` + string(jsonString(value)) +
		`,"x":` + string(jsonString(value)) + `,"m":` + string(jsonString(value)) + `,"o":{"k":` + string(jsonString(value)) + `},"unmapped":1}`)
	replay := fmt.Sprintf("find %s %s %d %s", vh.B(cs), vh.B(partial), maxTokenSize, hexs(value))
	metas, err := bulk.VerifIndexDoc(findMapping, maxTokenSize, cs, partial, doc)
	key := replay
	if err != nil || len(metas) == 0 {
		c.find.Case(key, false, "doc=undecodable")
		return
	}
	toks := metas[0]
	conf.CaseSensitive = cs
	defer func() { conf.CaseSensitive = false }()
	nt := !utf8.Valid(value) || len(value) != len([]rune(string(value))) || strings.ToLower(string(value)) != string(value)
	c.find.Case(key, nt, "gen="+tag, "cs="+vh.B(cs), "partial="+vh.B(partial), "valid-utf8="+vh.B(utf8.Valid(value)))

	// existence of every present mapped field (also inside the object and for the second type of the multi-type field)
	for _, f := range []string{"k", "t", "p", "x", "m", "m.keyword", "o.k"} {
		for _, legacy := range []bool{false, true} {
			data, ok, why := queryTerm("_exists_", f, legacy)
			if !ok || !hasToken(toks, "_exists_", []byte(data)) {
				c.violate("proxy/bulk/indexer.go:index", "exists-not-findable", fmt.Sprintf("_exists_:%s does not find the document (query term %q, %s)", f, data, why), replay)
			}
		}
	}
	type unit struct {
		field string
		bytes []byte
		what  string
	}
	var units []unit
	// the whole value on keyword fields (when it is within the size limit)
	if len(value) <= maxTokenSize {
		units = append(units, unit{"k", value, "keyword value"}, unit{"m.keyword", value, "keyword value of a multi-type field"}, unit{"o.k", value, "keyword value inside an object"})
		// every leading path cut at a separator, and the whole path
		units = append(units, unit{"p", value, "whole path"})
		for i := 1; i < len(value); i++ {
			if value[i] == '/' {
				units = append(units, unit{"p", value[:i], "leading path"})
			}
		}
	}
	// every word of the text value (maximal runs of letters, numbers, '_' and '*')
	for _, f := range []string{"t", "m"} {
		start := -1
		flush := func(end int) {
			if start >= 0 && end-start <= maxTokenSize {
				units = append(units, unit{f, value[start:end], "word of a text value"})
			}
			start = -1
		}
		for i := 0; i < len(value); {
			r, size := utf8.DecodeRune(value[i:])
			if r != utf8.RuneError && (unicode.IsLetter(r) || unicode.IsNumber(r) || r == '_' || r == '*') {
				if start < 0 {
					start = i
				}
			} else {
				flush(i)
			}
			i += size
		}
		flush(len(value))
	}
	for _, u := range units {
		for _, st := range styles {
			written, applicable := st.write(u.bytes)
			if !applicable {
				continue
			}
			data, ok, why := queryTerm(u.field, written, st.legacy)
			c.find.Distribution["style="+st.name]++
			if !ok {
				// a style that cannot express the unit (e.g. a bare word that is a keyword) is not a violation by itself
				c.find.Distribution["unparsed="+st.name]++
				_ = why
				continue
			}
			if !hasToken(toks, u.field, []byte(data)) {
				class := "not-findable"
				if !utf8.Valid(u.bytes) {
					class = "not-findable-invalid-utf8"
				}
				site := "tokenizer/keyword_tokenizer.go:Tokenize"
				switch u.field {
				case "p":
					site = "tokenizer/path_tokenizer.go:Tokenize"
				case "t", "m":
					site = "tokenizer/text_tokenizer.go:Tokenize"
				}
				if cs && !utf8.Valid(u.bytes) {
					class = "not-findable-invalid-utf8-case-sensitive"
				}
				c.violate(site, class,
					fmt.Sprintf("%s %q of field %s (case-sensitive=%v): the query %s:%s (%s) asks for the token %q, which the indexer did not emit; indexed: %s",
						u.what, u.bytes, u.field, cs, u.field, written, st.name, data, fieldTokens(toks, u.field)), replay)
			}
		}
	}
}

func fieldTokens(toks []frac.MetaToken, key string) string {
	var p []string
	for _, t := range toks {
		if string(t.Key) == key {
			p = append(p, fmt.Sprintf("%q", t.Value))
		}
	}
	return "[" + strings.Join(p, " ") + "]"
}

func (c *ctx) runFind(r *vh.RNG) {
	var rec func(prefix []byte, n int)
	rec = func(prefix []byte, n int) {
		for _, cs := range []bool{false, true} {
			c.caseFind(prefix, cs, false, 72, "exhaustive")
		}
		if n == 0 {
			return
		}
		for _, a := range alphabet {
			rec(append(append([]byte(nil), prefix...), a...), n-1)
		}
	}
	rec(nil, c.o.Pick(2, 3))
	for i := 0; i < c.o.Pick(20000, 300000); i++ {
		c.caseFind(randValue(r), r.Bool(), r.Bool(), []int{5, 8, 72}[r.Intn(3)], "random")
	}
}

// ---------------------------------------------------------------- oracle unicode

func (c *ctx) runUnicode() {
	bad := 0
	for r := rune(0); r <= unicode.MaxRune; r++ {
		l := unicode.ToLower(r)
		ok := unicode.ToLower(l) == l && unicode.To(unicode.LowerCase, r) == l
		if r < 128 {
			tab := 'a' <= r && r <= 'z' || 'A' <= r && r <= 'Z' || '0' <= r && r <= '9' || r == '_' || r == '*'
			uni := unicode.IsLetter(r) || unicode.IsNumber(r) || r == '_' || r == '*'
			lower := r
			if 'A' <= r && r <= 'Z' {
				lower = r + 32
			}
			ok = ok && tab == uni && l == lower && unicode.IsDigit(r) == unicode.IsNumber(r)
		}
		if utf8.ValidRune(r) && strings.ToLower(string(r)) != string(l) {
			ok = false
		}
		if !ok {
			bad++
			c.violate("unicode", "law-broken", fmt.Sprintf("a law assumed about Go's unicode tables fails at U+%04X", r), fmt.Sprintf("unicode %d", r))
		}
	}
	c.uni.Case("all-code-points", true, fmt.Sprintf("checked=%d", unicode.MaxRune+1), fmt.Sprintf("bad=%d", bad))
	c.uni.Cases = int(unicode.MaxRune) + 1
}

func main() {
	o := vh.ParseFlags()
	logger.SetLevel(zap.FatalLevel)
	rep := vh.NewReport("C11", o)
	c := &ctx{o: o, rep: rep, seenV: map[string]bool{}}
	c.ch = vh.NewChannel("tokenizer", "Keyword/Text/Path Tokenizer.Tokenize vs SV.Tok.keywordTokens/textTokens/pathTokens (token list, byte exact) on every value over a 20-symbol alphabet (ASCII case, '_' '*', separators, multi-byte case pairs whose lower case has another width, invalid bytes) up to a length bound x 5 configurations, plus random values x random limits / case / partial indexing; non-trivial = invalid UTF-8, over a size limit, upper case or multi-byte")
	c.find = vh.NewOracle("findable", "document indexed by the real bulk indexer; every promised unit (keyword value, word of a text value, leading path, field existence; also in an object and for a multi-type field) written back into a query in 6 quoting styles, parsed by the real parsers under the same case setting: the literal's term must be byte-equal to an indexed token; non-trivial = value with non-ASCII, upper case or invalid bytes")
	c.uni = vh.NewOracle("unicode", "laws assumed by the theorems, checked for all 1,114,112 code points: ToLower idempotent and equal to To(LowerCase) and to strings.ToLower per rune; on ASCII the isTextToken table equals IsLetter||IsNumber||_||*, toLowerMap equals ToLower, IsDigit equals IsNumber")
	if o.Replay != "" {
		lines, err := vh.ReadReplay(o.Replay)
		if err != nil {
			fmt.Fprintln(os.Stderr, err)
			os.Exit(3)
		}
		for _, l := range lines {
			f := strings.Fields(l)
			switch {
			case len(f) == 5 && f[0] == "find":
				mts, _ := strconv.Atoi(f[3])
				v := []byte{}
				if f[4] != "-" {
					v, _ = hex.DecodeString(f[4])
				}
				c.caseFind(v, f[1] == "1", f[2] == "1", mts, "replay")
			}
		}
	} else {
		rng := vh.NewRNG(o.Seed)
		c.runUnicode()
		c.runTok(rng.Fork())
		c.runFind(rng.Fork())
	}
	rep.AddChannel(c.ch, o.Driver)
	rep.AddOracle(c.find)
	rep.AddOracle(c.uni)
	rep.Write(o.Out)
}
