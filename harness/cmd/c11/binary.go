package main

// findable.header: the REAL seq-db binary in proxy mode in front of fake gRPC stores.  A client that selects SeqQL by the
// request header `use-seq-ql: true` must reach EVERY store tier with that header (the proxy forwards request metadata
// with a client interceptor on each store connection): a store that does not get it parses the SeqQL text with the
// legacy parser, and the quoting styles only SeqQL knows stop finding the indexed tokens.  Topology: one hot store that
// refuses the query (wants old data), one store listed ONLY in --read-stores, one listed only in --write-stores and one in
// --hot-read-stores; the oracle checks the metadata each store received with the Search call.

import (
	"bytes"
	"context"
	"fmt"
	"net"
	"os"
	"os/exec"
	"path/filepath"
	"sync"
	"time"

	"google.golang.org/grpc"
	"google.golang.org/grpc/credentials/insecure"
	"google.golang.org/grpc/metadata"
	"google.golang.org/protobuf/types/known/timestamppb"

	"verifharness/internal/vh"

	"github.com/ozontech/seq-db/pkg/seqproxyapi/v1"
	"github.com/ozontech/seq-db/pkg/storeapi"
)

type hdrStore struct {
	storeapi.UnimplementedStoreApiServer
	refuse bool // answer "wants old data" (a mature hot store)
	mu     sync.Mutex
	calls  int
	withQL int // Search calls that carried use-seq-ql: true
}

func (s *hdrStore) Search(ctx context.Context, _ *storeapi.SearchRequest) (*storeapi.SearchResponse, error) {
	s.mu.Lock()
	s.calls++
	if md, ok := metadata.FromIncomingContext(ctx); ok {
		for _, v := range md.Get("use-seq-ql") {
			if v == "true" {
				s.withQL++
				break
			}
		}
	}
	s.mu.Unlock()
	if s.refuse {
		return &storeapi.SearchResponse{Code: storeapi.SearchErrorCode_INGESTOR_QUERY_WANTS_OLD_DATA}, nil
	}
	return &storeapi.SearchResponse{}, nil
}

func hdrFreeAddr() string {
	l, err := net.Listen("tcp", "127.0.0.1:0")
	if err != nil {
		return ""
	}
	defer l.Close()
	return l.Addr().String()
}

func headerOracle(rep *vh.Report) {
	orc := vh.NewOracle("findable.header", "the real seq-db binary in proxy mode over fake gRPC stores (hot store refusing with wants-old-data, a store only in --read-stores, --hot-read-stores): a Search sent with the request header use-seq-ql: true reaches every store it is forwarded to WITH that header; non-trivial = the read-only store was asked")
	repo := os.Getenv("VERIF_REPO")
	if repo == "" {
		repo = "/repo"
	}
	dir, err := os.MkdirTemp("", "vh-c11-bin")
	if err != nil {
		return
	}
	defer os.RemoveAll(dir)
	bin := filepath.Join(dir, "seq-db")
	build := exec.Command("go", "build", "-o", bin, "./cmd/seq-db")
	build.Dir = repo
	build.Env = append(os.Environ(), "GOFLAGS=-mod=mod", "GOPROXY=off")
	if out, err := build.CombinedOutput(); err != nil {
		orc.Case("build", false, "build-failed=1")
		rep.Violate(vh.Violation{Site: "cmd/seq-db/seq-db.go:main", Class: "harness", What: "cannot build cmd/seq-db: " + string(out), Replay: []string{"header build"}})
		rep.AddOracle(orc)
		return
	}
	for _, variant := range []string{"read-only-cold", "hot-read"} {
		stores := map[string]*hdrStore{"hot": {refuse: variant == "read-only-cold"}, "read": {}, "hotread": {}}
		addrs := map[string]string{}
		var servers []*grpc.Server
		for name, st := range stores {
			l, err := net.Listen("tcp", "127.0.0.1:0")
			if err != nil {
				continue
			}
			srv := grpc.NewServer()
			storeapi.RegisterStoreApiServer(srv, st)
			servers = append(servers, srv)
			addrs[name] = l.Addr().String()
			go srv.Serve(l)
		}
		httpAddr, grpcAddr, dbgAddr := hdrFreeAddr(), hdrFreeAddr(), hdrFreeAddr()
		args := []string{"--mode=proxy", "--mapping=auto", "--addr=" + httpAddr, "--proxy-grpc-addr=" + grpcAddr, "--debug-addr=" + dbgAddr,
			"--hot-stores=" + addrs["hot"], "--read-stores=" + addrs["read"], "--replicas=1"}
		if variant == "hot-read" {
			args = append(args, "--hot-read-stores="+addrs["hotread"])
		}
		ctx, cancel := context.WithTimeout(context.Background(), 40*time.Second)
		cmd := exec.CommandContext(ctx, bin, args...)
		var logb bytes.Buffer
		cmd.Stdout, cmd.Stderr = &logb, &logb
		problem := ""
		if err := cmd.Start(); err != nil {
			problem = "start: " + err.Error()
		}
		if problem == "" {
			conn, err := grpc.NewClient(grpcAddr, grpc.WithTransportCredentials(insecure.NewCredentials()))
			if err != nil {
				problem = "dial: " + err.Error()
			} else {
				cl := seqproxyapi.NewSeqProxyApiClient(conn)
				now := time.Now()
				req := &seqproxyapi.SearchRequest{Query: &seqproxyapi.SearchQuery{Query: "service:'a b'", From: timestamppb.New(now.Add(-time.Hour)), To: timestamppb.New(now)}, Size: 10}
				var lastErr error
				done := false
				for i := 0; i < 100 && !done; i++ {
					cctx := metadata.AppendToOutgoingContext(context.Background(), "use-seq-ql", "true")
					cctx, ccancel := context.WithTimeout(cctx, 3*time.Second)
					_, lastErr = cl.Search(cctx, req)
					ccancel()
					stores["hot"].mu.Lock()
					asked := stores["hot"].calls + stores["read"].calls + stores["hotread"].calls
					stores["hot"].mu.Unlock()
					if asked > 0 {
						done = true
					} else {
						time.Sleep(100 * time.Millisecond)
					}
				}
				conn.Close()
				if !done {
					tail := logb.String()
					if len(tail) > 500 {
						tail = tail[len(tail)-500:]
					}
					problem = fmt.Sprintf("no store was asked (last error: %v) :: %s", lastErr, tail)
				}
			}
		}
		if cmd.Process != nil {
			cmd.Process.Kill()
			cmd.Wait()
		}
		cancel()
		for _, s := range servers {
			s.Stop()
		}
		desc := "header " + variant
		if problem != "" {
			orc.Case(desc, false, "problem=1")
			rep.Violate(vh.Violation{Site: "cmd/seq-db/seq-db.go:startProxy", Class: "harness", What: desc + ": " + problem, Replay: []string{desc}})
			continue
		}
		readAsked := stores["read"].calls > 0 || stores["hotread"].calls > 0
		orc.Case(desc, readAsked, fmt.Sprintf("hot=%d/%d", stores["hot"].withQL, stores["hot"].calls), fmt.Sprintf("read=%d/%d", stores["read"].withQL, stores["read"].calls), fmt.Sprintf("hotread=%d/%d", stores["hotread"].withQL, stores["hotread"].calls))
		for name, st := range stores {
			if st.calls > st.withQL {
				rep.Violate(vh.Violation{Site: "proxyapi/ingestor.go:NewIngestor", Class: "use-seq-ql-header-not-forwarded-to-store-tier", What: fmt.Sprintf("%s: store tier %q got %d Search calls, only %d with the client's use-seq-ql: true header - it would parse the SeqQL text with the legacy parser", desc, name, st.calls, st.withQL), Replay: []string{desc}})
			}
		}
	}
	rep.AddOracle(orc)
}
