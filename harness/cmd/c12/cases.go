package main

import (
	"fmt"
	"strconv"
	"strings"

	"github.com/ozontech/seq-db/conf"
	"github.com/ozontech/seq-db/parser"
	"github.com/ozontech/seq-db/seq"

	"verifharness/internal/vh"
)

// ---------------------------------------------------------------- parsing of replay operands

func parseT(s string) (*T, error) {
	parts := strings.Split(s, ",")
	var stack []*T
	for i := len(parts) - 1; i >= 0; i-- {
		p := parts[i]
		switch {
		case p == "!":
			if len(stack) < 1 {
				return nil, fmt.Errorf("bad tree")
			}
			stack[len(stack)-1] = not(stack[len(stack)-1])
		case p == "&" || p == "|" || p == "^":
			if len(stack) < 2 {
				return nil, fmt.Errorf("bad tree")
			}
			l, r := stack[len(stack)-1], stack[len(stack)-2]
			stack = append(stack[:len(stack)-2], bin(p[0], l, r))
		case strings.HasPrefix(p, "a"):
			n, err := strconv.Atoi(p[1:])
			if err != nil {
				return nil, err
			}
			stack = append(stack, leaf(n))
		default:
			return nil, fmt.Errorf("bad tree token %q", p)
		}
	}
	if len(stack) != 1 {
		return nil, fmt.Errorf("bad tree")
	}
	return stack[0], nil
}

func parseToks(s string) ([]tok, error) {
	if s == "-" {
		return nil, nil
	}
	var res []tok
	for _, p := range strings.Split(s, ",") {
		if strings.HasPrefix(p, "a") && strings.Contains(p, ".") {
			f := strings.Split(p[1:], ".")
			if len(f) != 3 || len(f[2]) != 1 {
				return nil, fmt.Errorf("bad atom %q", p)
			}
			n, e1 := strconv.Atoi(f[0])
			fid, e2 := strconv.Atoi(f[1])
			if e1 != nil || e2 != nil || fid < 0 || fid >= len(fieldNames) {
				return nil, fmt.Errorf("bad atom %q", p)
			}
			res = append(res, tok{kind: "atom", n: n, fid: fid, form: f[2][0]})
		} else {
			res = append(res, tok{kind: p})
		}
	}
	return res, nil
}

// ---------------------------------------------------------------- tree enumeration

// treesOfSize returns all NAND-free (or, with nand=true, all) trees with exactly n nodes over `atoms` atoms.
func treesOfSize(n, atoms int, nand bool, memo map[int][]*T) []*T {
	if v, ok := memo[n]; ok {
		return v
	}
	var res []*T
	if n == 1 {
		for a := 0; a < atoms; a++ {
			res = append(res, leaf(a))
		}
	} else {
		for _, c := range treesOfSize(n-1, atoms, nand, memo) {
			res = append(res, not(c))
		}
		ops := []byte{'&', '|'}
		if nand {
			ops = append(ops, '^')
		}
		for ln := 1; ln <= n-2; ln++ {
			for _, l := range treesOfSize(ln, atoms, nand, memo) {
				for _, r := range treesOfSize(n-1-ln, atoms, nand, memo) {
					for _, op := range ops {
						res = append(res, bin(op, l, r))
					}
				}
			}
		}
	}
	memo[n] = res
	return res
}

func randTree(r *vh.RNG, size, atoms int, nand bool) *T {
	if size <= 1 {
		return leaf(r.Intn(atoms))
	}
	if size == 2 || r.Chance(1, 4) {
		return not(randTree(r, size-1, atoms, nand))
	}
	ln := 1 + r.Intn(size-2)
	ops := "&|"
	if nand {
		ops = "&|^"
	}
	return bin(ops[r.Intn(len(ops))], randTree(r, ln, atoms, nand), randTree(r, size-1-ln, atoms, nand))
}

// ---------------------------------------------------------------- channel pnot

func (c *ctx) casePnot(t *T) {
	req := "pnot " + t.String()
	var impl string
	p, site, msg := guarded(func() {
		root, n := parser.VerifPropagateNot(t.toReal())
		rt, err := fromReal(root)
		if err != nil {
			impl = "ok ?" + err.Error()
			return
		}
		impl = fmt.Sprintf("ok %s %s", rt.String(), vh.B(n))
	})
	if p {
		impl = "panic"
		c.violate("parser/"+site, "parser-panics", "propagateNot panicked: "+msg, req)
	}
	c.chPnot.Add(req, impl, t.hasNot(), fmt.Sprintf("size=%d", min(t.size(), 12)))
}

func (c *ctx) runPnot(r *vh.RNG) {
	memo := map[int][]*T{}
	for n := 1; n <= c.o.Pick(7, 8); n++ {
		for _, t := range treesOfSize(n, 3, false, memo) {
			c.casePnot(t)
		}
	}
	for i := 0; i < c.o.Pick(2000, 20000); i++ {
		c.casePnot(randTree(r, 8+r.Intn(24), 5, false))
	}
}

// ---------------------------------------------------------------- channel eval

func (c *ctx) caseEval(t *T, k int) {
	req := fmt.Sprintf("eval %d %s", k, t.String())
	var impl string
	p, site, msg := guarded(func() {
		tab, err := realTable(t.toReal(), k, leafID)
		if err != nil {
			impl = "err " + err.Error()
			return
		}
		impl = "ok " + tab
	})
	if p {
		impl = "panic"
		c.violate(site, "parser-panics", "eval tree panicked: "+msg, req)
	}
	nt := strings.ContainsAny(t.String(), "!^")
	c.chEval.Add(req, impl, nt, fmt.Sprintf("size=%d", min(t.size(), 12)))
}

func (c *ctx) runEval(r *vh.RNG) {
	memo := map[int][]*T{}
	for n := 1; n <= c.o.Pick(5, 6); n++ {
		for _, t := range treesOfSize(n, 3, true, memo) {
			c.caseEval(t, 3)
		}
	}
	for i := 0; i < c.o.Pick(500, 5000); i++ {
		c.caseEval(randTree(r, 6+r.Intn(14), 4, true), 4)
	}
}

// ---------------------------------------------------------------- channels seqql.skel / legacy.skel

func treeOf(o outcome, root *parser.ASTNode) outcome {
	if o.kind != "ok" {
		return o
	}
	t, err := fromReal(root)
	if err != nil {
		o.note = err.Error()
		return o
	}
	o.tree = t
	return o
}

func (c *ctx) caseSkel(ts []tok, nilMapping bool) {
	m, mm := fullMapping(), modelMapping
	if nilMapping {
		m, mm = nil, modelNilMapping
	}
	mt := modelToks(ts)
	tags := []string{fmt.Sprintf("len=%d", min(len(ts), 16))}
	// SeqQL
	q := renderToks(ts, false)
	beginCase(fmt.Sprintf("sqfull %s %s", mm, mt))
	o, root, _ := runParser("seqql", q, m)
	o = treeOf(o, root)
	nt := o.tree != nil && o.tree.size() > 1
	c.chSq.Add(fmt.Sprintf("sqfull %s %s", mm, mt), o.canon(), nt, append(tags, "full="+o.kind)...)
	o2, root2, extra := runParser("seqql.filter", q, m)
	o2 = treeOf(o2, root2)
	s2 := o2.canon()
	if o2.kind == "ok" {
		s2 += " " + extra
	}
	c.chSq.Add(fmt.Sprintf("sqfilter %s %s", mm, mt), s2, nt, "filter="+o2.kind)
	// legacy
	q = renderToks(ts, true)
	beginCase(fmt.Sprintf("lgfull %s %s", mm, mt))
	o, root, _ = runParser("legacy", q, m)
	o = treeOf(o, root)
	nt = o.tree != nil && o.tree.size() > 1
	c.chLg.Add(fmt.Sprintf("lgfull %s %s", mm, mt), o.canon(), nt, append(tags, "full="+o.kind)...)
	o2, root2, _ = runParser("legacy.raw", q, m)
	o2 = treeOf(o2, root2)
	c.chLg.Add(fmt.Sprintf("lgraw %s %s", mm, mt), o2.canon(), nt, "raw="+o2.kind)
	endCase()
}

func enumToks(alpha []tok, n int, f func([]tok)) {
	cur := make([]tok, n)
	var rec func(i int)
	rec = func(i int) {
		if i == n {
			out := make([]tok, n)
			for j, t := range cur {
				if t.kind == "atom" {
					t.n = j
				}
				out[j] = t
			}
			f(out)
			return
		}
		for _, t := range alpha {
			cur[i] = t
			rec(i + 1)
		}
	}
	rec(0)
}

func atom(fid int, form byte) tok { return tok{kind: "atom", fid: fid, form: form} }

func (c *ctx) runSkel(r *vh.RNG) {
	small := []tok{{kind: "("}, {kind: ")"}, {kind: "and"}, {kind: "or"}, {kind: "not"}, atom(0, 'p')}
	for n := 0; n <= c.o.Pick(6, 7); n++ {
		enumToks(small, n, func(ts []tok) { c.caseSkel(ts, false) })
	}
	big := []tok{{kind: "("}, {kind: ")"}, {kind: "and"}, {kind: "or"}, {kind: "not"}, {kind: "pipe"}, {kind: "*"}, {kind: "fields"}, {kind: "bad"},
		atom(0, 'p'), atom(1, 'p'), atom(2, 'p'), atom(3, 'p'), atom(4, 'p'), atom(5, 'p'), atom(6, 'p'), atom(7, 'p'), atom(8, 'p'),
		atom(0, 'r'), atom(3, 'r'), atom(7, 'r'), atom(0, 'i'), atom(1, 'i'), atom(4, 'i'), atom(8, 'i')}
	for n := 0; n <= c.o.Pick(3, 4); n++ {
		enumToks(big, n, func(ts []tok) { c.caseSkel(ts, false) })
	}
	for n := 0; n <= c.o.Pick(2, 3); n++ {
		enumToks(big, n, func(ts []tok) { c.caseSkel(ts, true) })
	}
	// around the nesting limit (maxQueryNesting, if the source has one): `not` chains, parentheses, mixed
	for _, k := range []int{10, 498, 499, 500, 501, 998, 999, 1000, 1001, 1002, 1500} {
		var a, b, m []tok
		for i := 0; i < k; i++ {
			a = append(a, tok{kind: "not"})
			b = append(b, tok{kind: "("})
			if i%2 == 0 {
				m = append(m, tok{kind: "not"}, tok{kind: "("})
			}
		}
		a = append(a, atom(0, 'p'))
		b = append(b, atom(0, 'p'))
		m = append(m, atom(0, 'p'), tok{kind: "and"}, atom(1, 'p'))
		for i := 0; i < k; i++ {
			b = append(b, tok{kind: ")"})
			if i%2 == 0 {
				m = append(m, tok{kind: ")"})
			}
		}
		for _, ts := range [][]tok{a, b, m} {
			for j := range ts {
				if ts[j].kind == "atom" {
					ts[j].n = j
				}
			}
			c.caseSkel(ts, false)
		}
	}
	// random longer lists: a rendered random tree with a few random token edits
	for i := 0; i < c.o.Pick(3000, 40000); i++ {
		t := randTree(r, 1+r.Intn(14), 8, false)
		ts := renderTree(t, r, 0)
		for e := r.Intn(3); e > 0 && len(ts) > 0; e-- {
			j := r.Intn(len(ts))
			switch r.Intn(3) {
			case 0:
				ts = append(ts[:j:j], ts[j+1:]...)
			case 1:
				ts[j] = big[r.Intn(len(big))]
			default:
				ts = append(ts[:j:j], append([]tok{big[r.Intn(len(big))]}, ts[j:]...)...)
			}
		}
		if r.Chance(1, 6) {
			ts = append(ts, tok{kind: "pipe"}, tok{kind: "fields"})
		}
		for j := range ts {
			if ts[j].kind == "atom" {
				ts[j].n = j
			}
		}
		c.caseSkel(ts, r.Chance(1, 5))
	}
}

// renderTree writes a tree as abstract tokens with minimal parentheses plus random redundant ones.
func renderTree(t *T, r *vh.RNG, lvl int) []tok {
	var ts []tok
	need := false
	switch t.op {
	case 'a':
		fid := []int{0, 0, 0, 1, 2}[r.Intn(5)]
		ts = []tok{{kind: "atom", n: t.n, fid: fid, form: "pppri"[r.Intn(5)]}}
		if fid != 0 {
			ts[0].form = 'p'
		}
	case '!':
		ts = append([]tok{{kind: "not"}}, renderTree(t.l, r, 2)...)
	case '|':
		ts = append(append(renderTree(t.l, r, 0), tok{kind: "or"}), renderTree(t.r, r, 1)...)
		need = lvl > 0
	case '&', '^':
		ts = append(append(renderTree(t.l, r, 1), tok{kind: "and"}), renderTree(t.r, r, 2)...)
		need = lvl > 1
	}
	if need || r.Chance(1, 6) {
		ts = append(append([]tok{{kind: "("}}, ts...), tok{kind: ")"})
	}
	return ts
}

// ---------------------------------------------------------------- oracle truth

// decos are word runes outside the everyday classes: No (superscript two, one half, circled one), Nl (ideographic zero),
// Lm (modifier letter h), Nd outside ASCII (arabic-indic three).  None of them has a case mapping.
var decos = []string{"²", "½", "①", "〇", "ʰ", "٣"}

// casedDecos are upper / title case letters outside ASCII: Latin-1, Cyrillic, Greek, a title-case digraph, and two whose
// lower case has another byte length (U+0130 -> i, U+212A Kelvin -> k).  The index side stores unicode.ToLower of them
// unless case sensitivity is configured; both parsers have to ask for the same.
var casedDecos = []string{"Ü", "É", "Ж", "Σ", "ǅ", "İ", "K"}

// E is a written expression: boolean structure over field filters; a filter is a single value, an in-list
// (disjunction of values) or a quoted multi-word text (conjunction of words).
type E struct {
	op    byte // 'a' single, 'i' in-list, 't' multi-word text, 'j' in-list of multi-word texts, '!', '&', '|'
	atoms []int
	items [][]int // 'j': the words of every item
	val   string  // 'a': an explicit keyword value of field fk (a key of wsTokens, or an upper-case spelling) denoting atoms[0]
	rng   bool    // 'a' with val or a cased deco: written as the point range [X, X] instead of the literal X
	deco  string  // a word rune of another Unicode class (No, Nl, Lm, non-ASCII Nd) written inside every value: v<deco><n>
	sep   string  // 't': what stands between the words (default one space); any non-word bytes, also invalid UTF-8
	l, r  *E
}

func (e *E) tree() *T {
	switch e.op {
	case 'a':
		return leaf(e.atoms[0])
	case 'i', 't':
		op := byte('|')
		if e.op == 't' {
			op = '&'
		}
		t := leaf(e.atoms[0])
		for _, a := range e.atoms[1:] {
			t = bin(op, t, leaf(a))
		}
		return t
	case 'x':
		t := leaf(e.atoms[0])
		for _, a := range e.atoms[1:] {
			t = bin('|', t, leaf(a))
		}
		return t
	case 'j':
		var t *T
		for _, it := range e.items {
			x := leaf(it[0])
			for _, a := range it[1:] {
				x = bin('&', x, leaf(a))
			}
			if t == nil {
				t = x
			} else {
				t = bin('|', t, x)
			}
		}
		return t
	case '!':
		return not(e.l.tree())
	}
	return bin(e.op, e.l.tree(), e.r.tree())
}

func randE(r *vh.RNG, size, k int) *E {
	if size <= 1 {
		switch r.Intn(8) {
		case 7:
			e := &E{op: 'x'}
			for n := 1 + r.Intn(3); n > 0; n-- {
				e.atoms = append(e.atoms, r.Intn(k))
			}
			return e
		case 2:
			e := &E{op: 'j'}
			for n := 1 + r.Intn(3); n > 0; n-- {
				var it []int
				for w := 1 + r.Intn(3); w > 0; w-- {
					it = append(it, r.Intn(k))
				}
				e.items = append(e.items, it)
			}
			return e
		case 0:
			n := 2 + r.Intn(2)
			e := &E{op: 'i'}
			for i := 0; i < n; i++ {
				e.atoms = append(e.atoms, r.Intn(k))
			}
			return e
		case 1:
			n := 2 + r.Intn(2)
			e := &E{op: 't', sep: []string{" ", " ", "  ", "-", ": ", "\xff", "\xc3", " \xe2\x82 ", "\xff\xfe", ", "}[r.Intn(10)]}
			if r.Chance(1, 3) {
				e.deco = decos[r.Intn(len(decos))]
			} else if r.Chance(1, 3) {
				e.deco = casedDecos[r.Intn(len(casedDecos))]
			}
			for i := 0; i < n; i++ {
				e.atoms = append(e.atoms, r.Intn(k))
			}
			return e
		}
		if r.Chance(1, 6) {
			return &E{op: 'a', atoms: []int{r.Intn(k)}, deco: decos[r.Intn(len(decos))]}
		}
		if r.Chance(1, 6) {
			return &E{op: 'a', atoms: []int{r.Intn(k)}, deco: casedDecos[r.Intn(len(casedDecos))]}
		}
		return &E{op: 'a', atoms: []int{r.Intn(k)}}
	}
	if size == 2 || r.Chance(1, 4) {
		return &E{op: '!', l: randE(r, size-1, k)}
	}
	ln := 1 + r.Intn(size-2)
	return &E{op: "&|"[r.Intn(2)], l: randE(r, ln, k), r: randE(r, size-1-ln, k)}
}

func fromT(t *T) *E {
	switch t.op {
	case 'a':
		return &E{op: 'a', atoms: []int{t.n}}
	case '!':
		return &E{op: '!', l: fromT(t.l)}
	}
	return &E{op: t.op, l: fromT(t.l), r: fromT(t.r)}
}

type style struct {
	wild      bool // atoms are written as patterns: `v<i>*` or a one-point range
	legacy    bool
	redundant int // chance (out of 8) of a redundant pair of parentheses around any sub-expression; 8 = always
	fancy     bool
}

func kw(word string, st style, r *vh.RNG) string {
	if r == nil || !st.fancy {
		if st.legacy {
			return strings.ToUpper(word)
		}
		return word
	}
	switch r.Intn(3) {
	case 0:
		return strings.ToUpper(word)
	case 1:
		return strings.ToUpper(word[:1]) + word[1:]
	}
	return word
}

func sp(st style, r *vh.RNG) string {
	if r == nil || !st.fancy {
		return " "
	}
	switch r.Intn(8) {
	case 0:
		return "  "
	case 1:
		return "\t"
	case 2:
		return " \n "
	case 3:
		if !st.legacy {
			return " # comment ( and or not\n"
		}
	}
	return " "
}

func (e *E) render(st style, r *vh.RNG, lvl int) string {
	var s string
	need := false
	switch e.op {
	case 'a':
		f := "fk"
		if r != nil {
			f = []string{"fk", "ft", "fp"}[r.Intn(3)]
		}
		if e.deco != "" {
			f = "ft"
		}
		v := fmt.Sprintf("v%s%d", e.deco, e.atoms[0])
		if e.val != "" || (e.rng && e.deco != "") {
			// an explicit value (outer whitespace, upper case) or a cased word, as a quoted literal or as the point range [X, X]
			f = "fk"
			x := `"` + e.val + `"`
			if e.val == "" {
				f, x = "ft", `"`+v+`"`
			}
			switch {
			case e.rng && st.legacy:
				s = f + ":[" + x + " TO " + x + "]"
			case e.rng:
				s = f + ":[" + x + ", " + x + "]"
			default:
				s = f + ":" + x
			}
			break
		}
		pat := e.deco == "" && (st.wild || (r != nil && st.fancy && r.Chance(1, 3)))
		if e.deco != "" && !st.legacy {
			v = `"` + v + `"` // such runes are not SeqQL token runes: the value has to be quoted
		} else if e.deco != "" {
			// legacy: bare word
		} else if pat {
			form := e.atoms[0] % 2
			if r != nil {
				form = r.Intn(3)
			}
			switch form {
			case 0, 2:
				v += "*"
				if f == "fk" {
					f = "fp" // fk also holds tokens that extend v<n> by outer whitespace; a prefix pattern would select them too
				}
			default:
				if st.legacy {
					v = "[" + v + " TO " + v + "]"
				} else {
					v = "[" + v + ", " + v + "]"
				}
			}
		} else if r != nil && st.fancy {
			switch r.Intn(4) {
			case 0:
				v = `"` + v + `"`
			case 1:
				if !st.legacy {
					v = "'" + v + "'"
				}
			case 2:
				if !st.legacy {
					v = "`" + v + "`"
				}
			}
		}
		s = f + ":" + v
		if r != nil && st.fancy && r.Chance(1, 6) {
			s = f + ":" + sp(st, r) + v // space after the colon is allowed in both languages
		}
	case 'i':
		vals := make([]string, len(e.atoms))
		for i, a := range e.atoms {
			vals[i] = fmt.Sprintf("v%d", a)
		}
		if st.legacy {
			parts := make([]string, len(vals))
			for i, v := range vals {
				parts[i] = "fk:" + v
			}
			s = "(" + strings.Join(parts, sp(st, r)+kw("or", st, r)+sp(st, r)) + ")"
		} else {
			s = "fk:" + kw("in", st, r) + "(" + strings.Join(vals, ","+sp(st, r)) + ")"
		}
	case 'x':
		// existence of the fields V<a> (upper-case names): `_exists_` is always case sensitive
		names := make([]string, len(e.atoms))
		for i, a := range e.atoms {
			names[i] = fmt.Sprintf("V%d", a)
		}
		if st.legacy || e.sep == "or" {
			parts := make([]string, len(names))
			for i, n := range names {
				parts[i] = "_exists_:" + n
			}
			s = "(" + strings.Join(parts, sp(st, r)+kw("or", st, r)+sp(st, r)) + ")"
		} else {
			s = "_exists_:" + kw("in", st, r) + "(" + strings.Join(names, ","+sp(st, r)) + ")"
		}
	case 'j':
		parts := make([]string, len(e.items))
		for i, it := range e.items {
			ws := make([]string, len(it))
			for j, a := range it {
				ws[j] = fmt.Sprintf("v%d", a)
			}
			if st.legacy {
				parts[i] = `ft:"` + strings.Join(ws, " ") + `"`
			} else {
				parts[i] = `"` + strings.Join(ws, " ") + `"`
			}
		}
		if st.legacy {
			s = "(" + strings.Join(parts, sp(st, r)+kw("or", st, r)+sp(st, r)) + ")"
		} else {
			s = "ft:" + kw("in", st, r) + "(" + strings.Join(parts, ","+sp(st, r)) + ")"
		}
	case 't':
		vals := make([]string, len(e.atoms))
		for i, a := range e.atoms {
			vals[i] = fmt.Sprintf("v%s%d", e.deco, a)
		}
		sep := e.sep
		if sep == "" {
			sep = " "
		}
		s = `ft:"` + strings.Join(vals, sep) + `"`
	case '!':
		s = kw("not", st, r) + sp(st, r) + e.l.render(st, r, 2)
	case '|':
		s = e.l.render(st, r, 0) + sp(st, r) + kw("or", st, r) + sp(st, r) + e.r.render(st, r, 1)
		need = lvl > 0
	case '&':
		s = e.l.render(st, r, 1) + sp(st, r) + kw("and", st, r) + sp(st, r) + e.r.render(st, r, 2)
		need = lvl > 1
	}
	extra := st.redundant == 8 && e.op != 'a' && e.op != 'i' && e.op != 't' && e.op != 'j' && e.op != 'x'
	if !extra && st.redundant > 0 && st.redundant < 8 && r != nil {
		extra = r.Chance(st.redundant, 8)
	}
	if need || extra {
		s = "(" + s + ")"
	}
	return s
}

func (c *ctx) caseTruth(which string, k int, want string, q string, flags string, tag string) {
	if flags == "" {
		flags = "-"
	}
	noleaf := strings.HasSuffix(flags, "/noleaf") // the leaves are not single atoms: only the search over the fake index is compared
	cs := strings.HasPrefix(flags, "cs")          // conf.CaseSensitive for this case (the index side lower-cases with unicode.ToLower unless set)
	replay := fmt.Sprintf("truth %s %d %s %s %s", which, k, want, hexs(q), flags)
	beginCase(replay)
	defer endCase()
	conf.CaseSensitive = cs
	defer func() { conf.CaseSensitive = false }()
	o, root, _ := runParser(which, q, fullMapping())
	nt := strings.Count(q, ":") > 2
	c.orTruth.Case(which+" "+q, nt, "parser="+which, "style="+tag, "result="+o.kind)
	switch o.kind {
	case "panic":
		c.violate("parser/"+strings.TrimPrefix(o.site, "parser/"), "parser-panics", fmt.Sprintf("%s panicked on a well-formed expression: %s", which, o.msg), replay)
		return
	case "err":
		c.violate("parser:"+which, "well-formed-rejected", fmt.Sprintf("%s rejected the well-formed expression %q: %s", which, q, o.msg), replay)
		return
	}
	var got string
	var err error
	p, site, msg := guarded(func() {
		if noleaf {
			got = want
			return
		}
		got, err = realTable(root, k, leafID)
	})
	if p {
		c.violate(site, "parser-panics", "evaluating the parsed tree panicked: "+msg, replay)
		return
	}
	if err != nil {
		c.violate("parser:"+which, "unexpected-tree", fmt.Sprintf("parsed tree of %q cannot be evaluated: %v", q, err), replay)
		return
	}
	if got != want {
		c.violate("parser:"+which, "meaning-changed", fmt.Sprintf("%q selects documents %s, the written expression denotes %s", q, got, want), replay)
		return
	}
	// the same through the real processor.IndexSearch (its own leaf construction) on a fake fraction index, both orders
	for _, order := range []seq.DocsOrder{seq.DocsOrderDesc, seq.DocsOrderAsc} {
		for _, w := range windowsFor(k) {
			want := maskWindow(want, k, w)
			var got2 string
			p, site, msg = guarded(func() { got2, err = searchTable(root, k, cs, order, w) })
			if p {
				c.violate("frac/processor/"+strings.TrimPrefix(site, "frac/processor/"), "search-panics", fmt.Sprintf("IndexSearch on the parsed query %q (order %v, time window %s [%d, %d]) panicked: %s", q, order, w.name, w.from, w.to, msg), replay)
				return
			}
			if err != nil {
				c.violate("frac/processor/search.go:IndexSearch", "search-error", fmt.Sprintf("IndexSearch on the parsed query %q: %v", q, err), replay)
				return
			}
			if got2 != want {
				// a leaf that asks for a token the index side never stores for these words (wrong case rule, lost bytes ...) is
				// the parser's doing, not the search's
				if miss := foreignLeaf(root, k, cs); miss != "" {
					site, class := "parser:"+which, "meaning-changed"
					if strings.Contains(miss, ":[") { // a point range whose bound is not the term the literal of the same text gets
						site, class = "parser/token_range.go:parseRangeTerm", "range-bound-not-literal-term"
						if which == "legacy" {
							site = "parser/token_parser.go:parseRangeTerm"
						}
					}
					_ = w
					c.violate(site, class, fmt.Sprintf("%q (case-sensitive=%v) asks for the token %s, which the indexer never stores for the written words: searching returns documents %s, the written expression denotes %s", q, cs, miss, got2, want), replay)
					return
				}
				c.violate("frac/processor/search.go:IndexSearch", "meaning-changed", fmt.Sprintf("searching with %q (order %v, time window %s [%d, %d]) returns documents %s, the written expression denotes %s there", q, order, w.name, w.from, w.to, got2, want), replay)
				return
			}
		}
	}
}

// runRanges: wide, half-open and exclusive ranges against the reference meaning (refRange) over the fake index.
func (c *ctx) runRanges() {
	type rc struct {
		lo, hi       string
		incLo, incHi bool
	}
	cases := []rc{{" v0", "v1", true, true}, {"*", " v1", true, true}, {"v0", "v0 ", false, false}, {"v0", "v0 ", true, false}, {" 5", "5", true, true},
		{"5 ", "*", true, true}, {"5", "5", true, true}, {"4", "6", false, false}, {" 4", "6", true, true}, {"V0", "V2", true, true}, {"vÜ0", "vÜ2", true, true},
		{"Vé0", "vЖ9", true, false}, {"\tv0\t", " v1", true, true}, {"*", "*", true, true}, {"v1 ", "v2", false, true}}
	for _, x := range cases {
		for _, cs := range []bool{false, true} {
			for _, field := range []string{"fk", "ft"} {
				wr := func(b string) string {
					if b == "*" {
						return "*"
					}
					return `"` + b + `"`
				}
				lb, rb := "(", ")"
				if x.incLo {
					lb = "["
				}
				if x.incHi {
					rb = "]"
				}
				q := field + ":" + lb + wr(x.lo) + ", " + wr(x.hi) + rb
				flags := ""
				if cs {
					flags = "cs"
				}
				c.caseTruth("seqql", 3, refRange(3, cs, field, x.lo, x.hi, x.incLo, x.incHi), q, flags+"/noleaf", "wide-ranges")
			}
		}
	}
}

func (c *ctx) runTruth(r *vh.RNG) {
	memo := map[int][]*T{}
	for n := 1; n <= c.o.Pick(5, 7); n++ {
		for _, t := range treesOfSize(n, 3, false, memo) {
			e := fromT(t)
			want := t.table(3)
			for _, legacy := range []bool{false, true} {
				which := "seqql"
				if legacy {
					which = "legacy"
				}
				c.caseTruth(which, 3, want, e.render(style{legacy: legacy}, nil, 0), "", "minimal")
				c.caseTruth(which, 3, want, e.render(style{legacy: legacy, redundant: 8}, nil, 0), "", "full")
				c.caseTruth(which, 3, want, e.render(style{legacy: legacy, wild: true}, nil, 0), "", "patterns")
				if !legacy {
					// a pipe tail does not change which documents the filter selects
					c.caseTruth(which, 3, want, e.render(style{}, nil, 0)+" | fields fk, ft", "", "pipe")
				}
			}
		}
	}
	// directed: phrases on a text field whose words are separated by all kinds of non-word bytes, also invalid UTF-8,
	// also as the last bytes of the phrase (the words are still exactly the written words)
	for _, sep := range []string{" ", "-", "\xff", "\xc3", "\xe2\x82", "\xff\xff\xff", " \xff", "\xff "} {
		for _, atoms := range [][]int{{0, 1}, {0, 1, 2}, {2, 0}} {
			e := &E{op: 't', atoms: atoms, sep: sep}
			want := e.tree().table(3)
			for _, which := range []string{"seqql", "legacy"} {
				q := e.render(style{legacy: which == "legacy"}, nil, 0)
				c.caseTruth(which, 3, want, q, "", "phrase")
				c.caseTruth(which, 3, want, q[:len(q)-1]+sep+`"`, "", "phrase")
				c.caseTruth(which, 3, want, `ft:"`+sep+q[4:], "", "phrase")
			}
		}
	}
	// directed: words that contain runes of the classes No / Nl / Lm / non-ASCII Nd (all word runes for both parsers and
	// for the indexer): a single word, a phrase of two, and negated - on a text field, both query languages
	for _, d := range decos {
		for _, e := range []*E{{op: 'a', atoms: []int{0}, deco: d}, {op: 't', atoms: []int{0, 1}, deco: d}, {op: '!', l: &E{op: 't', atoms: []int{1, 2}, deco: d, sep: "-"}}} {
			want := e.tree().table(3)
			for _, which := range []string{"seqql", "legacy"} {
				c.caseTruth(which, 3, want, e.render(style{legacy: which == "legacy"}, nil, 0), "", "unicode-classes")
			}
		}
	}
	// directed: non-ASCII cased letters inside words (atom, phrase, negation; text and keyword field), both parsers, case
	// sensitivity off and on: the fake index stores what the tokenizers would (unicode.ToLower unless case sensitive)
	for _, d := range casedDecos {
		for _, e := range []*E{{op: 'a', atoms: []int{0}, deco: d}, {op: 't', atoms: []int{0, 1}, deco: d}, {op: '!', l: &E{op: 'a', atoms: []int{1}, deco: d}},
			{op: '&', l: &E{op: 'a', atoms: []int{0}, deco: d}, r: &E{op: '!', l: &E{op: 't', atoms: []int{1, 2}, deco: d}}}} {
			want := e.tree().table(3)
			for _, which := range []string{"seqql", "legacy"} {
				for _, flags := range []string{"", "cs"} {
					c.caseTruth(which, 3, want, e.render(style{legacy: which == "legacy"}, nil, 0), flags, "cased-letters")
				}
			}
		}
	}
	// directed: range bounds and literals keep their bytes (outer whitespace of a quoted value is significant, a bound
	// that is a number only after trimming is a string) and follow the field's case rule like a literal:
	// the point range [X, X] selects what the literal X selects
	for w, at := range wsTokens {
		for _, rng := range []bool{false, true} {
			a := &E{op: 'a', atoms: []int{at}, val: w, rng: rng}
			for _, e := range []*E{a, {op: '!', l: a}, {op: '|', l: a, r: &E{op: 'a', atoms: []int{2}}}} {
				want := e.tree().table(3)
				for _, which := range []string{"seqql", "legacy"} {
					for _, flags := range []string{"", "cs"} {
						c.caseTruth(which, 3, want, e.render(style{legacy: which == "legacy"}, nil, 0), flags, "ranges")
					}
				}
			}
		}
	}
	// upper-case bounds: ASCII (case-insensitive configuration: `[V0, V0]` = `v0`) and the non-ASCII cased letters (both
	// configurations, the fake index follows), in both query languages
	for _, which := range []string{"seqql", "legacy"} {
		st := style{legacy: which == "legacy"}
		for a := 0; a < 3; a++ {
			for _, rng := range []bool{false, true} {
				e := &E{op: 'a', atoms: []int{a}, val: fmt.Sprintf("V%d", a), rng: rng}
				c.caseTruth(which, 3, e.tree().table(3), e.render(st, nil, 0), "", "ranges")
			}
		}
		for _, d := range casedDecos {
			e := &E{op: 'a', atoms: []int{1}, deco: d, rng: true}
			for _, outer := range []*E{e, {op: '&', l: &E{op: 'a', atoms: []int{0}}, r: &E{op: '!', l: e}}} {
				for _, flags := range []string{"", "cs"} {
					c.caseTruth(which, 3, outer.tree().table(3), outer.render(st, nil, 0), flags, "ranges")
				}
			}
		}
	}
	c.runRanges()
	// large posting lists: 512 documents, every atom posted on 256 of them (static leaves with hundreds of values, heavy
	// overlap), every tree up to 4 nodes plus the NAND-producing shapes, both parsers; IndexSearch runs them in both orders
	// and over all time windows
	{
		memo9 := map[int][]*T{}
		var big []*T
		for n := 1; n <= 4; n++ {
			big = append(big, treesOfSize(n, 3, false, memo9)...)
		}
		a, b, cc := leaf(0), leaf(1), leaf(2)
		big = append(big, bin('&', a, not(bin('|', b, cc))), bin('&', bin('|', a, cc), not(b)), not(bin('|', b, not(a))), bin('&', not(b), bin('&', a, not(cc))),
			bin('|', bin('&', a, not(b)), bin('&', b, not(a))), bin('&', not(a), not(b)), bin('&', bin('&', a, not(b)), not(cc)))
		for _, t := range big {
			e := fromT(t)
			want := t.table(9)
			for _, which := range []string{"seqql", "legacy"} {
				c.caseTruth(which, 9, want, e.render(style{legacy: which == "legacy"}, nil, 0), "", "large-postings")
			}
		}
	}
	// directed: `_exists_:in(V0, V1)` is the disjunction `_exists_:V0 or _exists_:V1` (names with an upper-case letter; the
	// builtin field is case sensitive whatever the configuration), also negated and inside a conjunction
	for _, atoms := range [][]int{{0}, {0, 1}, {2, 0, 1}} {
		for _, form := range []string{"in", "or"} {
			x := &E{op: 'x', atoms: atoms, sep: form}
			for _, e := range []*E{x, {op: '!', l: x}, {op: '&', l: x, r: &E{op: 'a', atoms: []int{2}}}} {
				want := e.tree().table(3)
				for _, flags := range []string{"", "cs"} {
					c.caseTruth("seqql", 3, want, e.render(style{}, nil, 0), flags, "exists-in")
					c.caseTruth("legacy", 3, want, e.render(style{legacy: true}, nil, 0), flags, "exists-in")
				}
			}
		}
	}
	// directed: in-lists on a text field whose items are several words (each item is a conjunction, the list a disjunction)
	for _, items := range [][][]int{{{0, 1}}, {{0, 1}, {2}}, {{0}, {1, 2}}, {{0, 1}, {1, 2}}, {{0, 1, 2}, {0}}} {
		e := &E{op: 'j', items: items}
		for _, outer := range []*E{e, {op: '!', l: e}, {op: '&', l: e, r: &E{op: 'a', atoms: []int{2}}}} {
			want := outer.tree().table(3)
			c.caseTruth("seqql", 3, want, outer.render(style{}, nil, 0), "", "in-text")
			c.caseTruth("legacy", 3, want, outer.render(style{legacy: true}, nil, 0), "", "in-text")
		}
	}
	for i := 0; i < c.o.Pick(3000, 40000); i++ {
		k := 2 + r.Intn(3)
		e := randE(r, 1+r.Intn(12), k)
		want := e.tree().table(k)
		legacy := r.Bool()
		which := "seqql"
		if legacy {
			which = "legacy"
		}
		st := style{legacy: legacy, redundant: r.Intn(4), fancy: true}
		q := e.render(st, r, 0)
		if !legacy && r.Chance(1, 4) {
			q += []string{" | fields fk", "| fields except x", " |fields a, b.c", "\n| fields 'q f'"}[r.Intn(4)]
		}
		flags := ""
		if r.Chance(1, 3) {
			flags = "cs"
		}
		c.caseTruth(which, k, want, q, flags, "random")
	}
}

// ---------------------------------------------------------------- oracle total

func (c *ctx) caseTotal(which, mid, q, tag string) {
	beginCase(fmt.Sprintf("total %s %s %s", which, mid, hexs(q)))
	o, _, _ := runParser(which, q, mappingByID(mid))
	endCase()
	c.orTotal.Case(which+" "+mid+" "+q, o.kind != "ok", "parser="+which, "mapping="+mid, "gen="+tag, "result="+o.kind)
	if o.kind == "panic" {
		class := "parser-panics"
		if strings.Contains(o.msg, "index type") {
			class = "panic-unsupported-index-type"
		}
		c.violate(o.site, class, fmt.Sprintf("%s(%q) with mapping %q panicked: %s", which, q, mid, o.msg),
			fmt.Sprintf("total %s %s %s", which, mid, hexs(q)))
	}
}

// caseDeepIn parses a generated deep query in-process (depths that are safe for the stack).
func (c *ctx) caseDeepIn(which, shape string, d int) {
	key := fmt.Sprintf("deepin %s %s %d", which, shape, d)
	beginCase(key)
	o, _, _ := runParser(which, deepQuery(shape, d, which == "legacy"), nil)
	endCase()
	c.orTotal.Case(key, o.kind != "ok", "parser="+which, "gen=deepin-"+shape, "result="+o.kind)
	if o.kind == "panic" {
		c.violate(o.site, "parser-panics", fmt.Sprintf("%s on %s x %d panicked: %s", which, shape, d, o.msg), key)
	}
}

var hostileFields = []string{"fk", "ft", "fp", "fo", "fg", "fn", "fe", "fz", "fu", "fm", "fm.keyword", "_all_", "_exists_", "_index",
	"service", "message", "process", "tags", "spans", "process.tags", "request_uri", "not", "and", "in", "to", "fields", "", "*", "f*", `"fk"`, "'fo'", "`fg`"}

var hostileValues = []string{`"a\"`, `'it\'s`, `"payment \"failed and level:3`, `"x\\\"`, "v²1", "\"v½ ①\"", "〇ʰ٣", "a\u0301b", "a", "abc", "a*", "*a", "*", "**", "a*b*c", `"a b"`, `'a b'`, "`a b`", `"a\"b"`, `'a\'b'`, `"a\\"`, `"\*"`, `"*"`, `'\x41'`,
	`"é"`, `"\xff"`, "\xff", "\xc3", "", "ab", "[1, 5]", "(1, 5]", "[1 to 5)", "[a TO b]", "{a TO b}", "[* TO 5]", "[1, *]", "[*, *]", "[a, b, c]",
	"in(a, b)", "in(a)", "in()", "in(a,)", "in(a b)", "IN('a', `b`, \"c*\")", "a-b", "a_b.c", "-", "--a", "a:b", "", " ", "\"", "'", "`", "\\", "\\*", "a\\ b", "a\\-b",
	"http://x/y", "@gmail.com", "$", "a$", "(a)", "1e308", "é", "K", "İ", "日本", "\"ab\xffcdef gh\"", "\"\xff\"", "'a\xff'", "`\xc3`", "\"caf\xe9\"", "\"a \xe2\x82\"", "a\tb", "a\nb", "`a\rb`", "`\r`", "'a\rb'", "# c\n a", "a # c", "a|b", "a,b"}

var hostileGlue = []string{" and ", " or ", " AND ", " OR ", " not ", " NOT ", " and not ", " ", "", " | ", " | fields ", " | fields except ", ", ", "(", ")", " ( ", " ) ",
	" # comment\n", "\n", "\t", " | fields a, b", " | fields a | fields b", " | unknown", " |", "| fields", " and (", ") or "}

func hostileString(r *vh.RNG) string {
	var sb strings.Builder
	n := 1 + r.Intn(5)
	for i := 0; i < n; i++ {
		if r.Chance(1, 5) {
			sb.WriteString([]string{"(", "not ", "NOT ", "((", "not (", "* and "}[r.Intn(6)])
		}
		sb.WriteString(hostileFields[r.Intn(len(hostileFields))])
		sb.WriteString([]string{":", ":", ":", ": ", " : ", "", "::"}[r.Intn(7)])
		sb.WriteString(hostileValues[r.Intn(len(hostileValues))])
		if r.Chance(1, 6) {
			sb.WriteString(")")
		}
		if i+1 < n || r.Chance(1, 4) {
			sb.WriteString(hostileGlue[r.Intn(len(hostileGlue))])
		}
	}
	s := sb.String()
	// byte-level mutations
	alphabet := "()[]{}:\"'`\\*|,#-_.$ \n\t\xff\xc3aA0"
	for m := r.Intn(3); m > 0 && len(s) > 0; m-- {
		j := r.Intn(len(s))
		switch r.Intn(4) {
		case 0:
			s = s[:j] + s[j+1:]
		case 1:
			s = s[:j] + string(alphabet[r.Intn(len(alphabet))]) + s[j:]
		case 2:
			s = s[:j] + string(alphabet[r.Intn(len(alphabet))]) + s[j+1:]
		case 3:
			s = s[:j]
		}
	}
	return s
}

// goodString generates a mostly well-formed SeqQL query with rich atoms.
func goodString(r *vh.RNG) string {
	fields := []string{"fk", "ft", "fp", "fm", "fm.keyword", "_all_", "_exists_", "service", "message", "level", "request_uri", `"fk"`, "'ft'", "f*"}
	words := []string{"a", "abc", "Error", "payment-api", "a_b.c", "x1", "Ünïcode", "日本語", "K", "İstanbul", "ǅ", "ß", "1e3", "-5", "a-b-c", "some*", "*end", "mi*dle", "*", "**",
		`"two words"`, `'single q'`, "`raw \n str`", `"esc"aped"`, `"wild*card"`, `"lit\*star"`, `"tab	here"`, `"unié"`, `'a'b`, `a"b"c`, `"a""b"`, "`a``b`", `"A B  C"`, `"x:y/z"`, `" lead"`, `""`, `''`}
	var atom func() string
	atom = func() string {
		f := fields[r.Intn(len(fields))]
		switch r.Intn(8) {
		case 0:
			lo, hi := words[r.Intn(len(words))], words[r.Intn(len(words))]
			return f + ":" + string("[("[r.Intn(2)]) + lo + []string{", ", ",", " to ", " TO "}[r.Intn(4)] + hi + string("])"[r.Intn(2)])
		case 1:
			n := 1 + r.Intn(4)
			vs := make([]string, n)
			for i := range vs {
				vs[i] = words[r.Intn(len(words))]
			}
			return f + ":" + []string{"in", "IN", "In"}[r.Intn(3)] + "(" + strings.Join(vs, []string{", ", ",", " , "}[r.Intn(3)]) + ")"
		case 2:
			return f + ": " + words[r.Intn(len(words))]
		}
		return f + ":" + words[r.Intn(len(words))]
	}
	var expr func(d int) string
	expr = func(d int) string {
		if d <= 0 || r.Chance(2, 5) {
			return atom()
		}
		switch r.Intn(5) {
		case 0:
			return []string{"not ", "NOT ", "Not "}[r.Intn(3)] + expr(d-1)
		case 1:
			return "(" + expr(d-1) + ")"
		case 2:
			return expr(d-1) + []string{" or ", " OR "}[r.Intn(2)] + expr(d-1)
		}
		return expr(d-1) + []string{" and ", " AND ", "  and\n"}[r.Intn(3)] + expr(d-1)
	}
	s := expr(1 + r.Intn(4))
	if r.Chance(1, 10) {
		s = "* and " + s
	}
	if r.Chance(1, 5) {
		s += []string{" | fields a", " | fields a, b.c", " | fields except a,b", " | fields 'q f', *x", "|fields a b"}[r.Intn(5)]
	}
	if r.Chance(1, 10) {
		s = "# comment\n" + s
	}
	return s
}

func (c *ctx) runLex(r *vh.RNG) {
	mids := []string{"full", "test", "safe", "nil"}
	// directed: every field x value shapes
	for _, f := range hostileFields {
		for _, v := range hostileValues {
			c.caseLex("full", false, f+":"+v, "directed")
		}
	}
	for _, v := range hostileValues {
		for _, mid := range mids {
			c.caseLex(mid, true, "ft:"+v, "directed")
			c.caseLex(mid, false, "fk:"+v+" and ft:"+v, "directed")
			c.caseLex(mid, false, "fp:["+v+", "+v+"]", "directed")
			c.caseLex(mid, false, "fk:in("+v+", "+v+")", "directed")
			c.caseLex(mid, false, "fk:a | fields "+v, "directed")
		}
	}
	for i := 0; i < c.o.Pick(15000, 250000); i++ {
		c.caseLex(mids[r.Intn(4)], r.Bool(), goodString(r), "good")
	}
	for i := 0; i < c.o.Pick(15000, 250000); i++ {
		c.caseLex(mids[r.Intn(4)], r.Bool(), hostileString(r), "hostile")
	}
	// mutated good strings
	alphabet := "()[]{}:\"'`\\*|,#-_.$ \n\t\xff\xc3aA0"
	for i := 0; i < c.o.Pick(10000, 150000); i++ {
		s := goodString(r)
		for m := 1 + r.Intn(2); m > 0 && len(s) > 0; m-- {
			j := r.Intn(len(s))
			switch r.Intn(3) {
			case 0:
				s = s[:j] + s[j+1:]
			case 1:
				s = s[:j] + string(alphabet[r.Intn(len(alphabet))]) + s[j:]
			case 2:
				s = s[:j] + string(alphabet[r.Intn(len(alphabet))]) + s[j+1:]
			}
		}
		c.caseLex(mids[r.Intn(4)], r.Bool(), s, "mutated")
	}
}

func (c *ctx) runTotal(r *vh.RNG) {
	// directed: every field x a few value shapes x every mapping x every parser (the smallest witnesses come first)
	for _, f := range hostileFields {
		for _, v := range []string{"a", `"a b"`, "[1, 5]", "[1 TO 5]", "in(a, b)", "a*", ""} {
			for _, mid := range []string{"full", "test", "safe", "nil"} {
				for _, which := range []string{"seqql", "legacy"} {
					c.caseTotal(which, mid, f+":"+v, "directed")
				}
			}
			c.caseTotal("agg", "nil", f+":"+v, "directed")
		}
	}
	for _, v := range hostileValues {
		for _, mid := range []string{"full", "nil"} {
			for _, which := range []string{"seqql", "legacy"} {
				c.caseTotal(which, mid, "fk:"+v, "values")
				c.caseTotal(which, mid, "ft:"+v, "values")
				c.caseTotal(which, mid, v, "values")
			}
		}
		c.caseTotal("agg", "nil", "fk:"+v, "values")
		c.caseTotal("agg", "nil", v, "values")
	}
	for _, g := range hostileGlue {
		for _, which := range []string{"seqql", "legacy"} {
			c.caseTotal(which, "full", "fk:a"+g+"ft:b", "glue")
			c.caseTotal(which, "full", "fk:a"+g, "glue")
			c.caseTotal(which, "full", g+"fk:a", "glue")
			c.caseTotal(which, "full", g, "glue")
		}
	}
	mids := []string{"full", "test", "safe", "nil"}
	whichs := []string{"seqql", "seqql", "legacy", "legacy", "agg"}
	for i := 0; i < c.o.Pick(30000, 600000); i++ {
		c.caseTotal(whichs[r.Intn(len(whichs))], mids[r.Intn(len(mids))], hostileString(r), "random")
	}
	// moderately deep nesting in-process (the really deep ones run in a child process, see deep.go)
	for _, d := range []int{100, 1000, 10000, c.o.Pick(50000, 200000)} {
		for _, which := range []string{"seqql", "legacy"} {
			for _, shape := range []string{"paren", "not", "open", "notparen", "orchain", "andnotchain"} {
				c.caseDeepIn(which, shape, d)
			}
		}
	}
}
