package main

import (
	"encoding/hex"
	"fmt"
	"sort"
	"strings"
	"unicode"
	"unicode/utf8"

	"github.com/ozontech/seq-db/conf"
	"github.com/ozontech/seq-db/parser"
	"github.com/ozontech/seq-db/seq"

	"verifharness/internal/vh"
)

// Channel seqql.lex: the real lexer's token stream (VerifLex), annotated with Go's own unicode tables and the
// answers of strings.EqualFold for the parser's keywords, is given to the Lean model of the whole SeqQL parser
// (SV.Parser.parseSeqQL: field filters, composite tokens, ranges, in-lists, term builders, pipes, skeleton,
// propagateNot); its answer is compared with parser.ParseSeqQL on the same string.

var kwTable = []struct{ name, text string }{
	{"empty", ""}, {"and", "and"}, {"or", "or"}, {"not", "not"}, {"lp", "("}, {"rp", ")"}, {"lbr", "["}, {"rbr", "]"},
	{"comma", ","}, {"colon", ":"}, {"pipe", "|"}, {"in", "in"}, {"to", "to"}, {"fields", "fields"}, {"except", "except"},
	{"star", ""},
}

func kwOf(t parser.VerifLexToken) string {
	if t.Quoted {
		return "none"
	}
	for _, k := range kwTable {
		if strings.EqualFold(t.Token, k.text) {
			return k.name
		}
	}
	return "none"
}

func runesOf(s string) string {
	if s == "" {
		return "-"
	}
	var parts []string
	for len(s) > 0 {
		r, size := utf8.DecodeRuneInString(s)
		parts = append(parts, fmt.Sprintf("%s/%d/%s%s%s/%d", hex.EncodeToString([]byte(s[:size])), r,
			vh.B(unicode.IsLetter(r)), vh.B(unicode.IsNumber(r)), vh.B(unicode.IsDigit(r)), unicode.ToLower(r)))
		s = s[size:]
	}
	return strings.Join(parts, ".")
}

func decodeAll(s string) []rune {
	var rs []rune
	for len(s) > 0 {
		r, size := utf8.DecodeRuneInString(s)
		rs = append(rs, r)
		s = s[size:]
	}
	return rs
}

// recombines reports whether decoding the concatenation of two adjacent tokens differs from decoding them separately
// (invalid UTF-8 at a token boundary); the model assumes it does not.
func recombines(a, b string) bool {
	x := decodeAll(a + b)
	y := append(decodeAll(a), decodeAll(b)...)
	if len(x) != len(y) {
		return true
	}
	for i := range x {
		if x[i] != y[i] {
			return true
		}
	}
	return false
}

func typeChar(t seq.TokenizerType) string {
	switch t {
	case seq.TokenizerTypeKeyword:
		return "k"
	case seq.TokenizerTypeText:
		return "t"
	case seq.TokenizerTypeObject:
		return "o"
	case seq.TokenizerTypeTags:
		return "g"
	case seq.TokenizerTypePath:
		return "p"
	case seq.TokenizerTypeNested:
		return "n"
	case seq.TokenizerTypeExists:
		return "e"
	}
	return "z"
}

func modelMappingOf(m seq.Mapping) string {
	if m == nil {
		return "nil"
	}
	if len(m) == 0 {
		return "-"
	}
	var names []string
	for n := range m {
		names = append(names, n)
	}
	sort.Strings(names)
	parts := make([]string, len(names))
	for i, n := range names {
		parts[i] = hexs(n) + "=" + typeChar(m[n].Main.TokenizerType)
	}
	return strings.Join(parts, ",")
}

func cps(s string) string {
	rs := []rune(s)
	p := make([]string, len(rs))
	for i, r := range rs {
		p[i] = fmt.Sprint(int(r))
	}
	return strings.Join(p, "_")
}

func termS(t parser.Term) string {
	if t.Kind == parser.TermSymbol {
		return "s" + cps(t.Data)
	}
	return "t" + cps(t.Data)
}

func leafS(tok parser.Token) (string, error) {
	switch v := tok.(type) {
	case *parser.Literal:
		s := "L" + hexs(v.Field)
		for _, t := range v.Terms {
			s += "~" + termS(t)
		}
		return s, nil
	case *parser.Range:
		return "R" + hexs(v.Field) + "~" + termS(v.From) + "~" + termS(v.To) + "~" + vh.B(v.IncludeFrom) + vh.B(v.IncludeTo), nil
	}
	return "", fmt.Errorf("unknown leaf %T", tok)
}

func treeS(n *parser.ASTNode, out *[]string) error {
	if n == nil {
		return fmt.Errorf("nil node")
	}
	lg, is := n.Value.(*parser.Logical)
	if !is {
		s, err := leafS(n.Value)
		if err != nil {
			return err
		}
		*out = append(*out, s)
		return nil
	}
	var op string
	want := 2
	switch lg.Operator {
	case parser.LogicalAnd:
		op = "&"
	case parser.LogicalOr:
		op = "|"
	case parser.LogicalNAnd:
		op = "^"
	case parser.LogicalNot:
		op, want = "!", 1
	default:
		return fmt.Errorf("unknown operator")
	}
	if len(n.Children) != want {
		return fmt.Errorf("bad arity")
	}
	*out = append(*out, op)
	for _, c := range n.Children {
		if err := treeS(c, out); err != nil {
			return err
		}
	}
	return nil
}

func pipesS(ps []parser.Pipe) string {
	if len(ps) == 0 {
		return "-"
	}
	var parts []string
	for _, p := range ps {
		pf, ok := p.(*parser.PipeFields)
		if !ok {
			parts = append(parts, "P?")
			continue
		}
		s := "Pi"
		if pf.Except {
			s = "Pe"
		}
		for _, f := range pf.Fields {
			s += "~" + hexs(f)
		}
		parts = append(parts, s)
	}
	return strings.Join(parts, ",")
}

func (c *ctx) caseLex(mid string, cs bool, q string, tag string) {
	beginCase("lex " + mid + " " + q)
	defer endCase()
	m := mappingByID(mid)
	toks, ended := parser.VerifLex(q, len(q)+2)
	if !ended {
		c.violate("parser/seqql.go:Next", "no-termination", fmt.Sprintf("the lexer does not reach the end of %q within len+2 tokens", q),
			fmt.Sprintf("lex %s %s %s", mid, vh.B(cs), hexs(q)))
		return
	}
	for i := 0; i+1 < len(toks); i++ {
		if recombines(toks[i].Token, toks[i+1].Token) {
			c.chLex.Tag("skipped=recombining-invalid-utf8")
			return
		}
	}
	parts := make([]string, len(toks))
	for i, t := range toks {
		fl := "-"
		if t.Quoted {
			fl = "q"
		}
		if t.SpaceSkipped {
			fl += "s"
		} else {
			fl += "-"
		}
		parts[i] = fl + ":" + kwOf(t) + ":" + runesOf(t.Token)
	}
	ts := "-"
	if len(parts) > 0 {
		ts = strings.Join(parts, ";")
	}
	req := fmt.Sprintf("sqlex %s %s %s", vh.B(cs), modelMappingOf(m), ts)
	conf.CaseSensitive = cs
	var impl string
	var res parser.SeqQLQuery
	var err error
	p, _, _ := guarded(func() { res, err = parser.ParseSeqQL(q, m) })
	conf.CaseSensitive = false
	switch {
	case p:
		impl = "panic"
	case err != nil:
		impl = "err"
	default:
		var out []string
		if e := treeS(res.Root, &out); e != nil {
			impl = "ok ?" + e.Error()
		} else {
			impl = "ok " + strings.Join(out, ",") + " " + pipesS(res.Pipes)
		}
	}
	kind := strings.Fields(impl)[0]
	c.chLex.Add(req, impl, kind == "ok" && len(toks) > 3, "result="+kind, "gen="+tag, "mapping="+mid, fmt.Sprintf("ntok=%d", min(len(toks), 40)/5*5))
}
