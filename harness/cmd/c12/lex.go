package main

import (
	"encoding/hex"
	"fmt"
	"sort"
	"strconv"
	"strings"
	"unicode"
	"unicode/utf8"

	"github.com/ozontech/seq-db/conf"
	"github.com/ozontech/seq-db/parser"
	"github.com/ozontech/seq-db/seq"

	"verifharness/internal/vh"
)

// Channel seqql.lex: the real lexer's token stream (VerifLex), annotated with Go's own unicode tables and the
// answers of strings.EqualFold for the parser's keywords, is given to the Lean model of the whole SeqQL parser
// (SV.Parser.parseSeqQL: field filters, composite tokens, ranges, in-lists, term builders, pipes, skeleton,
// propagateNot); its answer is compared with parser.ParseSeqQL on the same string.

var kwTable = []struct{ name, text string }{
	{"empty", ""}, {"and", "and"}, {"or", "or"}, {"not", "not"}, {"lp", "("}, {"rp", ")"}, {"lbr", "["}, {"rbr", "]"},
	{"comma", ","}, {"colon", ":"}, {"pipe", "|"}, {"in", "in"}, {"to", "to"}, {"fields", "fields"}, {"except", "except"},
	{"star", ""},
}

func kwOf(t parser.VerifLexToken) string {
	if t.Quoted {
		return "none"
	}
	for _, k := range kwTable {
		if strings.EqualFold(t.Token, k.text) {
			return k.name
		}
	}
	return "none"
}

func runesOf(s string) string {
	if s == "" {
		return "-"
	}
	var parts []string
	for len(s) > 0 {
		r, size := utf8.DecodeRuneInString(s)
		parts = append(parts, rnS(s[:size], r))
		s = s[size:]
	}
	return strings.Join(parts, ".")
}

// rnS is the model's view of one rune: the bytes it came from, the code point and what Go's unicode tables say.
func rnS(raw string, r rune) string {
	return fmt.Sprintf("%s/%d/%s%s%s%s/%d", hex.EncodeToString([]byte(raw)), r,
		vh.B(unicode.IsLetter(r)), vh.B(unicode.IsNumber(r)), vh.B(unicode.IsDigit(r)), vh.B(unicode.IsSpace(r)), unicode.ToLower(r))
}

func decodeAll(s string) []rune {
	var rs []rune
	for len(s) > 0 {
		r, size := utf8.DecodeRuneInString(s)
		rs = append(rs, r)
		s = s[size:]
	}
	return rs
}

// recombines reports whether decoding the concatenation of two adjacent tokens differs from decoding them separately
// (invalid UTF-8 at a token boundary); the model assumes it does not.
func recombines(a, b string) bool {
	x := decodeAll(a + b)
	y := append(decodeAll(a), decodeAll(b)...)
	if len(x) != len(y) {
		return true
	}
	for i := range x {
		if x[i] != y[i] {
			return true
		}
	}
	return false
}

func typeChar(t seq.TokenizerType) string {
	switch t {
	case seq.TokenizerTypeKeyword:
		return "k"
	case seq.TokenizerTypeText:
		return "t"
	case seq.TokenizerTypeObject:
		return "o"
	case seq.TokenizerTypeTags:
		return "g"
	case seq.TokenizerTypePath:
		return "p"
	case seq.TokenizerTypeNested:
		return "n"
	case seq.TokenizerTypeExists:
		return "e"
	}
	return "z"
}

func modelMappingOf(m seq.Mapping) string {
	if m == nil {
		return "nil"
	}
	if len(m) == 0 {
		return "-"
	}
	var names []string
	for n := range m {
		names = append(names, n)
	}
	sort.Strings(names)
	parts := make([]string, len(names))
	for i, n := range names {
		parts[i] = hexs(n) + "=" + typeChar(m[n].Main.TokenizerType)
	}
	return strings.Join(parts, ",")
}

func cps(s string) string {
	rs := []rune(s)
	p := make([]string, len(rs))
	for i, r := range rs {
		p[i] = fmt.Sprint(int(r))
	}
	return strings.Join(p, "_")
}

func termS(t parser.Term) string {
	if t.Kind == parser.TermSymbol {
		return "s" + cps(t.Data)
	}
	return "t" + cps(t.Data)
}

func leafS(tok parser.Token) (string, error) {
	switch v := tok.(type) {
	case *parser.Literal:
		s := "L" + hexs(v.Field)
		for _, t := range v.Terms {
			s += "~" + termS(t)
		}
		return s, nil
	case *parser.Range:
		return "R" + hexs(v.Field) + "~" + termS(v.From) + "~" + termS(v.To) + "~" + vh.B(v.IncludeFrom) + vh.B(v.IncludeTo), nil
	}
	return "", fmt.Errorf("unknown leaf %T", tok)
}

func treeS(n *parser.ASTNode, out *[]string) error {
	if n == nil {
		return fmt.Errorf("nil node")
	}
	lg, is := n.Value.(*parser.Logical)
	if !is {
		s, err := leafS(n.Value)
		if err != nil {
			return err
		}
		*out = append(*out, s)
		return nil
	}
	var op string
	want := 2
	switch lg.Operator {
	case parser.LogicalAnd:
		op = "&"
	case parser.LogicalOr:
		op = "|"
	case parser.LogicalNAnd:
		op = "^"
	case parser.LogicalNot:
		op, want = "!", 1
	default:
		return fmt.Errorf("unknown operator")
	}
	if len(n.Children) != want {
		return fmt.Errorf("bad arity")
	}
	*out = append(*out, op)
	for _, c := range n.Children {
		if err := treeS(c, out); err != nil {
			return err
		}
	}
	return nil
}

func pipesS(ps []parser.Pipe) string {
	if len(ps) == 0 {
		return "-"
	}
	var parts []string
	for _, p := range ps {
		pf, ok := p.(*parser.PipeFields)
		if !ok {
			parts = append(parts, "P?")
			continue
		}
		s := "Pi"
		if pf.Except {
			s = "Pe"
		}
		for _, f := range pf.Fields {
			s += "~" + hexs(f)
		}
		parts = append(parts, s)
	}
	return strings.Join(parts, ",")
}

func (c *ctx) caseLex(mid string, cs bool, q string, tag string) {
	beginCase(fmt.Sprintf("lex %s %s %s", mid, vh.B(cs), hexs(q)))
	defer endCase()
	m := mappingByID(mid)
	toks, ended, lp := safeLex(c, q, fmt.Sprintf("lex %s %s %s", mid, vh.B(cs), hexs(q)))
	if lp {
		return
	}
	if !ended {
		c.violate("parser/seqql.go:Next", "no-termination", fmt.Sprintf("the lexer does not reach the end of %q within len+2 tokens", q),
			fmt.Sprintf("lex %s %s %s", mid, vh.B(cs), hexs(q)))
		return
	}
	for i := 0; i+1 < len(toks); i++ {
		if recombines(toks[i].Token, toks[i+1].Token) {
			c.chLex.Tag("skipped=recombining-invalid-utf8")
			return
		}
	}
	parts := make([]string, len(toks))
	for i, t := range toks {
		fl := "-"
		if t.Quoted {
			fl = "q"
		}
		if t.SpaceSkipped {
			fl += "s"
		} else {
			fl += "-"
		}
		parts[i] = fl + ":" + kwOf(t) + ":" + runesOf(t.Token)
	}
	ts := "-"
	if len(parts) > 0 {
		ts = strings.Join(parts, ";")
	}
	req := fmt.Sprintf("sqlex %s %s %s", vh.B(cs), modelMappingOf(m), ts)
	conf.CaseSensitive = cs
	var impl string
	var res parser.SeqQLQuery
	var err error
	p, _, _ := guarded(func() { res, err = parser.ParseSeqQL(q, m) })
	conf.CaseSensitive = false
	switch {
	case p:
		impl = "panic"
	case err != nil:
		impl = "err"
	default:
		var out []string
		if e := treeS(res.Root, &out); e != nil {
			impl = "ok ?" + e.Error()
		} else {
			impl = "ok " + strings.Join(out, ",") + " " + pipesS(res.Pipes)
		}
	}
	kind := strings.Fields(impl)[0]
	if c.nLex > 0 && c.nLex%20000 == 0 {
		c.chLex.Flush(c.o.Driver) // keep the queue of pending requests small
	}
	c.nLex++
	c.chLex.Add(req, impl, kind == "ok" && len(toks) > 3, "result="+kind, "gen="+tag, "mapping="+mid, fmt.Sprintf("ntok=%d", min(len(toks), 40)/5*5))
}

// Channel legacy.str: ParseQuery / ParseAggregationFilter on strings vs the rune-level model of the legacy parser
// (SV.Parser.parseQueryRunes / parseAggFilter) run on []rune(query) annotated with Go's unicode tables.

func runesOfLegacy(q string) string {
	rs := []rune(q)
	if len(rs) == 0 {
		return "-"
	}
	parts := make([]string, len(rs))
	for i, r := range rs {
		parts[i] = rnS(string(r), r)
	}
	return strings.Join(parts, ".")
}

func (c *ctx) caseLegacyStr(mid string, cs bool, q string, tag string) {
	beginCase(fmt.Sprintf("lgstrq %s %s %s", mid, vh.B(cs), hexs(q)))
	defer endCase()
	m := mappingByID(mid)
	rs := runesOfLegacy(q)
	conf.CaseSensitive = cs
	var root *parser.ASTNode
	var err error
	p, _, _ := guarded(func() { root, err = parser.ParseQuery(q, m) })
	impl := "panic"
	switch {
	case p:
	case err != nil:
		impl = "err"
	default:
		var out []string
		if e := treeS(root, &out); e != nil {
			impl = "ok ?" + e.Error()
		} else {
			impl = "ok " + strings.Join(out, ",")
		}
	}
	if c.nLg > 0 && c.nLg%20000 == 0 {
		c.chLgStr.Flush(c.o.Driver)
	}
	c.nLg++
	kind := strings.Fields(impl)[0]
	c.chLgStr.Add(fmt.Sprintf("lgstr %s %s %s", vh.B(cs), modelMappingOf(m), rs), impl, kind == "ok" && len(q) > 8, "result="+kind, "gen="+tag, "mapping="+mid)
	// aggregation filter (no mapping)
	var lit *parser.Literal
	p, _, _ = guarded(func() { lit, err = parser.ParseAggregationFilter(q) })
	conf.CaseSensitive = false
	impl = "panic"
	switch {
	case p:
	case err != nil:
		impl = "err"
	case lit == nil:
		impl = "ok -"
	default:
		s, _ := leafS(lit)
		impl = "ok " + s
	}
	c.chLgStr.Add(fmt.Sprintf("aggstr %s %s", vh.B(cs), rs), impl, strings.HasPrefix(impl, "ok L"), "agg="+strings.Fields(impl)[0])
}

// goodLegacy generates a mostly well-formed legacy query.
func goodLegacy(r *vh.RNG) string {
	fields := []string{"fk", "ft", "fp", "fm", "fm.keyword", "_all_", "_exists_", "service", "message", "level", "request_uri"}
	words := []string{"v²1", "½", "x① y〇", "ʰa", "٣٤", "a\u0301b", "a", "abc", "Error", "payment\\-api", "a_b.c", "x1", "Ünïcode", "日本語", "K", "İstanbul", "1e3", "a\\-b", "some*", "*end", "mi*dle", "*", "a\\ b", "a\\:b", "a\\/b",
		`"two words"`, `"esc\\"aped"`, `"wild*card"`, `"lit\\*star"`, `"back\\\\slash"`, `"odd\\qescape"`, `"A B  C"`, `"x:y/z"`, `""`, `"a-b"`, "a-b", "http"}
	var atom func() string
	atom = func() string {
		f := fields[r.Intn(len(fields))]
		switch r.Intn(7) {
		case 0:
			lo, hi := words[r.Intn(len(words))], words[r.Intn(len(words))]
			return f + ":" + string("[{"[r.Intn(2)]) + lo + []string{" TO ", " to ", " To "}[r.Intn(3)] + hi + string("]}"[r.Intn(2)])
		case 1:
			return f + ": " + words[r.Intn(len(words))]
		}
		return f + ":" + words[r.Intn(len(words))]
	}
	var expr func(d int) string
	expr = func(d int) string {
		if d <= 0 || r.Chance(2, 5) {
			return atom()
		}
		switch r.Intn(5) {
		case 0:
			return []string{"NOT ", "not ", "Not "}[r.Intn(3)] + expr(d-1)
		case 1:
			return "(" + expr(d-1) + ")"
		case 2:
			return expr(d-1) + []string{" OR ", " or "}[r.Intn(2)] + expr(d-1)
		}
		return expr(d-1) + []string{" AND ", " and ", "  And\t"}[r.Intn(3)] + expr(d-1)
	}
	return expr(1 + r.Intn(4))
}

func (c *ctx) runLegacyStr(r *vh.RNG) {
	mids := []string{"full", "test", "safe", "nil"}
	for _, f := range hostileFields {
		for _, v := range hostileValues {
			c.caseLegacyStr("full", false, f+":"+v, "directed")
		}
	}
	for _, v := range hostileValues {
		for _, mid := range mids {
			c.caseLegacyStr(mid, true, "ft:"+v, "directed")
			c.caseLegacyStr(mid, false, "fk:"+v+" AND ft:"+v, "directed")
			c.caseLegacyStr(mid, false, "fp:["+v+" TO "+v+"]", "directed")
			c.caseLegacyStr(mid, false, "("+v+")", "directed")
		}
	}
	for i := 0; i < c.o.Pick(15000, 250000); i++ {
		c.caseLegacyStr(mids[r.Intn(4)], r.Bool(), goodLegacy(r), "good")
	}
	for i := 0; i < c.o.Pick(15000, 250000); i++ {
		c.caseLegacyStr(mids[r.Intn(4)], r.Bool(), hostileString(r), "hostile")
	}
	alphabet := "()[]{}:\"'`\\*|,#-_.$ \n\t\xff\xc3aA0"
	for i := 0; i < c.o.Pick(10000, 150000); i++ {
		s := goodLegacy(r)
		for m := 1 + r.Intn(2); m > 0 && len(s) > 0; m-- {
			j := r.Intn(len(s))
			switch r.Intn(3) {
			case 0:
				s = s[:j] + s[j+1:]
			case 1:
				s = s[:j] + string(alphabet[r.Intn(len(alphabet))]) + s[j:]
			case 2:
				s = s[:j] + string(alphabet[r.Intn(len(alphabet))]) + s[j+1:]
			}
		}
		c.caseLegacyStr(mids[r.Intn(4)], r.Bool(), s, "mutated")
	}
}

// Channel seqql.lexer: the real lexer's token stream (VerifLex) vs SV.Parser.lexAll on the runes of the query,
// annotated with Go's unicode tables and with strconv.UnquoteChar's answer at every position (both quote characters).

func uqS(q string, quote byte) string {
	v, _, tail, err := strconv.UnquoteChar(q, quote)
	if err != nil {
		return "-"
	}
	consumed := q[:len(q)-len(tail)]
	return rnS(string(v), v) + "~" + strconv.Itoa(len(decodeAll(consumed)))
}

// safeLex runs the real lexer under recover: a panic of the lexer on an input is a violation with that input as replay.
func safeLex(c *ctx, q string, replay string) (toks []parser.VerifLexToken, ended bool, panicked bool) {
	p, site, msg := guarded(func() { toks, ended = parser.VerifLex(q, len(q)+2) })
	if p {
		c.violate(site, "parser-panics", fmt.Sprintf("the SeqQL lexer panicked on %q: %s", q, msg), replay)
		return nil, false, true
	}
	return toks, ended, false
}

func lexerRequest(q string) string {
	var parts []string
	for i := 0; i < len(q); {
		r, size := utf8.DecodeRuneInString(q[i:])
		parts = append(parts, rnS(q[i:i+size], r)+"!"+uqS(q[i:], '\'')+"!"+uqS(q[i:], '"'))
		i += size
	}
	if len(parts) == 0 {
		return "lexer -"
	}
	return "lexer " + strings.Join(parts, ".")
}

func (c *ctx) caseLexer(q string, tag string) {
	beginCase("lexerq " + hexs(q))
	defer endCase()
	toks, ended, lp := safeLex(c, q, "lexerq "+hexs(q))
	if lp {
		// the implementation panicked: still ask the model, so that the channel records the disagreement
		c.chLexer.Add(lexerRequest(q), "panic", true, "gen="+tag, "result=panic")
		return
	}
	if !ended {
		c.violate("parser/seqql.go:Next", "no-termination", fmt.Sprintf("the lexer does not reach the end of %q within len+2 tokens", q), "lexerq "+hexs(q))
		return
	}
	req := lexerRequest(q)
	ts := make([]string, len(toks))
	for i, t := range toks {
		fl := []byte("---")
		if t.Quoted {
			fl[0] = 'q'
		}
		if t.SpaceSkipped {
			fl[1] = 's'
		}
		if t.Raw && t.Quoted {
			fl[2] = 'r'
		}
		ts[i] = string(fl) + ":" + hexs(t.Token)
	}
	impl := "ok -"
	if len(ts) > 0 {
		impl = "ok " + strings.Join(ts, ";")
	}
	if c.nLexer > 0 && c.nLexer%20000 == 0 {
		c.chLexer.Flush(c.o.Driver)
	}
	c.nLexer++
	quoted := false
	for _, t := range toks {
		quoted = quoted || t.Quoted
	}
	c.chLexer.Add(req, impl, quoted || len(toks) > 4, "gen="+tag, fmt.Sprintf("ntok=%d", min(len(toks), 40)/5*5), "quoted="+vh.B(quoted))
}

func (c *ctx) runLexer(r *vh.RNG) {
	// exhaustive: every string over a small hostile alphabet up to a length bound
	alpha := []string{"a", " ", "'", "\"", "`", "\\", "*", "#", "\n", ":", "x", "\xff", "é", "n", "u", "0", "-", "(", "\r"}
	var rec func(prefix string, n int)
	rec = func(prefix string, n int) {
		c.caseLexer(prefix, "exhaustive")
		if n == 0 {
			return
		}
		for _, a := range alpha {
			rec(prefix+a, n-1)
		}
	}
	rec("", c.o.Pick(3, 4))
	for _, v := range []string{`service:"a\"`, `service:'it\'s`, `message:"payment \"failed and level:3`, `"\"`, `'\'`, `"a\\"`, `"a\\\"`, `"*\"`, `'a*\'b`,
		`"\*`, `"a\`, "`a", `"`, `'`, `"ab`, `"a*`, `"a\"b\"`, `f:"x\" and g:"y"`, `f:'x\' or g:'y'`} {
		c.caseLexer(v, "unterminated")
		c.caseLex("nil", false, v, "unterminated")
		c.caseLex("full", false, "fk:"+v, "unterminated")
	}
	for _, v := range hostileValues {
		c.caseLexer(v, "values")
		c.caseLexer("fk:"+v+" and "+v, "values")
	}
	esc := []string{`\n`, `\t`, `\\`, `\"`, `\'`, `\x41`, `\x4`, `\u00e9`, `\u00e`, `\U0001F600`, `\101`, `\8`, `\q`, `\*`, `*`, `\`, "é", "\xff", "\xc3", "a", " ", "`", "'", `"`, "#", "\n", "\r", "\r\n"}
	for i := 0; i < c.o.Pick(20000, 300000); i++ {
		var sb strings.Builder
		for k := r.Intn(4); k >= 0; k-- {
			switch r.Intn(4) {
			case 0:
				sb.WriteString(hostileString(r))
			case 1:
				sb.WriteString(goodString(r))
			default:
				q := []string{"'", `"`, "`"}[r.Intn(3)]
				sb.WriteString(q)
				for n := r.Intn(6); n > 0; n-- {
					sb.WriteString(esc[r.Intn(len(esc))])
				}
				if r.Chance(5, 6) {
					sb.WriteString(q)
				}
			}
			sb.WriteString([]string{" ", "", ":", " # c\n"}[r.Intn(4)])
		}
		c.caseLexer(sb.String(), "random")
	}
}
