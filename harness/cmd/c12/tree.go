package main

import (
	"fmt"
	"runtime"
	"strconv"
	"strings"

	"github.com/ozontech/seq-db/frac/processor"
	"github.com/ozontech/seq-db/node"
	"github.com/ozontech/seq-db/parser"
	"github.com/ozontech/seq-db/seq"
)

// T is a boolean tree in the harness' own representation: op 'a' leaf n, '!' not, '&' and, '|' or, '^' nand.
type T struct {
	op   byte
	n    int
	l, r *T
}

// wsTokens are keyword tokens of field fk that differ from the plain ones only by outer whitespace (significant inside a
// quoted value), or that are numbers only after trimming; each is posted on the documents of the atom given here - a
// DIFFERENT atom than the trimmed value's, so that trimming a bound or a literal changes the selected documents.
var wsTokens = map[string]int{" v0": 1, " v1": 0, "v0 ": 1, "v1 ": 0, "\tv0\t": 1, " 5": 0, "5": 1, "5 ": 0}

const starLeaf = 1000000 // leaf id of the `*` query (SV.Parser.tokSeqQL.star)

func leaf(n int) *T           { return &T{op: 'a', n: n} }
func not(c *T) *T             { return &T{op: '!', l: c} }
func bin(op byte, l, r *T) *T { return &T{op: op, l: l, r: r} }

func (t *T) prefix(sb *strings.Builder) {
	if sb.Len() > 0 {
		sb.WriteByte(',')
	}
	switch t.op {
	case 'a':
		fmt.Fprintf(sb, "a%d", t.n)
	case '!':
		sb.WriteByte('!')
		t.l.prefix(sb)
	default:
		sb.WriteByte(t.op)
		t.l.prefix(sb)
		t.r.prefix(sb)
	}
}

func (t *T) String() string {
	var sb strings.Builder
	t.prefix(&sb)
	return sb.String()
}

func (t *T) size() int {
	switch t.op {
	case 'a':
		return 1
	case '!':
		return 1 + t.l.size()
	}
	return 1 + t.l.size() + t.r.size()
}

func (t *T) hasNot() bool {
	switch t.op {
	case 'a':
		return false
	case '!':
		return true
	}
	return t.l.hasNot() || t.r.hasNot()
}

// eval is the harness' own reference semantics (NAND = not left and right); env bit j = atom j.
func (t *T) eval(env func(int) bool) bool {
	switch t.op {
	case 'a':
		return env(t.n)
	case '!':
		return !t.l.eval(env)
	case '&':
		return t.l.eval(env) && t.r.eval(env)
	case '|':
		return t.l.eval(env) || t.r.eval(env)
	case '^':
		return !t.l.eval(env) && t.r.eval(env)
	}
	panic("bad op")
}

func (t *T) table(k int) string {
	b := make([]byte, 1<<k)
	for i := range b {
		b[i] = '0'
		if t.eval(func(j int) bool { return i>>j&1 == 1 }) {
			b[i] = '1'
		}
	}
	return string(b)
}

// leafNode builds the parser node of leaf n: Literal f:v<n>.
func leafNode(n int) *parser.ASTNode {
	return &parser.ASTNode{Value: &parser.Literal{Field: "f", Terms: []parser.Term{{Kind: parser.TermText, Data: "v" + strconv.Itoa(n)}}}}
}

func (t *T) toReal() *parser.ASTNode {
	switch t.op {
	case 'a':
		return leafNode(t.n)
	case '!':
		return &parser.ASTNode{Children: []*parser.ASTNode{t.l.toReal()}, Value: &parser.Logical{Operator: parser.LogicalNot}}
	}
	op := parser.LogicalAnd
	switch t.op {
	case '|':
		op = parser.LogicalOr
	case '^':
		op = parser.LogicalNAnd
	}
	return &parser.ASTNode{Children: []*parser.ASTNode{t.l.toReal(), t.r.toReal()}, Value: &parser.Logical{Operator: op}}
}

// leafID recovers the atom number from a parsed leaf: the first text term is "v<n>" (Literal) or the From bound (Range).
func leafID(tok parser.Token) (int, error) {
	data := ""
	switch v := tok.(type) {
	case *parser.Literal:
		if v.Field == seq.TokenAll && len(v.Terms) == 1 && v.Terms[0].IsWildcard() {
			return starLeaf, nil
		}
		if len(v.Terms) == 0 {
			return 0, fmt.Errorf("literal without terms")
		}
		data = v.Terms[0].Data
	case *parser.Range:
		data = v.From.Data
	default:
		return 0, fmt.Errorf("unknown leaf %T", tok)
	}
	if a, ok := wsTokens[data]; ok {
		return a, nil
	}
	if len(data) < 2 || (data[0] != 'v' && data[0] != 'V') {
		return 0, fmt.Errorf("leaf value %q", data)
	}
	// v<n>, or v<one rune of another class><n>
	digits := strings.TrimLeftFunc(data[1:], func(r rune) bool { return r < '0' || r > '9' })
	if len([]rune(data[1:]))-len([]rune(digits)) > 1 {
		return 0, fmt.Errorf("leaf value %q", data)
	}
	return strconv.Atoi(digits)
}

func fromReal(n *parser.ASTNode) (*T, error) {
	if n == nil {
		return nil, fmt.Errorf("nil node")
	}
	lg, is := n.Value.(*parser.Logical)
	if !is {
		id, err := leafID(n.Value)
		if err != nil {
			return nil, err
		}
		if len(n.Children) != 0 {
			return nil, fmt.Errorf("leaf with children")
		}
		return leaf(id), nil
	}
	want := 2
	if lg.Operator == parser.LogicalNot {
		want = 1
	}
	if len(n.Children) != want {
		return nil, fmt.Errorf("operator %d with %d children", lg.Operator, len(n.Children))
	}
	l, err := fromReal(n.Children[0])
	if err != nil {
		return nil, err
	}
	if want == 1 {
		return not(l), nil
	}
	r, err := fromReal(n.Children[1])
	if err != nil {
		return nil, err
	}
	switch lg.Operator {
	case parser.LogicalAnd:
		return bin('&', l, r), nil
	case parser.LogicalOr:
		return bin('|', l, r), nil
	case parser.LogicalNAnd:
		return bin('^', l, r), nil
	}
	return nil, fmt.Errorf("unknown operator %d", lg.Operator)
}

// realTable evaluates a parser AST with the real eval-tree builder and the real node package on the universe of
// 2^k documents (LID i+1 = assignment i); leafSet says which atom a leaf token stands for.
func realTable(root *parser.ASTNode, k int, leafAtom func(parser.Token) (int, error)) (string, error) {
	u := 1 << k
	newLeaf := func(tok parser.Token) (node.Node, error) {
		a, err := leafAtom(tok)
		if err != nil {
			return nil, err
		}
		var lids []uint32
		for i := 0; i < u; i++ {
			if a == starLeaf || i>>a&1 == 1 {
				lids = append(lids, uint32(i+1))
			}
		}
		return node.NewStatic(lids, false), nil
	}
	nd, err := processor.VerifBuildEvalTree(root, 1, uint32(u), false, newLeaf)
	if err != nil {
		return "", err
	}
	b := []byte(strings.Repeat("0", u))
	prev := uint32(0)
	for steps := 0; ; steps++ {
		id, has := nd.Next()
		if !has {
			break
		}
		if id < 1 || int(id) > u || id <= prev || steps > u {
			return "", fmt.Errorf("node stream out of order or out of range: %d after %d", id, prev)
		}
		prev = id
		b[id-1] = '1'
	}
	return string(b), nil
}

// guarded runs f under recover; a panic is returned as (site, message).
func guarded(f func()) (panicked bool, site, msg string) {
	defer func() {
		if r := recover(); r != nil {
			panicked = true
			msg = fmt.Sprint(r)
			site = "unknown"
			pcs := make([]uintptr, 40)
			n := runtime.Callers(2, pcs)
			frames := runtime.CallersFrames(pcs[:n])
			for {
				fr, more := frames.Next()
				const pfx = "github.com/ozontech/seq-db/"
				if strings.HasPrefix(fr.Function, pfx) && !strings.Contains(fr.Function, "Verif") {
					fn := strings.TrimPrefix(fr.Function, pfx)
					file := fr.File
					if i := strings.Index(file, "/parser/"); i >= 0 {
						file = file[i+1:]
					} else if i := strings.LastIndex(file, "/"); i >= 0 {
						file = file[i+1:]
					}
					if j := strings.LastIndex(fn, "."); j >= 0 {
						fn = fn[j+1:]
					}
					site = file + ":" + fn
					break
				}
				if !more {
					break
				}
			}
		}
	}()
	f()
	return
}
