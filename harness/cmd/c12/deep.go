package main

import (
	"bytes"
	"context"
	"fmt"
	"os"
	"os/exec"
	"regexp"
	"strconv"
	"strings"
	"time"

	"github.com/ozontech/seq-db/parser"
)

// Deeply nested and very long queries can exhaust the goroutine stack, which is a fatal error (not a panic):
// such parses run in a child process (the harness binary re-executed with the sub-command child-deep).

func deepQuery(shape string, d int, legacy bool) string {
	kw := func(s string) string {
		if legacy {
			return strings.ToUpper(s)
		}
		return s
	}
	switch shape {
	case "open":
		return strings.Repeat("(", d)
	case "paren":
		return strings.Repeat("(", d) + "fk:a" + strings.Repeat(")", d)
	case "not":
		return strings.Repeat(kw("not")+" ", d) + "fk:a"
	case "notparen":
		return strings.Repeat(kw("not")+"(", d) + "fk:a" + strings.Repeat(")", d)
	case "orchain":
		return strings.Repeat("fk:a "+kw("or")+" ", d) + "fk:a"
	case "andnotchain":
		return strings.Repeat(kw("not")+" fk:a "+kw("and")+" ", d) + "fk:a"
	}
	return ""
}

func childDeep(args []string) {
	if len(args) != 3 {
		os.Exit(64)
	}
	d, _ := strconv.Atoi(args[2])
	legacy := args[0] == "legacy"
	q := deepQuery(args[1], d, legacy)
	o, _, _ := runParser(args[0], q, nil)
	fmt.Println("RESULT", o.kind, len(q))
	if o.kind == "panic" {
		fmt.Println("SITE", o.site, o.msg)
	}
}

var frameRe = regexp.MustCompile(`(?m)^github\.com/ozontech/seq-db/(\S+?)\.(?:\(\*?(\w+)\)\.)?(\w+)\(.*\n\s+(\S+?):\d+`)

func (c *ctx) caseDeep(which, shape string, d int) {
	key := fmt.Sprintf("deep %s %s %d", which, shape, d)
	cctx, cancel := context.WithTimeout(context.Background(), 180*time.Second)
	defer cancel()
	cmd := exec.CommandContext(cctx, os.Args[0], "child-deep", which, shape, strconv.Itoa(d))
	var out, errb bytes.Buffer
	cmd.Stdout, cmd.Stderr = &out, &errb
	cmd.Env = append(os.Environ(), "GOMEMLIMIT=8GiB")
	err := cmd.Run()
	res := "crash"
	if err == nil {
		f := strings.Fields(lastLine(out.String(), "RESULT"))
		if len(f) >= 2 {
			res = f[1]
		}
	} else if cctx.Err() != nil {
		res = "timeout"
	}
	c.orTotal.Case(key, res != "ok", "parser="+which, "gen=deep-"+shape, "result="+res)
	switch res {
	case "crash":
		site, class := "parser:"+which, "crash"
		stderr := errb.String()
		if strings.Contains(stderr, "stack exceeds") {
			class = "stack-overflow"
		}
		// the recursive function of the parser that fills the stack (the topmost frame is an arbitrary leaf call)
		all := frameRe.FindAllStringSubmatch(stderr, -1)
		pick := -1
		for i, m := range all {
			if strings.Contains(m[3], "Subexpr") || m[3] == "propagateNot" || m[3] == "buildEvalTree" {
				pick = i
				break
			}
		}
		if pick < 0 && len(all) > 0 {
			pick = 0
		}
		if pick >= 0 {
			m := all[pick]
			file := m[4]
			if i := strings.Index(file, "/"+m[1]+"/"); i >= 0 {
				file = file[i+1:]
			}
			site = file + ":" + m[3]
		}
		c.violate(site, class, fmt.Sprintf("%s on a query of %d bytes (%s x %d) kills the process: %s", which, len(deepQuery(shape, d, which == "legacy")), shape, d, firstLine(stderr)), key)
	case "timeout":
		c.violate("parser:"+which, "no-termination", "parse did not return within 180 s", key)
	case "panic":
		c.violate("parser:"+which, "parser-panics", lastLine(out.String(), "SITE"), key)
	}
}

func lastLine(s, prefix string) string {
	res := ""
	for _, l := range strings.Split(s, "\n") {
		if strings.HasPrefix(l, prefix) {
			res = l
		}
	}
	return res
}

func firstLine(s string) string {
	for _, l := range strings.Split(s, "\n") {
		if strings.HasPrefix(l, "runtime:") || strings.HasPrefix(l, "fatal") || strings.HasPrefix(l, "panic") {
			return l
		}
	}
	return ""
}

func (c *ctx) runDeep() {
	type dc struct {
		which, shape string
		d            int
	}
	// queries up to 16 MiB in the quick tier (a proxy with the default 4 MiB gRPC limit lets the first two through)
	cases := []dc{
		{"legacy", "open", 2_000_000}, {"seqql", "open", 4_100_000},
		{"legacy", "not", 3_000_000}, {"seqql", "notparen", 2_000_000}, {"legacy", "paren", 2_000_000},
	}
	if c.o.Thorough() {
		// the store accepts 256 MiB requests
		cases = append(cases, dc{"seqql", "not", 25_000_000}, dc{"seqql", "orchain", 12_000_000}, dc{"legacy", "orchain", 12_000_000},
			dc{"seqql", "andnotchain", 8_000_000})
	}
	for _, x := range cases {
		c.caseDeep(x.which, x.shape, x.d)
	}
}

var _ = parser.ParseQuery
