// C12 harness: query parsing is total and preserves the boolean meaning.
//
// Channels (implementation vs Lean model through the driver):
//
//	pnot         parser.propagateNot on trees              vs SV.Parser.propagateNot
//	eval         buildEvalTree + node package truth tables vs SV.Parser.Ast.eval          (ties the NAND reading)
//	seqql.skel   ParseSeqQL / parseSeqQLFilter on rendered abstract token lists vs sqParse / sqFilter on tokSeqQL
//	legacy.skel  ParseQuery / buildAst likewise            vs lgParse / lgParseRaw on tokLegacy
//
// Oracles (the property itself on the real code):
//
//	truth        written expression (random parenthesisation, keyword case, in-lists, multi-word text) parsed by the real
//	             parsers and evaluated through the real eval tree == truth table of the expression
//	total        hostile strings x every mapping type x nil mapping through ParseSeqQL / ParseQuery /
//	             ParseAggregationFilter under recover and a watchdog: a panic or a hang is a violation
package main

import (
	"encoding/hex"
	"fmt"
	"os"
	"strings"
	"sync/atomic"
	"time"

	"go.uber.org/zap"

	"github.com/ozontech/seq-db/logger"
	"github.com/ozontech/seq-db/parser"
	"github.com/ozontech/seq-db/seq"

	"verifharness/internal/vh"
)

// ---------------------------------------------------------------- fields and mappings

var fieldNames = []string{"fk", "ft", "fp", "fo", "fg", "fn", "fe", "fz", "fu"}
var fieldTypes = []seq.TokenizerType{seq.TokenizerTypeKeyword, seq.TokenizerTypeText, seq.TokenizerTypePath, seq.TokenizerTypeObject,
	seq.TokenizerTypeTags, seq.TokenizerTypeNested, seq.TokenizerTypeExists, seq.TokenizerTypeNoop}

const modelMapping = "k,t,p,o,g,n,e,z,z" // fu is unmapped -> noop
const modelNilMapping = "k,k,k,k,k,k,k,k,k"

func fullMapping() seq.Mapping {
	m := seq.Mapping{}
	for i, t := range fieldTypes {
		m[fieldNames[i]] = seq.NewSingleType(t, "", 0)
	}
	// a multi-type field: main type text, second type keyword
	m["fm"] = seq.MappingTypes{Main: seq.MappingType{TokenizerType: seq.TokenizerTypeText},
		All: []seq.MappingType{{Title: "fm", TokenizerType: seq.TokenizerTypeText}, {Title: "fm.keyword", TokenizerType: seq.TokenizerTypeKeyword}}}
	m["fm.keyword"] = seq.NewSingleType(seq.TokenizerTypeKeyword, "fm.keyword", 0)
	return m
}

func mappingByID(id string) seq.Mapping {
	switch id {
	case "nil":
		return nil
	case "test":
		return seq.TestMapping
	case "safe": // only keyword / text / path
		m := seq.Mapping{}
		for i := 0; i < 3; i++ {
			m[fieldNames[i]] = seq.NewSingleType(fieldTypes[i], "", 0)
		}
		return m
	}
	return fullMapping()
}

// ---------------------------------------------------------------- abstract tokens

type tok struct {
	kind string // ( ) and or not pipe * fields bad atom
	n    int
	fid  int
	form byte // p r i
}

func (t tok) model() string {
	if t.kind == "atom" {
		return fmt.Sprintf("a%d.%d.%c", t.n, t.fid, t.form)
	}
	return t.kind
}

func modelToks(ts []tok) string {
	if len(ts) == 0 {
		return "-"
	}
	s := make([]string, len(ts))
	for i, t := range ts {
		s[i] = t.model()
	}
	return strings.Join(s, ",")
}

func (t tok) text(legacy bool) string {
	switch t.kind {
	case "pipe":
		return "|"
	case "fields":
		return "fields x"
	case "bad":
		return "$"
	case "and", "or", "not":
		if legacy {
			return strings.ToUpper(t.kind)
		}
		return t.kind
	case "atom":
		f := fieldNames[t.fid]
		switch t.form {
		case 'r':
			if legacy {
				return fmt.Sprintf("%s:[v%d TO w]", f, t.n)
			}
			return fmt.Sprintf("%s:[v%d, w]", f, t.n)
		case 'i':
			return fmt.Sprintf("%s:in(v%d)", f, t.n)
		}
		return fmt.Sprintf("%s:v%d", f, t.n)
	}
	return t.kind
}

func renderToks(ts []tok, legacy bool) string {
	s := make([]string, len(ts))
	for i, t := range ts {
		s[i] = t.text(legacy)
	}
	return strings.Join(s, " ")
}

// ---------------------------------------------------------------- running the real parsers

type outcome struct {
	kind string // ok err panic
	tree *T
	site string
	msg  string
	note string // for ok results that cannot be mapped back to a tree
}

func (o outcome) canon() string {
	switch o.kind {
	case "ok":
		if o.tree == nil {
			return "ok ?" + o.note
		}
		return "ok " + o.tree.String()
	}
	return o.kind
}

func runParser(which string, q string, m seq.Mapping) (o outcome, root *parser.ASTNode, extra string) {
	var err error
	p, site, msg := guarded(func() {
		switch which {
		case "seqql":
			var r parser.SeqQLQuery
			r, err = parser.ParseSeqQL(q, m)
			root = r.Root
		case "seqql.filter":
			var atEnd, atPipe bool
			root, atEnd, atPipe, err = parser.VerifParseSeqQLFilter(q, m)
			switch {
			case atEnd:
				extra = "end"
			case atPipe:
				extra = "pipe"
			default:
				extra = "other"
			}
		case "legacy":
			root, err = parser.ParseQuery(q, m)
		case "legacy.raw":
			root, err = parser.VerifBuildAst(q, m)
		case "agg":
			var l *parser.Literal
			l, err = parser.ParseAggregationFilter(q)
			if l != nil {
				root = &parser.ASTNode{Value: l}
			}
		}
	})
	if p {
		return outcome{kind: "panic", site: site, msg: msg}, nil, ""
	}
	if err != nil {
		return outcome{kind: "err", msg: err.Error()}, nil, ""
	}
	return outcome{kind: "ok"}, root, extra
}

// ---------------------------------------------------------------- watchdog for hangs

var curCase atomic.Value // string
var caseSeq atomic.Int64 // incremented at the start of every in-process parse
var caseActive atomic.Bool

func beginCase(s string) {
	if len(s) > 20000 {
		s = s[:20000]
	}
	curCase.Store(s)
	caseSeq.Add(1)
	caseActive.Store(true)
}

func endCase() { caseActive.Store(false) }

// ---------------------------------------------------------------- main

type ctx struct {
	o       vh.Opts
	rep     *vh.Report
	chPnot  *vh.Channel
	chEval  *vh.Channel
	chSq    *vh.Channel
	chLg    *vh.Channel
	chLex   *vh.Channel
	chLgStr *vh.Channel
	chLexer *vh.Channel
	nLexer  int
	nLg     int
	orTruth *vh.Oracle
	orTotal *vh.Oracle
	seenV   map[string]bool
	nLex    int
}

func (c *ctx) violate(site, class, what string, replay ...string) {
	key := site + "|" + class
	if c.seenV[key] {
		return
	}
	c.seenV[key] = true
	c.rep.Violate(vh.Violation{Site: site, Class: class, What: what, Replay: replay})
}

func hexs(s string) string {
	if s == "" {
		return "-"
	}
	return hex.EncodeToString([]byte(s))
}

func unhex(s string) string {
	if s == "-" {
		return ""
	}
	b, _ := hex.DecodeString(s)
	return string(b)
}

func main() {
	if len(os.Args) > 1 && os.Args[1] == "child-deep" {
		logger.SetLevel(zap.FatalLevel)
		childDeep(os.Args[2:])
		return
	}
	o := vh.ParseFlags()
	logger.SetLevel(zap.FatalLevel)
	rep := vh.NewReport("C12", o)
	c := &ctx{o: o, rep: rep, seenV: map[string]bool{}}
	c.chPnot = vh.NewChannel("pnot", "parser.propagateNot vs SV.Parser.propagateNot on every NAND-free tree up to a node bound over 3 atoms and on random larger trees; non-trivial = the tree contains a NOT")
	c.chEval = vh.NewChannel("eval", "frac/processor.buildEvalTree + node.{And,Or,NAnd,Not} on a universe of 2^k documents vs SV.Parser.Ast.eval; trees with NAND; non-trivial = contains NOT or NAND")
	c.chSq = vh.NewChannel("seqql.skel", "ParseSeqQL and parseSeqQLFilter on rendered abstract token lists (every list up to a length bound over two alphabets, plus random longer ones) vs sqParse/sqFilter on tokSeqQL; result kind ok/err/panic and the tree; non-trivial = parses to a tree with an operator")
	c.chLg = vh.NewChannel("legacy.skel", "ParseQuery and buildAst likewise vs lgParse/lgParseRaw on tokLegacy; non-trivial = parses to a tree with an operator")
	c.chLex = vh.NewChannel("seqql.lex", "ParseSeqQL on strings (well-formed generated queries and hostile/mutated ones, 4 mappings, case sensitive on/off) vs SV.Parser.parseSeqQL run on the real lexer's token stream annotated with Go's unicode tables: result kind, the whole tree with every literal/range and its terms, and the pipes; non-trivial = accepted query of more than 3 tokens")
	c.chLexer = vh.NewChannel("seqql.lexer", "the SeqQL lexer (all Next() calls up to IsEnd, through VerifLex) vs SV.Parser.lexAll on the runes of the query annotated with Go's unicode tables and strconv.UnquoteChar's answers: every string over an 18-symbol hostile alphabet up to a length bound, plus random quoted strings with all escape kinds, comments, invalid UTF-8; token bytes and the quoted / space-skipped / raw flags; non-trivial = a quoted token or more than 4 tokens")
	c.chLgStr = vh.NewChannel("legacy.str", "ParseQuery and ParseAggregationFilter on strings (well-formed generated, hostile, mutated; 4 mappings; case sensitive on/off) vs SV.Parser.parseQueryRunes / parseAggFilter on []rune(query) annotated with Go's unicode tables: result kind and the whole tree with all literals, ranges and terms; non-trivial = accepted query of more than 8 bytes")
	c.orTruth = vh.NewOracle("truth", "truth table (real eval tree over 2^k documents) of the AST returned by ParseSeqQL/ParseQuery == truth table of the written expression; all trees up to a node bound with minimal and full parentheses, plus random expressions with random redundant parentheses, keyword case, in-lists and multi-word text; non-trivial = expression with at least two operators")
	c.orTotal = vh.NewOracle("total", "ParseSeqQL/ParseQuery/ParseAggregationFilter under recover with a watchdog: returns a query or an error for grammar-derived and mutated strings x mappings (all types, test mapping, keyword/text/path only, nil); non-trivial = input is not accepted by the parser (error path) or mentions a non-searchable field type")

	// watchdog: the same parse being active over 45 consecutive one-second ticks of this goroutine is reported as a
	// hang (ticks, not wall-clock: when the whole process is starved or suspended the ticks stall as well)
	go func() {
		last, same := int64(-1), 0
		for {
			time.Sleep(time.Second)
			seq := caseSeq.Load()
			if caseActive.Load() && seq == last {
				same++
			} else {
				same = 0
			}
			last = seq
			if same >= 45 {
				cs, _ := curCase.Load().(string)
				c.violate("parser:hang", "no-termination", "parse did not return within 45 s", cs)
				rep.AddOracle(c.orTotal)
				rep.Write(o.Out)
				os.Exit(0)
			}
		}
	}()

	if o.Replay != "" {
		lines, err := vh.ReadReplay(o.Replay)
		if err != nil {
			fmt.Fprintln(os.Stderr, err)
			os.Exit(3)
		}
		for _, l := range lines {
			c.replayLine(l)
		}
	} else {
		rng := vh.NewRNG(o.Seed)
		c.runPnot(rng.Fork())
		c.runEval(rng.Fork())
		c.runSkel(rng.Fork())
		c.runTruth(rng.Fork())
		c.runTotal(rng.Fork())
		c.runLexer(rng.Fork())
		c.runLex(rng.Fork())
		c.runLegacyStr(rng.Fork())
		c.runDeep()
	}
	endCase()
	rep.AddChannel(c.chPnot, o.Driver)
	rep.AddChannel(c.chEval, o.Driver)
	rep.AddChannel(c.chSq, o.Driver)
	rep.AddChannel(c.chLg, o.Driver)
	rep.AddChannel(c.chLexer, o.Driver)
	rep.AddChannel(c.chLex, o.Driver)
	rep.AddChannel(c.chLgStr, o.Driver)
	rep.AddOracle(c.orTruth)
	rep.AddOracle(c.orTotal)
	rep.Write(o.Out)
}

// replayLine re-runs one op line: either a driver request of a channel or an oracle case.
func (c *ctx) replayLine(l string) {
	f := strings.Fields(l)
	if len(f) == 0 {
		return
	}
	switch f[0] {
	case "pnot":
		if t, err := parseT(f[1]); err == nil {
			c.casePnot(t)
		}
	case "eval":
		if t, err := parseT(f[2]); err == nil {
			var k int
			fmt.Sscanf(f[1], "%d", &k)
			c.caseEval(t, k)
		}
	case "sqfull", "sqfilter", "lgfull", "lgraw":
		if ts, err := parseToks(f[2]); err == nil {
			c.caseSkel(ts, f[1] == modelNilMapping)
		}
	case "truth":
		// truth <parser> <k> <expected table> <hex query> <hex leaf map>
		if len(f) == 6 {
			var k int
			fmt.Sscanf(f[2], "%d", &k)
			c.caseTruth(f[1], k, f[3], unhex(f[4]), f[5], "replay")
		}
	case "lex":
		// lex <mapping id> <cs> <hex query>
		if len(f) == 4 {
			c.caseLex(f[1], f[2] == "1", unhex(f[3]), "replay")
		}
	case "lexerq":
		if len(f) == 2 {
			c.caseLexer(unhex(f[1]), "replay")
		}
	case "lexer":
	case "lgstrq":
		// lgstrq <mapping id> <cs> <hex query>
		if len(f) == 4 {
			c.caseLegacyStr(f[1], f[2] == "1", unhex(f[3]), "replay")
		}
	case "sqlex", "lgstr", "aggstr":
		// a driver request cannot be turned back into a string; nothing to re-run
	case "deepin":
		if len(f) == 4 {
			var d int
			fmt.Sscanf(f[3], "%d", &d)
			c.caseDeepIn(f[1], f[2], d)
		}
	case "deep":
		if len(f) == 4 {
			var d int
			fmt.Sscanf(f[3], "%d", &d)
			c.caseDeep(f[1], f[2], d)
		}
	case "total":
		// total <parser> <mapping id> <hex query>
		if len(f) == 4 {
			c.caseTotal(f[1], f[2], unhex(f[3]), "replay")
		}
	}
}
