package main

import (
	"context"
	"fmt"
	"math"
	"strconv"
	"strings"
	"unicode"

	"github.com/ozontech/seq-db/frac/lids"
	"github.com/ozontech/seq-db/frac/processor"
	"github.com/ozontech/seq-db/metric/stopwatch"
	"github.com/ozontech/seq-db/node"
	"github.com/ozontech/seq-db/parser"
	"github.com/ozontech/seq-db/pattern"
	"github.com/ozontech/seq-db/seq"
)

// A small fake fraction index for the truth oracle: 2^k documents (LID i+1 = assignment i, ids descending), and for
// every atom a token "v<atom>" under each of the fields the renderer uses, posted on the documents whose assignment sets
// that atom.  The parsed query is evaluated by the real processor.IndexSearch (its own leaf callback, real
// pattern.Search for wildcard / range leaves, real eval tree and node package).

type sTok struct {
	field, val string
	lids       []uint32
}

type sIndex struct {
	ids  []seq.ID
	toks []sTok
}

func (f *sIndex) GetMID(l seq.LID) seq.MID { return f.ids[l].MID }
func (f *sIndex) GetRID(l seq.LID) seq.RID { return f.ids[l].RID }
func (f *sIndex) Len() int                 { return len(f.ids) }
func (f *sIndex) LessOrEqual(l seq.LID, id seq.ID) bool {
	if f.GetMID(l) == id.MID {
		return f.GetRID(l) <= id.RID
	}
	return f.GetMID(l) < id.MID
}
func (f *sIndex) GetValByTID(tid uint32) []byte { return []byte(f.toks[tid].val) }

type sTP struct {
	f    *sIndex
	tids []uint32
}

func (p *sTP) GetToken(i uint32) []byte { return []byte(p.f.toks[p.tids[i-1]].val) }
func (p *sTP) FirstTID() uint32         { return 1 }
func (p *sTP) LastTID() uint32          { return uint32(len(p.tids)) }
func (p *sTP) Ordered() bool            { return false }

func (f *sIndex) GetTIDsByTokenExpr(t parser.Token) ([]uint32, error) {
	tp := &sTP{f: f}
	for i, tk := range f.toks {
		if tk.field == parser.GetField(t) {
			tp.tids = append(tp.tids, uint32(i))
		}
	}
	if len(tp.tids) == 0 {
		return nil, nil
	}
	res, err := pattern.Search(context.Background(), t, tp)
	for i := range res {
		res[i] = tp.tids[res[i]-1]
	}
	return res, err
}

func (f *sIndex) GetLIDsFromTIDs(tids []uint32, _ lids.Counter, minLID, maxLID uint32, order seq.DocsOrder) []node.Node {
	var nodes []node.Node
	for _, tid := range tids {
		var l []uint32
		for _, v := range f.toks[tid].lids {
			if minLID <= v && v <= maxLID {
				l = append(l, v)
			}
		}
		nodes = append(nodes, node.NewStatic(l, order.IsReverse()))
	}
	return nodes
}

var sIndexCache = map[string]*sIndex{}

// midOf: the documents are 10 apart in time (newest = LID 1), so that a time window can fall into a gap between two of them
func midOf(u, l int) seq.MID { return seq.MID(1000 + 10*(u-l)) }

// window is a search time window; all = the whole fraction
type window struct {
	name     string
	from, to seq.MID
}

// windowsFor: the whole fraction, single-document windows (newest, a middle one, oldest), windows that fall into a gap
// between two documents (empty border range: no LID qualifies) and windows entirely before / after the fraction
func windowsFor(k int) []window {
	u := 1 << k
	mid := u / 2
	return []window{
		{"all", 0, seq.MID(1 << 40)},
		{"single-newest", midOf(u, 1), midOf(u, 1)},
		{"single-middle", midOf(u, mid), midOf(u, mid)},
		{"single-oldest", midOf(u, u), midOf(u, u)},
		{"gap-middle", midOf(u, mid) + 3, midOf(u, mid) + 7},
		{"gap-top", midOf(u, 2) + 1, midOf(u, 2) + 9},
		{"gap-bottom", midOf(u, u) + 2, midOf(u, u) + 4},
		{"two", midOf(u, mid+1), midOf(u, mid)},
		{"before", 1, 5},
		{"after", midOf(u, 1) + 1, midOf(u, 1) + 100},
	}
}

// maskWindow keeps of a truth table the documents whose time lies in the window
func maskWindow(table string, k int, w window) string {
	u := 1 << k
	b := []byte(table)
	for l := 1; l <= u; l++ {
		if m := midOf(u, l); m < w.from || m > w.to {
			b[l-1] = '0'
		}
	}
	return string(b)
}

// lowerRunes is the index side's case rule: unicode.ToLower rune by rune (tokenizer.toLowerTryInplace, proved in C11)
func lowerRunes(s string) string {
	rs := []rune(s)
	for i, r := range rs {
		rs[i] = unicode.ToLower(r)
	}
	return string(rs)
}

func indexFor(k int, cs bool) *sIndex {
	key := fmt.Sprintf("%d/%v", k, cs)
	if f, ok := sIndexCache[key]; ok {
		return f
	}
	u := 1 << k
	f := &sIndex{ids: []seq.ID{{MID: seq.MID(^uint64(0)), RID: seq.RID(^uint64(0))}}}
	for l := 1; l <= u; l++ {
		f.ids = append(f.ids, seq.ID{MID: midOf(u, l), RID: seq.RID(l)})
	}
	for _, field := range []string{"fk", "ft", "fp"} {
		for a := 0; a < k; a++ {
			var ls []uint32
			for i := 0; i < u; i++ {
				if i>>a&1 == 1 {
					ls = append(ls, uint32(i+1))
				}
			}
			f.toks = append(f.toks, sTok{field, fmt.Sprintf("v%d", a), ls})
			for _, d := range append(append([]string(nil), decos...), casedDecos...) {
				w := fmt.Sprintf("v%s%d", d, a)
				if !cs {
					w = lowerRunes(w) // what the tokenizers index unless case sensitivity is configured
				}
				f.toks = append(f.toks, sTok{field, w, ls})
			}
			if field == "fk" && a == 0 {
				for w, at := range wsTokens {
					var l2 []uint32
					for i := 0; i < u; i++ {
						if i>>at&1 == 1 {
							l2 = append(l2, uint32(i+1))
						}
					}
					f.toks = append(f.toks, sTok{field, w, l2})
				}
			}
			if field == "fk" {
				// the builtin existence tokens: field names as they are, whatever the case configuration
				f.toks = append(f.toks, sTok{"_exists_", fmt.Sprintf("V%d", a), ls})
			}
		}
	}
	sIndexCache[key] = f
	return f
}

// searchTable runs the parsed query through processor.IndexSearch on the fake index and returns the truth table.
func searchTable(root *parser.ASTNode, k int, cs bool, order seq.DocsOrder, w window) (string, error) {
	f := indexFor(k, cs)
	u := 1 << k
	qpr, err := processor.IndexSearch(context.Background(), processor.SearchParams{AST: root, From: w.from, To: w.to, Limit: u + 5, WithTotal: true, Order: order},
		f, processor.AggLimits{}, stopwatch.New())
	if err != nil {
		return "", err
	}
	b := []byte(strings.Repeat("0", u))
	for _, id := range qpr.IDs {
		l := int(id.ID.RID)
		if l < 1 || l > u || b[l-1] == '1' {
			return "", fmt.Errorf("unexpected or repeated id %v", id.ID)
		}
		b[l-1] = '1'
	}
	if int(qpr.Total) != strings.Count(string(b), "1") {
		return "", fmt.Errorf("total %d for %d ids", qpr.Total, strings.Count(string(b), "1"))
	}
	return string(b), nil
}

// foreignLeaf returns the first exact (single text term) literal of the tree whose (field, value) is not a token of the
// fake index, as "field:value", or "".
func foreignLeaf(n *parser.ASTNode, k int, cs bool) string {
	if n == nil {
		return ""
	}
	if lit, ok := n.Value.(*parser.Literal); ok {
		if len(lit.Terms) == 1 && lit.Terms[0].Kind == parser.TermText {
			for _, t := range indexFor(k, cs).toks {
				if t.field == lit.Field && t.val == lit.Terms[0].Data {
					return ""
				}
			}
			return fmt.Sprintf("%s:%q", lit.Field, lit.Terms[0].Data)
		}
		return ""
	}
	if rg, ok := n.Value.(*parser.Range); ok {
		// a point range [X, X] whose X is no token of the field
		if rg.IncludeFrom && rg.IncludeTo && rg.From.Kind == parser.TermText && rg.To.Kind == parser.TermText && rg.From.Data == rg.To.Data {
			for _, t := range indexFor(k, cs).toks {
				if t.field == rg.Field && t.val == rg.From.Data {
					return ""
				}
			}
			return fmt.Sprintf("%s:[%q, %q]", rg.Field, rg.From.Data, rg.To.Data)
		}
		return ""
	}
	for _, ch := range n.Children {
		if m := foreignLeaf(ch, k, cs); m != "" {
			return m
		}
	}
	return ""
}

// refRange is the reference meaning of field:[lo, hi] over the fake index (independent of parser and pattern package):
// numbers are compared as numbers iff both given bounds are numbers (strconv.ParseFloat, untrimmed), otherwise byte
// strings; "*" is an open end; the bounds follow the field's case rule.
func refRange(k int, cs bool, field, lo, hi string, incLo, incHi bool) string {
	if !cs {
		lo, hi = lowerRunes(lo), lowerRunes(hi)
	}
	isNum := func(s string) (float64, bool) {
		v, err := strconv.ParseFloat(s, 64)
		return v, err == nil && !math.IsNaN(v) && !math.IsInf(v, 0)
	}
	lof, lon := isNum(lo)
	hif, hin := isNum(hi)
	numeric := (lo == "*" || lon) && (hi == "*" || hin)
	u := 1 << k
	b := []byte(strings.Repeat("0", u))
	for _, t := range indexFor(k, cs).toks {
		if t.field != field {
			continue
		}
		ok := true
		if numeric {
			v, isn := isNum(t.val)
			ok = isn
			if ok && lo != "*" {
				ok = lof < v || (incLo && lof == v)
			}
			if ok && hi != "*" {
				ok = v < hif || (incHi && v == hif)
			}
		} else {
			if lo != "*" {
				ok = lo < t.val || (incLo && lo == t.val)
			}
			if ok && hi != "*" {
				ok = t.val < hi || (incHi && t.val == hi)
			}
		}
		if ok {
			for _, l := range t.lids {
				b[l-1] = '1'
			}
		}
	}
	return string(b)
}
